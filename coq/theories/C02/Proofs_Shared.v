(* C02 — shared negative-cache state (ModelShared.v): what Cache.ServeDNS can synthesize from the
   denial-proof index and the subtree cuts, for every history of exchanges, clock advances, expiries,
   replacements and FIFO evictions. *)
From Sdns Require Import Common.Base Gen.C02 C02.Model C02.ModelCut C02.ModelNsec3 C02.ModelShared C02.Spec
     C02.Proofs_Order C02.Proofs_Nsec C02.Proofs_NsecTop C02.Proofs_Nsec3.
Open Scope Z_scope.

Lemma quarantine_blocks_admission lim st now zone q rs e u : sh_tomb st = Some u -> now < u ->
  record_index3 lim st now zone q rs e = st.
Proof.
  intros Ht Hu. unfold record_index3. destruct (_ || _); [reflexivity|]. destruct rs; [reflexivity|].
  destruct (_ <? _)%nat; [reflexivity|]. rewrite Ht. cbn. apply Z.ltb_lt in Hu. rewrite Hu. reflexivity.
Qed.

(* ---- RFC 8020: nothing exists below a name that does not exist *)
Lemma prefix_comparable (a b q : rname) : is_prefix a q -> is_prefix b q -> is_prefix a b \/ is_strict_prefix b a.
Proof.
  revert b q. induction a as [|x a IH]; intros b q [s Hs] [t Ht].
  - left. exists b. reflexivity.
  - destruct b as [|y b].
    + right. exists (x :: a). split; [discriminate | reflexivity].
    + subst q. cbn in Ht. injection Ht as Hxy Hr. subst y.
      destruct (IH b (a ++ s)) as [[u Hu]|[u [Hne Hu]]].
      * exists s; reflexivity.
      * exists t; exact Hr.
      * left. exists u. cbn. now rewrite Hu.
      * right. exists u. split; [exact Hne|]. cbn. now rewrite Hu.
Qed.
Lemma is_prefix_trans (a b c : rname) : is_prefix a b -> is_prefix b c -> is_prefix a c.
Proof. intros [s ->] [t ->]. exists (s ++ t). now rewrite app_assoc. Qed.
Lemma strict_prefix_prefix (a b c : rname) : is_strict_prefix a b -> is_prefix b c -> is_strict_prefix a c.
Proof.
  intros [s [Hs ->]] [t ->]. exists (s ++ t). split; [|now rewrite app_assoc].
  destruct s; [congruence | discriminate].
Qed.
Lemma strict_is_prefix (a b : rname) : is_strict_prefix a b -> is_prefix a b.
Proof. intros [s [_ ->]]. now exists s. Qed.
Lemma exists_direct_up z n p : exists_direct z n -> is_prefix p n -> exists_direct z p.
Proof. intros [w [Hw Hn]] Hp. exists w. split; [exact Hw | eapply is_prefix_trans; eauto]. Qed.

Theorem nothing_below_nonexistent z d q : ~ exists_in z d -> is_prefix d q -> ~ exists_in z q.
Proof.
  intros Hn Hdq [Hd | [Hb | Hw]].
  - apply Hn. left. exact (exists_direct_up z q d Hd Hdq).
  - destruct Hb as (c & tys & Hin & Hct & Hcq).
    destruct (prefix_comparable d c q Hdq (strict_is_prefix _ _ Hcq)) as [Hdc | Hcd].
    + apply Hn. left. exists c. split; [exists tys; exact Hin | exact Hdc].
    + apply Hn. right. left. exists c, tys. repeat split; assumption.
  - destruct Hw as (Hnd & ce & (Hsp & Hex & Hmax) & Hstar).
    destruct (prefix_comparable d ce q Hdq (strict_is_prefix _ _ Hsp)) as [Hdc | Hcd].
    + apply Hn. left. exact (exists_direct_up z ce d Hex Hdc).
    + apply Hn. right. right. split; [intros H; apply Hn; left; exact H|].
      exists ce. split; [|exact Hstar]. split; [exact Hcd|]. split; [exact Hex|].
      intros p Hp Hpe. apply Hmax; [eapply strict_prefix_prefix; eauto | exact Hpe].
Qed.

(* ---- list plumbing *)
Lemma keep_newest_incl {A} n (l : list A) x : In x (keep_newest n l) -> In x l.
Proof. unfold keep_newest. intros H. rewrite <- (firstn_skipn (length l - n) l). apply in_or_app. right. exact H. Qed.
Lemma insert_canon_in r l x : In x (insert_canon r l) -> x = r \/ In x l.
Proof.
  induction l as [|h t IH]; cbn; [intros [<-|[]]; auto|].
  destruct (is_lt _); cbn; [intros [<-|H]; auto|]. intros [<-|H]; [auto|]. destruct (IH H); auto.
Qed.
Lemma sort_canon_in l x : In x (sort_canon l) -> In x l.
Proof.
  induction l as [|h t IH]; cbn; [auto|]. intros H. apply insert_canon_in in H. destruct H as [->|H]; auto.
Qed.
Definition same_data (a b : cnsec) : Prop := c_owner a = c_owner b /\ c_next a = c_next b /\ c_types a = c_types b.
Lemma reindex_from_in i l x : In x (reindex_from i l) -> exists y, In y l /\ same_data x y.
Proof.
  revert i; induction l as [|h t IH]; intros i; cbn; [intros []|].
  intros [<-|H]; [exists h; split; [auto|repeat split]|]. destruct (IH _ H) as [y [Hy Hs]]. exists y. auto.
Qed.
Lemma genuine_same_data z a b : same_data a b -> genuine z b -> genuine z a.
Proof. intros (Ho & Hn & Ht) G. unfold genuine in *. now rewrite Ho, Hn, Ht. Qed.
Lemma put_recs_in l rs e x : In x (put_recs l rs e) -> In x l \/ In (fst x) rs.
Proof.
  unfold put_recs. revert l. induction rs as [|r t IH]; intros l; cbn; [auto|].
  intros H. destruct (IH _ H) as [H1|H1]; [|auto].
  unfold put_rec in H1. apply in_app_or in H1. destruct H1 as [H1|[<-|[]]]; [|cbn; auto].
  apply filter_In in H1. tauto.
Qed.

Lemma insert3_in r l x : In x (insert3 r l) -> x = r \/ In x l.
Proof.
  induction l as [|h t IH]; cbn; [intros [<-|[]]; auto|].
  destruct (ohash_lt _ _); cbn; [intros [<-|H]; auto|]. intros [<-|H]; [auto|]. destruct (IH H); auto.
Qed.
Lemma sort3_in l x : In x (sort3 l) -> In x l.
Proof. induction l as [|h t IH]; cbn; [auto|]. intros H. apply insert3_in in H. destruct H as [->|H]; auto. Qed.
Lemma put_recs3_in l rs e x : In x (put_recs3 l rs e) -> In x l \/ In (fst x) rs.
Proof.
  unfold put_recs3. revert l. induction rs as [|r t IH]; intros l; cbn; [auto|].
  intros H. destruct (IH _ H) as [H1|H1]; [|auto].
  unfold put_rec3 in H1. apply in_app_or in H1. destruct H1 as [H1|[<-|[]]]; [|cbn; auto].
  apply filter_In in H1. tauto.
Qed.

Section Shared.
  Variable z : zone.
  Hypothesis Hwf : zone_wf z.
  Variable lim : limits.
  Variable maxttl : Z.
  (* the NSEC3 side: an injective hash over the names involved, given to the model as the table tab *)
  Variable HH : rname -> N.
  Variable hashed : rname -> Prop.
  Variable tab : htab.
  Hypothesis Hworld : nsec3_world HH z hashed tab.
  Hypothesis Hmasks : optout_masks_are_bit0.
  Let zone := z_apex z.

  (* every retained NSEC entry is a record of the genuine chain; every cut names a nonexistent name *)
  Definition inv (st : shared) : Prop :=
    (forall x, In x (sh_recs st) -> genuine z (fst x)) /\
    (forall x, In x (sh_recs3 st) -> rec_genuine3 HH z hashed (fst x)) /\
    (forall x, In x (sh_cuts st) -> ~ exists_in z (fst x)).

  (* what provenance from the local validator stands for (the resolver side is the subject of
     authority_nsec_sound and the exact/aggressive verifier theorems): a message it marks validated and
     aggressive-eligible carries records of the genuine chain, and an NXDOMAIN so marked is true *)
  Definition ds_honest (q : rname) (ds : downstream) : Prop :=
    match ds with
    | DsPositive => True
    | DsNegative rcode rs _ marked aggressive _ =>
        marked && aggressive = true ->
        (forall r, In r (canon_recs rs) -> genuine z r) /\ (rcode = 3%N -> ~ exists_in z q)
    | DsNegative3 rcode rs _ marked aggressive _ =>
        marked && aggressive = true ->
        (forall r, In r rs -> rec_genuine3 HH z hashed r) /\ (rcode = 3%N -> ~ exists_in z q)
    end.

  Lemma inv_empty : inv shared_empty.
  Proof. split; [|split]; intros x []. Qed.

  Lemma record_index_inv st now q rs e :
    inv st -> (forall r, In r rs -> genuine z r) -> inv (record_index lim st now zone q rs e).
  Proof.
    intros (Hr & H3 & Hc) Hg. unfold record_index.
    destruct (_ || _); [(split; [|split]; assumption)|]. destruct rs as [|r0 t] eqn:Er; [(split; [|split]; assumption)|]. rewrite <- Er in *.
    destruct (_ <? _)%nat; [(split; [|split]; assumption)|]. split; [|split]; cbn; [|exact H3|exact Hc].
    intros x Hx. apply keep_newest_incl, put_recs_in in Hx. destruct Hx as [Hx|Hx]; [auto|].
    apply Hg, sort_canon_in, Hx.
  Qed.
  Lemma record_index3_inv st now q rs e :
    inv st -> (forall r, In r rs -> rec_genuine3 HH z hashed r) -> inv (record_index3 lim st now zone q rs e).
  Proof.
    intros (Hr & H3 & Hc) Hg. unfold record_index3.
    destruct (_ || _); [(split; [|split]; assumption)|]. destruct rs as [|r0 t] eqn:Er; [(split; [|split]; assumption)|]. rewrite <- Er in *.
    destruct (_ <? _)%nat; [(split; [|split]; assumption)|]. destruct (tomb_active _ _); [(split; [|split]; assumption)|].
    destruct (first_conflict _ _ _); (split; [|split]); cbn; try assumption; [intros x []|].
    intros x Hx. apply keep_newest_incl, put_recs3_in in Hx. destruct Hx as [Hx|Hx]; [auto|].
    apply Hg, sort3_in, Hx.
  Qed.
  Lemma record_cut_inv st now q n oo e :
    inv st -> ~ exists_in z q -> inv (record_cut lim st now zone q n oo e).
  Proof.
    intros (Hr & H3 & Hc) Hq. unfold record_cut.
    destruct (_ || _); [(split; [|split]; assumption)|]. destruct n; [(split; [|split]; assumption)|]. split; [|split]; cbn; [exact Hr|exact H3|].
    intros x Hx. apply keep_newest_incl, in_app_or in Hx. destruct Hx as [Hx|[<-|[]]]; [|exact Hq].
    apply filter_In in Hx. apply Hc, Hx.
  Qed.
  Lemma admit_downstream_inv st now q cd ecs ds :
    inv st -> ds_honest q ds -> inv (admit_downstream lim maxttl st now zone q cd ecs ds).
  Proof.
    intros Hi Hh. unfold admit_downstream.
    destruct ds as [|rcode rs ttl marked aggressive res_cd|rcode rs ttl marked aggressive res_cd]; [exact Hi| |];
      (destruct (admission_guard _ _ _ _ _) eqn:Eg; [|exact Hi]);
      unfold admission_guard in Eg; repeat (apply andb_true_iff in Eg; destruct Eg as [Eg ?]);
      (destruct Hh as [Hg Hn]; [subst; reflexivity|]);
      destruct (rcode =? 3)%N eqn:Erc.
    - apply record_cut_inv; [apply record_index_inv; assumption | apply Hn, N.eqb_eq, Erc].
    - apply record_index_inv; assumption.
    - apply record_cut_inv; [apply record_index3_inv; assumption | apply Hn, N.eqb_eq, Erc].
    - apply record_index3_inv; assumption.
  Qed.
  (* traffic that fails the admission guard never adds to the shared state *)
  Lemma admit_downstream_guard st now q cd ecs ds :
    match ds with DsPositive => True | DsNegative _ _ _ m a rcd | DsNegative3 _ _ _ m a rcd => admission_guard cd ecs m a rcd = false end ->
    admit_downstream lim maxttl st now zone q cd ecs ds = st.
  Proof. destruct ds; cbn; [reflexivity| |]; intros ->; reflexivity. Qed.

  Lemma cut_walk_sh_spec now q k : forall cuts cuts' hit,
    cut_walk_sh now cuts q k = (cuts', hit) ->
    (forall x, In x cuts' -> In x cuts) /\
    (forall d, hit = Some d -> is_prefix d q /\ exists e, In (d, e) cuts /\ now < e).
  Proof.
    induction k as [|k IH]; intros cuts cuts' hit; cbn [cut_walk_sh].
    - intros [= <- <-]. split; [auto | discriminate].
    - destruct (find _ cuts) as [x|] eqn:Ef.
      + destruct (now <? snd x) eqn:El.
        * intros [= <- <-]. split; [auto|]. intros d [= <-]. split.
          { exists (skipn (S k) q). exact (eq_sym (firstn_skipn (S k) q)). }
          apply find_some in Ef. destruct Ef as [Hin He]. apply rname_eqb_spec in He.
          exists (snd x). split; [destruct x; cbn in *; subst; exact Hin | apply Z.ltb_lt, El].
        * intros H. destruct (IH _ _ _ H) as [H1 H2]. split.
          { intros y Hy. apply H1, filter_In in Hy. tauto. }
          intros d Hd. destruct (H2 d Hd) as [Hp [e [Hin Hl]]]. split; [exact Hp|]. exists e.
          apply filter_In in Hin. tauto.
      + apply IH.
  Qed.

  Lemma index_lookup_spec st now q qtype st' r :
    inv st -> index_lookup tab st now zone q qtype = (st', r) ->
    inv st' /\
    (forall rc, r = Some rc -> (rc = 3%N /\ ~ exists_in z q) \/ (rc = 0%N /\ nodata_true z q qtype)).
  Proof.
    intros (Hr & H3 & Hc). unfold index_lookup.
    destruct (negb (prefix_b zone q)); [intros [= <- <-]; (split; [(split; [|split]; assumption) | intros ? [=]])|].
    destruct (sh_soa st) as [se|] eqn:Es; [|intros [= <- <-]; (split; [(split; [|split]; assumption) | intros ? [=]])].
    destruct (now <? se) eqn:El; [|intros [= <- <-]; (split; [(split; [|split]); cbn; [intros x [] | intros x [] | exact Hc] | intros ? [=]])].
    set (live := filter (is_live now) (sh_recs st)). set (live3 := filter (is_live now) (sh_recs3 st)).
    set (recs := reindex_c (sort_canon (map fst live))).
    assert (Hg : forall c, In c recs -> genuine z c).
    { intros c Hc'. apply reindex_from_in in Hc'. destruct Hc' as [y [Hy Hs]].
      apply (genuine_same_data z _ _ Hs). apply sort_canon_in, in_map_iff in Hy. destruct Hy as [x [<- Hx]].
      apply Hr. apply filter_In in Hx. tauto. }
    assert (Hg3 : all_genuine3 HH z hashed (sort3 (map fst live3))).
    { intros c Hc'. apply sort3_in, in_map_iff in Hc'. destruct Hc' as [x [<- Hx]]. apply H3. apply filter_In in Hx. tauto. }
    assert (Hst : inv st) by (split; [|split]; assumption).
    assert (Hpr : inv (mk_shared (Some se) live live3 (sh_tomb st) (sh_cuts st))).
    { split; [|split]; cbn; [| |exact Hc]; intros x Hx; [apply Hr|apply H3]; apply filter_In in Hx; tauto. }
    pose proof (aggr_nsec_sound z q qtype 1%N zone recs Hwf Hg) as S1.
    pose proof (aggr_nsec_set_sound z q qtype 1%N zone recs Hwf Hg) as S2.
    pose proof (aggressive_nsec3_sound_pk HH z hashed tab (sort3 (map fst live3)) q qtype 1%N zone Hworld Hmasks Hg3) as S3.
    assert (Sx : sound_verdict z q qtype ((if negb (length live =? length (sh_recs st))%nat then aggr_nsec else aggr_nsec_set) q qtype 1%N zone recs))
      by (destruct (negb _); assumption).
    destruct ((if negb (length live =? length (sh_recs st))%nat then aggr_nsec else aggr_nsec_set) q qtype 1%N zone recs) as [e|rc p].
    - assert (Hst' : inv (if negb (length live =? length (sh_recs st))%nat || negb (length live3 =? length (sh_recs3 st))%nat
                          then mk_shared (Some se) live live3 (sh_tomb st) (sh_cuts st) else st)) by (destruct (_ || _); assumption).
      destruct live3 as [|x3 l3] eqn:E3; [intros [= <- <-]; (split; [exact Hst' | intros ? [=]])|]. rewrite <- E3 in *.
      destruct (aggr_nsec3 q qtype 1%N zone (sort3 (map fst live3)) tab) as [e3|rc3 p3]; intros [= <- <-]; (split; [exact Hst'|]); [intros ? [=]|].
      destruct (tomb_active now (sh_tomb st)); [intros ? [=]|]. intros rc' [= <-]. exact S3.
    - intros [= <- <-]. split; [destruct (negb _); assumption|]. intros rc' [= <-]. exact Sx.
  Qed.

  (* one exchange: the invariant is kept; a synthesized denial goes only to a request without CD and
     without ECS and is a true statement about the zone *)
  Theorem exchange_sound st now q qtype cd ecs ds st' r :
    inv st -> ds_honest q ds ->
    exchange lim maxttl tab st now zone q qtype cd ecs ds = (st', r) ->
    inv st' /\
    forall rc, r = Some rc ->
      cd = false /\ ecs = false /\
      ((rc = 3%N /\ ~ exists_in z q) \/ (rc = 0%N /\ nodata_true z q qtype)).
  Proof.
    intros Hi Hh. unfold exchange.
    destruct (cd || ecs) eqn:Ece.
    { intros [= <- <-]. split; [apply admit_downstream_inv; assumption | discriminate]. }
    apply orb_false_iff in Ece. destruct Ece as [-> ->].
    destruct (cut_walk_sh now (sh_cuts st) q (length q)) as [cuts hit] eqn:Ew.
    destruct (cut_walk_sh_spec _ _ _ _ _ _ Ew) as [Hsub Hhit].
    assert (Hi1 : inv (mk_shared (sh_soa st) (sh_recs st) (sh_recs3 st) (sh_tomb st) cuts)).
    { destruct Hi as (Hr & H3 & Hc). split; [|split]; cbn; [exact Hr|exact H3|]. intros x Hx. apply Hc, Hsub, Hx. }
    destruct hit as [d|].
    - intros [= <- <-]. split; [exact Hi1|]. intros rc [= <-]. repeat split. left. split; [reflexivity|].
      destruct (Hhit d eq_refl) as [Hp [e [Hin _]]]. destruct Hi as (_ & _ & Hc).
      eapply nothing_below_nonexistent; [exact (Hc _ Hin) | exact Hp].
    - destruct (index_lookup tab _ now zone q qtype) as [st2 r2] eqn:Ei.
      destruct (index_lookup_spec _ _ _ _ _ _ Hi1 Ei) as [Hi2 Hs].
      destruct r2 as [rc|].
      + intros [= <- <-]. split; [exact Hi2|]. intros rc' [= <-]. repeat split. apply Hs. reflexivity.
      + intros [= <- <-]. split; [apply admit_downstream_inv; assumption | discriminate].
  Qed.

  (* nothing is synthesized from an empty state: a denial needs an earlier admission *)
  Theorem exchange_needs_admission now q qtype cd ecs ds st :
    sh_soa st = None -> sh_cuts st = [] -> snd (exchange lim maxttl tab st now zone q qtype cd ecs ds) = None.
  Proof.
    intros Hs Hc. unfold exchange. destruct (cd || ecs); [reflexivity|]. rewrite Hc.
    assert (E : forall k, cut_walk_sh now [] q k = ([], None)) by (induction k; cbn; auto). rewrite E.
    unfold index_lookup. cbn. rewrite Hs. destruct (negb (prefix_b zone q)); reflexivity.
  Qed.

  (* ---- histories: exchanges interleaved with clock advances, any order, any length *)
  Inductive shstep :=
  | StExchange (q : rname) (qtype : N) (cd ecs : bool) (ds : downstream)
  | StAdvance (s : Z).
  Fixpoint shared_run (st : shared) (now : Z) (h : list shstep) : list (rname * N * bool * bool * option N) :=
    match h with
    | [] => []
    | StAdvance s :: t => shared_run st (now + s) t
    | StExchange q qtype cd ecs ds :: t =>
        let '(st', r) := exchange lim maxttl tab st now zone q qtype cd ecs ds in
        (q, qtype, cd, ecs, r) :: shared_run st' now t
    end.
  Definition history_honest (h : list shstep) : Prop :=
    forall q qtype cd ecs ds, In (StExchange q qtype cd ecs ds) h -> ds_honest q ds.

  Theorem shared_history_sound h : forall st now,
    inv st -> history_honest h ->
    forall q qtype cd ecs rc, In (q, qtype, cd, ecs, Some rc) (shared_run st now h) ->
      cd = false /\ ecs = false /\
      ((rc = 3%N /\ ~ exists_in z q) \/ (rc = 0%N /\ nodata_true z q qtype)).
  Proof.
    induction h as [|s t IH]; intros st now Hi Hh q qtype cd ecs rc; cbn; [intros []|].
    assert (Ht : history_honest t) by (intros q' qt' cd' ecs' ds' H; eapply Hh; right; exact H).
    destruct s as [q0 qt0 cd0 ecs0 ds0|s0]; [|apply IH; assumption].
    destruct (exchange lim maxttl tab st now zone q0 qt0 cd0 ecs0 ds0) as [st' r] eqn:Ee.
    assert (Hd : ds_honest q0 ds0) by (eapply Hh; left; reflexivity).
    destruct (exchange_sound _ _ _ _ _ _ _ _ _ Hi Hd Ee) as [Hi' Hs].
    intros [H|H]; [|eapply IH; eauto].
    injection H as -> -> -> -> ->. apply Hs. reflexivity.
  Qed.
End Shared.

(* ---- non-vacuity: a zone e. {e., a.e., c.e.}; b.e. is denied downstream with the full chain and
   admitted; x.b.e. is then answered from the subtree cut, x.a.e. (NXDOMAIN) and a.e. MX (NODATA) from
   the proof index; the same question with CD=1 goes downstream; after the deadline nothing is
   synthesized any more *)
From Sdns Require Import C02.Proofs_Spec.
Definition ex_sh_zone : zone :=
  mk_zone [[101%N]] [([[101%N]], [2;6;46;47;48]%N); ([[101%N];[97%N]], [1;46;47]%N); ([[101%N];[99%N]], [1;46;47]%N)].
Definition ex_sh_chain : list nsec :=
  [mk_nsec [[101%N]] [[97%N];[101%N]] [2;6;46;47;48]%N 1%N;
   mk_nsec [[97%N];[101%N]] [[99%N];[101%N]] [1;46;47]%N 1%N;
   mk_nsec [[99%N];[101%N]] [[101%N]] [1;46;47]%N 1%N].
Definition ex_sh_history : list shstep :=
  [StExchange [[101%N];[98%N]] 1%N false false (DsNegative 3%N ex_sh_chain 300 true true false);
   StExchange [[101%N];[98%N];[120%N]] 1%N false false DsPositive;
   StExchange [[101%N];[97%N];[120%N]] 1%N false false DsPositive;
   StExchange [[101%N];[97%N]] 15%N false false DsPositive;
   StExchange [[101%N];[97%N];[121%N]] 1%N true false DsPositive;
   StAdvance 300;
   StExchange [[101%N];[97%N];[122%N]] 1%N false false DsPositive].
Example shared_example :
  zone_wf ex_sh_zone /\ history_honest ex_sh_zone (fun _ => 0%N) (fun _ => False) ex_sh_history /\
  map snd (shared_run ex_sh_zone (mk_limits 8 8) 3600 [] shared_empty 0 ex_sh_history)
  = [None; Some 3%N; Some 3%N; Some 0%N; None; None].
Proof.
  split; [apply zone_wf_b_sound; vm_compute; reflexivity|]. split; [|vm_compute; reflexivity].
  intros q qtype cd ecs ds Hin. cbn in Hin.
  repeat (destruct Hin as [Hin|Hin]; [inversion Hin; subst; clear Hin|]); try exact I; try discriminate; [|destruct Hin].
  intros _. split.
  - intros r Hr. apply genuine_b_sound. cbn in Hr. repeat (destruct Hr as [<-|Hr]; [vm_compute; reflexivity|]). destruct Hr.
  - intros _ He. apply exists_in_b_spec in He. vm_compute in He. discriminate.
Qed.

(* the NSEC3 ring and its quarantine, by evaluation: zone e. whose NSEC3 ring is H(e.)=10 -> H(a.e.)=30 -> 10;
   y.e. is denied downstream with the ring and admitted; x.e. is then NXDOMAIN from the ring (closest encloser
   e., next closer and wildcard inside 10..30); a changed RDATA at owner hash 10 arrives while the old one is
   live (for v.e., whose hash the lookup cannot obtain, so it goes downstream): the ring is dropped and quarantined, a re-admission (u.e.) is refused until both
   observations have expired (t = 900); afterwards the ring is admitted and answers again *)
Definition ex3_tab : htab :=
  [([[101%N]], 10%N); ([[101%N];[42%N]], 25%N); ([[101%N];[120%N]], 20%N); ([[101%N];[121%N]], 22%N); ([[101%N];[122%N]], 21%N);
   ([[101%N];[119%N]], 23%N)].
Definition ex3_ring (bm : list N) : list nsec3 :=
  [mk_nsec3 [[101%N]] (Some 10%N) (Some 30%N) 20 1 0 0 [] 1 bm; mk_nsec3 [[101%N]] (Some 30%N) (Some 10%N) 20 1 0 0 [] 1 [1;46]%N].
Definition ex3_history : list shstep :=
  [StExchange [[101%N];[121%N]] 1%N false false (DsNegative3 3%N (ex3_ring [2;6;46;48;51]%N) 600 true true false);
   StExchange [[101%N];[120%N]] 1%N false false DsPositive;
   StExchange [[101%N];[118%N]] 1%N false false (DsNegative3 3%N (ex3_ring [2;6;16;46;48;51]%N) 900 true true false);
   StExchange [[101%N];[117%N]] 1%N false false (DsNegative3 3%N (ex3_ring [2;6;46;48;51]%N) 600 true true false);
   StExchange [[101%N];[120%N]] 16%N false false DsPositive;
   StAdvance 900;
   StExchange [[101%N];[119%N]] 1%N false false (DsNegative3 3%N (ex3_ring [2;6;16;46;48;51]%N) 600 true true false);
   StExchange [[101%N];[120%N]] 28%N false false DsPositive].
Example shared_nsec3_example :
  map snd (shared_run ex_sh_zone (mk_limits 8 8) 3600 ex3_tab shared_empty 0 ex3_history)
  = [None; Some 3%N; None; None; None; None; Some 3%N].
Proof. vm_compute. reflexivity. Qed.
