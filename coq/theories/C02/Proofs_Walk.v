(* C02 — the QNAME-minimised walk (ModelAuth.min_walk = Resolver.Resolve / resolve / processAuthoritySection
   below one authority): wherever the walk ends, what it returns authenticated or published is true of
   the zone for the FULL question — an early stop at a minimised name rests on RFC 8020
   (Proofs_Shared.nothing_below_nonexistent) — whatever the authority replies at each level, as long as
   the records carrying the zone's signature are genuine; and the walk ends before the full name only on
   a validated, aggressive-eligible NXDOMAIN without an Opt-Out NSEC3. *)
From Sdns Require Import Common.Base Gen.C02 C02.Model C02.ModelNsec3 C02.Spec C02.Proofs_Order C02.Proofs_Nsec C02.Proofs_Spec
  C02.Proofs_NsecTop C02.ModelAuth C02.Proofs_Mix C02.Proofs_Shared.
Open Scope N_scope.

(* generic in the validator: an accepted reply with something published is true for the name asked,
   for the names [P] the walk asks *)
Lemma min_walk_sound_gen (auth : rname -> N -> auth_out) (optout : bool) (z : zone) (q : rname) (qtype frc : N) (P : rname -> Prop) :
  (forall m rc ad mk ag, P m -> auth m rc = (E_ok, ad, mk, ag) -> (ad = true \/ mk = true \/ ag = true) ->
     if rc =? RC_NXDOMAIN then ~ exists_in z m else nodata_true z m qtype) ->
  P q ->
  forall levels asked,
  (forall m b, In (m, b) levels -> P m /\ is_prefix m q) ->
  let w := min_walk auth optout levels q frc asked in
  w_err w = E_ok -> (w_ad w = true \/ w_marked w = true \/ w_aggr w = true) ->
  if w_rcode w =? RC_NXDOMAIN then ~ exists_in z q else nodata_true z q qtype.
Proof.
  intros Hauth Pq. induction levels as [|[m b] rest IH]; intros asked Hlv; cbn [min_walk].
  - destruct (auth q frc) as [[[e ad] mk] ag] eqn:E. cbn. intros -> Hany. exact (Hauth q frc ad mk ag Pq E Hany).
  - assert (Hrest : forall m' b', In (m', b') rest -> P m' /\ is_prefix m' q) by (intros; eapply Hlv; right; eauto).
    destruct b; [|apply IH, Hrest].
    destruct (auth m RC_NXDOMAIN) as [[[e ad] mk] ag] eqn:E.
    destruct e; try (cbn; intros; discriminate).
    destruct (mk && ag && negb optout) eqn:Eg; [|apply IH, Hrest].
    cbn. intros _ Hany.
    destruct (Hlv m true (or_introl eq_refl)) as [Pm Hmq].
    pose proof (Hauth m RC_NXDOMAIN ad mk ag Pm E Hany) as Hm. cbn in Hm.
    eapply nothing_below_nonexistent; [exact Hm|exact Hmq].
Qed.

(* when does the walk end before the full name was asked *)
Lemma min_walk_early_gen (auth : rname -> N -> auth_out) (optout : bool) (q : rname) (frc : N) :
  forall levels asked,
  let w := min_walk auth optout levels q frc asked in
  w_err w = E_ok -> (w_asked w <= asked + length levels)%nat ->
  optout = false /\ w_rcode w = RC_NXDOMAIN /\ w_marked w = true /\ w_aggr w = true /\
  exists m, In (m, true) levels /\ auth m RC_NXDOMAIN = (E_ok, w_ad w, true, true).
Proof.
  induction levels as [|[m b] rest IH]; intros asked; cbn [min_walk].
  - destruct (auth q frc) as [[[e ad] mk] ag]. cbn. intros _ H. lia.
  - assert (Hstep : let w := min_walk auth optout rest q frc (S asked) in
                    w_err w = E_ok -> (w_asked w <= asked + length ((m, b) :: rest))%nat ->
                    optout = false /\ w_rcode w = RC_NXDOMAIN /\ w_marked w = true /\ w_aggr w = true /\
                    exists m0, In (m0, true) ((m, b) :: rest) /\ auth m0 RC_NXDOMAIN = (E_ok, w_ad w, true, true)).
    { cbn zeta. intros He Hn. destruct (IH (S asked) He) as (H1 & H2 & H3 & H4 & m0 & Hin & Hm0).
      - cbn [length] in Hn. lia.
      - repeat split; auto. exists m0. split; [right; exact Hin|exact Hm0]. }
    destruct b; [|exact Hstep].
    destruct (auth m RC_NXDOMAIN) as [[[e ad] mk] ag] eqn:E.
    destruct e; try (cbn; intros; discriminate).
    destruct (mk && ag && negb optout) eqn:Eg; [|exact Hstep].
    cbn. intros _ _. apply andb_true_iff in Eg. destruct Eg as [Eg Ho]. apply andb_true_iff in Eg. destruct Eg as [-> ->].
    apply negb_true_iff in Ho. repeat split; auto. exists m. split; [left; reflexivity|exact E].
Qed.

(* the number of questions sent is at most one per level plus the full name, and at least one *)
Lemma min_walk_asked_bounds auth optout q frc levels : forall asked,
  (asked < w_asked (min_walk auth optout levels q frc asked) <= asked + length levels + 1)%nat.
Proof.
  induction levels as [|[m b] rest IH]; intros asked; cbn [min_walk].
  - destruct (auth q frc) as [[[e ad] mk] ag]. cbn. lia.
  - specialize (IH (S asked)). cbn [length].
    destruct b; [|lia].
    destruct (auth m RC_NXDOMAIN) as [[[e ad] mk] ag].
    destruct e; cbn; try lia.
    destruct (mk && ag && negb optout); cbn; lia.
Qed.

(* the NSEC instance with the signature layer *)
Theorem minimised_walk_sound_lemma z recs cd q qtype qclass levels frc :
  zone_wf z -> (forall r, In (r, true) recs -> genuine z r) -> is_prefix (z_apex z) q ->
  (forall m b, In (m, b) levels -> is_prefix (z_apex z) m /\ is_prefix m q) ->
  let w := min_walk (fun m rc => authority_nsec_signed rc cd m qtype qclass (z_apex z) recs) false levels q frc 0 in
  w_err w = E_ok -> (w_ad w = true \/ w_marked w = true \/ w_aggr w = true) ->
  cd = false /\ (if w_rcode w =? RC_NXDOMAIN then ~ exists_in z q else nodata_true z q qtype).
Proof.
  intros Hwf Hg Hq Hlv w He Hany.
  destruct cd.
  - (* CD=1: Resolver.authority publishes nothing at any level, so nothing can be claimed *)
    exfalso. revert He Hany. subst w. generalize 0%nat. clear Hlv.
    induction levels as [|[m b] rest IH]; intros asked; cbn [min_walk].
    + unfold authority_nsec_signed. cbn. intros _ [H|[H|H]]; discriminate.
    + destruct b; [|apply IH]. unfold authority_nsec_signed at 1. cbn. apply IH.
  - split; [reflexivity|].
    refine (min_walk_sound_gen _ false z q qtype frc (is_prefix (z_apex z)) _ Hq levels 0%nat Hlv He Hany).
    intros m rc ad mk ag Hp E Hany'.
    destruct (authority_nsec_signed_sound_lemma z recs rc false m qtype qclass ad mk ag Hwf Hg Hp E Hany') as [_ H]. exact H.
Qed.

(* the names minimize() produces lie between the zone and the question *)
Lemma walk_names_spec apex q m :
  is_prefix apex q -> In m (walk_names (length apex) q) -> is_prefix apex m /\ is_prefix m q.
Proof.
  intros [s ->] Hin. unfold walk_names in Hin. apply in_map_iff in Hin. destruct Hin as [k [<- _]].
  split.
  - exists (firstn k s). rewrite firstn_app. rewrite firstn_all2 by lia.
    replace (length apex + k - length apex)%nat with k by lia. reflexivity.
  - exists (skipn (length apex + k) (apex ++ s)). symmetry. apply firstn_skipn.
Qed.

(* the statement over the levels the production code asks, for ANY script of the authority's replies *)
Theorem minimised_walk_sound_names z recs cd q qtype qclass nx frc :
  zone_wf z -> (forall r, In (r, true) recs -> genuine z r) -> is_prefix (z_apex z) q ->
  let w := min_walk (fun m rc => authority_nsec_signed rc cd m qtype qclass (z_apex z) recs) false
                    (combine (walk_names (length (z_apex z)) q) nx) q frc 0 in
  w_err w = E_ok -> (w_ad w = true \/ w_marked w = true \/ w_aggr w = true) ->
  cd = false /\ (if w_rcode w =? RC_NXDOMAIN then ~ exists_in z q else nodata_true z q qtype).
Proof.
  intros Hwf Hg Hq. apply minimised_walk_sound_lemma; auto.
  intros m b Hin. apply in_combine_l in Hin. apply (walk_names_spec _ _ _ Hq Hin).
Qed.

(* non-vacuity on the zone of mix_example (e. / delegation s.e. / owner t.e.), the zone's own two records
   signed by the zone: x.u.e. — the walk asks u.e., is told NXDOMAIN, validates it and stops after ONE
   question with an authenticated NXDOMAIN; told NOERROR at u.e. it asks the full name (two questions);
   with CD=1 it never stops early and publishes nothing; a hostile NXDOMAIN for the existing t.e. ends
   the resolution with an error; with the child's closing record under the child's key in the reply the
   response is refused *)
Definition wk_recs : list (cnsec * bool) := [(nth 0 mx_recs (mk_cnsec [] [] [] 0 0), true); (nth 2 mx_recs (mk_cnsec [] [] [] 0 0), true)].
Definition wk_auth (cd : bool) (recs : list (cnsec * bool)) := fun m rc => authority_nsec_signed rc cd m 1 1 mx_e recs.
Example walk_example :
  let xu := mx_u ++ [[120]] in let xt := mx_t ++ [[120]] in
  walk_names 1 xu = [mx_u] /\
  min_walk (wk_auth false wk_recs) false (combine (walk_names 1 xu) [true]) xu 3 0 = mk_wout E_ok 3 true true true 1 /\
  min_walk (wk_auth false wk_recs) false (combine (walk_names 1 xu) [false]) xu 3 0 = mk_wout E_ok 3 true true true 2 /\
  min_walk (wk_auth false wk_recs) true (combine (walk_names 1 xu) [true]) xu 3 0 = mk_wout E_ok 3 true true true 2 /\
  min_walk (wk_auth true wk_recs) false (combine (walk_names 1 xu) [true]) xu 3 0 = mk_wout E_ok 3 false false false 2 /\
  w_err (min_walk (wk_auth false wk_recs) false (combine (walk_names 1 xt) [true]) xt 3 0) <> E_ok /\
  min_walk (wk_auth false (combine mx_recs [true; false; true])) false (combine (walk_names 1 xu) [true]) xu 3 0
    = mk_wout E_other 3 false false false 1 /\
  exists_in_b mx_zone xu = false.
Proof. vm_compute. repeat split; try reflexivity. discriminate. Qed.

(* ------------------------------------------------------------ the NSEC3 branch *)
From Sdns Require Import C02.Proofs_Nsec3.

(* Resolver.authority, NSEC3 branch (no signature bits: every record of the section is one the zone signed):
   AD / provenance / eligibility need secure = true, and a secure verdict of the ForZone verifiers is true *)
Theorem authority_nsec3_sound_lemma H z hashed tab recs rcode cd q qtype qclass signer ad marked aggr :
  nsec3_world H z hashed tab -> optout_masks_are_bit0 -> optout_discipline z hashed ->
  all_genuine3 H z hashed recs -> wildcards_not_delegations z ->
  authority_nsec3 rcode cd q qtype qclass signer recs tab = (E_ok, ad, marked, aggr) ->
  (ad = true \/ marked = true \/ aggr = true) ->
  cd = false /\ (if rcode =? RC_NXDOMAIN then ~ exists_in z q else nodata_true z q qtype).
Proof.
  intros W M D G Wd. unfold authority_nsec3. destruct cd.
  - intros E. inversion E; subst. intros [X|[X|X]]; discriminate.
  - destruct (rcode =? RC_NXDOMAIN) eqn:Erc.
    + destruct (verify_nameerror_nsec3 q qclass recs signer tab) as [e secure] eqn:Ev.
      destruct e; try discriminate. destruct secure.
      * intros _ _. split; [reflexivity|]. eapply nsec3_nameerror_sound_pk; eauto.
      * cbn. intros E. inversion E; subst. intros [X|[X|X]]; discriminate.
    + destruct (verify_nodata_nsec3 q qtype qclass recs signer tab) as [e secure] eqn:Ev.
      destruct e; try discriminate. destruct secure.
      * intros _ _. split; [reflexivity|].
        exact (nsec3_nodata_sound_pk H z hashed tab recs true q qtype qclass signer W M D G Wd
                 (fun E => False_ind _ (Bool.diff_true_false E)) Ev).
      * cbn. intros E. inversion E; subst. intros [X|[X|X]]; discriminate.
Qed.

(* the walk over the NSEC3 branch, for any script of replies and either value of the Opt-Out test *)
Theorem minimised_walk_nsec3_sound_lemma H z hashed tab recs cd q qtype qclass signer optout levels frc :
  nsec3_world H z hashed tab -> optout_masks_are_bit0 -> optout_discipline z hashed ->
  all_genuine3 H z hashed recs -> wildcards_not_delegations z ->
  (forall m b, In (m, b) levels -> is_prefix m q) ->
  let w := min_walk (fun m rc => authority_nsec3 rc cd m qtype qclass signer recs tab) optout levels q frc 0 in
  w_err w = E_ok -> (w_ad w = true \/ w_marked w = true \/ w_aggr w = true) ->
  if w_rcode w =? RC_NXDOMAIN then ~ exists_in z q else nodata_true z q qtype.
Proof.
  intros W M D G Wd Hlv w He Hany.
  refine (min_walk_sound_gen _ optout z q qtype frc (fun _ => True) _ I levels 0%nat _ He Hany).
  - intros m rc ad mk ag _ E Hany'.
    destruct (authority_nsec3_sound_lemma H z hashed tab recs rc cd m qtype qclass signer ad mk ag W M D G Wd E Hany') as [_ X]. exact X.
  - intros m b Hin. split; [exact I|exact (Hlv m b Hin)].
Qed.

(* what an early stop publishes — the provenance subject handed to cache.RecordNXDomainCut is the minimised
   name the walk stopped at — names a name that does not exist (the hypothesis history_honest of
   shared_state_sound for this admission route) *)
Theorem minimised_walk_cut_nonexistent_lemma z recs cd q qtype qclass nx frc :
  zone_wf z -> (forall r, In (r, true) recs -> genuine z r) -> is_prefix (z_apex z) q ->
  let levels := combine (walk_names (length (z_apex z)) q) nx in
  let w := min_walk (fun m rc => authority_nsec_signed rc cd m qtype qclass (z_apex z) recs) false levels q frc 0 in
  w_err w = E_ok -> (w_asked w <= length levels)%nat ->
  cd = false /\ exists m, In m (walk_names (length (z_apex z)) q) /\ is_prefix m q /\ ~ exists_in z m /\
    authority_nsec_signed RC_NXDOMAIN cd m qtype qclass (z_apex z) recs = (E_ok, w_ad w, true, true).
Proof.
  intros Hwf Hg Hq levels w He Hn.
  destruct (min_walk_early_gen _ false q frc levels 0%nat He) as (_ & _ & _ & _ & m & Hin & Hm); [cbn; exact Hn|].
  apply in_combine_l in Hin. destruct (walk_names_spec _ _ _ Hq Hin) as [Hzm Hmq].
  destruct (authority_nsec_signed_sound_lemma z recs RC_NXDOMAIN cd m qtype qclass _ true true Hwf Hg Hzm Hm) as [Hcd Hne]; [auto|].
  split; [exact Hcd|]. exists m. repeat split; auto.
Qed.

(* ------------------------------------------------------------ NSEC3 branch with the signature layer *)
(* whatever the zone's key signed is a record of the genuine hashed chain; the rest — unsigned records, a child
   or sibling zone's NSEC3 records under their own keys — is arbitrary *)
Theorem authority_nsec3_signed_sound_lemma H z hashed tab recs rcode cd q qtype qclass signer ad marked aggr :
  nsec3_world H z hashed tab -> optout_masks_are_bit0 -> optout_discipline z hashed ->
  (forall r, In (r, true) recs -> rec_genuine3 H z hashed r) -> wildcards_not_delegations z ->
  authority_nsec3_signed rcode cd q qtype qclass signer recs tab = (E_ok, ad, marked, aggr) ->
  (ad = true \/ marked = true \/ aggr = true) ->
  cd = false /\ (if rcode =? RC_NXDOMAIN then ~ exists_in z q else nodata_true z q qtype).
Proof.
  intros W M D G Wd. unfold authority_nsec3_signed. destruct cd.
  - intros E. inversion E; subst. intros [X|[X|X]]; discriminate.
  - destruct (existsb _ recs) eqn:Ex; [discriminate|].
    intros E Hany.
    refine (authority_nsec3_sound_lemma H z hashed tab _ rcode false q qtype qclass signer ad marked aggr W M D _ Wd E Hany).
    intros r Hr. apply filter_In in Hr. destruct Hr as [Hr Hz].
    apply in_map_iff in Hr. destruct Hr as [[r' s] [Heq Hin]]. cbn in Heq. subst r'.
    destruct s; [apply G, Hin|]. exfalso.
    assert (existsb (fun rs => in_zone3 signer (fst rs) && negb (snd rs)) recs = true) as Hc.
    { apply existsb_exists. exists (r, false). split; [exact Hin|]. cbn. rewrite Hz. reflexivity. }
    rewrite Hc in Ex. discriminate.
Qed.

Lemma authority_nsec3_unsigned_refused rcode q qtype qclass signer recs tab r :
  In (r, false) recs -> in_zone3 signer r = true ->
  authority_nsec3_signed rcode false q qtype qclass signer recs tab = (E_other, false, false, false).
Proof.
  intros Hin Hp. unfold authority_nsec3_signed.
  replace (existsb _ recs) with true; [reflexivity|]. symmetry. apply existsb_exists.
  exists (r, false). split; [exact Hin|]. cbn. rewrite Hp. reflexivity.
Qed.
