(* C02 — Resolver.authority, negative-response branch (middleware/resolver/resolver.go): which
   verifier runs, what decides AD, what is published as validated-negative provenance and when
   it is aggressive-eligible (the flag that lets QNAME minimisation stop at an NXDOMAIN and lets
   the cache admit RecordDenialProof / RecordNXDomainCut).  RRSIG validation of the authority
   section is outside this model (the driver signs every RRset with the zone's key).
   Definitions only. *)
From Sdns Require Import Common.Base Gen.C02 C02.Model C02.ModelNsec3.
Open Scope N_scope.

(* error class (E_ok = accepted), AD bit of the returned response, provenance published,
   provenance aggressive-eligible *)
Definition auth_out := (err * bool * bool * bool)%type.

(* the NSEC branch: VerifyNameErrorNSEC / VerifyNODATANSEC on the records FilterRRsToZone kept,
   then EvaluateAggressiveNSEC; eligible only when the classifier's RCODE is the response's *)
Definition authority_nsec (rcode : N) (cd : bool) (qe : rname) (qtype qclass : N) (signer : rname) (set : list cnsec)
  : auth_out :=
  if cd then (E_ok, false, false, false) else     (* CD=1: no validation, no AD, nothing published *)
  match (if rcode =? RC_NXDOMAIN then verify_nameerror_nsec qe set else verify_nodata_nsec qe qtype set) with
  | E_ok =>
      let eligible := match aggr_nsec qe qtype qclass signer set with
                      | A_deny rc _ => rc =? rcode
                      | A_err _ => false
                      end in
      (E_ok, negb cd, negb cd, negb cd && eligible)
  | e => (e, false, false, false)
  end.

(* the NSEC3 branch: the secure flag decides AD and whether anything is published; the
   aggressive evaluator is consulted only for secure proofs *)
Definition authority_nsec3 (rcode : N) (cd : bool) (qe : rname) (qtype qclass : N) (signer : rname)
  (set : list nsec3) (tab : htab) : auth_out :=
  if cd then (E_ok, false, false, false) else
  match (if rcode =? RC_NXDOMAIN then verify_nameerror_nsec3 qe qclass set signer tab
         else verify_nodata_nsec3 qe qtype qclass set signer tab) with
  | (E_ok, secure) =>
      let eligible := secure && match aggr_nsec3 qe qtype qclass signer set tab with
                                | A_deny rc _ => rc =? rcode
                                | A_err _ => false
                                end in
      (E_ok, negb cd && secure, negb cd && secure, negb cd && eligible)
  | (e, _) => (e, false, false, false)
  end.

(* ---- the signature layer in front of the NSEC branch (session 4): findRRSIGSigners / verifyDNSSEC /
   dnssec.VerifyRRSIG as Resolver.authority uses them.  Every record of the authority section comes with
   one bit: its RRset carries an RRSIG that verifies under the validated signer zone's DNSKEY (true), or
   it does not — unsigned, or signed by another zone's key such as a child zone's record replayed into
   the answer (false).  VerifyRRSIG collects every RRset whose OWNER lies in the signer zone and refuses
   the whole response when one of them has no verifying signature; RRsets owned outside the zone are
   skipped there and dropped afterwards by FilterRRsToZone.  CD=1 skips validation altogether.
   (The cryptography itself — that only the zone's key holder can produce a verifying RRSIG — is the
   hypothesis of the theorem, not part of the model.) *)
Definition authority_nsec_signed (rcode : N) (cd : bool) (qe : rname) (qtype qclass : N) (signer : rname)
  (recs : list (cnsec * bool)) : auth_out :=
  if cd then (E_ok, false, false, false) else
  if existsb (fun rs => prefix_b signer (c_owner (fst rs)) && negb (snd rs)) recs
  then (E_other, false, false, false)
  else authority_nsec rcode cd qe qtype qclass signer (filter_to_zone signer (map fst recs)).
