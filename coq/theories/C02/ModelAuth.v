(* C02 — Resolver.authority, negative-response branch (middleware/resolver/resolver.go): which
   verifier runs, what decides AD, what is published as validated-negative provenance and when
   it is aggressive-eligible (the flag that lets QNAME minimisation stop at an NXDOMAIN and lets
   the cache admit RecordDenialProof / RecordNXDomainCut).  RRSIG validation of the authority
   section is outside this model (the driver signs every RRset with the zone's key).
   Definitions only. *)
From Sdns Require Import Common.Base Gen.C02 C02.Model C02.ModelNsec3.
Open Scope N_scope.

(* error class (E_ok = accepted), AD bit of the returned response, provenance published,
   provenance aggressive-eligible *)
Definition auth_out := (err * bool * bool * bool)%type.

(* the NSEC branch: VerifyNameErrorNSEC / VerifyNODATANSEC on the records FilterRRsToZone kept,
   then EvaluateAggressiveNSEC; eligible only when the classifier's RCODE is the response's *)
Definition authority_nsec (rcode : N) (cd : bool) (qe : rname) (qtype qclass : N) (signer : rname) (set : list cnsec)
  : auth_out :=
  if cd then (E_ok, false, false, false) else     (* CD=1: no validation, no AD, nothing published *)
  match (if rcode =? RC_NXDOMAIN then verify_nameerror_nsec qe set else verify_nodata_nsec qe qtype set) with
  | E_ok =>
      let eligible := match aggr_nsec qe qtype qclass signer set with
                      | A_deny rc _ => rc =? rcode
                      | A_err _ => false
                      end in
      (E_ok, negb cd, negb cd, negb cd && eligible)
  | e => (e, false, false, false)
  end.

(* the NSEC3 branch: the secure flag decides AD and whether anything is published; the
   aggressive evaluator is consulted only for secure proofs *)
Definition authority_nsec3 (rcode : N) (cd : bool) (qe : rname) (qtype qclass : N) (signer : rname)
  (set : list nsec3) (tab : htab) : auth_out :=
  if cd then (E_ok, false, false, false) else
  match (if rcode =? RC_NXDOMAIN then verify_nameerror_nsec3 qe qclass set signer tab
         else verify_nodata_nsec3 qe qtype qclass set signer tab) with
  | (E_ok, secure) =>
      let eligible := secure && match aggr_nsec3 qe qtype qclass signer set tab with
                                | A_deny rc _ => rc =? rcode
                                | A_err _ => false
                                end in
      (E_ok, negb cd && secure, negb cd && secure, negb cd && eligible)
  | (e, _) => (e, false, false, false)
  end.

(* ---- the signature layer in front of the NSEC branch (session 4): findRRSIGSigners / verifyDNSSEC /
   dnssec.VerifyRRSIG as Resolver.authority uses them.  Every record of the authority section comes with
   one bit: its RRset carries an RRSIG that verifies under the validated signer zone's DNSKEY (true), or
   it does not — unsigned, or signed by another zone's key such as a child zone's record replayed into
   the answer (false).  VerifyRRSIG collects every RRset whose OWNER lies in the signer zone and refuses
   the whole response when one of them has no verifying signature; RRsets owned outside the zone are
   skipped there and dropped afterwards by FilterRRsToZone.  CD=1 skips validation altogether.
   (The cryptography itself — that only the zone's key holder can produce a verifying RRSIG — is the
   hypothesis of the theorem, not part of the model.) *)
Definition authority_nsec_signed (rcode : N) (cd : bool) (qe : rname) (qtype qclass : N) (signer : rname)
  (recs : list (cnsec * bool)) : auth_out :=
  if cd then (E_ok, false, false, false) else
  if existsb (fun rs => prefix_b signer (c_owner (fst rs)) && negb (snd rs)) recs
  then (E_other, false, false, false)
  else authority_nsec rcode cd qe qtype qclass signer (filter_to_zone signer (map fst recs)).

(* ---- the signature layer in front of the NSEC3 branch (session 5), as authority_nsec_signed: an NSEC3 record
   whose owner (hash label + r_zone) lies inside the signer zone and whose RRset has no RRSIG verifying under
   the zone's key — unsigned, or a child zone's NSEC3 (owner hash.child.zone) under the child's key — refuses the
   whole response; records owned outside are skipped by VerifyRRSIG and dropped by FilterRRsToZone *)
Definition in_zone3 (signer : rname) (r : nsec3) : bool := prefix_b signer (canon (r_zone r)).
Definition authority_nsec3_signed (rcode : N) (cd : bool) (qe : rname) (qtype qclass : N) (signer : rname)
  (recs : list (nsec3 * bool)) (tab : htab) : auth_out :=
  if cd then (E_ok, false, false, false) else
  if existsb (fun rs => in_zone3 signer (fst rs) && negb (snd rs)) recs
  then (E_other, false, false, false)
  else authority_nsec3 rcode cd qe qtype qclass signer (filter (in_zone3 signer) (map fst recs)) tab.

(* ---- the QNAME-minimised walk below one authority (session 5): Resolver.Resolve -> resolve -> minimize ->
   processAuthoritySection(minimized = true).  Before the full name q the resolver asks the names
   m_1 < m_2 < ... (q cut back to one label more than the zone, then one more, ...).  A reply to a
   minimised question is either NOERROR with the SOA — the walk goes one label deeper, nothing is
   validated — or NXDOMAIN with denial records (flag true below).  An NXDOMAIN reply is validated by
   Resolver.authority for the MINIMISED name: an error ends the resolution with that error (fail
   closed); a validated reply ends the walk with NXDOMAIN for the full question (RFC 8020) only when
   provenance was published (secure), it is aggressive-eligible and the authority section holds no
   Opt-Out NSEC3 of the zone (dnsutil.HasNSEC3OptOut); otherwise (CD=1, not eligible, Opt-Out) the walk
   goes deeper as if nothing had been proven.  The reply to the full name goes through
   Resolver.authority as before.  [auth m rc] = Resolver.authority on the reply with RCODE rc to the
   question m (the records of the reply are the same at every level: a parameter of [auth]);
   w_asked = number of questions sent to the authority. *)
Record walk_out := mk_wout { w_err : err; w_rcode : N; w_ad : bool; w_marked : bool; w_aggr : bool; w_asked : nat }.

Fixpoint min_walk (auth : rname -> N -> auth_out) (optout : bool) (levels : list (rname * bool))
  (q : rname) (frc : N) (asked : nat) : walk_out :=
  match levels with
  | [] => let '(e, ad, mk, ag) := auth q frc in mk_wout e frc ad mk ag (S asked)
  | (m, false) :: rest => min_walk auth optout rest q frc (S asked)
  | (m, true) :: rest =>
      match auth m RC_NXDOMAIN with
      | (E_ok, ad, mk, ag) =>
          if mk && ag && negb optout then mk_wout E_ok RC_NXDOMAIN ad mk ag (S asked)
          else min_walk auth optout rest q frc (S asked)
      | (e, _, _, _) => mk_wout e RC_NXDOMAIN false false false (S asked)
      end
  end.

(* the minimised names of q below a zone of [alen] labels (names root first): alen+1, ..., |q|-1 labels *)
Definition walk_names (alen : nat) (q : rname) : list rname :=
  map (fun k => firstn (alen + k) q) (seq 1 (length q - alen - 1)).

(* dnsutil.HasNSEC3OptOut on the NSEC3 records of the authority section *)
Definition has_optout3 (signer : rname) (recs : list nsec3) : bool :=
  existsb (fun r => prefix_b signer (canon (r_zone r)) && negb (N.land (r_flags r) optout_mask_cut =? 0)) recs.

(* ---- wildcard.go, VerifyWildcardAnswerForZoneWithWork (round 6): every RRSIG of the Answer section whose Labels
   field is smaller than its owner's label count was expanded from the wildcard at the last [labels] labels of
   the owner (the closest encloser); the Authority section must then hold an NSEC covering the next closer name
   (nsecCovers, any NSEC of the section) or, through the prepared NSEC3 ring bound to the signer, an NSEC3
   covering its hash — an Opt-Out cover validates the expansion but clears the secure flag.  No cover:
   ErrWildcardNoDenial (class other).  Accepting an expansion is accepting the denial "the next closer name
   does not exist".  sigs = (owner, Labels) in Answer order, owners canonical and root first. *)
(* finding wildcard-nextcloser-ent (round 6): as found, the NSEC branch accepts a cover whose NextDomain lies BELOW the
   next closer name — the next closer name is then an empty non-terminal, it exists.  props/C02/fix-wildcard-ent.patch
   adds the test nsecNextBelow; the model follows the source: [wild_cover_extra] is what the condition holds beyond
   nsecCovers(...) (empty as found) *)
Definition wild_ent_fixed : bool := match wild_cover_extra with [[]] => false | _ => true end.
Fixpoint wild_answer (sigs : list (rname * N)) (nsecs : list cnsec) (recs3 : list nsec3) (signer : rname) (tab : htab)
  (secure : bool) : err * bool :=
  match sigs with
  | [] => (E_ok, secure)
  | (owner, labels) :: t =>
      if (length owner <=? N.to_nat labels)%nat then wild_answer t nsecs recs3 signer tab secure else
      let nc := firstn (N.to_nat labels + 1) owner in
      if existsb (fun r => nsec_covers (c_owner r) (c_next r) nc && negb (wild_ent_fixed && strict_prefix_b nc (c_next r))) nsecs
      then wild_answer t nsecs recs3 signer tab secure else
      match recs3 with
      | [] => (E_other, false)
      | _ => match prepare_set recs3 signer with
             | None => (E_missing, false)
             | Some g => match lookup3 g tab nc with
                         | LK_err e => (e, false)
                         | LK _ (Some c) => wild_answer t nsecs recs3 signer tab (secure && negb (opt_out c))
                         | LK _ None => (E_other, false)
                         end
             end
      end
  end.
(* the next closer names an accepted Answer denies *)
Definition wild_denied (sigs : list (rname * N)) : list rname :=
  flat_map (fun s => if (length (fst s) <=? N.to_nat (snd s))%nat then [] else [firstn (N.to_nat (snd s) + 1) (fst s)]) sigs.
