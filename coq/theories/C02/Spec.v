(* C02 — the specification side: what a signed zone is, which names exist
   in it, and what its genuine NSEC records are.  Written independently of
   the verifier models; the theorems in Properties.v relate the two.

   A zone is its apex and a finite list of owner names with their type
   sets (the set an NSEC/NSEC3 bitmap at that owner carries, RRSIG/NSEC
   included).  Owners are the authoritative names and the delegation
   points; names below a delegation or a DNAME (glue, occluded data) own
   nothing in the zone and are not listed.  All names canonical (root
   first, folded). *)
From Sdns Require Import Common.Base Gen.C02 C02.Model.
Open Scope N_scope.

Record zone := mk_zone { z_apex : rname; z_nodes : list (rname * list N) }.

(* ---------------------------------------------------------------- Prop level *)
Definition is_prefix (p n : rname) : Prop := exists s, n = p ++ s.
Definition is_strict_prefix (p n : rname) : Prop := exists s, s <> [] /\ n = p ++ s.

Definition owner (z : zone) (n : rname) : Prop := exists tys, In (n, tys) (z_nodes z).
(* the name exists as a node of the zone tree: an owner or an empty non-terminal *)
Definition exists_direct (z : zone) (n : rname) : Prop := exists w, owner z w /\ is_prefix n w.
Definition is_ent (z : zone) (n : rname) : Prop := ~ owner z n /\ exists w, owner z w /\ is_strict_prefix n w.
(* a zone cut: delegation point (NS without SOA) or DNAME owner *)
Definition cut_types (tys : list N) : Prop :=
  (In T_NS tys /\ ~ In T_SOA tys) \/ In T_DNAME tys.
Definition below_cut (z : zone) (n : rname) : Prop :=
  exists d tys, In (d, tys) (z_nodes z) /\ cut_types tys /\ is_strict_prefix d n.
(* RFC 4592: the closest encloser is the longest existing proper ancestor *)
Definition closest_encloser (z : zone) (q ce : rname) : Prop :=
  is_strict_prefix ce q /\ exists_direct z ce /\
  forall p, is_strict_prefix p q -> exists_direct z p -> (length p <= length ce)%nat.
(* q is answered by wildcard synthesis: the source of synthesis exists (it may be an ENT) *)
Definition wildcard_match (z : zone) (q : rname) : Prop :=
  ~ exists_direct z q /\ exists ce, closest_encloser z q ce /\ exists_direct z (ce ++ [star]).

(* "a name that exists (directly, via wildcard, as an empty non-terminal, or
   below a delegation or DNAME)" *)
Definition exists_in (z : zone) (q : rname) : Prop :=
  exists_direct z q \/ below_cut z q \/ wildcard_match z q.

(* what a node's type set must satisfy for a NODATA answer for qtype to be true:
   the type and CNAME absent; DS is parent-side data (never answered from an apex,
   i.e. a set with SOA); every other type at a delegation point belongs to the
   child (RFC 6840 §4.1) *)
Definition node_lacks (tys : list N) (qtype : N) : Prop :=
  ~ In qtype tys /\ ~ In T_CNAME tys /\
  (qtype = T_DS -> ~ In T_SOA tys) /\
  (qtype <> T_DS -> ~ (In T_NS tys /\ ~ In T_SOA tys)).
(* NOERROR/NODATA for (q, qtype) is a true statement about the zone *)
Definition nodata_true (z : zone) (q : rname) (qtype : N) : Prop :=
  ~ below_cut z q /\
  ( (exists tys, In (q, tys) (z_nodes z) /\ node_lacks tys qtype)
    \/ is_ent z q
    \/ (~ exists_direct z q /\ exists ce, closest_encloser z q ce /\
        ( (exists tys, In (ce ++ [star], tys) (z_nodes z) /\ node_lacks tys qtype)
          \/ is_ent z (ce ++ [star]) )) ).
(* "no DS, delegation is insecure" *)
Definition insecure_delegation (z : zone) (d : rname) : Prop :=
  exists tys, In (d, tys) (z_nodes z) /\ In T_NS tys /\ ~ In T_DS tys /\ ~ In T_SOA tys.

(* well-formed zone: every owner at or below the apex, one type set per owner,
   nothing owned below a cut *)
Definition zone_wf (z : zone) : Prop :=
  (forall n, owner z n -> is_prefix (z_apex z) n) /\
  owner z (z_apex z) /\
  (forall n t1 t2, In (n, t1) (z_nodes z) -> In (n, t2) (z_nodes z) -> t1 = t2) /\
  (forall d tys w, In (d, tys) (z_nodes z) -> cut_types tys -> owner z w -> ~ is_strict_prefix d w).

(* ---- the genuine NSEC chain, relationally: o -> nx is a link iff both are
   owners and no owner lies strictly between (the last owner links back to
   the apex). *)
Definition is_link (z : zone) (o nx : rname) : Prop :=
  owner z o /\ owner z nx /\
  ( (ncmp o nx = Lt /\ forall w, owner z w -> ~ (ncmp o w = Lt /\ ncmp w nx = Lt))
    \/ (nx = z_apex z /\ forall w, owner z w -> ncmp w o <> Gt) ).
Definition genuine (z : zone) (r : cnsec) : Prop :=
  is_link z (c_owner r) (c_next r) /\ In (c_owner r, c_types r) (z_nodes z).

(* ---------------------------------------------------------------- bool level
   (what spec_case evaluates; proved equivalent in Proofs_Spec.v) *)
Definition owner_b (z : zone) (n : rname) : bool := existsb (fun nd => rname_eqb (fst nd) n) (z_nodes z).
Definition types_of (z : zone) (n : rname) : option (list N) :=
  match find (fun nd => rname_eqb (fst nd) n) (z_nodes z) with Some nd => Some (snd nd) | None => None end.
Definition exists_direct_b (z : zone) (n : rname) : bool := existsb (fun nd => prefix_b n (fst nd)) (z_nodes z).
Definition is_ent_b (z : zone) (n : rname) : bool :=
  negb (owner_b z n) && existsb (fun nd => strict_prefix_b n (fst nd)) (z_nodes z).
Definition cut_types_b (tys : list N) : bool := (has_type tys T_NS && negb (has_type tys T_SOA)) || has_type tys T_DNAME.
Definition below_cut_b (z : zone) (n : rname) : bool :=
  existsb (fun nd => cut_types_b (snd nd) && strict_prefix_b (fst nd) n) (z_nodes z).
(* strictly below a delegation that carries a DS, or below a DNAME owner: such a name belongs to a signed child zone
   (or is rewritten); the parent's chain can prove nothing "insecure" about it — every name on the way down to the
   cut is in the chain, so no genuine Opt-Out span covers the next closer name (round 6) *)
Definition secure_cut_types_b (tys : list N) : bool :=
  (has_type tys T_NS && negb (has_type tys T_SOA) && has_type tys T_DS) || has_type tys T_DNAME.
Definition below_secure_cut_b (z : zone) (n : rname) : bool :=
  existsb (fun nd => secure_cut_types_b (snd nd) && strict_prefix_b (fst nd) n) (z_nodes z).
(* longest proper prefix of q that exists, searching downwards from length k *)
Fixpoint ce_search (z : zone) (q : rname) (k : nat) : option rname :=
  if exists_direct_b z (firstn k q) then Some (firstn k q)
  else match k with O => None | S k' => ce_search z q k' end.
Definition true_ce (z : zone) (q : rname) : option rname := ce_search z q (length q - 1).
Definition wildcard_match_b (z : zone) (q : rname) : bool :=
  negb (exists_direct_b z q) &&
  match q with
  | [] => false
  | _ => match true_ce z q with Some ce => exists_direct_b z (ce ++ [star]) | None => false end
  end.
Definition exists_in_b (z : zone) (q : rname) : bool :=
  exists_direct_b z q || below_cut_b z q || wildcard_match_b z q.

Definition node_lacks_b (tys : list N) (qtype : N) : bool :=
  negb (has_type tys qtype) && negb (has_type tys T_CNAME) &&
  (negb (qtype =? T_DS) || negb (has_type tys T_SOA)) &&
  ((qtype =? T_DS) || negb (has_type tys T_NS && negb (has_type tys T_SOA))).
Definition nodata_true_b (z : zone) (q : rname) (qtype : N) : bool :=
  negb (below_cut_b z q) &&
  ( existsb (fun nd => rname_eqb (fst nd) q && node_lacks_b (snd nd) qtype) (z_nodes z)
    || is_ent_b z q
    || (negb (exists_direct_b z q) &&
        match q with
        | [] => false
        | _ => match true_ce z q with
               | Some ce =>
                   existsb (fun nd => rname_eqb (fst nd) (ce ++ [star]) && node_lacks_b (snd nd) qtype) (z_nodes z)
                   || is_ent_b z (ce ++ [star])
               | None => false
               end
        end) ).
Definition insecure_delegation_b (z : zone) (d : rname) : bool :=
  existsb (fun nd => rname_eqb (fst nd) d && has_type (snd nd) T_NS && negb (has_type (snd nd) T_DS)
                     && negb (has_type (snd nd) T_SOA)) (z_nodes z).

Fixpoint keys_unique (l : list (rname * list N)) : bool :=
  match l with
  | [] => true
  | nd :: t => negb (existsb (fun x => rname_eqb (fst x) (fst nd)) t) && keys_unique t
  end.
Definition zone_wf_b (z : zone) : bool :=
  forallb (fun nd => prefix_b (z_apex z) (fst nd)) (z_nodes z) &&
  owner_b z (z_apex z) &&
  keys_unique (z_nodes z) &&
  forallb (fun d => negb (cut_types_b (snd d)) ||
                    forallb (fun w => negb (strict_prefix_b (fst d) (fst w))) (z_nodes z)) (z_nodes z).

Definition is_link_b (z : zone) (o nx : rname) : bool :=
  owner_b z o && owner_b z nx &&
  ( (is_lt (ncmp o nx) &&
     forallb (fun w => negb (is_lt (ncmp o (fst w)) && is_lt (ncmp (fst w) nx))) (z_nodes z))
    || (rname_eqb nx (z_apex z) && forallb (fun w => negb (is_gt (ncmp (fst w) o))) (z_nodes z)) ).
Definition genuine_b (z : zone) (r : cnsec) : bool :=
  is_link_b z (c_owner r) (c_next r) &&
  existsb (fun nd => rname_eqb (fst nd) (c_owner r) && list_eqb N.eqb (snd nd) (c_types r)) (z_nodes z).

(* ---- mixtures with records of OTHER zones that lie below this zone's name (session 4).
   A record replayed from a child zone (or any foreign record) whose owner and NextDomain both lie in
   the subtree of one of the roots [ds] is "confined"; a name is "outside" when it lies in none of
   those subtrees.  mix_roots: the zone's own cut owners (delegation points, DNAME owners) that are not
   wildcard names — where child zones hang. *)
Definition confined_b (ds : list rname) (r : cnsec) : bool :=
  existsb (fun d => prefix_b d (c_owner r) && prefix_b d (c_next r)) ds.
Definition outside_b (ds : list rname) (x : rname) : bool := forallb (fun d => negb (prefix_b d x)) ds.
Definition not_wild_b (d : rname) : bool := negb (label_eqb (last d []) star).
Definition mix_roots (z : zone) : list rname :=
  map fst (filter (fun nd => cut_types_b (snd nd) && not_wild_b (fst nd)) (z_nodes z)).
