(* C02 — ties to the source text re-read by srcgen on every run (Gen/C02.v).
   The translator cannot turn functions over strings / slices / miekg
   constants into Gallina, so for the small decision functions the model
   was written from, the statement text itself is captured; each lemma below
   states the text the model corresponds to.  Editing any of these functions
   in /repo changes Gen/C02.v and breaks the lemma (=> the check reports a
   broken tie and searches for a failing input). *)
From Coq Require Import String Ascii.
From Sdns Require Import Common.Base Common.GoList Gen.C02 C02.Model C02.ModelNsec3.
Open Scope N_scope.

Definition src (l : list string) : list (list N) := map bytes_of_string l.

(* aggressiveNODATAType (translated function, used directly by the model): over the whole uint16 range
   exactly the meta/query types NONE, OPT, TKEY, TSIG, IXFR, AXFR, MAILB, MAILA, ANY are refused.  Proved
   by evaluating the generated function on all 65536 values, so a behaviour-preserving rewrite of the Go
   function keeps the lemma and a behaviour-changing one breaks it. *)
Fixpoint all_from (n : nat) (k : N) (p : N -> bool) : bool :=
  match n with O => true | S n' => p k && all_from n' (N.succ k) p end.
Lemma all_from_spec p n : forall k, all_from n k p = true -> forall t, k <= t -> t < k + N.of_nat n -> p t = true.
Proof.
  induction n as [|n IH]; intros k H t H1 H2; [lia|].
  cbn in H. apply andb_true_iff in H. destruct H as [Hk Hr].
  destruct (N.eq_dec t k) as [->|Hne]; [exact Hk|]. apply (IH (N.succ k) Hr); lia.
Qed.
Lemma gen_aggressive_nodata_type t : t < 65536 ->
  aggressive_nodata_type t = negb (existsb (N.eqb t) [0; 41; 249; 250; 251; 252; 253; 254; 255]).
Proof.
  intros Ht. unfold aggressive_nodata_type.
  assert (H : all_from (Nat.pow 2 16) 0
                (fun t => Bool.eqb (go_aggressiveNODATAType t) (negb (existsb (N.eqb t) [0; 41; 249; 250; 251; 252; 253; 254; 255]))) = true)
    by (vm_compute; reflexivity).
  apply Bool.eqb_prop. apply (all_from_spec _ _ _ H); [lia|]. change (N.of_nat (Nat.pow 2 16)) with 65536. lia.
Qed.

(* aggressiveDelegationBitmap = deleg_bitmap: NS set and SOA clear *)
Lemma gen_deleg_bitmap_src :
  deleg_bitmap_src = src ["typesSet(bitmap, dns.TypeNS)"; "!typesSet(bitmap, dns.TypeSOA)"]%string.
Proof. vm_compute. reflexivity. Qed.

(* validateAggressiveExactNODATA = exact_nodata_check *)
Lemma gen_exact_nodata_src :
  exact_nodata_src = src ["if typesSet(bitmap, qtype, dns.TypeCNAME)";
                          "if qtype == dns.TypeDS && typesSet(bitmap, dns.TypeSOA)";
                          "if qtype != dns.TypeDS && aggressiveDelegationBitmap(bitmap)"]%string.
Proof. vm_compute. reflexivity. Qed.

(* verifyDelegationTypes (NSEC3 delegation proof) *)
Lemma gen_verify_deleg_types_src :
  verify_deleg_types_src = src ["if !typesSet(types, dns.TypeNS)"; "if typesSet(types, dns.TypeDS, dns.TypeSOA)"]%string.
Proof. vm_compute. reflexivity. Qed.

(* validateNSEC3ClosestEncloser *)
Lemma gen_nsec3_ce_src :
  nsec3_ce_src = src ["typesSet(proof.types, dns.TypeDNAME)"; "typesSet(proof.types, dns.TypeNS)";
                      "typesSet(proof.types, dns.TypeSOA)"]%string.
Proof. vm_compute. reflexivity. Qed.

(* nsecCovers = covers_of_cmps over the three comparison results *)
Lemma gen_nsec_covers_src :
  nsec_covers_src = src ["if cmpON == 0"; "return cmpNameOwner != 0"; "if cmpON < 0";
                         "return cmpNameOwner > 0 && cmpNameNext < 0";
                         "return cmpNameOwner > 0 || cmpNameNext < 0"]%string.
Proof. vm_compute. reflexivity. Qed.

(* aggressiveNSEC3Covers: the same interval rule on hashes *)
Lemma gen_nsec3_covers_src :
  nsec3_covers_src = src ["case ownerNext == 0:"; "return hashOwner != 0"; "case ownerNext < 0:";
                          "return hashOwner > 0 && hashNext < 0";
                          "return hashOwner > 0 || hashNext < 0"]%string.
Proof. vm_compute. reflexivity. Qed.

(* nsec3Safe (translated with the miekg NSEC3 record as a value; the nil test is the caller's): the
   model's nsec3_safe on the record's algorithm, iteration count and flags *)
Lemma gen_nsec3_safe (g : T_NSEC3) (r : nsec3) :
  T_NSEC3_Hash g = r_alg r -> T_NSEC3_Iterations g = r_iter r -> T_NSEC3_Flags g = r_flags r ->
  go_nsec3Safe g = nsec3_safe r.
Proof. intros H1 H2 H3. unfold go_nsec3Safe, nsec3_safe. rewrite H1, H2, H3. reflexivity. Qed.

(* Opt-Out is bit 0 of the NSEC3 flags on every route *)
Lemma gen_optout_masks :
  optout_mask_aggr_next = 1 /\ optout_mask_aggr_wild = 1 /\ optout_mask_exact = 1 /\ optout_mask_cut = 1.
Proof. vm_compute. repeat split; reflexivity. Qed.

(* fix 130ba3b is in the tree: the repaired tests are present in the three exact verifiers *)
Lemma gen_fix_nameerror_nsec :
  fixmark_nameerror_nsec = src ["nsecAncestorCut("; "ce == "".""" ]%string.
Proof. vm_compute. reflexivity. Qed.
Lemma gen_fix_nodata_nsec :
  fixmark_nodata_nsec = src ["q.Qtype == dns.TypeDS && typesSet(nsec.TypeBitMap, dns.TypeSOA)";
                             "q.Qtype != dns.TypeDS && typesSet(nsec.TypeBitMap, dns.TypeNS)";
                             "q.Qtype == dns.TypeDS && typesSet(nsec.TypeBitMap, dns.TypeSOA)";
                             "q.Qtype != dns.TypeDS && typesSet(nsec.TypeBitMap, dns.TypeNS)"]%string.
Proof. vm_compute. reflexivity. Qed.
Lemma gen_fix_nodata_nsec3 :
  fixmark_nodata_nsec3 = src ["q.Qtype == dns.TypeDS && typesSet(types, dns.TypeSOA)";
                              "q.Qtype != dns.TypeDS && typesSet(types, dns.TypeNS)"]%string.
Proof. vm_compute. reflexivity. Qed.

(* Resolver.authority: what makes a validated negative response aggressive-eligible, what sets AD
   and what is published (= ModelAuth.authority_nsec / authority_nsec3); the two consumers of the
   flag: the minimised walk's stop test and the cache's admission guard *)
Lemma gen_authority_eligibility_src :
  authority_eligibility_src = src ["if denialSecure {";
    "if err == nil && result.Rcode == resp.Rcode {"; "aggressiveEligible = true";
    "if err == nil && result.Rcode == resp.Rcode {"; "aggressiveEligible = true";
    "resp.AuthenticatedData = denialSecure";
    "if !req.CheckingDisabled && denialSecure && isNegative &&";
    "Aggressive: aggressiveEligible,"]%string.
Proof. vm_compute. reflexivity. Qed.
Lemma gen_authority_walk_stop_src :
  authority_walk_stop_src = src ["if secure && negative.Aggressive &&"; "negative.Proof != nil &&";
    "negative.Proof.Rcode == dns.RcodeNameError &&";
    "!dnsutil.HasNSEC3OptOut(result.Ns, negative.Zone) {"]%string.
Proof. vm_compute. reflexivity. Qed.
Lemma gen_authority_admission_src :
  authority_admission_src = src ["if !w.clientScope.IsValid() && !w.requestHasECS &&";
    "!w.requestTreeBypassesSharedDenial &&"; "!w.requestCD && !res.CheckingDisabled {";
    "negative.Aggressive &&"; "negative.Proof != nil {";
    "if negative.Proof.Rcode == dns.RcodeNameError {"]%string.
Proof. vm_compute. reflexivity. Qed.

(* ---- dnsname.compareDecodedFold (within-label order of CanonicalCompare), translated by srcgen stage 3
   together with decodeOctet / isDigit: the generated loop IS Model.lcmp on the folded octets that the
   generated decodeOctet decodes from the two presentation labels.  Fuel: more than either length. *)
Section CompareDecodedFold.
Local Open Scope Z_scope.
(* ---- compareDecodedFold = lcmp on the folded decoded octets *)
Definition cmp_z (c : comparison) : Z := match c with Lt => -1 | Eq => 0 | Gt => 1 end.

Lemma upper_fold b : (65 <=? b)%N && (b <=? 90)%N = true -> N.lor b 32 = (b + 32)%N.
Proof.
  intros H. apply andb_true_iff in H. destruct H as [H1 H2]. apply N.leb_le in H1, H2.
  assert (Hin : In (N.to_nat b) (seq 65 26)) by (apply in_seq; lia).
  assert (Hall : forallb (fun n => N.lor (N.of_nat n) 32 =? N.of_nat n + 32)%N (seq 65 26) = true) by (vm_compute; reflexivity).
  rewrite forallb_forall in Hall. specialize (Hall _ Hin). rewrite N2Nat.id in Hall. apply N.eqb_eq, Hall.
Qed.
(* the loop's folding step is Model.fold_byte *)
Lemma go_fold b : (if (65 <=? b)%N && (b <=? 90)%N then N.lor b 32 else b) = fold_byte b.
Proof. unfold fold_byte. destruct ((65 <=? b)%N && (b <=? 90)%N) eqn:E; [apply upper_fold, E | reflexivity]. Qed.

(* the octets a presentation label decodes to, by the generated decodeOctet itself *)
Fixpoint decode_from (n : nat) (s : list N) (i : Z) : list N :=
  match n with
  | O => []
  | S n' => if i <? go_len s then let '(o, i') := go_decodeOctet s i in o :: decode_from n' s i' else []
  end.

Lemma decode_octet_advances s i : i + 1 <= snd (go_decodeOctet s i).
Proof. unfold go_decodeOctet. repeat (match goal with |- context [if ?c then _ else _] => destruct c end); cbn; lia. Qed.


Definition cdf_result (x : go_ctl Z * (list N * list N * Z * Z)) : option Z :=
  match x with
  | (GoRet r, _) => Some r
  | (GoOof, _) => None
  | (GoNext, (a, b, i, j)) => Some (if i <? go_len a then 1 else if j <? go_len b then -1 else 0)
  end.

Lemma cdf_loop fuel : forall lf a b i j,
  (Z.to_nat (Z.min (go_len a - i) (go_len b - j)) < lf)%nat ->
  cdf_result (go_compareDecodedFold_loop1 fuel lf a b i j) =
  Some (cmp_z (lex N.compare (fold_label (decode_from lf a i)) (fold_label (decode_from lf b j)))).
Proof.
  induction lf as [|lf IH]; intros a b i j Hf; [lia|].
  cbn [go_compareDecodedFold_loop1 decode_from].
  destruct (i <? go_len a) eqn:Ei; destruct (j <? go_len b) eqn:Ej; cbn [andb].
  2-4: (destruct (go_decodeOctet a i); destruct (go_decodeOctet b j); cbn; rewrite ?Ei, ?Ej; reflexivity).
  pose proof (decode_octet_advances a i) as Ha. pose proof (decode_octet_advances b j) as Hb.
  destruct (go_decodeOctet a i) as [oa i2]. destruct (go_decodeOctet b j) as [ob j2]. cbn [snd] in Ha, Hb.
  apply Z.ltb_lt in Ei, Ej.
  assert (Hrec : cdf_result (go_compareDecodedFold_loop1 fuel lf a b i2 j2) =
                 Some (cmp_z (lex N.compare (fold_label (decode_from lf a i2)) (fold_label (decode_from lf b j2)))))
    by (apply IH; lia).
  cbn [fold_label map lex]. rewrite <- (go_fold oa), <- (go_fold ob).
  destruct ((65 <=? oa)%N && (oa <=? 90)%N); destruct ((65 <=? ob)%N && (ob <=? 90)%N);
    match goal with |- context [N.compare ?x ?y] =>
      destruct (N.compare_spec x y) as [He|He|He];
      [ rewrite He, N.ltb_irrefl; exact Hrec
      | assert (E1 : (x <? y)%N = true) by (apply N.ltb_lt; exact He); rewrite E1; reflexivity
      | assert (E1 : (x <? y)%N = false) by (apply N.ltb_ge; lia);
        assert (E2 : (y <? x)%N = true) by (apply N.ltb_lt; exact He); rewrite E1, E2; reflexivity ]
    end.
Qed.

Theorem gen_compare_decoded_fold fuel a b :
  (length a < fuel)%nat -> (length b < fuel)%nat ->
  go_compareDecodedFold fuel a b =
  Some (cmp_z (lcmp (fold_label (decode_from fuel a 0)) (fold_label (decode_from fuel b 0)))).
Proof.
  intros Ha Hb. unfold go_compareDecodedFold, lcmp. rewrite <- (cdf_loop fuel fuel a b 0 0) by (unfold go_len; lia).
  unfold cdf_result. destruct (go_compareDecodedFold_loop1 fuel fuel a b 0 0) as [c [[[a' b'] i'] j']]; destruct c; try reflexivity.
  destruct (i' <? go_len a'); [reflexivity|]. destruct (j' <? go_len b'); reflexivity.
Qed.

(* what decodeOctet decodes: a plain octet; `\c`; `\DDD` in byte arithmetic *)
Lemma go_idx_app_r {A} (d : A) p s k : 0 <= k -> go_idx d (p ++ s) (go_len p + k) = go_idx d s k.
Proof.
  intros Hk. rewrite !go_idx_nth by (unfold go_len; lia). unfold go_len.
  replace (Z.to_nat (Z.of_nat (length p) + k)) with (length p + Z.to_nat k)%nat by lia. apply app_nth2_plus.
Qed.
Lemma decode_plain p c r : c <> 92%N -> go_decodeOctet (p ++ c :: r) (go_len p) = (c, go_len p + 1).
Proof.
  intros Hc. assert (E : go_idx 0%N (p ++ c :: r) (go_len p) = c).
  { replace (go_len p) with (go_len p + 0) by lia. rewrite go_idx_app_r by lia. apply go_idx_0. }
  unfold go_decodeOctet. cbv zeta. rewrite E. apply N.eqb_neq in Hc. rewrite Hc. reflexivity.
Qed.
Lemma decode_plain_all s : ~ In 92%N s -> forall p n, (length s <= n)%nat -> decode_from n (p ++ s) (go_len p) = s.
Proof.
  induction s as [|c r IH]; intros Hn p n Hl.
  - destruct n; cbn; [reflexivity|]. rewrite app_nil_r, Z.ltb_irrefl. reflexivity.
  - destruct n; [cbn in Hl; lia|]. cbn [decode_from]. rewrite go_len_app, go_len_cons.
    assert (E : (go_len p <? go_len p + (1 + go_len r)) = true) by (apply Z.ltb_lt; pose proof (go_len_nonneg r); lia).
    rewrite E, decode_plain by (intros ->; apply Hn; left; reflexivity). f_equal.
    replace (p ++ c :: r) with ((p ++ [c]) ++ r) by (rewrite <- app_assoc; reflexivity).
    replace (go_len p + 1) with (go_len (p ++ [c])) by (rewrite go_len_app; reflexivity).
    apply IH; [intros H; apply Hn; right; exact H | cbn in Hl; lia].
Qed.
(* on labels without a backslash the Go comparison is Model.lcmp of the folded labels *)
Corollary gen_compare_decoded_fold_plain fuel a b :
  ~ In 92%N a -> ~ In 92%N b -> (length a < fuel)%nat -> (length b < fuel)%nat ->
  go_compareDecodedFold fuel a b = Some (cmp_z (lcmp (fold_label a) (fold_label b))).
Proof.
  intros Ha Hb La Lb. rewrite gen_compare_decoded_fold by assumption.
  pose proof (decode_plain_all a Ha [] fuel) as Da. pose proof (decode_plain_all b Hb [] fuel) as Db.
  cbn in Da, Db. rewrite Da, Db by lia. reflexivity.
Qed.
Example decode_escapes :
  decode_from 9 [92; 46; 97; 92; 48; 52; 54; 92; 92]%N 0 = [46; 97; 46; 92]%N /\       (* \.a\046\\ *)
  decode_from 4 [92; 50; 53; 54]%N 0 = [0]%N.                                        (* \256 wraps, as in the library *)
Proof. split; vm_compute; reflexivity. Qed.

(* ---- dnsname.equalFold (per-label equality of CompareSuffix / Sub / CanonicalCompare's callers), translated
   by srcgen stage 3: label_eqb on the folded labels.  Fuel: more than the label's length. *)
Definition eqf_result (x : go_ctl bool * (list N * list N * Z)) : option bool :=
  match x with (GoRet r, _) => Some r | (GoOof, _) => None | (GoNext, _) => Some true end.
Definition fold_eq_at (a b : list N) (j : nat) : bool := (fold_byte (nth j a 0%N) =? fold_byte (nth j b 0%N))%N.

Lemma eqf_loop fuel a b : forall lf i, -1 <= i -> i + 1 < Z.of_nat lf ->
  eqf_result (go_equalFold_loop1 fuel lf a b i) = Some (forallb (fold_eq_at a b) (seq 0 (Z.to_nat (i + 1)))).
Proof.
  induction lf as [|lf IH]; intros i Hi Hlf; [lia|].
  cbn [go_equalFold_loop1]. destruct (0 <=? i) eqn:E0.
  2: { apply Z.leb_gt in E0. replace (Z.to_nat (i + 1)) with O by lia. reflexivity. }
  apply Z.leb_le in E0. cbv zeta.
  rewrite !go_idx_nth by lia.
  replace (Z.to_nat (i + 1)) with (S (Z.to_nat i)) by lia. rewrite seq_S, forallb_app. cbn [forallb Nat.add].
  rewrite andb_true_r. unfold fold_eq_at at 2. rewrite <- (go_fold (nth (Z.to_nat i) a 0%N)), <- (go_fold (nth (Z.to_nat i) b 0%N)).
  assert (Hrec : eqf_result (go_equalFold_loop1 fuel lf a b (i - 1)) = Some (forallb (fold_eq_at a b) (seq 0 (Z.to_nat i)))).
  { rewrite IH by lia. do 3 f_equal. lia. }
  destruct ((65 <=? nth (Z.to_nat i) a 0)%N && (nth (Z.to_nat i) a 0 <=? 90)%N);
  destruct ((65 <=? nth (Z.to_nat i) b 0)%N && (nth (Z.to_nat i) b 0 <=? 90)%N);
  match goal with |- context [negb (?x =? ?y)%N] => destruct (x =? y)%N end; cbn [negb];
  first [ rewrite andb_true_r; exact Hrec | rewrite andb_false_r; reflexivity ].
Qed.

Lemma fold_eq_all (a b : list N) : forall pa pb, length pa = length pb -> length a = length b ->
  forallb (fold_eq_at (pa ++ a) (pb ++ b)) (seq (length pa) (length a)) = list_eqb N.eqb (fold_label a) (fold_label b).
Proof.
  revert b. induction a as [|x a IH]; intros b pa pb Hp Hl; destruct b as [|y b]; try discriminate; [reflexivity|].
  cbn [length seq forallb fold_label map list_eqb]. f_equal.
  - unfold fold_eq_at. rewrite (app_nth2 pa) by lia. rewrite (app_nth2 pb) by lia.
    rewrite Hp, !Nat.sub_diag. reflexivity.
  - replace (pa ++ x :: a) with ((pa ++ [x]) ++ a) by (rewrite <- app_assoc; reflexivity).
    replace (pb ++ y :: b) with ((pb ++ [y]) ++ b) by (rewrite <- app_assoc; reflexivity).
    replace (S (length pa)) with (length (pa ++ [x])) by (rewrite app_length; cbn; lia).
    apply IH; [rewrite !app_length; cbn; lia | cbn in Hl; lia].
Qed.

(* dnsname.equalFold (the per-label equality of CompareSuffix / Sub): label_eqb on the folded labels *)
Theorem gen_equal_fold fuel a b : (length a < fuel)%nat ->
  go_equalFold fuel a b = Some (label_eqb (fold_label a) (fold_label b)).
Proof.
  intros Hf. unfold go_equalFold, label_eqb.
  destruct (go_len a =? go_len b) eqn:El; cbn [negb].
  - apply Z.eqb_eq in El. unfold go_len in El. assert (Hl : length a = length b) by lia.
    pose proof (eqf_loop fuel a b fuel (go_len a - 1)) as H. unfold go_len in H.
    rewrite <- (fold_eq_all a b [] [] eq_refl Hl). cbn [app length].
    replace (Z.to_nat (Z.of_nat (length a) - 1 + 1)) with (length a) in H by lia.
    rewrite <- H by lia. unfold go_len, eqf_result.
    destruct (go_equalFold_loop1 fuel fuel a b (Z.of_nat (length a) - 1)) as [c [[a' b'] i']]; destruct c; reflexivity.
  - apply Z.eqb_neq in El. unfold go_len in El. f_equal. symmetry.
    assert (Hn : length (fold_label a) <> length (fold_label b)) by (unfold fold_label; rewrite !map_length; lia).
    revert Hn. generalize (fold_label a) (fold_label b). clear.
    induction l as [|x l IH]; intros [|y m] Hn; cbn in *; try reflexivity; [congruence|].
    rewrite IH by lia. apply andb_false_r.
Qed.
End CompareDecodedFold.
