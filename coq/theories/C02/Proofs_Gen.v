(* C02 — ties to the source text re-read by srcgen on every run (Gen/C02.v).
   The translator cannot turn functions over strings / slices / miekg
   constants into Gallina, so for the small decision functions the model
   was written from, the statement text itself is captured; each lemma below
   states the text the model corresponds to.  Editing any of these functions
   in /repo changes Gen/C02.v and breaks the lemma (=> the check reports a
   broken tie and searches for a failing input). *)
From Coq Require Import String Ascii.
From Sdns Require Import Common.Base Gen.C02 C02.Model.
Open Scope N_scope.

Definition src (l : list string) : list (list N) := map bytes_of_string l.

(* aggressiveNODATAType: every excluded identifier is known, and the set is the meta/query types *)
Lemma gen_nodata_excluded_known : forallb (fun nm => type_code nm <? 65536) nodata_excluded_names = true.
Proof. vm_compute. reflexivity. Qed.
Lemma gen_nodata_excluded : nodata_excluded = [0; 41; 249; 250; 251; 252; 253; 254; 255].
Proof. vm_compute. reflexivity. Qed.

(* aggressiveDelegationBitmap = deleg_bitmap: NS set and SOA clear *)
Lemma gen_deleg_bitmap_src :
  deleg_bitmap_src = src ["typesSet(bitmap, dns.TypeNS)"; "!typesSet(bitmap, dns.TypeSOA)"]%string.
Proof. vm_compute. reflexivity. Qed.

(* validateAggressiveExactNODATA = exact_nodata_check *)
Lemma gen_exact_nodata_src :
  exact_nodata_src = src ["if typesSet(bitmap, qtype, dns.TypeCNAME)";
                          "if qtype == dns.TypeDS && typesSet(bitmap, dns.TypeSOA)";
                          "if qtype != dns.TypeDS && aggressiveDelegationBitmap(bitmap)"]%string.
Proof. vm_compute. reflexivity. Qed.

(* verifyDelegationTypes (NSEC3 delegation proof) *)
Lemma gen_verify_deleg_types_src :
  verify_deleg_types_src = src ["if !typesSet(types, dns.TypeNS)"; "if typesSet(types, dns.TypeDS, dns.TypeSOA)"]%string.
Proof. vm_compute. reflexivity. Qed.

(* validateNSEC3ClosestEncloser *)
Lemma gen_nsec3_ce_src :
  nsec3_ce_src = src ["typesSet(proof.types, dns.TypeDNAME)"; "typesSet(proof.types, dns.TypeNS)";
                      "typesSet(proof.types, dns.TypeSOA)"]%string.
Proof. vm_compute. reflexivity. Qed.

(* nsecCovers = covers_of_cmps over the three comparison results *)
Lemma gen_nsec_covers_src :
  nsec_covers_src = src ["if cmpON == 0"; "return cmpNameOwner != 0"; "if cmpON < 0";
                         "return cmpNameOwner > 0 && cmpNameNext < 0";
                         "return cmpNameOwner > 0 || cmpNameNext < 0"]%string.
Proof. vm_compute. reflexivity. Qed.

(* aggressiveNSEC3Covers: the same interval rule on hashes *)
Lemma gen_nsec3_covers_src :
  nsec3_covers_src = src ["case ownerNext == 0:"; "return hashOwner != 0"; "case ownerNext < 0:";
                          "return hashOwner > 0 && hashNext < 0";
                          "return hashOwner > 0 || hashNext < 0"]%string.
Proof. vm_compute. reflexivity. Qed.

(* nsec3Safe *)
Lemma gen_nsec3_safe_src :
  nsec3_safe_src = src ["return n != nil &&"; "n.Hash == dns.SHA1 &&";
                        "n.Iterations <= maxNSEC3Iterations &&"; "(n.Flags == 0 || n.Flags == 1)"]%string.
Proof. vm_compute. reflexivity. Qed.

(* Opt-Out is bit 0 of the NSEC3 flags on every route *)
Lemma gen_optout_masks :
  optout_mask_aggr_next = 1 /\ optout_mask_aggr_wild = 1 /\ optout_mask_exact = 1 /\ optout_mask_cut = 1.
Proof. vm_compute. repeat split; reflexivity. Qed.

(* fix 130ba3b is in the tree: the repaired tests are present in the three exact verifiers *)
Lemma gen_fix_nameerror_nsec :
  fixmark_nameerror_nsec = src ["nsecAncestorCut("; "ce == "".""" ]%string.
Proof. vm_compute. reflexivity. Qed.
Lemma gen_fix_nodata_nsec :
  fixmark_nodata_nsec = src ["q.Qtype == dns.TypeDS && typesSet(nsec.TypeBitMap, dns.TypeSOA)";
                             "q.Qtype != dns.TypeDS && typesSet(nsec.TypeBitMap, dns.TypeNS)";
                             "q.Qtype == dns.TypeDS && typesSet(nsec.TypeBitMap, dns.TypeSOA)";
                             "q.Qtype != dns.TypeDS && typesSet(nsec.TypeBitMap, dns.TypeNS)"]%string.
Proof. vm_compute. reflexivity. Qed.
Lemma gen_fix_nodata_nsec3 :
  fixmark_nodata_nsec3 = src ["q.Qtype == dns.TypeDS && typesSet(types, dns.TypeSOA)";
                              "q.Qtype != dns.TypeDS && typesSet(types, dns.TypeNS)"]%string.
Proof. vm_compute. reflexivity. Qed.

(* Resolver.authority: what makes a validated negative response aggressive-eligible, what sets AD
   and what is published (= ModelAuth.authority_nsec / authority_nsec3); the two consumers of the
   flag: the minimised walk's stop test and the cache's admission guard *)
Lemma gen_authority_eligibility_src :
  authority_eligibility_src = src ["if denialSecure {";
    "if err == nil && result.Rcode == resp.Rcode {"; "aggressiveEligible = true";
    "if err == nil && result.Rcode == resp.Rcode {"; "aggressiveEligible = true";
    "resp.AuthenticatedData = denialSecure";
    "if !req.CheckingDisabled && denialSecure && isNegative &&";
    "Aggressive: aggressiveEligible,"]%string.
Proof. vm_compute. reflexivity. Qed.
Lemma gen_authority_walk_stop_src :
  authority_walk_stop_src = src ["if secure && negative.Aggressive &&"; "negative.Proof != nil &&";
    "negative.Proof.Rcode == dns.RcodeNameError &&";
    "!dnsutil.HasNSEC3OptOut(result.Ns, negative.Zone) {"]%string.
Proof. vm_compute. reflexivity. Qed.
Lemma gen_authority_admission_src :
  authority_admission_src = src ["if !w.clientScope.IsValid() && !w.requestHasECS &&";
    "!w.requestTreeBypassesSharedDenial &&"; "!w.requestCD && !res.CheckingDisabled {";
    "negative.Aggressive &&"; "negative.Proof != nil {";
    "if negative.Proof.Rcode == dns.RcodeNameError {"]%string.
Proof. vm_compute. reflexivity. Qed.
