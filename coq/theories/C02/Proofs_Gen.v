(* C02 — ties to the source text re-read by srcgen on every run (Gen/C02.v).
   The translator cannot turn functions over strings / slices / miekg
   constants into Gallina, so for the small decision functions the model
   was written from, the statement text itself is captured; each lemma below
   states the text the model corresponds to.  Editing any of these functions
   in /repo changes Gen/C02.v and breaks the lemma (=> the check reports a
   broken tie and searches for a failing input). *)
From Coq Require Import String Ascii.
From Sdns Require Import Common.Base Common.GoList Gen.C02 C02.Model C02.ModelNsec3.
Open Scope N_scope.

Definition src (l : list string) : list (list N) := map bytes_of_string l.

(* aggressiveNODATAType (translated function, used directly by the model): over the whole uint16 range
   exactly the meta/query types NONE, OPT, TKEY, TSIG, IXFR, AXFR, MAILB, MAILA, ANY are refused.  Proved
   by evaluating the generated function on all 65536 values, so a behaviour-preserving rewrite of the Go
   function keeps the lemma and a behaviour-changing one breaks it. *)
Fixpoint all_from (n : nat) (k : N) (p : N -> bool) : bool :=
  match n with O => true | S n' => p k && all_from n' (N.succ k) p end.
Lemma all_from_spec p n : forall k, all_from n k p = true -> forall t, k <= t -> t < k + N.of_nat n -> p t = true.
Proof.
  induction n as [|n IH]; intros k H t H1 H2; [lia|].
  cbn in H. apply andb_true_iff in H. destruct H as [Hk Hr].
  destruct (N.eq_dec t k) as [->|Hne]; [exact Hk|]. apply (IH (N.succ k) Hr); lia.
Qed.
Lemma gen_aggressive_nodata_type t : t < 65536 ->
  aggressive_nodata_type t = negb (existsb (N.eqb t) [0; 41; 249; 250; 251; 252; 253; 254; 255]).
Proof.
  intros Ht. unfold aggressive_nodata_type.
  assert (H : all_from (Nat.pow 2 16) 0
                (fun t => Bool.eqb (go_aggressiveNODATAType t) (negb (existsb (N.eqb t) [0; 41; 249; 250; 251; 252; 253; 254; 255]))) = true)
    by (vm_compute; reflexivity).
  apply Bool.eqb_prop. apply (all_from_spec _ _ _ H); [lia|]. change (N.of_nat (Nat.pow 2 16)) with 65536. lia.
Qed.

(* aggressiveDelegationBitmap = deleg_bitmap: NS set and SOA clear *)
Lemma gen_deleg_bitmap_src :
  deleg_bitmap_src = src ["typesSet(bitmap, dns.TypeNS)"; "!typesSet(bitmap, dns.TypeSOA)"]%string.
Proof. vm_compute. reflexivity. Qed.

(* validateAggressiveExactNODATA = exact_nodata_check *)
Lemma gen_exact_nodata_src :
  exact_nodata_src = src ["if typesSet(bitmap, qtype, dns.TypeCNAME)";
                          "if qtype == dns.TypeDS && typesSet(bitmap, dns.TypeSOA)";
                          "if qtype != dns.TypeDS && aggressiveDelegationBitmap(bitmap)"]%string.
Proof. vm_compute. reflexivity. Qed.

(* verifyDelegationTypes (NSEC3 delegation proof) *)
Lemma gen_verify_deleg_types_src :
  verify_deleg_types_src = src ["if !typesSet(types, dns.TypeNS)"; "if typesSet(types, dns.TypeDS, dns.TypeSOA)"]%string.
Proof. vm_compute. reflexivity. Qed.

(* validateNSEC3ClosestEncloser *)
Lemma gen_nsec3_ce_src :
  nsec3_ce_src = src ["typesSet(proof.types, dns.TypeDNAME)"; "typesSet(proof.types, dns.TypeNS)";
                      "typesSet(proof.types, dns.TypeSOA)"]%string.
Proof. vm_compute. reflexivity. Qed.


(* aggressiveNSEC3Covers: since wave 9 translated as a whole (bytes.Compare) and proved equal to covers3 in
   Proofs_Sets.gen_nsec3_covers_lemma; the statement-text pin nsec3_covers_src is gone *)

(* nsec3Safe (translated with the miekg NSEC3 record as a value; the nil test is the caller's): the
   model's nsec3_safe on the record's algorithm, iteration count and flags *)
Lemma gen_nsec3_safe (g : T_NSEC3) (r : nsec3) :
  T_NSEC3_Hash g = r_alg r -> T_NSEC3_Iterations g = r_iter r -> T_NSEC3_Flags g = r_flags r ->
  go_nsec3Safe g = nsec3_safe r.
Proof. intros H1 H2 H3. unfold go_nsec3Safe, nsec3_safe. rewrite H1, H2, H3. reflexivity. Qed.

(* Opt-Out is bit 0 of the NSEC3 flags on every route *)
Lemma gen_optout_masks :
  optout_mask_aggr_next = 1 /\ optout_mask_aggr_wild = 1 /\ optout_mask_exact = 1 /\ optout_mask_cut = 1.
Proof. vm_compute. repeat split; reflexivity. Qed.

(* fix 130ba3b is in the tree: the repaired tests are present in the three exact verifiers *)
Lemma gen_fix_nameerror_nsec :
  fixmark_nameerror_nsec = src ["nsecAncestorCut("; "ce == "".""" ]%string.
Proof. vm_compute. reflexivity. Qed.
Lemma gen_fix_nodata_nsec :
  fixmark_nodata_nsec = src ["q.Qtype == dns.TypeDS && typesSet(nsec.TypeBitMap, dns.TypeSOA)";
                             "q.Qtype != dns.TypeDS && typesSet(nsec.TypeBitMap, dns.TypeNS)";
                             "q.Qtype == dns.TypeDS && typesSet(nsec.TypeBitMap, dns.TypeSOA)";
                             "q.Qtype != dns.TypeDS && typesSet(nsec.TypeBitMap, dns.TypeNS)"]%string.
Proof. vm_compute. reflexivity. Qed.
Lemma gen_fix_nodata_nsec3 :
  fixmark_nodata_nsec3 = src ["q.Qtype == dns.TypeDS && typesSet(types, dns.TypeSOA)";
                              "q.Qtype != dns.TypeDS && typesSet(types, dns.TypeNS)"]%string.
Proof. vm_compute. reflexivity. Qed.

(* Resolver.authority: what makes a validated negative response aggressive-eligible, what sets AD
   and what is published (= ModelAuth.authority_nsec / authority_nsec3); the two consumers of the
   flag: the minimised walk's stop test and the cache's admission guard *)
Lemma gen_authority_eligibility_src :
  authority_eligibility_src = src ["if denialSecure {";
    "if err == nil && result.Rcode == resp.Rcode {"; "aggressiveEligible = true";
    "if err == nil && result.Rcode == resp.Rcode {"; "aggressiveEligible = true";
    "resp.AuthenticatedData = denialSecure";
    "if !req.CheckingDisabled && denialSecure && isNegative &&";
    "Aggressive: aggressiveEligible,"]%string.
Proof. vm_compute. reflexivity. Qed.
Lemma gen_authority_walk_stop_src :
  authority_walk_stop_src = src ["if secure && negative.Aggressive &&"; "negative.Proof != nil &&";
    "negative.Proof.Rcode == dns.RcodeNameError &&";
    "!dnsutil.HasNSEC3OptOut(result.Ns, negative.Zone) {"]%string.
Proof. vm_compute. reflexivity. Qed.
Lemma gen_authority_admission_src :
  authority_admission_src = src ["if !w.clientScope.IsValid() && !w.requestHasECS &&";
    "!w.requestTreeBypassesSharedDenial &&"; "!w.requestCD && !res.CheckingDisabled {";
    "negative.Aggressive &&"; "negative.Proof != nil {";
    "if negative.Proof.Rcode == dns.RcodeNameError {"]%string.
Proof. vm_compute. reflexivity. Qed.

(* ---- dnsname.compareDecodedFold (within-label order of CanonicalCompare), translated by srcgen stage 3
   together with decodeOctet / isDigit: the generated loop IS Model.lcmp on the folded octets that the
   generated decodeOctet decodes from the two presentation labels.  Fuel: more than either length. *)
Section CompareDecodedFold.
Local Open Scope Z_scope.
(* ---- compareDecodedFold = lcmp on the folded decoded octets *)
Definition cmp_z (c : comparison) : Z := match c with Lt => -1 | Eq => 0 | Gt => 1 end.

Lemma upper_fold b : (65 <=? b)%N && (b <=? 90)%N = true -> N.lor b 32 = (b + 32)%N.
Proof.
  intros H. apply andb_true_iff in H. destruct H as [H1 H2]. apply N.leb_le in H1, H2.
  assert (Hin : In (N.to_nat b) (seq 65 26)) by (apply in_seq; lia).
  assert (Hall : forallb (fun n => N.lor (N.of_nat n) 32 =? N.of_nat n + 32)%N (seq 65 26) = true) by (vm_compute; reflexivity).
  rewrite forallb_forall in Hall. specialize (Hall _ Hin). rewrite N2Nat.id in Hall. apply N.eqb_eq, Hall.
Qed.
(* the loop's folding step is Model.fold_byte *)
Lemma go_fold b : (if (65 <=? b)%N && (b <=? 90)%N then N.lor b 32 else b) = fold_byte b.
Proof. unfold fold_byte. destruct ((65 <=? b)%N && (b <=? 90)%N) eqn:E; [apply upper_fold, E | reflexivity]. Qed.

(* the octets a presentation label decodes to, by the generated decodeOctet itself *)
Fixpoint decode_from (n : nat) (s : list N) (i : Z) : list N :=
  match n with
  | O => []
  | S n' => if i <? go_len s then let '(o, i') := go_decodeOctet s i in o :: decode_from n' s i' else []
  end.

Lemma decode_octet_advances s i : i + 1 <= snd (go_decodeOctet s i).
Proof. unfold go_decodeOctet. repeat (match goal with |- context [if ?c then _ else _] => destruct c end); cbn; lia. Qed.


Definition cdf_result (x : go_ctl Z * (list N * list N * Z * Z)) : option Z :=
  match x with
  | (GoRet r, _) => Some r
  | (GoOof, _) => None
  | (GoNext, (a, b, i, j)) => Some (if i <? go_len a then 1 else if j <? go_len b then -1 else 0)
  end.

Lemma cdf_loop fuel : forall lf a b i j,
  (Z.to_nat (Z.min (go_len a - i) (go_len b - j)) < lf)%nat ->
  cdf_result (go_compareDecodedFold_loop1 fuel lf a b i j) =
  Some (cmp_z (lex N.compare (fold_label (decode_from lf a i)) (fold_label (decode_from lf b j)))).
Proof.
  induction lf as [|lf IH]; intros a b i j Hf; [lia|].
  cbn [go_compareDecodedFold_loop1 decode_from].
  destruct (i <? go_len a) eqn:Ei; destruct (j <? go_len b) eqn:Ej; cbn [andb].
  2-4: (destruct (go_decodeOctet a i); destruct (go_decodeOctet b j); cbn; rewrite ?Ei, ?Ej; reflexivity).
  pose proof (decode_octet_advances a i) as Ha. pose proof (decode_octet_advances b j) as Hb.
  destruct (go_decodeOctet a i) as [oa i2]. destruct (go_decodeOctet b j) as [ob j2]. cbn [snd] in Ha, Hb.
  apply Z.ltb_lt in Ei, Ej.
  assert (Hrec : cdf_result (go_compareDecodedFold_loop1 fuel lf a b i2 j2) =
                 Some (cmp_z (lex N.compare (fold_label (decode_from lf a i2)) (fold_label (decode_from lf b j2)))))
    by (apply IH; lia).
  cbn [fold_label map lex]. rewrite <- (go_fold oa), <- (go_fold ob).
  destruct ((65 <=? oa)%N && (oa <=? 90)%N); destruct ((65 <=? ob)%N && (ob <=? 90)%N);
    match goal with |- context [N.compare ?x ?y] =>
      destruct (N.compare_spec x y) as [He|He|He];
      [ rewrite He, N.ltb_irrefl; exact Hrec
      | assert (E1 : (x <? y)%N = true) by (apply N.ltb_lt; exact He); rewrite E1; reflexivity
      | assert (E1 : (x <? y)%N = false) by (apply N.ltb_ge; lia);
        assert (E2 : (y <? x)%N = true) by (apply N.ltb_lt; exact He); rewrite E1, E2; reflexivity ]
    end.
Qed.

Theorem gen_compare_decoded_fold fuel a b :
  (length a < fuel)%nat -> (length b < fuel)%nat ->
  go_compareDecodedFold fuel a b =
  Some (cmp_z (lcmp (fold_label (decode_from fuel a 0)) (fold_label (decode_from fuel b 0)))).
Proof.
  intros Ha Hb. unfold go_compareDecodedFold, lcmp. rewrite <- (cdf_loop fuel fuel a b 0 0) by (unfold go_len; lia).
  unfold cdf_result. destruct (go_compareDecodedFold_loop1 fuel fuel a b 0 0) as [c [[[a' b'] i'] j']]; destruct c; try reflexivity.
  destruct (i' <? go_len a'); [reflexivity|]. destruct (j' <? go_len b'); reflexivity.
Qed.

(* what decodeOctet decodes: a plain octet; `\c`; `\DDD` in byte arithmetic *)
Lemma go_idx_app_r {A} (d : A) p s k : 0 <= k -> go_idx d (p ++ s) (go_len p + k) = go_idx d s k.
Proof.
  intros Hk. rewrite !go_idx_nth by (unfold go_len; lia). unfold go_len.
  replace (Z.to_nat (Z.of_nat (length p) + k)) with (length p + Z.to_nat k)%nat by lia. apply app_nth2_plus.
Qed.
Lemma decode_plain p c r : c <> 92%N -> go_decodeOctet (p ++ c :: r) (go_len p) = (c, go_len p + 1).
Proof.
  intros Hc. assert (E : go_idx 0%N (p ++ c :: r) (go_len p) = c).
  { replace (go_len p) with (go_len p + 0) by lia. rewrite go_idx_app_r by lia. apply go_idx_0. }
  unfold go_decodeOctet. cbv zeta. rewrite E. apply N.eqb_neq in Hc. rewrite Hc. reflexivity.
Qed.
Lemma decode_plain_all s : ~ In 92%N s -> forall p n, (length s <= n)%nat -> decode_from n (p ++ s) (go_len p) = s.
Proof.
  induction s as [|c r IH]; intros Hn p n Hl.
  - destruct n; cbn; [reflexivity|]. rewrite app_nil_r, Z.ltb_irrefl. reflexivity.
  - destruct n; [cbn in Hl; lia|]. cbn [decode_from]. rewrite go_len_app, go_len_cons.
    assert (E : (go_len p <? go_len p + (1 + go_len r)) = true) by (apply Z.ltb_lt; pose proof (go_len_nonneg r); lia).
    rewrite E, decode_plain by (intros ->; apply Hn; left; reflexivity). f_equal.
    replace (p ++ c :: r) with ((p ++ [c]) ++ r) by (rewrite <- app_assoc; reflexivity).
    replace (go_len p + 1) with (go_len (p ++ [c])) by (rewrite go_len_app; reflexivity).
    apply IH; [intros H; apply Hn; right; exact H | cbn in Hl; lia].
Qed.
(* on labels without a backslash the Go comparison is Model.lcmp of the folded labels *)
Corollary gen_compare_decoded_fold_plain fuel a b :
  ~ In 92%N a -> ~ In 92%N b -> (length a < fuel)%nat -> (length b < fuel)%nat ->
  go_compareDecodedFold fuel a b = Some (cmp_z (lcmp (fold_label a) (fold_label b))).
Proof.
  intros Ha Hb La Lb. rewrite gen_compare_decoded_fold by assumption.
  pose proof (decode_plain_all a Ha [] fuel) as Da. pose proof (decode_plain_all b Hb [] fuel) as Db.
  cbn in Da, Db. rewrite Da, Db by lia. reflexivity.
Qed.
Example decode_escapes :
  decode_from 9 [92; 46; 97; 92; 48; 52; 54; 92; 92]%N 0 = [46; 97; 46; 92]%N /\       (* \.a\046\\ *)
  decode_from 4 [92; 50; 53; 54]%N 0 = [0]%N.                                        (* \256 wraps, as in the library *)
Proof. split; vm_compute; reflexivity. Qed.

(* ---- dnsname.equalFold (per-label equality of CompareSuffix / Sub / CanonicalCompare's callers), translated
   by srcgen stage 3: label_eqb on the folded labels.  Fuel: more than the label's length. *)
Definition eqf_result (x : go_ctl bool * (list N * list N * Z)) : option bool :=
  match x with (GoRet r, _) => Some r | (GoOof, _) => None | (GoNext, _) => Some true end.
Definition fold_eq_at (a b : list N) (j : nat) : bool := (fold_byte (nth j a 0%N) =? fold_byte (nth j b 0%N))%N.

Lemma eqf_loop fuel a b : forall lf i, -1 <= i -> i + 1 < Z.of_nat lf ->
  eqf_result (go_equalFold_loop1 fuel lf a b i) = Some (forallb (fold_eq_at a b) (seq 0 (Z.to_nat (i + 1)))).
Proof.
  induction lf as [|lf IH]; intros i Hi Hlf; [lia|].
  cbn [go_equalFold_loop1]. destruct (0 <=? i) eqn:E0.
  2: { apply Z.leb_gt in E0. replace (Z.to_nat (i + 1)) with O by lia. reflexivity. }
  apply Z.leb_le in E0. cbv zeta.
  rewrite !go_idx_nth by lia.
  replace (Z.to_nat (i + 1)) with (S (Z.to_nat i)) by lia. rewrite seq_S, forallb_app. cbn [forallb Nat.add].
  rewrite andb_true_r. unfold fold_eq_at at 2. rewrite <- (go_fold (nth (Z.to_nat i) a 0%N)), <- (go_fold (nth (Z.to_nat i) b 0%N)).
  assert (Hrec : eqf_result (go_equalFold_loop1 fuel lf a b (i - 1)) = Some (forallb (fold_eq_at a b) (seq 0 (Z.to_nat i)))).
  { rewrite IH by lia. do 3 f_equal. lia. }
  destruct ((65 <=? nth (Z.to_nat i) a 0)%N && (nth (Z.to_nat i) a 0 <=? 90)%N);
  destruct ((65 <=? nth (Z.to_nat i) b 0)%N && (nth (Z.to_nat i) b 0 <=? 90)%N);
  match goal with |- context [negb (?x =? ?y)%N] => destruct (x =? y)%N end; cbn [negb];
  first [ rewrite andb_true_r; exact Hrec | rewrite andb_false_r; reflexivity ].
Qed.

Lemma fold_eq_all (a b : list N) : forall pa pb, length pa = length pb -> length a = length b ->
  forallb (fold_eq_at (pa ++ a) (pb ++ b)) (seq (length pa) (length a)) = list_eqb N.eqb (fold_label a) (fold_label b).
Proof.
  revert b. induction a as [|x a IH]; intros b pa pb Hp Hl; destruct b as [|y b]; try discriminate; [reflexivity|].
  cbn [length seq forallb fold_label map list_eqb]. f_equal.
  - unfold fold_eq_at. rewrite (app_nth2 pa) by lia. rewrite (app_nth2 pb) by lia.
    rewrite Hp, !Nat.sub_diag. reflexivity.
  - replace (pa ++ x :: a) with ((pa ++ [x]) ++ a) by (rewrite <- app_assoc; reflexivity).
    replace (pb ++ y :: b) with ((pb ++ [y]) ++ b) by (rewrite <- app_assoc; reflexivity).
    replace (S (length pa)) with (length (pa ++ [x])) by (rewrite app_length; cbn; lia).
    apply IH; [rewrite !app_length; cbn; lia | cbn in Hl; lia].
Qed.

(* dnsname.equalFold (the per-label equality of CompareSuffix / Sub): label_eqb on the folded labels *)
Theorem gen_equal_fold fuel a b : (length a < fuel)%nat ->
  go_equalFold fuel a b = Some (label_eqb (fold_label a) (fold_label b)).
Proof.
  intros Hf. unfold go_equalFold, label_eqb.
  destruct (go_len a =? go_len b) eqn:El; cbn [negb].
  - apply Z.eqb_eq in El. unfold go_len in El. assert (Hl : length a = length b) by lia.
    pose proof (eqf_loop fuel a b fuel (go_len a - 1)) as H. unfold go_len in H.
    rewrite <- (fold_eq_all a b [] [] eq_refl Hl). cbn [app length].
    replace (Z.to_nat (Z.of_nat (length a) - 1 + 1)) with (length a) in H by lia.
    rewrite <- H by lia. unfold go_len, eqf_result.
    destruct (go_equalFold_loop1 fuel fuel a b (Z.of_nat (length a) - 1)) as [c [[a' b'] i']]; destruct c; reflexivity.
  - apply Z.eqb_neq in El. unfold go_len in El. f_equal. symmetry.
    assert (Hn : length (fold_label a) <> length (fold_label b)) by (unfold fold_label; rewrite !map_length; lia).
    revert Hn. generalize (fold_label a) (fold_label b). clear.
    induction l as [|x l IH]; intros [|y m] Hn; cbn in *; try reflexivity; [congruence|].
    rewrite IH by lia. apply andb_false_r.
Qed.

(* ==== dnsname.CompareSuffix / Sub / CanonicalCompare and dnssec.nsecCovers, translated AS A WHOLE by srcgen
   (miekg dns.NextLabel / dns.CountLabel from the module cache, equalFold, canonicalLabel, escapedTail,
   compareDecodedFold as generated callees), proved equal to the model's hand-written walks on the presentation
   strings of escape-free names: labels non-empty, without '.' and without '\\' (plain_name); the root is ".". *)
(* ---- presentation strings of escape-free names *)
Definition plain_label (l : list N) : Prop := l <> [] /\ ~ In 46%N l /\ ~ In 92%N l.
Definition plain_name (n : name) : Prop := Forall plain_label n.
Definition pres (n : name) : list N := flat_map (fun l => l ++ [46%N]) n.
Definition present (n : name) : list N := match n with [] => [46%N] | _ => pres n end.
Definition is_nil {A} (l : list A) : bool := match l with [] => true | _ => false end.

Lemma pres_app a b : pres (a ++ b) = pres a ++ pres b.
Proof. apply flat_map_app. Qed.
Lemma pres_no92 n : plain_name n -> ~ In 92%N (pres n).
Proof.
  induction 1 as [|l n [_ [_ H92]] _ IH]; cbn; [tauto|]. rewrite !in_app_iff. cbn.
  intros [[H|[H|[]]]|H]; [tauto | discriminate | tauto].
Qed.

Lemma go_idx_app_l {A} (d : A) p s k : 0 <= k < go_len p -> go_idx d (p ++ s) k = go_idx d p k.
Proof. intros Hk. unfold go_len in Hk. rewrite !go_idx_nth by lia. apply app_nth1. lia. Qed.
Lemma go_idx_in {A} (d : A) p k : 0 <= k < go_len p -> In (go_idx d p k) p.
Proof. intros Hk. unfold go_len in Hk. rewrite go_idx_nth by lia. apply nth_In. lia. Qed.
Lemma go_idx_mid {A} (d : A) p x s : go_idx d (p ++ x :: s) (go_len p) = x.
Proof. replace (go_len p) with (go_len p + 0) by lia. rewrite go_idx_app_r by lia. apply go_idx_0. Qed.

Ltac norm_len := repeat (rewrite go_len_app || rewrite go_len_cons || rewrite (@go_len_nil N) || rewrite (@go_len_nil (list N))).
Lemma next_label_loop fuel r off e : (1 <= fuel)%nat -> forall l p lf,
  ~ In 46%N l -> ~ In 92%N (p ++ l) -> (length l < lf)%nat ->
  go_NextLabel_loop1 fuel lf (p ++ l ++ 46%N :: r) off (go_len p) e =
  (if is_nil r then GoNext else GoRet (go_len p + go_len l + 1, false),
   (p ++ l ++ 46%N :: r, off, go_len p + go_len l, e)).
Proof.
  intros Hfuel. induction l as [|x l IH]; intros p lf H46 H92 Hlf; (destruct lf as [|lf]; [cbn in Hlf; lia|]).
  - cbn [go_NextLabel_loop1].
    assert (C : (go_len p <? go_len (p ++ [] ++ 46%N :: r) - 1) = negb (is_nil r)).
    { cbn [app]. destruct r as [|y r']; cbn [is_nil negb]; norm_len; [apply Z.ltb_ge | apply Z.ltb_lt; pose proof (go_len_nonneg r')]; lia. }
    rewrite C. norm_len. rewrite Z.add_0_r. destruct r as [|y r]; cbn [is_nil negb]; [reflexivity|].
    cbn [app]. rewrite go_idx_mid. cbn [N.eqb negb Pos.eqb].
    destruct fuel as [|f]; [lia|]. cbn [go_NextLabel_loop2].
    assert (E : (0 <=? go_len p - 1) && (go_idx 0%N (p ++ 46%N :: y :: r) (go_len p - 1) =? 92)%N = false).
    { destruct (0 <=? go_len p - 1) eqn:E0; [|reflexivity]. apply Z.leb_le in E0. cbn [andb].
      rewrite go_idx_app_l by lia. apply N.eqb_neq. intros E. apply H92. rewrite app_nil_r. rewrite <- E. apply go_idx_in. lia. }
    rewrite E. replace (go_len p - 1 - go_len p) with (-1) by lia. cbn. reflexivity.
  - cbn [go_NextLabel_loop1].
    assert (C : (go_len p <? go_len (p ++ (x :: l) ++ 46%N :: r) - 1) = true).
    { cbn [app]. norm_len. pose proof (go_len_nonneg l). pose proof (go_len_nonneg r). apply Z.ltb_lt. lia. }
    rewrite C. cbn [app]. rewrite go_idx_mid.
    assert (Hx : (x =? 46)%N = false) by (apply N.eqb_neq; intros ->; apply H46; left; reflexivity). rewrite Hx. cbn [negb].
    replace (p ++ x :: l ++ 46%N :: r) with ((p ++ [x]) ++ l ++ 46%N :: r) by (rewrite <- app_assoc; reflexivity).
    replace (go_len p + 1) with (go_len (p ++ [x])) by (norm_len; lia).
    rewrite IH; [| intros H'; apply H46; right; exact H' | rewrite <- app_assoc; exact H92 | cbn in Hlf; lia].
    norm_len. f_equal; [destruct (is_nil r); [reflexivity | do 2 f_equal; lia] | do 2 f_equal; lia].
Qed.

Lemma next_label fuel p l r :
  ~ In 46%N l -> ~ In 92%N (p ++ l) -> (length l < fuel)%nat ->
  go_NextLabel fuel (p ++ l ++ 46%N :: r) (go_len p) = Some (go_len p + go_len l + 1, is_nil r).
Proof.
  intros H46 H92 Hf. unfold go_NextLabel.
  destruct (go_list_eqb N.eqb (p ++ l ++ 46%N :: r) []) eqn:E.
  { apply go_bytes_eqb_eq in E. destruct p; destruct l; discriminate. }
  rewrite next_label_loop by (assumption || lia). destruct (is_nil r); reflexivity.
Qed.

(* ---- slices of p ++ m ++ r *)
Lemma go_slice_mid {A} (p m r : list A) : go_slice (p ++ m ++ r) (go_len p) (go_len p + go_len m) = m.
Proof.
  unfold go_slice, go_len. replace (Z.to_nat (Z.of_nat (length p) + Z.of_nat (length m)) - Z.to_nat (Z.of_nat (length p)))%nat with (length m) by lia.
  rewrite Nat2Z.id, skipn_app, skipn_all, Nat.sub_diag. cbn. rewrite firstn_app, firstn_all, Nat.sub_diag. cbn. apply app_nil_r.
Qed.
Lemma go_slice_from_app {A} (p r : list A) : go_slice_from (p ++ r) (go_len p) = r.
Proof. unfold go_slice_from, go_len. rewrite Nat2Z.id, skipn_app, skipn_all, Nat.sub_diag. reflexivity. Qed.

Lemma plain_name_app a b : plain_name (a ++ b) <-> plain_name a /\ plain_name b.
Proof. apply Forall_app. Qed.
Lemma is_nil_pres n : plain_name n -> is_nil (pres n) = is_nil n.
Proof. destruct n as [|l n]; [reflexivity|]. intros H. cbn. destruct l; reflexivity. Qed.
Lemma pres_cons l r : pres (l :: r) = l ++ 46%N :: pres r.
Proof. unfold pres. cbn. rewrite <- app_assoc. reflexivity. Qed.
Lemma pres_snoc p l : pres (p ++ [l]) = pres p ++ l ++ [46%N].
Proof. rewrite pres_app. cbn. rewrite app_nil_r. reflexivity. Qed.

(* NextLabel at a label boundary of a plain presentation string *)
Lemma next_label_pres fuel p l r : plain_name p -> plain_label l -> plain_name r ->
  (length l < fuel)%nat ->
  go_NextLabel fuel (pres p ++ pres (l :: r)) (go_len (pres p)) = Some (go_len (pres (p ++ [l])), is_nil r).
Proof.
  intros Hp [Hne [H46 H92]] Hr Hf. cbn [pres flat_map]. rewrite <- app_assoc. cbn [app].
  change (flat_map (fun l0 : list N => l0 ++ [46%N]) r) with (pres r).
  rewrite next_label; [| exact H46 | rewrite in_app_iff; intros [H|H]; [exact (pres_no92 p Hp H) | exact (H92 H)] | exact Hf].
  rewrite is_nil_pres by exact Hr. rewrite pres_snoc. norm_len. do 2 f_equal. lia.
Qed.

(* CountLabel *)
Lemma count_label_loop fuel : forall r p lf labels e, plain_name p -> plain_name r -> r <> [] ->
  (length r <= lf)%nat -> (length (pres r) < fuel)%nat ->
  fst (go_CountLabel_loop1 fuel lf (pres p ++ pres r) labels (go_len (pres p)) e) = GoRet (labels + Z.of_nat (length r)).
Proof.
  induction r as [|l r IH]; intros p lf labels e Hp Hr Hne Hlf Hf; [congruence|].
  destruct lf as [|lf]; [cbn in Hlf; lia|]. cbn [go_CountLabel_loop1].
  apply Forall_cons_iff in Hr. destruct Hr as [Hl Hr].
  assert (Hfl : (length l < fuel)%nat) by (cbn in Hf; rewrite !app_length in Hf; lia).
  rewrite next_label_pres by assumption.
  destruct r as [|l2 r]; cbn [is_nil]; [cbn; f_equal; lia|].
  replace (pres p ++ pres (l :: l2 :: r)) with (pres (p ++ [l]) ++ pres (l2 :: r))
    by (rewrite pres_snoc, (pres_cons l), <- !app_assoc; reflexivity).
  rewrite IH; [f_equal; cbn [length]; lia | apply plain_name_app; split; [exact Hp | constructor; [exact Hl | constructor]]
              | exact Hr | discriminate | cbn in Hlf |- *; lia | cbn in Hf |- *; rewrite !app_length in *; cbn in *; lia].
Qed.
Lemma pres_len_ge n : plain_name n -> (2 * length n <= length (pres n))%nat.
Proof.
  induction 1 as [|l n [Hne _] _ IH]; [cbn; lia|]. rewrite pres_cons, app_length. cbn [length]. destruct l; [congruence|cbn [length]; lia].
Qed.
Lemma count_label fuel n : plain_name n -> n <> [] -> (length (pres n) < fuel)%nat ->
  go_CountLabel fuel (pres n) = Some (Z.of_nat (length n)).
Proof.
  intros Hn Hne Hf. unfold go_CountLabel.
  destruct (go_list_eqb N.eqb (pres n) [46%N]) eqn:E.
  { apply go_bytes_eqb_eq in E. pose proof (pres_len_ge n Hn) as H. rewrite E in H. destruct n; [congruence|cbn in H; lia]. }
  pose proof (count_label_loop fuel n [] fuel 0 false (Forall_nil _) Hn Hne) as H.
  change (pres [] ++ pres n) with (pres n) in H. change (go_len (pres [])) with 0 in H.
  pose proof (pres_len_ge n Hn).
  change (Z.of_nat 0) with 0 in H.
  destruct (go_CountLabel_loop1 fuel fuel (pres n) 0 0 false) as [c st]. cbn [fst] in H. rewrite H by lia. reflexivity.
Qed.

(* ---- CompareSuffix *)
Lemma max_label_fuel fuel p l r : (length (pres (p ++ l :: r)) < fuel)%nat -> (length l < fuel)%nat.
Proof. rewrite pres_app, pres_cons, !app_length. cbn. lia. Qed.

(* loop 1: the longer a sheds its extra leading labels *)
Lemma cs_align_a fuel b cb offB : forall d pa ra lf, plain_name pa -> plain_name ra ->
  (length ra - cb = d)%nat -> (d < lf)%nat -> (length (pres (pa ++ ra)) < fuel)%nat ->
  go_CompareSuffix_loop1 fuel lf (pres pa ++ pres ra) b (Z.of_nat (length ra)) (Z.of_nat cb) (go_len (pres pa)) offB =
  (GoNext, (pres pa ++ pres ra, b, Z.of_nat (length ra - d), Z.of_nat cb, go_len (pres (pa ++ firstn d ra)), offB)).
Proof.
  induction d as [|d IH]; intros pa ra lf Hpa Hra Hd Hlf Hf; (destruct lf as [|lf]; [lia|]); cbn [go_CompareSuffix_loop1].
  - replace (Z.of_nat cb <? Z.of_nat (length ra)) with false by (symmetry; apply Z.ltb_ge; lia).
    rewrite Nat.sub_0_r, app_nil_r. reflexivity.
  - replace (Z.of_nat cb <? Z.of_nat (length ra)) with true by (symmetry; apply Z.ltb_lt; lia).
    destruct ra as [|l ra]; [cbn in Hd; lia|]. apply Forall_cons_iff in Hra. destruct Hra as [Hl Hra].
    rewrite next_label_pres by (try assumption; eapply max_label_fuel; eauto).
    replace (pres pa ++ pres (l :: ra)) with (pres (pa ++ [l]) ++ pres ra) by (rewrite pres_snoc, (pres_cons l), <- !app_assoc; reflexivity).
    replace (Z.of_nat (length (l :: ra)) - 1) with (Z.of_nat (length ra)) by (cbn [length]; lia).
    rewrite IH; [| apply plain_name_app; split; [exact Hpa | constructor; [exact Hl | constructor]] | exact Hra
                 | cbn [length] in Hd; lia | lia | rewrite <- app_assoc; exact Hf].
    rewrite <- app_assoc. cbn [length firstn app Nat.sub]. reflexivity.
Qed.

(* loop 2: the longer b sheds its extra leading labels *)
Lemma cs_align_b fuel a ca offA : forall d pb rb lf, plain_name pb -> plain_name rb ->
  (length rb - ca = d)%nat -> (d < lf)%nat -> (length (pres (pb ++ rb)) < fuel)%nat ->
  go_CompareSuffix_loop2 fuel lf a (pres pb ++ pres rb) (Z.of_nat ca) (Z.of_nat (length rb)) offA (go_len (pres pb)) =
  (GoNext, (a, pres pb ++ pres rb, Z.of_nat ca, Z.of_nat (length rb - d), offA, go_len (pres (pb ++ firstn d rb)))).
Proof.
  induction d as [|d IH]; intros pb rb lf Hpb Hrb Hd Hlf Hf; (destruct lf as [|lf]; [lia|]); cbn [go_CompareSuffix_loop2].
  - replace (Z.of_nat ca <? Z.of_nat (length rb)) with false by (symmetry; apply Z.ltb_ge; lia).
    rewrite Nat.sub_0_r, app_nil_r. reflexivity.
  - replace (Z.of_nat ca <? Z.of_nat (length rb)) with true by (symmetry; apply Z.ltb_lt; lia).
    destruct rb as [|l rb]; [cbn in Hd; lia|]. apply Forall_cons_iff in Hrb. destruct Hrb as [Hl Hrb].
    rewrite next_label_pres by (try assumption; eapply max_label_fuel; eauto).
    replace (pres pb ++ pres (l :: rb)) with (pres (pb ++ [l]) ++ pres rb) by (rewrite pres_snoc, (pres_cons l), <- !app_assoc; reflexivity).
    replace (Z.of_nat (length (l :: rb)) - 1) with (Z.of_nat (length rb)) by (cbn [length]; lia).
    rewrite IH; [| apply plain_name_app; split; [exact Hpb | constructor; [exact Hl | constructor]] | exact Hrb
                 | cbn [length] in Hd; lia | lia | rewrite <- app_assoc; exact Hf].
    rewrite <- app_assoc. cbn [length firstn app Nat.sub]. reflexivity.
Qed.

(* equalFold sees the labels with their separating dot *)
Lemma list_eqb_snoc (c : N) : forall l1 l2, list_eqb N.eqb (l1 ++ [c]) (l2 ++ [c]) = list_eqb N.eqb l1 l2.
Proof.
  induction l1 as [|x l1 IH]; intros [|y l2]; cbn.
  - rewrite N.eqb_refl. reflexivity.
  - destruct l2; cbn; apply andb_false_r.
  - destruct l1; cbn; apply andb_false_r.
  - rewrite IH. reflexivity.
Qed.
Lemma equal_fold_dot fuel x y : (length x + 1 < fuel)%nat ->
  go_equalFold fuel (x ++ [46%N]) (y ++ [46%N]) = Some (label_eqb (fold_label x) (fold_label y)).
Proof.
  intros Hf. rewrite gen_equal_fold by (rewrite app_length; cbn; lia). f_equal.
  unfold label_eqb, fold_label. rewrite !map_app. cbn [map]. change (fold_byte 46) with 46%N. apply list_eqb_snoc.
Qed.

Lemma slice_label p x r : go_slice (pres p ++ pres (x :: r)) (go_len (pres p)) (go_len (pres (p ++ [x]))) = x ++ [46%N].
Proof.
  rewrite pres_snoc, (pres_cons x). replace (x ++ 46%N :: pres r) with ((x ++ [46%N]) ++ pres r) by (rewrite <- app_assoc; reflexivity).
  rewrite go_len_app. apply go_slice_mid.
Qed.
(* loop 3 and the closing comparison: the reset-counter walk of Model.run_walk *)
Definition cs_tail (fuel : nat) (x : go_ctl Z * (list N * list N * Z * Z * Z * Z * Z)) : option Z :=
  match x with
  | (GoRet r_ret, _) => Some r_ret
  | (GoOof, _) => None
  | (GoNext, st_loop) => let '(v_a, v_b, v_ca, v_cb, v_offA, v_offB, v_n) := st_loop in
      match go_equalFold fuel (go_slice_from v_a v_offA) (go_slice_from v_b v_offB) with
      | Some c_8 => if (v_ca =? 1) && c_8 then Some (v_n + 1) else Some 0
      | None => None
      end
  end.
Lemma cs_walk fuel cb : forall ra rb pa pb n lf, plain_name pa -> plain_name pb -> plain_name ra -> plain_name rb ->
  length ra = length rb -> ra <> [] -> (length ra <= lf)%nat ->
  (length (pres (pa ++ ra)) < fuel)%nat -> (length (pres (pb ++ rb)) < fuel)%nat ->
  cs_tail fuel (go_CompareSuffix_loop3 fuel lf (pres pa ++ pres ra) (pres pb ++ pres rb) (Z.of_nat (length ra)) cb
                  (go_len (pres pa)) (go_len (pres pb)) (Z.of_nat n)) = Some (Z.of_nat (run_walk ra rb n)).
Proof.
  induction ra as [|x ra IH]; intros rb pa pb n lf Hpa Hpb Hra Hrb Hlen Hne Hlf Hfa Hfb; [congruence|].
  destruct rb as [|y rb]; [discriminate|]. destruct lf as [|lf]; [cbn in Hlf; lia|].
  apply Forall_cons_iff in Hra. destruct Hra as [Hx Hra]. apply Forall_cons_iff in Hrb. destruct Hrb as [Hy Hrb].
  assert (Hfx : (length x + 1 < fuel)%nat) by (rewrite pres_app, pres_cons, !app_length in Hfa; cbn in Hfa; lia).
  assert (Hfy : (length y + 1 < fuel)%nat) by (rewrite pres_app, pres_cons, !app_length in Hfb; cbn in Hfb; lia).
  cbn [go_CompareSuffix_loop3].
  destruct ra as [|x2 ra].
  - destruct rb; [|discriminate]. cbn [length]. change (1 <? Z.of_nat 1) with false. cbn [cs_tail].
    rewrite !go_slice_from_app. rewrite !pres_cons. cbn [pres flat_map]. rewrite equal_fold_dot by exact Hfx.
    cbn [run_walk]. change (Z.of_nat 1 =? 1) with true. cbn [andb].
    destruct (label_eqb (fold_label x) (fold_label y)); [f_equal; lia | reflexivity].
  - replace (1 <? Z.of_nat (length (x :: x2 :: ra))) with true by (symmetry; apply Z.ltb_lt; cbn [length]; lia).
    rewrite !next_label_pres by (assumption || lia).
    rewrite !slice_label.
    rewrite equal_fold_dot by exact Hfx. cbn [run_walk].
    replace (pres pa ++ pres (x :: x2 :: ra)) with (pres (pa ++ [x]) ++ pres (x2 :: ra)) by (rewrite pres_snoc, (pres_cons x), <- !app_assoc; reflexivity).
    replace (pres pb ++ pres (y :: rb)) with (pres (pb ++ [y]) ++ pres rb) by (rewrite pres_snoc, (pres_cons y), <- !app_assoc; reflexivity).
    replace (Z.of_nat (length (x :: x2 :: ra)) - 1) with (Z.of_nat (length (x2 :: ra))) by (cbn [length]; lia).
    assert (Hpa' : plain_name (pa ++ [x])) by (apply plain_name_app; split; [exact Hpa | constructor; [exact Hx | constructor]]).
    assert (Hpb' : plain_name (pb ++ [y])) by (apply plain_name_app; split; [exact Hpb | constructor; [exact Hy | constructor]]).
    destruct (label_eqb (fold_label x) (fold_label y)).
    + replace (Z.of_nat n + 1) with (Z.of_nat (S n)) by lia.
      apply IH; try assumption; [cbn [length] in Hlen |- *; lia | discriminate | cbn [length] in Hlf |- *; lia
                                | rewrite <- app_assoc; exact Hfa | rewrite <- app_assoc; exact Hfb].
    + change 0 with (Z.of_nat 0).
      apply IH; try assumption; [cbn [length] in Hlen |- *; lia | discriminate | cbn [length] in Hlf |- *; lia
                                | rewrite <- app_assoc; exact Hfa | rewrite <- app_assoc; exact Hfb].
Qed.

Lemma run_walk_nil_r a n : run_walk a [] n = n.
Proof. destruct a; reflexivity. Qed.
Lemma pres_not_dot n : plain_name n -> n <> [] -> go_list_eqb N.eqb (pres n) [46%N] = false.
Proof.
  intros Hn Hne. destruct (go_list_eqb N.eqb (pres n) [46%N]) eqn:E; [|reflexivity].
  apply go_bytes_eqb_eq in E. pose proof (pres_len_ge n Hn) as H. rewrite E in H. destruct n; [congruence|cbn in H; lia].
Qed.

(* dnsname.CompareSuffix, the function srcgen translates as a whole (with dns.CountLabel, dns.NextLabel,
   equalFold as generated callees), on the presentation strings of escape-free names IS the model's
   reset-counter walk go_compare_suffix *)
Theorem gen_compare_suffix fuel a b : plain_name a -> plain_name b ->
  (length (present a) + length (present b) < fuel)%nat ->
  go_CompareSuffix fuel (present a) (present b) = Some (Z.of_nat (go_compare_suffix a b)).
Proof.
  intros Ha Hb Hf. unfold go_CompareSuffix.
  destruct a as [|xa a']; [cbn; reflexivity|].
  destruct b as [|xb b']. { unfold present at 2. cbn [go_list_eqb N.eqb Pos.eqb andb orb]. rewrite orb_true_r. unfold go_compare_suffix. rewrite run_walk_nil_r. reflexivity. }
  assert (Hna : xa :: a' <> []) by discriminate. assert (Hnb : xb :: b' <> []) by discriminate.
  remember (xa :: a') as a eqn:Ea. remember (xb :: b') as b eqn:Eb.
  assert (Epa : present a = pres a) by (subst a; reflexivity). assert (Epb : present b = pres b) by (subst b; reflexivity).
  rewrite Epa, Epb in *. clear Ea Eb Epa Epb.
  rewrite !pres_not_dot by assumption. cbn [orb].
  rewrite (count_label fuel a Ha Hna) by lia. rewrite (count_label fuel b Hb Hnb) by lia. cbv zeta.
  pose proof (pres_len_ge a Ha) as Hga. pose proof (pres_len_ge b Hb) as Hgb.
  set (d1 := (length a - length b)%nat). set (d2 := (length b - length a)%nat).
  pose proof (cs_align_a fuel (pres b) (length b) 0 d1 [] a fuel (Forall_nil _) Ha eq_refl) as L1.
  change (pres [] ++ pres a) with (pres a) in L1. change (go_len (pres [])) with 0 in L1. change ([] ++ a) with a in L1.
  change ([] ++ firstn d1 a) with (firstn d1 a) in L1.
  rewrite L1 by (unfold d1; lia).
  pose proof (cs_align_b fuel (pres a) (length a - d1) (go_len (pres (firstn d1 a))) d2 [] b fuel (Forall_nil _) Hb) as L2.
  change (pres [] ++ pres b) with (pres b) in L2. change (go_len (pres [])) with 0 in L2. change ([] ++ b) with b in L2.
  change ([] ++ firstn d2 b) with (firstn d2 b) in L2.
  rewrite L2 by (unfold d1, d2; lia).
  assert (Hsplit : forall k (n : name), plain_name n -> plain_name (firstn k n) /\ plain_name (skipn k n))
    by (intros k n Hn; apply plain_name_app; rewrite firstn_skipn; exact Hn).
  destruct (Hsplit d1 a Ha) as [Hfa Hsa]. destruct (Hsplit d2 b Hb) as [Hfb Hsb].
  assert (Hl : length (skipn d1 a) = length (skipn d2 b)) by (rewrite !skipn_length; unfold d1, d2; lia).
  assert (Hne : skipn d1 a <> []).
  { intros E. apply (f_equal (@length label)) in E. rewrite skipn_length in E. cbn in E. unfold d1 in E.
    destruct a; [congruence|]. destruct b; [congruence|]. cbn [length] in E. lia. }
  pose proof (cs_walk fuel (Z.of_nat (length b - d2)) (skipn d1 a) (skipn d2 b) (firstn d1 a) (firstn d2 b) 0 fuel
                Hfa Hfb Hsa Hsb Hl Hne) as W.
  rewrite <- !pres_app, !firstn_skipn in W. rewrite skipn_length in W.
  unfold go_compare_suffix. fold d1 d2. rewrite <- W by (rewrite ?skipn_length; lia). reflexivity.
Qed.


(* dnsname.Sub *)
Lemma count_label_present fuel n : plain_name n -> (length (present n) < fuel)%nat ->
  go_CountLabel fuel (present n) = Some (Z.of_nat (length n)).
Proof. intros Hn Hf. destruct n as [|l n]; [reflexivity|]. apply count_label; [exact Hn | discriminate | exact Hf]. Qed.
Theorem gen_sub fuel zone n : plain_name zone -> plain_name n ->
  (length (present zone) + length (present n) < fuel)%nat ->
  go_Sub fuel (present zone) (present n) = Some (go_compare_suffix zone n =? length zone)%nat.
Proof.
  intros Hz Hn Hf. unfold go_Sub. rewrite gen_compare_suffix by assumption. rewrite count_label_present by (assumption || lia).
  f_equal. destruct (Nat.eqb_spec (go_compare_suffix zone n) (length zone)) as [E|E]; [rewrite E; apply Z.eqb_refl | apply Z.eqb_neq; lia].
Qed.

(* ---- CanonicalCompare *)
Lemma canonical_label_count fuel n : plain_name n -> (length (present n) < fuel)%nat ->
  go_canonicalLabelCount fuel (present n) = Some (Z.of_nat (length n)).
Proof.
  intros Hn Hf. unfold go_canonicalLabelCount. destruct n as [|l n]; [reflexivity|].
  change (present (l :: n)) with (pres (l :: n)) in *.
  rewrite pres_not_dot by (assumption || discriminate).
  destruct (go_list_eqb N.eqb (pres (l :: n)) []) eqn:E.
  { apply go_bytes_eqb_eq in E. pose proof (pres_len_ge _ Hn) as H. rewrite E in H. cbn in H. lia. }
  cbn [orb]. rewrite count_label by (assumption || discriminate). reflexivity.
Qed.

Lemma escaped_tail_plain fuel x : (1 <= fuel)%nat -> x <> [] -> ~ In 92%N x ->
  go_escapedTail fuel (x ++ [46%N]) (go_len (x ++ [46%N]) - 1) = Some false.
Proof.
  intros Hf Hne H92. unfold go_escapedTail. destruct fuel as [|f]; [lia|]. cbn [go_escapedTail_loop1].
  assert (Ej : go_len (x ++ [46%N]) - 1 - 1 = go_len x - 1) by (unfold go_len; rewrite app_length; cbn [length]; lia).
  rewrite Ej.
  assert (Hl : 0 < go_len x) by (unfold go_len; destruct x; [congruence | cbn [length]; lia]).
  rewrite go_idx_app_l by lia.
  assert (E : (go_idx 0%N x (go_len x - 1) =? 92)%N = false) by (apply N.eqb_neq; intros E; apply H92; rewrite <- E; apply go_idx_in; lia).
  rewrite E, andb_false_r. reflexivity.
Qed.

Lemma canon_label fuel p x r : plain_name p -> plain_label x -> plain_name r ->
  (length (pres (p ++ x :: r)) < fuel)%nat ->
  go_canonicalLabel fuel (pres p ++ pres (x :: r)) (go_len (pres p)) (is_nil r) = Some (x, go_len (pres (p ++ [x]))).
Proof.
  intros Hp Hx Hr Hf. pose proof Hx as [Hne [H46 H92]]. unfold go_canonicalLabel.
  assert (Hfx : (length x + 1 < fuel)%nat) by (rewrite pres_app, pres_cons, !app_length in Hf; cbn in Hf; lia).
  destruct r as [|y r]; cbn [is_nil negb].
  - rewrite go_slice_from_app. rewrite pres_cons. cbn [pres flat_map]. 
    rewrite escaped_tail_plain by (assumption || lia).
    assert (Hl : 0 < go_len x) by (unfold go_len; destruct x; [congruence | cbn [length]; lia]).
    replace (1 <? go_len (x ++ [46%N])) with true by (symmetry; apply Z.ltb_lt; norm_len; lia).
    replace (go_len (x ++ [46%N]) - 1) with (go_len x) by (norm_len; lia).
    replace (go_idx 0%N (x ++ [46%N]) (go_len x)) with 46%N by (symmetry; apply go_idx_mid).
    cbn [N.eqb Pos.eqb andb negb]. f_equal. f_equal.
    + unfold go_slice_to, go_len. rewrite Nat2Z.id, firstn_app, firstn_all, Nat.sub_diag. cbn. apply app_nil_r.
    + rewrite pres_snoc. reflexivity.
  - rewrite next_label_pres by (assumption || lia). f_equal. f_equal.
    rewrite pres_snoc, (pres_cons x). norm_len. replace (go_len (pres p) + (go_len x + (1 + 0)) - 1) with (go_len (pres p) + go_len x) by lia.
    apply go_slice_mid.
Qed.

(* loops 1 and 2: alignment *)
Lemma cc_align_a fuel b ca cb offB : forall d pa ra lf, plain_name pa -> plain_name ra ->
  (d <= length ra)%nat -> (d < lf)%nat -> (length (pres (pa ++ ra)) < fuel)%nat ->
  go_CanonicalCompare_loop1 fuel lf (pres pa ++ pres ra) b ca (Z.of_nat cb) (go_len (pres pa)) offB (Z.of_nat (cb + d)) =
  (GoNext, (pres pa ++ pres ra, b, ca, Z.of_nat cb, go_len (pres (pa ++ firstn d ra)), offB, Z.of_nat cb)).
Proof.
  induction d as [|d IH]; intros pa ra lf Hpa Hra Hd Hlf Hf; (destruct lf as [|lf]; [lia|]); cbn [go_CanonicalCompare_loop1].
  - rewrite Nat.add_0_r, Z.ltb_irrefl, app_nil_r. reflexivity.
  - replace (Z.of_nat cb <? Z.of_nat (cb + S d)) with true by (symmetry; apply Z.ltb_lt; lia).
    destruct ra as [|l ra]; [cbn in Hd; lia|]. apply Forall_cons_iff in Hra. destruct Hra as [Hl Hra].
    rewrite next_label_pres by (try assumption; eapply max_label_fuel; eauto).
    replace (pres pa ++ pres (l :: ra)) with (pres (pa ++ [l]) ++ pres ra) by (rewrite pres_snoc, (pres_cons l), <- !app_assoc; reflexivity).
    replace (Z.of_nat (cb + S d) - 1) with (Z.of_nat (cb + d)) by lia.
    rewrite IH; [| apply plain_name_app; split; [exact Hpa | constructor; [exact Hl | constructor]] | exact Hra
                 | cbn [length] in Hd; lia | lia | rewrite <- app_assoc; exact Hf].
    rewrite <- app_assoc. cbn [firstn app]. reflexivity.
Qed.
Lemma cc_align_b fuel a ca cb offA i : forall d pb rb lf, plain_name pb -> plain_name rb ->
  (d <= length rb)%nat -> (d < lf)%nat -> (length (pres (pb ++ rb)) < fuel)%nat ->
  go_CanonicalCompare_loop2 fuel lf a (pres pb ++ pres rb) (Z.of_nat ca) cb offA (go_len (pres pb)) i (Z.of_nat (ca + d)) =
  (GoNext, (a, pres pb ++ pres rb, Z.of_nat ca, cb, offA, go_len (pres (pb ++ firstn d rb)), i, Z.of_nat ca)).
Proof.
  induction d as [|d IH]; intros pb rb lf Hpb Hrb Hd Hlf Hf; (destruct lf as [|lf]; [lia|]); cbn [go_CanonicalCompare_loop2].
  - rewrite Nat.add_0_r, Z.ltb_irrefl, app_nil_r. reflexivity.
  - replace (Z.of_nat ca <? Z.of_nat (ca + S d)) with true by (symmetry; apply Z.ltb_lt; lia).
    destruct rb as [|l rb]; [cbn in Hd; lia|]. apply Forall_cons_iff in Hrb. destruct Hrb as [Hl Hrb].
    rewrite next_label_pres by (try assumption; eapply max_label_fuel; eauto).
    replace (pres pb ++ pres (l :: rb)) with (pres (pb ++ [l]) ++ pres rb) by (rewrite pres_snoc, (pres_cons l), <- !app_assoc; reflexivity).
    replace (Z.of_nat (ca + S d) - 1) with (Z.of_nat (ca + d)) by lia.
    rewrite IH; [| apply plain_name_app; split; [exact Hpb | constructor; [exact Hl | constructor]] | exact Hrb
                 | cbn [length] in Hd; lia | lia | rewrite <- app_assoc; exact Hf].
    rewrite <- app_assoc. cbn [firstn app]. reflexivity.
Qed.

(* loop 3 and the closing tie-break: Model.walk_verdict, then the label counts *)
Definition cc_final (v : comparison) (ca cb : Z) : Z :=
  if negb (cmp_z v =? 0) then cmp_z v else if ca <? cb then -1 else if cb <? ca then 1 else 0.
Definition cc_tail (x : go_ctl Z * (list N * list N * Z * Z * Z * Z * Z * Z * Z * Z)) : option Z :=
  match x with
  | (GoRet r_ret, _) => Some r_ret
  | (GoOof, _) => None
  | (GoNext, st_loop) => let '(v_a, v_b, v_ca, v_cb, v_offA, v_offB, v_i, v_i_2, v_verdict, v_i_3) := st_loop in
      if negb (v_verdict =? 0) then Some v_verdict
      else if v_ca <? v_cb then Some (-1) else if v_cb <? v_ca then Some 1 else Some 0
  end.
Lemma cmp_z_nonzero c : (cmp_z c =? 0) = match c with Eq => true | _ => false end.
Proof. destruct c; reflexivity. Qed.

Lemma cc_walk fuel ca cb i i2 : forall ra rb pa pb v lf, plain_name pa -> plain_name pb -> plain_name ra -> plain_name rb ->
  length ra = length rb -> (length ra < lf)%nat ->
  (length (pres (pa ++ ra)) < fuel)%nat -> (length (pres (pb ++ rb)) < fuel)%nat ->
  cc_tail (go_CanonicalCompare_loop3 fuel lf (pres pa ++ pres ra) (pres pb ++ pres rb) ca cb
             (go_len (pres pa)) (go_len (pres pb)) i i2 (cmp_z v) (Z.of_nat (length ra)))
  = Some (cc_final (walk_verdict ra rb v) ca cb).
Proof.
  induction ra as [|x ra IH]; intros rb pa pb v lf Hpa Hpb Hra Hrb Hlen Hlf Hfa Hfb;
    (destruct lf as [|lf]; [lia|]); cbn [go_CanonicalCompare_loop3].
  - destruct rb; [|discriminate]. cbn [length]. change (0 <? Z.of_nat 0) with false.
    unfold cc_tail, cc_final. cbn [walk_verdict]. destruct (negb (cmp_z v =? 0)); [reflexivity|].
    destruct (ca <? cb); [reflexivity|]. destruct (cb <? ca); reflexivity.
  - destruct rb as [|y rb]; [discriminate|].
    apply Forall_cons_iff in Hra. destruct Hra as [Hx Hra]. apply Forall_cons_iff in Hrb. destruct Hrb as [Hy Hrb].
    replace (0 <? Z.of_nat (length (x :: ra))) with true by (symmetry; apply Z.ltb_lt; cbn [length]; lia).
    assert (Hlast : forall (r : name), (Z.of_nat (length (x :: ra)) =? 1) = is_nil ra).
    { intros _. destruct ra; cbn [length is_nil]; [reflexivity | apply Z.eqb_neq; lia]. }
    rewrite (Hlast ra). cbv zeta.
    rewrite canon_label by assumption.
    assert (Hnil : is_nil ra = is_nil rb) by (destruct ra; destruct rb; cbn in *; congruence).
    rewrite Hnil. rewrite canon_label by assumption.
    assert (Hfx : (length x < fuel)%nat) by (rewrite pres_app, pres_cons, !app_length in Hfa; cbn in Hfa; lia).
    assert (Hfy : (length y < fuel)%nat) by (rewrite pres_app, pres_cons, !app_length in Hfb; cbn in Hfb; lia).
    assert (Hpa' : plain_name (pa ++ [x])) by (apply plain_name_app; split; [exact Hpa | constructor; [exact Hx | constructor]]).
    assert (Hpb' : plain_name (pb ++ [y])) by (apply plain_name_app; split; [exact Hpb | constructor; [exact Hy | constructor]]).
    destruct Hx as [_ [_ Hx92]]. destruct Hy as [_ [_ Hy92]].
    rewrite gen_compare_decoded_fold_plain by assumption.
    cbn [walk_verdict].
    replace (pres pa ++ pres (x :: ra)) with (pres (pa ++ [x]) ++ pres ra) by (rewrite pres_snoc, (pres_cons x), <- !app_assoc; reflexivity).
    replace (pres pb ++ pres (y :: rb)) with (pres (pb ++ [y]) ++ pres rb) by (rewrite pres_snoc, (pres_cons y), <- !app_assoc; reflexivity).
    replace (Z.of_nat (length (x :: ra)) - 1) with (Z.of_nat (length ra)) by (cbn [length]; lia).
    rewrite cmp_z_nonzero.
    destruct (lcmp (fold_label x) (fold_label y)); cbn [negb];
      (apply IH; try assumption; [cbn [length] in Hlen; lia | cbn [length] in Hlf; lia
                                 | rewrite <- app_assoc; exact Hfa | rewrite <- app_assoc; exact Hfb]).
Qed.


Lemma cc_loop1_noop fuel lf a b ca cb oA oB i : i <= cb ->
  go_CanonicalCompare_loop1 fuel (S lf) a b ca cb oA oB i = (GoNext, (a, b, ca, cb, oA, oB, i)).
Proof. intros H. cbn [go_CanonicalCompare_loop1]. replace (cb <? i) with false by (symmetry; apply Z.ltb_ge; lia). reflexivity. Qed.
Lemma cc_loop2_noop fuel lf a b ca cb oA oB i i2 : i2 <= ca ->
  go_CanonicalCompare_loop2 fuel (S lf) a b ca cb oA oB i i2 = (GoNext, (a, b, ca, cb, oA, oB, i, i2)).
Proof. intros H. cbn [go_CanonicalCompare_loop2]. replace (ca <? i2) with false by (symmetry; apply Z.ltb_ge; lia). reflexivity. Qed.
Lemma cc_loop3_zero fuel lf a b ca cb oA oB i i2 v :
  go_CanonicalCompare_loop3 fuel (S lf) a b ca cb oA oB i i2 v 0 = (GoNext, (a, b, ca, cb, oA, oB, i, i2, v, 0)).
Proof. reflexivity. Qed.

Lemma cc_final_spec v la lb :
  cc_final v (Z.of_nat la) (Z.of_nat lb) = cmp_z (match v with Eq => Nat.compare la lb | c => c end).
Proof.
  unfold cc_final. destruct v; cbn [cmp_z Z.eqb negb]; try reflexivity.
  destruct (Nat.compare_spec la lb) as [E|E|E]; cbn [cmp_z].
  - subst. rewrite Z.ltb_irrefl. reflexivity.
  - replace (Z.of_nat la <? Z.of_nat lb) with true by (symmetry; apply Z.ltb_lt; lia). reflexivity.
  - replace (Z.of_nat la <? Z.of_nat lb) with false by (symmetry; apply Z.ltb_ge; lia).
    replace (Z.of_nat lb <? Z.of_nat la) with true by (symmetry; apply Z.ltb_lt; lia). reflexivity.
Qed.

Lemma cc_finish fuel a b i i2 : plain_name a -> plain_name b ->
  (length (pres a) + length (pres b) < fuel)%nat ->
  cc_tail (go_CanonicalCompare_loop3 fuel fuel (pres a) (pres b) (Z.of_nat (length a)) (Z.of_nat (length b))
             (go_len (pres (firstn (length a - length b) a))) (go_len (pres (firstn (length b - length a) b)))
             i i2 0 (Z.min (Z.of_nat (length a)) (Z.of_nat (length b))))
  = Some (cmp_z (go_canonical_compare a b)).
Proof.
  intros Ha Hb Hf. set (d1 := (length a - length b)%nat). set (d2 := (length b - length a)%nat).
  pose proof (pres_len_ge a Ha) as Hga. pose proof (pres_len_ge b Hb) as Hgb.
  assert (Hsplit : forall k (n : name), plain_name n -> plain_name (firstn k n) /\ plain_name (skipn k n))
    by (intros k n Hn; apply plain_name_app; rewrite firstn_skipn; exact Hn).
  destruct (Hsplit d1 a Ha) as [Hfa Hsa]. destruct (Hsplit d2 b Hb) as [Hfb Hsb].
  assert (Hl : length (skipn d1 a) = length (skipn d2 b)) by (rewrite !skipn_length; unfold d1, d2; lia).
  pose proof (cc_walk fuel (Z.of_nat (length a)) (Z.of_nat (length b)) i i2 (skipn d1 a) (skipn d2 b) (firstn d1 a) (firstn d2 b) Eq fuel
                Hfa Hfb Hsa Hsb Hl) as W.
  rewrite <- !pres_app, !firstn_skipn in W. rewrite skipn_length in W.
  replace (Z.min (Z.of_nat (length a)) (Z.of_nat (length b))) with (Z.of_nat (length a - d1)) by (unfold d1; lia).
  change 0 with (cmp_z Eq). rewrite W by lia. rewrite cc_final_spec. unfold go_canonical_compare. fold d1 d2.
  destruct (walk_verdict (skipn d1 a) (skipn d2 b) Eq); reflexivity.
Qed.

(* dnsname.CanonicalCompare, translated as a whole (dns.CountLabel / dns.NextLabel / canonicalLabel / escapedTail /
   compareDecodedFold as generated callees), on the presentation strings of escape-free names IS the model's
   walk go_canonical_compare *)
Theorem gen_canonical_compare fuel a b : plain_name a -> plain_name b ->
  (length (present a) + length (present b) < fuel)%nat ->
  go_CanonicalCompare fuel (present a) (present b) = Some (cmp_z (go_canonical_compare a b)).
Proof.
  intros Ha Hb Hf. unfold go_CanonicalCompare.
  rewrite !canonical_label_count by (assumption || lia). cbv zeta.
  destruct fuel as [|f]; [lia|].
  destruct a as [|xa a']; destruct b as [|xb b'].
  - reflexivity.
  - rewrite cc_loop1_noop by (cbn [length]; lia).
    remember (xb :: b') as b eqn:Eb. assert (Epb : present b = pres b) by (subst b; reflexivity). rewrite Epb in *.
    pose proof (cc_align_b (S f) (present []) 0 (Z.of_nat (length b)) 0 (Z.of_nat (length (@nil label))) (length b) [] b (S f) (Forall_nil _) Hb (le_n _)) as L2.
    change (pres [] ++ pres b) with (pres b) in L2. change (go_len (pres [])) with 0 in L2. change ([] ++ b) with b in L2.
    change ([] ++ firstn (length b) b) with (firstn (length b) b) in L2. cbn [length Nat.add] in L2 |- *.
    pose proof (pres_len_ge b Hb). rewrite L2 by lia.
    replace (Z.min (Z.of_nat 0) (Z.of_nat (length b))) with 0 by lia. rewrite cc_loop3_zero.
    unfold go_canonical_compare. cbn [length Nat.sub skipn walk_verdict]. cbn [Z.eqb negb].
    replace (Z.of_nat 0 <? Z.of_nat (length b)) with true by (symmetry; apply Z.ltb_lt; subst b; cbn [length]; lia).
    subst b. reflexivity.
  - remember (xa :: a') as a eqn:Ea. assert (Epa : present a = pres a) by (subst a; reflexivity). rewrite Epa in *.
    pose proof (cc_align_a (S f) (present []) (Z.of_nat (length a)) 0 0 (length a) [] a (S f) (Forall_nil _) Ha (le_n _)) as L1.
    change (pres [] ++ pres a) with (pres a) in L1. change (go_len (pres [])) with 0 in L1. change ([] ++ a) with a in L1.
    change ([] ++ firstn (length a) a) with (firstn (length a) a) in L1. cbn [length Nat.add] in L1 |- *.
    pose proof (pres_len_ge a Ha). rewrite L1 by lia.
    rewrite cc_loop2_noop by lia.
    replace (Z.min (Z.of_nat (length a)) (Z.of_nat 0)) with 0 by lia. rewrite cc_loop3_zero.
    unfold go_canonical_compare. cbn [length]. rewrite Nat.sub_0_r, skipn_all. cbn [walk_verdict Z.eqb negb].
    replace (Z.of_nat (length a) <? Z.of_nat 0) with false by (symmetry; apply Z.ltb_ge; lia).
    replace (Z.of_nat 0 <? Z.of_nat (length a)) with true by (symmetry; apply Z.ltb_lt; subst a; cbn [length]; lia).
    subst a. reflexivity.
  - remember (xa :: a') as a eqn:Ea. remember (xb :: b') as b eqn:Eb.
    assert (Epa : present a = pres a) by (subst a; reflexivity). assert (Epb : present b = pres b) by (subst b; reflexivity).
    rewrite Epa, Epb in *. clear Ea Eb Epa Epb.
    pose proof (pres_len_ge a Ha) as Hga. pose proof (pres_len_ge b Hb) as Hgb.
    destruct (le_lt_dec (length b) (length a)) as [Hle|Hlt].
    + pose proof (cc_align_a (S f) (pres b) (Z.of_nat (length a)) (length b) 0 (length a - length b) [] a (S f) (Forall_nil _) Ha) as L1.
      change (pres [] ++ pres a) with (pres a) in L1. change (go_len (pres [])) with 0 in L1. change ([] ++ a) with a in L1.
      change ([] ++ firstn (length a - length b) a) with (firstn (length a - length b) a) in L1.
      replace (length b + (length a - length b))%nat with (length a) in L1 by lia.
      rewrite L1 by lia. rewrite cc_loop2_noop by lia.
      replace 0 with (go_len (pres (firstn (length b - length a) b))) at 1 by (replace (length b - length a)%nat with O by lia; reflexivity).
      apply cc_finish; assumption.
    + rewrite cc_loop1_noop by lia.
      pose proof (cc_align_b (S f) (pres a) (length a) (Z.of_nat (length b)) 0 (Z.of_nat (length a)) (length b - length a) [] b (S f) (Forall_nil _) Hb) as L2.
      change (pres [] ++ pres b) with (pres b) in L2. change (go_len (pres [])) with 0 in L2. change ([] ++ b) with b in L2.
      change ([] ++ firstn (length b - length a) b) with (firstn (length b - length a) b) in L2.
      replace (length a + (length b - length a))%nat with (length b) in L2 by lia.
      rewrite L2 by lia.
      replace 0 with (go_len (pres (firstn (length a - length b) a))) at 1 by (replace (length a - length b)%nat with O by lia; reflexivity).
      apply cc_finish; assumption.
Qed.

(* dnssec.nsecCovers (through canonicalNameCompare): the three-way interval test of Model.covers_of_cmps *)
Theorem gen_nsec_covers fuel o nx x : plain_name o -> plain_name nx -> plain_name x ->
  (length (present o) + length (present nx) + length (present x) < fuel)%nat ->
  go_nsecCovers fuel (present o) (present nx) (present x) =
  Some (covers_of_cmps (go_canonical_compare o nx) (go_canonical_compare x o) (go_canonical_compare x nx)).
Proof.
  intros Ho Hn Hx Hf. unfold go_nsecCovers, go_canonicalNameCompare.
  rewrite !gen_canonical_compare by (assumption || lia). cbv zeta.
  destruct (go_canonical_compare o nx); destruct (go_canonical_compare x o); destruct (go_canonical_compare x nx); reflexivity.
Qed.

(* ---- the same ties stated against the ORDER and the SUFFIX COUNT the proofs use (canonical names) *)
Lemma canon_length (n : name) : length (canon n) = length n.
Proof. unfold canon. rewrite rev_length, map_length. reflexivity. Qed.

(* non-vacuity, by evaluating the generated code: www.Example.com. / example.COM. share 2 labels; a.b. < c.b.;
   example.COM. is at/below com.; the NSEC a.b. -> c.b. covers b\000... no: covers "b.b."; too little fuel = None *)
Example gen_code_examples :
  let n (l : list String.string) : name := map bytes_of_string l in
  plain_name (n ["www"; "Example"; "com"]%string) /\
  go_CompareSuffix 40 (present (n ["www"; "Example"; "com"]%string)) (present (n ["example"; "COM"]%string)) = Some 2 /\
  go_CanonicalCompare 20 (present (n ["a"; "b"]%string)) (present (n ["c"; "b"]%string)) = Some (-1) /\
  go_Sub 40 (present (n ["com"]%string)) (present (n ["example"; "COM"]%string)) = Some true /\
  go_nsecCovers 40 (present (n ["a"; "b"]%string)) (present (n ["c"; "b"]%string)) (present (n ["b"; "b"]%string)) = Some true /\
  go_CanonicalCompare 1 (present (n ["a"; "b"]%string)) (present (n ["c"; "b"]%string)) = None.
Proof.
  cbv zeta. split; [|vm_compute; repeat split; reflexivity].
  repeat constructor; try discriminate; vm_compute; intros H; repeat (destruct H as [H|H]; [discriminate|]); exact H.
Qed.
End CompareDecodedFold.
