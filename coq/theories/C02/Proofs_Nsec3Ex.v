(* C02 — the hypotheses of the NSEC3 theorems are satisfiable: a concrete injective hash (stdpp's
   Countable encoding), a two-name zone, its genuine two-record chain, and an NXDOMAIN the
   aggressive evaluator derives from it. *)
From Sdns Require Import Common.Base Gen.C02 C02.Model C02.ModelNsec3 C02.Spec
  C02.Proofs_Order C02.Proofs_Nsec C02.Proofs_Spec C02.Proofs_NsecTop C02.Proofs_Nsec3.
From stdpp Require countable.
Open Scope N_scope.

Definition Hx (n : rname) : N := Npos (countable.encode n).
Lemma Hx_inj a b : Hx a = Hx b -> a = b.
Proof. unfold Hx. intros E. inversion E. eapply countable.encode_inj; eauto. Qed.

Definition x_apex : rname := [[101]].
Definition x_ze : rname := [[101]; [122]].
Definition x_zone : zone := mk_zone x_apex [(x_apex, [2; 6; 46; 48]); (x_ze, [1; 46])].
Definition x_hashed (n : rname) : Prop := n = x_apex \/ n = x_ze.
Definition x_q : rname := [[101]; [120]].
Definition x_tab : htab := map (fun n => (n, Hx n)) [x_q; x_apex; x_apex ++ [star]].
Definition x_recs : list nsec3 :=
  [ mk_nsec3 [[101]] (Some (Hx x_apex)) (Some (Hx x_ze)) 20 1 0 0 [] 1 [2; 6; 46; 48];
    mk_nsec3 [[101]] (Some (Hx x_ze)) (Some (Hx x_apex)) 20 1 0 0 [] 1 [1; 46] ].

Lemma x_exists_direct_inzone m : is_prefix x_apex m -> exists_direct x_zone m -> x_hashed m.
Proof.
  intros [s Hs] [w [[tys Hin] [t Ht]]]. subst m. cbn in Hin.
  destruct Hin as [E|[E|[]]]; injection E as E1 E2; subst w tys; cbn in Ht.
  - left. destruct s; [reflexivity|]. inversion Ht.
  - destruct s as [|l s]; [left; reflexivity|]. inversion Ht; subst. destruct s; [right; reflexivity|].
    cbn in H1. inversion H1.
Qed.

Lemma tab_of_hash_ok (Hf : rname -> N) l n v : hash_lookup (map (fun n => (n, Hf n)) l) n = Some v -> v = Hf n.
Proof.
  unfold hash_lookup. induction l as [|a l IH]; cbn; [discriminate|].
  destruct (rname_eqb a n) eqn:E; [|exact IH].
  apply rname_eqb_spec in E. subst. intros E'. inversion E'. reflexivity.
Qed.

Example nsec3_hypotheses_satisfiable :
  nsec3_world Hx x_zone x_hashed x_tab /\ optout_discipline x_zone x_hashed /\
  all_genuine3 Hx x_zone x_hashed x_recs /\ wildcards_not_delegations x_zone /\
  exists proof, aggr_nsec3 x_q 1 1 x_apex x_recs x_tab = A_deny RC_NXDOMAIN proof.
Proof.
  assert (Hnohidden : forall n, ~ hidden x_zone x_hashed n).
  { intros n [Hz [He Hn]]. apply Hn. apply x_exists_direct_inzone; assumption. }
  split; [|split; [|split; [|split]]].
  - split; [exact Hx_inj|]. split; [apply zone_wf_b_sound; vm_compute; reflexivity|].
    split; [|split].
    + intros n [->| ->]; apply exists_direct_b_spec; vm_compute; reflexivity.
    + intros n [->| ->]; apply prefix_b_spec; vm_compute; reflexivity.
    + intros n v. apply tab_of_hash_ok.
  - split; [intros n Hh; exfalso; exact (Hnohidden n Hh) | intros ce Hh; exact (Hnohidden _ Hh)].
  - intros r [<-|[<-|[]]] zone i e Ee; unfold entry_of in Ee;
      cbn [r_zone r_ohash r_nhash r_hashlen r_flags r_types] in Ee;
      (destruct (negb _) in Ee; [discriminate|]); change (20 =? SHA1_SIZE) with true in Ee; cbn iota in Ee;
      inversion Ee; subst; clear Ee.
    + exists x_apex. split; [left; reflexivity|]. split; [reflexivity|].
      split; [exists x_ze; split; [right; reflexivity | reflexivity]|].
      split; [intros m [->| ->]; vm_compute; reflexivity|].
      split; [intros m Hh; exfalso; exact (Hnohidden m Hh)|].
      left. exists [2; 6; 46; 48]. split; [left; reflexivity | reflexivity].
    + exists x_ze. split; [right; reflexivity|]. split; [reflexivity|].
      split; [exists x_apex; split; [left; reflexivity | reflexivity]|].
      split; [intros m [->| ->]; vm_compute; reflexivity|].
      split; [intros m Hh; exfalso; exact (Hnohidden m Hh)|].
      left. exists [1; 46]. split; [right; left; reflexivity | reflexivity].
  - intros ce tys Hin. cbn in Hin. destruct Hin as [E|[E|[]]]; inversion E; destruct ce as [|? [|? [|? ?]]]; discriminate.
  - eexists. vm_compute. reflexivity.
Qed.
