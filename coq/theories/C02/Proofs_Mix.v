(* C02 — mixtures (session 4): records of other zones that lie wholly inside subtrees of the signer zone
   (a child zone's chain replayed into the parent's answer: every owner and NextDomain at or below the
   child apex) never take part in the RFC 8198 evaluator's verdict about a name OUTSIDE those subtrees.
   Hence a sub-multiset of the genuine chain mixed with any such records is as sound as the sub-multiset
   alone: the defence is the containment test of the wrap-around case in aggressiveNSECClassifyInterval
   (a chain-closing record covers only names below its NextDomain) together with subtree convexity. *)
From Sdns Require Import Common.Base Gen.C02 C02.Model C02.Spec C02.Proofs_Order C02.Proofs_Nsec C02.Proofs_Spec C02.Proofs_NsecTop C02.ModelAuth.
Open Scope N_scope.

Definition keep_b (ds : list rname) (e : cnsec) : bool := negb (confined_b ds e).

(* a confined record neither is an ancestor of, nor owns, nor covers a name outside *)
Lemma confined_irrelevant ds e x :
  confined_b ds e = true -> outside_b ds x = true ->
  strict_prefix_b (c_owner e) x = false /\ rname_eqb x (c_owner e) = false /\ classify_interval x e = None.
Proof.
  unfold confined_b, outside_b. intros Hc Ho.
  apply existsb_exists in Hc. destruct Hc as [d [Hd Hc]]. apply andb_true_iff in Hc. destruct Hc as [Hpo Hpn].
  rewrite forallb_forall in Ho. specialize (Ho d Hd). apply negb_true_iff in Ho.
  apply prefix_b_spec in Hpo. apply prefix_b_spec in Hpn.
  assert (Hnx : ~ is_prefix d x). { intros H. apply prefix_b_spec in H. congruence. }
  split; [|split].
  - destruct (strict_prefix_b (c_owner e) x) eqn:E; [|reflexivity].
    exfalso. apply Hnx. apply strict_prefix_b_spec in E. eapply is_prefix_trans; [exact Hpo | apply strict_is_prefix, E].
  - destruct (rname_eqb x (c_owner e)) eqn:E; [|reflexivity].
    exfalso. apply rname_eqb_spec in E. subst x. exact (Hnx Hpo).
  - unfold classify_interval.
    destruct (ncmp x (c_owner e)) eqn:Exo; cbn; try reflexivity.
    destruct (rname_eqb x (c_next e)); cbn; [reflexivity|].
    assert (Hox : ncmp (c_owner e) x = Lt) by (apply ncmp_gt_lt, Exo).
    assert (Hdx : ncmp d x <> Gt).
    { pose proof (ncmp_le_lt_trans d (c_owner e) x (prefix_le _ _ Hpo) Hox) as H. rewrite H. discriminate. }
    destruct (is_gt (ncmp (c_next e) (c_owner e))).
    + destruct (ncmp x (c_next e)) eqn:Exn; cbn; try reflexivity.
      exfalso. apply Hnx. apply (subtree_interval d (c_next e) x Hpn Hdx). rewrite Exn. discriminate.
    + destruct (prefix_b (c_next e) x) eqn:Ep; cbn; [|reflexivity].
      exfalso. apply Hnx. apply prefix_b_spec in Ep. eapply is_prefix_trans; eauto.
Qed.

Lemma classify_scan_filter ds x entries exact cover :
  outside_b ds x = true ->
  classify_scan x entries exact cover = classify_scan x (filter (keep_b ds) entries) exact cover.
Proof.
  intros Ho. revert exact cover. induction entries as [|e t IH]; intros exact cover; [reflexivity|].
  cbn [filter]. unfold keep_b at 1. destruct (confined_b ds e) eqn:Ec; cbn [negb].
  - destruct (confined_irrelevant ds e x Ec Ho) as [_ [H2 H3]].
    cbn [classify_scan]. rewrite H2, H3. apply IH.
  - cbn [classify_scan]. destruct (rname_eqb x (c_owner e)).
    + destruct exact; [reflexivity | apply IH].
    + destruct (classify_interval x e); [|apply IH]. destruct cover; [reflexivity | apply IH].
Qed.

Lemma classify_filter ds x entries :
  outside_b ds x = true -> classify x entries = classify x (filter (keep_b ds) entries).
Proof.
  intros Ho. unfold classify. rewrite <- (classify_scan_filter ds x entries None None Ho).
  replace (existsb (fun e => strict_prefix_b (c_owner e) x && cut_bitmap (c_types e)) (filter (keep_b ds) entries))
    with (existsb (fun e => strict_prefix_b (c_owner e) x && cut_bitmap (c_types e)) entries); [reflexivity|].
  induction entries as [|e t IH]; [reflexivity|].
  cbn [filter existsb]. unfold keep_b at 1. destruct (confined_b ds e) eqn:Ec; cbn [negb].
  - destruct (confined_irrelevant ds e x Ec Ho) as [H1 _]. rewrite H1. cbn. exact IH.
  - cbn [existsb]. rewrite IH. reflexivity.
Qed.

(* the wildcard name at any ancestor of an outside name is outside too, as no root is a wildcard name *)
Lemma wildcard_outside ds q n :
  (forall d, In d ds -> not_wild_b d = true) -> outside_b ds q = true -> outside_b ds (firstn n q ++ [star]) = true.
Proof.
  unfold outside_b. intros Hw Ho. rewrite forallb_forall in *. intros d Hd. specialize (Ho d Hd). specialize (Hw d Hd).
  apply negb_true_iff. apply negb_true_iff in Ho. destruct (prefix_b d (firstn n q ++ [star])) eqn:E; [|reflexivity].
  exfalso. apply prefix_b_spec in E. destruct E as [s Hs].
  induction s as [|l s' _] using rev_ind.
  - rewrite app_nil_r in Hs. subst d. unfold not_wild_b in Hw. rewrite last_last in Hw.
    unfold star in Hw. cbn in Hw. discriminate.
  - rewrite app_assoc in Hs. apply app_inj_tail in Hs. destruct Hs as [Hs _].
    assert (is_prefix d q) as Hp.
    { eapply is_prefix_trans; [exists s'; exact Hs | apply is_prefix_firstn]. }
    apply prefix_b_spec in Hp. congruence.
Qed.

Lemma evaluate_entries_filter ds q qtype signer entries :
  (forall d, In d ds -> not_wild_b d = true) -> outside_b ds q = true ->
  evaluate_entries q qtype signer entries = evaluate_entries q qtype signer (filter (keep_b ds) entries).
Proof.
  intros Hw Ho. unfold evaluate_entries. rewrite <- (classify_filter ds q entries Ho).
  destruct (classify q entries) as [e|r|s r]; try reflexivity.
  destruct s; try reflexivity.
  destruct (rname_eqb q signer); try reflexivity.
  unfold closest_encloser_aggr. destruct q as [|l q']; [reflexivity|].
  set (n := if (length (l :: q') <=? _)%nat then _ else _).
  rewrite <- (classify_filter ds _ entries (wildcard_outside ds (l :: q') n Hw Ho)). reflexivity.
Qed.

(* the theorem: a sub-multiset of the genuine chain, in any order, mixed with any records confined to
   subtrees rooted at non-wildcard names, is judged for a name outside those subtrees exactly as the
   genuine part alone — so the verdict is sound *)
Theorem evaluate_entries_mix_sound z q qtype signer entries ds :
  zone_wf z -> (forall d, In d ds -> not_wild_b d = true) ->
  (forall e, In e entries -> genuine z e \/ confined_b ds e = true) -> outside_b ds q = true ->
  sound_verdict z q qtype (evaluate_entries q qtype signer entries).
Proof.
  intros Hwf Hw Hg Ho. rewrite (evaluate_entries_filter ds q qtype signer entries Hw Ho).
  apply (evaluate_entries_sound z Hwf). intros e He. apply filter_In in He. destruct He as [He Hk].
  destruct (Hg e He) as [H|H]; [exact H|]. unfold keep_b in Hk. rewrite H in Hk. discriminate.
Qed.

Theorem aggr_nsec_mix_sound z q qtype qclass signer recs ds :
  zone_wf z -> (forall d, In d ds -> not_wild_b d = true) ->
  (forall r, In r recs -> genuine z r \/ confined_b ds r = true) -> outside_b ds q = true ->
  sound_verdict z q qtype (aggr_nsec q qtype qclass signer recs) /\
  sound_verdict z q qtype (aggr_nsec_set q qtype qclass signer recs).
Proof.
  intros Hwf Hw Hg Ho. split.
  - unfold aggr_nsec.
    destruct (negb (question_ok qtype qclass)); [exact I|].
    destruct (negb (prefix_b signer q)); [exact I|].
    destruct recs as [|r0 t] eqn:Er; [exact I|]. rewrite <- Er in *.
    destruct (build_entries recs qclass signer []) as [es|] eqn:Eb; [|exact I].
    destruct es as [|e0 es'] eqn:Ee; [exact I|]. rewrite <- Ee in *.
    apply (evaluate_entries_mix_sound z q qtype signer es ds Hwf Hw); [|exact Ho]. intros e He.
    destruct (build_entries_subset _ _ _ _ _ Eb e He) as [[]|H]. apply Hg, H.
  - unfold aggr_nsec_set.
    destruct recs as [|r0 t] eqn:Er; [exact I|]. rewrite <- Er in *.
    destruct (build_entries recs (c_class r0) signer []) as [es|] eqn:Eb; [|exact I].
    destruct es as [|e0 es'] eqn:Ee; [exact I|]. rewrite <- Ee in *.
    destruct (negb (question_ok qtype qclass)); [exact I|].
    destruct (negb (prefix_b signer q)); [exact I|].
    destruct (negb (qclass =? c_class r0)); [exact I|].
    apply (evaluate_entries_mix_sound z q qtype signer es ds Hwf Hw); [|exact Ho]. intros e He.
    destruct (build_entries_subset _ _ _ _ _ Eb e He) as [[]|H]. apply Hg, H.
Qed.

(* the roots spec_case uses — the zone's own non-wildcard cut owners — satisfy the side condition *)
Lemma mix_roots_not_wild z d : In d (mix_roots z) -> not_wild_b d = true.
Proof.
  unfold mix_roots. intros H. apply in_map_iff in H. destruct H as [nd [<- H]].
  apply filter_In in H. destruct H as [_ H]. apply andb_true_iff in H. apply H.
Qed.

(* ---- non-vacuity: zone e. with the delegation s.e. and the owner t.e.; the evaluator is handed the apex
   record (e. -> s.e., covers *.e.), the zone's closing record (t.e. -> e.) and the chain-closing record of
   the child zone s.e. (z.s.e. -> s.e.).  u.e. is denied (truly), and the hypotheses of the theorem hold. *)
Definition mx_e : rname := [[101]].
Definition mx_s : rname := [[101]; [115]].
Definition mx_t : rname := [[101]; [116]].
Definition mx_u : rname := [[101]; [117]].
Definition mx_zs : rname := [[101]; [115]; [122]].
Definition mx_zone : zone := mk_zone mx_e [(mx_e, [2; 6; 46; 47; 48]); (mx_s, [2; 46; 47]); (mx_t, [1; 46; 47])].
Definition mx_recs : list cnsec :=
  [ mk_cnsec mx_e mx_s [2; 6; 46; 47; 48] 1 0; mk_cnsec mx_zs mx_s [1; 46; 47] 1 1; mk_cnsec mx_t mx_e [1; 46; 47] 1 2 ].
Example mix_example :
  zone_wf_b mx_zone = true /\ mix_roots mx_zone = [mx_s] /\
  forallb (fun r => genuine_b mx_zone r || confined_b (mix_roots mx_zone) r) mx_recs = true /\
  existsb (fun r => negb (genuine_b mx_zone r)) mx_recs = true /\
  outside_b (mix_roots mx_zone) mx_u = true /\
  aggr_nsec mx_u 1 1 mx_e mx_recs = A_deny RC_NXDOMAIN [2; 0]%nat /\
  aggr_nsec_set mx_u 1 1 mx_e mx_recs = A_deny RC_NXDOMAIN [2; 0]%nat /\
  exists_in_b mx_zone mx_u = false /\
  (* the owner t.e. sorts after the child's closing record too, and is not denied *)
  aggr_nsec mx_t 1 1 mx_e (firstn 2 mx_recs) = A_err E_missing.
Proof. vm_compute. repeat split; reflexivity. Qed.

(* ------------------------------------------------------------ Resolver.authority with the signature layer *)

(* a record of the signer zone (by owner) that is not signed by the zone refuses the response *)
Lemma authority_unsigned_refused rcode q qtype qclass signer recs r :
  In (r, false) recs -> prefix_b signer (c_owner r) = true ->
  authority_nsec_signed rcode false q qtype qclass signer recs = (E_other, false, false, false).
Proof.
  intros Hin Hp. unfold authority_nsec_signed.
  replace (existsb _ recs) with true; [reflexivity|]. symmetry. apply existsb_exists.
  exists (r, false). split; [exact Hin|]. cbn. rewrite Hp. reflexivity.
Qed.

(* whatever the zone's key signs is a genuine chain record (the cryptographic assumption); everything else
   in the authority section is arbitrary — unsigned records, a child or sibling zone's records under
   their own keys.  Then AD, provenance and aggressive eligibility are published only for true denials. *)
Theorem authority_nsec_signed_sound_lemma z recs rcode cd q qtype qclass ad marked aggr :
  zone_wf z -> (forall r, In (r, true) recs -> genuine z r) -> is_prefix (z_apex z) q ->
  authority_nsec_signed rcode cd q qtype qclass (z_apex z) recs = (E_ok, ad, marked, aggr) ->
  (ad = true \/ marked = true \/ aggr = true) ->
  cd = false /\ (if (rcode =? RC_NXDOMAIN)%N then ~ exists_in z q else nodata_true z q qtype).
Proof.
  intros Hwf Hg Hq. unfold authority_nsec_signed. destruct cd.
  - intros E. inversion E; subst. intros [H|[H|H]]; discriminate.
  - destruct (existsb _ recs) eqn:Ex; [discriminate|].
    intros E Hany.
    destruct (authority_nsec_sound_lemma z (filter_to_zone (z_apex z) (map fst recs)) rcode false q qtype qclass (z_apex z)
                ad marked aggr Hwf) as [H1 [H2 _]]; auto.
    intros r Hr. unfold filter_to_zone in Hr. apply filter_In in Hr. destruct Hr as [Hr Hz].
    apply in_map_iff in Hr. destruct Hr as [[r' s] [Heq Hin]]. cbn in Heq. subst r'.
    destruct s; [apply Hg, Hin|]. exfalso.
    assert (existsb (fun rs => prefix_b (z_apex z) (c_owner (fst rs)) && negb (snd rs)) recs = true) as Hc.
    { apply existsb_exists. exists (r, false). split; [exact Hin|]. cbn.
      unfold in_zone_rec in Hz. apply andb_true_iff in Hz. destruct Hz as [Hz _]. rewrite Hz. reflexivity. }
    rewrite Hc in Ex. discriminate.
Qed.

(* non-vacuity on the zone of mix_example: with the child zone's closing record under the child's key the
   response is refused; the zone's own two records alone are accepted, AD and aggressive-eligible *)
Example authority_signed_example :
  authority_nsec_signed 3 false mx_u 1 1 mx_e (combine mx_recs [true; false; true]) = (E_other, false, false, false) /\
  authority_nsec_signed 3 false mx_u 1 1 mx_e (combine mx_recs [true; true; true]) = (E_ok, true, true, true) /\
  authority_nsec_signed 3 true mx_u 1 1 mx_e (combine mx_recs [true; false; true]) = (E_ok, false, false, false) /\
  authority_nsec_signed 3 false mx_u 1 1 mx_e [(nth 0 mx_recs (mk_cnsec [] [] [] 0 0), true); (nth 2 mx_recs (mk_cnsec [] [] [] 0 0), true)]
    = (E_ok, true, true, true).
Proof. vm_compute. repeat split; reflexivity. Qed.
