(* C02 — wildcard.go (round 6): accepting a wildcard-expanded RRSIG is accepting the denial "the next closer name
   does not exist".  With the NSEC branch testing that the cover's NextDomain does not lie below the next closer name
   (props/C02/fix-wildcard-ent.patch; the model follows the source through Gen.C02.wild_cover_extra) every next
   closer name of an accepted Answer is absent from the zone (no owner, no empty non-terminal), for every sub-multiset
   of the genuine NSEC chain in any order and every Answer.  As found (wild_ent_fixed = false) the statement is false:
   wild_ent_witness is the computed counter-example, replayed on the Go code as corpus/C02/wild-ent-replay.json. *)
From Sdns Require Import Common.Base Gen.C02 C02.Model C02.ModelNsec3 C02.Spec C02.Proofs_Order C02.Proofs_Nsec C02.Proofs_Spec
  C02.Proofs_NsecTop C02.ModelAuth.
Open Scope N_scope.

(* the repair d3c4aec is in the tree: the NSEC condition of nextCloserDeniedWithWork holds more than nsecCovers(...)
   (Gen.C02.wild_cover_extra, regenerated from the source on every run; reverting the repair breaks this lemma) *)
Lemma gen_wild_ent_fixed : wild_ent_fixed = true.
Proof. vm_compute. reflexivity. Qed.

Theorem wild_answer_nsec_sound_cond z nsecs signer tab :
  zone_wf z -> (forall r, In r nsecs -> genuine z r) -> wild_ent_fixed = true ->
  forall sigs s0 s, wild_answer sigs nsecs [] signer tab s0 = (E_ok, s) ->
  forall nc, In nc (wild_denied sigs) -> is_prefix (z_apex z) nc -> ~ exists_direct z nc.
Proof.
  intros Hwf Hg Hfx. induction sigs as [|[owner labels] t IH]; intros s0 s E nc Hin Hp.
  - destruct Hin.
  - cbn [wild_answer] in E. unfold wild_denied in Hin. cbn [flat_map fst snd] in Hin. fold (wild_denied t) in Hin.
    destruct (length owner <=? N.to_nat labels)%nat eqn:El.
    + cbn [app] in Hin. eapply IH; eauto.
    + apply in_app_iff in Hin.
      destruct (existsb (fun r => nsec_covers (c_owner r) (c_next r) (firstn (N.to_nat labels + 1) owner) &&
                                  negb (wild_ent_fixed && strict_prefix_b (firstn (N.to_nat labels + 1) owner) (c_next r))) nsecs) eqn:Ex.
      * destruct Hin as [[<-|[]]|Hin]; [|eapply IH; eauto].
        apply existsb_exists in Ex. destruct Ex as [r [Hr Hc]]. rewrite Hfx in Hc. cbn [andb] in Hc.
        apply andb_true_iff in Hc. destruct Hc as [Hc Hnb]. apply negb_true_iff in Hnb.
        eapply inside_absent; [apply Hg, Hr | eapply covers_inside; eauto |].
        intros Hs. apply strict_prefix_b_spec in Hs. congruence.
      * discriminate.
Qed.

(* premise-free, about the code as it is now *)
Theorem wild_answer_nsec_sound_lemma z nsecs signer tab :
  zone_wf z -> (forall r, In r nsecs -> genuine z r) ->
  forall sigs s0 s, wild_answer sigs nsecs [] signer tab s0 = (E_ok, s) ->
  forall nc, In nc (wild_denied sigs) -> is_prefix (z_apex z) nc -> ~ exists_direct z nc.
Proof. intros Hwf Hg. exact (wild_answer_nsec_sound_cond z nsecs signer tab Hwf Hg gen_wild_ent_fixed). Qed.

(* zone e. / *.e. / a.b.e. (b.e. is an empty non-terminal), the full chain; the RRSIG of *.e. replayed over x.b.e.
   (Labels = 1): as found the Answer is accepted, secure, although its next closer name b.e. exists; with the repair it
   is refused (ErrWildcardNoDenial); the genuine expansion y.e. is accepted either way *)
Definition wx_e : rname := [[101]].
Definition wx_zone : zone := mk_zone wx_e [(wx_e, [2; 6; 46; 47; 48]); ([[101]; [42]], [1; 46; 47]); ([[101]; [98]; [97]], [1; 46; 47])].
Definition wx_recs : list cnsec :=
  [ mk_cnsec wx_e [[101]; [42]] [2; 6; 46; 47; 48] 1 0; mk_cnsec [[101]; [42]] [[101]; [98]; [97]] [1; 46; 47] 1 1;
    mk_cnsec [[101]; [98]; [97]] wx_e [1; 46; 47] 1 2 ].
Example wild_ent_witness :
  zone_wf_b wx_zone = true /\ forallb (genuine_b wx_zone) wx_recs = true /\
  wild_answer [([[101]; [98]; [120]], 1)] wx_recs [] wx_e [] true = (if wild_ent_fixed then (E_other, false) else (E_ok, true)) /\
  wild_denied [([[101]; [98]; [120]], 1)] = [[[101]; [98]]] /\ exists_direct_b wx_zone [[101]; [98]] = true /\
  wild_answer [([[101]; [121]], 1)] wx_recs [] wx_e [] true = (E_ok, true) /\ exists_direct_b wx_zone [[101]; [121]] = false.
Proof. vm_compute. repeat split; reflexivity. Qed.
