(* C02 — property theorems.  Only statements, `exact`, and Print Assumptions. *)
From Sdns Require Import Common.Base Gen.C02 C02.Model C02.Spec
  C02.ModelNsec3 C02.Proofs_Order C02.Proofs_Nsec C02.Proofs_Spec C02.Proofs_NsecTop C02.Proofs_Nsec3 C02.ModelCut C02.Proofs_Cut C02.ModelAuth C02.ModelShared C02.Proofs_Shared C02.Proofs_Gen C02.Proofs_Mix C02.Proofs_Walk C02.Proofs_Zone C02.Proofs_Wild C02.Proofs_Sets.
Open Scope N_scope.

(* ---- canonical order (RFC 4034 §6.1) is a total order *)
Theorem canon_cmp_total_order :
  (forall a, ncmp a a = Eq) /\
  (forall a b, ncmp a b = Eq <-> a = b) /\
  (forall a b, ncmp b a = CompOpp (ncmp a b)) /\
  (forall a b c, ncmp a b = Lt -> ncmp b c = Lt -> ncmp a c = Lt) /\
  (forall a b, ncmp a b = Lt \/ a = b \/ ncmp b a = Lt).
Proof. exact (conj ncmp_refl (conj ncmp_eq_iff (conj ncmp_antisym (conj ncmp_trans ncmp_total)))). Qed.
Print Assumptions canon_cmp_total_order.

(* dnsname.CanonicalCompare's forward walk computes that order on the canonical forms *)
Theorem go_canonical_compare_is_canon_cmp : forall a b, go_canonical_compare a b = ncmp (canon a) (canon b).
Proof. exact go_canonical_compare_spec. Qed.
Print Assumptions go_canonical_compare_is_canon_cmp.

(* dnsname.CompareSuffix's reset-counter walk computes the number of shared labels from the root *)
Theorem go_compare_suffix_is_lcp : forall a b, go_compare_suffix a b = lcp (canon a) (canon b).
Proof. exact go_compare_suffix_spec. Qed.
Print Assumptions go_compare_suffix_is_lcp.

(* a subtree is an interval starting at its root *)
Theorem subtree_is_interval : forall p d y, is_prefix p d -> ncmp p y <> Gt -> ncmp y d <> Gt -> is_prefix p y.
Proof. exact subtree_interval. Qed.
Print Assumptions subtree_is_interval.

(* nsecCovers <-> strictly inside the (possibly wrapping) interval *)
Theorem nsec_covers_interval : forall o nx x, nsec_covers o nx x = true <-> strictly_inside o nx x.
Proof. exact nsec_covers_spec. Qed.
Print Assumptions nsec_covers_interval.

(* ---- the specification oracle evaluated by Run.spec_case decides the Prop-level specification *)
Theorem exists_in_decided : forall z q, exists_in_b z q = true <-> exists_in z q.
Proof. exact exists_in_b_spec. Qed.
Print Assumptions exists_in_decided.
Theorem nodata_true_decided : forall z q t, nodata_true_b z q t = true <-> nodata_true z q t.
Proof. exact nodata_true_b_spec. Qed.
Print Assumptions nodata_true_decided.
Theorem genuine_check_sound : forall z r, zone_wf_b z = true -> genuine_b z r = true -> zone_wf z /\ genuine z r.
Proof. exact (fun z r H1 H2 => conj (zone_wf_b_sound z H1) (genuine_b_sound z r H2)). Qed.
Print Assumptions genuine_check_sound.

(* ---- RFC 8198 evaluator: for every well-formed zone, every sub-multiset (any order, any
   repetition) of its genuine NSEC chain, every question: NXDOMAIN only for names that do not
   exist (directly, as empty non-terminal, below a delegation/DNAME, or by wildcard); NODATA only
   when true.  Holds for all three entry points (Prepared = per-query model). *)
Theorem aggressive_nsec_sound :
  forall z q qtype qclass signer recs,
    zone_wf z -> (forall r, In r recs -> genuine z r) ->
    sound_verdict z q qtype (aggr_nsec q qtype qclass signer recs) /\
    sound_verdict z q qtype (aggr_nsec_set q qtype qclass signer recs).
Proof. exact (fun z q qtype qclass signer recs Hwf Hg =>
                conj (aggr_nsec_sound z q qtype qclass signer recs Hwf Hg)
                     (aggr_nsec_set_sound z q qtype qclass signer recs Hwf Hg)). Qed.
Print Assumptions aggressive_nsec_sound.

(* the same on the names as the code receives them *)
Theorem aggressive_nsec_sound_raw :
  forall z (q signer : name) qtype qclass (recs : list nsec),
    zone_wf z -> (forall r, In r (canon_recs recs) -> genuine z r) ->
    sound_verdict z (canon q) qtype (aggr_nsec (canon q) qtype qclass (canon signer) (canon_recs recs)).
Proof. exact (fun z q signer qtype qclass recs Hwf Hg =>
                aggr_nsec_sound z (canon q) qtype qclass (canon signer) (canon_recs recs) Hwf Hg). Qed.
Print Assumptions aggressive_nsec_sound_raw.

(* ---- mixtures with records replayed from OTHER zones below the signer's name (session 4): for every
   well-formed zone, every sub-multiset of its genuine chain in any order, mixed with ANY records whose
   owner and NextDomain both lie inside subtrees rooted at non-wildcard names [ds] (a child zone's chain,
   its chain-closing record included, replayed into the parent's answer: ds = the delegation points) and
   every question outside those subtrees, the verdict of all three entry points is sound for the zone:
   a parent-zone name that exists is never denied by way of a child zone's records.  (Records that cross
   the signer zone refuse the whole set: aggressive_nsec_refuses_mixtures.) *)
Theorem aggressive_nsec_sound_foreign_subtrees :
  forall z q qtype qclass signer recs ds,
    zone_wf z -> (forall d, In d ds -> not_wild_b d = true) ->
    (forall r, In r recs -> genuine z r \/ confined_b ds r = true) -> outside_b ds q = true ->
    sound_verdict z q qtype (aggr_nsec q qtype qclass signer recs) /\
    sound_verdict z q qtype (aggr_nsec_set q qtype qclass signer recs).
Proof. exact aggr_nsec_mix_sound. Qed.
Print Assumptions aggressive_nsec_sound_foreign_subtrees.
(* the roots Run.spec_case judges mixtures with (the zone's own non-wildcard cut owners) meet the side condition *)
Theorem spec_mix_roots_admissible : forall z d, In d (mix_roots z) -> not_wild_b d = true.
Proof. exact mix_roots_not_wild. Qed.
Print Assumptions spec_mix_roots_admissible.
(* a confined record is invisible to the classifier for every outside name: it is neither an ancestor
   cut of it, nor its owner, nor does its interval (ascending or chain-closing) cover it *)
Theorem confined_record_is_invisible :
  forall ds e x, confined_b ds e = true -> outside_b ds x = true ->
  strict_prefix_b (c_owner e) x = false /\ rname_eqb x (c_owner e) = false /\ classify_interval x e = None.
Proof. exact confined_irrelevant. Qed.
Print Assumptions confined_record_is_invisible.

(* a denial is produced only for a supported question inside the signer zone, from records that are
   all of the question's class and all inside the signer zone: one foreign record refuses the set *)
Theorem aggressive_nsec_refuses_mixtures :
  forall q qtype qclass signer recs rc proof,
    aggr_nsec q qtype qclass signer recs = A_deny rc proof ->
    question_ok qtype qclass = true /\ prefix_b signer q = true /\
    forall r, In r recs -> c_class r = qclass /\ prefix_b signer (c_owner r) = true /\ prefix_b signer (c_next r) = true.
Proof. exact aggr_nsec_refuses_mixtures. Qed.
Print Assumptions aggressive_nsec_refuses_mixtures.

(* incomplete_never_denies: no denial without a record that owns or covers the question name; no
   NXDOMAIN without, in addition, a record covering the wildcard at the closest encloser as absent.
   (Errors send the resolver to ordinary resolution; together with the soundness theorems, whose
   conclusion is only about denials, an incomplete proof never becomes a fabricated denial.) *)
Theorem incomplete_never_denies :
  forall q qtype qclass signer recs rc proof,
  aggr_nsec q qtype qclass signer recs = A_deny rc proof ->
  (exists r, In r recs /\ (q = c_owner r \/ exists s, classify_interval q r = Some s)) /\
  (rc = RC_NXDOMAIN ->
     exists r w ce, In r recs /\ In w recs /\ classify_interval q r = Some S_absent /\
                    closest_encloser_aggr q r = Some ce /\ classify_interval (ce ++ [star]) w = Some S_absent).
Proof. exact aggr_nsec_needs_components. Qed.
Print Assumptions incomplete_never_denies.

(* ---- exact verifiers *)
Theorem exact_delegation_nsec_sound :
  forall z set, (forall r, In r set -> genuine z r) ->
  forall d, verify_delegation_nsec d set = E_ok -> insecure_delegation z d.
Proof. exact verify_delegation_nsec_sound. Qed.
Print Assumptions exact_delegation_nsec_sound.

(* exact_nsec_sound, full statement, for the code as it is since fix 130ba3b (before it the statement
   was refuted: Proofs_NsecTop.old_exact_*_refuted keep the witnesses as regression Examples) *)
Theorem exact_nameerror_nsec_sound :
  forall z, zone_wf z -> forall set, (forall r, In r set -> genuine z r) ->
  forall q, is_prefix (z_apex z) q -> verify_nameerror_nsec q set = E_ok -> ~ exists_in z q.
Proof. exact Proofs_NsecTop.exact_nameerror_nsec_sound. Qed.
Print Assumptions exact_nameerror_nsec_sound.
Theorem exact_nodata_nsec_sound :
  forall z, zone_wf z -> forall set, (forall r, In r set -> genuine z r) ->
  forall q qtype, is_prefix (z_apex z) q -> verify_nodata_nsec q qtype set = E_ok -> nodata_true z q qtype.
Proof. exact Proofs_NsecTop.exact_nodata_nsec_sound. Qed.
Print Assumptions exact_nodata_nsec_sound.

(* ---- NSEC3, for an abstract collision-free hash H (nsec3_world: H injective, zone well formed,
   every hashed name exists, the hash table handed to the model is H); records are arbitrary
   sub-multisets of the genuine hashed chain (all_genuine3), Opt-Out included *)
Theorem aggressive_nsec3_sound :
  forall H z hashed tab recs q qtype qclass signer,
    nsec3_world H z hashed tab -> optout_masks_are_bit0 -> all_genuine3 H z hashed recs ->
    sound_verdict z q qtype (aggr_nsec3 q qtype qclass signer recs tab).
Proof. exact aggressive_nsec3_sound_pk. Qed.
Print Assumptions aggressive_nsec3_sound.

(* optout_never_shared: a name that exists but was left out of the chain under Opt-Out is never
   answered NXDOMAIN by the evaluator that feeds shared negative-cache state *)
Theorem optout_never_shared :
  forall H z hashed tab recs q qtype qclass signer proof,
    nsec3_world H z hashed tab -> optout_masks_are_bit0 -> all_genuine3 H z hashed recs ->
    hidden z hashed q -> aggr_nsec3 q qtype qclass signer recs tab <> A_deny RC_NXDOMAIN proof.
Proof. exact optout_never_shared_pk. Qed.
Print Assumptions optout_never_shared.

Theorem aggressive_nsec3_refuses_mixtures :
  forall q qtype qclass signer recs tab rc proof,
    aggr_nsec3 q qtype qclass signer recs tab = A_deny rc proof ->
    question_ok qtype qclass = true /\ prefix_b signer q = true /\
    forall r, In r recs -> nsec3_safe r = true /\ r_class r = qclass /\ rname_eqb (canon (r_zone r)) signer = true.
Proof. exact aggr_nsec3_refuses_mixtures. Qed.
Print Assumptions aggressive_nsec3_refuses_mixtures.

(* nsec3_sound for VerifyNameErrorForZoneWithWork: secure = true only with a non-Opt-Out next-closer
   cover, and then the name does not exist.  Partial: assumes Opt-Out never hides a wildcard name
   (optout_discipline); without that a hidden empty-non-terminal wildcard could be denied, which
   is also what RFC 5155 §8.4/§9.2 prescribes. *)
Theorem nsec3_nameerror_sound_partial :
  forall H z hashed tab recs q qclass signer,
    nsec3_world H z hashed tab -> optout_masks_are_bit0 -> optout_discipline z hashed ->
    all_genuine3 H z hashed recs ->
    verify_nameerror_nsec3 q qclass recs signer tab = (E_ok, true) -> ~ exists_in z q.
Proof. exact nsec3_nameerror_sound_pk. Qed.
Print Assumptions nsec3_nameerror_sound_partial.

(* nsec3_sound for VerifyNODATAForZoneWithWork (current code, since fix 130ba3b; wildcard owners
   are assumed not to be delegation points, RFC 4592 §4.2) *)
Theorem nsec3_nodata_sound :
  forall H z hashed tab recs q qtype qclass signer,
    nsec3_world H z hashed tab -> optout_masks_are_bit0 -> optout_discipline z hashed ->
    all_genuine3 H z hashed recs -> wildcards_not_delegations z ->
    verify_nodata_nsec3 q qtype qclass recs signer tab = (E_ok, true) -> nodata_true z q qtype.
Proof. exact (fun H z hashed tab recs q qtype qclass signer W M D G Wd =>
                nsec3_nodata_sound_pk H z hashed tab recs true q qtype qclass signer W M D G Wd
                  (fun E => False_ind _ (Bool.diff_true_false E))). Qed.
Print Assumptions nsec3_nodata_sound.

(* nsec3_sound for VerifyDelegationForZoneWithWork: "no DS, delegation is insecure" *)
Theorem nsec3_delegation_sound :
  forall H z hashed tab recs d signer,
    nsec3_world H z hashed tab -> optout_masks_are_bit0 -> optout_discipline z hashed -> all_genuine3 H z hashed recs ->
    verify_delegation_nsec3 d recs signer tab = E_ok ->
    forall tys, In (d, tys) (z_nodes z) -> In T_NS tys /\ ~ In T_DS tys /\ ~ In T_SOA tys.
Proof. exact nsec3_delegation_sound_pk. Qed.
Print Assumptions nsec3_delegation_sound.

(* ---- subtree-cut cache *)
(* what Store.RecordNXDomainCut accepts: NXDOMAIN, CD=0, a proper descendant of the signer zone, no
   in-zone Opt-Out NSEC3, SOA of the question's class, every retained RRset signed by the zone;
   lifetime = at most the configured maximum, every TTL bound of the proof and the delegation cut *)
Theorem cut_record_admits_only_complete_proofs :
  forall maxttl now st m denied zone cu st',
  cut_record maxttl now st m denied zone cu = Some st' ->
  cm_rcode m = 3%N /\ cm_cd m = false /\ denied <> zone /\ is_prefix zone denied /\
  existsb (fun p => f_nsec3 p && f_owner_in_zone p && f_optout p) (cm_proofs m) = false /\
  exists sclass sttl smin ssig bounds ttl,
    cm_soa m = Some (sclass, sttl, smin, ssig) /\ cm_qclass m = sclass /\ sig_counts sclass ssig = true /\
    cut_proof m = Some bounds /\
    (0 < ttl)%Z /\ (ttl <= maxttl)%Z /\ (forall b, In b bounds -> (ttl <= b)%Z) /\
    (forall c, cu = Some c -> (ttl <= c - now)%Z) /\
    st' = filter (fun e => negb (cut_key_eqb e denied sclass)) st ++ [(denied, sclass, (now + ttl)%Z)].
Proof. exact cut_record_sound. Qed.
Print Assumptions cut_record_admits_only_complete_proofs.

(* cut_cache_sound: for every history of admissions and expiries, a lookup returns a cut only from an
   accepted, unexpired record for an ancestor-or-self of the question in the same class, never for CD=1.
   (ECS trees never reach record: the admission guard in cache.ResponseWriter.WriteMsg is outside the
   model; entry/byte-limit eviction only removes entries.) *)
Theorem cut_cache_sound :
  forall maxttl ops now st log q qclass cd d,
  cut_exec maxttl 0 [] [] ops = (now, st, log) ->
  cut_lookup now st q qclass cd = Some d ->
  cd = false /\ is_prefix d q /\ d <> [] /\
  exists exp, In (d, qclass, exp) log /\ (now < exp)%Z /\ created maxttl (d, qclass, exp).
Proof. exact Proofs_Cut.cut_cache_sound. Qed.
Print Assumptions cut_cache_sound.

(* ---- incomplete_never_denies, hash side: a question whose NSEC3 hash could not be obtained (work
   budget refused, or the concurrent owner of the shared memo slot failed) is never denied.
   (Run.spec_case applies the same rule to every requested name: CaseNsec3Work / no_denial3.) *)
Theorem failed_hash_never_denies :
  forall q qtype qclass signer recs tab fx,
  hash_lookup tab q = None ->
  (exists e, aggr_nsec3 q qtype qclass signer recs tab = A_err e) /\
  (prefix_b signer q = true ->
     fst (verify_nameerror_nsec3 q qclass recs signer tab) <> E_ok /\
     fst (verify_nodata_nsec3_gen fx q qtype qclass recs signer tab) <> E_ok).
Proof. exact (fun q qtype qclass signer recs tab fx Hn =>
  conj (aggr_nsec3_failed_hash q qtype qclass signer recs tab Hn)
       (fun Hp => conj (nsec3_nameerror_failed_hash q qclass recs signer tab Hp Hn)
                       (nsec3_nodata_failed_hash fx q qtype qclass recs signer tab Hp Hn))). Qed.
Print Assumptions failed_hash_never_denies.

(* ---- Resolver.authority, NSEC branch: what it authenticates (AD), publishes as validated-negative
   provenance, or marks aggressive-eligible (the flag that stops the minimised walk and admits
   RecordDenialProof / RecordNXDomainCut) is a true denial of the zone; nothing for CD=1; eligible
   only when the RFC 8198 classifier reached the response's own RCODE *)
Theorem authority_nsec_sound :
  forall z set rcode cd q qtype qclass signer ad marked aggr,
  zone_wf z -> (forall r, In r set -> genuine z r) -> is_prefix (z_apex z) q ->
  authority_nsec rcode cd q qtype qclass signer set = (E_ok, ad, marked, aggr) ->
  (ad = true \/ marked = true \/ aggr = true) ->
  cd = false /\
  (if (rcode =? RC_NXDOMAIN)%N then ~ exists_in z q else nodata_true z q qtype) /\
  (aggr = true -> exists proof, aggr_nsec q qtype qclass signer set = A_deny rcode proof).
Proof. exact authority_nsec_sound_lemma. Qed.
Print Assumptions authority_nsec_sound.

(* ---- the same entry point with its signature layer (session 4; findRRSIGSigners / verifyDNSSEC /
   dnssec.VerifyRRSIG in front of the NSEC branch): every record of the authority section carries one bit,
   "its RRset has an RRSIG that verifies under the signer zone's key".  Hypothesis = the cryptography: what
   the zone's key signed is a genuine chain record.  Everything else is arbitrary: unsigned records, a
   child or sibling zone's records replayed under their own keys, records outside the zone.  Then
   Resolver.authority authenticates (AD) / publishes / marks eligible only true denials — a mixture with
   another zone's records is refused or harmless, never a fabricated denial *)
Theorem authority_nsec_signed_sound :
  forall z recs rcode cd q qtype qclass ad marked aggr,
  zone_wf z -> (forall r, In (r, true) recs -> genuine z r) -> is_prefix (z_apex z) q ->
  authority_nsec_signed rcode cd q qtype qclass (z_apex z) recs = (E_ok, ad, marked, aggr) ->
  (ad = true \/ marked = true \/ aggr = true) ->
  cd = false /\ (if (rcode =? RC_NXDOMAIN)%N then ~ exists_in z q else nodata_true z q qtype).
Proof. exact authority_nsec_signed_sound_lemma. Qed.
Print Assumptions authority_nsec_signed_sound.
(* one record owned inside the signer zone without a verifying signature of the zone refuses the response *)
Theorem authority_foreign_signed_refused :
  forall rcode q qtype qclass signer recs r,
  In (r, false) recs -> prefix_b signer (c_owner r) = true ->
  authority_nsec_signed rcode false q qtype qclass signer recs = (E_other, false, false, false).
Proof. exact authority_unsigned_refused. Qed.
Print Assumptions authority_foreign_signed_refused.

(* ---- the QNAME-minimised walk below the zone's authority (session 5; Resolver.Resolve -> resolve -> minimize ->
   processAuthoritySection -> authority; ModelAuth.min_walk, driven through Resolver.Resolve by driver walk).
   For every well-formed zone, every authority section in which whatever carries the zone's signature is a
   genuine chain record (the rest arbitrary), every question below the apex and EVERY script of replies the
   authority gives to the minimised questions (NOERROR or NXDOMAIN at each level, truthful or not) and to the
   full question: if the resolution ends without error and authenticates (AD) or publishes validated-negative
   provenance, then CD=0 and the result is true of the zone for the FULL question — NXDOMAIN only for a name
   that exists in none of the five ways (an early stop at a minimised name denies the subtree, RFC 8020),
   NODATA only when it is true *)
Theorem minimised_walk_sound :
  forall z recs cd q qtype qclass nx frc,
  zone_wf z -> (forall r, In (r, true) recs -> genuine z r) -> is_prefix (z_apex z) q ->
  let w := min_walk (fun m rc => authority_nsec_signed rc cd m qtype qclass (z_apex z) recs) false
                    (combine (walk_names (length (z_apex z)) q) nx) q frc 0 in
  w_err w = E_ok -> (w_ad w = true \/ w_marked w = true \/ w_aggr w = true) ->
  cd = false /\ (if (w_rcode w =? RC_NXDOMAIN)%N then ~ exists_in z q else nodata_true z q qtype).
Proof. exact minimised_walk_sound_names. Qed.
Print Assumptions minimised_walk_sound.
(* whatever validates the replies (NSEC or NSEC3 branch of Resolver.authority, any records): the walk ends
   before the full name was asked only at a level whose NXDOMAIN reply was validated with published,
   aggressive-eligible provenance, and never when the reply holds an Opt-Out NSEC3 of the zone — "RFC 8020 stop
   at a minimised NXDOMAIN only for aggressive, non-opt-out proofs"; CD=1, unsigned, Opt-Out and merely
   exact-verified denials keep the deeper walk *)
Theorem minimised_walk_stops_only_when_eligible :
  forall (auth : rname -> N -> auth_out) optout q frc levels asked,
  let w := min_walk auth optout levels q frc asked in
  w_err w = E_ok -> (w_asked w <= asked + length levels)%nat ->
  optout = false /\ w_rcode w = RC_NXDOMAIN /\ w_marked w = true /\ w_aggr w = true /\
  exists m, In (m, true) levels /\ auth m RC_NXDOMAIN = (E_ok, w_ad w, true, true).
Proof. exact min_walk_early_gen. Qed.
Print Assumptions minimised_walk_stops_only_when_eligible.
(* the same soundness statement for any validator whose accepted, published verdicts are true for the names asked
   (the NSEC3 branch: nsec3_nameerror_sound_partial / nsec3_nodata_sound under nsec3_world) *)
Theorem minimised_walk_sound_any_validator :
  forall (auth : rname -> N -> auth_out) optout z q qtype frc (P : rname -> Prop),
  (forall m rc ad mk ag, P m -> auth m rc = (E_ok, ad, mk, ag) -> (ad = true \/ mk = true \/ ag = true) ->
     if (rc =? RC_NXDOMAIN)%N then ~ exists_in z m else nodata_true z m qtype) ->
  P q ->
  forall levels asked,
  (forall m b, In (m, b) levels -> P m /\ is_prefix m q) ->
  let w := min_walk auth optout levels q frc asked in
  w_err w = E_ok -> (w_ad w = true \/ w_marked w = true \/ w_aggr w = true) ->
  if (w_rcode w =? RC_NXDOMAIN)%N then ~ exists_in z q else nodata_true z q qtype.
Proof. exact min_walk_sound_gen. Qed.
Print Assumptions minimised_walk_sound_any_validator.

(* the NSEC3 branch of Resolver.authority and the walk over it, for an abstract collision-free hash (nsec3_world),
   any sub-multiset of the genuine hashed chain, Opt-Out included (optout_discipline: Opt-Out hides only
   unsigned delegations, never a wildcard name): AD / provenance / eligibility only for true denials; the walk,
   for any script of replies and either outcome of the HasNSEC3OptOut test, returns only true denials *)
Theorem authority_nsec3_sound :
  forall H z hashed tab recs rcode cd q qtype qclass signer ad marked aggr,
  nsec3_world H z hashed tab -> optout_masks_are_bit0 -> optout_discipline z hashed ->
  all_genuine3 H z hashed recs -> wildcards_not_delegations z ->
  authority_nsec3 rcode cd q qtype qclass signer recs tab = (E_ok, ad, marked, aggr) ->
  (ad = true \/ marked = true \/ aggr = true) ->
  cd = false /\ (if (rcode =? RC_NXDOMAIN)%N then ~ exists_in z q else nodata_true z q qtype).
Proof. exact authority_nsec3_sound_lemma. Qed.
Print Assumptions authority_nsec3_sound.
Theorem minimised_walk_nsec3_sound :
  forall H z hashed tab recs cd q qtype qclass signer optout levels frc,
  nsec3_world H z hashed tab -> optout_masks_are_bit0 -> optout_discipline z hashed ->
  all_genuine3 H z hashed recs -> wildcards_not_delegations z ->
  (forall m b, In (m, b) levels -> is_prefix m q) ->
  let w := min_walk (fun m rc => authority_nsec3 rc cd m qtype qclass signer recs tab) optout levels q frc 0 in
  w_err w = E_ok -> (w_ad w = true \/ w_marked w = true \/ w_aggr w = true) ->
  if (w_rcode w =? RC_NXDOMAIN)%N then ~ exists_in z q else nodata_true z q qtype.
Proof. exact minimised_walk_nsec3_sound_lemma. Qed.
Print Assumptions minimised_walk_nsec3_sound.
(* NSEC3 branch with its signature layer (session 5; one signed-by-the-zone bit per record as in
   authority_nsec_signed_sound): what the zone's key signed is a record of the genuine hashed chain, everything
   else — unsigned records, a child or sibling zone's NSEC3 chain under its own key — is arbitrary: a mixture of
   zones is refused or harmless, never a fabricated denial *)
Theorem authority_nsec3_signed_sound :
  forall H z hashed tab recs rcode cd q qtype qclass signer ad marked aggr,
  nsec3_world H z hashed tab -> optout_masks_are_bit0 -> optout_discipline z hashed ->
  (forall r, In (r, true) recs -> rec_genuine3 H z hashed r) -> wildcards_not_delegations z ->
  authority_nsec3_signed rcode cd q qtype qclass signer recs tab = (E_ok, ad, marked, aggr) ->
  (ad = true \/ marked = true \/ aggr = true) ->
  cd = false /\ (if (rcode =? RC_NXDOMAIN)%N then ~ exists_in z q else nodata_true z q qtype).
Proof. exact authority_nsec3_signed_sound_lemma. Qed.
Print Assumptions authority_nsec3_signed_sound.
Theorem authority_nsec3_foreign_signed_refused :
  forall rcode q qtype qclass signer recs tab r,
  In (r, false) recs -> in_zone3 signer r = true ->
  authority_nsec3_signed rcode false q qtype qclass signer recs tab = (E_other, false, false, false).
Proof. exact authority_nsec3_unsigned_refused. Qed.
Print Assumptions authority_nsec3_foreign_signed_refused.
(* what an early stop of the walk publishes for cache.RecordNXDomainCut (the provenance subject = the minimised
   name the walk stopped at) is a name that does not exist *)
Theorem minimised_walk_cut_nonexistent :
  forall z recs cd q qtype qclass nx frc,
  zone_wf z -> (forall r, In (r, true) recs -> genuine z r) -> is_prefix (z_apex z) q ->
  let levels := combine (walk_names (length (z_apex z)) q) nx in
  let w := min_walk (fun m rc => authority_nsec_signed rc cd m qtype qclass (z_apex z) recs) false levels q frc 0 in
  w_err w = E_ok -> (w_asked w <= length levels)%nat ->
  cd = false /\ exists m, In m (walk_names (length (z_apex z)) q) /\ is_prefix m q /\ ~ exists_in z m /\
    authority_nsec_signed RC_NXDOMAIN cd m qtype qclass (z_apex z) recs = (E_ok, w_ad w, true, true).
Proof. exact minimised_walk_cut_nonexistent_lemma. Qed.
Print Assumptions minimised_walk_cut_nonexistent.

(* ---- shared negative-cache state behind Cache.ServeDNS (ModelShared.v: admission guard, denial-proof
   index, subtree cuts; replacement, expiry, pruning, retirement of a zone without a live SOA, per-zone
   FIFO eviction in both caches).

   RFC 8020: nothing exists below a name that does not exist (directly, via wildcard, as an ENT, below a
   delegation or DNAME) — what makes a subtree cut a sound answer for every descendant *)
Theorem nothing_below_nonexistent :
  forall z d q, ~ exists_in z d -> is_prefix d q -> ~ exists_in z q.
Proof. exact Proofs_Shared.nothing_below_nonexistent. Qed.
Print Assumptions nothing_below_nonexistent.

(* shared_state_sound (NSEC entries and, since wave 5, the NSEC3 ring with its conflict quarantine): for every
   well-formed zone, every pair of entry limits and every history — any
   order of client exchanges (CD / ECS or not, any downstream answer) and clock advances, hence any order
   in which proofs are admitted to, replaced in, evicted from and expire from the index and the cut
   cache — in which whatever the local validator marks validated + aggressive-eligible consists of
   genuine chain records (and, for NXDOMAIN, denies a name that does not exist: authority_nsec_sound):
   every denial Cache.ServeDNS synthesizes goes to a request without CD and without ECS and is true of
   the zone (NXDOMAIN => the name does not exist in any of the five ways; NOERROR => NODATA is true) *)
Theorem shared_state_sound :
  forall z, zone_wf z -> forall lim maxttl H hashed tab,
  nsec3_world H z hashed tab -> optout_masks_are_bit0 ->      (* NSEC3 ring: injective hash, given to the model as tab *)
  forall h now,
  history_honest z H hashed h ->
  forall q qtype cd ecs rc, In (q, qtype, cd, ecs, Some rc) (shared_run z lim maxttl tab shared_empty now h) ->
    cd = false /\ ecs = false /\
    ((rc = 3 /\ ~ exists_in z q) \/ (rc = 0 /\ nodata_true z q qtype)).
Proof. exact (fun z Hwf lim maxttl H hashed tab Hw Hm h now Hh =>
  shared_history_sound z Hwf lim maxttl H hashed tab Hw Hm h shared_empty now (inv_empty z H hashed) Hh). Qed.
Print Assumptions shared_state_sound.

(* a denial needs an earlier admission: nothing is synthesized while the zone has no SOA entry and no cut *)
Theorem shared_needs_admission :
  forall z lim maxttl tab now q qtype cd ecs ds st,
  sh_soa st = None -> sh_cuts st = [] -> snd (exchange lim maxttl tab st now (z_apex z) q qtype cd ecs ds) = None.
Proof. exact (fun z lim maxttl tab now q qtype cd ecs ds st => exchange_needs_admission z lim maxttl tab now q qtype cd ecs ds st). Qed.
Print Assumptions shared_needs_admission.

(* admission only with local provenance that is aggressive-eligible, CD=0 in request and response, no
   ECS: anything else leaves the shared state (NSEC entries, NSEC3 ring, quarantine, cuts) exactly as it was *)
Theorem shared_admission_guarded :
  forall z lim maxttl st now q cd ecs ds,
  match ds with DsPositive => True
              | DsNegative _ _ _ marked aggressive res_cd | DsNegative3 _ _ _ marked aggressive res_cd =>
                  negb ecs && negb cd && negb res_cd && marked && aggressive = false end ->
  admit_downstream lim maxttl st now (z_apex z) q cd ecs ds = st.
Proof. exact (fun z lim maxttl st now q cd ecs ds => admit_downstream_guard z lim maxttl st now q cd ecs ds). Qed.
Print Assumptions shared_admission_guarded.

(* the conflict quarantine: while a tombstone of the ring is active, no NSEC3 bundle is admitted and the ring
   synthesizes nothing (an answer of the evaluator is discarded) *)
Theorem shared_quarantine_blocks :
  forall lim st now zone q rs e u, sh_tomb st = Some u -> (now < u)%Z ->
  record_index3 lim st now zone q rs e = st.
Proof. exact quarantine_blocks_admission. Qed.
Print Assumptions shared_quarantine_blocks.

(* ---- the byte-level label functions of internal/dnsname, as srcgen translates them from the source on
   every run (Gen.C02.go_compareDecodedFold / go_decodeOctet / go_equalFold), are the model's label order
   and label equality: for all presentation labels a b and any fuel above their lengths, the Go loop
   returns lcmp of the folded octet strings that the Go decoder itself decodes (`\\DDD`, `\\c`, plain), and
   equalFold is label_eqb after folding *)
Theorem compare_decoded_fold_is_lcmp :
  forall fuel a b, (length a < fuel)%nat -> (length b < fuel)%nat ->
  go_compareDecodedFold fuel a b =
  Some (cmp_z (lcmp (fold_label (decode_from fuel a 0%Z)) (fold_label (decode_from fuel b 0%Z)))).
Proof. exact gen_compare_decoded_fold. Qed.
Print Assumptions compare_decoded_fold_is_lcmp.
Theorem compare_decoded_fold_plain_is_lcmp :
  forall fuel a b, ~ In 92 a -> ~ In 92 b -> (length a < fuel)%nat -> (length b < fuel)%nat ->
  go_compareDecodedFold fuel a b = Some (cmp_z (lcmp (fold_label a) (fold_label b))).
Proof. exact gen_compare_decoded_fold_plain. Qed.
Print Assumptions compare_decoded_fold_plain_is_lcmp.
Theorem equal_fold_is_label_eqb :
  forall fuel a b, (length a < fuel)%nat ->
  go_equalFold fuel a b = Some (label_eqb (fold_label a) (fold_label b)).
Proof. exact gen_equal_fold. Qed.
Print Assumptions equal_fold_is_label_eqb.

(* ---- dnsname.CanonicalCompare / CompareSuffix / Sub and dnssec.nsecCovers AS THE CODE HAS THEM: srcgen translates
   the four functions as a whole on every run, together with miekg's dns.NextLabel / dns.CountLabel (from the module
   cache) and the repository's equalFold / canonicalLabel / escapedTail / compareDecodedFold.  For every name given as
   a list of escape-free labels (plain_name: each label non-empty, without '.' and without a backslash), rendered as
   the presentation string the code receives (present: labels joined and terminated by '.', the root is "."), and
   any fuel above the combined string lengths, the generated functions compute the canonical order (RFC 4034 s6.1),
   the number of shared trailing labels, zone membership and the NSEC interval test of the model.  (Escaped labels:
   compare_decoded_fold_is_lcp covers the within-label decoder; the label-boundary scan on strings with escapes is
   tied by the correspondence cases CaseCmp only.) *)
Theorem canonical_compare_code_is_canon_cmp :
  forall fuel a b, plain_name a -> plain_name b -> (length (present a) + length (present b) < fuel)%nat ->
  go_CanonicalCompare fuel (present a) (present b) = Some (cmp_z (ncmp (canon a) (canon b))).
Proof. exact (fun fuel a b Ha Hb Hf =>
  eq_trans (gen_canonical_compare fuel a b Ha Hb Hf) (f_equal (fun c => Some (cmp_z c)) (go_canonical_compare_spec a b))). Qed.
Print Assumptions canonical_compare_code_is_canon_cmp.
Theorem compare_suffix_code_is_lcp :
  forall fuel a b, plain_name a -> plain_name b -> (length (present a) + length (present b) < fuel)%nat ->
  go_CompareSuffix fuel (present a) (present b) = Some (Z.of_nat (lcp (canon a) (canon b))).
Proof. exact (fun fuel a b Ha Hb Hf =>
  eq_trans (gen_compare_suffix fuel a b Ha Hb Hf) (f_equal (fun c => Some (Z.of_nat c)) (go_compare_suffix_spec a b))). Qed.
Print Assumptions compare_suffix_code_is_lcp.
Theorem sub_code_is_suffix_count :
  forall fuel zone n, plain_name zone -> plain_name n -> (length (present zone) + length (present n) < fuel)%nat ->
  go_Sub fuel (present zone) (present n) = Some (lcp (canon zone) (canon n) =? length (canon zone))%nat.
Proof. exact (fun fuel zone n Hz Hn Hf =>
  eq_trans (gen_sub fuel zone n Hz Hn Hf)
           (f_equal Some (f_equal2 Nat.eqb (go_compare_suffix_spec zone n) (eq_sym (canon_length zone))))). Qed.
Print Assumptions sub_code_is_suffix_count.
Theorem nsec_covers_code_is_model :
  forall fuel o nx x, plain_name o -> plain_name nx -> plain_name x ->
  (length (present o) + length (present nx) + length (present x) < fuel)%nat ->
  go_nsecCovers fuel (present o) (present nx) (present x) = Some (nsec_covers (canon o) (canon nx) (canon x)).
Proof. exact (fun fuel o nx x Ho Hn Hx Hf =>
  eq_trans (gen_nsec_covers fuel o nx x Ho Hn Hx Hf)
    (f_equal Some (f_equal3 covers_of_cmps (go_canonical_compare_spec o nx) (go_canonical_compare_spec x o)
                                           (go_canonical_compare_spec x nx)))). Qed.
Print Assumptions nsec_covers_code_is_model.

(* ---- session 5: dnsutil.NameInZone and dnsutil.HasNSEC3OptOut, translated by srcgen on every run (iface_cases:
   dns.RR as a sum type, *dns.NSEC3 as a record; NameInZone with escapedDot) — the zone test behind
   FilterRRsToZone / VerifyRRSIG's in-zone collection, and the Opt-Out test that keeps the minimised walk from
   stopping and RecordNXDomainCut from admitting.  On the presentation strings of escape-free names (labels
   non-empty, no '.', no backslash; leaf first; the root is ".") the translated NameInZone decides the
   label-suffix relation; on NSEC3 records with escape-free lower-case owners hash-label.zone the translated
   HasNSEC3OptOut is ModelAuth.has_optout3 (used by check_case for the walk).  Names with escapes: the
   correspondence cases (CaseCmp inzone flag, kept positions) only *)
Theorem name_in_zone_code_is_label_suffix :
  forall fuel (ns zs : name), (0 < fuel)%nat -> plain_name ns -> plain_name zs ->
  exists b, go_NameInZone fuel (present ns) (present zs) = Some b /\ (b = true <-> exists t, ns = t ++ zs).
Proof. exact gen_name_in_zone_lemma. Qed.
Print Assumptions name_in_zone_code_is_label_suffix.
Theorem has_nsec3_optout_code_is_model :
  forall fuel signer rs, (0 < fuel)%nat -> plain_name signer -> lower_name signer -> Forall (rec3_ok signer) rs ->
  go_HasNSEC3OptOut fuel (map rr3_of rs) (present signer) = Some (has_optout3 (canon signer) (map snd rs)).
Proof. exact gen_has_nsec3_optout_lemma. Qed.
Print Assumptions has_nsec3_optout_code_is_model.

(* ---- round 6: wildcard.go, VerifyWildcardAnswerForZoneWithWork (ModelAuth.wild_answer; driver wild).  Accepting a
   wildcard-expanded RRSIG is accepting the denial "the owner's next closer name does not exist".  For the code as it
   is since d3c4aec (the model reads the NSEC condition from the source on every run: Gen.C02.wild_cover_extra,
   Proofs_Wild.gen_wild_ent_fixed): for every well-formed zone, every sub-multiset of its genuine NSEC chain in any
   order as Authority section and every Answer — any number of RRSIGs, any owners, any Labels, any order — an
   accepted Answer denies only next closer names that do not exist in the zone, neither as an owner nor as an empty
   non-terminal.  Before d3c4aec the statement was false: wild_ent_witness keeps both variants
   (corpus/C02/wild-ent-replay.json is the regression input) *)
Theorem wild_answer_nsec_sound :
  forall z nsecs signer tab,
  zone_wf z -> (forall r, In r nsecs -> genuine z r) ->
  forall sigs s0 s, wild_answer sigs nsecs [] signer tab s0 = (E_ok, s) ->
  forall nc, In nc (wild_denied sigs) -> is_prefix (z_apex z) nc -> ~ exists_direct z nc.
Proof. exact wild_answer_nsec_sound_lemma. Qed.
Print Assumptions wild_answer_nsec_sound.
Theorem wild_ent_repair_in_tree : wild_ent_fixed = true.
Proof. exact gen_wild_ent_fixed. Qed.
Print Assumptions wild_ent_repair_in_tree.

(* ---- wave 9: dnssec.typesSet and dnssec.aggressiveNSEC3Covers, translated by srcgen on every run (Go maps as
   association lists, bytes.Compare) and equal to the model functions every verifier / evaluator model is written with.
   typesSet — "is one of these types in the bitmap": the test behind NODATA ("a type that is present is never reported
   absent"), delegation / DNAME / SOA recognition and the CNAME check — for EVERY bitmap and EVERY list of wanted types
   (no premise: the map the code builds has unique keys by construction).  aggressiveNSEC3Covers — the NSEC3 interval
   test of the RFC 8198 evaluator incl. the wrap-around and the single-record ring — for owner / next / name hashes that
   are octet strings of one length (SHA-1: 20 octets), on the numbers they denote (be = big endian); the model's hash
   values are such numbers up to an order isomorphism (ranks), and covers3 uses only their order *)
Theorem types_set_code_is_model : forall set types, go_typesSet set types = types_set set types.
Proof. exact gen_types_set_lemma. Qed.
Print Assumptions types_set_code_is_model.
Theorem nsec3_covers_code_is_model :
  forall (rr : T_NSEC3) (oh nh h : list N) flags types idx,
  length oh = length h -> length nh = length h -> octets oh -> octets nh -> octets h ->
  go_aggressiveNSEC3Covers (mk_T_aggressiveNSEC3Entry rr oh nh) h
  = covers3 (mk_entry3 (be oh) (be nh) flags types idx) (be h).
Proof. exact gen_nsec3_covers_lemma. Qed.
Print Assumptions nsec3_covers_code_is_model.
