(* C02 — canonical order: [lex] lifts a total order to lists (proper prefix
   first); the RFC 4034 §6.1 order [ncmp] is a total order; the forward-walk
   algorithms of dnsname.CanonicalCompare / CompareSuffix compute it; a
   subtree is an interval that starts at its root; nsecCovers is "strictly
   inside the (possibly wrapping) interval". *)
From Sdns Require Import Common.Base Gen.C02 C02.Model C02.Spec.
Open Scope N_scope.

(* ------------------------------------------------------------ generic lex *)
Section Lex.
  Context {A : Type} (c : A -> A -> comparison).
  Hypothesis c_refl : forall x, c x x = Eq.
  Hypothesis c_eq : forall x y, c x y = Eq -> x = y.
  Hypothesis c_antisym : forall x y, c y x = CompOpp (c x y).
  Hypothesis c_trans : forall x y z, c x y = Lt -> c y z = Lt -> c x z = Lt.

  Lemma lex_refl a : lex c a a = Eq.
  Proof. induction a; cbn; [reflexivity|]. rewrite c_refl. exact IHa. Qed.

  Lemma lex_eq a b : lex c a b = Eq -> a = b.
  Proof.
    revert b; induction a as [|x a IH]; intros [|y b]; cbn; try discriminate; [reflexivity|].
    destruct (c x y) eqn:E; try discriminate. intros H. apply c_eq in E. subst. f_equal. apply IH, H.
  Qed.

  Lemma lex_antisym a b : lex c b a = CompOpp (lex c a b).
  Proof.
    revert b; induction a as [|x a IH]; intros [|y b]; cbn; try reflexivity.
    rewrite (c_antisym x y). destruct (c x y); cbn; try reflexivity. apply IH.
  Qed.

  Lemma lex_trans a b d : lex c a b = Lt -> lex c b d = Lt -> lex c a d = Lt.
  Proof.
    revert b d; induction a as [|x a IH]; intros [|y b] [|z d]; cbn; try discriminate; try reflexivity.
    destruct (c x y) eqn:Exy; try discriminate.
    - apply c_eq in Exy; subst y. destruct (c x z) eqn:Exz; try discriminate; auto.
      intros H1 H2. eapply IH; eauto.
    - destruct (c y z) eqn:Eyz; try discriminate.
      + apply c_eq in Eyz; subst z. rewrite Exy. auto.
      + rewrite (c_trans _ _ _ Exy Eyz). auto.
  Qed.

  Lemma lex_app_l p s : lex c p (p ++ s) = match s with [] => Eq | _ => Lt end.
  Proof.
    induction p as [|x p IH]; cbn.
    - destruct s; reflexivity.
    - rewrite c_refl. exact IH.
  Qed.

  Lemma lex_cons_app p a b : lex c (p ++ a) (p ++ b) = lex c a b.
  Proof. induction p as [|x p IH]; cbn; [reflexivity|]. rewrite c_refl. exact IH. Qed.
End Lex.

(* ------------------------------------------------------------ bytes, labels, names *)
Lemma Ncmp_antisym x y : N.compare y x = CompOpp (N.compare x y).
Proof. apply N.compare_antisym. Qed.
Lemma Ncmp_trans x y z : N.compare x y = Lt -> N.compare y z = Lt -> N.compare x z = Lt.
Proof. rewrite !N.compare_lt_iff. lia. Qed.

Lemma lcmp_refl a : lcmp a a = Eq.
Proof. apply lex_refl, N.compare_refl. Qed.
Lemma lcmp_eq a b : lcmp a b = Eq -> a = b.
Proof. apply lex_eq. intros x y. apply N.compare_eq. Qed.
Lemma lcmp_antisym a b : lcmp b a = CompOpp (lcmp a b).
Proof. apply lex_antisym, Ncmp_antisym. Qed.
Lemma lcmp_trans a b d : lcmp a b = Lt -> lcmp b d = Lt -> lcmp a d = Lt.
Proof. apply lex_trans; [intros x y; apply N.compare_eq | apply Ncmp_trans]. Qed.

Lemma ncmp_refl a : ncmp a a = Eq.
Proof. apply lex_refl, lcmp_refl. Qed.
Lemma ncmp_eq a b : ncmp a b = Eq -> a = b.
Proof. apply lex_eq, lcmp_eq. Qed.
Lemma ncmp_antisym a b : ncmp b a = CompOpp (ncmp a b).
Proof. apply lex_antisym, lcmp_antisym. Qed.
Lemma ncmp_trans a b d : ncmp a b = Lt -> ncmp b d = Lt -> ncmp a d = Lt.
Proof. apply lex_trans; [apply lcmp_eq | apply lcmp_trans]. Qed.

Lemma ncmp_eq_iff a b : ncmp a b = Eq <-> a = b.
Proof. split; [apply ncmp_eq | intros ->; apply ncmp_refl]. Qed.
Lemma ncmp_gt_lt a b : ncmp a b = Gt <-> ncmp b a = Lt.
Proof. rewrite (ncmp_antisym a b). destruct (ncmp a b); cbn; split; congruence. Qed.
Lemma ncmp_lt_irrefl a : ncmp a a <> Lt.
Proof. rewrite ncmp_refl. discriminate. Qed.
Lemma ncmp_lt_asym a b : ncmp a b = Lt -> ncmp b a <> Lt.
Proof. intros H. rewrite (ncmp_antisym a b), H. discriminate. Qed.
(* a <= b < d  and  a < b <= d *)
Lemma ncmp_le_lt_trans a b d : ncmp a b <> Gt -> ncmp b d = Lt -> ncmp a d = Lt.
Proof.
  intros H1 H2. destruct (ncmp a b) eqn:E; [| |congruence].
  - apply ncmp_eq in E. subst. exact H2.
  - eapply ncmp_trans; eauto.
Qed.
Lemma ncmp_lt_le_trans a b d : ncmp a b = Lt -> ncmp b d <> Gt -> ncmp a d = Lt.
Proof.
  intros H1 H2. destruct (ncmp b d) eqn:E; [| |congruence].
  - apply ncmp_eq in E. subst. exact H1.
  - eapply ncmp_trans; eauto.
Qed.
Lemma ncmp_total a b : ncmp a b = Lt \/ a = b \/ ncmp b a = Lt.
Proof.
  destruct (ncmp a b) eqn:E; [right; left; apply ncmp_eq, E | left; reflexivity | right; right; apply ncmp_gt_lt, E].
Qed.

(* ------------------------------------------------------------ equality tests *)
Lemma list_eqb_spec {A} (e : A -> A -> bool) (He : forall x y, e x y = true <-> x = y) a b :
  list_eqb e a b = true <-> a = b.
Proof.
  revert b; induction a as [|x a IH]; intros [|y b]; cbn; try (split; [discriminate|discriminate]); [tauto|].
  rewrite andb_true_iff, He, IH. split; [intros [-> ->]; reflexivity | intros H; inversion H; auto].
Qed.
Lemma label_eqb_spec a b : label_eqb a b = true <-> a = b.
Proof. apply list_eqb_spec. intros x y. apply N.eqb_eq. Qed.
Lemma rname_eqb_spec a b : rname_eqb a b = true <-> a = b.
Proof. apply list_eqb_spec, label_eqb_spec. Qed.
Lemma label_eqb_refl a : label_eqb a a = true.
Proof. apply label_eqb_spec. reflexivity. Qed.
Lemma rname_eqb_refl a : rname_eqb a a = true.
Proof. apply rname_eqb_spec. reflexivity. Qed.
Lemma label_eqb_lcmp a b : label_eqb a b = is_eq (lcmp a b).
Proof.
  destruct (label_eqb a b) eqn:E.
  - apply label_eqb_spec in E. subst. rewrite lcmp_refl. reflexivity.
  - destruct (lcmp a b) eqn:C; try reflexivity. apply lcmp_eq in C. subst. rewrite label_eqb_refl in E. discriminate.
Qed.

(* ------------------------------------------------------------ prefixes *)
Lemma prefix_b_spec p n : prefix_b p n = true <-> is_prefix p n.
Proof.
  revert n; induction p as [|x p IH]; intros n; cbn.
  - split; [intros _; exists n; reflexivity | reflexivity].
  - destruct n as [|y n].
    + split; [discriminate | intros [s H]; discriminate].
    + rewrite andb_true_iff, label_eqb_spec, IH. split.
      * intros [-> [s ->]]. exists s. reflexivity.
      * intros [s H]. inversion H. split; [reflexivity | exists s; reflexivity].
Qed.
Lemma strict_prefix_b_spec p n : strict_prefix_b p n = true <-> is_strict_prefix p n.
Proof.
  unfold strict_prefix_b. rewrite andb_true_iff, prefix_b_spec, Nat.ltb_lt. split.
  - intros [Hl [s ->]]. exists s. split; [|reflexivity]. intros ->. rewrite app_nil_r in Hl. lia.
  - intros [s [Hs ->]]. split; [|exists s; reflexivity]. rewrite app_length. destruct s; [congruence|cbn; lia].
Qed.
Lemma is_prefix_refl n : is_prefix n n.
Proof. exists []. symmetry. apply app_nil_r. Qed.
Lemma is_prefix_trans a b d : is_prefix a b -> is_prefix b d -> is_prefix a d.
Proof. intros [s ->] [t ->]. exists (s ++ t). symmetry. apply app_assoc. Qed.
Lemma strict_is_prefix a b : is_strict_prefix a b -> is_prefix a b.
Proof. intros [s [_ ->]]. exists s. reflexivity. Qed.
Lemma is_prefix_strict_or_eq a b : is_prefix a b -> a = b \/ is_strict_prefix a b.
Proof. intros [[|x s] ->]; [left; symmetry; apply app_nil_r | right; exists (x :: s); split; [discriminate|reflexivity]]. Qed.
Lemma is_prefix_length a b : is_prefix a b -> (length a <= length b)%nat.
Proof. intros [s ->]. rewrite app_length. lia. Qed.
Lemma strict_prefix_length a b : is_strict_prefix a b -> (length a < length b)%nat.
Proof. intros [s [Hs ->]]. rewrite app_length. destruct s; [congruence|cbn; lia]. Qed.
Lemma is_prefix_firstn k q : is_prefix (firstn k q) q.
Proof. exists (skipn k q). symmetry. apply firstn_skipn. Qed.
Lemma is_prefix_eq_firstn p q : is_prefix p q -> p = firstn (length p) q.
Proof. intros [s ->]. rewrite firstn_app, firstn_all, Nat.sub_diag. cbn. symmetry. apply app_nil_r. Qed.
Lemma prefixes_same_length a b q : is_prefix a q -> is_prefix b q -> length a = length b -> a = b.
Proof. intros Ha Hb Hl. rewrite (is_prefix_eq_firstn _ _ Ha), (is_prefix_eq_firstn _ _ Hb), Hl. reflexivity. Qed.
Lemma prefixes_comparable a b q : is_prefix a q -> is_prefix b q -> (length a <= length b)%nat -> is_prefix a b.
Proof.
  intros Ha Hb Hl. rewrite (is_prefix_eq_firstn _ _ Ha), (is_prefix_eq_firstn _ _ Hb).
  exists (skipn (length a) (firstn (length b) q)).
  rewrite <- (firstn_skipn (length a) (firstn (length b) q)) at 1.
  rewrite firstn_firstn. replace (Nat.min (length a) (length b)) with (length a) by lia. reflexivity.
Qed.

(* a proper ancestor sorts first; an ancestor-or-self never sorts after *)
Lemma prefix_le p n : is_prefix p n -> ncmp p n <> Gt.
Proof. intros [s ->]. unfold ncmp. rewrite (lex_app_l _ lcmp_refl). destruct s; discriminate. Qed.
Lemma strict_prefix_lt p n : is_strict_prefix p n -> ncmp p n = Lt.
Proof. intros [s [Hs ->]]. unfold ncmp. rewrite (lex_app_l _ lcmp_refl). destruct s; congruence. Qed.

(* the key lemma of DESIGN §5.A: a subtree is an interval starting at its root *)
Lemma subtree_interval p d y : is_prefix p d -> ncmp p y <> Gt -> ncmp y d <> Gt -> is_prefix p y.
Proof.
  revert d y; induction p as [|x p IH]; intros d y Hpd Hpy Hyd.
  - exists y. reflexivity.
  - destruct Hpd as [s ->]. destruct y as [|y0 y]; [cbn in Hpy; congruence|].
    cbn in Hpy, Hyd.
    destruct (lcmp x y0) eqn:E1; [|destruct (lcmp y0 x) eqn:E2 | congruence].
    + apply lcmp_eq in E1. subst y0. rewrite lcmp_refl in Hyd.
      destruct (IH (p ++ s) y) as [t ->]; auto; [exists s; reflexivity|]. exists t. reflexivity.
    + apply lcmp_eq in E2. subst. rewrite lcmp_refl in E1. discriminate.
    + rewrite (lcmp_antisym x y0), E1 in E2. discriminate.
    + congruence.
Qed.

(* ------------------------------------------------------------ lcp *)
Lemma lcp_firstn_l a b : firstn (lcp a b) a = firstn (lcp a b) b.
Proof.
  revert b; induction a as [|x a IH]; intros [|y b]; cbn; try reflexivity.
  destruct (label_eqb x y) eqn:E; cbn; [|reflexivity]. apply label_eqb_spec in E. subst. f_equal. apply IH.
Qed.
Lemma lcp_le_l a b : (lcp a b <= length a)%nat.
Proof. revert b; induction a as [|x a IH]; intros [|y b]; cbn; try lia. destruct (label_eqb x y); cbn; [specialize (IH b)|]; lia. Qed.
Lemma lcp_le_r a b : (lcp a b <= length b)%nat.
Proof. revert b; induction a as [|x a IH]; intros [|y b]; cbn; try lia. destruct (label_eqb x y); cbn; [specialize (IH b)|]; lia. Qed.
Lemma lcp_prefix_l a b : is_prefix (firstn (lcp a b) a) b.
Proof. rewrite lcp_firstn_l. apply is_prefix_firstn. Qed.
(* a common prefix is no longer than the longest common prefix *)
Lemma lcp_max p a b : is_prefix p a -> is_prefix p b -> (length p <= lcp a b)%nat.
Proof.
  revert a b; induction p as [|x p IH]; intros a b [s ->] [t ->]; cbn; [lia|].
  rewrite label_eqb_refl. cbn. apply le_n_S. apply IH; [exists s|exists t]; reflexivity.
Qed.
Lemma lcp_prefix_full p n : is_prefix p n -> lcp p n = length p.
Proof. intros [s ->]. induction p as [|x p IH]; cbn; [reflexivity|]. rewrite label_eqb_refl. f_equal. exact IH. Qed.

(* ------------------------------------------------------------ the Go walks *)
(* CanonicalCompare's aligned walk keeps the LAST non-zero verdict: that is the
   first difference seen from the root *)
Lemma walk_verdict_spec a b v : length a = length b ->
  walk_verdict a b v =
  match lex lcmp (rev (map fold_label a)) (rev (map fold_label b)) with Eq => v | c => c end.
Proof.
  revert b v; induction a as [|x a IH]; intros [|y b] v Hl; cbn in *; try discriminate; [reflexivity|].
  injection Hl as Hl. rewrite IH by exact Hl.
  assert (Hlen : length (rev (map fold_label a)) = length (rev (map fold_label b)))
    by (rewrite !rev_length, !map_length; exact Hl).
  generalize dependent (rev (map fold_label b)). generalize (rev (map fold_label a)).
  induction l as [|p l IHl]; intros [|q l'] Hlen; cbn in *; try discriminate.
  - destruct (lcmp (fold_label x) (fold_label y)); reflexivity.
  - destruct (lcmp p q); try reflexivity. apply IHl. lia.
Qed.

(* comparing names of different depth: drop the extra leading (leaf-side) labels,
   compare the aligned parts from the root, ties go to the shorter name *)
Lemma ncmp_rev_skip (a b : list label) : (length b <= length a)%nat ->
  ncmp (rev a) (rev b) =
  match ncmp (rev (skipn (length a - length b) a)) (rev b) with
  | Eq => Nat.compare (length a) (length b)
  | c => c
  end.
Proof.
  intros Hl. set (k := (length a - length b)%nat).
  rewrite <- (firstn_skipn k a) at 1. rewrite rev_app_distr.
  set (t := rev (skipn k a)). set (h := rev (firstn k a)).
  assert (Ht : length t = length b) by (unfold t; rewrite rev_length, skipn_length; unfold k; lia).
  assert (Hh : length h = k) by (unfold h; rewrite rev_length, firstn_length; unfold k; lia).
  clearbody t h. rewrite <- (rev_length b) in Ht. generalize dependent (rev b). intros rb Ht.
  unfold ncmp.
  revert rb Ht; induction t as [|x t IH]; intros [|y rb] Ht; cbn in *; try discriminate.
  - destruct h; cbn.
    + cbn in Hh. replace (length a) with (length b) by (unfold k in Hh; lia). rewrite Nat.compare_refl. reflexivity.
    + cbn in Hh. destruct (Nat.compare_spec (length a) (length b)); try reflexivity; unfold k in Hh; lia.
  - destruct (lcmp x y); try reflexivity. apply IH. lia.
Qed.

Lemma go_canonical_compare_spec a b : go_canonical_compare a b = ncmp (canon a) (canon b).
Proof.
  unfold go_canonical_compare, canon.
  set (fa := map fold_label a). set (fb := map fold_label b).
  assert (La : length fa = length a) by apply map_length.
  assert (Lb : length fb = length b) by apply map_length.
  assert (Hw : walk_verdict (skipn (length a - length b) a) (skipn (length b - length a) b) Eq =
               ncmp (rev (skipn (length a - length b) fa)) (rev (skipn (length b - length a) fb))).
  { rewrite walk_verdict_spec by (rewrite !skipn_length; lia).
    unfold fa, fb. rewrite !skipn_map. unfold ncmp. destruct (lex lcmp _ _); reflexivity. }
  rewrite Hw. clear Hw.
  destruct (Nat.le_ge_cases (length b) (length a)) as [H|H].
  - rewrite (ncmp_rev_skip fa fb) by lia. rewrite La, Lb.
    replace (length b - length a)%nat with O by lia. cbn [skipn]. reflexivity.
  - replace (length a - length b)%nat with O by lia. cbn [skipn].
    rewrite (ncmp_antisym (rev fb) (rev fa)), (ncmp_rev_skip fb fa) by lia. rewrite La, Lb.
    rewrite (ncmp_antisym (rev (skipn (length b - length a) fb)) (rev fa)).
    destruct (ncmp (rev (skipn (length b - length a) fb)) (rev fa)); cbn; try reflexivity.
    apply Nat.compare_antisym.
Qed.

(* CompareSuffix's counter resets on a mismatch, so it ends as the run of equal
   labels nearest the root *)
Lemma lcp_snoc l l' u v : length l = length l' ->
  lcp (l ++ [u]) (l' ++ [v]) =
  if (lcp l l' =? length l)%nat then (if label_eqb u v then S (length l) else length l) else lcp l l'.
Proof.
  revert l'; induction l as [|p l IH]; intros [|q l'] Hl; cbn in *; try discriminate.
  - destruct (label_eqb u v); reflexivity.
  - destruct (label_eqb p q); cbn; [|reflexivity].
    rewrite IH by lia. destruct (lcp l l' =? length l)%nat; [|reflexivity].
    destruct (label_eqb u v); reflexivity.
Qed.

Lemma run_walk_spec a b n : length a = length b ->
  run_walk a b n =
  let ra := rev (map fold_label a) in
  let rb := rev (map fold_label b) in
  if (lcp ra rb =? length ra)%nat then (lcp ra rb + n)%nat else lcp ra rb.
Proof.
  revert b n; induction a as [|x a IH]; intros [|y b] n Hl; cbn in *; try discriminate; [reflexivity|].
  injection Hl as Hl. rewrite IH by exact Hl. cbn zeta.
  assert (Hlen : length (rev (map fold_label a)) = length (rev (map fold_label b)))
    by (rewrite !rev_length, !map_length; exact Hl).
  rewrite lcp_snoc by exact Hlen. rewrite app_length. cbn [length].
  set (L := length (rev (map fold_label a))) in *.
  pose proof (lcp_le_l (rev (map fold_label a)) (rev (map fold_label b))) as Hle. fold L in Hle.
  destruct (lcp (rev (map fold_label a)) (rev (map fold_label b)) =? L)%nat eqn:E.
  - apply Nat.eqb_eq in E. rewrite E.
    destruct (label_eqb (fold_label x) (fold_label y)).
    + replace (S L =? L + 1)%nat with true by (symmetry; apply Nat.eqb_eq; lia). lia.
    + replace (L =? L + 1)%nat with false by (symmetry; apply Nat.eqb_neq; lia). lia.
  - apply Nat.eqb_neq in E.
    replace (lcp (rev (map fold_label a)) (rev (map fold_label b)) =? L + 1)%nat with false
      by (symmetry; apply Nat.eqb_neq; lia). reflexivity.
Qed.

Lemma lcp_skip_longer (a b : list label) : (length b <= length a)%nat ->
  lcp (rev a) (rev b) = lcp (rev (skipn (length a - length b) a)) (rev b).
Proof.
  intros Hl. set (k := (length a - length b)%nat).
  rewrite <- (firstn_skipn k a) at 1. rewrite rev_app_distr.
  set (t := rev (skipn k a)). assert (Ht : length t = length (rev b))
    by (unfold t; rewrite !rev_length, skipn_length; unfold k; lia).
  clearbody t. generalize dependent (rev b). generalize (rev (firstn k a)). clear.
  intros h rb; revert rb. induction t as [|x t IH]; intros [|y rb] Ht; cbn in *; try discriminate.
  - destruct h; reflexivity.
  - destruct (label_eqb x y); [|reflexivity]. f_equal. apply IH. lia.
Qed.
Lemma lcp_comm a b : lcp a b = lcp b a.
Proof.
  revert b; induction a as [|x a IH]; intros [|y b]; cbn; try reflexivity.
  rewrite !label_eqb_lcmp, (lcmp_antisym x y). destruct (lcmp x y); cbn; try reflexivity. f_equal. apply IH.
Qed.

Lemma go_compare_suffix_spec a b : go_compare_suffix a b = lcp (canon a) (canon b).
Proof.
  unfold go_compare_suffix, canon.
  rewrite run_walk_spec by (rewrite !skipn_length; lia). cbn zeta.
  rewrite <- !skipn_map.
  set (fa := map fold_label a). set (fb := map fold_label b).
  assert (La : length fa = length a) by apply map_length.
  assert (Lb : length fb = length b) by apply map_length.
  rewrite <- La, <- Lb.
  assert (Hz : forall m, (if (m =? length (rev (skipn (length fa - length fb) fa)))%nat then (m + 0)%nat else m) = m)
    by (intros m; destruct (_ =? _)%nat; lia).
  rewrite Hz. clear Hz.
  destruct (Nat.le_ge_cases (length fb) (length fa)) as [H|H].
  - replace (length fb - length fa)%nat with O by lia. cbn [skipn]. symmetry. apply lcp_skip_longer, H.
  - replace (length fa - length fb)%nat with O by lia. cbn [skipn].
    rewrite (lcp_comm (rev fa) (rev fb)), (lcp_comm (rev fa)). symmetry. apply lcp_skip_longer, H.
Qed.

(* ------------------------------------------------------------ nsecCovers *)
(* strictly inside the interval owner -> next, which wraps when next <= owner
   (the last NSEC of a zone points back to the apex; owner = next is the
   one-name zone whose single NSEC covers everything but its owner) *)
Definition strictly_inside (o nx x : rname) : Prop :=
  match ncmp o nx with
  | Lt => ncmp o x = Lt /\ ncmp x nx = Lt
  | Gt => ncmp o x = Lt \/ ncmp x nx = Lt
  | Eq => x <> o
  end.

Lemma nsec_covers_spec o nx x : nsec_covers o nx x = true <-> strictly_inside o nx x.
Proof.
  unfold nsec_covers, covers_of_cmps, strictly_inside.
  rewrite (ncmp_antisym o x).
  destruct (ncmp o nx) eqn:Eon.
  - destruct (ncmp o x) eqn:E; cbn.
    + apply ncmp_eq in E. subst. split; [discriminate | intros H; exfalso; apply H; reflexivity].
    + split; [intros _ ->; rewrite ncmp_refl in E; discriminate | reflexivity].
    + split; [intros _ ->; rewrite ncmp_refl in E; discriminate | reflexivity].
  - destruct (ncmp o x), (ncmp x nx); cbn; split; intros H; try discriminate; try reflexivity; try tauto;
      destruct H; discriminate.
  - destruct (ncmp o x), (ncmp x nx); cbn; split; intros H; try discriminate; try reflexivity; try tauto;
      destruct H; discriminate.
Qed.
