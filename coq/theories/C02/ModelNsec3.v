(* C02 — NSEC3: executable model of resolver/dnssec/nsec3.go
   (prepareNSEC3Set, nsec3RingEvaluator.lookup, findClosestEncloserWithWork,
   VerifyNameErrorForZoneWithWork, VerifyNODATAForZoneWithWork,
   VerifyDelegationForZoneWithWork) and of the NSEC3 half of
   aggressive_negative.go (newAggressiveNSEC3Entries, lookupAggressiveNSEC3,
   findAggressiveNSEC3ClosestEncloser, EvaluateAggressiveNSEC3).
   Definitions only.

   The hash is data: a record carries its decoded owner / next hash as a
   number (None when the base32hex text does not decode to 20 octets), and
   the hash of every name the code may ask for comes in a table.  Only =
   and < on hash values are ever used, so any order-preserving renaming of
   the values (the driver uses ranks) gives the same run.  SHA-1 itself,
   base32hex and hex decoding are outside the model. *)
From Sdns Require Import Common.Base Gen.C02 C02.Model.
Open Scope N_scope.

Record nsec3 := mk_nsec3 {
  r_zone : name;        (* owner name without its first label, leaf first *)
  r_ohash : option N;   (* decoded first label of the owner *)
  r_nhash : option N;   (* decoded NextDomain *)
  r_hashlen : N;        (* HashLength field *)
  r_alg : N; r_flags : N; r_iter : N;
  r_salt : list N;
  r_class : N;
  r_types : list N
}.

Definition SHA1_SIZE : N := 20.

(* nsec3Safe / AggressiveNSEC3Usable *)
Definition nsec3_safe (r : nsec3) : bool :=
  (r_alg r =? 1) && (r_iter r <=? max_nsec3_iterations) && ((r_flags r =? 0) || (r_flags r =? 1)).

Definition salt_eqb : list N -> list N -> bool := list_eqb N.eqb.

(* ring entry; e_idx = position of the record in the input slice *)
Record entry3 := mk_entry3 { e_oh : N; e_nh : N; e_flags : N; e_types : list N; e_idx : nat }.

Definition opt_out (e : entry3) : bool := negb (N.land (e_flags e) optout_mask_exact =? 0).

(* aggressiveNSEC3Covers *)
Definition covers3 (e : entry3) (h : N) : bool :=
  covers_of_cmps (N.compare (e_oh e) (e_nh e)) (N.compare h (e_oh e)) (N.compare h (e_nh e)).

Definition same_identity (a b : entry3) : bool :=
  (e_nh a =? e_nh b) && (e_flags a =? e_flags b) && bitmaps_equal (e_types a) (e_types b).

(* ---- prepareNSEC3Set (signer given).  Every failure is ErrNSECMissingCoverage. *)
Definition entry_of (zone : rname) (i : nat) (r : nsec3) : option entry3 :=
  if negb (rname_eqb (canon (r_zone r)) zone) then None            (* one label below the signer *)
  else match r_ohash r, r_nhash r with
       | Some oh, Some nh => if r_hashlen r =? SHA1_SIZE then Some (mk_entry3 oh nh (r_flags r) (r_types r) i) else None
       | _, _ => None
       end.

(* unsafe records are skipped; the safe ones must agree on class and parameters *)
Fixpoint prepare_scan (zone : rname) (i : nat) (recs : list nsec3) (first : option nsec3) (acc : list entry3)
  : option (option nsec3 * list entry3) :=
  match recs with
  | [] => Some (first, acc)
  | r :: t =>
      if negb (nsec3_safe r) then prepare_scan zone (S i) t first acc
      else if r_class r =? 0 then None
      else match first with
           | Some f =>
               if negb (r_class r =? r_class f) || negb (r_iter r =? r_iter f) || negb (salt_eqb (r_salt r) (r_salt f))
               then None
               else match entry_of zone i r with
                    | None => None
                    | Some e =>
                        match find (fun x => e_oh x =? e_oh e) acc with
                        | Some x => if same_identity x e then prepare_scan zone (S i) t first acc else None
                        | None => prepare_scan zone (S i) t first (acc ++ [e])
                        end
                    end
           | None =>
               match entry_of zone i r with
               | None => None
               | Some e => prepare_scan zone (S i) t (Some r) (acc ++ [e])
               end
           end
  end.

Record ring := mk_ring { g_zone : rname; g_class : N; g_entries : list entry3 }.
Definition prepare_set (recs : list nsec3) (signer : rname) : option ring :=
  match prepare_scan signer O recs None [] with
  | Some (Some f, (_ :: _) as es) => Some (mk_ring signer (r_class f) es)
  | _ => None
  end.

(* hash table: canonical name -> hash value *)
Definition htab := list (rname * N).
Definition hash_lookup (tab : htab) (n : rname) : option N :=
  match find (fun p => rname_eqb (fst p) n) tab with Some p => Some (snd p) | None => None end.

(* nsec3RingEvaluator.lookup: unique exact match or unique strict cover *)
Inductive lk := LK_err (e : err) | LK (m c : option entry3).
Definition lookup3 (g : ring) (tab : htab) (n : rname) : lk :=
  if negb (prefix_b (g_zone g) n) then LK_err E_missing
  else match hash_lookup tab n with
       | None => LK_err E_other                     (* outside the table: the model cannot follow *)
       | Some v =>
           let m := find (fun e => e_oh e =? v) (g_entries g) in
           match filter (fun e => negb (e_oh e =? v) && covers3 e v) (g_entries g) with
           | [] => LK m None
           | [c] => match m with Some _ => LK_err E_missing | None => LK None (Some c) end
           | _ => LK_err E_missing
           end
       end.

(* findMatchingWithWork / findCovererWithWork *)
Definition find_matching (g : ring) (tab : htab) (n : rname) : err + list N :=
  match lookup3 g tab n with
  | LK_err e => inl e
  | LK (Some m) _ => inr (e_types m)
  | LK None _ => inl E_missing
  end.
Definition find_coverer (g : ring) (tab : htab) (n : rname) : err + bool :=
  match lookup3 g tab n with
  | LK_err e => inl e
  | LK _ (Some c) => inr (opt_out c)
  | LK _ None => inl E_missing
  end.

(* findClosestEncloserWithWork: from the full name upwards (the root is never a
   candidate); a candidate that fails with ErrNSECMissingCoverage is skipped *)
Fixpoint closest3 (g : ring) (tab : htab) (q : rname) (k : nat) : err + option (rname * rname * list N) :=
  match k with
  | O => inr None
  | S k' =>
      match find_matching g tab (firstn k q) with
      | inr tys => inr (Some (firstn k q, firstn (S k) q, tys))   (* firstn past the end = q itself *)
      | inl E_missing => closest3 g tab q k'
      | inl e => inl e
      end
  end.

(* validateNSEC3ClosestEncloser *)
Definition validate_ce (p : option (rname * rname * list N)) : err + (rname * rname) :=
  match p with
  | None => inl E_missing
  | Some (ce, nc, tys) =>
      if types_set tys [T_DNAME] || (types_set tys [T_NS] && negb (types_set tys [T_SOA])) then inl E_bad_deleg
      else inr (ce, nc)
  end.

Definition closest_validated (g : ring) (tab : htab) (q : rname) : err + (rname * rname) :=
  match closest3 g tab q (length q) with
  | inl e => inl e
  | inr p => validate_ce p
  end.

(* result of the ForZone verifiers: error class, and the secure flag when there is no error *)
Definition vres := (err * bool)%type.

(* VerifyNameErrorForZoneWithWork *)
Definition verify_nameerror_nsec3 (q : rname) (qclass : N) (recs : list nsec3) (signer : rname) (tab : htab) : vres :=
  match prepare_set recs signer with
  | None => (E_missing, false)
  | Some g =>
      if negb (g_class g =? qclass) then (E_missing, false)
      else match closest_validated g tab q with
           | inl e => (e, false)
           | inr (ce, nc) =>
               match find_coverer g tab nc with
               | inl e => (e, false)
               | inr next_optout =>
                   match find_coverer g tab (ce ++ [star]) with
                   | inl e => (e, false)
                   | inr _ => (E_ok, negb next_optout)
                   end
               end
           end
  end.

(* VerifyNODATAForZoneWithWork *)
Definition verify_nodata_nsec3_gen (fx : bool) (q : rname) (qtype qclass : N) (recs : list nsec3) (signer : rname) (tab : htab) : vres :=
  match prepare_set recs signer with
  | None => (E_missing, false)
  | Some g =>
      if negb (g_class g =? qclass) then (E_missing, false)
      else match find_matching g tab q with
           | inr tys =>
               if types_set tys [qtype; T_CNAME] then (E_type_exists, false)
               else if (qtype =? T_DS) && types_set tys [T_SOA] then (E_bad_deleg, false)
               else if fx && negb (qtype =? T_DS) && deleg_bitmap tys then (E_bad_deleg, false)  (* fix.patch *)
               else (E_ok, true)
           | inl E_missing =>
               match closest_validated g tab q with
               | inl e => (e, false)
               | inr (ce, nc) =>
                   match find_coverer g tab nc with
                   | inl e => (e, false)
                   | inr optout =>
                       if qtype =? T_DS then (if optout then (E_ok, false) else (E_optout, false))
                       else match find_matching g tab (ce ++ [star]) with
                            | inl e => (e, false)
                            | inr wtys =>
                                if types_set wtys [qtype; T_CNAME] then (E_type_exists, false)
                                else (E_ok, negb optout)
                            end
                   end
               end
           | inl e => (e, false)
           end
  end.

(* the code since fix 130ba3b (fx = false is the code before it) *)
Definition verify_nodata_nsec3 := verify_nodata_nsec3_gen true.

(* VerifyDelegationForZoneWithWork (no class check) *)
Definition verify_delegation_nsec3 (d : rname) (recs : list nsec3) (signer : rname) (tab : htab) : err :=
  match prepare_set recs signer with
  | None => E_missing
  | Some g =>
      match find_matching g tab d with
      | inr tys =>
          if negb (types_set tys [T_NS]) then E_ns_missing
          else if types_set tys [T_DS; T_SOA] then E_bad_deleg
          else E_ok
      | inl E_missing =>
          match closest_validated g tab d with
          | inl e => e
          | inr (ce, nc) =>
              match find_coverer g tab nc with
              | inl e => e
              | inr optout => if optout then E_ok else E_optout
              end
          end
      | inl e => e
      end
  end.

(* ---- EvaluateAggressiveNSEC3 *)
(* newAggressiveNSEC3Entries: any unusable / foreign / conflicting record refuses the set *)
Fixpoint aggr3_scan (zone : rname) (qclass : N) (i : nat) (recs : list nsec3) (first : option nsec3) (acc : list entry3)
  : option (list entry3) :=
  match recs with
  | [] => Some acc
  | r :: t =>
      if negb (nsec3_safe r) || negb (r_class r =? qclass) then None
      else if match first with
              | Some f => negb (r_iter r =? r_iter f) || negb (salt_eqb (r_salt r) (r_salt f))
              | None => false
              end then None
      else match entry_of zone i r with
           | None => None
           | Some e =>
               let first' := match first with Some f => Some f | None => Some r end in
               match find (fun x => e_oh x =? e_oh e) acc with
               | Some x => if same_identity x e then aggr3_scan zone qclass (S i) t first' acc else None
               | None => aggr3_scan zone qclass (S i) t first' (acc ++ [e])
               end
           end
  end.

(* lookupAggressiveNSEC3 *)
Definition lookup3a (es : list entry3) (v : N) : option (option entry3 * option entry3) :=
  let m := find (fun e => e_oh e =? v) es in
  match filter (fun e => negb (e_oh e =? v) && covers3 e v) es with
  | [] => Some (m, None)
  | [c] => match m with Some _ => None | None => Some (None, Some c) end
  | _ => None
  end.

(* findAggressiveNSEC3ClosestEncloser: label counts len(q)-1 down to len(zone) *)
Fixpoint closest3a (es : list entry3) (tab : htab) (q : rname) (zlen : nat) (k : nat) : err + (entry3 * rname * rname) :=
  match hash_lookup tab (firstn k q) with
  | None => inl E_other
  | Some v =>
      match lookup3a es v with
      | None => inl E_fallback
      | Some (Some m, _) => inr (m, firstn k q, firstn (S k) q)
      | Some (None, _) =>
          match k with
          | O => inl E_missing
          | S k' => if (k <=? zlen)%nat then inl E_missing else closest3a es tab q zlen k'
          end
      end
  end.

Definition opt_out_a (e : entry3) (mask : N) : bool := negb (N.land (e_flags e) mask =? 0).

Definition aggr_nsec3 (q : rname) (qtype qclass : N) (signer : rname) (recs : list nsec3) (tab : htab) : aresult :=
  if negb (question_ok qtype qclass) then A_err E_fallback
  else if negb (prefix_b signer q) then A_err E_fallback
  else match recs with
  | [] => A_err E_missing
  | _ =>
  match aggr3_scan signer qclass O recs None [] with
  | None => A_err E_fallback
  | Some [] => A_err E_missing
  | Some es =>
      match hash_lookup tab q with
      | None => A_err E_other
      | Some qh =>
      match lookup3a es qh with
      | None => A_err E_fallback
      | Some (Some m, _) =>
          if negb (aggressive_nodata_type qtype) then A_err E_fallback
          else match exact_nodata_check qtype (e_types m) with
               | E_ok => A_deny RC_NOERROR [e_idx m]
               | e => A_err e
               end
      | Some (None, _) =>
          if rname_eqb q signer then A_err E_fallback
          else if (length q <=? length signer)%nat then A_err E_missing
          else
          match closest3a es tab q (length signer) (length q - 1) with
          | inl e => A_err e
          | inr (ce, cename, nc) =>
              if types_set (e_types ce) [T_DNAME] || (types_set (e_types ce) [T_NS] && negb (types_set (e_types ce) [T_SOA]))
              then A_err E_bad_deleg
              else
              match hash_lookup tab nc with
              | None => A_err E_other
              | Some nh =>
              match lookup3a es nh with
              | None => A_err E_fallback
              | Some (Some _, _) | Some (None, None) => A_err E_fallback
              | Some (None, Some ncov) =>
                  if opt_out_a ncov optout_mask_aggr_next then A_err E_optout
                  else
                  match hash_lookup tab (cename ++ [star]) with
                  | None => A_err E_other
                  | Some wh =>
                  match lookup3a es wh with
                  | None => A_err E_fallback
                  | Some (wm, wc) =>
                      let proof := append_proof [e_idx ce] (e_idx ncov) in
                      match wm with
                      | Some w =>
                          if negb (aggressive_nodata_type qtype) || (qtype =? T_DS) then A_err E_fallback
                          else if cut_bitmap (e_types w) then A_err E_bad_deleg
                          else match exact_nodata_check qtype (e_types w) with
                               | E_ok => A_deny RC_NOERROR (append_proof proof (e_idx w))
                               | e => A_err e
                               end
                      | None =>
                          match wc with
                          | None => A_err E_fallback
                          | Some c =>
                              if opt_out_a c optout_mask_aggr_wild then A_err E_optout
                              else A_deny RC_NXDOMAIN (append_proof proof (e_idx c))
                          end
                      end
                  end
                  end
              end
              end
          end
      end
      end
  end
  end.
