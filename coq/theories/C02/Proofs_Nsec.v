(* C02 — NSEC: soundness of the aggressive (RFC 8198) classifier/evaluator
   for every well-formed zone and every sub-multiset of its genuine chain;
   the exact verifiers: sound parts, and the refutation of
   VerifyNameErrorNSEC / VerifyNODATANSEC soundness (finding F1). *)
From Sdns Require Import Common.Base Gen.C02 C02.Model C02.Spec C02.Proofs_Order.
Open Scope N_scope.

(* ------------------------------------------------------------ bitmaps *)
Lemma has_type_In bm t : has_type bm t = true <-> In t bm.
Proof.
  unfold has_type. rewrite existsb_exists. split.
  - intros [x [H E]]. apply N.eqb_eq in E. subst. exact H.
  - intros H. exists t. split; [exact H | apply N.eqb_refl].
Qed.
Lemma types_set_In bm ts : types_set bm ts = true <-> exists t, In t bm /\ In t ts.
Proof.
  unfold types_set. rewrite existsb_exists. split.
  - intros [x [H E]]. apply existsb_exists in E. destruct E as [y [Hy E]]. apply N.eqb_eq in E. subst. eauto.
  - intros [t [H1 H2]]. exists t. split; [exact H1|]. apply existsb_exists. exists t. split; [exact H2 | apply N.eqb_refl].
Qed.
Lemma types_set1 bm t : types_set bm [t] = true <-> In t bm.
Proof. rewrite types_set_In. split; [intros [x [H [<-|[]]]]; exact H | intros H; exists t; cbn; auto]. Qed.
Lemma types_set2 bm a b : types_set bm [a; b] = true <-> In a bm \/ In b bm.
Proof.
  rewrite types_set_In. split.
  - intros [x [H [<-|[<-|[]]]]]; auto.
  - intros [H|H]; [exists a | exists b]; cbn; auto.
Qed.
Lemma types_set1_false bm t : types_set bm [t] = false <-> ~ In t bm.
Proof. rewrite <- types_set1. destruct (types_set bm [t]); split; congruence. Qed.
Lemma deleg_bitmap_spec bm : deleg_bitmap bm = true <-> (In T_NS bm /\ ~ In T_SOA bm).
Proof. unfold deleg_bitmap. rewrite andb_true_iff, negb_true_iff, types_set1, types_set1_false. tauto. Qed.
Lemma cut_bitmap_spec bm : cut_bitmap bm = true <-> cut_types bm.
Proof. unfold cut_bitmap, cut_types. rewrite orb_true_iff, deleg_bitmap_spec, types_set1. tauto. Qed.

(* validateAggressiveExactNODATA = E_ok says exactly that the node lacks the type *)
Lemma exact_nodata_check_ok qtype bm : exact_nodata_check qtype bm = E_ok -> node_lacks bm qtype.
Proof.
  unfold exact_nodata_check, node_lacks.
  destruct (types_set bm [qtype; T_CNAME]) eqn:E1; [discriminate|].
  destruct ((qtype =? T_DS) && types_set bm [T_SOA]) eqn:E2; [discriminate|].
  destruct (negb (qtype =? T_DS) && deleg_bitmap bm) eqn:E3; [discriminate|]. intros _.
  assert (H1 : ~ (In qtype bm \/ In T_CNAME bm)) by (rewrite <- types_set2, E1; discriminate).
  repeat split; try tauto.
  - intros ->. rewrite N.eqb_refl in E2. cbn in E2. apply types_set1_false, E2.
  - intros Hne Hd. apply deleg_bitmap_spec in Hd. rewrite Hd, andb_true_r in E3.
    apply negb_false_iff, N.eqb_eq in E3. contradiction.
Qed.
(* the weaker check of the exact verifiers *)
Lemma nodata_bitmap_check_ok qtype bm : nodata_bitmap_check qtype bm = E_ok ->
  ~ In qtype bm /\ ~ In T_CNAME bm /\ (qtype = T_DS -> ~ In T_SOA bm).
Proof.
  unfold nodata_bitmap_check.
  destruct (types_set bm [qtype; T_CNAME]) eqn:E1; [discriminate|].
  destruct ((qtype =? T_DS) && types_set bm [T_SOA]) eqn:E2; [discriminate|]. intros _.
  assert (H1 : ~ (In qtype bm \/ In T_CNAME bm)) by (rewrite <- types_set2, E1; discriminate).
  repeat split; try tauto.
  intros ->. rewrite N.eqb_refl in E2. cbn in E2. apply types_set1_false, E2.
Qed.

(* ------------------------------------------------------------ a zone and its chain *)
Section Zone.
  Variable z : zone.
  Hypothesis Hwf : zone_wf z.

  Let Hunder := proj1 Hwf.
  Let Hapex := proj1 (proj2 Hwf).
  Let Huniq := proj1 (proj2 (proj2 Hwf)).
  Let Hcut := proj2 (proj2 (proj2 Hwf)).

  Lemma genuine_owner r : genuine z r -> owner z (c_owner r).
  Proof. intros [[H _] _]. exact H. Qed.
  Lemma genuine_next_owner r : genuine z r -> owner z (c_next r).
  Proof. intros [[_ [H _]] _]. exact H. Qed.

  (* what "x lies inside the link r" gives, for both the ordinary and the wrapping link *)
  Definition inside (r : cnsec) (x : rname) : Prop :=
    ncmp (c_owner r) x = Lt /\ x <> c_next r /\
    (forall w, owner z w ->
       ncmp w (c_owner r) <> Gt \/ (ncmp x (c_next r) = Lt /\ ncmp (c_next r) w <> Gt)).

  Lemma link_inside r x :
    genuine z r -> ncmp (c_owner r) x = Lt -> x <> c_next r ->
    (ncmp (c_owner r) (c_next r) = Lt -> ncmp x (c_next r) = Lt) ->
    inside r x.
  Proof.
    intros [[Ho [Hn Hl]] _] Hox Hne Hlt. split; [exact Hox|]. split; [exact Hne|].
    intros w Hw. destruct Hl as [[Hon Hbetween]|[Hna Hmax]].
    - destruct (ncmp w (c_owner r)) eqn:E; [left; discriminate | left; discriminate |].
      right. split; [auto|]. apply ncmp_gt_lt in E.
      intros Hgt. apply ncmp_gt_lt in Hgt. apply (Hbetween w Hw). split; assumption.
    - left. apply Hmax, Hw.
  Qed.

  Lemma classify_interval_inside r x s :
    genuine z r -> classify_interval x r = Some s ->
    inside r x /\ (s = S_ent <-> is_strict_prefix x (c_next r)).
  Proof.
    intros Hg. unfold classify_interval.
    destruct (negb (is_gt (ncmp x (c_owner r))) || rname_eqb x (c_next r)) eqn:E1; [discriminate|].
    apply orb_false_iff in E1. destruct E1 as [E1 E1'].
    apply negb_false_iff in E1.
    assert (Hox : ncmp (c_owner r) x = Lt)
      by (apply ncmp_gt_lt; destruct (ncmp x (c_owner r)); try discriminate; reflexivity).
    assert (Hne : x <> c_next r)
      by (intros ->; rewrite rname_eqb_refl in E1'; discriminate).
    destruct (if is_gt (ncmp (c_next r) (c_owner r)) then negb (is_lt (ncmp x (c_next r)))
              else negb (prefix_b (c_next r) x)) eqn:E2; [discriminate|].
    intros H. split.
    - apply link_inside; auto. intros Hon. apply ncmp_gt_lt in Hon. rewrite Hon in E2. cbn in E2.
      apply negb_false_iff in E2. destruct (ncmp x (c_next r)); try discriminate. reflexivity.
    - destruct (strict_prefix_b x (c_next r)) eqn:E3; inversion H; subst.
      + split; [intros _; apply strict_prefix_b_spec, E3 | reflexivity].
      + split; [discriminate | intros Hs; apply strict_prefix_b_spec in Hs; congruence].
  Qed.

  (* no owner lies strictly inside a link *)
  Lemma inside_not_owner r x : inside r x -> ~ owner z x.
  Proof.
    intros [Hox [Hne Hw]] Hown. destruct (Hw x Hown) as [H|[H1 H2]].
    - apply H. apply ncmp_gt_lt. exact Hox.
    - apply H2. apply ncmp_gt_lt. exact H1.
  Qed.

  (* x exists as a node iff the link's next name descends from it *)
  Lemma inside_exists_iff r x :
    genuine z r -> inside r x -> (exists_direct z x <-> is_strict_prefix x (c_next r)).
  Proof.
    intros Hg Hin. split.
    - intros [w [Hw Hp]]. destruct Hin as [Hox [Hne Hall]].
      destruct (is_prefix_strict_or_eq _ _ Hp) as [->|Hs].
      { exfalso. eapply inside_not_owner; [split; [exact Hox|split; [exact Hne|exact Hall]] | exact Hw]. }
      destruct (Hall w Hw) as [H|[H1 H2]].
      + exfalso. apply strict_prefix_lt in Hs.
        assert (ncmp (c_owner r) w = Lt) by (eapply ncmp_trans; eauto).
        apply H. apply ncmp_gt_lt. assumption.
      + assert (Hpn : is_prefix x (c_next r)).
        { apply (subtree_interval x w (c_next r) Hp); [rewrite H1; discriminate | exact H2]. }
        destruct (is_prefix_strict_or_eq _ _ Hpn) as [E|Hs']; [congruence | exact Hs'].
    - intros Hs. exists (c_next r). split; [apply genuine_next_owner, Hg | apply strict_is_prefix, Hs].
  Qed.

  Lemma inside_absent r x :
    genuine z r -> inside r x -> ~ is_strict_prefix x (c_next r) -> ~ exists_direct z x.
  Proof. intros Hg Hin Hn He. apply Hn. apply (inside_exists_iff r x Hg Hin), He. Qed.

  Lemma inside_ent r x :
    genuine z r -> inside r x -> is_strict_prefix x (c_next r) -> is_ent z x.
  Proof.
    intros Hg Hin Hs. split; [eapply inside_not_owner; eauto|].
    exists (c_next r). split; [apply genuine_next_owner, Hg | exact Hs].
  Qed.

  (* an owner with a cut bitmap above x: the only link x can lie inside starts at that cut *)
  Lemma inside_below_cut r x d tys :
    genuine z r -> inside r x ->
    In (d, tys) (z_nodes z) -> cut_types tys -> is_strict_prefix d x ->
    d = c_owner r /\ cut_bitmap (c_types r) = true.
  Proof.
    intros Hg [Hox [Hne Hall]] Hd Hct Hs.
    assert (Hdo : owner z d) by (exists tys; exact Hd).
    assert (Hdx : ncmp d x = Lt) by (apply strict_prefix_lt, Hs).
    assert (Hle : ncmp d (c_owner r) <> Gt).
    { destruct (Hall d Hdo) as [H|[H1 H2]]; [exact H|]. exfalso.
      assert (ncmp d (c_next r) = Lt) by (eapply ncmp_trans; eauto).
      apply H2. apply ncmp_gt_lt. assumption. }
    assert (Hp : is_prefix d (c_owner r)).
    { apply (subtree_interval d x (c_owner r) (strict_is_prefix _ _ Hs) Hle). rewrite Hox. discriminate. }
    destruct (is_prefix_strict_or_eq _ _ Hp) as [E|Hs'].
    - split; [exact E|]. apply cut_bitmap_spec. destruct Hg as [_ Hty]. subst d.
      rewrite (Huniq _ _ _ Hty Hd). exact Hct.
    - exfalso. apply (Hcut d tys (c_owner r) Hd Hct (genuine_owner r Hg) Hs').
  Qed.

  (* a name that exists directly in a well-formed zone is not below a cut *)
  Lemma exists_direct_not_below_cut x : exists_direct z x -> ~ below_cut z x.
  Proof.
    intros [w [Hw Hp]] [d [tys [Hd [Hct Hs]]]].
    apply (Hcut d tys w Hd Hct Hw). destruct Hs as [s [Hs ->]]. destruct Hp as [t ->].
    exists (s ++ t). split; [destruct s; [congruence|discriminate] | symmetry; apply app_assoc].
  Qed.

  (* the closest encloser read off the covering link *)
  Lemma inside_closest_encloser r x :
    genuine z r -> inside r x -> ~ is_strict_prefix x (c_next r) ->
    let n := Nat.max (lcp x (c_owner r)) (lcp x (c_next r)) in
    let k := if (length x <=? n)%nat then (length x - 1)%nat else n in
    closest_encloser z x (firstn k x).
  Proof.
    intros Hg Hin Hnent n k. destruct Hin as [Hox [Hne Hall]].
    assert (Hx : x <> []) by (intros ->; destruct (c_owner r); discriminate).
    assert (Hlen : (0 < length x)%nat) by (destruct x; [congruence | cbn; lia]).
    assert (Hk : (k < length x)%nat) by (unfold k; destruct (Nat.leb_spec (length x) n); lia).
    assert (Hkn : (k <= n)%nat) by (unfold k; destruct (Nat.leb_spec (length x) n); lia).
    split; [|split].
    - exists (skipn k x). split; [|symmetry; apply firstn_skipn].
      intros E. apply (f_equal (@length _)) in E. rewrite skipn_length in E. cbn in E. lia.
    - (* a prefix of the owner or of the next name *)
      assert (Hcase : (k <= lcp x (c_owner r))%nat \/ (k <= lcp x (c_next r))%nat) by (unfold n in Hkn; lia).
      destruct Hcase as [Hc|Hc]; [exists (c_owner r) | exists (c_next r)];
        (split; [first [apply genuine_owner, Hg | apply genuine_next_owner, Hg]|]).
      + eapply is_prefix_trans; [|apply (lcp_prefix_l x (c_owner r))].
        exists (skipn k (firstn (lcp x (c_owner r)) x)).
        rewrite <- (firstn_skipn k (firstn (lcp x (c_owner r)) x)) at 1. rewrite firstn_firstn.
        replace (Nat.min k (lcp x (c_owner r))) with k by lia. reflexivity.
      + eapply is_prefix_trans; [|apply (lcp_prefix_l x (c_next r))].
        exists (skipn k (firstn (lcp x (c_next r)) x)).
        rewrite <- (firstn_skipn k (firstn (lcp x (c_next r)) x)) at 1. rewrite firstn_firstn.
        replace (Nat.min k (lcp x (c_next r))) with k by lia. reflexivity.
    - intros p Hps [w [Hw Hpw]]. rewrite firstn_length. replace (Nat.min k (length x)) with k by lia.
      pose proof (strict_prefix_length _ _ Hps) as Hpl.
      assert (Hpx : is_prefix p x) by (apply strict_is_prefix, Hps).
      assert (Hpn : (length p <= n)%nat).
      { destruct (Hall w Hw) as [H|[H1 H2]].
        - (* w <= owner < x: the owner is in p's subtree *)
          assert (is_prefix p (c_owner r)).
          { apply (subtree_interval p x (c_owner r) Hpx); [|rewrite Hox; discriminate].
            pose proof (prefix_le _ _ Hpw) as Hle.
            destruct (ncmp p w) eqn:E1; [| |congruence].
            - apply ncmp_eq in E1. subst. exact H.
            - intros Hgt. apply H. apply ncmp_gt_lt. apply ncmp_gt_lt in Hgt.
              (* owner < p < w contradicts w <= owner *)
              eapply ncmp_trans; eauto. }
          pose proof (lcp_max p x (c_owner r) Hpx H0). unfold n. lia.
        - (* x < next <= w: the next name is in p's subtree *)
          assert (is_prefix p (c_next r)).
          { apply (subtree_interval p w (c_next r) Hpw); [|exact H2].
            pose proof (prefix_le _ _ Hpx) as Hle. intros Hgt. apply ncmp_gt_lt in Hgt.
            assert (ncmp x p = Lt) by (eapply ncmp_trans; eauto).
            apply Hle. apply ncmp_gt_lt. assumption. }
          pose proof (lcp_max p x (c_next r) Hpx H). unfold n. lia. }
      unfold k. destruct (Nat.leb_spec (length x) n); lia.
  Qed.

  Lemma closest_encloser_unique q a b : closest_encloser z q a -> closest_encloser z q b -> a = b.
  Proof.
    intros [Ha1 [Ha2 Ha3]] [Hb1 [Hb2 Hb3]].
    apply (prefixes_same_length a b q); [apply strict_is_prefix, Ha1 | apply strict_is_prefix, Hb1|].
    pose proof (Ha3 b Hb1 Hb2). pose proof (Hb3 a Ha1 Ha2). lia.
  Qed.

  (* ---------------------------------------------------------- the classifier *)
  Definition no_cut_above (x : rname) (es : list cnsec) : Prop :=
    existsb (fun e => strict_prefix_b (c_owner e) x && cut_bitmap (c_types e)) es = false.

  Lemma classify_scan_cover x es ex cv s r :
    classify_scan x es ex cv = C_cover s r ->
    cv = Some (s, r) \/ (In r es /\ classify_interval x r = Some s).
  Proof.
    revert ex cv. induction es as [|e t IH]; intros ex cv H; cbn in H.
    - destruct ex as [[? ?]|], cv as [[s0 r0]|]; try discriminate. inversion H; subst. left. reflexivity.
    - destruct (rname_eqb x (c_owner e)) eqn:E.
      + destruct ex; [discriminate|]. destruct (IH _ _ H) as [H3|[H3 H4]]; [left; exact H3|].
        right. split; [right; exact H3 | exact H4].
      + destruct (classify_interval x e) as [s1|] eqn:Ei.
        * destruct cv; [discriminate|]. destruct (IH _ _ H) as [H3|[H3 H4]].
          -- inversion H3; subst. right. split; [left; reflexivity | exact Ei].
          -- right. split; [right; exact H3 | exact H4].
        * destruct (IH _ _ H) as [H3|[H3 H4]]; [left; exact H3|].
          right. split; [right; exact H3 | exact H4].
  Qed.

  Lemma classify_scan_exact x es ex cv r :
    classify_scan x es ex cv = C_exact r ->
    (exists s0, ex = Some (s0, r)) \/ (In r es /\ x = c_owner r).
  Proof.
    revert ex cv. induction es as [|e t IH]; intros ex cv H; cbn in H.
    - destruct ex as [[s0 r0]|], cv as [[? ?]|]; try discriminate. inversion H; subst. left. eauto.
    - destruct (rname_eqb x (c_owner e)) eqn:E.
      + destruct ex; [discriminate|]. destruct (IH _ _ H) as [[s0 H3]|[H3 H4]].
        * inversion H3; subst. right. split; [left; reflexivity | apply rname_eqb_spec, E].
        * right. split; [right; exact H3 | exact H4].
      + destruct (classify_interval x e) as [s1|] eqn:Ei.
        * destruct cv; [discriminate|]. destruct (IH _ _ H) as [H3|[H3 H4]]; [left; exact H3|].
          right. split; [right; exact H3 | exact H4].
        * destruct (IH _ _ H) as [H3|[H3 H4]]; [left; exact H3|].
          right. split; [right; exact H3 | exact H4].
  Qed.

  Lemma classify_cover x es s r :
    classify x es = C_cover s r -> no_cut_above x es /\ In r es /\ classify_interval x r = Some s.
  Proof.
    unfold classify, no_cut_above. destruct (existsb _ es) eqn:E; [discriminate|]. intros H.
    destruct (classify_scan_cover _ _ _ _ _ _ H) as [H1|H1]; [discriminate|]. tauto.
  Qed.
  Lemma classify_exact x es r :
    classify x es = C_exact r -> no_cut_above x es /\ In r es /\ x = c_owner r.
  Proof.
    unfold classify, no_cut_above. destruct (existsb _ es) eqn:E; [discriminate|]. intros H.
    destruct (classify_scan_exact _ _ _ _ _ H) as [[s0 H1]|H1]; [discriminate|]. tauto.
  Qed.

  (* a covered name with no cut entry above it in the set is not below a cut of the zone *)
  Lemma covered_not_below_cut x es r :
    (forall e, In e es -> genuine z e) -> In r es -> inside r x -> no_cut_above x es -> ~ below_cut z x.
  Proof.
    intros Hgen Hr Hin Hno [d [tys [Hd [Hct Hs]]]].
    destruct (inside_below_cut r x d tys (Hgen r Hr) Hin Hd Hct Hs) as [E Hb]. subst d.
    unfold no_cut_above in Hno. rewrite <- not_true_iff_false in Hno. apply Hno.
    apply existsb_exists. exists r. split; [exact Hr|]. rewrite Hb, andb_true_r. apply strict_prefix_b_spec, Hs.
  Qed.

  (* ---------------------------------------------------------- the evaluator *)
  Lemma closest_encloser_aggr_eq q r ce :
    closest_encloser_aggr q r = Some ce ->
    ce = firstn (let n := Nat.max (lcp q (c_owner r)) (lcp q (c_next r)) in
                 if (length q <=? n)%nat then (length q - 1)%nat else n) q.
  Proof. unfold closest_encloser_aggr. destruct q; [discriminate|]. intros H. inversion H. reflexivity. Qed.

  Theorem evaluate_entries_sound q qtype signer es :
    (forall e, In e es -> genuine z e) ->
    match evaluate_entries q qtype signer es with
    | A_err _ => True
    | A_deny rc _ =>
        (rc = RC_NXDOMAIN /\ ~ exists_in z q) \/ (rc = RC_NOERROR /\ nodata_true z q qtype)
    end.
  Proof.
    intros Hgen. unfold evaluate_entries.
    destruct (classify q es) as [e|r|st r] eqn:Hc; [exact I| |].
    - (* exact owner *)
      destruct (classify_exact _ _ _ Hc) as [Hno [Hr Hq]].
      destruct (negb (aggressive_nodata_type qtype)); [exact I|].
      destruct (exact_nodata_check qtype (c_types r)) eqn:Hchk; try exact I.
      right. split; [reflexivity|].
      assert (Hown : owner z q) by (subst q; apply genuine_owner, Hgen, Hr).
      split; [apply exists_direct_not_below_cut; exists q; split; [exact Hown | apply is_prefix_refl]|].
      left. exists (c_types r). split; [subst q; apply (Hgen r Hr) | apply exact_nodata_check_ok, Hchk].
    - destruct (classify_cover _ _ _ _ Hc) as [Hno [Hr Hci]].
      destruct (classify_interval_inside r q st (Hgen r Hr) Hci) as [Hin Hent].
      destruct st.
      + (* empty non-terminal *)
        destruct (negb (aggressive_nodata_type qtype)); [exact I|].
        right. split; [reflexivity|].
        assert (Hs : is_strict_prefix q (c_next r)) by (apply Hent; reflexivity).
        split; [eapply covered_not_below_cut; eauto|].
        right; left. eapply inside_ent; eauto.
      + (* absent: closest encloser, then the wildcard *)
        assert (Hns : ~ is_strict_prefix q (c_next r)) by (intros Hs; apply Hent in Hs; discriminate).
        destruct (rname_eqb q signer); [exact I|].
        destruct (closest_encloser_aggr q r) as [ce|] eqn:Hce; [|exact I].
        destruct (negb (prefix_b signer ce)); [exact I|].
        pose proof (closest_encloser_aggr_eq _ _ _ Hce) as Ece.
        pose proof (inside_closest_encloser r q (Hgen r Hr) Hin Hns) as Hclo. cbn zeta in Hclo, Ece. rewrite <- Ece in Hclo.
        assert (Hnd : ~ exists_direct z q) by (eapply inside_absent; eauto).
        assert (Hnb : ~ below_cut z q) by (eapply covered_not_below_cut; eauto).
        destruct (classify (ce ++ [star]) es) as [e|w|st w] eqn:Hw; [exact I| |].
        * (* wildcard owner: NODATA *)
          destruct (classify_exact _ _ _ Hw) as [_ [Hwr Hwq]].
          destruct (negb (aggressive_nodata_type qtype) || (qtype =? T_DS)); [exact I|].
          destruct (cut_bitmap (c_types w)); [exact I|].
          destruct (exact_nodata_check qtype (c_types w)) eqn:Hchk; try exact I.
          right. split; [reflexivity|]. split; [exact Hnb|]. right; right. split; [exact Hnd|].
          exists ce. split; [exact Hclo|]. left. exists (c_types w).
          split; [rewrite Hwq; apply (Hgen w Hwr) | apply exact_nodata_check_ok, Hchk].
        * destruct (classify_cover _ _ _ _ Hw) as [_ [Hwr Hwci]].
          destruct (classify_interval_inside w (ce ++ [star]) st (Hgen w Hwr) Hwci) as [Hwin Hwent].
          destruct st.
          -- (* wildcard is an empty non-terminal: NODATA *)
             destruct (negb (aggressive_nodata_type qtype) || (qtype =? T_DS)); [exact I|].
             right. split; [reflexivity|]. split; [exact Hnb|]. right; right. split; [exact Hnd|].
             exists ce. split; [exact Hclo|]. right. eapply inside_ent; eauto. apply Hwent. reflexivity.
          -- (* NXDOMAIN *)
             left. split; [reflexivity|].
             assert (Hws : ~ is_strict_prefix (ce ++ [star]) (c_next w)) by (intros Hs; apply Hwent in Hs; discriminate).
             assert (Hwnd : ~ exists_direct z (ce ++ [star])) by (eapply inside_absent; eauto).
             intros [He|[He|[_ [ce' [Hc' He']]]]]; [exact (Hnd He) | exact (Hnb He)|].
             rewrite (closest_encloser_unique q ce' ce Hc' Hclo) in He'. exact (Hwnd He').
  Qed.
End Zone.
