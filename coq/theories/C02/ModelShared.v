(* C02 — shared negative-cache state behind Cache.ServeDNS (middleware/cache): the admission guard of
   cache.ResponseWriter.WriteMsg, the RFC 8198 denial-proof index (denialProofCache: recordWithKind /
   extract / enforceZoneLimitsLocked / lookupWithMeta / denialProofEvaluate / pruneZoneLocked, NSEC
   family) and the RFC 8020 subtree cuts (nxDomainCutCache: record / enforceZoneLimitsLocked / lookup).
   Definitions only.

   One signer zone, class IN, every message of the generated family (SOA and each NSEC RRset signed,
   all in the zone, distinct owners, one TTL per message, DO=1, every question asked once so that the
   exact-answer cache never answers, a top-level client exchange: a synthesized hit is written to the
   client's writer and is NOT fed back into the shared state).  The per-zone ENTRY limits of both
   caches (FIFO eviction) are modelled; the byte limits and the global limits are not (the driver checks
   that no generated entry exceeds the per-entry byte budget the limits are derived from, so the entry
   limit always binds first).  NSEC3 half of the index (wave 5): a history uses ONE denial family and, for NSEC3,
   one parameter tuple (hash, iterations, salt) — so the two-ring limit and ring ordering never act; modelled are
   admission (identity = owner hash), replacement, the conflict quarantine (a second RDATA at a live owner hash
   drops the whole ring and refuses the tuple until both observations have expired), expiry/pruning, the
   evaluation of the live ring through EvaluateAggressiveNSEC3 (hash values as data: tab) and the Opt-Out
   refusal of subtree cuts. *)
From Sdns Require Import Common.Base Gen.C02 C02.Model C02.ModelCut C02.ModelNsec3.
Open Scope Z_scope.

(* proof index of the zone: SOA expiry; the NSEC entries (one per owner) with their expiries, oldest
   admission first (the order of denialProofCache.fifo).  cuts: denied name and expiry, oldest first
   (nxDomainCutZoneState.fifo).  Expired entries stay until something removes them. *)
Record shared := mk_shared {
  sh_soa : option Z;
  sh_recs : list (cnsec * Z);
  sh_recs3 : list (nsec3 * Z);        (* NSEC3 entries of the one parameter ring, oldest admission first *)
  sh_tomb : option Z;                 (* conflict tombstone of that ring: refused until this instant *)
  sh_cuts : list (rname * Z)
}.
Definition shared_empty : shared := mk_shared None [] [] None [].

(* limits: maxEntriesPerZone of the proof index (the SOA entry counts) and of the cut cache *)
Record limits := mk_limits { lim_index : nat; lim_cuts : nat }.

Fixpoint reindex_from (i : nat) (l : list cnsec) : list cnsec :=
  match l with [] => [] | r :: t => mk_cnsec (c_owner r) (c_next r) (c_types r) (c_class r) i :: reindex_from (S i) t end.
Definition reindex_c := reindex_from O.

Definition same_owner (a b : cnsec) : bool := rname_eqb (c_owner a) (c_owner b).

(* canonical owner order (denialProofNameOrder.compare): extract sorts the proof RRsets of one message,
   publishZoneLocked sorts the zone's NSEC entries *)
Fixpoint insert_canon (r : cnsec) (l : list cnsec) : list cnsec :=
  match l with
  | [] => [r]
  | h :: t => if is_lt (ncmp (c_owner r) (c_owner h)) then r :: l else h :: insert_canon r t
  end.
Definition sort_canon (l : list cnsec) : list cnsec := fold_right insert_canon [] l.

(* denialProofCache.recordWithKind: every RRset replaces the entry with the same id and joins the
   FIFO at the back *)
Definition put_rec (l : list (cnsec * Z)) (r : cnsec) (e : Z) : list (cnsec * Z) :=
  filter (fun x => negb (same_owner (fst x) r)) l ++ [(r, e)].
Definition put_recs (l : list (cnsec * Z)) (rs : list cnsec) (e : Z) : list (cnsec * Z) :=
  fold_left (fun acc r => put_rec acc r e) rs l.
(* FIFO eviction: the oldest entries go until n remain *)
Definition keep_newest {A} (n : nat) (l : list A) : list A := skipn (length l - n) l.

(* Store.RecordDenialProof for one complete signed message about q whose every TTL bound gives the
   deadline e.  extract: q at or below the zone, at least one NSEC RRset, a positive lifetime;
   recordWithKind: a bundle (SOA + RRsets) above the per-zone entry limit is refused whole; otherwise
   the SOA entry is replaced (its expiry is the new deadline, longer or shorter), the RRsets land in
   canonical order, and enforceZoneLimitsLocked evicts the zone's oldest entries — the SOA entry, just
   re-queued in front of its bundle, is never among them *)
Definition record_index (lim : limits) (st : shared) (now : Z) (zone q : rname) (rs : list cnsec) (e : Z) : shared :=
  if (e <=? now) || negb (prefix_b zone q) then st else
  match rs with
  | [] => st
  | _ =>
    if (lim_index lim <? S (length rs))%nat then st else
    mk_shared (Some e) (keep_newest (lim_index lim - 1 - length (sh_recs3 st)) (put_recs (sh_recs st) (sort_canon rs) e))
              (sh_recs3 st) (sh_tomb st) (sh_cuts st)
  end.

(* ---- the NSEC3 ring *)
Definition optN_eq (a b : option N) : bool :=
  match a, b with Some x, Some y => (x =? y)%N | None, None => true | _, _ => false end.
(* denialProofID: same owner (= owner hash label) in the same ring *)
Definition same_id3 (a b : nsec3) : bool := optN_eq (r_ohash a) (r_ohash b).
(* denialProofNSEC3EntriesEquivalent: flags, next hash and type set *)
Definition equiv3 (a b : nsec3) : bool :=
  (r_flags a =? r_flags b)%N && optN_eq (r_nhash a) (r_nhash b) && bitmaps_equal (r_types a) (r_types b).
Definition ohash_lt (a b : nsec3) : bool :=
  match r_ohash a, r_ohash b with Some x, Some y => (x <? y)%N | _, _ => false end.
Fixpoint insert3 (r : nsec3) (l : list nsec3) : list nsec3 :=
  match l with [] => [r] | h :: t => if ohash_lt r h then r :: l else h :: insert3 r t end.
Definition sort3 (l : list nsec3) : list nsec3 := fold_right insert3 [] l.
Definition put_rec3 (l : list (nsec3 * Z)) (r : nsec3) (e : Z) : list (nsec3 * Z) :=
  filter (fun x => negb (same_id3 (fst x) r)) l ++ [(r, e)].
Definition put_recs3 (l : list (nsec3 * Z)) (rs : list nsec3) (e : Z) : list (nsec3 * Z) :=
  fold_left (fun acc r => put_rec3 acc r e) rs l.
Definition tomb_active (now : Z) (t : option Z) : bool := match t with Some u => now <? u | None => false end.
(* the first entry of the bundle (owner-hash order) that meets a live entry with the same identity and
   different RDATA: its expiry *)
Fixpoint first_conflict (now : Z) (l : list (nsec3 * Z)) (rs : list nsec3) : option Z :=
  match rs with
  | [] => None
  | r :: t =>
      match find (fun x => same_id3 (fst x) r) l with
      | Some x => if (now <? snd x) && negb (equiv3 (fst x) r) then Some (snd x) else first_conflict now l t
      | None => first_conflict now l t
      end
  end.
(* Store.RecordDenialProof, NSEC3 kind *)
Definition record_index3 (lim : limits) (st : shared) (now : Z) (zone q : rname) (rs : list nsec3) (e : Z) : shared :=
  if (e <=? now) || negb (prefix_b zone q) then st else
  match rs with
  | [] => st
  | _ =>
    if (lim_index lim <? S (length rs))%nat then st else
    if tomb_active now (sh_tomb st) then st else
    match first_conflict now (sh_recs3 st) (sort3 rs) with
    | Some pe => mk_shared (sh_soa st) (sh_recs st) [] (Some (Z.max e pe)) (sh_cuts st)
    | None =>
        mk_shared (Some e) (sh_recs st)
          (keep_newest (lim_index lim - 1 - length (sh_recs st)) (put_recs3 (sh_recs3 st) (sort3 rs) e))
          (sh_tomb st) (sh_cuts st)
    end
  end.

(* Store.RecordNXDomainCut (NXDOMAIN only; called whatever RecordDenialProof returned): the denied name
   strictly below the zone, a proof RRset, a positive lifetime; an older cut of the same name is
   replaced, the new one joins the zone's FIFO at the back, the oldest go beyond the limit *)
Definition record_cut (lim : limits) (st : shared) (now : Z) (zone q : rname) (nproofs : nat) (optout : bool) (e : Z) : shared :=
  if (e <=? now) || negb (prefix_b zone q) || rname_eqb q zone || optout then st else   (* HasNSEC3OptOut: no cut *)
  match nproofs with
  | O => st
  | _ =>
    mk_shared (sh_soa st) (sh_recs st) (sh_recs3 st) (sh_tomb st)
      (keep_newest (lim_cuts lim) (filter (fun x => negb (rname_eqb (fst x) q)) (sh_cuts st) ++ [(q, e)]))
  end.

(* the downstream (resolver) response of an exchange *)
Inductive downstream :=
| DsPositive                                             (* an ordinary answer: nothing for the shared state *)
| DsNegative (rcode : N) (rs : list nsec) (ttl : Z)      (* NXDOMAIN / NODATA with SOA + these NSEC RRsets *)
             (marked aggressive res_cd : bool)           (* provenance attached? aggressive-eligible? CD in the response? *)
| DsNegative3 (rcode : N) (rs : list nsec3) (ttl : Z)    (* the same with NSEC3 RRsets (one parameter tuple) *)
             (marked aggressive res_cd : bool).

(* cache.ResponseWriter.WriteMsg: shared state is fed only with local provenance that is
   aggressive-eligible, for requests without ECS and without CD *)
Definition admission_guard (req_cd req_ecs marked aggressive res_cd : bool) : bool :=
  negb req_ecs && negb req_cd && negb res_cd && marked && aggressive.

Definition admit_downstream (lim : limits) (maxttl : Z) (st : shared) (now : Z) (zone q : rname) (cd ecs : bool)
           (ds : downstream) : shared :=
  match ds with
  | DsPositive => st
  | DsNegative rcode rs ttl marked aggressive res_cd =>
      if admission_guard cd ecs marked aggressive res_cd then
        let e := now + Z.min ttl maxttl in
        let st1 := record_index lim st now zone q (canon_recs rs) e in
        if (rcode =? 3)%N then record_cut lim st1 now zone q (length rs) false e else st1
      else st
  | DsNegative3 rcode rs ttl marked aggressive res_cd =>
      if admission_guard cd ecs marked aggressive res_cd then
        let e := now + Z.min ttl maxttl in
        let st1 := record_index3 lim st now zone q rs e in
        if (rcode =? 3)%N
        then record_cut lim st1 now zone q (length rs) (existsb (fun r => negb (N.land (r_flags r) optout_mask_cut =? 0)%N) rs) e
        else st1
      else st
  end.

Definition is_live (now : Z) {A} (x : A * Z) : bool := now <? snd x.

(* nxDomainCutCache.lookup: the closest denied ancestor-or-self, longest first; an expired entry met on
   the way is removed and the walk goes on; the first live one answers.  Returns the cuts left and
   the hit *)
Fixpoint cut_walk_sh (now : Z) (cuts : list (rname * Z)) (q : rname) (k : nat) : list (rname * Z) * option rname :=
  match k with
  | O => (cuts, None)
  | S k' =>
      let d := firstn k q in
      match find (fun x => rname_eqb (fst x) d) cuts with
      | Some x => if now <? snd x then (cuts, Some d)
                  else cut_walk_sh now (filter (fun x => negb (rname_eqb (fst x) d)) cuts) q k'
      | None => cut_walk_sh now cuts q k'
      end
  end.

(* denialProofCache.lookupWithMeta for the zone (a candidate only when it is an ancestor-or-self of q):
   a zone without a live SOA is retired outright; otherwise the live NSEC entries, in canonical order, go to
   the RFC 8198 evaluator; when they do not answer, the live NSEC3 ring (owner-hash order) goes to
   EvaluateAggressiveNSEC3 and its answer counts only while the ring is not quarantined.  A family in
   which the lookup saw an expired entry makes it prune every expired entry of the zone.  Returns the
   index left and the RCODE of a synthesized denial *)
Definition index_lookup (tab : htab) (st : shared) (now : Z) (zone q : rname) (qtype : N) : shared * option N :=
  if negb (prefix_b zone q) then (st, None) else
  match sh_soa st with
  | None => (st, None)
  | Some se =>
      if now <? se then
        let live := filter (is_live now) (sh_recs st) in
        let live3 := filter (is_live now) (sh_recs3 st) in
        let pruned := mk_shared (sh_soa st) live live3 (sh_tomb st) (sh_cuts st) in
        let exp1 := negb (length live =? length (sh_recs st))%nat in
        let exp3 := negb (length live3 =? length (sh_recs3 st))%nat in
        let recs := reindex_c (sort_canon (map fst live)) in
        (* nothing expired: the published, pre-validated set (EvaluateAggressiveNSECSet); otherwise the
           per-query path over the live records (EvaluateAggressiveNSECPrepared) *)
        match (if exp1 then aggr_nsec else aggr_nsec_set) q qtype 1%N zone recs with
        | A_deny rc _ => (if exp1 then pruned else st, Some rc)
        | A_err _ =>
            let st' := if exp1 || exp3 then pruned else st in
            match live3 with
            | [] => (st', None)
            | _ =>
              match aggr_nsec3 q qtype 1%N zone (sort3 (map fst live3)) tab with
              | A_deny rc _ => (st', if tomb_active now (sh_tomb st) then None else Some rc)
              | A_err _ => (st', None)
              end
            end
        end
      else (mk_shared None [] [] (sh_tomb st) (sh_cuts st), None)
  end.

(* one client exchange through Cache.ServeDNS; returns the new state and what the client saw:
   None = the downstream answer, Some rcode = a denial synthesized from shared state *)
Definition exchange (lim : limits) (maxttl : Z) (tab : htab) (st : shared) (now : Z) (zone q : rname) (qtype : N) (cd ecs : bool)
           (ds : downstream) : shared * option N :=
  if cd || ecs then (admit_downstream lim maxttl st now zone q cd ecs ds, None) else
  let '(cuts, hit) := cut_walk_sh now (sh_cuts st) q (length q) in
  let st := mk_shared (sh_soa st) (sh_recs st) (sh_recs3 st) (sh_tomb st) cuts in
  match hit with
  | Some _ => (st, Some 3%N)
  | None =>
      match index_lookup tab st now zone q qtype with
      | (st, Some rc) => (st, Some rc)
      | (st, None) => (admit_downstream lim maxttl st now zone q cd ecs ds, None)
      end
  end.

(* what the driver reads back from the real Store after each exchange: SOA expiry, number of NSEC
   entries of the zone and the sum of their expiries, number of cuts of the zone, number of live cuts *)
Record shobs := mk_shobs { so_soa : option Z; so_nrec : N; so_sum : Z; so_ncut : N; so_nlive : N; so_tomb : bool }.
Definition observe_shared (now : Z) (st : shared) : shobs :=
  mk_shobs (sh_soa st) (N.of_nat (length (sh_recs st) + length (sh_recs3 st)))
           (fold_left (fun a x => a + snd x) (sh_recs3 st) (fold_left (fun a x => a + snd x) (sh_recs st) 0))
           (N.of_nat (length (sh_cuts st))) (N.of_nat (length (filter (is_live now) (sh_cuts st))))
           (match sh_tomb st with Some _ => true | None => false end).

(* histories *)
Inductive shop :=
| ShExchange (q : name) (qtype : N) (cd ecs : bool) (ds : downstream)
             (honest : bool)       (* false: the downstream records are not all of the zone's genuine chain (a changed zone) *)
             (synth : option N) (obs : shobs)
| ShAdvance (s : Z).
