(* C02 — shared negative-cache state behind Cache.ServeDNS (middleware/cache): the admission guard of
   cache.ResponseWriter.WriteMsg, the RFC 8198 denial-proof index (denialProofCache: record / extract /
   lookupWithMeta / denialProofEvaluate / denialProofResponse, NSEC family) and the RFC 8020 subtree
   cuts, including what a synthesized hit re-admits.  Definitions only.

   One signer zone, class IN, every message of the generated family (SOA and each NSEC RRset signed,
   all in the zone, one TTL per message, DO=1, every question asked once so that the exact-answer
   cache never answers).  Entry/byte limits and the NSEC3 half of the index are not modelled. *)
From Sdns Require Import Common.Base Gen.C02 C02.Model C02.ModelCut.
Open Scope Z_scope.

(* proof index: SOA expiry; one entry per NSEC owner with its expiry.  cuts: denied name, expiry, the
   proof records stored with the cut *)
Record shared := mk_shared {
  sh_soa : option Z;
  sh_recs : list (cnsec * Z);
  sh_cuts : list (rname * Z * list cnsec)
}.
Definition shared_empty : shared := mk_shared None [] [].

Fixpoint reindex_from (i : nat) (l : list cnsec) : list cnsec :=
  match l with [] => [] | r :: t => mk_cnsec (c_owner r) (c_next r) (c_types r) (c_class r) i :: reindex_from (S i) t end.
Definition reindex_c := reindex_from O.

Definition same_owner (a b : cnsec) : bool := rname_eqb (c_owner a) (c_owner b).
(* denialProofCache.recordWithKind: every RRset replaces the entry with the same id *)
Definition put_rec (l : list (cnsec * Z)) (r : cnsec) (e : Z) : list (cnsec * Z) :=
  filter (fun x => negb (same_owner (fst x) r)) l ++ [(r, e)].
Definition put_recs (l : list (cnsec * Z)) (rs : list cnsec) (e : Z) : list (cnsec * Z) :=
  fold_left (fun acc r => put_rec acc r e) rs l.
Definition put_cut (l : list (rname * Z * list cnsec)) (d : rname) (e : Z) (rs : list cnsec) :=
  filter (fun x => negb (rname_eqb (fst (fst x)) d)) l ++ [(d, e, rs)].

(* RecordDenialProof + RecordNXDomainCut for one complete signed message whose every TTL bound
   gives the deadline e *)
Definition admit_proof (st : shared) (now : Z) (zone q : rname) (rcode : N) (rs : list cnsec) (e : Z) : shared :=
  if (e <=? now) || negb (prefix_b zone q) then st else
  match rs with
  | [] => st                                             (* no proof RRset: extract refuses *)
  | _ =>
    mk_shared (Some e) (put_recs (sh_recs st) rs e)
      (if (rcode =? 3)%N && negb (rname_eqb q zone) then put_cut (sh_cuts st) q e rs else sh_cuts st)
  end.

(* the downstream (resolver) response of an exchange *)
Inductive downstream :=
| DsPositive                                             (* an ordinary answer: nothing for the shared state *)
| DsNegative (rcode : N) (rs : list nsec) (ttl : Z)      (* NXDOMAIN / NODATA with SOA + these NSEC RRsets *)
             (marked aggressive res_cd : bool).          (* provenance attached? aggressive-eligible? CD in the response? *)

(* cache.ResponseWriter.WriteMsg: shared state is fed only with local provenance that is
   aggressive-eligible, for requests without ECS and without CD *)
Definition admission_guard (req_cd req_ecs marked aggressive res_cd : bool) : bool :=
  negb req_ecs && negb req_cd && negb res_cd && marked && aggressive.

Definition live_recs (now : Z) (l : list (cnsec * Z)) : list cnsec :=
  map fst (filter (fun x => now <? snd x) l).

Fixpoint find_cut (now : Z) (cuts : list (rname * Z * list cnsec)) (q : rname) (k : nat) : option (rname * Z * list cnsec) :=
  match k with
  | O => None
  | S k' =>
      match find (fun x => rname_eqb (fst (fst x)) (firstn k q)) cuts with
      | Some x => if now <? snd (fst x) then Some x else find_cut now cuts q k'
      | None => find_cut now cuts q k'
      end
  end.

Definition nth_recs (l : list cnsec) (idx : list nat) : list cnsec :=
  flat_map (fun i => match nth_error l i with Some r => [r] | None => [] end) idx.
Definition min_expiry (l : list (cnsec * Z)) (rs : list cnsec) (start : Z) : Z :=
  fold_left (fun acc r => match find (fun x => same_owner (fst x) r) l with
                          | Some x => Z.min acc (snd x) | None => acc end) rs start.

(* one client exchange through Cache.ServeDNS; returns the new state and what the client saw:
   None = the downstream answer, Some rcode = a denial synthesized from shared state *)
Definition exchange (maxttl : Z) (st : shared) (now : Z) (zone q : rname) (qtype : N) (cd ecs : bool) (ds : downstream)
  : shared * option N :=
  let from_downstream (st : shared) :=
    match ds with
    | DsPositive => (st, None)
    | DsNegative rcode rs ttl marked aggressive res_cd =>
        if admission_guard cd ecs marked aggressive res_cd
        then (admit_proof st now zone q rcode (canon_recs rs) (now + Z.min ttl maxttl), None)
        else (st, None)
    end in
  if cd || ecs then from_downstream st else
  match find_cut now (sh_cuts st) q (length q) with
  | Some (d, e, rs) =>
      (* subtree-cut hit: NXDOMAIN; the served proof is re-admitted with the cut's own deadline *)
      (admit_proof st now zone d 3%N rs e, Some 3%N)
  | None =>
      if negb (prefix_b zone q) then from_downstream st else     (* the zone is no ancestor: no candidate *)
      match sh_soa st with
      | Some se =>
          if now <? se then
            let live := live_recs now (sh_recs st) in
            match aggr_nsec q qtype 1%N zone (reindex_c live) with
            | A_deny rc proof =>
                let used := nth_recs live proof in
                let e := min_expiry (sh_recs st) used se in
                (admit_proof st now zone q rc used e, Some rc)
            | A_err _ => from_downstream st
            end
          else
            (* a zone without a live SOA is retired outright by the lookup that notices it *)
            from_downstream (mk_shared None [] (sh_cuts st))
      | None => from_downstream st
      end
  end.

(* histories *)
Inductive shop :=
| ShExchange (q : name) (qtype : N) (cd ecs : bool) (ds : downstream) (synth : option N)
| ShAdvance (s : Z).
