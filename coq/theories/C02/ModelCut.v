(* C02 — RFC 8020 subtree-cut cache: executable model of
   middleware/cache/nxdomain_cut.go (record with nxDomainCutProof, lookup)
   as reached through Store.RecordNXDomainCut / Store.LookupNXDomainCut.
   Definitions only.

   Time is a model clock in whole seconds (the code reads time.Now(); the
   driver advances it by shifting every stored instant).  The entry and byte
   limits (FIFO eviction) are not modelled: eviction only removes entries,
   and the driver stays far below the limits.  Messages are the family the
   driver generates: one question, at most one SOA at the zone apex, proof
   RRsets with distinct owners, at most one RRSIG per RRset. *)
From Sdns Require Import Common.Base Gen.C02 C02.Model.
Open Scope Z_scope.

(* an RRSIG over one RRset: signer is the zone?, class, TTL, original TTL, expiration - now *)
Record csig := mk_csig { g_signer_ok : bool; g_class : N; g_ttl : Z; g_origttl : Z; g_expire_in : Z }.
(* a denial RRset in the authority section *)
Record cproof := mk_cproof {
  f_nsec3 : bool;          (* NSEC3 (true) or NSEC (false) *)
  f_owner_in_zone : bool;  (* dnsname.Sub(zone, owner) *)
  f_class : N; f_ttl : Z;
  f_next_in_zone : bool;   (* NSEC only: NextDomain at or below the zone *)
  f_optout : bool;         (* NSEC3 only: flags & 1 *)
  f_sig : option csig
}.
Record cutmsg := mk_cutmsg {
  cm_rcode : N; cm_cd : bool; cm_qclass : N;
  cm_soa : option (N * Z * Z * option csig);   (* class, TTL, MINIMUM, RRSIG *)
  cm_proofs : list cproof
}.

Definition min_bounds (start : Z) (l : list Z) : Z := fold_left Z.min l start.

Definition sig_counts (soa_class : N) (s : option csig) : bool :=
  match s with Some g => g_signer_ok g && (g_class g =? soa_class)%N | None => false end.
Definition sig_bounds (s : option csig) : list Z :=
  match s with Some g => [g_ttl g; g_origttl g; g_expire_in g] | None => [] end.
(* nxDomainCutProof: None = rejected; Some bounds = the TTL bounds of the retained proof *)
Definition cut_proof (m : cutmsg) : option (list Z) :=
  (* HasNSEC3OptOut: any in-zone NSEC3 with Opt-Out *)
  if existsb (fun p => f_nsec3 p && f_owner_in_zone p && f_optout p) (cm_proofs m) then None else
  let use3 := existsb (fun p => f_nsec3 p && f_owner_in_zone p) (cm_proofs m) in
  match cm_soa m with
  | None => None
  | Some (sclass, sttl, smin, ssig) =>
      if negb (cm_qclass m =? sclass)%N then None else
      let cand := filter (fun p => f_owner_in_zone p && (f_class p =? sclass)%N) (cm_proofs m) in
      (* an in-zone NSEC whose NextDomain left the zone rejects the message (unless NSEC3 is in use) *)
      if negb use3 && existsb (fun p => negb (f_nsec3 p) && negb (f_next_in_zone p)) cand then None else
      let retained := filter (fun p => Bool.eqb (f_nsec3 p) use3) cand in
      match retained with
      | [] => None
      | _ =>
          if negb (sig_counts sclass ssig) then None
          else if negb (forallb (fun p => sig_counts sclass (f_sig p)) retained) then None
          else Some ([sttl; smin; sttl; smin] ++ sig_bounds ssig ++
                     flat_map (fun p => f_ttl p :: sig_bounds (f_sig p)) retained)
      end
  end.

(* state: (denied name, class, expiry instant) *)
Definition centry := (rname * N * Z)%type.
Definition cut_key_eqb (a : centry) (d : rname) (c : N) : bool := rname_eqb (fst (fst a)) d && (snd (fst a) =? c)%N.

(* nxDomainCutCache.record: returns the new state, or None when nothing is recorded *)
Definition cut_record (maxttl now : Z) (st : list centry) (m : cutmsg) (denied zone : rname) (cut_until : option Z)
  : option (list centry) :=
  if negb (cm_rcode m =? 3)%N || cm_cd m then None
  else match denied with
  | [] => None
  | _ =>
  if rname_eqb denied zone || negb (prefix_b zone denied) then None
  else match cut_proof m with
       | None => None
       | Some bounds =>
           let ttl := min_bounds maxttl (bounds ++ match cut_until with Some c => [c - now] | None => [] end) in
           if ttl <=? 0 then None
           else match cm_soa m with
                | Some (sclass, _, _, _) =>
                    Some (filter (fun e => negb (cut_key_eqb e denied sclass)) st ++ [(denied, sclass, now + ttl)])
                | None => None
                end
       end
  end.

(* nxDomainCutCache.lookup behind Store.LookupNXDomainCut: the closest unexpired denied
   ancestor-or-self, longest first; the root is never a candidate; CD=1 is always a miss *)
Fixpoint cut_walk (now : Z) (st : list centry) (q : rname) (qclass : N) (k : nat) : option rname :=
  match k with
  | O => None
  | S k' =>
      match find (fun e => cut_key_eqb e (firstn k q) qclass) st with
      | Some e => if now <? snd e then Some (firstn k q) else cut_walk now st q qclass k'
      | None => cut_walk now st q qclass k'
      end
  end.
Definition cut_lookup (now : Z) (st : list centry) (q : rname) (qclass : N) (cd : bool) : option rname :=
  if cd || (qclass =? 0)%N then None else cut_walk now st q qclass (length q).

(* nxDomainCutCache.purge behind Store.Purge: every cut at q or at a non-root ancestor of q, in
   the question's class, is removed (entries never sit at the root) *)
Definition cut_purge (st : list centry) (q : rname) (qclass : N) : list centry :=
  filter (fun e => negb (prefix_b (fst (fst e)) q && (snd (fst e) =? qclass)%N)) st.

(* histories *)
Inductive cutop :=
| OpRecord (m : cutmsg) (denied zone : name) (cut_until : option Z) (ok : bool)
| OpAdvance (s : Z)
| OpLookup (q : name) (qclass : N) (cd : bool) (found found_wire : option name)
| OpPurge (q : name) (qclass : N).
