(* C02 — NSEC3: the genuine hashed chain of a zone (with Opt-Out), for an
   abstract hash [H] assumed collision-free, and soundness of
   EvaluateAggressiveNSEC3 and of the three signer-bound verifiers for every
   sub-multiset of that chain. *)
From Sdns Require Import Common.Base Gen.C02 C02.Model C02.ModelNsec3 C02.Spec
  C02.Proofs_Order C02.Proofs_Nsec C02.Proofs_Spec C02.Proofs_NsecTop.
Open Scope N_scope.

(* ------------------------------------------------------------ lists *)
Lemma find_In {A} (f : A -> bool) l x : find f l = Some x -> In x l /\ f x = true.
Proof. apply find_some. Qed.
Lemma filter_nil_forall {A} (f : A -> bool) l : filter f l = [] -> forall x, In x l -> f x = false.
Proof.
  induction l as [|a l IH]; cbn; [intros _ x []|].
  destruct (f a) eqn:E; [discriminate|]. intros H x [->|Hx]; [exact E | apply IH; assumption].
Qed.
Lemma filter_singleton_In {A} (f : A -> bool) l c : filter f l = [c] -> In c l /\ f c = true.
Proof. intros H. apply filter_In. rewrite H. left. reflexivity. Qed.

(* exists_direct is closed under taking ancestors *)
Lemma exists_direct_prefix z p n : exists_direct z n -> is_prefix p n -> exists_direct z p.
Proof. intros [w [Hw Hn]] Hp. exists w. split; [exact Hw | eapply is_prefix_trans; eauto]. Qed.

Lemma firstn_prefix_of_firstn {A} (j k : nat) (q : list A) : (j <= k)%nat -> exists s, firstn k q = firstn j q ++ s.
Proof.
  intros Hjk. exists (skipn j (firstn k q)).
  rewrite <- (firstn_skipn j (firstn k q)) at 1. rewrite firstn_firstn.
  replace (Nat.min j k) with j by lia. reflexivity.
Qed.

Section Nsec3.
  (* the NSEC3 hash with the zone's salt and iteration count, as an injective function of the
     (canonical) name: the no-collision hypothesis *)
  Variable H : rname -> N.
  Hypothesis H_inj : forall a b, H a = H b -> a = b.

  Variable z : zone.
  Hypothesis Hwf : zone_wf z.

  (* the names that own an NSEC3 RR: every existing name (owner or empty non-terminal) except
     those left out under Opt-Out *)
  Variable hashed : rname -> Prop.
  Hypothesis hashed_exists : forall n, hashed n -> exists_direct z n.
  Hypothesis hashed_in_zone : forall n, hashed n -> is_prefix (z_apex z) n.
  (* a name of the zone that exists but owns no NSEC3 RR *)
  Definition hidden (n : rname) : Prop := is_prefix (z_apex z) n /\ exists_direct z n /\ ~ hashed n.

  Definition opt_out_flag (e : entry3) : bool := negb (N.land (e_flags e) 1 =? 0).

  (* a record of the genuine chain: owner hash of a hashed name, next hash of a hashed name,
     no hashed name strictly inside, Opt-Out set whenever an existing unhashed name lies
     inside, bitmap of the name (empty for an empty non-terminal) *)
  Definition genuine3 (e : entry3) : Prop :=
    exists n, hashed n /\ e_oh e = H n /\
      (exists n', hashed n' /\ e_nh e = H n') /\
      (forall m, hashed m -> covers3 e (H m) = false) /\
      (forall m, hidden m -> covers3 e (H m) = true -> opt_out_flag e = true) /\
      ((exists tys, In (n, tys) (z_nodes z) /\ e_types e = tys) \/ (~ owner z n /\ e_types e = [])).

  (* the table handed to the model is the hash *)
  Variable tab : htab.
  Hypothesis tab_ok : forall n v, hash_lookup tab n = Some v -> v = H n.

  Lemma match_exists e x : genuine3 e -> e_oh e = H x ->
    exists_direct z x /\
    ((exists tys, In (x, tys) (z_nodes z) /\ e_types e = tys) \/ (~ owner z x /\ e_types e = [])).
  Proof.
    intros [n [Hn [Ho [_ [_ [_ Ht]]]]]] E. rewrite Ho in E. apply H_inj in E. subst x.
    split; [apply hashed_exists, Hn | exact Ht].
  Qed.

  Lemma match_in_zone e x : genuine3 e -> e_oh e = H x -> is_prefix (z_apex z) x.
  Proof.
    intros [n [Hn [Ho _]]] E. rewrite Ho in E. apply H_inj in E. subst x. apply hashed_in_zone, Hn.
  Qed.

  Lemma cover_absent e x : genuine3 e -> is_prefix (z_apex z) x -> covers3 e (H x) = true -> opt_out_flag e = false ->
    ~ exists_direct z x.
  Proof.
    intros [n [Hn [Ho [_ [Hnone [Hhid _]]]]]] Hz Hc Hf Hex.
    assert (Hh : ~ hashed x) by (intros Hh; rewrite (Hnone x Hh) in Hc; discriminate).
    rewrite (Hhid x (conj Hz (conj Hex Hh)) Hc) in Hf. discriminate.
  Qed.

  (* names extending an in-zone prefix of q along q are in the zone *)
  Lemma in_zone_longer q j k : is_prefix (z_apex z) (firstn j q) -> (j <= k)%nat -> is_prefix (z_apex z) (firstn k q).
  Proof.
    intros Hz Hjk. eapply is_prefix_trans; [exact Hz|].
    destruct (firstn_prefix_of_firstn j k q Hjk) as [s0 ->]. exists s0. reflexivity.
  Qed.
  Lemma in_zone_star ce : is_prefix (z_apex z) ce -> is_prefix (z_apex z) (ce ++ [star]).
  Proof. intros [s0 ->]. exists (s0 ++ [star]). symmetry. apply app_assoc. Qed.

  (* an existing name that is not an owner is an empty non-terminal *)
  Lemma exists_not_owner_ent x : exists_direct z x -> ~ owner z x -> is_ent z x.
  Proof.
    intros [w [Hw Hp]] Hn. split; [exact Hn|]. exists w. split; [exact Hw|].
    destruct (is_prefix_strict_or_eq _ _ Hp) as [->|Hs]; [contradiction | exact Hs].
  Qed.

  (* a matched name whose bitmap is not a cut bitmap is not a cut of the zone *)
  Lemma match_not_cut e x tys :
    genuine3 e -> e_oh e = H x -> In (x, tys) (z_nodes z) -> cut_types tys -> cut_bitmap (e_types e) = true.
  Proof.
    intros Hg E Hin Hct. destruct (match_exists e x Hg E) as [_ [[tys' [Hin' Ety]]|[Hno _]]].
    - rewrite Ety. rewrite (proj1 (proj2 (proj2 Hwf)) _ _ _ Hin' Hin). apply cut_bitmap_spec, Hct.
    - exfalso. apply Hno. exists tys. exact Hin.
  Qed.

  (* ---- the closest-encloser argument shared by every NSEC3 proof:
     ce = firstn j q exists, its bitmap is no cut bitmap, and the next closer name firstn (S j) q
     does not exist.  Then ce is the closest encloser, q does not exist and is not below a cut. *)
  Lemma ce_argument q j m :
    (j < length q)%nat -> genuine3 m -> e_oh m = H (firstn j q) -> cut_bitmap (e_types m) = false ->
    ~ exists_direct z (firstn (S j) q) ->
    closest_encloser z q (firstn j q) /\ ~ exists_direct z q /\ ~ below_cut z q.
  Proof.
    intros Hj Hg Em Hnc Hnn.
    destruct (match_exists m _ Hg Em) as [Hce _].
    assert (Hsp : is_strict_prefix (firstn j q) q).
    { exists (skipn j q). split; [|symmetry; apply firstn_skipn].
      intros E. apply (f_equal (@length _)) in E. rewrite skipn_length in E. cbn in E. lia. }
    assert (Hmax : forall p, is_prefix p q -> exists_direct z p -> (length p <= j)%nat).
    { intros p Hp Hpe. destruct (Nat.le_gt_cases (length p) j) as [Hle|Hgt]; [exact Hle|]. exfalso.
      apply Hnn. apply (exists_direct_prefix z _ p Hpe).
      rewrite (is_prefix_eq_firstn p q Hp). destruct (firstn_prefix_of_firstn (S j) (length p) q ltac:(lia)) as [s ->].
      exists s. reflexivity. }
    split; [|split].
    - split; [exact Hsp|]. split; [exact Hce|]. intros p Hps Hpe.
      rewrite firstn_length. replace (Nat.min j (length q)) with j by lia.
      apply Hmax; [apply strict_is_prefix, Hps | exact Hpe].
    - intros Hq. pose proof (Hmax q (is_prefix_refl q) Hq). lia.
    - intros [d [tys [Hd [Hct Hs]]]].
      assert (Hdle : (length d <= j)%nat)
        by (apply Hmax; [apply strict_is_prefix, Hs | exists d; split; [eexists; exact Hd | apply is_prefix_refl]]).
      assert (Hdce : is_prefix d (firstn j q)).
      { apply (prefixes_comparable d (firstn j q) q (strict_is_prefix _ _ Hs) (is_prefix_firstn j q)).
        rewrite firstn_length. lia. }
      destruct (is_prefix_strict_or_eq _ _ Hdce) as [E|Hs'].
      + rewrite <- E in Em. rewrite (match_not_cut m d tys Hg Em Hd Hct) in Hnc. discriminate.
      + destruct Hce as [w [Hw Hpw]].
        apply (proj2 (proj2 (proj2 Hwf)) d tys w Hd Hct Hw).
        destruct Hs' as [s [Hs' E]]. destruct Hpw as [t ->]. exists (s ++ t).
        split; [destruct s; [congruence|discriminate] | rewrite E; symmetry; apply app_assoc].
  Qed.

  (* what a matched entry says about a NODATA answer at that name *)
  Lemma match_nodata e x qtype :
    genuine3 e -> e_oh e = H x -> exact_nodata_check qtype (e_types e) = E_ok ->
    (exists tys, In (x, tys) (z_nodes z) /\ node_lacks tys qtype) \/ is_ent z x.
  Proof.
    intros Hg E Hchk. destruct (match_exists e x Hg E) as [Hex [[tys [Hin Ety]]|[Hno _]]].
    - left. exists tys. split; [exact Hin|]. rewrite <- Ety. apply exact_nodata_check_ok, Hchk.
    - right. apply exists_not_owner_ent; assumption.
  Qed.

  (* ---------------------------------------------------------- aggressive evaluator *)
  Lemma lookup3a_match es v m c : lookup3a es v = Some (Some m, c) -> In m es /\ e_oh m = v.
  Proof.
    unfold lookup3a. destruct (find (fun e => e_oh e =? v) es) as [m0|] eqn:Ef.
    - destruct (filter _ es) as [|c0 [|c1 l]]; try discriminate.
      intros E. inversion E; subst. apply find_In in Ef. destruct Ef as [Hin Heq]. split; [exact Hin | apply N.eqb_eq, Heq].
    - destruct (filter _ es) as [|c0 [|c1 l]]; discriminate.
  Qed.
  Lemma lookup3a_cover es v c : lookup3a es v = Some (None, Some c) -> In c es /\ covers3 c v = true.
  Proof.
    unfold lookup3a. destruct (find (fun e => e_oh e =? v) es) as [m0|] eqn:Ef;
      destruct (filter (fun e => negb (e_oh e =? v) && covers3 e v) es) as [|c0 [|c1 l]] eqn:Efl; try discriminate.
    intros E. inversion E; subst. apply filter_singleton_In in Efl. destruct Efl as [Hin Hc].
    apply andb_true_iff in Hc. tauto.
  Qed.

  Definition entries_genuine (es : list entry3) : Prop := forall e, In e es -> genuine3 e.
  Definition rec_genuine3 (r : nsec3) : Prop := forall zone i e, entry_of zone i r = Some e -> genuine3 e.

  Lemma aggr3_scan_genuine zone qclass i recs first acc es :
    (forall r, In r recs -> rec_genuine3 r) -> entries_genuine acc ->
    aggr3_scan zone qclass i recs first acc = Some es -> entries_genuine es.
  Proof.
    revert i first acc. induction recs as [|r t IH]; intros i first acc Hr Hacc; cbn.
    - intros E. inversion E; subst. exact Hacc.
    - destruct (negb (nsec3_safe r) || negb (r_class r =? qclass)); [discriminate|].
      destruct (match first with Some f => _ | None => false end); [discriminate|].
      destruct (entry_of zone i r) as [e|] eqn:Ee; [|discriminate].
      destruct (find (fun x => e_oh x =? e_oh e) acc) as [x|].
      + destruct (same_identity x e); [|discriminate]. apply IH; [intros r' Hr'; apply Hr; right; exact Hr' | exact Hacc].
      + apply IH; [intros r' Hr'; apply Hr; right; exact Hr'|].
        intros e' He'. apply in_app_or in He'. destruct He' as [He'|[<-|[]]]; [apply Hacc, He'|].
        apply (Hr r (or_introl eq_refl) zone i e Ee).
  Qed.

  Lemma closest3a_spec es q zlen k m cen nc :
    closest3a es tab q zlen k = inr (m, cen, nc) ->
    exists j, (j <= k)%nat /\ cen = firstn j q /\ nc = firstn (S j) q /\ In m es /\ e_oh m = H (firstn j q).
  Proof.
    induction k as [|k IH]; cbn [closest3a].
    - destruct (hash_lookup tab (firstn 0 q)) as [v|] eqn:Eh; [|discriminate].
      destruct (lookup3a es v) as [[[m0|] c]|] eqn:El; try discriminate.
      intros E. inversion E; subst. exists O. destruct (lookup3a_match _ _ _ _ El) as [Hin Ho].
      repeat split; auto. rewrite Ho. apply tab_ok, Eh.
    - destruct (hash_lookup tab (firstn (S k) q)) as [v|] eqn:Eh; [|discriminate].
      destruct (lookup3a es v) as [[[m0|] c]|] eqn:El; try discriminate.
      + intros E. inversion E; subst. exists (S k). destruct (lookup3a_match _ _ _ _ El) as [Hin Ho].
        repeat split; auto. rewrite Ho. apply tab_ok, Eh.
      + destruct (S k <=? zlen)%nat; [discriminate|]. intros E. destruct (IH E) as [j [Hj Hrest]].
        exists j. split; [lia | exact Hrest].
  Qed.

  Lemma opt_out_a_flag e : opt_out_a e 1 = opt_out_flag e.
  Proof. reflexivity. Qed.

  Theorem aggr_nsec3_sound q qtype qclass signer recs :
    optout_mask_aggr_next = 1 -> optout_mask_aggr_wild = 1 ->
    (forall r, In r recs -> rec_genuine3 r) ->
    sound_verdict z q qtype (aggr_nsec3 q qtype qclass signer recs tab).
  Proof.
    intros Hm1 Hm2 Hrec. unfold aggr_nsec3. rewrite Hm1, Hm2.
    destruct (negb (question_ok qtype qclass)); [exact I|].
    destruct (negb (prefix_b signer q)); [exact I|].
    destruct recs as [|r0 t] eqn:Er; [exact I|]. rewrite <- Er in *.
    destruct (aggr3_scan signer qclass 0 recs None []) as [es|] eqn:Es; [|exact I].
    assert (Hes : entries_genuine es) by (eapply aggr3_scan_genuine; eauto; intros e []).
    destruct es as [|e0 es'] eqn:Ees; [exact I|]. rewrite <- Ees in *.
    destruct (hash_lookup tab q) as [qh|] eqn:Eqh; [|exact I]. apply tab_ok in Eqh. subst qh.
    destruct (lookup3a es (H q)) as [[[m|] c]|] eqn:El; [| |exact I].
    - (* exact match: NODATA *)
      destruct (lookup3a_match _ _ _ _ El) as [Hm Eo].
      destruct (negb (aggressive_nodata_type qtype)); [exact I|].
      destruct (exact_nodata_check qtype (e_types m)) eqn:Hchk; try exact I.
      right. split; [reflexivity|].
      destruct (match_exists m q (Hes m Hm) Eo) as [Hex _].
      split; [apply (exists_direct_not_below_cut z Hwf), Hex|].
      destruct (match_nodata m q qtype (Hes m Hm) Eo Hchk) as [Hl|Hl]; [left; exact Hl | right; left; exact Hl].
    - destruct (rname_eqb q signer); [exact I|].
      destruct (length q <=? length signer)%nat eqn:Elen; [exact I|]. apply Nat.leb_gt in Elen.
      destruct (closest3a es tab q (length signer) (length q - 1)) as [e|[[ce cen] nc]] eqn:Ec; [exact I|].
      destruct (closest3a_spec _ _ _ _ _ _ _ Ec) as [j [Hj [-> [-> [Hce Eceh]]]]].
      destruct (types_set (e_types ce) [T_DNAME] || (types_set (e_types ce) [T_NS] && negb (types_set (e_types ce) [T_SOA]))) eqn:Ecut; [exact I|].
      assert (Hncut : cut_bitmap (e_types ce) = false).
      { unfold cut_bitmap, deleg_bitmap. rewrite orb_comm. exact Ecut. }
      destruct (hash_lookup tab (firstn (S j) q)) as [nh|] eqn:Enh; [|exact I]. apply tab_ok in Enh. subst nh.
      destruct (lookup3a es (H (firstn (S j) q))) as [[[nm|] [ncov|]]|] eqn:Enl; try exact I.
      destruct (lookup3a_cover _ _ _ Enl) as [Hncov Hncovers].
      destruct (opt_out_a ncov 1) eqn:Eno; [exact I|]. rewrite opt_out_a_flag in Eno.
      pose proof (match_in_zone ce _ (Hes _ Hce) Eceh) as Hcez.
      assert (Hnn : ~ exists_direct z (firstn (S j) q))
        by (apply (cover_absent ncov _ (Hes _ Hncov) (in_zone_longer q j (S j) Hcez ltac:(lia)) Hncovers Eno)).
      assert (Hjq : (j < length q)%nat) by lia.
      destruct (ce_argument q j ce Hjq (Hes _ Hce) Eceh Hncut Hnn) as [Hclo [Hnq Hnb]].
      destruct (hash_lookup tab (firstn j q ++ [star])) as [wh|] eqn:Ewh; [|exact I]. apply tab_ok in Ewh. subst wh.
      destruct (lookup3a es (H (firstn j q ++ [star]))) as [[wm wc]|] eqn:Ewl; [|exact I].
      destruct wm as [w|].
      + (* wildcard NODATA *)
        destruct (lookup3a_match _ _ _ _ Ewl) as [Hw Ewo].
        destruct (negb (aggressive_nodata_type qtype) || (qtype =? T_DS)); [exact I|].
        destruct (cut_bitmap (e_types w)); [exact I|].
        destruct (exact_nodata_check qtype (e_types w)) eqn:Hchk; try exact I.
        right. split; [reflexivity|]. split; [exact Hnb|]. right; right. split; [exact Hnq|].
        exists (firstn j q). split; [exact Hclo|].
        exact (match_nodata w _ qtype (Hes _ Hw) Ewo Hchk).
      + destruct wc as [c0|]; [|exact I].
        destruct (lookup3a_cover _ _ _ Ewl) as [Hc0 Hc0c].
        destruct (opt_out_a c0 1) eqn:Ewo; [exact I|]. rewrite opt_out_a_flag in Ewo.
        left. split; [reflexivity|].
        assert (Hwn : ~ exists_direct z (firstn j q ++ [star]))
          by (apply (cover_absent c0 _ (Hes _ Hc0) (in_zone_star _ Hcez) Hc0c Ewo)).
        intros [He|[He|[_ [ce' [Hc' He']]]]]; [exact (Hnq He) | exact (Hnb He)|].
        rewrite (closest_encloser_unique z Hwf q ce' _ Hc' Hclo) in He'. exact (Hwn He').
  Qed.

  (* Opt-Out never supports a shared denial: a name that exists but was left out of the chain
     (an unsigned delegation under Opt-Out) is never answered NXDOMAIN *)
  Corollary optout_never_denies_hidden q qtype qclass signer recs proof :
    optout_mask_aggr_next = 1 -> optout_mask_aggr_wild = 1 ->
    (forall r, In r recs -> rec_genuine3 r) -> hidden q ->
    aggr_nsec3 q qtype qclass signer recs tab <> A_deny RC_NXDOMAIN proof.
  Proof.
    intros Hm1 Hm2 Hrec [_ [Hex _]] E. pose proof (aggr_nsec3_sound q qtype qclass signer recs Hm1 Hm2 Hrec) as Hs.
    rewrite E in Hs. cbn in Hs. destruct Hs as [[_ Hn]|[Hc _]]; [apply Hn; left; exact Hex | discriminate].
  Qed.

  (* ---------------------------------------------------------- the exact (ring) verifiers *)
  Lemma prepare_scan_genuine zone i recs first acc f es :
    (forall r, In r recs -> rec_genuine3 r) -> entries_genuine acc ->
    prepare_scan zone i recs first acc = Some (f, es) -> entries_genuine es.
  Proof.
    revert i first acc. induction recs as [|r t IH]; intros i first acc Hr Hacc; cbn.
    - intros E. inversion E; subst. exact Hacc.
    - assert (Ht : forall r', In r' t -> rec_genuine3 r') by (intros r' Hr'; apply Hr; right; exact Hr').
      destruct (negb (nsec3_safe r)); [apply IH; assumption|].
      destruct (r_class r =? 0); [discriminate|].
      destruct first as [f0|].
      + destruct (negb (r_class r =? r_class f0) || negb (r_iter r =? r_iter f0) || negb (salt_eqb (r_salt r) (r_salt f0))); [discriminate|].
        destruct (entry_of zone i r) as [e|] eqn:Ee; [|discriminate].
        destruct (find (fun x => e_oh x =? e_oh e) acc) as [x|].
        * destruct (same_identity x e); [|discriminate]. apply IH; assumption.
        * apply IH; [exact Ht|]. intros e' He'. apply in_app_or in He'. destruct He' as [He'|[<-|[]]]; [apply Hacc, He'|].
          apply (Hr r (or_introl eq_refl) zone i e Ee).
      + destruct (entry_of zone i r) as [e|] eqn:Ee; [|discriminate].
        apply IH; [exact Ht|]. intros e' He'. apply in_app_or in He'. destruct He' as [He'|[<-|[]]]; [apply Hacc, He'|].
        apply (Hr r (or_introl eq_refl) zone i e Ee).
  Qed.

  Lemma prepare_set_genuine recs signer g :
    (forall r, In r recs -> rec_genuine3 r) -> prepare_set recs signer = Some g -> entries_genuine (g_entries g).
  Proof.
    intros Hr. unfold prepare_set. destruct (prepare_scan signer 0 recs None []) as [[[f|] [|e es]]|] eqn:E; try discriminate.
    intros Eg. inversion Eg; subst. cbn. eapply prepare_scan_genuine; eauto. intros e' [].
  Qed.

  Lemma lookup3_match g n m c : lookup3 g tab n = LK (Some m) c -> In m (g_entries g) /\ e_oh m = H n.
  Proof.
    unfold lookup3. destruct (negb (prefix_b (g_zone g) n)); [discriminate|].
    destruct (hash_lookup tab n) as [v|] eqn:Eh; [|discriminate]. apply tab_ok in Eh. subst v.
    destruct (find (fun e => e_oh e =? H n) (g_entries g)) as [m0|] eqn:Ef;
      destruct (filter _ (g_entries g)) as [|c0 [|c1 l]]; try discriminate.
    intros E. inversion E; subst. apply find_In in Ef. destruct Ef as [Hin Heq]. split; [exact Hin | apply N.eqb_eq, Heq].
  Qed.
  Lemma lookup3_cover g n m c : lookup3 g tab n = LK m (Some c) -> In c (g_entries g) /\ covers3 c (H n) = true.
  Proof.
    unfold lookup3. destruct (negb (prefix_b (g_zone g) n)); [discriminate|].
    destruct (hash_lookup tab n) as [v|] eqn:Eh; [|discriminate]. apply tab_ok in Eh. subst v.
    destruct (find (fun e => e_oh e =? H n) (g_entries g)) as [m0|] eqn:Ef;
      destruct (filter (fun e => negb (e_oh e =? H n) && covers3 e (H n)) (g_entries g)) as [|c0 [|c1 l]] eqn:Efl; try discriminate.
    intros E. inversion E; subst. apply filter_singleton_In in Efl. destruct Efl as [Hin Hc].
    apply andb_true_iff in Hc. tauto.
  Qed.

  Lemma find_matching_spec g n tys : find_matching g tab n = inr tys ->
    exists m, In m (g_entries g) /\ e_oh m = H n /\ tys = e_types m.
  Proof.
    unfold find_matching. destruct (lookup3 g tab n) as [e|[m|] c] eqn:El; try discriminate.
    intros E. inversion E; subst. destruct (lookup3_match _ _ _ _ El) as [Hin Ho]. exists m. auto.
  Qed.
  Lemma find_coverer_spec g n oo : find_coverer g tab n = inr oo ->
    exists c, In c (g_entries g) /\ covers3 c (H n) = true /\ oo = opt_out c.
  Proof.
    unfold find_coverer. destruct (lookup3 g tab n) as [e|m [c|]] eqn:El; try discriminate.
    intros E. inversion E; subst. destruct (lookup3_cover _ _ _ _ El) as [Hin Hc]. exists c. auto.
  Qed.

  (* errors are never E_ok *)
  Lemma lookup3_err g n e : lookup3 g tab n = LK_err e -> e <> E_ok.
  Proof.
    unfold lookup3. destruct (negb (prefix_b (g_zone g) n)); [intros E; inversion E; discriminate|].
    destruct (hash_lookup tab n); [|intros E; inversion E; discriminate].
    destruct (find _ (g_entries g)); destruct (filter _ (g_entries g)) as [|c0 [|c1 l]];
      intros E; inversion E; discriminate.
  Qed.
  Lemma find_matching_err g n e : find_matching g tab n = inl e -> e <> E_ok.
  Proof.
    unfold find_matching. destruct (lookup3 g tab n) as [e0|[m|] c] eqn:El; intros E; inversion E; subst;
      [eapply lookup3_err; eauto | discriminate].
  Qed.
  Lemma find_coverer_err g n e : find_coverer g tab n = inl e -> e <> E_ok.
  Proof.
    unfold find_coverer. destruct (lookup3 g tab n) as [e0|m [c|]] eqn:El; intros E; inversion E; subst;
      [eapply lookup3_err; eauto | discriminate].
  Qed.
  Lemma closest3_err g q k e : closest3 g tab q k = inl e -> e <> E_ok.
  Proof.
    induction k as [|k IH]; cbn [closest3]; [discriminate|].
    destruct (find_matching g tab (firstn (S k) q)) as [e0|tys0] eqn:Ef; [|discriminate].
    pose proof (find_matching_err _ _ _ Ef). destruct e0; try (intros E; inversion E; subst; assumption). exact IH.
  Qed.
  Lemma closest_validated_err g q e : closest_validated g tab q = inl e -> e <> E_ok.
  Proof.
    unfold closest_validated. destruct (closest3 g tab q (length q)) as [e0|[[[ce0 nc0] tys]|]] eqn:Ec.
    - intros E. inversion E; subst. eapply closest3_err; eauto.
    - cbn. destruct (_ || _); intros E; inversion E; discriminate.
    - cbn. intros E. inversion E. discriminate.
  Qed.

  Lemma closest3_spec g q k ce nc tys :
    closest3 g tab q k = inr (Some (ce, nc, tys)) ->
    exists j m, (1 <= j <= k)%nat /\ ce = firstn j q /\ nc = firstn (S j) q /\
                In m (g_entries g) /\ e_oh m = H (firstn j q) /\ tys = e_types m.
  Proof.
    induction k as [|k IH]; cbn [closest3]; [discriminate|].
    destruct (find_matching g tab (firstn (S k) q)) as [e|tys0] eqn:Ef.
    - destruct e; try discriminate. intros E. destruct (IH E) as [j [m [Hj Hrest]]]. exists j, m. split; [lia | exact Hrest].
    - intros E. inversion E; subst. destruct (find_matching_spec _ _ _ Ef) as [m [Hin [Ho Ht]]].
      exists (S k), m. repeat split; auto; lia.
  Qed.

  Lemma closest_validated_spec g q ce nc :
    closest_validated g tab q = inr (ce, nc) ->
    exists j m, (1 <= j <= length q)%nat /\ ce = firstn j q /\ nc = firstn (S j) q /\
                In m (g_entries g) /\ e_oh m = H (firstn j q) /\ cut_bitmap (e_types m) = false.
  Proof.
    unfold closest_validated. destruct (closest3 g tab q (length q)) as [e|[[[ce0 nc0] tys]|]] eqn:Ec; try discriminate.
    cbn. destruct (types_set tys [T_DNAME] || (types_set tys [T_NS] && negb (types_set tys [T_SOA]))) eqn:Ecut; [discriminate|].
    intros E. inversion E; subst. destruct (closest3_spec _ _ _ _ _ _ Ec) as [j [m [Hj [-> [-> [Hin [Ho ->]]]]]]].
    exists j, m. repeat split; auto; try lia. unfold cut_bitmap, deleg_bitmap. rewrite orb_comm. exact Ecut.
  Qed.

  (* the closest encloser found by the walk is a PROPER ancestor once its next closer name is
     covered: a covered name is not the owner of a record *)
  Lemma covered_not_matched es c x m :
    entries_genuine es -> In c es -> In m es -> covers3 c (H x) = true -> e_oh m = H x -> False.
  Proof.
    intros Hes Hc Hm Hcov Eo. destruct (Hes m Hm) as [n [Hn [Ho _]]].
    rewrite Ho in Eo. apply H_inj in Eo. subst x.
    destruct (Hes c Hc) as [n' [_ [_ [_ [Hnone _]]]]]. rewrite (Hnone n Hn) in Hcov. discriminate.
  Qed.

  Hypothesis mask_exact : optout_mask_exact = 1.
  Lemma opt_out_is_flag e : opt_out e = opt_out_flag e.
  Proof. unfold opt_out, opt_out_flag. rewrite mask_exact. reflexivity. Qed.

  (* Opt-Out leaves out only unsigned delegations (and the empty non-terminals above them),
     and never a wildcard name *)
  Hypothesis hidden_unsigned : forall n, hidden n -> forall w tys, In (w, tys) (z_nodes z) -> is_prefix n w ->
    In T_NS tys /\ ~ In T_DS tys /\ ~ In T_SOA tys.
  Hypothesis hidden_not_wildcard : forall ce, ~ hidden (ce ++ [star]).

  (* a covered wildcard does not exist, whatever the covering record's flags *)
  Lemma covered_wildcard_absent es c ce :
    entries_genuine es -> In c es -> is_prefix (z_apex z) ce -> covers3 c (H (ce ++ [star])) = true ->
    ~ exists_direct z (ce ++ [star]).
  Proof.
    intros Hes Hc Hz Hcov Hex. apply (hidden_not_wildcard ce). split; [apply in_zone_star, Hz|]. split; [exact Hex|]. intros Hh.
    destruct (Hes c Hc) as [n' [_ [_ [_ [Hnone _]]]]]. rewrite (Hnone _ Hh) in Hcov. discriminate.
  Qed.

  (* VerifyNameErrorForZoneWithWork: an authenticated (secure) NXDOMAIN is true *)
  Theorem nsec3_nameerror_sound q qclass recs signer :
    (forall r, In r recs -> rec_genuine3 r) ->
    verify_nameerror_nsec3 q qclass recs signer tab = (E_ok, true) -> ~ exists_in z q.
  Proof.
    intros Hrec. unfold verify_nameerror_nsec3.
    destruct (prepare_set recs signer) as [g|] eqn:Ep; [|discriminate].
    pose proof (prepare_set_genuine _ _ _ Hrec Ep) as Hes.
    destruct (negb (g_class g =? qclass)); [discriminate|].
    destruct (closest_validated g tab q) as [e|[ce nc]] eqn:Ec; [discriminate|].
    destruct (closest_validated_spec _ _ _ _ Ec) as [j [m [Hj [-> [-> [Hm [Eo Hncut]]]]]]].
    destruct (find_coverer g tab (firstn (S j) q)) as [e|oo] eqn:En; [discriminate|].
    destruct (find_coverer_spec _ _ _ En) as [c [Hc [Hcov ->]]].
    destruct (find_coverer g tab (firstn j q ++ [star])) as [e|wo] eqn:Ew; [discriminate|].
    destruct (find_coverer_spec _ _ _ Ew) as [wc [Hwc [Hwcov _]]].
    intros E. inversion E as [Hsec]. apply negb_true_iff in Hsec. rewrite opt_out_is_flag in Hsec.
    assert (Hjq : (j < length q)%nat).
    { destruct (Nat.eq_dec j (length q)) as [->|Hne]; [|lia]. exfalso.
      rewrite (firstn_all2 q) in Hcov by lia. rewrite firstn_all in Eo.
      exact (covered_not_matched _ c q m Hes Hc Hm Hcov Eo). }
    pose proof (match_in_zone m _ (Hes _ Hm) Eo) as Hcez.
    assert (Hnn : ~ exists_direct z (firstn (S j) q))
      by (apply (cover_absent c _ (Hes _ Hc) (in_zone_longer q j (S j) Hcez ltac:(lia)) Hcov Hsec)).
    destruct (ce_argument q j m Hjq (Hes _ Hm) Eo Hncut Hnn) as [Hclo [Hnq Hnb]].
    pose proof (covered_wildcard_absent _ wc (firstn j q) Hes Hwc Hcez Hwcov) as Hwn.
    intros [He|[He|[_ [ce' [Hc' He']]]]]; [exact (Hnq He) | exact (Hnb He)|].
    rewrite (closest_encloser_unique z Hwf q ce' _ Hc' Hclo) in He'. exact (Hwn He').
  Qed.

  (* VerifyNODATAForZoneWithWork: an authenticated NODATA is true — with fix.patch (fx = true)
     outright; on the current code (fx = false) unless the name is a delegation point queried
     for a type other than DS (finding nsec3-nodata-at-delegation).  Wildcard owners are
     assumed not to be delegation points (RFC 4592 §4.2). *)
  Theorem nsec3_nodata_sound fx q qtype qclass recs signer :
    (forall r, In r recs -> rec_genuine3 r) ->
    (forall ce tys, In (ce ++ [star], tys) (z_nodes z) -> ~ (In T_NS tys /\ ~ In T_SOA tys)) ->
    (fx = false -> qtype <> T_DS -> forall tys, In (q, tys) (z_nodes z) -> ~ (In T_NS tys /\ ~ In T_SOA tys)) ->
    verify_nodata_nsec3_gen fx q qtype qclass recs signer tab = (E_ok, true) -> nodata_true z q qtype.
  Proof.
    intros Hrec Hwd Hfx. unfold verify_nodata_nsec3_gen.
    destruct (prepare_set recs signer) as [g|] eqn:Ep; [|discriminate].
    pose proof (prepare_set_genuine _ _ _ Hrec Ep) as Hes.
    destruct (negb (g_class g =? qclass)); [discriminate|].
    destruct (find_matching g tab q) as [e|tys] eqn:Ef.
    - destruct e; try discriminate.
      destruct (closest_validated g tab q) as [e|[ce nc]] eqn:Ec; [discriminate|].
      destruct (closest_validated_spec _ _ _ _ Ec) as [j [m [Hj [-> [-> [Hm [Eo Hncut]]]]]]].
      destruct (find_coverer g tab (firstn (S j) q)) as [e|oo] eqn:En; [discriminate|].
      destruct (find_coverer_spec _ _ _ En) as [c [Hc [Hcov ->]]].
      destruct (qtype =? T_DS) eqn:Eds; [destruct (opt_out c); discriminate|].
      destruct (find_matching g tab (firstn j q ++ [star])) as [e|wtys] eqn:Ew; [discriminate|].
      destruct (find_matching_spec _ _ _ Ew) as [w [Hw [Ewo ->]]].
      destruct (types_set (e_types w) [qtype; T_CNAME]) eqn:Ety; [discriminate|].
      intros E. inversion E as [Hsec]. apply negb_true_iff in Hsec. rewrite opt_out_is_flag in Hsec.
      assert (Hjq : (j < length q)%nat).
      { destruct (Nat.eq_dec j (length q)) as [->|Hne]; [|lia]. exfalso.
        rewrite (firstn_all2 q) in Hcov by lia. rewrite firstn_all in Eo.
        exact (covered_not_matched _ c q m Hes Hc Hm Hcov Eo). }
      pose proof (match_in_zone m _ (Hes _ Hm) Eo) as Hcez.
      assert (Hnn : ~ exists_direct z (firstn (S j) q))
        by (apply (cover_absent c _ (Hes _ Hc) (in_zone_longer q j (S j) Hcez ltac:(lia)) Hcov Hsec)).
      destruct (ce_argument q j m Hjq (Hes _ Hm) Eo Hncut Hnn) as [Hclo [Hnq Hnb]].
      split; [exact Hnb|]. right; right. split; [exact Hnq|]. exists (firstn j q). split; [exact Hclo|].
      destruct (match_exists w _ (Hes _ Hw) Ewo) as [Hwex [[tys [Hin Et]]|[Hno _]]].
      + left. exists tys. split; [exact Hin|]. rewrite <- Et.
        assert (H1 : ~ (In qtype (e_types w) \/ In T_CNAME (e_types w))) by (rewrite <- types_set2, Ety; discriminate).
        apply N.eqb_neq in Eds. repeat split; try tauto. intros _. rewrite Et. apply (Hwd _ _ Hin).
      + right. apply exists_not_owner_ent; assumption.
    - (* exact match *)
      destruct (find_matching_spec _ _ _ Ef) as [m [Hm [Eo ->]]].
      destruct (types_set (e_types m) [qtype; T_CNAME]) eqn:Ety; [discriminate|].
      destruct ((qtype =? T_DS) && types_set (e_types m) [T_SOA]) eqn:Eds; [discriminate|].
      destruct (fx && negb (qtype =? T_DS) && deleg_bitmap (e_types m)) eqn:Efx; [discriminate|]. intros _.
      destruct (match_exists m q (Hes _ Hm) Eo) as [Hex Hty].
      split; [apply (exists_direct_not_below_cut z Hwf), Hex|].
      destruct Hty as [[tys [Hin Et]]|[Hno _]]; [|right; left; apply exists_not_owner_ent; assumption].
      left. exists tys. split; [exact Hin|]. rewrite <- Et.
      assert (H1 : ~ (In qtype (e_types m) \/ In T_CNAME (e_types m))) by (rewrite <- types_set2, Ety; discriminate).
      repeat split; try tauto.
      + intros ->. rewrite N.eqb_refl in Eds. cbn in Eds. apply types_set1_false, Eds.
      + intros Hne Hd. destruct fx.
        * apply deleg_bitmap_spec in Hd. rewrite Hd in Efx. cbn in Efx. rewrite andb_true_r in Efx.
          apply negb_false_iff, N.eqb_eq in Efx. contradiction.
        * rewrite Et in Hd. exact (Hfx eq_refl Hne tys Hin Hd).
  Qed.

  (* VerifyDelegationForZoneWithWork: an accepted "no DS, insecure delegation" proof is true of
     every owner of the zone it is accepted for *)
  Theorem nsec3_delegation_sound d recs signer :
    (forall r, In r recs -> rec_genuine3 r) ->
    verify_delegation_nsec3 d recs signer tab = E_ok ->
    forall tys, In (d, tys) (z_nodes z) -> In T_NS tys /\ ~ In T_DS tys /\ ~ In T_SOA tys.
  Proof.
    intros Hrec. unfold verify_delegation_nsec3.
    destruct (prepare_set recs signer) as [g|] eqn:Ep; [|discriminate].
    pose proof (prepare_set_genuine _ _ _ Hrec Ep) as Hes.
    destruct (find_matching g tab d) as [e|mt] eqn:Ef.
    - pose proof (find_matching_err _ _ _ Ef) as Hne.
      destruct e; try (intros E; exfalso; apply Hne; exact E).
      destruct (closest_validated g tab d) as [e|[ce nc]] eqn:Ec;
        [intros E; exfalso; exact (closest_validated_err _ _ _ Ec E)|].
      destruct (closest_validated_spec _ _ _ _ Ec) as [j [m [Hj [-> [-> [Hm [Eo Hncut]]]]]]].
      destruct (find_coverer g tab (firstn (S j) d)) as [e|oo] eqn:En;
        [intros E; exfalso; exact (find_coverer_err _ _ _ En E)|].
      destruct (find_coverer_spec _ _ _ En) as [c [Hc [Hcov ->]]].
      destruct (opt_out c); [|discriminate]. intros _ tys Hin.
      (* the covered next closer name is an ancestor-or-self of d; it exists (d does) and is not
         hashed, so Opt-Out hides it and everything owned below it is an unsigned delegation *)
      assert (Hnc : is_prefix (firstn (S j) d) d) by apply is_prefix_firstn.
      assert (Hex : exists_direct z (firstn (S j) d)).
      { exists d. split; [exists tys; exact Hin | exact Hnc]. }
      assert (Hnh : ~ hashed (firstn (S j) d)).
      { intros Hh. destruct (Hes c Hc) as [n' [_ [_ [_ [Hnone _]]]]]. rewrite (Hnone _ Hh) in Hcov. discriminate. }
      pose proof (match_in_zone m _ (Hes _ Hm) Eo) as Hcez.
      exact (hidden_unsigned _ (conj (in_zone_longer d j (S j) Hcez ltac:(lia)) (conj Hex Hnh)) d tys Hin Hnc).
    - destruct (find_matching_spec _ _ _ Ef) as [m [Hm [Eo ->]]].
      destruct (negb (types_set (e_types m) [T_NS])) eqn:E1; [discriminate|].
      destruct (types_set (e_types m) [T_DS; T_SOA]) eqn:E2; [discriminate|]. intros _ tys Hin.
      destruct (match_exists m d (Hes _ Hm) Eo) as [_ [[tys' [Hin' Et]]|[Hno _]]].
      + rewrite (proj1 (proj2 (proj2 Hwf)) _ _ _ Hin Hin'), <- Et.
        apply negb_false_iff, types_set1 in E1.
        assert (H2 : ~ (In T_DS (e_types m) \/ In T_SOA (e_types m))) by (rewrite <- types_set2, E2; discriminate).
        tauto.
      + exfalso. apply Hno. exists tys. exact Hin.
  Qed.
End Nsec3.

(* ------------------------------------------------------------ packaged statements *)
(* the NSEC3 setting: a collision-free hash, a well-formed zone, the set of names that own an
   NSEC3 RR (all of which exist and lie in the zone), and a hash table that is the hash *)
Definition nsec3_world (H : rname -> N) (z : zone) (hashed : rname -> Prop) (tab : htab) : Prop :=
  (forall a b, H a = H b -> a = b) /\ zone_wf z /\
  (forall n, hashed n -> exists_direct z n) /\
  (forall n, hashed n -> is_prefix (z_apex z) n) /\
  (forall n v, hash_lookup tab n = Some v -> v = H n).
(* RFC 5155 Opt-Out: only unsigned delegations (and the empty non-terminals that exist because
   of them) are left out of the chain; a wildcard name is never left out *)
Definition optout_discipline (z : zone) (hashed : rname -> Prop) : Prop :=
  (forall n, hidden z hashed n -> forall w tys, In (w, tys) (z_nodes z) -> is_prefix n w ->
     In T_NS tys /\ ~ In T_DS tys /\ ~ In T_SOA tys) /\
  (forall ce, ~ hidden z hashed (ce ++ [star])).
Definition optout_masks_are_bit0 : Prop :=
  optout_mask_aggr_next = 1 /\ optout_mask_aggr_wild = 1 /\ optout_mask_exact = 1.
Definition all_genuine3 H z hashed (recs : list nsec3) : Prop := forall r, In r recs -> rec_genuine3 H z hashed r.
Definition wildcards_not_delegations (z : zone) : Prop :=
  forall ce tys, In (ce ++ [star], tys) (z_nodes z) -> ~ (In T_NS tys /\ ~ In T_SOA tys).

Theorem aggressive_nsec3_sound_pk H z hashed tab recs q qtype qclass signer :
  nsec3_world H z hashed tab -> optout_masks_are_bit0 -> all_genuine3 H z hashed recs ->
  sound_verdict z q qtype (aggr_nsec3 q qtype qclass signer recs tab).
Proof. intros [H1 [H2 [H3 [H3' H4]]]] [M1 [M2 _]] Hg. eapply aggr_nsec3_sound; eauto. Qed.

Theorem optout_never_shared_pk H z hashed tab recs q qtype qclass signer proof :
  nsec3_world H z hashed tab -> optout_masks_are_bit0 -> all_genuine3 H z hashed recs ->
  hidden z hashed q -> aggr_nsec3 q qtype qclass signer recs tab <> A_deny RC_NXDOMAIN proof.
Proof. intros [H1 [H2 [H3 [H3' H4]]]] [M1 [M2 _]] Hg. eapply optout_never_denies_hidden; eauto. Qed.

Theorem nsec3_nameerror_sound_pk H z hashed tab recs q qclass signer :
  nsec3_world H z hashed tab -> optout_masks_are_bit0 -> optout_discipline z hashed ->
  all_genuine3 H z hashed recs ->
  verify_nameerror_nsec3 q qclass recs signer tab = (E_ok, true) -> ~ exists_in z q.
Proof. intros [H1 [H2 [H3 [H3' H4]]]] [_ [_ M3]] [D1 D2] Hg. eapply nsec3_nameerror_sound; eauto. Qed.

Theorem nsec3_nodata_sound_pk H z hashed tab recs fx q qtype qclass signer :
  nsec3_world H z hashed tab -> optout_masks_are_bit0 -> optout_discipline z hashed ->
  all_genuine3 H z hashed recs -> wildcards_not_delegations z ->
  (fx = false -> qtype <> T_DS -> forall tys, In (q, tys) (z_nodes z) -> ~ (In T_NS tys /\ ~ In T_SOA tys)) ->
  verify_nodata_nsec3_gen fx q qtype qclass recs signer tab = (E_ok, true) -> nodata_true z q qtype.
Proof. intros [H1 [H2 [H3 [H3' H4]]]] [_ [_ M3]] [D1 D2] Hg Hw Hfx. eapply nsec3_nodata_sound; eauto. Qed.

Theorem nsec3_delegation_sound_pk H z hashed tab recs d signer :
  nsec3_world H z hashed tab -> optout_masks_are_bit0 -> optout_discipline z hashed -> all_genuine3 H z hashed recs ->
  verify_delegation_nsec3 d recs signer tab = E_ok ->
  forall tys, In (d, tys) (z_nodes z) -> In T_NS tys /\ ~ In T_DS tys /\ ~ In T_SOA tys.
Proof.
  intros [H1 [H2 [H3 [H3' H4]]]] [_ [_ M3]] [D1 D2] Hg Hv.
  eapply (nsec3_delegation_sound H H1 z H2 hashed); eauto.
Qed.

(* a set is refused (every failure is an error, never a denial) unless all usable records agree:
   what prepare_set / the aggressive scan accepted has one class, one parameter tuple, one zone *)
Lemma aggr3_scan_homogeneous zone qclass i recs first acc es :
  aggr3_scan zone qclass i recs first acc = Some es ->
  forall r, In r recs ->
    nsec3_safe r = true /\ r_class r = qclass /\ rname_eqb (canon (r_zone r)) zone = true /\
    match first with Some f => r_iter r = r_iter f /\ r_salt r = r_salt f | None => True end.
Proof.
  revert i first acc. induction recs as [|r0 t IH]; intros i first acc; cbn; [intros _ r []|].
  destruct (nsec3_safe r0) eqn:Es; cbn; [|discriminate].
  destruct (r_class r0 =? qclass) eqn:Ec; cbn; [|discriminate].
  destruct (match first with Some f => _ | None => false end) eqn:Ep; [discriminate|].
  destruct (entry_of zone i r0) as [e|] eqn:Ee; [|discriminate].
  assert (Hz : rname_eqb (canon (r_zone r0)) zone = true).
  { unfold entry_of in Ee. destruct (rname_eqb (canon (r_zone r0)) zone); [reflexivity | discriminate]. }
  assert (Hp : match first with Some f => r_iter r0 = r_iter f /\ r_salt r0 = r_salt f | None => True end).
  { destruct first as [f|]; [|exact I]. apply orb_false_iff in Ep. destruct Ep as [E1 E2].
    apply negb_false_iff in E1, E2. split; [apply N.eqb_eq, E1 | apply (list_eqb_spec N.eqb N.eqb_eq), E2]. }
  intros H r [<-|Hr].
  - repeat split; auto. apply N.eqb_eq, Ec.
  - destruct (find (fun x => e_oh x =? e_oh e) acc) as [x|].
    + destruct (same_identity x e); [|discriminate].
      destruct (IH _ _ _ H r Hr) as [A [B [C D]]]. repeat split; auto.
      destruct first as [f|]; [exact D | exact I].
    + destruct (IH _ _ _ H r Hr) as [A [B [C D]]]. repeat split; auto.
      destruct first as [f|]; [exact D | exact I].
Qed.

Theorem aggr_nsec3_refuses_mixtures q qtype qclass signer recs tab rc proof :
  aggr_nsec3 q qtype qclass signer recs tab = A_deny rc proof ->
  question_ok qtype qclass = true /\ prefix_b signer q = true /\
  forall r, In r recs -> nsec3_safe r = true /\ r_class r = qclass /\ rname_eqb (canon (r_zone r)) signer = true.
Proof.
  unfold aggr_nsec3.
  destruct (question_ok qtype qclass); cbn; [|discriminate].
  destruct (prefix_b signer q); cbn; [|discriminate].
  destruct recs as [|r0 t] eqn:Er; [discriminate|]. rewrite <- Er in *.
  destruct (aggr3_scan signer qclass 0 recs None []) as [es|] eqn:Es; [|discriminate].
  intros _. split; [reflexivity|]. split; [reflexivity|]. intros r Hr.
  destruct (aggr3_scan_homogeneous _ _ _ _ _ _ _ Es r Hr) as [A [B [C _]]]. auto.
Qed.

(* ---- incomplete_never_denies, hash side: when the hash of the question name cannot be had (the
   work governor refused the computation, or a concurrent validation that owned the memo slot
   failed), no entry point produces a denial *)
Theorem aggr_nsec3_failed_hash q qtype qclass signer recs tab :
  hash_lookup tab q = None -> exists e, aggr_nsec3 q qtype qclass signer recs tab = A_err e.
Proof.
  intros Hn. unfold aggr_nsec3.
  destruct (negb (question_ok qtype qclass)); [eauto|].
  destruct (negb (prefix_b signer q)); [eauto|].
  destruct recs as [|r0 t]; [eauto|].
  destruct (aggr3_scan signer qclass 0 (r0 :: t) None []) as [[|e0 es]|]; [eauto| |eauto].
  rewrite Hn. eauto.
Qed.

Lemma lookup3_failed g tab n : prefix_b (g_zone g) n = true -> hash_lookup tab n = None -> lookup3 g tab n = LK_err E_other.
Proof. intros Hp Hn. unfold lookup3. rewrite Hp, Hn. reflexivity. Qed.

Theorem nsec3_nameerror_failed_hash q qclass recs signer tab :
  prefix_b signer q = true -> hash_lookup tab q = None ->
  fst (verify_nameerror_nsec3 q qclass recs signer tab) <> E_ok.
Proof.
  intros Hp Hn. unfold verify_nameerror_nsec3.
  destruct (prepare_set recs signer) as [g|] eqn:Ep; [|cbn; discriminate].
  assert (Hz : g_zone g = signer).
  { unfold prepare_set in Ep. destruct (prepare_scan signer 0 recs None []) as [[[f|] [|e es]]|]; try discriminate.
    inversion Ep. reflexivity. }
  destruct (negb (g_class g =? qclass)); [cbn; discriminate|].
  assert (Hc : closest_validated g tab q = inl E_other \/ closest_validated g tab q = inl E_missing).
  { unfold closest_validated. destruct (length q) as [|k] eqn:El.
    - right. reflexivity.
    - left. cbn [closest3]. rewrite <- El, firstn_all. unfold find_matching.
      rewrite (lookup3_failed g tab q) by (rewrite ?Hz; assumption). reflexivity. }
  destruct Hc as [-> | ->]; cbn; discriminate.
Qed.

Theorem nsec3_nodata_failed_hash fx q qtype qclass recs signer tab :
  prefix_b signer q = true -> hash_lookup tab q = None ->
  fst (verify_nodata_nsec3_gen fx q qtype qclass recs signer tab) <> E_ok.
Proof.
  intros Hp Hn. unfold verify_nodata_nsec3_gen.
  destruct (prepare_set recs signer) as [g|] eqn:Ep; [|cbn; discriminate].
  assert (Hz : g_zone g = signer).
  { unfold prepare_set in Ep. destruct (prepare_scan signer 0 recs None []) as [[[f|] [|e es]]|]; try discriminate.
    inversion Ep. reflexivity. }
  destruct (negb (g_class g =? qclass)); [cbn; discriminate|].
  unfold find_matching. rewrite (lookup3_failed g tab q) by (rewrite ?Hz; assumption). cbn. discriminate.
Qed.
