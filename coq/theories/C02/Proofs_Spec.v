(* C02 — the boolean specification functions evaluated by Run.spec_case
   decide the Prop-level specification of Spec.v. *)
From Sdns Require Import Common.Base Gen.C02 C02.Model C02.Spec C02.Proofs_Order C02.Proofs_Nsec.
Open Scope N_scope.

Lemma owner_b_spec z n : owner_b z n = true <-> owner z n.
Proof.
  unfold owner_b, owner. rewrite existsb_exists. split.
  - intros [[n' tys] [Hin E]]. cbn in E. apply rname_eqb_spec in E. subst. eauto.
  - intros [tys Hin]. exists (n, tys). split; [exact Hin | apply rname_eqb_refl].
Qed.
Lemma owner_b_false z n : owner_b z n = false <-> ~ owner z n.
Proof. rewrite <- owner_b_spec. destruct (owner_b z n); split; congruence. Qed.

Lemma exists_direct_b_spec z n : exists_direct_b z n = true <-> exists_direct z n.
Proof.
  unfold exists_direct_b, exists_direct, owner. rewrite existsb_exists. split.
  - intros [[w tys] [Hin E]]. cbn in E. apply prefix_b_spec in E. exists w. eauto.
  - intros [w [[tys Hin] Hp]]. exists (w, tys). split; [exact Hin | apply prefix_b_spec, Hp].
Qed.
Lemma exists_direct_b_false z n : exists_direct_b z n = false <-> ~ exists_direct z n.
Proof. rewrite <- exists_direct_b_spec. destruct (exists_direct_b z n); split; congruence. Qed.

Lemma is_ent_b_spec z n : is_ent_b z n = true <-> is_ent z n.
Proof.
  unfold is_ent_b, is_ent. rewrite andb_true_iff, negb_true_iff, owner_b_false, existsb_exists. split.
  - intros [Hn [[w tys] [Hin E]]]. cbn in E. apply strict_prefix_b_spec in E. split; [exact Hn|]. exists w. split; [exists tys; exact Hin | exact E].
  - intros [Hn [w [[tys Hin] Hs]]]. split; [exact Hn|]. exists (w, tys). split; [exact Hin | apply strict_prefix_b_spec, Hs].
Qed.

Lemma cut_types_b_spec tys : cut_types_b tys = true <-> cut_types tys.
Proof.
  unfold cut_types_b, cut_types. rewrite orb_true_iff, andb_true_iff, negb_true_iff, !has_type_In.
  rewrite <- (has_type_In tys T_SOA). destruct (has_type tys T_SOA); intuition congruence.
Qed.

Lemma below_cut_b_spec z n : below_cut_b z n = true <-> below_cut z n.
Proof.
  unfold below_cut_b, below_cut. rewrite existsb_exists. split.
  - intros [[d tys] [Hin E]]. cbn in E. apply andb_true_iff in E. destruct E as [E1 E2].
    exists d, tys. split; [exact Hin|]. split; [apply cut_types_b_spec, E1 | apply strict_prefix_b_spec, E2].
  - intros [d [tys [Hin [H1 H2]]]]. exists (d, tys). split; [exact Hin|]. cbn.
    apply andb_true_iff. split; [apply cut_types_b_spec, H1 | apply strict_prefix_b_spec, H2].
Qed.
Lemma below_cut_b_false z n : below_cut_b z n = false <-> ~ below_cut z n.
Proof. rewrite <- below_cut_b_spec. destruct (below_cut_b z n); split; congruence. Qed.

(* the downward search finds the longest existing prefix of length <= k *)
Lemma ce_search_spec z q k ce : (k <= length q)%nat ->
  ce_search z q k = Some ce ->
  exists j, (j <= k)%nat /\ ce = firstn j q /\ exists_direct z ce /\
            forall i, (j < i <= k)%nat -> ~ exists_direct z (firstn i q).
Proof.
  induction k as [|k IH]; intros Hk; cbn [ce_search].
  - destruct (exists_direct_b z (firstn 0 q)) eqn:E; [|discriminate]. intros H. inversion H; subst.
    exists O. split; [lia|]. split; [reflexivity|]. split; [apply exists_direct_b_spec, E | intros i Hi; lia].
  - destruct (exists_direct_b z (firstn (S k) q)) eqn:E.
    + intros H. inversion H; subst. exists (S k). split; [lia|]. split; [reflexivity|].
      split; [apply exists_direct_b_spec, E | intros i Hi; lia].
    + intros H. destruct (IH ltac:(lia) H) as [j [Hj [Hce [Hex Hno]]]].
      exists j. split; [lia|]. split; [exact Hce|]. split; [exact Hex|].
      intros i Hi. destruct (Nat.eq_dec i (S k)) as [->|Hne]; [apply exists_direct_b_false, E | apply Hno; lia].
Qed.
Lemma ce_search_none z q k : ce_search z q k = None -> forall i, (i <= k)%nat -> ~ exists_direct z (firstn i q).
Proof.
  induction k as [|k IH]; cbn [ce_search].
  - destruct (exists_direct_b z (firstn 0 q)) eqn:E; [discriminate|]. intros _ i Hi.
    replace i with O by lia. apply exists_direct_b_false, E.
  - destruct (exists_direct_b z (firstn (S k) q)) eqn:E; [discriminate|]. intros H i Hi.
    destruct (Nat.eq_dec i (S k)) as [->|Hne]; [apply exists_direct_b_false, E | apply IH; [exact H | lia]].
Qed.

Lemma true_ce_spec z q ce : q <> [] -> (true_ce z q = Some ce <-> closest_encloser z q ce).
Proof.
  intros Hq. assert (Hl : (0 < length q)%nat) by (destruct q; [congruence | cbn; lia]).
  unfold true_ce. split.
  - intros H. destruct (ce_search_spec z q (length q - 1) ce ltac:(lia) H) as [j [Hj [-> [Hex Hno]]]].
    split; [|split; [exact Hex|]].
    + exists (skipn j q). split; [|symmetry; apply firstn_skipn].
      intros E. apply (f_equal (@length _)) in E. rewrite skipn_length in E. cbn in E. lia.
    + intros p Hp Hpe. rewrite firstn_length. replace (Nat.min j (length q)) with j by lia.
      pose proof (strict_prefix_length _ _ Hp) as Hpl.
      destruct (Nat.le_gt_cases (length p) j) as [Hle|Hgt]; [exact Hle|]. exfalso.
      apply (Hno (length p)); [lia|]. rewrite <- (is_prefix_eq_firstn p q (strict_is_prefix _ _ Hp)). exact Hpe.
  - intros [Hs [Hex Hmax]].
    pose proof (strict_prefix_length _ _ Hs) as Hcl.
    destruct (ce_search z q (length q - 1)) as [c|] eqn:E.
    + destruct (ce_search_spec z q (length q - 1) c ltac:(lia) E) as [j [Hj [-> [Hex' Hno]]]].
      f_equal. apply (prefixes_same_length _ _ q); [apply is_prefix_firstn | apply strict_is_prefix, Hs|].
      rewrite firstn_length. replace (Nat.min j (length q)) with j by lia.
      assert (H1 : (j <= length ce)%nat).
      { assert (Hsp : is_strict_prefix (firstn j q) q).
        { exists (skipn j q). split; [|symmetry; apply firstn_skipn].
          intros E'. apply (f_equal (@length _)) in E'. rewrite skipn_length in E'. cbn in E'. lia. }
        pose proof (Hmax _ Hsp Hex') as Hm. rewrite firstn_length in Hm. lia. }
      destruct (Nat.eq_dec j (length ce)) as [->|Hne]; [reflexivity|]. exfalso.
      apply (Hno (length ce)); [lia|]. rewrite <- (is_prefix_eq_firstn ce q (strict_is_prefix _ _ Hs)). exact Hex.
    + exfalso. apply (ce_search_none z q _ E (length ce)); [lia|].
      rewrite <- (is_prefix_eq_firstn ce q (strict_is_prefix _ _ Hs)). exact Hex.
Qed.

Lemma closest_encloser_nonempty z q ce : closest_encloser z q ce -> q <> [].
Proof. intros [[s [Hs ->]] _] E. apply app_eq_nil in E. destruct E as [_ E]. exact (Hs E). Qed.

Lemma wildcard_match_b_spec z q : wildcard_match_b z q = true <-> wildcard_match z q.
Proof.
  unfold wildcard_match_b, wildcard_match. rewrite andb_true_iff, negb_true_iff, exists_direct_b_false.
  split.
  - intros [Hn H]. split; [exact Hn|]. destruct q as [|l q]; [discriminate|].
    destruct (true_ce z (l :: q)) as [ce|] eqn:E; [|discriminate].
    exists ce. split; [apply true_ce_spec; [discriminate | exact E] | apply exists_direct_b_spec, H].
  - intros [Hn [ce [Hc He]]]. split; [exact Hn|].
    pose proof (closest_encloser_nonempty _ _ _ Hc) as Hq. destruct q as [|l q]; [congruence|].
    apply (true_ce_spec z (l :: q) ce Hq) in Hc. rewrite Hc. apply exists_direct_b_spec, He.
Qed.

Theorem exists_in_b_spec z q : exists_in_b z q = true <-> exists_in z q.
Proof.
  unfold exists_in_b, exists_in.
  rewrite !orb_true_iff, exists_direct_b_spec, below_cut_b_spec, wildcard_match_b_spec. tauto.
Qed.

Lemma node_lacks_b_spec tys qtype : node_lacks_b tys qtype = true <-> node_lacks tys qtype.
Proof.
  unfold node_lacks_b, node_lacks. rewrite <- !has_type_In.
  destruct (N.eqb_spec qtype T_DS) as [E|E];
    destruct (has_type tys qtype), (has_type tys T_CNAME), (has_type tys T_SOA), (has_type tys T_NS); cbn;
    split; intros H; try discriminate; try reflexivity; try tauto; try intuition congruence.
Qed.

Lemma node_lacks_at_spec z n qtype :
  existsb (fun nd => rname_eqb (fst nd) n && node_lacks_b (snd nd) qtype) (z_nodes z) = true <->
  exists tys, In (n, tys) (z_nodes z) /\ node_lacks tys qtype.
Proof.
  rewrite existsb_exists. split.
  - intros [[n' tys] [Hin E]]. cbn in E. apply andb_true_iff in E. destruct E as [E1 E2].
    apply rname_eqb_spec in E1. subst. exists tys. split; [exact Hin | apply node_lacks_b_spec, E2].
  - intros [tys [Hin Hl]]. exists (n, tys). split; [exact Hin|]. cbn.
    apply andb_true_iff. split; [apply rname_eqb_refl | apply node_lacks_b_spec, Hl].
Qed.

Theorem nodata_true_b_spec z q qtype : nodata_true_b z q qtype = true <-> nodata_true z q qtype.
Proof.
  unfold nodata_true_b, nodata_true.
  rewrite andb_true_iff, negb_true_iff, below_cut_b_false, !orb_true_iff, is_ent_b_spec, node_lacks_at_spec.
  rewrite andb_true_iff, negb_true_iff, exists_direct_b_false.
  assert (HC : (match q with
                | [] => false
                | _ :: _ => match true_ce z q with
                            | Some ce => existsb (fun nd => rname_eqb (fst nd) (ce ++ [star]) && node_lacks_b (snd nd) qtype) (z_nodes z)
                                         || is_ent_b z (ce ++ [star])
                            | None => false
                            end
                end = true) <->
               (exists ce, closest_encloser z q ce /\
                  ((exists tys, In (ce ++ [star], tys) (z_nodes z) /\ node_lacks tys qtype) \/ is_ent z (ce ++ [star])))).
  { split.
    - destruct q as [|l q]; [discriminate|]. destruct (true_ce z (l :: q)) as [ce|] eqn:E; [|discriminate].
      rewrite orb_true_iff, node_lacks_at_spec, is_ent_b_spec. intros H. exists ce.
      split; [apply true_ce_spec; [discriminate | exact E] | exact H].
    - intros [ce [Hc H]]. pose proof (closest_encloser_nonempty _ _ _ Hc) as Hq.
      destruct q as [|l q]; [congruence|]. apply (true_ce_spec z (l :: q) ce Hq) in Hc. rewrite Hc.
      rewrite orb_true_iff, node_lacks_at_spec, is_ent_b_spec. exact H. }
  rewrite HC. tauto.
Qed.

Lemma insecure_delegation_b_spec z d : insecure_delegation_b z d = true <-> insecure_delegation z d.
Proof.
  unfold insecure_delegation_b, insecure_delegation. rewrite existsb_exists. split.
  - intros [[n tys] [Hin E]]. cbn in E. rewrite !andb_true_iff, !negb_true_iff in E.
    destruct E as [[[E1 E2] E3] E4]. apply rname_eqb_spec in E1. subst. exists tys.
    rewrite <- !has_type_In. unfold has_type in *. rewrite E2, E3, E4. repeat split; auto; discriminate.
  - intros [tys [Hin [H1 [H2 H3]]]]. exists (d, tys). split; [exact Hin|].
    rewrite <- has_type_In in H1, H2, H3. cbn [fst snd]. rewrite rname_eqb_refl, H1. cbn [andb].
    destruct (has_type tys T_DS); [exfalso; apply H2; reflexivity|].
    destruct (has_type tys T_SOA); [exfalso; apply H3; reflexivity|]. reflexivity.
Qed.

(* ---- well-formedness and genuineness checks are sound *)
Lemma keys_unique_spec l : keys_unique l = true ->
  forall n t1 t2, In (n, t1) l -> In (n, t2) l -> t1 = t2.
Proof.
  induction l as [|[n0 t0] l IH]; cbn; [intros _ n t1 t2 []|].
  rewrite andb_true_iff, negb_true_iff. intros [Hn Hu] n t1 t2 [E1|H1] [E2|H2].
  - congruence.
  - inversion E1; subst. exfalso. rewrite <- not_true_iff_false in Hn. apply Hn.
    apply existsb_exists. exists (n, t2). split; [exact H2 | apply rname_eqb_refl].
  - inversion E2; subst. exfalso. rewrite <- not_true_iff_false in Hn. apply Hn.
    apply existsb_exists. exists (n, t1). split; [exact H1 | apply rname_eqb_refl].
  - eapply IH; eauto.
Qed.

Theorem zone_wf_b_sound z : zone_wf_b z = true -> zone_wf z.
Proof.
  unfold zone_wf_b, zone_wf. rewrite !andb_true_iff. intros [[[H1 H2] H3] H4].
  split; [|split; [|split]].
  - intros n [tys Hin]. rewrite forallb_forall in H1. apply prefix_b_spec. apply (H1 (n, tys) Hin).
  - apply owner_b_spec, H2.
  - apply keys_unique_spec, H3.
  - intros d tys w Hd Hct [wt Hw] Hs. rewrite forallb_forall in H4. specialize (H4 (d, tys) Hd). cbn in H4.
    apply orb_true_iff in H4. destruct H4 as [H4|H4].
    + apply negb_true_iff in H4. apply cut_types_b_spec in Hct. congruence.
    + rewrite forallb_forall in H4. specialize (H4 (w, wt) Hw). cbn in H4. apply negb_true_iff in H4.
      apply strict_prefix_b_spec in Hs. congruence.
Qed.

Lemma is_lt_spec c : is_lt c = true <-> c = Lt.
Proof. destruct c; cbn; split; congruence. Qed.
Lemma is_gt_spec c : is_gt c = true <-> c = Gt.
Proof. destruct c; cbn; split; congruence. Qed.

Theorem genuine_b_sound z r : genuine_b z r = true -> genuine z r.
Proof.
  unfold genuine_b, genuine, is_link_b, is_link. rewrite !andb_true_iff, orb_true_iff.
  intros [[[Ho Hn] Hl] Ht]. split.
  - split; [apply owner_b_spec, Ho|]. split; [apply owner_b_spec, Hn|].
    destruct Hl as [Hl|Hl]; apply andb_true_iff in Hl; destruct Hl as [Hl1 Hl2]; rewrite forallb_forall in Hl2.
    + left. split; [apply is_lt_spec, Hl1|]. intros w [wt Hw] [Hw1 Hw2]. specialize (Hl2 (w, wt) Hw). cbn in Hl2.
      rewrite Hw1, Hw2 in Hl2. discriminate.
    + right. split; [apply rname_eqb_spec, Hl1|]. intros w [wt Hw] Hgt. specialize (Hl2 (w, wt) Hw). cbn in Hl2.
      rewrite Hgt in Hl2. discriminate.
  - apply existsb_exists in Ht. destruct Ht as [[n tys] [Hin E]]. cbn in E. apply andb_true_iff in E.
    destruct E as [E1 E2]. apply rname_eqb_spec in E1. apply (list_eqb_spec N.eqb N.eqb_eq) in E2. subst. exact Hin.
Qed.
