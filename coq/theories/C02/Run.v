(* C02 — correspondence: case type and the two checkers evaluated with
   vm_compute on what the Go drivers observed.
   check_case: the model computes what the implementation did.
   spec_case : what the implementation did is a true statement about the
               generated zone (Spec.v), whenever the records it was given
               are genuine records of that zone. *)
From Sdns Require Export Common.Base Gen.C02 C02.Model C02.Spec.
Open Scope N_scope.

(* zone as generated: names leaf first, case as generated *)
Record rzone := mk_rzone { rz_apex : name; rz_nodes : list (name * list N) }.
Definition canon_zone (z : rzone) : zone :=
  mk_zone (canon (rz_apex z)) (map (fun nd => (canon (fst nd), snd nd)) (rz_nodes z)).

(* observed aggressive verdict: code 1..7 = error class, 10 = NOERROR/NODATA, 13 = NXDOMAIN;
   proof = positions (in the slice handed to the evaluator) of the records returned *)
Definition aobs := (N * list N)%type.
Definition aresult_obs (r : aresult) : aobs :=
  match r with
  | A_err e => (err_code e, [])
  | A_deny rc p => (10 + rc, map N.of_nat p)
  end.
Definition aobs_eqb (a b : aobs) : bool := (fst a =? fst b) && list_eqb N.eqb (snd a) (snd b).

(* one question against one record set *)
Record nprobe := mk_nprobe {
  p_q : name; p_qtype : N; p_qclass : N; p_dname : option (name * name);
  p_ne : N;      (* VerifyNameErrorNSEC error class *)
  p_nd : N;      (* VerifyNODATANSEC *)
  p_dl : N;      (* VerifyDelegationNSEC(q) *)
  p_ag : aobs;   (* EvaluateAggressiveNSEC *)
  p_agp : aobs;  (* EvaluateAggressiveNSECPrepared *)
  p_ags : aobs   (* NewAggressiveNSECSet + EvaluateAggressiveNSECSet *)
}.

Inductive case :=
  (* dnsname.CanonicalCompare a b (sign), dnsname.CompareSuffix a b, dnsutil.NameInZone(a, b) *)
| CaseCmp (a b : name) (cmp : N) (shared : N) (inzone : bool)
  (* zone the records were drawn from; signer handed to the code; records; positions kept by
     FilterRRsToZone; whether the aggressive evaluators got the filtered slice; the zone's class *)
| CaseNsec (z : rzone) (signer : name) (recs : list nsec) (kept : list N) (prefilter : bool) (probes : list nprobe).

(* sign + 1 *)
Definition cmp_sign (c : comparison) : N := match c with Lt => 0 | Eq => 1 | Gt => 2 end.

Definition reindex (l : list cnsec) : list cnsec :=
  (fix go (i : nat) (l : list cnsec) :=
     match l with [] => [] | r :: t => mk_cnsec (c_owner r) (c_next r) (c_types r) (c_class r) i :: go (S i) t end) O l.

Definition check_nprobe (signer : rname) (filtered aggr_in : list cnsec) (p : nprobe) : bool :=
  let qe := canon (effective_qname (p_q p) (p_dname p)) in
  (err_code (verify_nameerror_nsec qe filtered) =? p_ne p) &&
  (err_code (verify_nodata_nsec qe (p_qtype p) filtered) =? p_nd p) &&
  (err_code (verify_delegation_nsec (canon (p_q p)) filtered) =? p_dl p) &&
  aobs_eqb (aresult_obs (aggr_nsec qe (p_qtype p) (p_qclass p) signer aggr_in)) (p_ag p) &&
  aobs_eqb (aresult_obs (aggr_nsec qe (p_qtype p) (p_qclass p) signer aggr_in)) (p_agp p) &&
  aobs_eqb (aresult_obs (aggr_nsec_set qe (p_qtype p) (p_qclass p) signer aggr_in)) (p_ags p).

Definition check_case (c : case) : bool :=
  match c with
  | CaseCmp a b cmp shared inzone =>
      (cmp_sign (go_canonical_compare a b) =? cmp) &&
      (cmp_sign (ncmp (canon a) (canon b)) =? cmp) &&
      (N.of_nat (go_compare_suffix a b) =? shared) &&
      (N.of_nat (lcp (canon a) (canon b)) =? shared) &&
      Bool.eqb (prefix_b (canon b) (canon a)) inzone
  | CaseNsec z signer recs kept prefilter probes =>
      let cs := canon_recs recs in
      let sg := canon signer in
      let f := filter_to_zone sg cs in
      list_eqb N.eqb (map (fun r => N.of_nat (c_idx r)) f) kept &&
      let filtered := reindex f in
      let aggr_in := if prefilter then filtered else cs in
      forallb (check_nprobe sg filtered aggr_in) probes
  end.

(* ---- the specification oracle.  The zone's class is IN. *)
Definition zone_class : N := 1.

Definition spec_aobs (z : zone) (qe : rname) (qtype qclass : N) (o : aobs) : bool :=
  if fst o =? 13 then (qclass =? zone_class) && negb (exists_in_b z qe)
  else if fst o =? 10 then (qclass =? zone_class) && nodata_true_b z qe qtype
  else true.

Definition spec_nprobe (z : zone) (exact_ok aggr_ok : bool) (p : nprobe) : bool :=
  let qe := canon (effective_qname (p_q p) (p_dname p)) in
  if negb (prefix_b (z_apex z) qe) then true else
  (negb exact_ok ||
     ((negb (p_ne p =? 0) || negb (exists_in_b z qe)) &&
      (negb (p_nd p =? 0) || nodata_true_b z qe (p_qtype p)) &&
      (negb (p_dl p =? 0) || insecure_delegation_b z (canon (p_q p))))) &&
  (negb aggr_ok ||
     (spec_aobs z qe (p_qtype p) (p_qclass p) (p_ag p) &&
      spec_aobs z qe (p_qtype p) (p_qclass p) (p_agp p) &&
      spec_aobs z qe (p_qtype p) (p_qclass p) (p_ags p))).

Definition spec_case (c : case) : bool :=
  match c with
  | CaseCmp a b cmp shared inzone =>
      (* antisymmetry and the subdomain reading are checked against the spec order *)
      (cmp_sign (ncmp (canon a) (canon b)) =? cmp) && Bool.eqb (prefix_b (canon b) (canon a)) inzone
  | CaseNsec rz signer recs kept prefilter probes =>
      let z := canon_zone rz in
      let cs := canon_recs recs in
      let keptrecs := filter (fun r => existsb (N.eqb (N.of_nat (c_idx r))) kept) cs in
      if negb (zone_wf_b z && rname_eqb (canon signer) (z_apex z)) then true else
      let exact_ok := forallb (genuine_b z) keptrecs in
      let aggr_ok := forallb (fun r => genuine_b z r && (c_class r =? zone_class)) (if prefilter then keptrecs else cs) in
      forallb (spec_nprobe z exact_ok aggr_ok) probes
  end.
