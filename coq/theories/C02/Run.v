(* C02 — correspondence: case type and the two checkers evaluated with
   vm_compute on what the Go drivers observed.
   check_case: the model computes what the implementation did.
   spec_case : what the implementation did is a true statement about the
               generated zone (Spec.v), whenever the records it was given
               are genuine records of that zone. *)
From Sdns Require Export Common.Base Gen.C02 C02.Model C02.ModelNsec3 C02.ModelCut C02.ModelAuth C02.ModelShared C02.Spec.
Open Scope N_scope.

(* zone as generated: names leaf first, case as generated *)
Record rzone := mk_rzone { rz_apex : name; rz_nodes : list (name * list N) }.
Definition canon_zone (z : rzone) : zone :=
  mk_zone (canon (rz_apex z)) (map (fun nd => (canon (fst nd), snd nd)) (rz_nodes z)).

(* observed aggressive verdict: code 1..7 = error class, 10 = NOERROR/NODATA, 13 = NXDOMAIN;
   proof = positions (in the slice handed to the evaluator) of the records returned *)
(* the zone's class is IN *)
Definition zone_class : N := 1.
Definition aobs := (N * list N)%type.
Definition aresult_obs (r : aresult) : aobs :=
  match r with
  | A_err e => (err_code e, [])
  | A_deny rc p => (10 + rc, map N.of_nat p)
  end.
Definition aobs_eqb (a b : aobs) : bool := (fst a =? fst b) && list_eqb N.eqb (snd a) (snd b).

(* one question against one record set *)
Record nprobe := mk_nprobe {
  p_q : name; p_qtype : N; p_qclass : N; p_dname : option (name * name);
  p_ne : N;      (* VerifyNameErrorNSEC error class *)
  p_nd : N;      (* VerifyNODATANSEC *)
  p_dl : N;      (* VerifyDelegationNSEC(q) *)
  p_ag : aobs;   (* EvaluateAggressiveNSEC *)
  p_agp : aobs;  (* EvaluateAggressiveNSECPrepared *)
  p_ags : aobs   (* NewAggressiveNSECSet + EvaluateAggressiveNSECSet *)
}.

(* one question against one NSEC3 record set; (error class, secure) for the ForZone verifiers *)
Record probe3 := mk_probe3 {
  q3 : name; q3type : N; q3class : N; q3dname : option (name * name);
  o_ne : N * bool;   (* VerifyNameErrorForZoneWithWork *)
  o_nd : N * bool;   (* VerifyNODATAForZoneWithWork *)
  o_dl : N;          (* VerifyDelegationForZoneWithWork(q) *)
  o_ag : aobs        (* EvaluateAggressiveNSEC3 *)
}.

(* one negative response through Resolver.authority: question, response RCODE (3 or 0), CD bit;
   observed: error class (0 = accepted), AD of the returned response, provenance published,
   provenance aggressive-eligible *)
Record aprobe := mk_aprobe {
  a_q : name; a_qtype : N; a_qclass : N; a_rcode : N; a_cd : bool;
  a_err : N; a_ad : bool; a_marked : bool; a_aggr : bool
}.

(* one question through Resolver.Resolve below one authority (QNAME-minimised walk, session 5): question,
   CD bit, the authority's reply to each minimised question (true = NXDOMAIN with the case's denial
   records, false = NOERROR + SOA), RCODE of its reply to the full name; observed: error class, RCODE / AD of
   the result, provenance published / aggressive-eligible, number of distinct questions the authority saw *)
Record wprobe := mk_wprobe {
  wq : name; wqtype : N; wcd : bool; wnx : list bool; wfrc : N;
  wo_err : N; wo_rcode : N; wo_ad : bool; wo_marked : bool; wo_aggr : bool; wo_asked : N
}.

Inductive case :=
  (* dnsname.CanonicalCompare a b (sign), dnsname.CompareSuffix a b, dnsutil.NameInZone(a, b) *)
| CaseCmp (a b : name) (cmp : N) (shared : N) (inzone : bool)
  (* NSEC3: zone, signer, records, positions kept by FilterRRsToZone, whether the aggressive
     evaluator got the filtered slice, hash table (name -> hash rank), whether every record the
     exact verifiers / the aggressive evaluator saw is a record of the zone's genuine NSEC3
     chain (decided by the generator), probes *)
| CaseNsec3 (z : rzone) (signer : name) (recs : list nsec3) (kept : list N) (prefilter : bool)
            (tab : list (name * N)) (exact_judged aggr_judged : bool) (probes : list probe3)
  (* the same under a work governor: the hash computations of the names in [failed] were requested
     and failed (budget exhausted / crypto gate refused), in the validation itself or in a
     concurrent validation of the same request tree it was waiting on through the shared memo *)
| CaseNsec3Work (z : rzone) (signer : name) (recs : list nsec3) (kept : list N) (prefilter : bool)
                (tab : list (name * N)) (exact_judged aggr_judged : bool) (failed : list name) (probes : list probe3)
  (* Resolver.authority on a signed negative response built from the zone's records *)
  (* signed (session 4): per record, whether its RRset carries an RRSIG made with the zone's key (false:
     unsigned, or signed by another zone's key — a child / sibling zone's record replayed into the answer) *)
| CaseAuthNsec (z : rzone) (signer : name) (recs : list nsec) (signed : list bool) (kept : list N) (probes : list aprobe)
  (* signed (session 5): as in CaseAuthNsec; judged = every record the zone's key signed is one of the zone's
     genuine NSEC3 chain (decided by the generator) *)
| CaseAuthNsec3 (z : rzone) (signer : name) (recs : list nsec3) (signed : list bool) (kept : list N) (tab : list (name * N))
                (judged : bool) (probes : list aprobe)
  (* wildcard.go: VerifyWildcardAnswerForZoneWithWork on an Answer of RRSIGs (owner, Labels) and an Authority section
     of NSEC or NSEC3 records; judged = every denial record is a genuine record of the zone; observed error class, secure *)
| CaseWild (z : rzone) (signer : name) (nsecs : list nsec) (recs3 : list nsec3) (tab : list (name * N)) (judged : bool)
           (sigs : list (name * N)) (err : N) (secure : bool)
  (* Resolver.Resolve: the minimised walk below the zone's authority, the denial records as in CaseAuthNsec / CaseAuthNsec3 *)
| CaseWalkNsec (z : rzone) (signer : name) (recs : list nsec) (signed : list bool) (probes : list wprobe)
| CaseWalkNsec3 (z : rzone) (signer : name) (recs : list nsec3) (kept : list N) (tab : list (name * N))
                (judged : bool) (probes : list wprobe)
  (* shared negative-cache state through Cache.ServeDNS: zone, maximum TTL, history of client
     exchanges (with what the downstream resolver answered) and clock advances *)
| CaseShared (z : rzone) (maxttl : Z) (lim_index lim_cuts : N) (tab : list (name * N)) (ops : list shop)
  (* subtree-cut cache: configured maximum TTL (s), history of record / clock advance / lookup *)
| CaseCut (maxttl : Z) (ops : list cutop)
  (* zone the records were drawn from; signer handed to the code; records; positions kept by
     FilterRRsToZone; whether the aggressive evaluators got the filtered slice; the zone's class *)
| CaseNsec (z : rzone) (signer : name) (recs : list nsec) (kept : list N) (prefilter : bool) (probes : list nprobe).

(* sign + 1 *)
Definition cmp_sign (c : comparison) : N := match c with Lt => 0 | Eq => 1 | Gt => 2 end.

Definition reindex (l : list cnsec) : list cnsec :=
  (fix go (i : nat) (l : list cnsec) :=
     match l with [] => [] | r :: t => mk_cnsec (c_owner r) (c_next r) (c_types r) (c_class r) i :: go (S i) t end) O l.

(* code 99 = "not part of this case": a probe on which the exact verifiers reproduce a known
   finding is emitted twice, once with only the exact verdicts (tagged with the finding) and
   once with only the aggressive ones, so that a listed finding never hides another failure *)
Definition NOT_OBSERVED : N := 99.
Definition code_ok (model observed : N) : bool := (observed =? NOT_OBSERVED) || (model =? observed).
Definition aobs_ok (m o : aobs) : bool := (fst o =? NOT_OBSERVED) || aobs_eqb m o.

Definition check_nprobe (signer : rname) (filtered aggr_in : list cnsec) (p : nprobe) : bool :=
  let qe := canon (effective_qname (p_q p) (p_dname p)) in
  code_ok (err_code (verify_nameerror_nsec qe filtered)) (p_ne p) &&
  code_ok (err_code (verify_nodata_nsec qe (p_qtype p) filtered)) (p_nd p) &&
  code_ok (err_code (verify_delegation_nsec (canon (p_q p)) filtered)) (p_dl p) &&
  aobs_ok (aresult_obs (aggr_nsec qe (p_qtype p) (p_qclass p) signer aggr_in)) (p_ag p) &&
  aobs_ok (aresult_obs (aggr_nsec qe (p_qtype p) (p_qclass p) signer aggr_in)) (p_agp p) &&
  aobs_ok (aresult_obs (aggr_nsec_set qe (p_qtype p) (p_qclass p) signer aggr_in)) (p_ags p).

Definition vres_eqb (m : vres) (o : N * bool) : bool :=
  (fst o =? NOT_OBSERVED) ||
  ((err_code (fst m) =? fst o) && (negb (fst o =? 0) || Bool.eqb (snd m) (snd o))).

Definition check_probe3 (signer : rname) (filtered aggr_in : list nsec3) (tab : htab) (p : probe3) : bool :=
  let qe := canon (effective_qname (q3 p) (q3dname p)) in
  vres_eqb (verify_nameerror_nsec3 qe (q3class p) filtered signer tab) (o_ne p) &&
  vres_eqb (verify_nodata_nsec3 qe (q3type p) (q3class p) filtered signer tab) (o_nd p) &&
  code_ok (err_code (verify_delegation_nsec3 (canon (q3 p)) filtered signer tab)) (o_dl p) &&
  aobs_ok (aresult_obs (aggr_nsec3 qe (q3type p) (q3class p) signer aggr_in tab)) (o_ag p).

Fixpoint keep_idx {A} (i : N) (kept : list N) (l : list A) : list A :=
  match l with
  | [] => []
  | x :: t => if existsb (N.eqb i) kept then x :: keep_idx (i + 1) kept t else keep_idx (i + 1) kept t
  end.
Fixpoint idx_where {A} (f : A -> bool) (i : N) (l : list A) : list N :=
  match l with
  | [] => []
  | x :: t => if f x then i :: idx_where f (i + 1) t else idx_where f (i + 1) t
  end.

Definition opt_name_eqb (a : option rname) (b : option name) : bool :=
  match a, b with
  | None, None => true
  | Some x, Some y => rname_eqb x (canon y)
  | _, _ => false
  end.
(* run a history on the model; true iff every observation is what the model computes.  The wire
   lookup may decline (it is an accelerator), but when it answers it must agree. *)
Fixpoint check_cut (maxttl now : Z) (st : list centry) (ops : list cutop) : bool :=
  match ops with
  | [] => true
  | OpRecord m denied zone cu ok :: t =>
      match cut_record maxttl now st m (canon denied) (canon zone) cu with
      | Some st' => ok && check_cut maxttl now st' t
      | None => negb ok && check_cut maxttl now st t
      end
  | OpAdvance s :: t => check_cut maxttl (now + s)%Z st t
  | OpPurge q qclass :: t => check_cut maxttl now (cut_purge st (canon q) qclass) t
  | OpLookup q qclass cd found fw :: t =>
      let r := cut_lookup now st (canon q) qclass cd in
      opt_name_eqb r found &&
      match fw with None => true | Some _ => opt_name_eqb (cut_lookup now st (canon q) qclass false) fw end &&
      check_cut maxttl now st t
  end.

(* the specification, stated on the history alone: a lookup answers with a cut only if some
   earlier accepted record for exactly that name and class, made from an NXDOMAIN, CD=0,
   non-Opt-Out message with a complete signed proof, is still within every one of its TTL
   bounds; never for CD=1 *)
Definition record_admissible (m : cutmsg) (denied zone : rname) : bool :=
  (cm_rcode m =? 3)%N && negb (cm_cd m) && negb (rname_eqb denied zone) && prefix_b zone denied &&
  negb (existsb (fun p => f_nsec3 p && f_owner_in_zone p && f_optout p) (cm_proofs m)) &&
  match cm_soa m with Some (sc, _, _, sg) => (cm_qclass m =? sc)%N && sig_counts sc sg | None => false end.
Definition record_deadline (maxttl at_ : Z) (m : cutmsg) (cu : option Z) : Z :=
  match cut_proof m with
  | Some b => (at_ + min_bounds maxttl (b ++ match cu with Some c => [c - at_] | None => [] end))%Z
  | None => at_
  end.
(* accepted records so far: (denied, class, admitted at, message, cut_until, zone) *)
Fixpoint spec_cut (maxttl now : Z) (log : list (rname * N * Z)) (ops : list cutop) : bool :=
  match ops with
  | [] => true
  | OpRecord m denied zone cu ok :: t =>
      (negb ok || record_admissible m (canon denied) (canon zone)) &&
      spec_cut maxttl now
        (if ok then match cm_soa m with
                    | Some (sc, _, _, _) => (canon denied, sc, record_deadline maxttl now m cu) :: log
                    | None => log end
         else log) t
  | OpAdvance s :: t => spec_cut maxttl (now + s)%Z log t
  | OpPurge _ _ :: t => spec_cut maxttl now log t   (* a purge only removes: the soundness side has nothing to ask *)
  | OpLookup q qclass cd found fw :: t =>
      let ok1 (f : option name) (cdv : bool) :=
        match f with
        | None => true
        | Some d => negb cdv && prefix_b (canon d) (canon q) &&
                    existsb (fun e => rname_eqb (fst (fst e)) (canon d) && (snd (fst e) =? qclass)%N && (now <? snd e)%Z) log
        end in
      ok1 found cd && ok1 fw false && spec_cut maxttl now log t
  end.

Definition check_nsec3 signer recs kept (prefilter : bool) (tab : list (name * N)) (failed : list name) probes : bool :=
  let sg := canon signer in
  (* FilterRRsToZone looks at the owner only *)
  list_eqb N.eqb (idx_where (fun r => prefix_b sg (canon (r_zone r))) 0 recs) kept &&
  let filtered := keep_idx 0 kept recs in
  let aggr_in := if prefilter then filtered else recs in
  let cfailed := map canon failed in
  let ctab := filter (fun p => negb (existsb (rname_eqb (fst p)) cfailed)) (map (fun p => (canon (fst p), snd p)) tab) in
  forallb (check_probe3 sg filtered aggr_in ctab) probes.

(* a requested hash that failed never leads to a denial (incomplete_never_denies) *)
Definition no_denial3 (p : probe3) : bool :=
  negb (fst (o_ne p) =? 0) && negb (fst (o_nd p) =? 0) && negb (o_dl p =? 0) &&
  negb (fst (o_ag p) =? 10) && negb (fst (o_ag p) =? 13).

Definition auth_eqb (m : auth_out) (p : aprobe) : bool :=
  let '(e, ad, marked, aggr) := m in
  (err_code e =? a_err p) && Bool.eqb ad (a_ad p) && Bool.eqb marked (a_marked p) && Bool.eqb aggr (a_aggr p).

(* what an accepted / published / aggressive-eligible verdict claims must be true of the zone *)
Definition spec_aprobe (z : zone) (p : aprobe) : bool :=
  let qe := canon (a_q p) in
  if negb (prefix_b (z_apex z) qe) then true else
  let truth := if a_rcode p =? 3 then negb (exists_in_b z qe) else nodata_true_b z qe (a_qtype p) in
  (* AD only on true denials; shared state (minimisation stop, denial-proof index, RFC 8020 cut)
     only from true denials; nothing published for CD=1 *)
  (negb ((a_err p =? 0) && a_ad p) || ((a_qclass p =? zone_class) && truth)) &&
  (negb (a_marked p) || ((a_err p =? 0) && negb (a_cd p) && (a_qclass p =? zone_class) && truth)) &&
  (negb (a_aggr p) || a_marked p).

(* the walk: levels = the minimised names of the question with the authority's scripted replies *)
Definition walk_eqb (w : walk_out) (p : wprobe) : bool :=
  (err_code (w_err w) =? wo_err p) && (N.of_nat (w_asked w) =? wo_asked p) &&
  (negb (wo_err p =? 0) ||
   ((w_rcode w =? wo_rcode p) && Bool.eqb (w_ad w) (wo_ad p) && Bool.eqb (w_marked w) (wo_marked p) && Bool.eqb (w_aggr w) (wo_aggr p))).
Definition check_wprobe (auth : wprobe -> rname -> N -> auth_out) (optout : bool) (sg : rname) (p : wprobe) : bool :=
  let qe := canon (wq p) in
  let names := walk_names (length sg) qe in
  (length names =? length (wnx p))%nat && prefix_b sg qe && (length sg <? length qe)%nat &&
  walk_eqb (min_walk (auth p) optout (combine names (wnx p)) qe (wfrc p) 0) p.

(* what the walk's result claims must be true of the zone; a walk that ends before the full name ends with
   a validated, aggressive-eligible NXDOMAIN for a minimised name that does not exist (RFC 8020) *)
Definition spec_wprobe (z : zone) (p : wprobe) : bool :=
  let qe := canon (wq p) in
  if negb (prefix_b (z_apex z) qe) then true else
  if negb (wo_err p =? 0) then negb (wo_ad p) && negb (wo_marked p) && negb (wo_aggr p) else
  let truth := if wo_rcode p =? 3 then negb (exists_in_b z qe) else nodata_true_b z qe (wqtype p) in
  let early := (wo_asked p <=? N.of_nat (length (wnx p))) in
  (negb (wo_ad p || wo_marked p || wo_aggr p) || (negb (wcd p) && truth)) &&
  (negb (wo_aggr p) || wo_marked p) &&
  (negb early ||
   ((wo_rcode p =? 3) && wo_marked p && wo_aggr p && negb (wcd p) && (0 <? wo_asked p) &&
    negb (exists_in_b z (firstn (length (z_apex z) + N.to_nat (wo_asked p)) qe)))).

Definition optN_eqb (a b : option N) : bool :=
  match a, b with None, None => true | Some x, Some y => x =? y | _, _ => false end.
Definition optZ_eqb (a b : option Z) : bool :=
  match a, b with None, None => true | Some x, Some y => (x =? y)%Z | _, _ => false end.
Definition shobs_eqb (a b : shobs) : bool :=
  optZ_eqb (so_soa a) (so_soa b) && (so_nrec a =? so_nrec b) && (so_sum a =? so_sum b)%Z &&
  (so_ncut a =? so_ncut b) && (so_nlive a =? so_nlive b) && Bool.eqb (so_tomb a) (so_tomb b).
(* after every exchange: what the client saw AND the shared state left behind agree with the model *)
Fixpoint check_shared (lim : limits) (maxttl : Z) (tab : htab) (zone : rname) (st : shared) (now : Z) (ops : list shop) : bool :=
  match ops with
  | [] => true
  | ShAdvance s :: t => check_shared lim maxttl tab zone st (now + s)%Z t
  | ShExchange q qtype cd ecs ds _ synth obs :: t =>
      let '(st', r) := exchange lim maxttl tab st now zone (canon q) qtype cd ecs ds in
      optN_eqb r synth && shobs_eqb (observe_shared now st') obs && check_shared lim maxttl tab zone st' now t
  end.
(* the specification on the history alone: a synthesized denial is a true statement about the zone,
   is never given to a CD=1 or ECS request, and needs an earlier exchange that passed the admission
   guard *)
Fixpoint spec_shared (z : zone) (admitted dirty : bool) (ops : list shop) : bool :=
  match ops with
  | [] => true
  | ShAdvance _ :: t => spec_shared z admitted dirty t
  | ShExchange q qtype cd ecs ds honest synth _ :: t =>
      let qe := canon q in
      match synth with
      | None => true
      | Some rc => negb cd && negb ecs && admitted &&
                   (dirty || (if rc =? 3 then negb (exists_in_b z qe) else nodata_true_b z qe qtype))
      end &&
      let passes := match ds, synth with
                    | DsNegative _ _ _ marked aggressive res_cd, None
                    | DsNegative3 _ _ _ marked aggressive res_cd, None => admission_guard cd ecs marked aggressive res_cd
                    | _, _ => false end in
      (* once records of a changed zone were admitted, truth is no longer judged against this zone *)
      spec_shared z (admitted || passes) (dirty || (passes && negb honest)) t
  end.

Definition check_case (c : case) : bool :=
  match c with
  | CaseShared z maxttl li lc tab ops =>
      check_shared (mk_limits (N.to_nat li) (N.to_nat lc)) maxttl (map (fun p => (canon (fst p), snd p)) tab)
                   (canon (rz_apex z)) shared_empty 0 ops
  | CaseAuthNsec z signer recs signed kept probes =>
      let cs := canon_recs recs in
      let sg := canon signer in
      let f := filter_to_zone sg cs in
      list_eqb N.eqb (map (fun r => N.of_nat (c_idx r)) f) kept &&
      (length signed =? length recs)%nat &&
      forallb (fun p => auth_eqb (authority_nsec_signed (a_rcode p) (a_cd p) (canon (a_q p)) (a_qtype p) (a_qclass p) sg
                                                        (combine cs signed)) p) probes
  | CaseWild z signer nsecs recs3 tab _ sigs e secure =>
      let ctab := map (fun p => (canon (fst p), snd p)) tab in
      let '(me, msec) := wild_answer (map (fun s => (canon (fst s), snd s)) sigs) (canon_recs nsecs) recs3 (canon signer) ctab true in
      (err_code me =? e) && (negb (e =? 0) || Bool.eqb msec secure)
  | CaseWalkNsec z signer recs signed probes =>
      let cs := canon_recs recs in
      let sg := canon signer in
      (length signed =? length recs)%nat &&
      forallb (check_wprobe (fun p m rc => authority_nsec_signed rc (wcd p) m (wqtype p) zone_class sg (combine cs signed)) false sg) probes
  | CaseWalkNsec3 z signer recs kept tab _ probes =>
      let sg := canon signer in
      list_eqb N.eqb (idx_where (fun r => prefix_b sg (canon (r_zone r))) 0 recs) kept &&
      let filtered := keep_idx 0 kept recs in
      let ctab := map (fun p => (canon (fst p), snd p)) tab in
      forallb (check_wprobe (fun p m rc => authority_nsec3 rc (wcd p) m (wqtype p) zone_class sg filtered ctab) (has_optout3 sg recs) sg) probes
  | CaseAuthNsec3 z signer recs signed kept tab _ probes =>
      let sg := canon signer in
      list_eqb N.eqb (idx_where (in_zone3 sg) 0 recs) kept &&
      (length signed =? length recs)%nat &&
      let ctab := map (fun p => (canon (fst p), snd p)) tab in
      forallb (fun p => auth_eqb (authority_nsec3_signed (a_rcode p) (a_cd p) (canon (a_q p)) (a_qtype p) (a_qclass p) sg
                                                         (combine recs signed) ctab) p) probes
  | CaseNsec3Work z signer recs kept prefilter tab _ _ failed probes =>
      check_nsec3 signer recs kept prefilter tab failed probes
  | CaseCut maxttl ops => check_cut maxttl 0 [] ops
  | CaseNsec3 z signer recs kept prefilter tab _ _ probes =>
      check_nsec3 signer recs kept prefilter tab [] probes
  | CaseCmp a b cmp shared inzone =>
      (cmp_sign (go_canonical_compare a b) =? cmp) &&
      (cmp_sign (ncmp (canon a) (canon b)) =? cmp) &&
      (N.of_nat (go_compare_suffix a b) =? shared) &&
      (N.of_nat (lcp (canon a) (canon b)) =? shared) &&
      Bool.eqb (prefix_b (canon b) (canon a)) inzone
  | CaseNsec z signer recs kept prefilter probes =>
      let cs := canon_recs recs in
      let sg := canon signer in
      let f := filter_to_zone sg cs in
      list_eqb N.eqb (map (fun r => N.of_nat (c_idx r)) f) kept &&
      let filtered := reindex f in
      let aggr_in := if prefilter then filtered else cs in
      forallb (check_nprobe sg filtered aggr_in) probes
  end.

(* ---- the specification oracle. *)

Definition spec_aobs (z : zone) (qe : rname) (qtype qclass : N) (o : aobs) : bool :=
  if fst o =? 13 then (qclass =? zone_class) && negb (exists_in_b z qe)
  else if fst o =? 10 then (qclass =? zone_class) && nodata_true_b z qe qtype
  else true.

(* the aggressive verdicts are judged against the zone when every record the evaluator saw is a genuine
   record of the zone (aggr_ok), and also (mix_ok, session 4) when the rest of them are records of other
   zones confined to the subtrees below the zone's own cut owners [ds] — a child zone's chain replayed
   into the parent's answer — and the question lies outside those subtrees
   (Properties.aggressive_nsec_sound_foreign_subtrees is the statement judged) *)
Definition spec_nprobe (z : zone) (exact_ok aggr_ok mix_ok : bool) (ds : list rname) (p : nprobe) : bool :=
  let qe := canon (effective_qname (p_q p) (p_dname p)) in
  if negb (prefix_b (z_apex z) qe) then true else
  (negb exact_ok ||
     ((negb (p_ne p =? 0) || negb (exists_in_b z qe)) &&
      (negb (p_nd p =? 0) || nodata_true_b z qe (p_qtype p)) &&
      (negb (p_dl p =? 0) || insecure_delegation_b z (canon (p_q p))))) &&
  (negb (aggr_ok || (mix_ok && outside_b ds qe)) ||
     (spec_aobs z qe (p_qtype p) (p_qclass p) (p_ag p) &&
      spec_aobs z qe (p_qtype p) (p_qclass p) (p_agp p) &&
      spec_aobs z qe (p_qtype p) (p_qclass p) (p_ags p))).

Definition spec_probe3 (z : zone) (exact_ok aggr_ok : bool) (p : probe3) : bool :=
  let qe := canon (effective_qname (q3 p) (q3dname p)) in
  if negb (prefix_b (z_apex z) qe) then true else
  (negb exact_ok ||
     (* an authenticated (secure) acceptance must be true; an Opt-Out based one claims nothing *)
     ((negb ((fst (o_ne p) =? 0) && snd (o_ne p)) || ((q3class p =? zone_class) && negb (exists_in_b z qe))) &&
      (negb ((fst (o_nd p) =? 0) && snd (o_nd p)) || ((q3class p =? zone_class) && nodata_true_b z qe (q3type p))) &&
      (* an accepted insecure-delegation proof for an owner of the zone needs NS and neither DS nor SOA there *)
      (negb (o_dl p =? 0) || negb (owner_b z (canon (q3 p))) || insecure_delegation_b z (canon (q3 p))) &&
      (* round 6: "no DS, the delegation is insecure" — from VerifyDelegationForZoneWithWork, or as an accepted DS NODATA
         (secure or Opt-Out) — is never accepted for a name strictly below a delegation that has a DS, or below a DNAME *)
      (negb (o_dl p =? 0) || negb (below_secure_cut_b z (canon (q3 p)))) &&
      (negb ((fst (o_nd p) =? 0) && (q3type p =? T_DS)) || negb (below_secure_cut_b z qe)))) &&
  (negb aggr_ok || spec_aobs z qe (q3type p) (q3class p) (o_ag p)).

Definition spec_case (c : case) : bool :=
  match c with
  | CaseShared rz maxttl _ _ _ ops =>
      let z := canon_zone rz in
      if negb (zone_wf_b z) then true else spec_shared z false false ops
  | CaseAuthNsec rz signer recs signed kept probes =>
      let z := canon_zone rz in
      let cs := canon_recs recs in
      (* judged when everything the ZONE'S key signed is a genuine chain record; records that are unsigned or
         signed by another zone's key are arbitrary (Properties.authority_nsec_signed_sound) *)
      if negb (zone_wf_b z && rname_eqb (canon signer) (z_apex z) &&
               forallb (fun rs => negb (snd rs) || (genuine_b z (fst rs) && (c_class (fst rs) =? zone_class))) (combine cs signed)) then true else
      forallb (spec_aprobe z) probes
  | CaseWild rz signer nsecs recs3 tab judged sigs e secure =>
      let z := canon_zone rz in
      (* an accepted, authenticated Answer denies every next closer name: none of them may exist directly (as an
         owner or an empty non-terminal) when the denial records are genuine records of the zone *)
      if negb (zone_wf_b z && rname_eqb (canon signer) (z_apex z) && judged &&
               forallb (fun r => genuine_b z r && (c_class r =? zone_class)) (canon_recs nsecs)) then true else
      negb ((e =? 0) && secure) ||
      forallb (fun nc => negb (prefix_b (z_apex z) nc) || negb (exists_direct_b z nc))
              (wild_denied (map (fun s => (canon (fst s), snd s)) sigs))
  | CaseWalkNsec rz signer recs signed probes =>
      let z := canon_zone rz in
      let cs := canon_recs recs in
      if negb (zone_wf_b z && rname_eqb (canon signer) (z_apex z) &&
               forallb (fun rs => negb (snd rs) || (genuine_b z (fst rs) && (c_class (fst rs) =? zone_class))) (combine cs signed)) then true else
      forallb (spec_wprobe z) probes
  | CaseWalkNsec3 rz signer recs kept tab judged probes =>
      let z := canon_zone rz in
      if negb (zone_wf_b z && rname_eqb (canon signer) (z_apex z) && judged) then true else
      forallb (spec_wprobe z) probes
  | CaseAuthNsec3 rz signer recs signed kept tab judged probes =>
      let z := canon_zone rz in
      if negb (zone_wf_b z && rname_eqb (canon signer) (z_apex z) && judged) then true else
      forallb (spec_aprobe z) probes
  | CaseNsec3Work rz signer recs kept prefilter tab exact_judged aggr_judged failed probes =>
      let z := canon_zone rz in
      (match failed with [] => true | _ => forallb no_denial3 probes end) &&
      (if negb (zone_wf_b z && rname_eqb (canon signer) (z_apex z)) then true else
       forallb (spec_probe3 z exact_judged aggr_judged) probes)
  | CaseCut maxttl ops => spec_cut maxttl 0 [] ops
  | CaseNsec3 rz signer recs kept prefilter tab exact_judged aggr_judged probes =>
      let z := canon_zone rz in
      if negb (zone_wf_b z && rname_eqb (canon signer) (z_apex z)) then true else
      forallb (spec_probe3 z exact_judged aggr_judged) probes
  | CaseCmp a b cmp shared inzone =>
      (* antisymmetry and the subdomain reading are checked against the spec order *)
      (cmp_sign (ncmp (canon a) (canon b)) =? cmp) && Bool.eqb (prefix_b (canon b) (canon a)) inzone
  | CaseNsec rz signer recs kept prefilter probes =>
      let z := canon_zone rz in
      let cs := canon_recs recs in
      let keptrecs := filter (fun r => existsb (N.eqb (N.of_nat (c_idx r))) kept) cs in
      if negb (zone_wf_b z && rname_eqb (canon signer) (z_apex z)) then true else
      let exact_ok := forallb (genuine_b z) keptrecs in
      let aggr_in := if prefilter then keptrecs else cs in
      let aggr_ok := forallb (fun r => genuine_b z r && (c_class r =? zone_class)) aggr_in in
      (* the roots that matter: cut owners of the zone below which a record that is not the zone's own lies *)
      let ds := filter (fun d => existsb (fun r => negb (genuine_b z r) && confined_b [d] r) aggr_in) (mix_roots z) in
      let mix_ok := forallb (fun r => (genuine_b z r || confined_b ds r) && (c_class r =? zone_class)) aggr_in in
      forallb (spec_nprobe z exact_ok aggr_ok mix_ok ds) probes
  end.
