(* C11 — the TCP / DoT stream path: server/tcp_stream.go (arm, beforeWrite, beforeRead, flush,
   stage, body, next, fillMore) inside the per-connection loop of server/tcp_engine.go
   (serveConn, serveFrame, FlushStaged, the deferred last flush).  Definitions only.

   One connection goroutine, so the model is sequential.  Time is a virtual clock in ms.
   The connection is a socket with faithful deadline semantics: an operation issued at or
   after the armed bound fails at once; one that blocks is released (failing) at the bound.
   The environment: the client's byte chunks (instant, length), the instant it closes, the
   instant from which it stops reading; per announced frame: payload length, whether the
   chain answers it on the strict path (hit) or leaves for the slow lane (miss: FlushStaged,
   then the resolution takes [tf_delay] ms, capped by the query timeout), and whether the
   reply is larger than the drain buffer.

   Not modelled: the drain buffer overflowing with ordinary replies (stage's second
   beforeWrite / flush site; the scenarios keep a burst's replies below tcpDrainSize), the
   fill buffer running full (frames larger than tcpFillSize), slab acquisition under
   contention (acquire's wait), shutdown, TLS. *)
From Sdns Require Export Common.Base Gen.C11.
Open Scope Z_scope.

Record tframe := mk_tframe { tf_len : Z; tf_miss : bool; tf_delay : Z; tf_big : bool }.
Record chunk := mk_chunk { ch_t : Z; ch_n : Z }.
(* [tc_eof], [tc_stall]: instants, negative = never *)
Record tconn := mk_tconn { tc_chunks : list chunk; tc_eof : Z; tc_stall : Z }.

Inductive tev :=
| TSetDeadline (at_ bound : Z)
| TWrite (issued returned bound : Z) (ok : bool) (ids : list nat)
| TClose (at_ : Z)
| TStuck.

(* the waits, in ms, from the source *)
Definition ms (ns : Z) : Z := ns / 1000000.
Definition w_first : Z := ms tcp_first_read_wait.
Definition w_idle  : Z := ms tcp_idle_wait.
Definition w_query : Z := ms tcp_query_wait.
Definition w_write : Z := ms tcp_write_wait.

Record sst := mk_sst {
  s_now : Z;
  s_deadline : Z;        (* tcpStream.deadline, 0 = the zero Time *)
  s_armed : Z;           (* tcpStream.armed = what the connection carries *)
  s_avail : Z;           (* end - start of the fill buffer *)
  s_inq : list chunk;    (* chunks the client has not sent yet *)
  s_held : list nat;     (* replies staged in the drain buffer (frame ids) *)
  s_werr : bool;
  s_trace : list tev;    (* newest first *)
  s_served : nat         (* ghost: frames whose handler has run *)
}.

Definition st0 (c : tconn) : sst := mk_sst 0 0 0 0 (tc_chunks c) [] false [] 0.
Definition emit (st : sst) (e : tev) : sst :=
  mk_sst (s_now st) (s_deadline st) (s_armed st) (s_avail st) (s_inq st) (s_held st) (s_werr st) (e :: s_trace st) (s_served st).
Definition set_deadline (st : sst) (d : Z) : sst :=
  mk_sst (s_now st) d (s_armed st) (s_avail st) (s_inq st) (s_held st) (s_werr st) (s_trace st) (s_served st).
Definition set_now (st : sst) (t : Z) : sst :=
  mk_sst t (s_deadline st) (s_armed st) (s_avail st) (s_inq st) (s_held st) (s_werr st) (s_trace st) (s_served st).
Definition set_avail (st : sst) (a : Z) (q : list chunk) : sst :=
  mk_sst (s_now st) (s_deadline st) (s_armed st) a q (s_held st) (s_werr st) (s_trace st) (s_served st).
Definition set_held (st : sst) (h : list nat) (werr : bool) : sst :=
  mk_sst (s_now st) (s_deadline st) (s_armed st) (s_avail st) (s_inq st) h werr (s_trace st) (s_served st).

(* tcpStream.arm: one SetDeadline, and only when the bound changed *)
Definition arm (st : sst) : sst :=
  if s_armed st =? s_deadline st then st
  else mk_sst (s_now st) (s_deadline st) (s_deadline st) (s_avail st) (s_inq st) (s_held st) (s_werr st)
              (TSetDeadline (s_now st) (s_deadline st) :: s_trace st) (s_served st).

(* tcpStream.beforeWrite *)
Definition before_write (st : sst) : sst := arm (set_deadline st (s_now st + w_write)).

Definition expired (st : sst) : bool := negb (s_armed st =? 0) && (s_armed st <=? s_now st).
Definition stalled (c : tconn) (t : Z) : bool := (0 <=? tc_stall c) && (tc_stall c <=? t).

(* conn.Write of the frames [ids] *)
Definition conn_write (c : tconn) (st : sst) (ids : list nat) : sst * bool :=
  if expired st then (emit st (TWrite (s_now st) (s_now st) (s_armed st) false []), false)
  else if stalled c (s_now st) then
    if s_armed st =? 0 then (emit st TStuck, false)
    else (emit (set_now st (s_armed st)) (TWrite (s_now st) (s_armed st) (s_armed st) false []), false)
  else (emit st (TWrite (s_now st) (s_now st) (s_armed st) true ids), true).

(* tcpStream.flush; the bool is "returned an error" *)
Definition flush (c : tconn) (st : sst) : sst * bool :=
  if s_werr st then (st, true)
  else match s_held st with
       | [] => (st, false)
       | h => let st1 := arm st in
              let '(st2, ok) := conn_write c st1 h in
              (set_held st2 [] (negb ok), negb ok)
       end.

(* tcpStream.stage *)
Definition stage (c : tconn) (st : sst) (id : nat) (big : bool) : sst :=
  if s_werr st then st
  else if big then
    let st1 := before_write st in
    let '(st2, err) := flush c st1 in
    if err then st2
    else let '(st3, ok) := conn_write c st2 [id] in
         set_held st3 (s_held st3) (negb ok)
  else set_held st (s_held st ++ [id]) false.

(* the bytes that have arrived by [t] *)
Fixpoint arrived (t : Z) (q : list chunk) : Z * list chunk :=
  match q with
  | [] => (0, [])
  | x :: r => if ch_t x <=? t then let '(n, r') := arrived t r in (ch_n x + n, r') else (0, q)
  end.

(* one conn.Read (tcpStream.fillMore); false = it returned an error *)
Definition conn_read (c : tconn) (st : sst) : sst * bool :=
  if expired st then (st, false)
  else
    let '(n, q) := arrived (s_now st) (s_inq st) in
    if 0 <? n then (set_avail st (s_avail st + n) q, true)
    else
      let eof_on := 0 <=? tc_eof c in
      if eof_on && (tc_eof c <=? s_now st) then (st, false)
      else
        (* blocks: the next chunk, the client's close, or the armed bound, whichever is first;
           the bound wins a tie (the deadline is checked before the data) *)
        let bound_on := negb (s_armed st =? 0) in
        match q with
        | x :: _ =>
            let t := ch_t x in
            if bound_on && (s_armed st <=? t) && negb (eof_on && (tc_eof c <? s_armed st))
            then (set_now st (s_armed st), false)
            else if eof_on && (tc_eof c <? t) then (set_now st (tc_eof c), false)
            else let st1 := set_now st t in
                 let '(n1, q1) := arrived t q in
                 (set_avail st1 (s_avail st1 + n1) q1, true)
        | [] =>
            if eof_on && negb (bound_on && (s_armed st <=? tc_eof c)) then (set_now st (tc_eof c), false)
            else if bound_on then (set_now st (s_armed st), false)
            else (emit st TStuck, false)
        end.

(* tcpStream.next / body's loop: read until [n] bytes are in hand *)
Fixpoint read_until (c : tconn) (fuel : nat) (st : sst) (n : Z) : sst * bool :=
  if n <=? s_avail st then (st, true)
  else match fuel with
       | O => (emit st TStuck, false)
       | S f => let '(st1, ok) := conn_read c st in
                if ok then read_until c f st1 n else (st1, false)
       end.

Definition prefix_buffered (st : sst) : bool :=
  go_tcpStream_framePrefixBuffered (mk_T_tcpStream [] 0 (s_avail st) [] 0 false 0 0).

(* tcpStream.beforeRead *)
Definition before_read (c : tconn) (st : sst) (wait : Z) : sst * bool :=
  if prefix_buffered st then (st, false)
  else let st1 := arm (set_deadline st (s_now st + wait)) in flush c st1.

(* serveFrame for an accepted header: Server.ServeRaw and the chain *)
Definition count_served (st : sst) : sst :=
  mk_sst (s_now st) (s_deadline st) (s_armed st) (s_avail st) (s_inq st) (s_held st) (s_werr st) (s_trace st) (S (s_served st)).

Definition serve_frame (c : tconn) (qt rt : Z) (st : sst) (id : nat) (f : tframe) : sst :=
  count_served
  (if tf_miss f then
    (* leaving the strict path: FlushStaged = beforeWrite; flush (its error is dropped) *)
    let '(st1, _) := flush c (before_write st) in
    (* the resolution, cut at the request's deadline = read time + query timeout *)
    let st2 := set_now st1 (Z.max (s_now st1) (Z.min (s_now st1 + tf_delay f) (rt + qt))) in
    (* a resolution that ran out of budget is answered with the (small) deadline SERVFAIL *)
    stage c st2 id (tf_big f && (s_now st1 + tf_delay f <? rt + qt))
  else stage c st id false).

(* the deferred last flush of serveConn, then conn.Close *)
Definition finish (c : tconn) (st : sst) : sst :=
  let st1 := match s_held st with
             | [] => st
             | _ => fst (flush c (before_write st))
             end in
  emit st1 (TClose (s_now st1)).

(* serveConn's loop; one iteration per announced frame *)
Fixpoint serve_conn (c : tconn) (qt : Z) (fuel : nat) (frames : list tframe) (id : nat) (wait : Z) (st : sst) : sst :=
  let '(st1, err) := before_read c st wait in
  if err then finish c st1
  else
    let '(st2, ok) := read_until c fuel st1 frame_prefix_len in
    if negb ok then finish c st2
    else match frames with
         | [] => finish c (emit st2 TStuck)   (* bytes nobody scripted *)
         | f :: rest =>
             let st3 := set_avail st2 (s_avail st2 - frame_prefix_len) (s_inq st2) in
             (* the query's clock starts where its frame announced itself *)
             let st4 := set_deadline st3 (s_now st3 + w_query) in
             let st5 := if s_avail st4 <? tf_len f then arm st4 else st4 in
             let '(st6, ok2) := read_until c fuel st5 (tf_len f) in
             if negb ok2 then finish c st6
             else
               let st7 := set_avail st6 (s_avail st6 - tf_len f) (s_inq st6) in
               serve_conn c qt fuel rest (S id) w_idle (serve_frame c qt (s_now st3) st7 id f)
         end.

Definition run_conn (qt : Z) (frames : list tframe) (c : tconn) : list tev :=
  rev (s_trace (serve_conn c qt (S (length (tc_chunks c))) frames 1 w_first (st0 c))).

(* ---- what a trace says ---- *)
Definition tev_eqb (a b : tev) : bool :=
  match a, b with
  | TSetDeadline t d, TSetDeadline t' d' => (t =? t') && (d =? d')
  | TWrite a1 a2 a3 ok ids, TWrite b1 b2 b3 ok' ids' =>
      (a1 =? b1) && (a2 =? b2) && (a3 =? b3) && Bool.eqb ok ok' &&
      (length ids =? length ids')%nat && forallb (fun p => (fst p =? snd p)%nat) (combine ids ids')
  | TClose t, TClose t' => t =? t'
  | TStuck, TStuck => true
  | _, _ => false
  end.

(* a write issued under a bound that is armed and has not passed *)
Definition live_write (e : tev) : bool :=
  match e with
  | TWrite issued _ bound _ _ => negb (bound =? 0) && (issued <? bound)
  | _ => true
  end.

Definition written_ids (tr : list tev) : list nat :=
  flat_map (fun e => match e with TWrite _ _ _ true ids => ids | _ => [] end) tr.
Definition count_id (i : nat) (l : list nat) : nat := length (filter (Nat.eqb i) l).
