(* C11 — proofs about the request context (Model part 5). *)
From Sdns Require Import Common.Base Gen.C11 C11.Model.

(* the first terminal cause is kept for good, whatever is called afterwards *)
Lemma lazy_cause_sticky_lemma l o c : lz_term l = Some c -> lz_term (fst (lz_step l o)) = Some c.
Proof.
  intros H. destruct o; cbn.
  - unfold lz_err. destruct (lz_mat l); cbn; [exact H|]. rewrite H. exact H.
  - unfold lz_materialize. destruct (lz_mat l); [exact H|]. rewrite H. exact H.
  - destruct (lz_mat l); cbn; [now rewrite H|]. rewrite H. exact H.
  - destruct (lz_mat l); [now rewrite H|exact H].
  - destruct (lz_mat l); [now rewrite H|exact H].
  - unfold lz_err. destruct (lz_mat l); cbn; [exact H|]. rewrite H. exact H.
Qed.

Lemma lazy_cause_sticky_run ops : forall l c, lz_term l = Some c -> lz_term (fst (lz_run l ops)) = Some c.
Proof.
  induction ops as [|o ops IH]; intros l c H; cbn; auto.
  pose proof (lazy_cause_sticky_lemma l o c H) as H1.
  destruct (lz_step l o) as [l1 x]. cbn in H1. specialize (IH l1 c H1).
  destruct (lz_run l1 ops). exact IH.
Qed.

(* a pinned cause is what Err reports *)
Lemma err_reports_pinned l c : lz_term l = Some c -> snd (lz_err l) = c.
Proof. intros H. unfold lz_err, term_code. destruct (lz_mat l); rewrite H; reflexivity. Qed.

(* well-formed states: an armed context with no cause is strictly before its deadline with a
   live parent; a pinned cause is a real cause *)
Definition lz_wf (l : lz) : Prop :=
  (lz_mat l = true -> lz_term l = None -> lz_parent l = false /\ (lz_now l < lz_deadline l)%Z) /\
  lz_term l <> Some CNone.

Lemma lz_wf_init d : lz_wf (lz_init d).
Proof. split; cbn; [discriminate|discriminate]. Qed.

Lemma lz_pin_wf l : lz_wf (lz_pin l).
Proof.
  unfold lz_wf, lz_pin, lz_cause; cbn. destruct (lz_parent l); cbn.
  - split; discriminate.
  - destruct (Z.ltb_spec (lz_now l) (lz_deadline l)); cbn; split; auto; discriminate.
Qed.

Lemma lz_err_wf l : lz_wf l -> lz_wf (fst (lz_err l)).
Proof.
  intros H. unfold lz_err. destruct (lz_mat l); [exact H|].
  destruct (lz_term l); [exact H|]. destruct (lz_cause l); [exact H|apply lz_pin_wf|apply lz_pin_wf].
Qed.

Lemma lz_step_wf l o : (match o with LSleep d => (0 <= d)%Z | _ => True end) -> lz_wf l -> lz_wf (fst (lz_step l o)).
Proof.
  intros Hd H. destruct o; cbn.
  - pose proof (lz_err_wf l H). destruct (lz_err l); exact H0.
  - unfold lz_materialize. destruct (lz_mat l); [exact H|]. destruct (lz_term l); [exact H|apply lz_pin_wf].
  - destruct H as [H1 H2]. destruct (lz_mat l) eqn:Em; cbn.
    + split; cbn; [destruct (lz_term l); discriminate|destruct (lz_term l) as [c|]; [exact H2|discriminate]].
    + destruct (lz_term l) eqn:Et; cbn.
      * split; cbn; [rewrite Em; discriminate|rewrite Et; exact H2].
      * destruct (lz_parent l); cbn; [apply lz_pin_wf|].
        split; cbn; [discriminate|]. destruct (lz_now l <? lz_deadline l)%Z; discriminate.
  - destruct H as [H1 H2]. split; cbn.
    + intros Em Et. rewrite Em in Et. destruct (lz_term l); discriminate.
    + destruct (lz_mat l); [destruct (lz_term l) as [c|]; [exact H2|discriminate]|exact H2].
  - destruct H as [H1 H2]. split; cbn.
    + intros Em Et. rewrite Em in Et. destruct (lz_term l) eqn:E; [discriminate|].
      destruct (H1 Em eq_refl) as [Hp Hn]. split; [exact Hp|].
      destruct (Z.ltb_spec (lz_now l + d) (lz_deadline l)); [assumption|discriminate].
    + destruct (lz_mat l); [|exact H2]. destruct (lz_term l) as [c|]; [exact H2|].
      destruct (lz_now l + d <? lz_deadline l)%Z; discriminate.
  - pose proof (lz_err_wf l H). destruct (lz_err l); exact H0.
Qed.

(* EffectiveError is nil exactly while no cause exists: not cancelled by anybody and
   strictly before the deadline *)
Lemma effective_error_exact_lemma l : lz_wf l ->
  (snd (lz_step l LEffective) = 0%N <->
   lz_term l = None /\ lz_parent l = false /\ (lz_now l < lz_deadline l)%Z).
Proof.
  intros [H1 H2]. cbn. unfold lz_err, term_code.
  destruct (lz_mat l) eqn:Em.
  - destruct (lz_term l) as [c|] eqn:Et.
    + cbn. split; [|intros [E _]; discriminate].
      destruct c; cbn; intros E; try discriminate E; exfalso; apply H2; reflexivity.
    + destruct (H1 eq_refl eq_refl) as [Hp Hn]. cbn.
      destruct (Z.ltb_spec (lz_now l) (lz_deadline l)); [|lia]. cbn. tauto.
  - destruct (lz_term l) as [c|] eqn:Et.
    + cbn. split; [|intros [E _]; discriminate].
      destruct c; cbn; intros E; try discriminate E; exfalso; apply H2; reflexivity.
    + unfold lz_pin, lz_cause. destruct (lz_parent l) eqn:Ep; cbn.
      * split; [intros E; discriminate E|intros (_ & E & _); discriminate E].
      * destruct (Z.ltb_spec (lz_now l) (lz_deadline l)); cbn.
        -- destruct (Z.ltb_spec (lz_now l) (lz_deadline l)); [|lia]. cbn. tauto.
        -- split; [intros E; discriminate E|intros (_ & _ & E); lia].
Qed.

Example lazy_example :
  snd (lz_run (lz_init 10) [LErr; LSleep 10; LParentCancel; LEffective; LErr; LCancel; LErr]) = [0; 0; 0; 2; 2; 0; 2]%N.
Proof. reflexivity. Qed.
