(* C11 — proofs about Inline.v: one question costs each rate limiter it reaches one token and
   gets one reply, whichever way it travels (one full pass on a worker; inline pass on the
   reader; inline pass, handoff, replay), for every bucket state, client shape, entry size and
   history. *)
From Sdns Require Import Common.Base Gen.C11 C11.Inline.
Open Scope Z_scope.

Lemma bk_allow_fst : forall r u b now, fst (bk_allow r u b now) = (u <=? bk_level r u b now).
Proof. intros; unfold bk_allow; destruct (u <=? _); reflexivity. Qed.

(* what "the rate policy admits the query" means, as two Allows in the chain's order: the
   client's limiter (if it applies), then the entry's *)
Definition client_admits (cr : Z) (q : iquery) (cb : bucket) : bool :=
  if client_limited cr q then fst (bk_allow cr client_unit cb (iq_at q)) else true.
Definition client_after (cr : Z) (q : iquery) (cb : bucket) : bucket :=
  if client_limited cr q then snd (bk_allow cr client_unit cb (iq_at q)) else cb.
Definition rate_admits (cr r : Z) (q : iquery) (cb b : bucket) : bool :=
  client_admits cr q cb && fst (bk_allow r entry_unit b (iq_at q)).

Ltac crush q cr r cb b :=
  unfold serve_query, chain_pass, client_gate, run_pass, ladder, msg_body,
         rate_admits, client_admits, client_after;
  destruct (iq_inline q); destruct (client_limited cr q); destruct (fits q); simpl;
  destruct (bk_allow cr client_unit cb (iq_at q)) as [cok cb1] eqn:EC; try destruct cok; simpl;
  destruct (bk_allow r entry_unit b (iq_at q)) as [ok b1] eqn:E; try destruct ok; simpl;
  try rewrite EC; try rewrite E; simpl; try rewrite E; simpl; try reflexivity.

(* without a commit-time backstop: the client's bucket afterwards is the bucket after exactly one
   Allow at the query's arrival (untouched when the limiter does not apply), by every route:
   the replay never charges it again *)
Lemma serve_query_client_once : forall cr r q cb b,
  snd (fst (serve_query cr r false q cb b)) = client_after cr q cb.
Proof. intros cr r q cb b. crush q cr r cb b. Qed.

(* ... and the entry's bucket is the bucket after exactly one Allow when the client's limiter
   let the query through, untouched otherwise *)
Lemma serve_query_charges_once : forall cr r q cb b,
  snd (serve_query cr r false q cb b) =
  if client_admits cr q cb then snd (bk_allow r entry_unit b (iq_at q)) else b.
Proof. intros cr r q cb b. crush q cr r cb b. Qed.

(* it is answered exactly when the rate policy admits it *)
Lemma serve_query_replies : forall cr r q cb b,
  replies_of (fst (fst (fst (serve_query cr r false q cb b)))) = if rate_admits cr r q cb b then 1 else 0.
Proof. intros cr r q cb b. crush q cr r cb b. Qed.

(* an inline pass of the cache that hands off has written nothing and has charged nothing; it
   hands off exactly the queries whose reply does not fit the client's ceiling *)
Lemma handoff_unwritten_uncharged : forall r q b now b',
  run_pass r false KInline q b now = (PHandoff, b') -> b' = b /\ fits q = false.
Proof.
  intros r q b now b'. unfold run_pass, ladder.
  destruct (fits q); simpl.
  - destruct (bk_allow r entry_unit b now) as [ok b1]; destruct ok; simpl; discriminate.
  - intros H; inversion H; auto.
Qed.

Lemma handoff_iff_inline_and_over : forall cr r q cb b,
  snd (fst (fst (serve_query cr r false q cb b))) = iq_inline q && negb (fits q) && client_admits cr q cb.
Proof. intros cr r q cb b. crush q cr r cb b. Qed.

(* a reply is truncated exactly when it does not fit (it left through the message path) *)
Lemma truncated_iff_over : forall cr r q cb b,
  replies_of (fst (fst (fst (serve_query cr r false q cb b)))) = 1 ->
  tc_of (fst (fst (fst (serve_query cr r false q cb b)))) = negb (fits q).
Proof. intros cr r q cb b. crush q cr r cb b; discriminate. Qed.

Lemma bk_level_after_allow : forall r u b now,
  0 <= r -> 0 <= u ->
  bk_level r u (snd (bk_allow r u b now)) now =
  bk_level r u b now - (if fst (bk_allow r u b now) then u else 0).
Proof.
  intros r u b now Hr Hu. unfold bk_allow.
  destruct (u <=? bk_level r u b now) eqn:E; simpl.
  - unfold bk_level at 1; simpl. rewrite Z.sub_diag. simpl.
    assert (bk_level r u b now <= r * u) by (unfold bk_level; lia). lia.
  - lia.
Qed.

Lemma entry_unit_nonneg : 0 <= entry_unit. Proof. vm_compute; discriminate. Qed.
Lemma client_unit_nonneg : 0 <= client_unit. Proof. vm_compute; discriminate. Qed.

Lemma iobs_of_spec : forall cr r q cb b, 0 <= cr -> 0 <= r ->
  iobs_spec (fst (fst (iobs_of cr r false q cb b))) = true.
Proof.
  intros cr r q cb b Hcr Hr. unfold iobs_of.
  pose proof (serve_query_client_once cr r q cb b) as Hcb.
  pose proof (serve_query_charges_once cr r q cb b) as Hc.
  pose proof (serve_query_replies cr r q cb b) as Hp.
  destruct (serve_query cr r false q cb b) as [[[res ho] cb'] b'] eqn:E. simpl in *.
  subst cb' b'. unfold iobs_spec; simpl.
  rewrite Hp. unfold rate_admits, client_admits, client_after.
  destruct (client_limited cr q); simpl.
  - rewrite (bk_level_after_allow cr client_unit cb (iq_at q) Hcr client_unit_nonneg).
    rewrite !bk_allow_fst.
    destruct (client_unit <=? bk_level cr client_unit cb (iq_at q)); simpl.
    + rewrite (bk_level_after_allow r entry_unit b (iq_at q) Hr entry_unit_nonneg), bk_allow_fst.
      destruct (entry_unit <=? bk_level r entry_unit b (iq_at q)); simpl; rewrite !Z.eqb_refl; reflexivity.
    + rewrite !Z.eqb_refl. rewrite Z.sub_0_r, Z.eqb_refl. reflexivity.
  - rewrite (bk_level_after_allow r entry_unit b (iq_at q) Hr entry_unit_nonneg), bk_allow_fst.
    destruct (entry_unit <=? bk_level r entry_unit b (iq_at q)); simpl; rewrite !Z.eqb_refl; reflexivity.
Qed.

(* every history over any number of cached names and clients: every observation satisfies the
   property's reading of "admitted by rate policy => exactly one reply, one token each" *)
Lemma run_inline_spec : forall cr r qs cbs bs, 0 <= cr -> 0 <= r ->
  forallb iobs_spec (run_inline cr r cbs bs qs) = true.
Proof.
  intros cr r qs; induction qs as [|q rest IH]; intros cbs bs Hcr Hr; simpl; [reflexivity|].
  pose proof (iobs_of_spec cr r q (nth (pred (iq_client q)) cbs (bk_full cr client_unit))
                (nth (iq_name q) bs (bk_full r entry_unit)) Hcr Hr) as H.
  destruct (iobs_of cr r false q (nth (pred (iq_client q)) cbs (bk_full cr client_unit))
              (nth (iq_name q) bs (bk_full r entry_unit))) as [[o cb'] b'] eqn:E. simpl in *.
  rewrite H. apply IH; assumption.
Qed.

(* the hypothesis "no commit-time backstop" is necessary: the source accepts that "an inline
   query dropped there pays a second token on the replay"; with one token in the bucket that
   second charge is refused and the admitted query gets no reply *)
Lemma backstop_inline_loses_admitted_query :
  let q := mk_iq 5000 0 0 true true 1232 false 100 in
  bk_level 1 entry_unit (bk_full 1 entry_unit) (iq_at q) = entry_unit /\
  fst (fst (serve_query 0 1 true q (bk_full 0 client_unit) (bk_full 1 entry_unit))) = (PDropped, true).
Proof. vm_compute. split; reflexivity. Qed.

(* the same query without the backstop, by every route *)
Example inline_served_on_the_reader :
  fst (fst (serve_query 0 1 false (mk_iq 5000 0 0 true true 1232 false 100) (bk_full 0 client_unit) (bk_full 1 entry_unit)))
  = (PServed false, false).
Proof. reflexivity. Qed.
Example inline_over_ceiling_is_replayed_and_truncated :
  let q := mk_iq 5000 0 1 true false 0 false 600 in
  serve_query 30 1 false q (bk_full 30 client_unit) (bk_full 1 entry_unit)
  = (PServed true, true, mk_bucket (29 * 60000) 5000, mk_bucket 0 5000).
Proof. vm_compute. reflexivity. Qed.
Example second_query_within_the_second_is_refused :
  map io_replies (run_inline 0 1 [] [bk_full 1 entry_unit]
                    [mk_iq 5000 0 0 true false 0 false 600; mk_iq 5400 0 0 false true 1232 false 600;
                     mk_iq 6001 0 0 true true 512 false 600]) = [1; 0; 1].
Proof. reflexivity. Qed.
(* a remote client with a per-minute budget of 2: its third query inside the minute is dropped by
   the ratelimit middleware and costs the entry nothing; a loopback client is not limited *)
Example client_budget_is_per_question :
  map (fun o => (io_replies o, io_cafter o, io_after o))
      (run_inline 2 5 [bk_full 2 client_unit] [bk_full 5 entry_unit]
         [mk_iq 1000 0 1 true false 0 false 600; mk_iq 3000 0 1 false true 1232 false 100;
          mk_iq 5000 0 1 true true 1232 false 100; mk_iq 5001 0 0 true true 1232 false 100])
  = [(1, 60000, 4000); (1, 4000, 4000); (0, 8000, 5000); (1, 0, 4000)].
Proof. vm_compute. reflexivity. Qed.
