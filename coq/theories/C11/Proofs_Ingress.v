(* C11 — proofs about Ingress.v (session 5). *)
From Sdns Require Import Common.Base Common.GoList Gen.C11 C11.Ingress.

(* ---- the two flag readers of the translated header, on every 16-bit flags word (finite domain) ---- *)
Definition all_below (n : N) (p : N -> bool) : bool :=
  fst (N.iter n (fun s => (fst s && p (snd s), (snd s + 1)%N)) (true, 0%N)).
Lemma all_below_spec : forall n p, all_below n p = true -> forall f, (f < n)%N -> p f = true.
Proof.
  intros n p. unfold all_below.
  set (F := fun s : bool * N => (fst s && p (snd s), (snd s + 1)%N)).
  assert (H : forall n, snd (N.iter n F (true, 0%N)) = n /\
              (fst (N.iter n F (true, 0%N)) = true -> forall f, (f < n)%N -> p f = true)).
  { induction n0 as [|m IH] using N.peano_ind.
    - simpl. split; auto. intros _ f Hf. lia.
    - rewrite N.iter_succ. destruct IH as [IH1 IH2]. unfold F at 1. simpl. split; [lia|].
      intros H f Hf. apply andb_true_iff in H as [Ha Hb].
      destruct (N.eq_dec f m) as [->|Ne]; [rewrite IH1 in Hb; exact Hb|]. apply IH2; auto. lia. }
  intros Hn. apply (proj2 (H n)). exact Hn.
Qed.

Definition hdr_of_flags (f : N) : T_Header := mk_T_Header 0 f 0 0 0 0.
Definition flags_ok (f : N) : bool :=
  Bool.eqb (go_Header_QR (hdr_of_flags f)) (32768 <=? f)%N &&
  (go_Header_Opcode (hdr_of_flags f) =? Z.of_N ((f / 2048) mod 16))%Z.
Lemma flags_all : all_below 65536 flags_ok = true.
Proof. vm_compute. reflexivity. Qed.

Lemma qr_of_flags : forall h, (T_Header_Flags h < 65536)%N ->
  go_Header_QR h = (32768 <=? T_Header_Flags h)%N.
Proof.
  intros h Hf. pose proof (all_below_spec _ _ flags_all _ Hf) as H. unfold flags_ok in H.
  apply andb_true_iff in H as [H _]. apply eqb_prop in H. destruct h. exact H.
Qed.
Lemma opcode_of_flags : forall h, (T_Header_Flags h < 65536)%N ->
  go_Header_Opcode h = Z.of_N ((T_Header_Flags h / 2048) mod 16).
Proof.
  intros h Hf. pose proof (all_below_spec _ _ flags_all _ Hf) as H. unfold flags_ok in H.
  apply andb_true_iff in H as [_ H]. apply Z.eqb_eq in H. destruct h. exact H.
Qed.

(* ---- a datagram of at least a header ---- *)
Lemma parse12 : forall b0 b1 b2 b3 b4 b5 b6 b7 b8 b9 b10 b11 rest,
  go_ParseHeader (b0 :: b1 :: b2 :: b3 :: b4 :: b5 :: b6 :: b7 :: b8 :: b9 :: b10 :: b11 :: rest) =
  (mk_T_Header (b0 * 256 + b1) (b2 * 256 + b3) (b4 * 256 + b5) (b6 * 256 + b7) (b8 * 256 + b9) (b10 * 256 + b11), true)%N.
Proof.
  intros. unfold go_ParseHeader.
  destruct (Z.ltb_spec (go_len (b0 :: b1 :: b2 :: b3 :: b4 :: b5 :: b6 :: b7 :: b8 :: b9 :: b10 :: b11 :: rest)) 12) as [H|H].
  - exfalso. unfold go_len in H. cbn [length] in H. lia.
  - reflexivity.
Qed.
Lemma short_dropped : forall raw dec, (go_len raw < 12)%Z -> ingress_of raw dec = GDrop.
Proof.
  intros raw dec H. unfold ingress_of, go_ParseHeader.
  destruct (Z.ltb_spec (go_len raw) 12); [reflexivity|lia].
Qed.
Lemma split12 : forall raw : list N, (12 <= go_len raw)%Z ->
  exists b0 b1 b2 b3 b4 b5 b6 b7 b8 b9 b10 b11 rest,
    raw = b0 :: b1 :: b2 :: b3 :: b4 :: b5 :: b6 :: b7 :: b8 :: b9 :: b10 :: b11 :: rest.
Proof.
  intros raw H. unfold go_len in H.
  do 12 (destruct raw as [|? raw]; [cbn [length] in H; lia|]).
  repeat eexists.
Qed.

Ltac bytes12 raw H O :=
  destruct (split12 raw H) as (b0 & b1 & b2 & b3 & b4 & b5 & b6 & b7 & b8 & b9 & b10 & b11 & rest & ->);
  repeat match type of O with Forall _ (_ :: _) => apply Forall_cons_iff in O; destruct O as [? O] end.

(* a response (QR set) and a fragment of a header are never answered *)
Lemma responses_never_answered_lemma : forall raw dec, octets raw ->
  ((go_len raw < 12)%Z \/ (128 <= go_idx 0%N raw 2)%N) ->
  ingress_of raw dec = GDrop \/ ingress_of raw dec = GIgnore.
Proof.
  intros raw dec O [H|H].
  - left. apply short_dropped. exact H.
  - destruct (Z.ltb_spec (go_len raw) 12) as [L|L]; [left; apply short_dropped; exact L|].
    right. unfold octets in O. bytes12 raw L O.
    unfold ingress_of. rewrite parse12. cbn [negb].
    cbv [go_idx Z.ltb Z.compare Z.to_nat Pos.to_nat Pos.iter_op Nat.add nth] in H.
    unfold go_acceptHeader. rewrite qr_of_flags by (cbn; lia). cbn [T_Header_Flags].
    destruct (N.leb_spec 32768 (b2 * 256 + b3)) as [Q|Q]; [|lia].
    reflexivity.
Qed.

(* the twelve octets of a rejection *)
Lemma rejection_shape : forall raw v, length (reject_reply raw v) = 12%nat /\
  nth 0 (reject_reply raw v) 0%N = go_idx 0%N raw 0 /\ nth 1 (reject_reply raw v) 0%N = go_idx 0%N raw 1 /\
  N.testbit (nth 2 (reject_reply raw v) 0%N) 7 = true.
Proof.
  intros raw v. unfold reject_reply. cbn [length nth]. repeat split.
  rewrite !N.lor_spec. reflexivity.
Qed.
Lemma rejection_is_a_bare_header_lemma : forall raw dec r, ingress_of raw dec = GReject r ->
  length r = 12%nat /\ (12 <= go_len raw)%Z /\
  nth 0 r 0%N = go_idx 0%N raw 0 /\ nth 1 r 0%N = go_idx 0%N raw 1 /\ N.testbit (nth 2 r 0%N) 7 = true /\
  (nth 3 r 0%N = reject_rcode_formerr \/ nth 3 r 0%N = reject_rcode_notimp).
Proof.
  intros raw dec r H.
  destruct (Z.ltb_spec (go_len raw) 12) as [L|L]; [rewrite short_dropped in H by exact L; discriminate|].
  unfold ingress_of in H. destruct (go_ParseHeader raw) as [h ok]. destruct ok; cbn [negb] in H; [|discriminate].
  assert (R : forall v, r = reject_reply raw v ->
     length r = 12%nat /\ (12 <= go_len raw)%Z /\
     nth 0 r 0%N = go_idx 0%N raw 0 /\ nth 1 r 0%N = go_idx 0%N raw 1 /\ N.testbit (nth 2 r 0%N) 7 = true /\
     (nth 3 r 0%N = reject_rcode_formerr \/ nth 3 r 0%N = reject_rcode_notimp)).
  { intros v ->. destruct (rejection_shape raw v) as (A & B & C & D). repeat split; auto.
    unfold reject_reply. cbn [nth]. destruct (v =? accept_not_implemented)%N; auto. }
  destruct (go_acceptHeader h =? accept_ok)%N.
  - destruct dec; [discriminate|]. inversion H as [H1]. rewrite H1. apply (R accept_format_error). symmetry. exact H1.
  - destruct (go_acceptHeader h =? accept_ignore)%N; [discriminate|]. inversion H as [H1]. rewrite H1. apply (R (go_acceptHeader h)). symmetry. exact H1.
Qed.

(* admitted at the header gate = a well-formed query, spelt on the octets *)
Lemma admitted_iff_well_formed_lemma : forall raw, octets raw ->
  (ingress_of raw true = GChain <-> well_formed_query raw = true).
Proof.
  intros raw O.
  destruct (Z.ltb_spec (go_len raw) 12) as [L|L].
  - rewrite short_dropped by exact L. unfold well_formed_query.
    destruct (Z.leb_spec 12 (go_len raw)); [lia|]. cbn. split; discriminate.
  - unfold octets in O. bytes12 raw L O.
    unfold ingress_of. rewrite parse12. cbn [negb].
    unfold well_formed_query, be16_at.
    destruct (Z.leb_spec 12 (go_len (b0 :: b1 :: b2 :: b3 :: b4 :: b5 :: b6 :: b7 :: b8 :: b9 :: b10 :: b11 :: rest))) as [_|X]; [|lia].
    cbn [andb]. cbv [go_idx Z.ltb Z.compare Z.to_nat Pos.to_nat Pos.iter_op nth Z.add Pos.add Pos.succ Nat.add].
    unfold go_acceptHeader. rewrite qr_of_flags by (cbn; lia). rewrite opcode_of_flags by (cbn; lia).
    cbn [T_Header_Flags T_Header_QDCount T_Header_ANCount T_Header_NSCount T_Header_ARCount].
    assert (E : ((b2 * 256 + b3) / 2048 = b2 / 8)%N) by lia.
    rewrite E.
    set (op := ((b2 / 8) mod 16)%N).
    destruct (N.leb_spec 32768 (b2 * 256 + b3)) as [Q|Q]; destruct (N.ltb_spec b2 128) as [Q'|Q']; try lia.
    + cbn. split; discriminate.
    + cbn [andb].
      destruct (N.eqb_spec op 0) as [O0|O0]; destruct (N.eqb_spec op 4) as [O4|O4]; try lia.
      * rewrite O0. cbn [Z.of_N Z.eqb negb andb orb].
        destruct (negb (b4 * 256 + b5 =? 1) || (1 <? b6 * 256 + b7) || (1 <? b8 * 256 + b9) || (2 <? b10 * 256 + b11))%N eqn:EE;
          cbn; split; intro X; try discriminate; try reflexivity; lia.
      * rewrite O4. cbn [Z.of_N Z.eqb negb andb orb Pos.eqb].
        destruct (negb (b4 * 256 + b5 =? 1) || (1 <? b6 * 256 + b7) || (1 <? b8 * 256 + b9) || (2 <? b10 * 256 + b11))%N eqn:EE;
          cbn; split; intro X; try discriminate; try reflexivity; lia.
      * cbn [orb andb]. destruct (Z.eqb_spec (Z.of_N op) 0); [lia|]. destruct (Z.eqb_spec (Z.of_N op) 4); [lia|].
        cbn. split; discriminate.
Qed.
