(* C11 — the composed model (Model parts 4 and 6): whatever the arrival pattern, the client
   cancellations, the releases of the scripted downstream, the clock, the number of pool
   workers, the queue and admission bounds — every request's state is a state of the request
   automaton, so the automaton theorems apply to every request of every history. *)
From Sdns Require Import Common.Base Gen.C11 C11.Model C11.Proofs_Writer C11.Proofs_WG C11.Proofs_Req.

Definition reach (s : rstate) : Prop := exists internal ins, s = rrun (rinit internal) ins.
Definition good (q : preq) : Prop := reach (q_st q).
Definition allgood (w : world) : Prop := Forall good (reqs w).

Lemma reach_init internal : reach (rinit internal).
Proof. exists internal, []. reflexivity. Qed.

Lemma reach_step s i : reach s -> reach (rstep s i).
Proof.
  intros (internal & ins & ->). exists internal, (ins ++ [i]).
  unfold rrun. rewrite fold_left_app. reflexivity.
Qed.

Lemma set_req_good w i f :
  allgood w -> (forall q, good q -> good (f q)) -> allgood (set_req w i f).
Proof. intros H Hf. unfold allgood, set_req in *. cbn. apply Forall_upd; auto. Qed.

Lemma nth_good w i q : allgood w -> nth_error (reqs w) i = Some q -> good q.
Proof. intros H E. unfold allgood in H. rewrite Forall_forall in H. apply H. eapply nth_error_In; eauto. Qed.

Lemma world_wg_reqs w o : reqs (fst (world_wg w o)) = reqs w.
Proof. unfold world_wg. destruct (wg_step (wwg w) o). reflexivity. Qed.

Lemma store_attempt_reqs n c a w : reqs (store_attempt n c w a) = reqs w.
Proof.
  unfold store_attempt. destruct (d_code a =? 2)%N; [destruct (negb (d_local a) && cerr_eqb c CNone)|]; reflexivity.
Qed.
Lemma fold_store_reqs n c atts : forall w, reqs (fold_left (store_attempt n c) atts w) = reqs w.
Proof. induction atts as [|a atts IH]; intros w; cbn; auto. rewrite IH. apply store_attempt_reqs. Qed.

Lemma after_step_good w before i s' :
  allgood w -> reach s' -> allgood (after_step w before i s').
Proof.
  intros H R. unfold after_step.
  set (w1 := set_req w i (fun q => set_st q s')).
  assert (G : allgood w1).
  { apply set_req_good; [exact H|]. intros q _. exact R. }
  clearbody w1.
  destruct (r_pc s') as [| | | | | |o]; [exact G|exact G|exact G|exact G|exact G|exact G|].
  destruct (lead_of before) as [[k g]|]; [|exact G].
  unfold allgood. rewrite world_wg_reqs. exact G.
Qed.

Lemma allgood_same_reqs w w' : reqs w' = reqs w -> allgood w -> allgood w'.
Proof. unfold allgood. intros ->. auto. Qed.

Lemma req_step_good w i w' : allgood w -> req_step w i = Some w' -> allgood w'.
Proof.
  intros H E. unfold req_step in E.
  destruct (nth_error (reqs w) i) as [q|] eqn:Eq; [|discriminate].
  pose proof (nth_good w i q H Eq) as Gq.
  destruct (negb (q_arrived q)); [discriminate|].
  destruct (r_pc (q_st q)) eqn:Epc.
  - inversion E; subst. apply after_step_good; auto. apply reach_step, Gq.
  - destruct (world_wg w (join_op l)) as [w1 r] eqn:Ew.
    destruct r as [g leader|n|]; try discriminate. inversion E; subst.
    apply after_step_good; [|apply reach_step, Gq].
    eapply allgood_same_reqs; [|exact H].
    pose proof (world_wg_reqs w (join_op l)) as R. rewrite Ew in R. exact R.
  - destruct (negb (gstatus_eqb (gstat (wwg w) g) GLive) || negb (cerr_eqb (q_ctx q) CNone)); [|discriminate].
    inversion E; subst. apply after_step_good; auto. apply reach_step, Gq.
  - inversion E; subst. apply after_step_good; auto. apply reach_step, Gq.
  - inversion E; subst. apply after_step_good; auto. apply reach_step, Gq.
  - destruct (negb (q_called q)).
    + inversion E; subst. unfold allgood. cbn. apply Forall_upd; auto.
    + destruct (match q_hold q with
                | HNone => true
                | HUntilRelease => q_released q
                | HUntilCtx => negb (cerr_eqb (q_ctx q) CNone)
                end); [|discriminate].
      inversion E; subst. apply after_step_good; [|apply reach_step, Gq].
      eapply allgood_same_reqs; [apply fold_store_reqs|exact H].
  - discriminate.
Qed.

Lemma first_runnable_good n : forall w i w', allgood w -> first_runnable w i n = Some w' -> allgood w'.
Proof.
  induction n as [|n IH]; intros w i w' H E; cbn in E; [discriminate|].
  destruct (req_step w i) as [w1|] eqn:E1.
  - inversion E; subst. eapply req_step_good; eauto.
  - eapply IH; eauto.
Qed.

Lemma quiesce_good fuel : forall w, allgood w -> allgood (quiesce fuel w).
Proof.
  induction fuel as [|f IH]; intros w H; [exact H|].
  cbn [quiesce].
  destruct (first_runnable w 0 (length (reqs w))) as [w'|] eqn:E; auto.
  apply IH. eapply first_runnable_good; eauto.
Qed.

Lemma good_set_ctx c q : good q -> good (set_ctx c q).
Proof. auto. Qed.
Lemma good_set_arrived t q : good q -> good (set_arrived t q).
Proof. auto. Qed.
Lemma good_set_released q : good q -> good (set_released q).
Proof. auto. Qed.

Lemma fire_only_good w t : allgood w -> allgood (fire_only w t).
Proof.
  intros H. unfold allgood, fire_only in *. cbn. rewrite Forall_forall in *.
  intros q Hin. apply in_map_iff in Hin as (q0 & <- & Hq0).
  destruct (q_arrived q0 && (q_deadline q0 <=? t)%N); [apply good_set_ctx|]; auto.
Qed.

Lemma fire_at_good w t : allgood w -> allgood (fire_at w t).
Proof. intros H. unfold fire_at. apply quiesce_good, fire_only_good, H. Qed.

Lemma advance_good fuel : forall w t, allgood w -> allgood (advance fuel w t).
Proof.
  induction fuel as [|f IH]; intros w t H; [exact H|].
  cbn [advance].
  destruct (next_timer w t); [apply IH, fire_at_good, H|exact H].
Qed.

Lemma wevent_step_good w e : allgood w -> allgood (wevent_step w e).
Proof.
  intros H. destruct e; unfold wevent_step; cbv zeta.
  - apply quiesce_good, set_req_good; auto using good_set_arrived.
  - apply quiesce_good, set_req_good; auto using good_set_ctx.
  - apply quiesce_good, set_req_good; auto using good_set_released.
  - apply advance_good, H.
  - exact H.
Qed.

Lemma fold_wevent_good evs : forall w, allgood w -> allgood (fold_left wevent_step evs w).
Proof. induction evs as [|e evs IH]; intros w H; cbn; auto. apply IH, wevent_step_good, H. Qed.

(* what the automaton theorems give for one reachable state *)
Definition one_reply_and_agreeing_outcome (s : rstate) : Prop :=
  (length (r_emits s) <= 1)%nat /\
  match r_pc s with
  | PEnd (OReplied r) => r_emits s = [r]
  | PEnd OCancelled => r_emits s = []
  | PEnd OSilent => r_emits s = []
  | _ => r_emits s = []
  end.

Lemma reach_one_reply s : reach s -> one_reply_and_agreeing_outcome s.
Proof. intros (internal & ins & ->). apply terminal_outcome_lemma. Qed.

Definition fresh (q : preq) : Prop := q_st q = rinit (q_internal q).

Lemma fresh_allgood rs : Forall fresh rs -> allgood (world0 rs).
Proof.
  intros H. unfold allgood; cbn. rewrite Forall_forall in *. intros q Hq.
  unfold good. rewrite (H q Hq). apply reach_init.
Qed.

(* cache level: every history of arrivals, cancels, releases and clock advances *)
Lemma world_one_reply rs evs :
  Forall fresh rs ->
  Forall (fun q => one_reply_and_agreeing_outcome (q_st q)) (reqs (fold_left wevent_step evs (world0 rs))).
Proof.
  intros H. pose proof (fold_wevent_good evs (world0 rs) (fresh_allgood rs H)) as G.
  unfold allgood in G. rewrite Forall_forall in *. intros q Hq. apply reach_one_reply, G, Hq.
Qed.

(* ---- server level ---- *)
Definition sgood (s : sworld) : Prop := allgood (s_w s).

Lemma start_serving_good s i p : sgood s -> sgood (start_serving s i p).
Proof.
  intros H. unfold start_serving, sgood in *.
  destruct (req_deadline (s_w s) i <=? now (s_w s))%N; cbn; auto.
  apply set_req_good; auto using good_set_arrived.
Qed.

Lemma dispatch_good s i : sgood s -> sgood (dispatch s i).
Proof.
  intros H. unfold dispatch. destruct (e_free (s_e s)).
  - destruct (length (e_queue (s_e s)) <? e_qcap (s_e s))%nat; [exact H|apply start_serving_good, H].
  - apply start_serving_good. exact H.
Qed.

Lemma s_arrive_good s i : sgood s -> sgood (s_arrive s i).
Proof.
  intros H. unfold s_arrive.
  destruct (path_of s i =? 0)%N; [apply start_serving_good, H|].
  destruct (e_cap (s_e s) <=? e_leased (s_e s))%nat; [exact H|].
  destruct ((path_of s i =? 2)%N && (req_deadline (s_w s) i <=? now (s_w s))%N); [exact H|].
  apply dispatch_good. exact H.
Qed.

Lemma reap_w idx : forall s, s_w (reap idx s) = s_w s.
Proof.
  induction idx as [|i idx IH]; intros s; cbn; auto.
  rewrite IH. destruct (req_ended (s_w s) i); auto. destruct (place_of (s_e s) i); reflexivity.
Qed.

Lemma take_queued_good s s' : sgood s -> take_queued s = Some s' -> sgood s'.
Proof.
  intros H E. unfold take_queued in E.
  destruct (e_free (s_e s)); [discriminate|]. destruct (e_queue (s_e s)); [discriminate|].
  inversion E; subst. apply start_serving_good. exact H.
Qed.

Lemma s_settle_good fuel : forall s, sgood s -> sgood (s_settle fuel s).
Proof.
  induction fuel as [|f IH]; intros s H; [exact H|].
  cbn [s_settle]. cbv zeta.
  set (w1 := quiesce (qfuel (s_w s)) (s_w s)).
  set (s1 := reap (seq 0 (length (reqs w1))) (mk_sworld w1 (s_e s) (s_path s))).
  assert (G1 : sgood s1).
  { unfold sgood, s1. rewrite reap_w. cbn [s_w]. unfold w1. apply quiesce_good, H. }
  destruct (take_queued s1) as [s2|] eqn:E; [|exact G1].
  apply IH. eapply take_queued_good; eauto.
Qed.

Lemma s_advance_good fuel : forall s t, sgood s -> sgood (s_advance fuel s t).
Proof.
  induction fuel as [|f IH]; intros s t H; [exact H|].
  cbn [s_advance]. cbv zeta.
  destruct (next_timer (s_w s) t).
  - apply IH, s_settle_good. unfold sgood; cbn [s_w]. apply fire_only_good, H.
  - exact H.
Qed.

Lemma sevent_step_good s e : sgood s -> sgood (sevent_step s e).
Proof.
  intros H. destruct e; unfold sevent_step; cbv zeta.
  - apply s_settle_good, s_arrive_good, H.
  - apply s_settle_good. unfold sgood; cbn [s_w]. apply set_req_good; auto using good_set_ctx.
  - apply s_settle_good. unfold sgood; cbn [s_w]. apply set_req_good; auto using good_set_released.
  - apply s_advance_good, H.
  - exact H.
Qed.

Lemma fold_sevent_good evs : forall s, sgood s -> sgood (fold_left sevent_step evs s).
Proof. induction evs as [|e evs IH]; intros s H; cbn; auto. apply IH, sevent_step_good, H. Qed.

(* server level: any number of pool workers, any queue and admission bound, any mix of paths *)
Lemma server_one_reply rs paths workers qcap cap evs :
  Forall fresh rs ->
  Forall (fun q => one_reply_and_agreeing_outcome (q_st q))
         (reqs (s_w (fold_left sevent_step evs (sworld0 rs paths workers qcap cap)))).
Proof.
  intros H.
  pose proof (fold_sevent_good evs (sworld0 rs paths workers qcap cap) (fresh_allgood rs H)) as G.
  unfold sgood, allgood in G. rewrite Forall_forall in *. intros q Hq. apply reach_one_reply, G, Hq.
Qed.

(* the hypothesis is satisfiable by what the drivers build *)
Example fresh_new_preq name internal deadline h atts : fresh (new_preq name internal deadline h atts).
Proof. reflexivity. Qed.
