(* C11 — correspondence: case type and the two checkers evaluated with vm_compute on what
   the Go drivers recorded.
   check_case: the model computes what the implementation did.
   spec_case : what the implementation did satisfies the property, judged on the
               observations alone (no model involved). *)
From Sdns Require Export Common.Base Gen.C11 C11.Model C11.Stream C11.Regroup C11.Shutdown C11.Flights C11.Inline C11.Interrupt C11.Ingress C11.Breaker.

(* ---- observations ---- *)
(* writer: per op, return class (0 nil, 1 errAlreadyWritten, 2 other error), Written() after
   the op, number of calls that reached the transport so far *)
Record wobs := mk_wobs { o_ret : N; o_written : bool; o_calls : N }.
(* wait group: per op. Join/Regroup: generation index (creation order) and leader flag;
   Get/Wait: [a]; Regroup: [a] = status of [prev] before the call (0 live 1 cancelled 2 expired);
   DoneGeneration k g: [a],[b] = generation registered under k before / after (index+1, 0 none) *)
Record wgobs := mk_wgobs { wo_g : nat; wo_leader : bool; wo_a : N; wo_b : N }.
Record gfin := mk_gfin { gf_status : N; gf_dups : N; gf_next : option nat }.
Record kfin := mk_kfin { kf_key : N; kf_gen : option nat }.
(* pipeline: per request. transport writes, reply class, reached downstream, cancelled by the
   client, deadline already elapsed when the reply was written, instant of the write,
   outcome may depend on which follower wins a re-election *)
Record pobs := mk_pobs { po_writes : N; po_class : N; po_called : bool;
                         po_cancelled : bool; po_expired : bool; po_wtime : N; po_racy : bool;
                         po_end : N (* instant at which the request's serve returned *) }.

(* lab: per query. expectation the fault scripts force (0 either, 1 NOERROR, 2 SERVFAIL),
   writes on its transport, class of the reply (1 NOERROR, 2 SERVFAIL), latency in ms,
   client went away *)
Record lobs := mk_lobs { lo_expect : N; lo_writes : N; lo_class : N; lo_latency : N; lo_cancelled : bool }.

Inductive case :=
| CaseWriter (ops : list wop) (obs : list wobs) (emits : list temit)
| CaseWG (ops : list wgop) (obs : list wgobs) (fin : list gfin) (keys : list kfin)
  (* real goroutines: [followers] wait on one generation, it is completed (Done) or its real
     timer fires, then all call Regroup concurrently: distinct generations they obtained,
     how many became leader, did they get [previous] back *)
| CaseWGConc (followers : nat) (expired : bool) (distinct leaders : nat) (same_as_prev : bool)
| CasePipe (rs : list preq) (evs : list wevent) (obs : list pobs) (downstream_calls : N)
  (* server level: pool workers, ready-queue capacity, admission cap; per request the path
     (0 ServeMsg, 1 ring, 2 inline first); whether the chain was entered; after the drain:
     slabs still leased, jobs still in flight *)
| CaseServer (workers qcap cap : nat) (rs : list preq) (paths : list N) (evs : list wevent)
             (obs : list pobs) (entered : list bool) (downstream_calls : N) (leased_end inflight_end : N)
  (* fault-script lab against the real resolver (wall-clock): query timeout, observations,
     goroutines above the baseline after the drain *)
| CaseLab (qt_ms : N) (obs : list lobs) (goroutines_left : N) (slots_held_ms : N)
  (* LazyDeadline under a virtual clock: deadline offset (ms), operations, per-op observation
     (Err / EffectiveError: 0 nil 1 DeadlineExceeded 2 Canceled; Done: 1 closed) *)
| CaseLazy (deadline : Z) (ops : list lzop) (obs : list N)
  (* TCP stream path under a virtual clock: query timeout (ms), the announced frames, the
     client's script; observed: the connection's SetDeadline / Write / Close log, per frame
     whether the chain was entered and how many reply frames carrying its ID were written *)
| CaseTcp (qt : Z) (frames : list tframe) (conn : tconn) (obs : list tev)
          (entered : list bool) (replies : list N)
  (* Resolver.groupLookup under a virtual clock: callers of one key (arrival, instant their
     own context ends, how), the timed history, per caller: return instant, class (0 answer,
     1 own context error, 2 a request-local error while its own context was alive, 3 other,
     9 never returned), kind of the error (1 deadline, 2 cancellation) *)
| CaseRegroup (cs : list gcaller) (evs : list gtev) (obs : list gobs)
  (* the server-level scenarios with the UDP listener shut down in the middle (real
     udpListener.Shutdown / udpEngine.stopAndDrain): as CaseServer, plus whether the drain ran
     into its deadline, the instant Shutdown was called and the instant it returned *)
| CaseShutdown (workers qcap cap : nat) (rs : list preq) (paths : list N) (evs : list devent)
               (obs : list pobs) (entered : list bool) (downstream_calls : N) (leased_end inflight_end : N)
               (drain_err : bool) (stop_at shutdown_returned : Z)
  (* groupLookup over several keys sharing the global in-flight pool and one zone quota: per
     caller its key; capacities; callers, timed history, per-caller observation (class 4 = shed
     at the global pool, 5 = shed at the zone quota), and the (global, zone) slots held after
     every event *)
| CaseFlights (keys : list nat) (nkeys cap zcap : nat) (cs : list gcaller) (evs : list gtev)
              (obs : list gobs) (series : list (nat * nat))
  (* cache hits across the UDP transport's passes (one full pass on a worker / inline pass on
     the reader / handoff + replay) with the per-entry rate limiter on and, when crate > 0, the
     ratelimit middleware's per-client limiter in front of it: the configured rates (= bursts;
     per minute for clients, per second for entries), the number of cached names, the queries,
     per query what was observed (replies at the client socket, TC, handed off by the inline
     pass, tokens x1000 of the entry's limiter just before and after, whether the client is
     limited and tokens x60000 of its limiter before and after) *)
| CaseInline (crate rate : Z) (nnames : nat) (qs : list iquery) (obs : list iobs)
  (* a lookup's fan-out of upstream exchanges on one real InterruptGroup (session 5): the instant
     the lookup's context is cancelled (then Close), the exchanges' scripts, the sample instants;
     observed per exchange: return instant, result class, SetDeadline(now) calls that reached its
     connection, how many of them after it had returned; the slots the group held after every
     sample instant *)
| CaseFan (cancel : option Z) (xs : list xscript) (Ts : list Z) (obs : list xobs) (series : list nat)
  (* dnsclient.QuestionMatches against its srcgen translation *)
| CaseQMatch (req : T_Question) (resp : list T_Question) (obs : bool)
  (* the header gate of the UDP ingress (session 5): raw datagrams given to the real udpEngine on
     the ring and the inline path; per datagram what came back to the client socket *)
| CaseIngress (ds : list gdgram) (obs : list nobs)
  (* the resolver's per-server circuit breaker (session 5): the instant the schedule starts at
     (unix ms), the operations, per operation what canQuery answered (true for the others) *)
| CaseBreaker (start : Z) (ops : list bop) (obs : list bool).

(* ---- helpers ---- *)
Definition ret_code (r : wret) : N := match r with ROk => 0 | RAlready => 1 | RErr => 2 end%N.
Definition temit_eqb (a b : temit) : bool :=
  match a, b with TBytes x, TBytes y => (x =? y)%Z | TMsg, TMsg => true | _, _ => false end.
Fixpoint list_eqb {A} (eq : A -> A -> bool) (a b : list A) : bool :=
  match a, b with
  | [], [] => true
  | x :: xs, y :: ys => eq x y && list_eqb eq xs ys
  | _, _ => false
  end.
Definition opt_nat_eqb (a b : option nat) : bool :=
  match a, b with None, None => true | Some x, Some y => (x =? y)%nat | _, _ => false end.
Definition status_code (s : gstatus) : N := match s with GLive => 0 | GCancelled => 1 | GExpired => 2 end%N.
Definition wobs_eqb (a b : wobs) : bool :=
  (o_ret a =? o_ret b)%N && Bool.eqb (o_written a) (o_written b) && (o_calls a =? o_calls b)%N.
Definition wgobs_eqb (a b : wgobs) : bool :=
  (wo_g a =? wo_g b)%nat && Bool.eqb (wo_leader a) (wo_leader b) && (wo_a a =? wo_a b)%N && (wo_b a =? wo_b b)%N.

(* ---- writer ---- *)
Fixpoint writer_trace (w : writer) (calls : N) (ops : list wop) : list wobs * list temit :=
  match ops with
  | [] => ([], [])
  | o :: r =>
      let '(w1, ret, em) := wstep w o in
      let calls1 := (calls + N.of_nat (length em))%N in
      let '(obs, ems) := writer_trace w1 calls1 r in
      (mk_wobs (ret_code ret) (w_written w1) calls1 :: obs, em ++ ems)
  end.

(* the specification of "at most one emission per request", on the observations:
   between two Resets the transport is reached at most once; a write attempted on a writer
   that reports Written() returns errAlreadyWritten and reaches nothing; reaching the
   transport marks the writer written *)
Fixpoint writer_spec (ops : list wop) (obs : list wobs) (prev_written : bool) (prev_calls epoch_calls : N) : bool :=
  match ops, obs with
  | [], [] => true
  | o :: r, b :: br =>
      let epoch := if is_reset o then o_calls b else epoch_calls in
      (prev_calls <=? o_calls b)%N &&
      (o_calls b - epoch <=? 1)%N &&
      (if is_reset o then (o_calls b =? prev_calls)%N && negb (o_written b) else true) &&
      (if is_write_op o && prev_written then (o_ret b =? 1)%N && (o_calls b =? prev_calls)%N && o_written b else true) &&
      (if (prev_calls <? o_calls b)%N then o_written b else true) &&
      writer_spec r br (o_written b) (o_calls b) epoch
  | _, _ => false
  end.

(* ---- wait group ---- *)
Definition cur_code (s : wg) (k : N) : N :=
  match lookup (groups s) k with Some g => N.of_nat (S g) | None => 0%N end.

Fixpoint wg_trace (s : wg) (ops : list wgop) : wg * list wgobs :=
  match ops with
  | [] => (s, [])
  | o :: r =>
      let '(s1, x) := wg_step s o in
      let ob :=
        match o, x with
        | ORegroup _ (Some p), RGen g l => mk_wgobs g l (status_code (gstat s p)) 0
        | ODoneGen k _, _ => mk_wgobs 0 false (cur_code s k) (cur_code s1 k)
        | _, RGen g l => mk_wgobs g l 0 0
        | _, RNum n => mk_wgobs 0 false n 0
        | _, RUnit => mk_wgobs 0 false 0 0
        end in
      let '(s2, obs) := wg_trace s1 r in
      (s2, ob :: obs)
  end.

Definition gfin_of (g : gen) : gfin := mk_gfin (status_code (g_status g)) (g_dups g) (g_next g).
Definition gfin_eqb (a b : gfin) : bool :=
  (gf_status a =? gf_status b)%N && (gf_dups a =? gf_dups b)%N && opt_nat_eqb (gf_next a) (gf_next b).

Definition is_joinlike (o : wgop) : bool := match o with OJoin _ | ORegroup _ _ => true | _ => false end.
Definition has_add (ops : list wgop) : bool := existsb (fun o => match o with OAdd _ => true | _ => false end) ops.

(* leaders: a generation is handed out as "leader" at most once *)
Fixpoint leader_gids (ops : list wgop) (obs : list wgobs) : list nat :=
  match ops, obs with
  | o :: r, b :: br => (if is_joinlike o && wo_leader b then [wo_g b] else []) ++ leader_gids r br
  | _, _ => []
  end.
Fixpoint nodup_nat (l : list nat) : bool :=
  match l with [] => true | x :: r => negb (existsb (Nat.eqb x) r) && nodup_nat r end.

(* regroup results per previous generation, taken while previous had ended *)
Fixpoint regroups_of (p : nat) (ops : list wgop) (obs : list wgobs) : list (nat * bool * N) :=
  match ops, obs with
  | ORegroup _ (Some q) :: r, b :: br =>
      (if (q =? p)%nat && negb (wo_a b =? 0)%N then [(wo_g b, wo_leader b, wo_a b)] else []) ++ regroups_of p r br
  | _ :: r, _ :: br => regroups_of p r br
  | _, _ => []
  end.
Definition regroup_ok (p : nat) (l : list (nat * bool * N)) : bool :=
  match l with
  | [] => true
  | (g0, _, _) :: _ =>
      forallb (fun x => (fst (fst x) =? g0)%nat) l &&
      (length (filter (fun x => snd (fst x)) l) <=? 1)%nat &&
      forallb (fun x => if (snd x =? 2)%N then (fst (fst x) =? p)%nat && negb (snd (fst x)) else true) l
  end.

Fixpoint done_ok (legacy : bool) (ops : list wgop) (obs : list wgobs) (fin : list gfin) : bool :=
  match ops, obs with
  | o :: r, b :: br =>
      (match o with
       | ODoneGen _ (Some g) =>
           (* the identity check: a generation other than g registered under the key survives;
              g itself is unregistered; and (generation API only) g's followers are released *)
           (if (wo_a b =? N.of_nat (S g))%N then (legacy || (wo_b b =? 0)%N) else (wo_b b =? wo_a b)%N) &&
           (legacy || match nth_error fin g with Some f => negb (gf_status f =? 0)%N | None => false end)
       | OExpire g => match nth_error fin g with Some f => negb (gf_status f =? 0)%N | None => true end
       | _ => true
       end) && done_ok legacy r br fin
  | _, _ => true
  end.

(* ---- pipeline ---- *)
Fixpoint insertN (x : N) (l : list N) : list N :=
  match l with [] => [x] | y :: r => if (x <=? y)%N then x :: l else y :: insertN x r end.
Definition sortN (l : list N) : list N := fold_right insertN [] l.
Definition obs_code (o : N * N * bool) : N :=
  let '(w, c, called) := o in (w * 100 + c * 2 + (if called then 1 else 0))%N.
Definition pobs_code (o : pobs) : N :=
  (po_writes o * 100 + po_class o * 2 + (if po_called o then 1 else 0))%N.

Definition run_world (rs : list preq) (evs : list wevent) : world := fold_left wevent_step evs (world0 rs).

(* Requests woken by the same completion run concurrently; which of them re-checks the cache
   or wins the re-election first is the scheduler's choice.  For those ([po_racy]) the
   per-request comparison keeps what cannot depend on that choice: the number of writes, and
   the reply class whenever it is the request's own deadline/cancel outcome (class 3 / 0);
   the multiset of (writes, class) over all requests must agree in any case, and the model's
   sequential order gives the least possible number of downstream calls. *)
Definition own_outcome (c : N) : bool := (c =? 0)%N || (c =? 3)%N.
Fixpoint pointwise_or_racy (m : list (N * N * bool)) (o : list pobs) : bool :=
  match m, o with
  | [], [] => true
  | (mw, mc, mcalled) :: mr, y :: orr =>
      (if po_racy y
       then (mw =? po_writes y)%N &&
            (if own_outcome mc || own_outcome (po_class y) then (mc =? po_class y)%N else true)
       else (mw =? po_writes y)%N && (mc =? po_class y)%N && Bool.eqb mcalled (po_called y)) &&
      pointwise_or_racy mr orr
  | _, _ => false
  end.
Definition wc_code (w c : N) : N := (w * 10 + c)%N.

Fixpoint deadlines_ok (rs : list preq) (o : list pobs) : bool :=
  match rs, o with
  | q :: qr, y :: yr =>
      (* a request that did not itself run the downstream resolution (a follower, a hit, a
         shed probe) is answered no later than its own deadline *)
      (if negb (po_called y) && (po_writes y =? 1)%N && negb (po_cancelled y)
       then (po_wtime y <=? q_deadline q)%N else true) && deadlines_ok qr yr
  | _, _ => true
  end.

Definition agrees (m : list (N * N * bool)) (mcalls : N) (obs : list pobs) (dcalls : N) : bool :=
  let nracy := N.of_nat (length (filter po_racy obs)) in
  pointwise_or_racy m obs &&
  list_eqb N.eqb (sortN (map (fun x => wc_code (fst (fst x)) (snd (fst x))) m))
                 (sortN (map (fun y => wc_code (po_writes y) (po_class y)) obs)) &&
  (mcalls <=? dcalls)%N && (dcalls <=? mcalls + nracy)%N.
Definition pipe_agrees (rq : list preq) (mcalls : N) (obs : list pobs) (dcalls : N) : bool :=
  agrees (map observe rq) mcalls obs dcalls.

Fixpoint dobserve_all (d : dworld) (i : nat) (rq : list preq) : list (N * N * bool) :=
  match rq with [] => [] | q :: r => dobserve d i q :: dobserve_all d (S i) r end.
Fixpoint drain_of (evs : list devent) : Z :=
  match evs with [] => 0%Z | DShutdown d :: _ => Z.of_N d | _ :: r => drain_of r end.

Fixpoint entered_ok (o : list pobs) (en : list bool) : bool :=
  match o, en with
  | y :: yr, e :: er =>
      (* no reply only for a client that went away, or a datagram that never got into the
         chain (shed at the admission cap, or its budget was gone when a worker reached it) *)
      ((po_writes y =? 1)%N || po_cancelled y || negb e) && entered_ok yr er
  | [], [] => true
  | _, _ => false
  end.

(* the request-context specification on the observations: an error is reported only after a
   cause exists (own Cancel, parent cancel, deadline reached), it never changes afterwards,
   and EffectiveError is nil exactly while no cause exists *)
Fixpoint lazy_spec (deadline now_ : Z) (caused : bool) (pinned : N) (ops : list lzop) (obs : list N) : bool :=
  match ops, obs with
  | [], [] => true
  | o :: r, x :: xr =>
      let now1 := match o with LSleep d => (now_ + d)%Z | _ => now_ end in
      let caused1 := caused || (match o with LCancel | LParentCancel => true | _ => false end) || negb (now1 <? deadline)%Z in
      let ok :=
        match o with
        | LErr => (if negb (x =? 0)%N then caused1 && ((pinned =? 0)%N || (pinned =? x)%N) else (pinned =? 0)%N)
        | LEffective => (if (x =? 0)%N then negb caused1 else ((pinned =? 0)%N || (pinned =? x)%N))
        | LDone => (if (x =? 1)%N then caused1 else (pinned =? 0)%N)
        | _ => true
        end in
      let pinned1 := match o with LErr => (if (pinned =? 0)%N then x else pinned) | _ => pinned end in
      ok && lazy_spec deadline now1 caused1 pinned1 r xr
  | _, _ => false
  end.

(* arrival instant of every request, read off the timeline *)
Fixpoint arrivals (evs : list wevent) (now_ : N) : list (nat * N) :=
  match evs with
  | [] => []
  | EAdvance t :: r => arrivals r t
  | EArrive i :: r => (i, now_) :: arrivals r now_
  | _ :: r => arrivals r now_
  end.
Definition arrival_of (arr : list (nat * N)) (i : nat) : N :=
  match find (fun p => (fst p =? i)%nat) arr with Some p => snd p | None => 0%N end.

(* nobody waits on nothing: a client that had budget left when it arrived and was answered
   with the deadline SERVFAIL must have spent the wait behind some OTHER request that was
   still being served at that instant (its leader); being parked behind a generation whose
   leader is long gone is the wedge the property excludes *)
Definition no_idle_wait (rs : list preq) (evs : list wevent) (obs : list pobs) : bool :=
  let arr := arrivals evs 0 in
  let idx := seq 0 (length obs) in
  forallb (fun i =>
    match nth_error obs i, nth_error rs i with
    | Some y, Some q =>
        if (po_class y =? 3)%N && negb (po_cancelled y) && (arrival_of arr i <? q_deadline q)%N
        then existsb (fun j => negb (j =? i)%nat &&
                               match nth_error obs j with
                               | Some z => (arrival_of arr j <=? q_deadline q)%N && (q_deadline q <=? po_end z)%N
                               | None => false
                               end) idx
        else true
    | _, _ => true
    end) idx.

Definition iobs_eqb (a b : iobs) : bool :=
  (io_replies a =? io_replies b)%Z && Bool.eqb (io_tc a) (io_tc b) && Bool.eqb (io_handoff a) (io_handoff b) &&
  (io_before a =? io_before b)%Z && (io_after a =? io_after b)%Z &&
  Bool.eqb (io_limited a) (io_limited b) && (io_cbefore a =? io_cbefore b)%Z && (io_cafter a =? io_cafter b)%Z.

Definition check_case (c : case) : bool :=
  match c with
  | CaseWriter ops obs emits =>
      let '(mobs, mems) := writer_trace (w_reset false) 0 ops in
      list_eqb wobs_eqb mobs obs && list_eqb temit_eqb mems emits
  | CaseWG ops obs fin keys =>
      let '(s, mobs) := wg_trace wg_empty ops in
      list_eqb wgobs_eqb mobs obs &&
      list_eqb gfin_eqb (map gfin_of (gens s)) fin &&
      forallb (fun k => opt_nat_eqb (lookup (groups s) (kf_key k)) (kf_gen k)) keys
  | CaseWGConc n expired distinct leaders same =>
      let ops := OJoin 7 :: (if expired then OExpire 0 else ODoneGen 7 (Some 0%nat)) :: repeat (ORegroup 7 (Some 0%nat)) n in
      let '(_, obs) := wg_trace wg_empty ops in
      let rg := skipn 2 obs in
      match rg with
      | [] => (distinct =? 0)%nat && (leaders =? 0)%nat
      | b0 :: _ =>
          forallb (fun b => (wo_g b =? wo_g b0)%nat) rg && (distinct =? 1)%nat &&
          (length (filter wo_leader rg) =? leaders)%nat &&
          Bool.eqb ((wo_g b0 =? 0)%nat) same
      end
  | CasePipe rs evs obs dcalls =>
      let w := run_world rs evs in
      pipe_agrees (reqs w) (calls w) obs dcalls
  | CaseServer workers qcap cap rs paths evs obs entered dcalls leased inflight =>
      let s := fold_left sevent_step evs (sworld0 rs paths workers qcap cap) in
      pipe_agrees (reqs (s_w s)) (calls (s_w s)) obs dcalls &&
      (N.of_nat (e_leased (s_e s)) =? leased)%N && (inflight =? leased)%N
  | CaseLab qt obs gleft slots =>
      (* ground truth of the generator: where both name servers can only fail the reply is
         SERVFAIL, where both answer usably it is the answer *)
      forallb (fun o => if (lo_writes o =? 1)%N && negb (lo_cancelled o)
                        then match lo_expect o with
                             | 1 => (lo_class o =? 1)
                             | 2 => (lo_class o =? 2)
                             | _ => (lo_class o =? 1) || (lo_class o =? 2)
                             end%N
                        else true) obs
  | CaseLazy deadline ops obs => list_eqb N.eqb (snd (lz_run (lz_init deadline) ops)) obs
  | CaseTcp qt frames conn obs entered replies =>
      let m := run_conn qt frames conn in
      list_eqb tev_eqb m obs &&
      list_eqb N.eqb (map (fun i => N.of_nat (count_id (S i) (written_ids m))) (seq 0 (length frames))) replies
  | CaseRegroup cs evs obs =>
      let s := fold_left gtstep evs (g0 (length cs)) in
      list_eqb gobs_eqb (map (expected cs s) (seq 0 (length cs))) obs
  | CaseShutdown workers qcap cap rs paths evs obs entered dcalls leased inflight derr stop_at returned =>
      let d := drun (dworld0 (sworld0 rs paths workers qcap cap)) evs in
      let w := s_w (d_s d) in
      agrees (dobserve_all d 0 (reqs w)) (calls w) obs dcalls &&
      (N.of_nat (e_leased (s_e (d_s d))) =? leased)%N && (inflight =? leased)%N &&
      Bool.eqb (d_err d) derr
  | CaseFlights keys nkeys cap zcap cs evs obs series =>
      let s0 := f0 keys nkeys cap zcap in
      let s := ffinal s0 evs in
      list_eqb gobs_eqb (map (fexpected cs s) (seq 0 (length cs))) obs &&
      list_eqb (fun a b => (fst a =? fst b)%nat && (snd a =? snd b)%nat) (fseries s0 evs) series
  | CaseInline crate rate nnames qs obs =>
      list_eqb iobs_eqb (run_inline crate rate (repeat (bk_full crate client_unit) 4)
                                    (repeat (bk_full rate entry_unit) nnames) qs) obs
  | CaseFan cancel xs Ts obs series => fan_check cancel xs Ts obs series
  | CaseQMatch req resp obs => Bool.eqb (go_QuestionMatches req resp) obs
  | CaseIngress ds obs => (length ds =? length obs)%nat && forallb (fun p => ingress_check (fst p) (snd p)) (combine ds obs)
  | CaseBreaker t0 ops obs => list_eqb Bool.eqb (snd (brun [] t0 ops)) obs
  end.

Definition spec_case (c : case) : bool :=
  match c with
  | CaseWriter ops obs _ => writer_spec ops obs false 0 0
  | CaseWG ops obs fin keys =>
      nodup_nat (leader_gids ops obs) &&
      forallb (fun p => regroup_ok p (regroups_of p ops obs)) (seq 0 (length fin)) &&
      done_ok (has_add ops || existsb (fun o => match o with ODone _ => true | _ => false end) ops) ops obs fin
  | CaseWGConc n expired distinct leaders same =>
      match n with
      | O => true
      | _ => (distinct =? 1)%nat &&
             (if expired then (leaders =? 0)%nat && same else (leaders =? 1)%nat && negb same)
      end
  | CasePipe rs evs obs dcalls =>
      (* exactly one reply per admitted query, never two; none only for a client that went away;
         the deadline SERVFAIL goes only to a client whose own deadline elapsed; waiters are
         answered by their deadline *)
      forallb (fun y => (po_writes y <=? 1)%N &&
                        (po_cancelled y || (po_writes y =? 1)%N) &&
                        (if (po_class y =? 3)%N then po_expired y else true)) obs &&
      (length rs =? length obs)%nat && deadlines_ok rs obs && no_idle_wait rs evs obs
  | CaseServer workers qcap cap rs paths evs obs entered dcalls leased inflight =>
      forallb (fun y => (po_writes y <=? 1)%N &&
                        (if (po_class y =? 3)%N then po_expired y else true)) obs &&
      entered_ok obs entered &&
      (length rs =? length obs)%nat && deadlines_ok rs obs && no_idle_wait rs evs obs &&
      (* quiescence after the drain: every slab returned, nothing in flight *)
      (leased =? 0)%N && (inflight =? 0)%N
  | CaseLab qt obs gleft slots =>
      (* one reply, in (generous) time; and a client that stayed, asking for a name whose
         servers both answer usably, is not failed because some OTHER client's request
         (the one it was coalesced with) expired, was cancelled or was refused *)
      forallb (fun o => (lo_writes o <=? 1)%N && (lo_cancelled o || (lo_writes o =? 1)%N) &&
                        (lo_latency o <=? 10 * qt)%N &&
                        (if (lo_expect o =? 1)%N && negb (lo_cancelled o) && (lo_writes o =? 1)%N
                         then (lo_class o =? 1)%N else true)) obs &&
      (gleft =? 0)%N &&
      (* the limiter is quiescent once the clients are answered (one query budget of slack) *)
      (slots <=? qt)%N
  | CaseLazy deadline ops obs => lazy_spec deadline 0 false 0 ops obs
  | CaseTcp qt frames conn obs entered replies =>
      (* every write is issued under an armed bound that has not passed; a frame gets at most
         one reply; a frame that entered the chain gets exactly one unless the client itself
         stopped reading; the per-frame counts are the ones of the connection log *)
      forallb live_write obs &&
      (length entered =? length frames)%nat && (length replies =? length frames)%nat &&
      forallb (fun n => (n <=? 1)%N) replies &&
      forallb (fun p => if (fst p : bool) && (tc_stall conn <? 0)%Z then (snd p =? 1)%N else true) (combine entered replies) &&
      list_eqb N.eqb (map (fun i => N.of_nat (count_id (S i) (written_ids obs))) (seq 0 (length frames))) replies
  | CaseRegroup cs evs obs =>
      (* every caller returns; nobody is failed with another request's error; a caller that
         fails does so exactly when its own context ends - not earlier (others' expiries), not
         later; an answer arrives while its own context is alive *)
      (length cs =? length obs)%nat &&
      forallb (fun p => let '(c, o) := p in
                 match go_class o with
                 | 0 => (gc_arrive c <=? go_ret o)%Z && (go_ret o <? gc_end c)%Z
                 | 1 => (go_ret o =? gc_end c)%Z && (go_ekind o =? gc_kind c)%N
                 | _ => false
                 end%N) (combine cs obs)
  | CaseShutdown workers qcap cap rs paths evs obs entered dcalls leased inflight derr stop_at returned =>
      (* the bounds hold under shutdown: never two replies; an admitted request is answered
         unless its client left - or the drain ran into its deadline (recorded) and the request
         only returned after the sockets were closed; Shutdown itself returns within its drain
         timeout; everything is handed back *)
      let closed_at := (stop_at + drain_of evs)%Z in
      forallb (fun y => (po_writes y <=? 1)%N && (if (po_class y =? 3)%N then po_expired y else true)) obs &&
      (length rs =? length obs)%nat && (length entered =? length obs)%nat && (length paths =? length obs)%nat &&
      forallb (fun x => let '(y, e, p) := x in
                 (po_writes y =? 1)%N || po_cancelled y || negb e ||
                 (derr && negb (p =? 0)%N && (closed_at <? Z.of_N (po_end y))%Z))
              (combine (combine obs entered) paths) &&
      deadlines_ok rs obs &&
      (stop_at <=? returned)%Z && (returned <=? closed_at)%Z &&
      (leased =? 0)%N && (inflight =? 0)%N
  | CaseFlights keys nkeys cap zcap cs evs obs series =>
      (* every caller returns with the answer, its own error exactly when its own context ends,
         or a capacity refusal of its own at the instant it tried; the pools are never
         overdrawn, and once everybody has returned every slot is back *)
      (length cs =? length obs)%nat &&
      forallb (fun p => let '(c, o) := p in
                 match go_class o with
                 | 0 => (gc_arrive c <=? go_ret o)%Z && (go_ret o <? gc_end c)%Z
                 | 1 => (go_ret o =? gc_end c)%Z && (go_ekind o =? gc_kind c)%N
                 | 4 | 5 => (gc_arrive c <=? go_ret o)%Z && (go_ret o <? gc_end c)%Z
                 | _ => false
                 end%N) (combine cs obs) &&
      forallb (fun x => (fst x <=? cap)%nat && (snd x <=? zcap)%nat) series &&
      match rev series with (u, z) :: _ => (u =? 0)%nat && (z =? 0)%nat | [] => true end
  | CaseInline crate rate nnames qs obs =>
      (* never two replies; a query that found a token in its client's bucket (when limited) and
         then in its entry's bucket gets exactly one, a refused one none; one question costs each
         limiter it reaches one token whatever passes it went through *)
      (length qs =? length obs)%nat && forallb iobs_spec obs
  | CaseFan cancel xs Ts obs series => fan_spec cancel xs obs series
  | CaseQMatch _ _ _ => true
  | CaseIngress ds obs => (length ds =? length obs)%nat && forallb (fun p => ingress_spec (fst p) (snd p)) (combine ds obs)
  | CaseBreaker t0 ops obs => breaker_spec t0 [] [] ops obs
  end.
