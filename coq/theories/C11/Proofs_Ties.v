(* C11 — ties between hand-written model functions and their srcgen translations (session 5). *)
From Sdns Require Import Common.Base Common.GoList Gen.C11 C11.Model.

(* responseWriter.Written(), translated from middleware/response_writer.go, is the model's
   "written" flag on the writer state the model keeps (size, directPack, internal): a rewrite of
   Written() that changes its meaning changes Gen/C11.v and breaks this lemma *)
Lemma gen_written : forall gw,
  go_responseWriter_Written gw =
  w_written (mk_writer (T_responseWriter_size gw) (T_responseWriter_directPack gw) (T_responseWriter_internal gw)).
Proof. intros gw. reflexivity. Qed.

(* edns.ResponseWriter.wireOPTLen, translated from middleware/edns/wire.go (iface_cases for dns.EDNS0,
   nonnil_pointers: the request OPT is read as present - on the wire branch it is nil, which the code
   treats as an OPT without options), is the model's [opt_reserve] (Inline.v): the octets the chain
   appends below the cache, which the cache's size gate adds to the stored body before it compares
   with the client's ceiling.  Premises = what the inline driver's clients are: no leftover option
   in the request OPT, a client cookie of the regular length when there is one, a cookie secret
   that fits the preimage, no NSID, no keepalive (UDP). *)
From Sdns Require Import C11.Inline.
Lemma gen_opt_reserve : forall (q : iquery) (w : T_ResponseWriter),
  T_ResponseWriter_noedns w = negb (iq_edns q) ->
  T_OPT_Option (T_ResponseWriter_opt w) = [] ->
  (iq_edns q = true ->
     orb (negb (go_list_eqb N.eqb (T_ResponseWriter_cookie w) [])) (T_ResponseWriter_hasCookieRaw w) = iq_cookie q) ->
  andb (negb (T_ResponseWriter_hasCookieRaw w)) (negb (go_len (T_ResponseWriter_cookie w) =? 16)%Z) = false ->
  (61 + go_len (T_EDNS_cookiesecret (T_ResponseWriter_EDNS w)) <= 256)%Z ->
  andb (negb (go_list_eqb N.eqb (T_EDNS_nsidstr (T_ResponseWriter_EDNS w)) [])) (T_ResponseWriter_nsid w) = false ->
  T_ResponseWriter_keepalive w = false ->
  go_ResponseWriter_wireOPTLen w = (opt_reserve q, true).
Proof.
  intros q w Hn Ho Hc Hl Hs Hi Hk.
  unfold go_ResponseWriter_wireOPTLen, opt_reserve. rewrite Hn, Ho.
  destruct (iq_edns q); cbn [negb]; [|reflexivity].
  specialize (Hc eq_refl).
  cbn [length go_ResponseWriter_wireOPTLen_loop1 go_len Z.of_nat Z.ltb Z.compare].
  rewrite Hc, Hi, Hk.
  destruct (iq_cookie q).
  - rewrite Hl. destruct (Z.ltb_spec 256 (61 + go_len (T_EDNS_cookiesecret (T_ResponseWriter_EDNS w)))); [lia|]. reflexivity.
  - reflexivity.
Qed.
