(* C11 — ties between hand-written model functions and their srcgen translations (session 5). *)
From Sdns Require Import Common.Base Common.GoList Gen.C11 C11.Model.

(* responseWriter.Written(), translated from middleware/response_writer.go, is the model's
   "written" flag on the writer state the model keeps (size, directPack, internal): a rewrite of
   Written() that changes its meaning changes Gen/C11.v and breaks this lemma *)
Lemma gen_written : forall gw,
  go_responseWriter_Written gw =
  w_written (mk_writer (T_responseWriter_size gw) (T_responseWriter_directPack gw) (T_responseWriter_internal gw)).
Proof. intros gw. reflexivity. Qed.
