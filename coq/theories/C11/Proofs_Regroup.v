(* C11 — proofs about the groupLookup follower loop (Regroup.v). *)
From Sdns Require Import Common.Base C11.Regroup.
Open Scope Z_scope.

Lemma nth_error_upd_at {A} (f : A -> A) : forall l i j,
  nth_error (upd_at i f l) j = if (j =? i)%nat then option_map f (nth_error l j) else nth_error l j.
Proof.
  induction l as [|x r IH]; intros i j; cbn.
  - destruct i; cbn; destruct (j =? _)%nat; destruct j; reflexivity.
  - destruct i, j; cbn; try reflexivity. apply IH.
Qed.

(* what a caller may hold: an error only of its own, and only once its own context ended *)
Definition own_only (i : nat) (c : gcs) : Prop :=
  forall o t, g_out c = GErr o t -> o = i /\ g_ended c = true.
Definition inv (s : gst) : Prop :=
  forall i c, nth_error (g_cs s) i = Some c -> own_only i c.

Lemma inv_upd cs i f fl fr now fl' fr' now' :
  inv (mk_gst cs fl fr now) -> (forall c, own_only i c -> own_only i (f c)) ->
  inv (mk_gst (upd_at i f cs) fl' fr' now').
Proof.
  intros H Hf j c Hc. cbn in Hc. rewrite nth_error_upd_at in Hc.
  destruct (j =? i)%nat eqn:E.
  - apply Nat.eqb_eq in E. subst j. destruct (nth_error cs i) eqn:En; cbn in Hc; [|discriminate].
    injection Hc as <-. apply Hf. apply (H i g). exact En.
  - apply (H j c). exact Hc.
Qed.

Lemma inv_map cs f fl fr now fl' fr' now' :
  inv (mk_gst cs fl fr now) -> (forall i c, own_only i c -> own_only i (f c)) ->
  inv (mk_gst (map f cs) fl' fr' now').
Proof.
  intros H Hf j c Hc. cbn in Hc. rewrite nth_error_map in Hc.
  destruct (nth_error cs j) eqn:En; cbn in Hc; [|discriminate]. injection Hc as <-.
  apply Hf. apply (H j g). exact En.
Qed.

Lemma inv_flags cs fl fr now fl' fr' now' : inv (mk_gst cs fl fr now) -> inv (mk_gst cs fl' fr' now').
Proof. intros H i c Hc. apply (H i c Hc). Qed.

Lemma own_set_role i r c : own_only i c -> own_only i (set_role r c).
Proof. intros H o t Ho. apply (H o t Ho). Qed.
Lemma own_answer i t c : own_only i (finish_with (GAnswer t) c).
Proof. intros o t' Ho. discriminate. Qed.

Lemma complete_ok_inv s : inv s -> inv (complete_ok s).
Proof.
  destruct s as [cs fl fr now]. intros H. unfold complete_ok. cbn [g_cs g_now g_free].
  eapply inv_map; [exact H|]. intros i c Hc. destruct (g_role c); try exact Hc; apply own_answer.
Qed.

Lemma enter_inv s i : inv s -> inv (enter s i).
Proof.
  destruct s as [cs fl fr now]. intros H. unfold enter. cbn [g_flight g_cs g_free g_now].
  destruct fl.
  - eapply inv_upd; [exact H|]. intros c. apply own_set_role.
  - assert (H1 : inv (mk_gst (upd_at i (set_role GLead) cs) true fr now))
      by (eapply inv_upd; [exact H|]; intros c; apply own_set_role).
    destruct fr; [apply complete_ok_inv|]; exact H1.
Qed.

Lemma gstep_inv s e : inv s -> inv (gstep s e).
Proof.
  intros H. destruct e as [i|i| |j]; cbn [gstep].
  - destruct (role_of s i); try exact H. apply enter_inv, H.
  - destruct s as [cs fl fr now]. cbn [g_cs g_flight g_free g_now].
    assert (Hown : forall c, own_only i c -> own_only i (finish_with (GErr i now) (mk_gcs (g_role c) true (g_out c)))).
    { intros c _ o t Ho. cbn in Ho. injection Ho as <- _. split; reflexivity. }
    assert (Hend : forall c, own_only i c -> own_only i (mk_gcs (g_role c) true (g_out c))).
    { intros c Hc o t Ho. cbn in *. destruct (Hc o t Ho). split; [assumption|reflexivity]. }
    destruct (role_of (mk_gst cs fl fr now) i).
    + eapply inv_upd; [exact H|exact Hend].
    + eapply inv_map with (fl := fl) (fr := fr) (now := now).
      * eapply inv_upd; [exact H|exact Hown].
      * intros k c Hc. destruct (g_role c); exact Hc.
    + eapply inv_upd; [exact H|exact Hown].
    + eapply inv_upd; [exact H|exact Hend].
    + eapply inv_upd; [exact H|exact Hend].
  - destruct s as [cs fl fr now]. cbn [g_cs g_flight g_free g_now].
    destruct fl; [apply complete_ok_inv|]; eapply inv_flags; exact H.
  - destruct (role_of s j) eqn:Er; try exact H.
    destruct (ended_of s j) eqn:Ee; [|apply enter_inv, H].
    destruct s as [cs fl fr now]. cbn [g_cs g_flight g_free g_now].
    unfold inv. intros k c Hc. cbn in Hc. rewrite nth_error_upd_at in Hc.
    destruct (k =? j)%nat eqn:E.
    + apply Nat.eqb_eq in E. subst k. unfold ended_of in Ee. cbn in Ee.
      destruct (nth_error cs j) eqn:En; cbn in Hc; [|discriminate]. injection Hc as <-.
      intros o t Ho. cbn in Ho. injection Ho as <- _. split; [reflexivity|exact Ee].
    + apply (H k c Hc).
Qed.

Lemma grun_inv evs : forall s, inv s -> inv (grun s evs).
Proof. induction evs as [|e r IH]; intros s H; cbn; [exact H|]. apply IH, gstep_inv, H. Qed.

Lemma g0_inv n : inv (g0 n).
Proof.
  intros i c Hc. cbn in Hc. apply nth_error_In in Hc. apply repeat_spec in Hc. subst c.
  intros o t Ho. discriminate.
Qed.

(* a context is only ever marked ended by its own GEnd event *)
Lemma ended_needs_end evs : forall s i,
  ended_of (grun s evs) i = true -> ended_of s i = true \/ In (GEnd i) evs.
Proof.
  induction evs as [|e r IH]; intros s i H; cbn in *; [left; exact H|].
  destruct (IH _ _ H) as [H1|H1]; [|right; right; exact H1].
  assert (Hk : ended_of (gstep s e) i = true -> ended_of s i = true \/ e = GEnd i).
  { clear. destruct s as [cs fl fr now]. unfold ended_of.
    assert (Hmap : forall (f : gcs -> gcs) l, (forall c, g_ended (f c) = g_ended c) ->
              match nth_error (map f l) i with Some c => g_ended c | None => false end =
              match nth_error l i with Some c => g_ended c | None => false end).
    { intros f l Hf. rewrite nth_error_map. destruct (nth_error l i); cbn; [apply Hf|reflexivity]. }
    assert (Hupd : forall (f : gcs -> gcs) k l, (forall c, g_ended (f c) = g_ended c) ->
              match nth_error (upd_at k f l) i with Some c => g_ended c | None => false end =
              match nth_error l i with Some c => g_ended c | None => false end).
    { intros f k l Hf. rewrite nth_error_upd_at. destruct (i =? k)%nat; [|reflexivity].
      destruct (nth_error l i); cbn; [apply Hf|reflexivity]. }
    assert (Hcomp : forall s0, match nth_error (g_cs (complete_ok s0)) i with Some c => g_ended c | None => false end =
                               match nth_error (g_cs s0) i with Some c => g_ended c | None => false end).
    { intros s0. unfold complete_ok. cbn [g_cs]. apply Hmap. intros c. destruct (g_role c); reflexivity. }
    assert (Hent : forall s0 k, match nth_error (g_cs (enter s0 k)) i with Some c => g_ended c | None => false end =
                                match nth_error (g_cs s0) i with Some c => g_ended c | None => false end).
    { intros s0 k. unfold enter. destruct (g_flight s0); cbn [g_cs].
      - apply Hupd. reflexivity.
      - destruct (g_free s0); cbn [g_free g_cs]; [rewrite Hcomp; cbn [g_cs]|]; apply Hupd; reflexivity. }
    destruct e as [k|k| |k]; cbn [gstep].
    - destruct (role_of _ k); try (intros ?; left; assumption). rewrite Hent. intros ?; left; assumption.
    - destruct (Nat.eq_dec k i) as [->|Hne]; [intros _; right; reflexivity|].
      assert (Hupd' : forall (f : gcs -> gcs) l,
                match nth_error (upd_at k f l) i with Some c => g_ended c | None => false end =
                match nth_error l i with Some c => g_ended c | None => false end).
      { intros f l. rewrite nth_error_upd_at. destruct (i =? k)%nat eqn:E; [apply Nat.eqb_eq in E; congruence|reflexivity]. }
      destruct (role_of _ k); cbn [g_cs]; try (rewrite Hupd'; intros ?; left; assumption).
      rewrite Hmap by (intros c; destruct (g_role c); reflexivity). rewrite Hupd'. intros ?; left; assumption.
    - cbn [g_flight g_cs]. destruct fl; [rewrite Hcomp|]; cbn [g_cs]; intros ?; left; assumption.
    - destruct (role_of _ k); try (intros ?; left; assumption).
      destruct (ended_of _ k); [cbn [g_cs]; rewrite Hupd by reflexivity|rewrite Hent]; intros ?; left; assumption. }
  destruct (Hk H1) as [H2|H2]; [left; exact H2|right; left; exact H2].
Qed.

(* whatever the arrivals, however many leaders fail one after the other, in whatever order
   the woken followers re-enter: a caller is only ever failed with its own error, and only
   after its own context ended *)
Lemma follower_never_inherits n evs i o t :
  out_of (grun (g0 n) evs) i = GErr o t -> o = i /\ In (GEnd i) evs.
Proof.
  intros H. pose proof (grun_inv evs (g0 n) (g0_inv n)) as Hi.
  unfold out_of in H. destruct (nth_error (g_cs (grun (g0 n) evs)) i) as [c|] eqn:En; [|discriminate].
  destruct (Hi i c En o t H) as [-> He]. split; [reflexivity|].
  assert (He' : ended_of (grun (g0 n) evs) i = true) by (unfold ended_of; rewrite En; exact He).
  destruct (ended_needs_end evs (g0 n) i He') as [H0|H0]; [|exact H0].
  exfalso. unfold ended_of, g0 in H0. cbn in H0.
  destruct (nth_error (repeat (mk_gcs GIdle false GNone) n) i) eqn:E0; [|discriminate].
  apply nth_error_In, repeat_spec in E0. subst g. discriminate.
Qed.

(* a chain of five leaders that each give up in turn, the patient sixth caller following all
   of them; then the authority answers: the patient caller gets the answer *)
Example five_failed_leaders_then_answer :
  let evs := [GArrive 0; GArrive 5; GArrive 1; GEnd 0; GWake 5; GWake 1; GArrive 2; GEnd 1; GWake 2; GWake 5;
              GArrive 3; GEnd 2; GWake 3; GWake 5; GArrive 4; GEnd 3; GWake 5; GWake 4; GEnd 4; GWake 5; GRecover]%nat in
  map (out_of (grun (g0 6) evs)) (seq 0 6) =
  [GErr 0 0; GErr 1 0; GErr 2 0; GErr 3 0; GErr 4 0; GAnswer 0]%nat.
Proof. vm_compute. reflexivity. Qed.
