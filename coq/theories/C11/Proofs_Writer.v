(* C11 — proofs about the base response writer (Model part 1). *)
From Sdns Require Import Common.Base Gen.C11 C11.Model.

(* the values read from the source: Reset stores the very value Written() tests against,
   the write paths store something else, and the sentinel is not a length *)
Lemma gen_writer_sentinels :
  writer_reset_size = writer_unwritten_sentinel /\
  writer_msg_mark <> writer_unwritten_sentinel /\
  writer_wire_mark <> writer_unwritten_sentinel /\
  (writer_unwritten_sentinel < 0)%Z.
Proof. repeat split; try reflexivity; try discriminate. Qed.

Lemma reset_unwritten internal : w_written (w_reset internal) = false.
Proof.
  unfold w_written, w_reset. cbn [w_size]. destruct gen_writer_sentinels as [E _].
  rewrite E, Z.eqb_refl. reflexivity.
Qed.

Lemma written_set_len w l : (0 <= l)%Z -> w_written (set_size w l) = true.
Proof.
  intros H. unfold w_written, set_size. cbn [w_size].
  destruct gen_writer_sentinels as (_ & _ & _ & Hs).
  destruct (Z.eqb_spec l writer_unwritten_sentinel); [lia|reflexivity].
Qed.
Lemma written_set_msg w : w_written (set_size w writer_msg_mark) = true.
Proof.
  unfold w_written, set_size. cbn [w_size]. destruct gen_writer_sentinels as (_ & H & _).
  destruct (Z.eqb_spec writer_msg_mark writer_unwritten_sentinel); [contradiction|reflexivity].
Qed.
Lemma written_set_wire w : w_written (set_size w writer_wire_mark) = true.
Proof.
  unfold w_written, set_size. cbn [w_size]. destruct gen_writer_sentinels as (_ & _ & H & _).
  destruct (Z.eqb_spec writer_wire_mark writer_unwritten_sentinel); [contradiction|reflexivity].
Qed.

(* a write on a written writer returns errAlreadyWritten, changes nothing, emits nothing *)
Lemma refused_when_written w o :
  w_written w = true -> is_write_op o = true -> wstep w o = (w, RAlready, []).
Proof. intros Hw Ho. destruct o; cbn in *; try discriminate; now rewrite Hw. Qed.

(* whatever reaches the transport is a single call and marks the writer written *)
Lemma emission_marks w o w' r em :
  wop_len_ok o = true -> wstep w o = (w', r, em) -> em <> [] ->
  w_written w' = true /\ length em = 1%nat /\ w_written w = false.
Proof.
  intros Hl H Hne. destruct o; unfold wstep in H; cbn [wop_len_ok] in Hl.
  - destruct (w_written w) eqn:E; [inversion H; subst; contradiction|].
    destruct unpack_ok; cbn [negb] in H; inversion H; subst; try contradiction.
    repeat split; auto; try (apply written_set_len; now apply Z.leb_le).
  - destruct (w_written w) eqn:E; [inversion H; subst; contradiction|].
    destruct (w_direct w && negb (w_internal w) && packable); inversion H; subst.
    + repeat split; auto; try (apply written_set_len; now apply Z.leb_le).
    + repeat split; auto; try apply written_set_msg.
  - destruct (w_written w) eqn:E; [inversion H; subst; contradiction|].
    inversion H; subst. repeat split; auto; try apply written_set_wire.
  - inversion H; subst; contradiction.
  - inversion H; subst; contradiction.
  - inversion H; subst; contradiction.
Qed.

(* only Reset makes a written writer unwritten again *)
Lemma written_stable w o :
  w_written w = true -> is_reset o = false -> w_written (fst (fst (wstep w o))) = true.
Proof.
  intros Hw Hr. destruct o; cbn in *; try discriminate; try (now rewrite Hw).
  exact Hw.
Qed.

Lemma emits_at_most_one_step w o : (length (snd (wstep w o)) <= 1)%nat.
Proof.
  destruct o; cbn.
  - destruct (w_written w); cbn; [lia|]. destruct unpack_ok; cbn; lia.
  - destruct (w_written w); cbn; [lia|]. destruct (w_direct w && negb (w_internal w) && packable); cbn; lia.
  - destruct (w_written w); cbn; lia.
  - lia.
  - lia.
  - lia.
Qed.

(* no emission at all once written, for any reset-free sequence *)
Lemma wrun_written_silent ops : forall w,
  w_written w = true -> forallb (fun o => negb (is_reset o)) ops = true ->
  snd (wrun w ops) = [] /\ w_written (fst (fst (wrun w ops))) = true.
Proof.
  induction ops as [|o ops IH]; intros w Hw Hr; cbn in *; [auto|].
  apply andb_prop in Hr as [Ho Hr]. apply negb_true_iff in Ho.
  pose proof (written_stable w o Hw Ho) as Hs.
  assert (Hem : snd (wstep w o) = []).
  { destruct o; cbn in *; try discriminate; try (now rewrite Hw); reflexivity. }
  destruct (wstep w o) as [[w1 ret] em] eqn:E. cbn in *. subst em.
  specialize (IH w1 Hs Hr). destruct (wrun w1 ops) as [[w2 rets] ems]. cbn in *. tauto.
Qed.

(* AT MOST ONE WRITE: any sequence of operations on one writer between two Resets reaches
   the transport at most once *)
Lemma at_most_one_write_lemma ops : forall w,
  forallb wop_len_ok ops = true -> forallb (fun o => negb (is_reset o)) ops = true ->
  (length (snd (wrun w ops)) <= 1)%nat.
Proof.
  induction ops as [|o ops IH]; intros w Hl Hr; cbn in *; [lia|].
  apply andb_prop in Hl as [Hlo Hl]. apply andb_prop in Hr as [Ho Hr].
  destruct (wstep w o) as [[w1 ret] em] eqn:E.
  destruct em as [|e em'].
  - specialize (IH w1 Hl Hr). destruct (wrun w1 ops) as [[w2 rets] ems]. cbn in *. exact IH.
  - destruct (emission_marks w o w1 ret (e :: em') Hlo E ltac:(discriminate)) as (Hw1 & Hlen & _).
    destruct (wrun_written_silent ops w1 Hw1 Hr) as [Hs _].
    destruct (wrun w1 ops) as [[w2 rets] ems]. cbn in *. subst ems. rewrite app_nil_r. lia.
Qed.

(* with Resets: one emission per request epoch at most *)
Lemma at_most_one_write_per_reset ops : forall w,
  forallb wop_len_ok ops = true ->
  (length (snd (wrun w ops)) <= (if w_written w then 0 else 1) + length (filter is_reset ops))%nat.
Proof.
  induction ops as [|o ops IH]; intros w Hl; cbn in *.
  - destruct (w_written w); lia.
  - apply andb_prop in Hl as [Hlo Hl].
    destruct (wstep w o) as [[w1 ret] em] eqn:E.
    specialize (IH w1 Hl).
    destruct (wrun w1 ops) as [[w2 rets] ems] eqn:E2. cbn in *.
    rewrite app_length.
    destruct (is_reset o) eqn:Er.
    + destruct o; try discriminate. cbn in E. inversion E; subst. cbn.
      rewrite reset_unwritten in IH. cbn. destruct (w_written w); lia.
    + destruct em as [|e em'].
      * cbn.
        destruct (w_written w) eqn:Ew.
        -- pose proof (written_stable w o Ew Er) as Hs. rewrite E in Hs. cbn in Hs. rewrite Hs in IH. lia.
        -- destruct (w_written w1); lia.
      * destruct (emission_marks w o w1 ret (e :: em') Hlo E ltac:(discriminate)) as (Hw1 & Hlen & Hw0).
        rewrite Hw1 in IH. rewrite Hw0. lia.
Qed.

(* the example: a leader path that writes twice and then a deadline SERVFAIL on top *)
Example writer_example :
  wrun (w_reset false) [WAllowDirect; WWriteMsg true false 45; WWriteMsg false false 0; WWrite true false 30; WWriteWire false 60]
  = (mk_writer 45 true false, [ROk; ROk; RAlready; RAlready; RAlready], [TBytes 45]).
Proof. reflexivity. Qed.
