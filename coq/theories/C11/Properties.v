(* C11 — property theorems only.  Each is closed by [exact <lemma>] so that it cannot be
   quietly weakened; the lemmas live in Proofs_*.v; the model in Model.v; Gen/C11.v is
   regenerated from /repo on every run.

   PARTIAL.  What is proved: the three modelled automata (base response writer, wait group,
   request automaton of Cache.ServeDNS) satisfy the property for every operation sequence /
   schedule of the modelled atomic steps / environment.  What is NOT proved but only
   observed by the drivers: "in time" (the wall-clock latency bound), freedom from goroutine
   and slab leaks, and that the Go scheduler + context/timer machinery realise the atomic
   steps.  The full statement therefore stays a comment:

     for every admitted query, fault script and arrival pattern: exactly one reply reaches
     the client's socket, no later than querytimeout + margin; expiry/cancel/capacity
     refusal is a SERVFAIL to that client only; after load stops the server is quiescent. *)
From Sdns Require Import Common.Base Common.GoList Gen.C11 C11.Model C11.Proofs_Writer C11.Proofs_WG C11.Proofs_Req C11.Proofs_World C11.Proofs_Lazy C11.Stream C11.Proofs_Stream C11.Regroup C11.Proofs_Regroup C11.Proofs_Live C11.Proofs_Quiesce C11.Shutdown C11.Proofs_Shutdown C11.Proofs_Dispatch C11.Flights C11.Proofs_Flights C11.Inline C11.Proofs_Inline C11.Interrupt C11.Proofs_Interrupt C11.Ingress C11.Proofs_Ingress C11.Proofs_Ties C11.Breaker C11.Proofs_Breaker.

(* ---- translator ties ---- *)
Theorem writer_sentinels_consistent :
  writer_reset_size = writer_unwritten_sentinel /\
  writer_msg_mark <> writer_unwritten_sentinel /\
  writer_wire_mark <> writer_unwritten_sentinel /\
  (writer_unwritten_sentinel < 0)%Z.
Proof. exact gen_writer_sentinels. Qed.
Print Assumptions writer_sentinels_consistent.

Theorem done_thresholds_cover_initial_count :
  (gen_initial_dups <= gen_done_threshold)%N /\ (gen_initial_dups <= legacy_done_threshold)%N.
Proof. exact gen_threshold_covers_initial. Qed.
Print Assumptions done_thresholds_cover_initial_count.

(* ---- writer ---- *)
(* any operation sequence on one writer between two Resets reaches the transport at most once *)
Theorem at_most_one_write : forall ops w,
  forallb wop_len_ok ops = true -> forallb (fun o => negb (is_reset o)) ops = true ->
  (length (snd (wrun w ops)) <= 1)%nat.
Proof. exact at_most_one_write_lemma. Qed.
Print Assumptions at_most_one_write.

(* across Resets (pooled chains): at most one emission per request *)
Theorem at_most_one_write_per_request : forall ops w,
  forallb wop_len_ok ops = true ->
  (length (snd (wrun w ops)) <= (if w_written w then 0 else 1) + length (filter is_reset ops))%nat.
Proof. exact at_most_one_write_per_reset. Qed.
Print Assumptions at_most_one_write_per_request.

(* later writes return errAlreadyWritten, change nothing and emit nothing *)
Theorem later_writes_refused : forall w o,
  w_written w = true -> is_write_op o = true -> wstep w o = (w, RAlready, []).
Proof. exact refused_when_written. Qed.
Print Assumptions later_writes_refused.

(* whatever reaches the transport is one call and marks the writer written, even when the
   transport then fails *)
Theorem emission_marks_written : forall w o w' r em,
  wop_len_ok o = true -> wstep w o = (w', r, em) -> em <> [] ->
  w_written w' = true /\ length em = 1%nat /\ w_written w = false.
Proof. exact emission_marks. Qed.
Print Assumptions emission_marks_written.

(* ---- wait group ---- *)
(* in every schedule a generation is handed out as "leader" at most once, and only at the
   moment it is created *)
Theorem one_leader_per_generation : forall ops s,
  let r := wg_run s ops in
  NoDup (leaders (snd r)) /\
  forall g, In g (leaders (snd r)) -> (length (gens s) <= g < length (gens (fst r)))%nat.
Proof. exact one_leader_lemma. Qed.
Print Assumptions one_leader_per_generation.

(* the leader's Done releases every follower of that generation, for good (generation API) *)
Theorem followers_released : forall ops1 k g ops2,
  forallb gen_api ops1 = true ->
  (g < length (gens (fst (wg_run wg_empty ops1))))%nat ->
  gstat (fst (wg_run wg_empty (ops1 ++ ODoneGen k (Some g) :: ops2))) g <> GLive.
Proof. exact followers_released_lemma. Qed.
Print Assumptions followers_released.

(* so does the bounded wait, whatever else happens before or after (any API mix) *)
Theorem followers_released_by_timeout : forall ops1 g ops2,
  (g < length (gens (fst (wg_run wg_empty ops1))))%nat ->
  gstat (fst (wg_run wg_empty (ops1 ++ OExpire g :: ops2))) g <> GLive.
Proof. exact timeout_released_lemma. Qed.
Print Assumptions followers_released_by_timeout.

(* all followers of one ended generation obtain the same next generation, whatever runs in
   between (including the new leader finishing before a late follower wakes) and under
   whichever key each of them regroups; later ones are followers *)
Theorem regroup_converges : forall s k1 k2 p ops,
  (p < length (gens s))%nat -> gstat s p <> GLive ->
  exists n l1,
    snd (wg_step s (ORegroup k1 (Some p))) = RGen n l1 /\
    snd (wg_step (fst (wg_run (fst (wg_step s (ORegroup k1 (Some p)))) ops)) (ORegroup k2 (Some p))) = RGen n false.
Proof. exact regroup_converges_lemma. Qed.
Print Assumptions regroup_converges.

(* an old (e.g. timed-out) leader's Done never unregisters a newer generation *)
Theorem old_done_keeps_newer : forall s k g k' g',
  lookup (groups s) k' = Some g' -> g' <> g ->
  lookup (groups (wg_donegen s k (Some g))) k' = Some g'.
Proof. exact old_done_keeps_newer_lemma. Qed.
Print Assumptions old_done_keeps_newer.

(* ---- request automaton ---- *)
(* every path of the request automaton, under every environment, writes at most one reply,
   nothing before it ends, and ends in exactly one of {reply written, client-cancelled,
   downstream silent} with the log agreeing *)
Theorem terminal_outcome_exists : forall internal ins,
  let s := rrun (rinit internal) ins in
  (length (r_emits s) <= 1)%nat /\
  match r_pc s with
  | PEnd (OReplied r) => r_emits s = [r]
  | PEnd OCancelled => r_emits s = []
  | PEnd OSilent => r_emits s = []
  | _ => r_emits s = []
  end.
Proof. exact terminal_outcome_lemma. Qed.
Print Assumptions terminal_outcome_exists.

(* "cancelled" only if the client's context was cancelled; "silent" only if the downstream
   handler wrote nothing at all; the deadline reply only if this request's own deadline
   elapsed, and then no shared store state was touched on its behalf *)
Theorem outcome_causes : forall internal ins,
  let s := rrun (rinit internal) ins in
  match r_pc s with
  | PEnd OCancelled => exists i, In i ins /\ input_cerr i = CCanceled
  | PEnd OSilent => exists i, In i ins /\ input_atts_nonempty i = false
  | PEnd (OReplied RpTimeout) =>
      (exists i, In i ins /\ input_cerr i = CDeadline) /\
      forallb (fun a => negb (is_store a)) (r_acts s) = true
  | _ => True
  end.
Proof. exact outcome_causes_lemma. Qed.
Print Assumptions outcome_causes.

(* every admitted path ends: each answer the automaton is waiting for strictly decreases a
   measure bounded by 3 * (regroup limit + 1) + 6, so no request loops or re-elects forever *)
Theorem every_path_ends : forall s i,
  accepts s i = true -> (rmeasure (rstep s i) < rmeasure s)%nat.
Proof. exact accepted_step_decreases. Qed.
Print Assumptions every_path_ends.

(* ---- request context ---- *)
(* the first terminal cause of a request context is kept whatever is called afterwards *)
Theorem lazy_cause_sticky : forall ops l c, lz_term l = Some c -> lz_term (fst (lz_run l ops)) = Some c.
Proof. exact lazy_cause_sticky_run. Qed.
Print Assumptions lazy_cause_sticky.

(* EffectiveError is nil exactly while nobody cancelled and the clock is strictly before the
   deadline (so a request never starts or continues work at or after its deadline) *)
Theorem effective_error_exact : forall l, lz_wf l ->
  (snd (lz_step l LEffective) = 0%N <->
   lz_term l = None /\ lz_parent l = false /\ (lz_now l < lz_deadline l)%Z).
Proof. exact effective_error_exact_lemma. Qed.
Print Assumptions effective_error_exact.

(* ---- the composed model ---- *)
(* FULL STATEMENT (not provable here, kept as the target): for the running server, every
   admitted query receives exactly one reply at its socket no later than querytimeout + margin,
   under every upstream fault script and arrival pattern, and the server is quiescent after
   load.  PROVED PART: in the composed model - wait group + store + requests on a virtual
   clock, behind any number of pool workers, any ready-queue and admission bound, any mix of
   entry paths - for EVERY history of arrivals, client cancellations, downstream completions
   and clock advances, every request has written at most one reply, nothing before it ended,
   and its outcome (replied / client-cancelled / downstream silent) is exactly what was
   written.  MISSING: wall-clock latency, goroutine/slab leak freedom, and that Go's
   scheduler, contexts and timers realise the modelled atomic steps (observed by the
   drivers only). *)
Theorem exactly_one_reply_partial : forall rs evs,
  Forall fresh rs ->
  Forall (fun q => one_reply_and_agreeing_outcome (q_st q)) (reqs (fold_left wevent_step evs (world0 rs))).
Proof. exact world_one_reply. Qed.
Print Assumptions exactly_one_reply_partial.

Theorem exactly_one_reply_server_partial : forall rs paths workers qcap cap evs,
  Forall fresh rs ->
  Forall (fun q => one_reply_and_agreeing_outcome (q_st q))
         (reqs (s_w (fold_left sevent_step evs (sworld0 rs paths workers qcap cap)))).
Proof. exact server_one_reply. Qed.
Print Assumptions exactly_one_reply_server_partial.

(* ---- TCP / DoT stream path (session 3) ---- *)
(* A reply staged for an admitted query is written under a bound that has not expired: for
   every announced-frame list, every resolution time and query timeout, every client timing
   (chunks, close, a client that stops reading), every Write the connection goroutine issues
   is issued strictly before the bound the connection carries at that moment, and that bound
   is armed.  (Model: Stream.v = tcp_stream.go + serveConn; the waits are the source's.) *)
Theorem stream_writes_under_live_bound : forall qt frames c,
  Forall (fun e => live_write e = true) (run_conn qt frames c).
Proof. exact writes_under_live_bound. Qed.
Print Assumptions stream_writes_under_live_bound.

(* ---- Resolver.groupLookup follower loop (session 3) ---- *)
(* A follower never inherits another request's deadline / cancellation, however long the
   chain of failed leaders: for every number of callers, every sequence of arrivals, context
   endings, recoveries and single wake-ups (= every schedule of the re-entering followers),
   a caller that ends with an error ends with ITS OWN, and its own context did end. *)
Theorem regroup_follower_never_inherits : forall n evs i o t,
  out_of (grun (g0 n) evs) i = GErr o t -> o = i /\ In (GEnd i) evs.
Proof. exact follower_never_inherits. Qed.
Print Assumptions regroup_follower_never_inherits.

(* For a client that keeps reading - whatever its timing, half-sent frames, closing - and
   whatever the resolution times: the reply frames written to the connection are exactly
   those of the frames whose handler ran ([s_served], a ghost counter), each exactly once, in
   order; none lost, duplicated or invented. *)
Theorem stream_reading_client_exactly_one_reply : forall qt frames c,
  (tc_stall c < 0)%Z ->
  written_ids (run_conn qt frames c) =
  seq 1 (s_served (serve_conn c qt (S (length (tc_chunks c))) frames 1 w_first (st0 c))).
Proof. exact reading_client_exactly_once. Qed.
Print Assumptions stream_reading_client_exactly_one_reply.

(* ---- no wedge in the composed cache-level world (session 3) ---- *)
(* When nobody can move, an arrived request that has not finished is blocked for one of three
   reasons only: it follows a generation that is still LIVE and its own context is alive; it is
   inside a downstream call that has not returned; or its previous-generation index dangles
   (not reachable: previous generations are join results - not proved unreachable here). *)
Theorem no_wedge_when_quiescent : forall w i q,
  quiescent w -> nth_error (reqs w) i = Some q -> q_arrived q = true -> is_end (q_st q) = false ->
  blocked w q.
Proof. exact quiescent_only_blocked. Qed.
Print Assumptions no_wedge_when_quiescent.

(* ... so a request whose own context has ended (deadline fired, client gone) is unfinished
   only as the caller of a downstream handler that ignores its context and was not released:
   nobody stays parked behind a dead generation or a finished leader. *)
Theorem ended_context_unfinished_only_downstream : forall w i q,
  quiescent w -> nth_error (reqs w) i = Some q -> q_arrived q = true -> is_end (q_st q) = false ->
  q_ctx q <> CNone ->
  (exists lead, r_pc (q_st q) = PDown lead /\ q_hold q = HUntilRelease /\ q_released q = false) \/
  (exists l k p, r_pc (q_st q) = PJoining l /\ join_op l = ORegroup k (Some p) /\ nth_error (gens (wwg w)) p = None).
Proof. exact ended_context_only_in_downstream. Qed.
Print Assumptions ended_context_unfinished_only_downstream.

(* ---- the composed world settles (wave 5): the two pieces that kept exactly_one_reply_partial open ---- *)
(* [quiesce]'s fuel suffices: every micro-step of every request strictly decreases the sum of
   the per-request measures (+1 for a downstream call not yet made), and the fuel
   40 * (requests + 1) bounds that sum (the bound uses the source's maxFailureProbeRegroups). *)
Theorem quiesce_reaches_quiescence : forall w, quiescent (quiesce (qfuel w) w).
Proof. exact quiesce_reaches_quiescence_lemma. Qed.
Print Assumptions quiesce_reaches_quiescence.

(* the previous-generation index a request regroups on is always a generation: an invariant of
   the generation automaton inside the world (groups and successor links point at existing
   generations; a request's indices come from join results) *)
Theorem previous_generation_never_dangles : forall rs evs i q l k p,
  Forall fresh rs ->
  let w := fold_left wevent_step evs (world0 rs) in
  nth_error (reqs w) i = Some q -> r_pc (q_st q) = PJoining l -> join_op l = ORegroup k (Some p) ->
  nth_error (gens (wwg w)) p <> None.
Proof. exact no_dangling_reachable. Qed.
Print Assumptions previous_generation_never_dangles.

(* every history of arrivals, cancellations, releases, clock advances: the world is settled, and
   an arrived request without an outcome is a follower (own context alive) of a LIVE generation
   or sits in a downstream call that has not returned - nothing else *)
Theorem every_history_settles : forall rs evs,
  Forall fresh rs -> Forall (fun q => q_arrived q = false) rs ->
  let w := fold_left wevent_step evs (world0 rs) in
  quiescent w /\
  forall i q, nth_error (reqs w) i = Some q -> q_arrived q = true -> is_end (q_st q) = false ->
    (exists l g, r_pc (q_st q) = PWaiting l g /\ gstat (wwg w) g = GLive /\ q_ctx q = CNone) \/
    (exists lead, r_pc (q_st q) = PDown lead /\ q_called q = true /\
       ((q_hold q = HUntilRelease /\ q_released q = false) \/ (q_hold q = HUntilCtx /\ q_ctx q = CNone))).
Proof. exact world_settled. Qed.
Print Assumptions every_history_settles.

(* THE MODEL-LEVEL STATEMENT: in every schedule of the model, an admitted request whose own
   context has ended (deadline fired or client gone) and whose downstream handler returns when
   its context ends (or was released) HAS ended, in exactly one reply or a recorded drop with its
   cause (client-cancelled / downstream silent); with [exactly_one_reply_partial] (never two
   replies, nothing before the end) this is "exactly one reply or a recorded drop, in every
   schedule of the model".  What stays outside: that Go's scheduler, contexts and timers realise
   the atomic steps, wall-clock latency, leak freedom. *)
Theorem exactly_one_reply_or_recorded_drop : forall rs evs,
  Forall fresh rs -> Forall (fun q => q_arrived q = false) rs ->
  let w := fold_left wevent_step evs (world0 rs) in
  forall i q, nth_error (reqs w) i = Some q -> q_arrived q = true -> q_ctx q <> CNone ->
    (q_hold q <> HUntilRelease \/ q_released q = true) ->
    exists o, r_pc (q_st q) = PEnd o /\
      match o with OReplied r => r_emits (q_st q) = [r] | _ => r_emits (q_st q) = [] end.
Proof. exact ended_context_has_outcome. Qed.
Print Assumptions exactly_one_reply_or_recorded_drop.

(* ---- UDP listener shutdown (wave 5; Shutdown.v = listener_udp.go Shutdown + udpEngine.stopAndDrain) ---- *)
(* the bounds hold under shutdown: whatever the history and wherever the shutdown falls in it,
   every request has written at most one reply, nothing before it ended, outcome = what was written *)
Theorem shutdown_at_most_one_reply : forall rs paths workers qcap cap evs,
  Forall fresh rs ->
  Forall (fun q => one_reply_and_agreeing_outcome (q_st q))
         (reqs (s_w (d_s (drun (dworld0 (sworld0 rs paths workers qcap cap)) evs)))).
Proof. exact shutdown_one_reply. Qed.
Print Assumptions shutdown_at_most_one_reply.

(* admission stops at the shutdown: a datagram arriving afterwards is never read *)
Theorem shutdown_stops_admission : forall d i st,
  d_stop d = Some st -> (path_of (d_s d) i =? 0)%N = false -> dstep d (DArrive i) = d.
Proof. exact admission_stopped. Qed.
Print Assumptions shutdown_stops_admission.

(* the drain is bounded by its timeout: at stop + drain the sockets are closed, drained or not *)
Theorem shutdown_closes_by_deadline : forall d st t,
  d_stop d = Some st -> (st + d_drain d <= t)%N -> d_closed (dstep d (DAdvance t)) = true.
Proof. exact closed_by_deadline. Qed.
Print Assumptions shutdown_closes_by_deadline.

(* a reply is lost to the shutdown only through the one recorded cause: the drain ran into its
   deadline (errDrainTimeout) with that job unfinished when the sockets closed *)
Theorem shutdown_loss_only_by_recorded_timeout : forall s evs i,
  let d := drun (dworld0 s) evs in
  In i (d_lost d) -> d_err d = true /\ d_closed d = true /\ d_stop d <> None.
Proof. exact loss_only_by_recorded_timeout. Qed.
Print Assumptions shutdown_loss_only_by_recorded_timeout.

(* ---- UDP dispatch is work-conserving and settles (wave 5; Proofs_Dispatch.v) ---- *)
(* one settle pass: nobody in the world can move and no pool worker idles next to a queued job,
   whenever the fuel exceeds the queue length *)
Theorem settle_is_work_conserving : forall fuel s,
  (length (e_queue (s_e s)) < fuel)%nat -> settled (s_settle fuel s).
Proof. exact s_settle_settles. Qed.
Print Assumptions settle_is_work_conserving.

(* every history of the server-level world (any workers / admission cap / path mix; ready queue
   no deeper than 2 * requests + 1, the settle fuel): settled after every event *)
Theorem server_always_settled : forall rs paths workers qcap cap evs,
  Forall (fun q => q_arrived q = false) rs -> (qcap <= 2 * length rs + 1)%nat ->
  settled (fold_left sevent_step evs (sworld0 rs paths workers qcap cap)).
Proof. exact server_history_settled. Qed.
Print Assumptions server_always_settled.

(* ... and with a shutdown anywhere in the history: the closed ready queue keeps being drained *)
Theorem shutdown_always_settled : forall rs paths workers qcap cap evs,
  Forall (fun q => q_arrived q = false) rs -> (qcap <= 2 * length rs + 1)%nat ->
  settled (d_s (drun (dworld0 (sworld0 rs paths workers qcap cap)) evs)).
Proof. exact shutdown_history_settled. Qed.
Print Assumptions shutdown_always_settled.

(* ---- capacity slots of groupLookup over several keys (wave 5; Flights.v) ---- *)
(* the global in-flight pool and the zone quota are never overdrawn, in any history *)
Theorem capacity_never_overdrawn : forall keys nkeys cap zcap evs,
  let s := frun (f0 keys nkeys cap zcap) evs in (f_used s <= cap)%nat /\ (f_zused s <= zcap)%nat.
Proof. exact never_overdrawn. Qed.
Print Assumptions capacity_never_overdrawn.

(* expired, cancelled or capacity-refused resolution surfaces to that caller only *)
Theorem refusal_and_expiry_are_own : forall keys nkeys cap zcap evs i,
  let s := frun (f0 keys nkeys cap zcap) evs in
  (forall o t, fout_of s i = FErr o t -> o = i) /\ (forall o z t, fout_of s i = FCap o z t -> o = i).
Proof. exact failures_are_own. Qed.
Print Assumptions refusal_and_expiry_are_own.

(* no leaked limiter slot: slots held = flights running, so with no flight running none is held
   (covers the refusal at the zone quota, which must hand the global slot back) *)
Theorem no_leaked_limiter_slot : forall keys nkeys cap zcap evs,
  Forall (fun k => (k < nkeys)%nat) keys ->
  let s := frun (f0 keys nkeys cap zcap) evs in
  (forall k, flight_on s k = false) -> f_used s = 0%nat /\ f_zused s = 0%nat.
Proof. exact no_slot_leak. Qed.
Print Assumptions no_leaked_limiter_slot.

(* ---- cache hits across the UDP transport's passes, rate limiters on (session 4; Inline.v) ---- *)
(* "replay skips entry effects", the per-client limiter of the ratelimit middleware: whichever
   way a hit travels - one full pass on a worker, an inline pass on the reader, an inline pass
   that hands off and is replayed - the client's bucket afterwards is the bucket after exactly
   ONE Allow at the query's arrival (untouched for a loopback client / a zero rate) *)
Theorem hit_costs_its_client_one_token_by_every_route : forall cr r q cb b,
  snd (fst (serve_query cr r false q cb b)) = client_after cr q cb.
Proof. exact serve_query_client_once. Qed.
Print Assumptions hit_costs_its_client_one_token_by_every_route.

(* ... and the per-entry limiter of the cache: the entry's bucket afterwards is the bucket after
   exactly ONE Allow when the client's limiter let the query through, untouched otherwise (no
   commit-time backstop fired: see backstop_is_the_only_double_charge) *)
Theorem hit_costs_one_token_by_every_route : forall cr r q cb b,
  snd (serve_query cr r false q cb b) =
  if client_admits cr q cb then snd (bk_allow r entry_unit b (iq_at q)) else b.
Proof. exact serve_query_charges_once. Qed.
Print Assumptions hit_costs_one_token_by_every_route.

(* a query the rate policy admits (the client's Allow, then the entry's, succeed at its arrival)
   receives exactly one reply, a refused one none - by every route, for every client shape and
   entry size *)
Theorem rate_admitted_hit_exactly_one_reply : forall cr r q cb b,
  replies_of (fst (fst (fst (serve_query cr r false q cb b)))) = if rate_admits cr r q cb b then 1%Z else 0%Z.
Proof. exact serve_query_replies. Qed.
Print Assumptions rate_admitted_hit_exactly_one_reply.

(* an inline pass of the cache that hands off wrote nothing and charged nothing, and it hands
   off exactly the hits whose reply does not fit the client's ceiling *)
Theorem handoff_is_unwritten_and_uncharged : forall r q b now b',
  run_pass r false KInline q b now = (PHandoff, b') -> b' = b /\ fits q = false.
Proof. exact handoff_unwritten_uncharged. Qed.
Print Assumptions handoff_is_unwritten_and_uncharged.

(* every history over any number of cached names and clients: each observation of the model
   satisfies the specification oracle the driver's observations are judged by (never two;
   admitted => one; refused => none; one question, one token per limiter it reaches) *)
Theorem inline_histories_meet_the_spec : forall cr r qs cbs bs, (0 <= cr)%Z -> (0 <= r)%Z ->
  forallb iobs_spec (run_inline cr r cbs bs qs) = true.
Proof. exact run_inline_spec. Qed.
Print Assumptions inline_histories_meet_the_spec.

(* the hypothesis is necessary (the source accepts it as "the rare case"): a commit-time
   backstop after the charge makes an inline query pay again on the replay; with one token in
   the bucket the admitted query is then dropped *)
Theorem backstop_is_the_only_double_charge :
  let q := mk_iq 5000 0 0 true true 1232 false 100 in
  bk_level 1 entry_unit (bk_full 1 entry_unit) (iq_at q) = entry_unit /\
  fst (fst (serve_query 0 1 true q (bk_full 0 client_unit) (bk_full 1 entry_unit))) = (PDropped, true).
Proof. exact backstop_inline_loses_admitted_query. Qed.
Print Assumptions backstop_is_the_only_double_charge.

(* ---- lookup fan-out bounded by deadline; stragglers cancelled (session 5; Interrupt.v =
   internal/dnsclient interrupt_group.go + Conn.Exchange / ExchangeInterruptible) ---- *)
(* the order of Resolver.lookup's defers: the lookup's context is cancelled BEFORE the group is
   detached.  Then, whatever arm / disarm / Close steps of however many exchanges fall before,
   between and after the cancellation and the callback it starts: once the callback has run the
   group has fired, and every connection armed at that moment or later - a straggler of the
   fan-out, or an exchange that starts only afterwards - has had its deadline set to "now" since it
   was armed *)
Theorem cancel_before_close_reaches_every_straggler : forall ops1 ops2 ops3,
  ~ In IClose ops1 -> ~ In ICancel ops1 ->
  let g := ig_run ig0 (ops1 ++ ICancel :: ops2 ++ IFire :: ops3) in
  ig_fired g = true /\ forallb slot_hit (ig_slots g) = true.
Proof. exact cancel_before_close_lemma. Qed.
Print Assumptions cancel_before_close_reaches_every_straggler.

(* the hypothesis is necessary: detach first and the straggler is stranded until its network
   deadline (what the seeded change C11-3 does to Resolver.lookup; the lab driver watches that order) *)
Theorem close_before_cancel_strands_a_straggler :
  let g := ig_run ig0 [IArm 7; IClose; ICancel; IFire] in
  ig_fired g = false /\ nth 0 (ig_slots g) None = Some (7%nat, false).
Proof. exact close_before_cancel_lemma. Qed.
Print Assumptions close_before_cancel_strands_a_straggler.

(* the reuse contract: whatever a step of the group touches is armed in it at that moment ... *)
Theorem group_touches_only_armed : forall g o g' r t c,
  ig_step g o = (g', r, t) -> In c t -> In c (armed_conns (ig_slots g')).
Proof. exact touches_only_armed_lemma. Qed.
Print Assumptions group_touches_only_armed.

(* ... so once disarm has returned, no later step of any schedule touches that connection (until
   somebody arms it again) *)
Theorem no_touch_after_disarm : forall g s c ops,
  ~ In c (armed_conns (set_slot (ig_slots g) s None)) -> ~ In (IArm c) ops ->
  ~ In c (touched_run (ig_next g (IDisarm s)) ops).
Proof. exact no_touch_after_disarm_lemma. Qed.
Print Assumptions no_touch_after_disarm.

(* arm refuses exactly when every slot is taken (the caller then registers on its own), and the
   group never watches more connections than the source's interruptGroupSlots *)
Theorem arm_refused_iff_full : forall g c,
  snd (fst (ig_step g (IArm c))) = None <-> forallb slot_taken (ig_slots g) = true.
Proof. exact arm_refused_iff_full_lemma. Qed.
Print Assumptions arm_refused_iff_full.

Theorem group_occupancy_bounded : forall ops,
  (occupancy (ig_run ig0 ops) <= N.to_nat interrupt_group_slots)%nat.
Proof. exact occupancy_bounded_lemma. Qed.
Print Assumptions group_occupancy_bounded.

(* one exchange, whatever the upstream sends and whenever: it returns no later than the bound its
   connection carries (network deadline, replaced by "now" at the cancellation), and not before it
   started *)
Theorem exchange_returns_by_deadline_or_cancellation : forall x cancel,
  (fst (xrun x cancel) <= Z.max (xs_start x) (xbound x cancel))%Z /\
  (Forall (fun a => (xs_start x <= fst a)%Z) (xs_arr x) -> (xs_start x <= fst (xrun x cancel))%Z).
Proof. exact exchange_bounded_lemma. Qed.
Print Assumptions exchange_returns_by_deadline_or_cancellation.

(* a straggler returns at the cancellation of its lookup at the latest, an exchange that starts
   after it returns at once; and never later than its network deadline *)
Theorem straggler_returns_at_cancellation : forall x c,
  (fst (xrun x (Some c)) <= Z.max (xs_start x) c)%Z /\ (fst (xrun x (Some c)) <= Z.max (xs_start x) (xs_deadline x))%Z.
Proof. exact straggler_cancelled_lemma. Qed.
Print Assumptions straggler_returns_at_cancellation.

(* "garbage, answers to the wrong question": an answer is accepted only when the matching
   response arrived before the bound, preceded by nothing but datagrams carrying another ID (none
   at all on a stream) *)
Theorem exchange_accepts_only_the_matching_response : forall x cancel t, xrun x cancel = (t, XAnswer) ->
  exists pre post, xs_arr x = pre ++ (t, DGood) :: post /\ Forall (fun a => snd a = DWrongId) pre /\
    (xs_stream x = true -> pre = []) /\ (t < xbound x cancel)%Z.
Proof. exact only_matching_accepted_lemma. Qed.
Print Assumptions exchange_accepts_only_the_matching_response.

(* stray / late / spoofed datagrams with another ID never change what a UDP exchange returns, nor when *)
Theorem strays_never_change_the_outcome : forall x cancel,
  xs_stream x = false -> arr_sorted (xs_start x) (xs_arr x) = true ->
  xrun (mk_xs (xs_start x) (xs_deadline x) false (filter not_stray (xs_arr x))) cancel = xrun x cancel.
Proof. exact strays_ignored_lemma. Qed.
Print Assumptions strays_never_change_the_outcome.

(* QuestionMatches as translated from the source: a response matches only with exactly one
   question of the request's type and class whose name is the request's up to ASCII letter case *)
Theorem wrong_question_never_matches : forall req resp, go_QuestionMatches req resp = true ->
  exists r, resp = [r] /\ T_Question_Qtype r = T_Question_Qtype req /\ T_Question_Qclass r = T_Question_Qclass req /\
    GoList.go_canonical_name_ascii (T_Question_Name r) = GoList.go_canonical_name_ascii (T_Question_Name req).
Proof. exact question_match_sound_lemma. Qed.
Print Assumptions wrong_question_never_matches.

(* ---- "admitted (well-formed ...)": the header gate of the UDP ingress (session 5; Ingress.v uses
   the srcgen translations of wire.ParseHeader, Header.QR / Opcode and server.acceptHeader) ---- *)
(* for EVERY datagram (any octets): it enters the middleware chain exactly when it is a well-formed
   query, spelt on the octets - at least a header, QR clear, opcode QUERY or NOTIFY, one question,
   at most one answer, one authority and two additional records announced *)
Theorem admitted_iff_well_formed_query : forall raw, octets raw ->
  (ingress_of raw true = GChain <-> well_formed_query raw = true).
Proof. exact admitted_iff_well_formed_lemma. Qed.
Print Assumptions admitted_iff_well_formed_query.

(* reflection policy at the gate: a response (QR set) or a fragment of a header is never answered,
   whatever else it says and whether or not its body decodes *)
Theorem responses_and_fragments_never_answered : forall raw dec, octets raw ->
  ((go_len raw < 12)%Z \/ (128 <= go_idx 0%N raw 2)%N) ->
  ingress_of raw dec = GDrop \/ ingress_of raw dec = GIgnore.
Proof. exact responses_never_answered_lemma. Qed.
Print Assumptions responses_and_fragments_never_answered.

(* whatever is rejected is rejected with ONE bare header: twelve octets (never longer than what was
   received), the request's ID, QR set, FORMERR or NOTIMP *)
Theorem rejection_is_one_bare_header : forall raw dec r, ingress_of raw dec = GReject r ->
  length r = 12%nat /\ (12 <= go_len raw)%Z /\
  nth 0 r 0%N = go_idx 0%N raw 0 /\ nth 1 r 0%N = go_idx 0%N raw 1 /\ N.testbit (nth 2 r 0%N) 7 = true /\
  (nth 3 r 0%N = reject_rcode_formerr \/ nth 3 r 0%N = reject_rcode_notimp).
Proof. exact rejection_is_a_bare_header_lemma. Qed.
Print Assumptions rejection_is_one_bare_header.

(* translator tie: Written() as the source has it is the model's written flag *)
Theorem written_is_model_written : forall gw,
  go_responseWriter_Written gw =
  w_written (mk_writer (T_responseWriter_size gw) (T_responseWriter_directPack gw) (T_responseWriter_internal gw)).
Proof. exact gen_written. Qed.
Print Assumptions written_is_model_written.

(* the model's own exchanges meet the specification oracle the exchange driver's observations are
   judged by, for every upstream script, deadline and cancellation instant *)
Theorem model_exchange_meets_the_spec : forall cancel x,
  Forall (fun a => (xs_start x <= fst a)%Z) (xs_arr x) ->
  xspec cancel x (xmodel_obs cancel x) = true.
Proof. exact model_exchange_meets_spec_lemma. Qed.
Print Assumptions model_exchange_meets_the_spec.

(* ---- the per-server circuit breaker of the resolver (session 5; Breaker.v = circuit_breaker.go) ---- *)
(* after ANY history of canQuery / recordFailure / recordSuccess / cleanup calls over any servers and
   any clock advances: a server is refused only while a full streak of failures (the source's trip
   count) is on its record AND the last of them is no older than the open interval - so whatever an
   upstream does, it is never shut out for longer than that after its last recorded failure *)
Theorem breaker_refuses_only_tripped_and_recent : forall ops t0 s,
  let '(m, now, _) := brun [] t0 ops in
  snd (bstep m now (BCan s)) = false ->
  exists r, bget m s = Some r /\ br_disabled r = true /\ (breaker_trip_count <= br_count r)%Z /\
            (now - br_last r * 1000 <= open_ms)%Z.
Proof. exact refused_only_tripped_and_recent_lemma. Qed.
Print Assumptions breaker_refuses_only_tripped_and_recent.

Theorem breaker_reopens : forall m now s,
  (forall r, bget m s = Some r -> (open_ms < now - br_last r * 1000)%Z) ->
  snd (bstep m now (BCan s)) = true.
Proof. exact breaker_reopens_lemma. Qed.
Print Assumptions breaker_reopens.

Theorem success_reopens_at_once : forall m now now' s,
  snd (bstep (fst (fst (bstep m now (BSucc s)))) now' (BCan s)) = true.
Proof. exact success_reopens_lemma. Qed.
Print Assumptions success_reopens_at_once.

Theorem other_servers_untouched : forall m now s s' o,
  s <> s' -> (o = BCan s \/ o = BFail s \/ o = BSucc s) ->
  bget (fst (fst (bstep m now o))) s' = bget m s'.
Proof. exact other_servers_untouched_lemma. Qed.
Print Assumptions other_servers_untouched.

(* translator tie (wave 9): the octets the edns layer appends below the cache - wireOPTLen as the
   source has it - are the model's [opt_reserve], the term of the cache's size gate ([fits]) that
   decides between "served on the reader" and "handed off" for an inline hit *)
Theorem opt_reserve_is_wireOPTLen : forall (q : iquery) (w : T_ResponseWriter),
  T_ResponseWriter_noedns w = negb (iq_edns q) ->
  T_OPT_Option (T_ResponseWriter_opt w) = [] ->
  (iq_edns q = true ->
     orb (negb (go_list_eqb N.eqb (T_ResponseWriter_cookie w) [])) (T_ResponseWriter_hasCookieRaw w) = iq_cookie q) ->
  andb (negb (T_ResponseWriter_hasCookieRaw w)) (negb (go_len (T_ResponseWriter_cookie w) =? 16)%Z) = false ->
  (61 + go_len (T_EDNS_cookiesecret (T_ResponseWriter_EDNS w)) <= 256)%Z ->
  andb (negb (go_list_eqb N.eqb (T_EDNS_nsidstr (T_ResponseWriter_EDNS w)) [])) (T_ResponseWriter_nsid w) = false ->
  T_ResponseWriter_keepalive w = false ->
  go_ResponseWriter_wireOPTLen w = (opt_reserve q, true).
Proof. exact gen_opt_reserve. Qed.
Print Assumptions opt_reserve_is_wireOPTLen.

(* non-vacuity: a UDP client with OPT and a 16-hex-digit cookie, a 32-octet secret: 11 + 4 + 40 *)
Example wireOPTLen_cookie_client :
  let w := mk_T_ResponseWriter (mk_T_EDNS (repeat 7%N 32) [] (mk_T_Policy false 0 0 0 0))
             (mk_T_OPT (mk_T_RR_Header [] 41 1232 0 0) []) 1232 false (repeat 48%N 16) false false false 0 [] false false false in
  go_ResponseWriter_wireOPTLen w = (55%Z, true) /\
  opt_reserve (mk_iq 0 0 0 true true 1232 true 100) = 55%Z.
Proof. vm_compute. split; reflexivity. Qed.
