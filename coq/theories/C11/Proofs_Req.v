(* C11 — proofs about the request automaton (Model part 3): for EVERY sequence of
   environment answers (wait-group results, wake-up causes, store probes, context states,
   downstream write attempts). *)
From Sdns Require Import Common.Base Gen.C11 C11.Model C11.Proofs_Writer.

(* the writer of a request and its emission log stay in step *)
Definition winv (s : rstate) : Prop :=
  (w_written (r_w s) = false /\ r_emits s = []) \/
  (w_written (r_w s) = true /\ exists r, r_emits s = [r]).

Lemma winv_init internal : winv (rinit internal).
Proof. left. split; [apply reset_unwritten|reflexivity]. Qed.

Lemma rwrite_pc s r : r_pc (rwrite s r) = r_pc s.
Proof. unfold rwrite. destruct (wstep (r_w s) (WWriteMsg true false 0)) as [[w' x] em]. destruct em; reflexivity. Qed.
Lemma rwrite_acts s r : r_acts (rwrite s r) = r_acts s.
Proof. unfold rwrite. destruct (wstep (r_w s) (WWriteMsg true false 0)) as [[w' x] em]. destruct em; reflexivity. Qed.

Lemma rwrite_inv s r : winv s -> winv (rwrite s r).
Proof.
  intros H. unfold rwrite.
  destruct (wstep (r_w s) (WWriteMsg true false 0)) as [[w' x] em] eqn:E.
  destruct H as [[Hw He]|[Hw [r0 He]]].
  - destruct em as [|e em'].
    + left. cbn. split; [|exact He].
      cbn in E. rewrite Hw in E.
      destruct (w_direct (r_w s) && negb (w_internal (r_w s)) && true); inversion E.
    + destruct (emission_marks (r_w s) (WWriteMsg true false 0) w' x (e :: em') eq_refl E ltac:(discriminate)) as (Hw' & _ & _).
      right. cbn. split; [exact Hw'|]. exists r. rewrite He. reflexivity.
  - rewrite (refused_when_written (r_w s) (WWriteMsg true false 0) Hw eq_refl) in E. inversion E; subst.
    right. cbn. split; [exact Hw|]. exists r0. exact He.
Qed.

(* what a write adds to the log: the reply, if nothing was written before; nothing otherwise *)
Lemma rwrite_emits s r : winv s ->
  r_emits (rwrite s r) = match r_emits s with [] => [r] | l => l end.
Proof.
  intros H. unfold rwrite.
  destruct (wstep (r_w s) (WWriteMsg true false 0)) as [[w' x] em] eqn:E.
  destruct H as [[Hw He]|[Hw [r0 He]]].
  - rewrite He. destruct em as [|e em']; [|reflexivity].
    cbn in E. rewrite Hw in E.
    destruct (w_direct (r_w s) && negb (w_internal (r_w s)) && true); inversion E.
  - rewrite (refused_when_written (r_w s) (WWriteMsg true false 0) Hw eq_refl) in E. inversion E; subst. cbn. rewrite He. reflexivity.
Qed.

Lemma set_pc_inv s p : winv s -> winv (set_pc s p).
Proof. auto. Qed.
Lemma add_act_inv s a : winv s -> winv (add_act s a).
Proof. auto. Qed.
Lemma finish_inv s : winv s -> winv (finish s).
Proof. auto. Qed.
Lemma leader_done_inv s l : winv s -> winv (leader_done s l).
Proof. destruct l as [[k g]|]; auto. Qed.
Lemma loop_head_inv s l : winv s -> winv (loop_head s l).
Proof.
  intros H. unfold loop_head.
  destruct (l_prev l); [destruct (l_probe l); [destruct (max_failure_probe_regroups <=? l_regroups l)%N|]|];
    auto using rwrite_inv.
  apply finish_inv, rwrite_inv, H.
Qed.
Lemma stop_cancelled_inv s c l : winv s -> winv (stop_cancelled s c l).
Proof.
  intros H. destruct c; cbn; apply leader_done_inv; auto.
  apply finish_inv, rwrite_inv, H.
Qed.
Lemma down_attempt_inv c s a : winv s -> winv (down_attempt c s a).
Proof.
  intros H. unfold down_attempt. apply rwrite_inv.
  destruct (d_code a =? 2)%N; [destruct (negb (d_local a) && cerr_eqb c CNone)|]; auto.
Qed.
Lemma fold_down_inv c atts : forall s, winv s -> winv (fold_left (down_attempt c) atts s).
Proof. induction atts; intros s H; cbn; auto. apply IHatts, down_attempt_inv, H. Qed.

Lemma rstep_inv s i : winv s -> winv (rstep s i).
Proof.
  intros H. unfold rstep.
  destruct (r_pc s) as [|l|l g|l g|lead|lead|o]; destruct i; auto.
  - destruct pr; try (apply finish_inv, rwrite_inv, H).
    destruct internal; auto. apply loop_head_inv, H.
  - destruct leader; auto.
  - destruct c; auto using stop_cancelled_inv. destruct gen_done; auto.
  - destruct pr; try (apply finish_inv, rwrite_inv, H).
    destruct (l_probe l && timed_out); [apply finish_inv, rwrite_inv, H|].
    destruct retry; auto. destruct timed_out; [apply finish_inv, rwrite_inv, H|apply loop_head_inv, H].
  - destruct c; auto using stop_cancelled_inv.
  - apply leader_done_inv, finish_inv, fold_down_inv, H.
Qed.

Lemma rrun_inv ins : forall s, winv s -> winv (rrun s ins).
Proof. induction ins; intros s H; cbn; auto. apply IHins, rstep_inv, H. Qed.

(* ---- the pc and the log ---- *)
(* before the end nothing has been written; at the end the outcome is what the log says *)
Definition pcinv (s : rstate) : Prop :=
  match r_pc s with
  | PEnd (OReplied r) => r_emits s = [r]
  | PEnd OCancelled => r_emits s = []
  | PEnd OSilent => r_emits s = []
  | _ => r_emits s = []
  end.

Lemma leader_done_pc s l : r_pc (leader_done s l) = r_pc s.
Proof. destruct l as [[k g]|]; reflexivity. Qed.
Lemma leader_done_emits s l : r_emits (leader_done s l) = r_emits s.
Proof. destruct l as [[k g]|]; reflexivity. Qed.

Lemma pcinv_leader_done s l : pcinv s -> pcinv (leader_done s l).
Proof. unfold pcinv. rewrite leader_done_pc, leader_done_emits. auto. Qed.

Lemma pcinv_finish s : winv s -> pcinv (finish s).
Proof.
  intros H. unfold pcinv, finish; cbn.
  destruct H as [[_ He]|[_ [r He]]]; rewrite He; reflexivity.
Qed.

Lemma pcinv_write_finish s r : winv s -> r_emits s = [] -> pcinv (finish (rwrite s r)) /\ r_emits (finish (rwrite s r)) = [r].
Proof.
  intros H He. split; [apply pcinv_finish, rwrite_inv, H|].
  cbn. rewrite rwrite_emits by exact H. rewrite He. reflexivity.
Qed.

Lemma pcinv_loop_head s l : winv s -> r_emits s = [] -> pcinv (loop_head s l).
Proof.
  intros H He. unfold loop_head.
  destruct (l_prev l); [destruct (l_probe l); [destruct (max_failure_probe_regroups <=? l_regroups l)%N|]|];
    try exact He.
  apply pcinv_finish, rwrite_inv, H.
Qed.

Lemma pcinv_stop s c l : winv s -> r_emits s = [] -> pcinv (stop_cancelled s c l).
Proof.
  intros H He. destruct c; cbn; apply pcinv_leader_done; try exact He.
  apply pcinv_finish, rwrite_inv, H.
Qed.

Lemma nonend_emits s : pcinv s -> is_end s = false -> r_emits s = [].
Proof. unfold pcinv, is_end. destruct (r_pc s); auto; discriminate. Qed.

Lemma rstep_pcinv s i : winv s -> pcinv s -> pcinv (rstep s i).
Proof.
  intros H P. unfold rstep.
  destruct (r_pc s) as [|l|l g|l g|lead|lead|o] eqn:Epc; destruct i; auto;
    assert (He : r_emits s = []) by (apply nonend_emits; [exact P|unfold is_end; rewrite Epc; reflexivity]).
  - destruct pr; try (apply pcinv_finish, rwrite_inv, H).
    destruct internal; [exact He|]. apply pcinv_loop_head; auto.
  - destruct leader; exact He.
  - destruct c; try (apply pcinv_stop; auto). destruct gen_done; [exact He|exact P].
  - destruct pr; try (apply pcinv_finish, rwrite_inv, H).
    destruct (l_probe l && timed_out); [apply pcinv_finish, rwrite_inv, H|].
    destruct retry; [|exact He]. destruct timed_out; [apply pcinv_finish, rwrite_inv, H|apply pcinv_loop_head; auto].
  - destruct c; try (apply pcinv_stop; auto). exact He.
  - apply pcinv_leader_done, pcinv_finish, fold_down_inv, H.
Qed.

Lemma rrun_pcinv ins : forall s, winv s -> pcinv s -> pcinv (rrun s ins).
Proof.
  induction ins; intros s H P; cbn; auto.
  apply IHins; [apply rstep_inv, H|apply rstep_pcinv; auto].
Qed.

Lemma end_absorbing s i : is_end s = true -> rstep s i = s.
Proof. unfold is_end, rstep. destruct (r_pc s); try discriminate. destruct i; reflexivity. Qed.

(* TERMINAL OUTCOME: whatever the environment answers, a request has written at most one
   reply, nothing before it ends, and when it ends the outcome is exactly what was written *)
Lemma terminal_outcome_lemma internal ins :
  let s := rrun (rinit internal) ins in
  (length (r_emits s) <= 1)%nat /\
  match r_pc s with
  | PEnd (OReplied r) => r_emits s = [r]
  | PEnd OCancelled => r_emits s = []
  | PEnd OSilent => r_emits s = []
  | _ => r_emits s = []
  end.
Proof.
  intros s. split.
  - pose proof (rrun_inv ins (rinit internal) (winv_init internal)) as [[_ He]|[_ [r He]]];
      fold s in He; rewrite He; cbn; lia.
  - apply (rrun_pcinv ins (rinit internal) (winv_init internal)). reflexivity.
Qed.

(* ---- causes ---- *)
Definition input_cerr (i : rinput) : cerr :=
  match i with IWake _ c | ICtx c => c | _ => CNone end.
Definition input_atts_nonempty (i : rinput) : bool :=
  match i with IDown _ [] => false | _ => true end.

Definition causes (ins : list rinput) (s : rstate) : Prop :=
  match r_pc s with
  | PEnd OCancelled => exists i, In i ins /\ input_cerr i = CCanceled
  | PEnd OSilent => exists i, In i ins /\ input_atts_nonempty i = false
  | PEnd (OReplied RpTimeout) => (exists i, In i ins /\ input_cerr i = CDeadline) /\ forallb (fun a => negb (is_store a)) (r_acts s) = true
  | PEnd _ => True
  | _ => forallb (fun a => negb (is_store a)) (r_acts s) = true
  end.

Lemma nostore_app l a : forallb (fun a => negb (is_store a)) l = true -> is_store a = false ->
  forallb (fun a => negb (is_store a)) (l ++ [a]) = true.
Proof. intros H Ha. rewrite forallb_app, H. cbn. now rewrite Ha. Qed.

Lemma fold_down_emits_first c atts : forall s, winv s ->
  r_emits (fold_left (down_attempt c) atts s) =
  match r_emits s with
  | [] => match atts with a :: _ => [RpDown (d_code a)] | [] => [] end
  | l => l
  end.
Proof.
  induction atts as [|a atts IH]; intros s H; cbn.
  - destruct (r_emits s); reflexivity.
  - rewrite IH by (apply down_attempt_inv, H).
    unfold down_attempt. rewrite rwrite_emits.
    + destruct (d_code a =? 2)%N; [destruct (negb (d_local a) && cerr_eqb c CNone)|]; cbn;
        destruct (r_emits s); reflexivity.
    + destruct (d_code a =? 2)%N; [destruct (negb (d_local a) && cerr_eqb c CNone)|]; auto.
Qed.

(* a strengthened, step-indexed statement: [pre] are the inputs consumed so far *)
Lemma rstep_causes pre s i :
  winv s -> pcinv s -> causes pre s -> causes (pre ++ [i]) (rstep s i).
Proof.
  intros W P C.
  assert (Mono : forall (Q : rinput -> Prop), (exists x, In x pre /\ Q x) -> exists x, In x (pre ++ [i]) /\ Q x).
  { intros Q (x & Hx & HQ). exists x. split; [apply in_or_app; auto|exact HQ]. }
  assert (Here : forall (Q : rinput -> Prop), Q i -> exists x, In x (pre ++ [i]) /\ Q x).
  { intros Q HQ. exists i. split; [apply in_or_app; right; left; reflexivity|exact HQ]. }
  destruct (is_end s) eqn:Eend.
  { rewrite (end_absorbing s i Eend). unfold causes in *. unfold is_end in Eend.
    destruct (r_pc s) as [| | | | | |o]; try discriminate.
    destruct o as [r| |]; auto. destruct r; auto. destruct C as [C1 C2]. split; auto. }
  assert (He : r_emits s = []) by (apply nonend_emits; auto).
  assert (NS : forallb (fun a => negb (is_store a)) (r_acts s) = true).
  { unfold causes in C. unfold is_end in Eend. destruct (r_pc s); auto; discriminate. }
  (* helpers for the terminal shapes *)
  assert (FinW : forall r, r <> RpTimeout -> (forall c0, r <> RpDown c0 -> True) ->
                 causes (pre ++ [i]) (finish (rwrite s r))).
  { intros r Hr _. unfold causes. cbn.
    rewrite rwrite_emits by exact W. rewrite He.
    destruct r; try exact I. contradiction. }
  assert (Stop : forall c l, input_cerr i = c -> c <> CNone -> causes (pre ++ [i]) (stop_cancelled s c l)).
  { intros c l Hc Hne. unfold causes. destruct c; [contradiction| |].
    - cbn. rewrite leader_done_pc. cbn. rewrite rwrite_emits by exact W. rewrite He.
      split; [apply Here; exact Hc|].
      destruct l as [[k g]|]; cbn; rewrite rwrite_acts; [apply nostore_app; auto|exact NS].
    - cbn. rewrite leader_done_pc. cbn. apply Here; exact Hc. }
  assert (LH : forall l, causes (pre ++ [i]) (loop_head s l)).
  { intros l. unfold loop_head.
    destruct (l_prev l); [destruct (l_probe l); [destruct (max_failure_probe_regroups <=? l_regroups l)%N|]|];
      try (unfold causes; cbn; apply nostore_app; auto; fail).
    apply FinW; [discriminate|auto]. }
  unfold rstep.
  destruct (r_pc s) as [|l|l g|l g|lead|lead|o] eqn:Epc; destruct i;
    try (unfold causes; rewrite Epc; exact NS);
    try (exfalso; unfold is_end in Eend; rewrite Epc in Eend; discriminate).
  - destruct pr; try (apply FinW; [discriminate|auto]).
    destruct internal; [unfold causes; cbn; exact NS|apply LH].
  - destruct leader; unfold causes; cbn; exact NS.
  - destruct c.
    + destruct gen_done; [unfold causes; cbn; exact NS|unfold causes; rewrite Epc; exact NS].
    + apply Stop; [reflexivity|discriminate].
    + apply Stop; [reflexivity|discriminate].
  - destruct pr; try (apply FinW; [discriminate|auto]).
    destruct (l_probe l && timed_out); [apply FinW; [discriminate|auto]|].
    destruct retry; [|unfold causes; cbn; exact NS].
    destruct timed_out; [apply FinW; [discriminate|auto]|apply LH].
  - destruct c.
    + unfold causes; cbn; exact NS.
    + apply Stop; [reflexivity|discriminate].
    + apply Stop; [reflexivity|discriminate].
  - unfold causes. rewrite leader_done_pc. cbn.
    rewrite fold_down_emits_first by exact W. rewrite He.
    destruct atts as [|a atts]; [apply Here; reflexivity|exact I].
Qed.

Lemma rrun_causes ins : forall pre s,
  winv s -> pcinv s -> causes pre s -> causes (pre ++ ins) (rrun s ins).
Proof.
  induction ins as [|i ins IH]; intros pre s W P C; cbn.
  - rewrite app_nil_r. exact C.
  - replace (pre ++ i :: ins) with ((pre ++ [i]) ++ ins) by (rewrite <- app_assoc; reflexivity).
    apply IH; [apply rstep_inv, W|apply rstep_pcinv; auto|apply rstep_causes; auto].
Qed.

Lemma outcome_causes_lemma internal ins :
  let s := rrun (rinit internal) ins in
  match r_pc s with
  | PEnd OCancelled => exists i, In i ins /\ input_cerr i = CCanceled
  | PEnd OSilent => exists i, In i ins /\ input_atts_nonempty i = false
  | PEnd (OReplied RpTimeout) =>
      (exists i, In i ins /\ input_cerr i = CDeadline) /\
      forallb (fun a => negb (is_store a)) (r_acts s) = true
  | _ => True
  end.
Proof.
  intros s.
  pose proof (rrun_causes ins [] (rinit internal) (winv_init internal) eq_refl eq_refl) as C.
  cbn [app] in C. fold s in C. unfold causes in C.
  destruct (r_pc s) as [| | | | | |o]; auto; try (destruct o as [r| |]; auto; try (destruct r; auto)).
Qed.

(* ---- every admitted path ends: a measure that every accepted input decreases ---- *)
Definition regroup_cap : nat := N.to_nat max_failure_probe_regroups.
Definition loop_rem (l : loopst) : nat :=
  match l_prev l with
  | None => S regroup_cap
  | Some _ => (regroup_cap - N.to_nat (l_regroups l))%nat
  end.
Definition rmeasure (s : rstate) : nat :=
  match r_pc s with
  | PStart => (3 * S regroup_cap + 6)%nat
  | PJoining l => (3 * loop_rem l + 5)%nat
  | PWaiting l _ => (3 * loop_rem l + 4)%nat
  | PRecheck l _ => (3 * loop_rem l + 3)%nat
  | PPostLoop _ => 2%nat
  | PDown _ => 1%nat
  | PEnd _ => 0%nat
  end.

Lemma measure_finish s : rmeasure (finish s) = 0%nat.
Proof. reflexivity. Qed.
Lemma measure_leader_done s l : rmeasure (leader_done s l) = rmeasure s.
Proof. unfold rmeasure. rewrite leader_done_pc. reflexivity. Qed.
Lemma measure_stop s c l : c <> CNone -> rmeasure (stop_cancelled s c l) = 0%nat.
Proof. intros H. destruct c; [contradiction| |]; cbn; rewrite measure_leader_done; reflexivity. Qed.

Lemma measure_loop_head_first s l :
  l_prev l = None -> (rmeasure (loop_head s l) <= 3 * S regroup_cap + 5)%nat.
Proof.
  intros Ep. unfold loop_head. rewrite Ep. unfold rmeasure, add_act, set_pc. cbn [r_pc]. unfold loop_rem. rewrite Ep. lia.
Qed.

Lemma accepted_step_decreases s i :
  accepts s i = true -> (rmeasure (rstep s i) < rmeasure s)%nat.
Proof.
  unfold accepts, rstep. intros A.
  destruct (r_pc s) as [|l|l g|l g|lead|lead|o] eqn:Epc; destruct i; try discriminate;
    unfold rmeasure at 2; rewrite Epc.
  - destruct pr; try (rewrite measure_finish; lia).
    destruct internal; [unfold rmeasure; cbn; lia|].
    pose proof (measure_loop_head_first s) as K.
    destruct retry; (eapply Nat.le_lt_trans; [apply K; reflexivity|lia]).
  - destruct leader; unfold rmeasure; cbn; lia.
  - destruct c.
    + cbn in A. rewrite orb_false_r in A. subst gen_done. unfold rmeasure; cbn. lia.
    + rewrite measure_stop by discriminate. lia.
    + rewrite measure_stop by discriminate. lia.
  - destruct pr; try (rewrite measure_finish; lia).
    destruct (l_probe l && timed_out); [rewrite measure_finish; lia|].
    destruct retry; [|unfold rmeasure; cbn; lia].
    destruct timed_out; [rewrite measure_finish; lia|].
    unfold loop_head. cbn [l_prev l_probe l_regroups l_key].
    destruct (N.leb_spec max_failure_probe_regroups (l_regroups l)); [rewrite measure_finish; lia|].
    unfold rmeasure, add_act, set_pc; cbn [r_pc]. unfold loop_rem; cbn [l_prev l_regroups].
    unfold regroup_cap in *. destruct (l_prev l); lia.
  - destruct c; [unfold rmeasure; cbn; lia| |]; rewrite measure_stop by discriminate; lia.
  - rewrite measure_leader_done, measure_finish. lia.
Qed.
