(* C11 — proofs about listener shutdown (Shutdown.v). *)
From Sdns Require Import Common.Base Gen.C11 C11.Model C11.Proofs_World C11.Shutdown.

Definition dgood (d : dworld) : Prop := sgood (d_s d).

Lemma d_advance_good d t : dgood d -> dgood (d_advance d t).
Proof.
  intros H. unfold d_advance, dgood in *. destruct (d_stop d) as [st|]; cbn [with_s d_s].
  - destruct (negb (d_closed d) && (st + d_drain d <=? t)%N); cbn [d_s with_s]; repeat apply s_advance_good; exact H.
  - apply s_advance_good, H.
Qed.

Lemma dstep_good d e : dgood d -> dgood (dstep d e).
Proof.
  intros H. destruct e; cbn [dstep].
  - destruct (d_stop d); [destruct (path_of (d_s d) i =? 0)%N|]; try exact H; unfold dgood; cbn [with_s d_s]; apply sevent_step_good, H.
  - unfold dgood; cbn [with_s d_s]. apply sevent_step_good, H.
  - unfold dgood; cbn [with_s d_s]. apply sevent_step_good, H.
  - apply d_advance_good, H.
  - destruct (d_stop d); exact H.
Qed.

Lemma drun_good evs : forall d, dgood d -> dgood (drun d evs).
Proof. induction evs as [|e evs IH]; intros d H; cbn; [exact H|]. apply IH, dstep_good, H. Qed.

(* under shutdown too: whatever the history and the moment of the shutdown, every request has
   written at most one reply and its outcome agrees with what was written *)
Lemma shutdown_one_reply rs paths workers qcap cap evs :
  Forall fresh rs ->
  Forall (fun q => one_reply_and_agreeing_outcome (q_st q))
         (reqs (s_w (d_s (drun (dworld0 (sworld0 rs paths workers qcap cap)) evs)))).
Proof.
  intros H.
  pose proof (drun_good evs (dworld0 (sworld0 rs paths workers qcap cap)) (fresh_allgood rs H)) as G.
  unfold dgood, sgood, allgood in G. rewrite Forall_forall in *. intros q Hq. apply reach_one_reply, G, Hq.
Qed.

(* admission stops: after the shutdown a datagram is never read *)
Lemma admission_stopped d i st :
  d_stop d = Some st -> (path_of (d_s d) i =? 0)%N = false -> dstep d (DArrive i) = d.
Proof. intros Hs Hp. cbn [dstep]. rewrite Hs, Hp. reflexivity. Qed.

(* the drain is bounded: once the clock has reached stop + drain the sockets are closed *)
Lemma closed_by_deadline d st t :
  d_stop d = Some st -> (st + d_drain d <= t)%N -> d_closed (dstep d (DAdvance t)) = true.
Proof.
  intros Hs Ht. cbn [dstep]. unfold d_advance. rewrite Hs.
  destruct (d_closed d) eqn:Ec; cbn [negb andb]; [cbn; exact Ec|].
  apply N.leb_le in Ht. rewrite Ht. reflexivity.
Qed.

(* a reply is lost only through the one recorded cause: the drain ran into its deadline *)
Definition loss_recorded (d : dworld) : Prop :=
  (d_err d = true <-> d_lost d <> []) /\ (d_closed d = false -> d_lost d = []) /\ (d_stop d = None -> d_closed d = false).

Lemma lr_with_s d s : loss_recorded d -> loss_recorded (with_s d s).
Proof. intros H. exact H. Qed.

Lemma loss_recorded_step d e : loss_recorded d -> loss_recorded (dstep d e).
Proof.
  intros H. destruct e; cbn [dstep].
  - destruct (d_stop d); [destruct (path_of (d_s d) i =? 0)%N|]; try exact H; apply lr_with_s, H.
  - apply lr_with_s, H.
  - apply lr_with_s, H.
  - unfold d_advance. destruct (d_stop d) as [st|] eqn:Es; [|apply lr_with_s, H].
    destruct (negb (d_closed d) && (st + d_drain d <=? t)%N); [|apply lr_with_s, H].
    unfold loss_recorded. cbn [d_err d_lost d_closed d_stop].
    destruct (ring_left (s_advance 64 (d_s d) (st + d_drain d))) as [|x l].
    + split; [split; [discriminate|intros K; contradiction]|]. split; [discriminate|]. discriminate.
    + split; [split; [discriminate|reflexivity]|]. split; [discriminate|]. discriminate.
  - destruct (d_stop d) eqn:Es; [exact H|].
    unfold loss_recorded. cbn [d_err d_lost d_closed d_stop].
    split; [split; [discriminate|intros K; contradiction]|]. split; [reflexivity|discriminate].
Qed.

Lemma loss_recorded_run evs : forall d, loss_recorded d -> loss_recorded (drun d evs).
Proof. induction evs as [|e evs IH]; intros d H; cbn; [exact H|]. apply IH, loss_recorded_step, H. Qed.

Lemma loss_only_by_recorded_timeout s evs i :
  let d := drun (dworld0 s) evs in
  In i (d_lost d) -> d_err d = true /\ d_closed d = true /\ d_stop d <> None.
Proof.
  cbv zeta. intros Hi.
  assert (L : loss_recorded (drun (dworld0 s) evs)).
  { apply loss_recorded_run. unfold loss_recorded, dworld0. cbn [d_err d_lost d_closed d_stop].
    split; [split; [discriminate|intros K; contradiction]|]. split; reflexivity. }
  destruct L as (L1 & L2 & L3).
  assert (Hn : d_lost (drun (dworld0 s) evs) <> []) by (intros E; rewrite E in Hi; contradiction).
  split; [apply L1, Hn|]. split.
  - destruct (d_closed (drun (dworld0 s) evs)) eqn:E; [reflexivity|]. exfalso. apply Hn, L2. reflexivity.
  - intros K. specialize (L3 K). destruct (d_closed (drun (dworld0 s) evs)) eqn:E; [discriminate|]. apply Hn, L2. reflexivity.
Qed.

(* the model on a concrete history: a leader that only returns at its deadline (2170), a
   follower, two quick hits; shutdown at 411 with a 631 ms drain: the drain times out, the two
   unfinished requests lose their replies, the finished ones were answered, every slab returns *)
Example shutdown_drain_timeout :
  let rs := [new_preq 0 false 2170 HUntilCtx [mk_att 2 true]; new_preq 7 false 2000 HNone [mk_att 0 false];
             new_preq 0 false 2201 HNone [mk_att 2 true]; new_preq 7 false 2000 HNone [mk_att 0 false]] in
  let evs := [DAdvance 52; DArrive 3; DAdvance 68; DArrive 1; DAdvance 170; DArrive 0; DAdvance 201; DArrive 2;
              DAdvance 411; DShutdown 631; DAdvance 1042; DAdvance 2170; DAdvance 2201; DAdvance 102201]%N in
  let d := drun (dworld0 (sworld0 rs [1; 2; 2; 2]%N 8 8 32)) evs in
  (d_err d, d_lost d, e_leased (s_e (d_s d)), map (fun q => is_end (q_st q)) (reqs (s_w (d_s d)))) =
  (true, [0; 2]%nat, 0%nat, [true; true; true; true]).
Proof. vm_compute. reflexivity. Qed.
