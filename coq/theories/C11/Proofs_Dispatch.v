(* C11 — UDP dispatch in the server-level world (Model part 6): after every settle the world is
   quiescent and no pool worker is idle while a job waits in the ready queue. *)
From Sdns Require Import Common.Base Gen.C11 C11.Model C11.Proofs_World C11.Proofs_Live C11.Proofs_Quiesce C11.Shutdown.

Lemma reap_queue idx : forall s, e_queue (s_e (reap idx s)) = e_queue (s_e s).
Proof.
  induction idx as [|i idx IH]; intros s; cbn; auto.
  rewrite IH. destruct (req_ended (s_w s) i); auto. destruct (place_of (s_e s) i); reflexivity.
Qed.

Lemma start_serving_queue s i p : e_queue (s_e (start_serving s i p)) = e_queue (s_e s).
Proof. unfold start_serving. destruct (req_deadline (s_w s) i <=? now (s_w s))%N; reflexivity. Qed.

Lemma take_queued_shrinks s s' :
  take_queued s = Some s' -> S (length (e_queue (s_e s'))) = length (e_queue (s_e s)).
Proof.
  unfold take_queued. destruct (e_free (s_e s)); [discriminate|].
  destruct (e_queue (s_e s)) as [|j rest] eqn:E; [discriminate|]. intros H. injection H as <-.
  rewrite start_serving_queue. reflexivity.
Qed.

(* work conservation: a settled server has no idle pool worker next to a queued job, and
   nobody in its world can move *)
Definition settled (s : sworld) : Prop := take_queued s = None /\ quiescent (s_w s).

Lemma s_settle_settles fuel : forall s,
  (length (e_queue (s_e s)) < fuel)%nat -> settled (s_settle fuel s).
Proof.
  induction fuel as [|f IH]; intros s H; [lia|]. cbn [s_settle]. cbv zeta.
  set (w1 := quiesce (qfuel (s_w s)) (s_w s)).
  set (s1 := reap (seq 0 (length (reqs w1))) (mk_sworld w1 (s_e s) (s_path s))).
  assert (Q1 : e_queue (s_e s1) = e_queue (s_e s)) by (unfold s1; rewrite reap_queue; reflexivity).
  destruct (take_queued s1) as [s2|] eqn:E.
  - apply IH. pose proof (take_queued_shrinks s1 s2 E). rewrite Q1 in *. lia.
  - split; [exact E|]. unfold s1. rewrite reap_w. cbn [s_w]. apply quiesce_reaches_quiescence_lemma.
Qed.

(* the ready queue never holds more than its capacity *)
Definition qbound (s : sworld) : Prop := (length (e_queue (s_e s)) <= e_qcap (s_e s))%nat.

(* ---- the number of requests never changes ---- *)
Lemma req_step_len w i w' : req_step w i = Some w' -> length (reqs w') = length (reqs w).
Proof.
  intros E. unfold req_step in E.
  destruct (nth_error (reqs w) i) as [q|]; [|discriminate].
  destruct (negb (q_arrived q)); [discriminate|].
  destruct (r_pc (q_st q)).
  - injection E as <-. rewrite after_step_reqs. apply Proofs_WG.upd_length.
  - destruct (world_wg w (join_op l)) as [w1 r] eqn:Ew. destruct r; try discriminate. injection E as <-.
    rewrite after_step_reqs, Proofs_WG.upd_length. pose proof (world_wg_reqs w (join_op l)) as R. rewrite Ew in R. cbn in R. rewrite R. reflexivity.
  - destruct (negb (gstatus_eqb (gstat (wwg w) g) GLive) || negb (cerr_eqb (q_ctx q) CNone)); [|discriminate].
    injection E as <-. rewrite after_step_reqs. apply Proofs_WG.upd_length.
  - injection E as <-. rewrite after_step_reqs. apply Proofs_WG.upd_length.
  - injection E as <-. rewrite after_step_reqs. apply Proofs_WG.upd_length.
  - destruct (negb (q_called q)).
    + injection E as <-. cbn. apply Proofs_WG.upd_length.
    + destruct (match q_hold q with HNone => true | HUntilRelease => q_released q
                | HUntilCtx => negb (cerr_eqb (q_ctx q) CNone) end); [|discriminate].
      injection E as <-. rewrite after_step_reqs, Proofs_WG.upd_length. rewrite fold_store_reqs. reflexivity.
  - discriminate.
Qed.

Lemma first_runnable_len w : forall n i w', first_runnable w i n = Some w' -> length (reqs w') = length (reqs w).
Proof.
  induction n as [|n IH]; intros i w' H; cbn in H; [discriminate|].
  destruct (req_step w i) as [w1|] eqn:E; [injection H as <-; eapply req_step_len; exact E|eapply IH; exact H].
Qed.
Lemma quiesce_len fuel : forall w, length (reqs (quiesce fuel w)) = length (reqs w).
Proof.
  induction fuel as [|f IH]; intros w; [reflexivity|]. cbn [quiesce].
  destruct (first_runnable w 0 (length (reqs w))) as [w'|] eqn:E; [|reflexivity].
  rewrite IH. eapply first_runnable_len; exact E.
Qed.

Definition nreq (s : sworld) : nat := length (reqs (s_w s)).
Definition qcap_of (s : sworld) : nat := e_qcap (s_e s).

Lemma start_serving_facts s i p :
  nreq (start_serving s i p) = nreq s /\ qcap_of (start_serving s i p) = qcap_of s.
Proof.
  unfold start_serving, nreq, qcap_of. destruct (req_deadline (s_w s) i <=? now (s_w s))%N; cbn; [split; reflexivity|].
  split; [apply Proofs_WG.upd_length|reflexivity].
Qed.

Lemma dispatch_facts s i :
  qbound s -> nreq (dispatch s i) = nreq s /\ qcap_of (dispatch s i) = qcap_of s /\ qbound (dispatch s i).
Proof.
  intros Q. unfold dispatch. destruct (e_free (s_e s)) as [|f].
  - destruct (length (e_queue (s_e s)) <? e_qcap (s_e s))%nat eqn:E.
    + apply Nat.ltb_lt in E. unfold nreq, qcap_of, qbound. cbn. rewrite app_length. cbn. repeat split; lia.
    + destruct (start_serving_facts s i PlOverflow) as [A B]. split; [exact A|]. split; [exact B|].
      unfold qbound in *. rewrite start_serving_queue. fold (qcap_of (start_serving s i PlOverflow)). rewrite B. exact Q.
  - match goal with |- context [start_serving ?x i PlWorker] => set (s0 := x) end.
    destruct (start_serving_facts s0 i PlWorker) as [A B]. split; [exact A|]. split; [exact B|].
    unfold qbound in *. rewrite start_serving_queue. fold (qcap_of (start_serving s0 i PlWorker)). rewrite B. exact Q.
Qed.

Lemma s_arrive_facts s i :
  qbound s -> nreq (s_arrive s i) = nreq s /\ qcap_of (s_arrive s i) = qcap_of s /\ qbound (s_arrive s i).
Proof.
  intros Q. unfold s_arrive. destruct (path_of s i =? 0)%N.
  - destruct (start_serving_facts s i PlOwn) as [A B]. split; [exact A|]. split; [exact B|].
    unfold qbound in *. rewrite start_serving_queue. fold (qcap_of (start_serving s i PlOwn)). rewrite B. exact Q.
  - destruct (e_cap (s_e s) <=? e_leased (s_e s))%nat; [repeat split; exact Q|].
    destruct ((path_of s i =? 2)%N && (req_deadline (s_w s) i <=? now (s_w s))%N); [repeat split; exact Q|].
    match goal with |- context [dispatch ?x i] => destruct (dispatch_facts x i Q) as (A & B & Q1) end.
    split; [exact A|]. split; [exact B|exact Q1].
Qed.

Lemma reap_facts idx : forall s, nreq (reap idx s) = nreq s /\ qcap_of (reap idx s) = qcap_of s.
Proof.
  induction idx as [|i idx IH]; intros s; cbn; [split; reflexivity|].
  destruct (IH (if req_ended (s_w s) i then
                  match place_of (s_e s) i with
                  | PlWorker => mk_sworld (s_w s) (set_place (mk_engine (S (e_free (s_e s))) (e_queue (s_e s)) (e_qcap (s_e s)) (pred (e_leased (s_e s))) (e_cap (s_e s)) (e_place (s_e s))) i PlGone) (s_path s)
                  | PlOverflow => mk_sworld (s_w s) (set_place (mk_engine (e_free (s_e s)) (e_queue (s_e s)) (e_qcap (s_e s)) (pred (e_leased (s_e s))) (e_cap (s_e s)) (e_place (s_e s))) i PlGone) (s_path s)
                  | PlOwn => mk_sworld (s_w s) (set_place (s_e s) i PlGone) (s_path s)
                  | _ => s
                  end else s)) as [A B].
  rewrite A, B. destruct (req_ended (s_w s) i); [|split; reflexivity]. destruct (place_of (s_e s) i); split; reflexivity.
Qed.

Lemma take_queued_facts s s' : take_queued s = Some s' -> nreq s' = nreq s /\ qcap_of s' = qcap_of s.
Proof.
  unfold take_queued. destruct (e_free (s_e s)); [discriminate|]. destruct (e_queue (s_e s)); [discriminate|].
  intros H. injection H as <-. match goal with |- context [start_serving ?x n0 PlWorker] => destruct (start_serving_facts x n0 PlWorker) as [A B] end.
  split; [exact A|exact B].
Qed.

Lemma s_settle_facts fuel : forall s,
  qbound s -> nreq (s_settle fuel s) = nreq s /\ qcap_of (s_settle fuel s) = qcap_of s /\ qbound (s_settle fuel s).
Proof.
  induction fuel as [|f IH]; intros s Q; [repeat split; exact Q|]. cbn [s_settle]. cbv zeta.
  set (w1 := quiesce (qfuel (s_w s)) (s_w s)).
  set (s1 := reap (seq 0 (length (reqs w1))) (mk_sworld w1 (s_e s) (s_path s))).
  assert (F1 : nreq s1 = nreq s /\ qcap_of s1 = qcap_of s /\ qbound s1).
  { destruct (reap_facts (seq 0 (length (reqs w1))) (mk_sworld w1 (s_e s) (s_path s))) as [A B]. fold s1 in A, B.
    split; [rewrite A; unfold nreq; cbn [s_w]; unfold w1; apply quiesce_len|]. split; [exact B|].
    unfold qbound. fold (qcap_of s1). rewrite B. unfold s1. rewrite reap_queue. exact Q. }
  destruct F1 as (A1 & B1 & Q1).
  destruct (take_queued s1) as [s2|] eqn:E; [|repeat split; assumption].
  destruct (take_queued_facts s1 s2 E) as [A2 B2].
  assert (Q2 : qbound s2).
  { unfold qbound in *. fold (qcap_of s2). rewrite B2. pose proof (take_queued_shrinks s1 s2 E). fold (qcap_of s1) in Q1. lia. }
  destruct (IH s2 Q2) as (A3 & B3 & Q3). repeat split; try assumption; congruence.
Qed.

(* every event that settles leaves a settled server, provided the ready queue's capacity is
   below the settle fuel 2 * (requests + 1) *)
Definition small_queue (s : sworld) : Prop := (qcap_of s <= 2 * nreq s + 1)%nat.

Lemma settle_after s1 : qbound s1 -> small_queue s1 -> settled (s_settle (sfuel s1) s1).
Proof.
  intros Q S. apply s_settle_settles. unfold qbound, small_queue, sfuel, nreq, qcap_of in *. lia.
Qed.

Lemma settled_now s t :
  settled s ->
  settled (mk_sworld (mk_world t (wwg (s_w s)) (born (s_w s)) (st_pos (s_w s)) (st_fq (s_w s)) (st_fz (s_w s)) (reqs (s_w s)) (calls (s_w s))) (s_e s) (s_path s)).
Proof.
  intros [T Q]. split.
  - unfold take_queued in *. cbn [s_e]. destruct (e_free (s_e s)); [reflexivity|]. destruct (e_queue (s_e s)); [reflexivity|discriminate].
  - cbn [s_w]. eapply quiescent_ext; [| |exact Q]; reflexivity.
Qed.

Definition sinv (s : sworld) : Prop := qbound s /\ small_queue s.

Lemma fire_only_len w t : length (reqs (fire_only w t)) = length (reqs w).
Proof. unfold fire_only. cbn. apply map_length. Qed.

Lemma s_advance_settled fuel : forall s t, sinv s -> settled s -> sinv (s_advance fuel s t) /\ settled (s_advance fuel s t).
Proof.
  induction fuel as [|f IH]; intros s t I S; [split; assumption|]. cbn [s_advance]. cbv zeta.
  destruct (next_timer (s_w s) t) as [t1|].
  - set (s1 := mk_sworld (fire_only (s_w s) t1) (s_e s) (s_path s)).
    assert (I1 : sinv s1).
    { destruct I as [Q Sm]. split; [exact Q|]. unfold small_queue, nreq, qcap_of, s1 in *. cbn [s_w s_e]. rewrite fire_only_len. exact Sm. }
    destruct I1 as [Q1 S1]. destruct (s_settle_facts (sfuel s1) s1 Q1) as (A & B & Q2).
    apply IH; [split; [exact Q2|unfold small_queue in *; rewrite A, B; exact S1]|apply settle_after; assumption].
  - split; [exact I|apply settled_now, S].
Qed.

Lemma sevent_step_settled s e : sinv s -> settled s -> sinv (sevent_step s e) /\ settled (sevent_step s e).
Proof.
  intros [Q Sm] S. destruct e; unfold sevent_step; cbv zeta.
  - destruct (s_arrive_facts s i Q) as (A & B & Q1).
    assert (S1 : small_queue (s_arrive s i)) by (unfold small_queue in *; rewrite A, B; exact Sm).
    destruct (s_settle_facts (sfuel (s_arrive s i)) (s_arrive s i) Q1) as (A2 & B2 & Q2).
    split; [split; [exact Q2|unfold small_queue in *; rewrite A2, B2; exact S1]|apply settle_after; assumption].
  - set (s1 := mk_sworld (set_req (s_w s) i (set_ctx CCanceled)) (s_e s) (s_path s)).
    assert (Q1 : qbound s1) by exact Q.
    assert (S1 : small_queue s1) by (unfold small_queue, nreq, qcap_of, s1 in *; cbn; rewrite Proofs_WG.upd_length; exact Sm).
    destruct (s_settle_facts (sfuel s1) s1 Q1) as (A2 & B2 & Q2).
    split; [split; [exact Q2|unfold small_queue in *; rewrite A2, B2; exact S1]|apply settle_after; assumption].
  - set (s1 := mk_sworld (set_req (s_w s) i set_released) (s_e s) (s_path s)).
    assert (Q1 : qbound s1) by exact Q.
    assert (S1 : small_queue s1) by (unfold small_queue, nreq, qcap_of, s1 in *; cbn; rewrite Proofs_WG.upd_length; exact Sm).
    destruct (s_settle_facts (sfuel s1) s1 Q1) as (A2 & B2 & Q2).
    split; [split; [exact Q2|unfold small_queue in *; rewrite A2, B2; exact S1]|apply settle_after; assumption].
  - apply s_advance_settled; [split; assumption|exact S].
  - split; [split; assumption|exact S].
Qed.

Lemma sworld0_settled rs paths workers qcap cap :
  Forall (fun q => q_arrived q = false) rs -> settled (sworld0 rs paths workers qcap cap).
Proof. intros H. split; [unfold take_queued; cbn; destruct workers; reflexivity|cbn [sworld0 s_w]; apply world0_quiescent, H]. Qed.

(* every history of the server-level world, with a ready queue no deeper than 2n+1: after every
   event nobody in the world can move and no pool worker idles next to a queued job *)
Lemma server_history_settled rs paths workers qcap cap evs :
  Forall (fun q => q_arrived q = false) rs -> (qcap <= 2 * length rs + 1)%nat ->
  settled (fold_left sevent_step evs (sworld0 rs paths workers qcap cap)).
Proof.
  intros Hu Hq.
  assert (I0 : sinv (sworld0 rs paths workers qcap cap)) by (split; [unfold qbound; cbn; lia|unfold small_queue, nreq, qcap_of; cbn; exact Hq]).
  pose proof (sworld0_settled rs paths workers qcap cap Hu) as S0.
  revert I0 S0. generalize (sworld0 rs paths workers qcap cap).
  induction evs as [|e evs IH]; intros s I S; cbn; [exact S|].
  destruct (sevent_step_settled s e I S) as [I1 S1]. apply IH; assumption.
Qed.

(* ... and under shutdown: the closed ready queue keeps being drained by the pool *)
Lemma dstep_settled d e : sinv (d_s d) -> settled (d_s d) -> sinv (d_s (dstep d e)) /\ settled (d_s (dstep d e)).
Proof.
  intros I S. destruct e; cbn [dstep].
  - destruct (d_stop d); [destruct (path_of (d_s d) i =? 0)%N|]; cbn [with_s d_s]; try (split; assumption); apply sevent_step_settled; assumption.
  - cbn [with_s d_s]. apply sevent_step_settled; assumption.
  - cbn [with_s d_s]. apply sevent_step_settled; assumption.
  - unfold d_advance. destruct (d_stop d) as [st|]; [|cbn [with_s d_s]; apply s_advance_settled; assumption].
    destruct (negb (d_closed d) && (st + d_drain d <=? t)%N); cbn [with_s d_s]; [|apply s_advance_settled; assumption].
    destruct (s_advance_settled 64 (d_s d) (st + d_drain d)%N I S) as [I1 S1]. apply s_advance_settled; assumption.
  - destruct (d_stop d); cbn [d_s]; split; assumption.
Qed.

Lemma shutdown_history_settled rs paths workers qcap cap evs :
  Forall (fun q => q_arrived q = false) rs -> (qcap <= 2 * length rs + 1)%nat ->
  settled (d_s (drun (dworld0 (sworld0 rs paths workers qcap cap)) evs)).
Proof.
  intros Hu Hq.
  assert (I0 : sinv (d_s (dworld0 (sworld0 rs paths workers qcap cap)))) by (split; [unfold qbound; cbn; lia|unfold small_queue, nreq, qcap_of; cbn; exact Hq]).
  assert (S0 : settled (d_s (dworld0 (sworld0 rs paths workers qcap cap)))) by (apply sworld0_settled, Hu).
  revert I0 S0. generalize (dworld0 (sworld0 rs paths workers qcap cap)).
  induction evs as [|e evs IH]; intros d I S; cbn; [exact S|].
  destruct (dstep_settled d e I S) as [I1 S1]. apply IH; assumption.
Qed.
