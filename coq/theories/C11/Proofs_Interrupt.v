(* C11 — proofs about Interrupt.v (session 5). *)
From Sdns Require Import Common.Base Common.GoList Gen.C11 C11.Interrupt.

(* ---------- the group ---------- *)
Definition ig_ok (g : igroup) : Prop := ig_fired g = true -> forallb slot_hit (ig_slots g) = true.

Lemma set_slot_hit : forall sl i x, forallb slot_hit sl = true -> slot_hit x = true ->
  forallb slot_hit (set_slot sl i x) = true.
Proof.
  induction sl as [|y r IH]; intros i x H Hx; simpl; auto.
  simpl in H. apply andb_true_iff in H as [Hy Hr].
  destruct i; simpl.
  - rewrite Hx. exact Hr.
  - rewrite Hy. simpl. apply IH; auto.
Qed.

Lemma map_hit_all : forall sl, forallb slot_hit (map hit_slot sl) = true.
Proof. induction sl as [|[[c h]|] r IH]; simpl; auto. Qed.

Lemma ig_step_ok : forall g o, ig_ok g -> ig_ok (ig_next g o).
Proof.
  intros g o H. unfold ig_next, ig_ok in *. destruct o; simpl.
  - destruct (first_free (ig_slots g)) eqn:E; simpl; auto.
    intro F. apply set_slot_hit; auto.
  - intro F. apply set_slot_hit; auto.
  - destruct (ig_done g); simpl; auto.
  - destruct (ig_pending g); simpl; auto. intros _. apply map_hit_all.
  - exact H.
Qed.

Lemma ig_run_ok : forall ops g, ig_ok g -> ig_ok (ig_run g ops).
Proof. induction ops as [|o r IH]; intros g H; simpl; auto. apply IH. apply ig_step_ok. exact H. Qed.

Lemma ig0_ok : ig_ok ig0.
Proof. unfold ig_ok. simpl. discriminate. Qed.

Lemma fired_stays : forall ops g, ig_fired g = true -> ig_fired (ig_run g ops) = true.
Proof.
  induction ops as [|o r IH]; intros g H; simpl; auto. apply IH.
  unfold ig_next. destruct o; simpl; auto.
  - destruct (first_free (ig_slots g)); simpl; auto.
  - destruct (ig_done g); simpl; auto.
  - destruct (ig_pending g); simpl; auto.
Qed.

(* before the cancellation and before Close: nothing is owed, nothing is detached *)
Definition ig_quiet (g : igroup) : Prop :=
  ig_stopped g = false /\ ig_done g = false /\ ig_pending g = false.
Lemma quiet_run : forall ops g, ~ In IClose ops -> ~ In ICancel ops -> ig_quiet g -> ig_quiet (ig_run g ops).
Proof.
  induction ops as [|o r IH]; intros g H1 H2 Q; simpl; auto.
  apply IH.
  - intro X. apply H1. right. exact X.
  - intro X. apply H2. right. exact X.
  - destruct Q as (Qa & Qb & Qc). unfold ig_next, ig_quiet. destruct o; simpl.
    + destruct (first_free (ig_slots g)); simpl; auto.
    + auto.
    + exfalso. apply H2. left. reflexivity.
    + rewrite Qc. simpl. auto.
    + exfalso. apply H1. left. reflexivity.
Qed.

(* after a cancellation that found the registration attached: the callback is on its way or has run *)
Definition ig_owed (g : igroup) : Prop := ig_done g = true /\ (ig_pending g = true \/ ig_fired g = true).
Lemma owed_run : forall ops g, ig_owed g -> ig_owed (ig_run g ops).
Proof.
  induction ops as [|o r IH]; intros g Q; simpl; auto. apply IH.
  destruct Q as (Qa & Qb). unfold ig_next, ig_owed. destruct o; simpl.
  - destruct (first_free (ig_slots g)); simpl; auto.
  - auto.
  - rewrite Qa. simpl. auto.
  - destruct (ig_pending g) eqn:P; simpl; auto. destruct Qb as [Qb|Qb]; [discriminate|]. rewrite P. auto.
  - auto.
Qed.

Lemma ig_run_app : forall a b g, ig_run g (a ++ b) = ig_run (ig_run g a) b.
Proof. intros. unfold ig_run. apply fold_left_app. Qed.

Lemma ig_run_cons : forall o r g, ig_run g (o :: r) = ig_run (ig_next g o) r.
Proof. reflexivity. Qed.
Lemma fire_fires : forall g, ig_pending g = true \/ ig_fired g = true -> ig_fired (ig_next g IFire) = true.
Proof.
  intros g [H|H]; unfold ig_next; simpl.
  - rewrite H. reflexivity.
  - destruct (ig_pending g); simpl; auto.
Qed.
Lemma cancel_owes : forall g, ig_quiet g -> ig_owed (ig_next g ICancel).
Proof.
  intros g (Qa & Qb & Qc). unfold ig_next, ig_owed. simpl. rewrite Qb. simpl. rewrite Qa. simpl. auto.
Qed.

Lemma cancel_before_close_lemma : forall ops1 ops2 ops3,
  ~ In IClose ops1 -> ~ In ICancel ops1 ->
  let g := ig_run ig0 (ops1 ++ ICancel :: ops2 ++ IFire :: ops3) in
  ig_fired g = true /\ forallb slot_hit (ig_slots g) = true.
Proof.
  intros ops1 ops2 ops3 H1 H2 g.
  assert (F : ig_fired g = true).
  { unfold g. rewrite ig_run_app, ig_run_cons, ig_run_app, ig_run_cons.
    apply fired_stays. apply fire_fires.
    assert (Q0 : ig_quiet ig0) by (unfold ig_quiet; simpl; auto).
    pose proof (quiet_run ops1 ig0 H1 H2 Q0) as Q.
    pose proof (owed_run ops2 _ (cancel_owes _ Q)) as O2.
    destruct O2 as (_ & O2). exact O2. }
  split; auto.
  apply (ig_run_ok _ ig0 ig0_ok). exact F.
Qed.

(* the order matters: Close before the cancellation strands the straggler *)
Lemma close_before_cancel_lemma :
  let g := ig_run ig0 [IArm 7; IClose; ICancel; IFire] in
  ig_fired g = false /\ nth 0 (ig_slots g) None = Some (7%nat, false).
Proof. vm_compute. auto. Qed.

(* ---------- the group touches armed connections only ---------- *)
Lemma armed_set_free : forall sl i c h, first_free sl = Some i ->
  In c (armed_conns (set_slot sl i (Some (c, h)))).
Proof.
  induction sl as [|[[c0 h0]|] r IH]; intros i c h H; simpl in H; try discriminate.
  - destruct (first_free r) eqn:E; try discriminate. inversion H; subst. simpl. right. apply IH. reflexivity.
  - inversion H; subst. simpl. left. reflexivity.
Qed.
Lemma armed_map_hit : forall sl, armed_conns (map hit_slot sl) = armed_conns sl.
Proof. induction sl as [|[[c h]|] r IH]; simpl; auto. rewrite IH. reflexivity. Qed.

Lemma touches_only_armed_lemma : forall g o g' r t c,
  ig_step g o = (g', r, t) -> In c t -> In c (armed_conns (ig_slots g')).
Proof.
  intros g o g' r t c H I. destruct o; simpl in H.
  - destruct (first_free (ig_slots g)) eqn:E; inversion H; subst; simpl in *; try contradiction.
    destruct (ig_fired g); simpl in I; try contradiction. destruct I as [<-|[]].
    apply armed_set_free. exact E.
  - inversion H; subst. contradiction.
  - destruct (ig_done g); inversion H; subst; contradiction.
  - destruct (ig_pending g); inversion H; subst; simpl in *; try contradiction.
    rewrite armed_map_hit. exact I.
  - inversion H; subst. contradiction.
Qed.

Fixpoint touched_run (g : igroup) (ops : list igop) : list nat :=
  match ops with
  | [] => []
  | o :: r => snd (ig_step g o) ++ touched_run (ig_next g o) r
  end.

Lemma armed_set_other : forall sl i x c,
  In c (armed_conns (set_slot sl i x)) ->
  In c (armed_conns sl) \/ (exists h, x = Some (c, h)).
Proof.
  induction sl as [|y r IH]; intros i x c H; simpl in *; auto.
  destruct i; simpl in H.
  - destruct x as [[c1 h1]|]; simpl in H.
    + destruct H as [<-|H]; [right; eauto|]. left. destruct y as [[c2 h2]|]; simpl; auto.
    + left. destruct y as [[c2 h2]|]; simpl; auto.
  - destruct y as [[c2 h2]|]; simpl in *.
    + destruct H as [<-|H]; auto. destruct (IH _ _ _ H); auto.
    + apply IH in H. exact H.
Qed.

Lemma not_armed_step : forall g o c, ~ In c (armed_conns (ig_slots g)) -> o <> IArm c ->
  ~ In c (armed_conns (ig_slots (ig_next g o))).
Proof.
  intros g o c N D. unfold ig_next. destruct o; simpl.
  - destruct (first_free (ig_slots g)); simpl; auto.
    intro H. apply armed_set_other in H. destruct H as [H|[h H]]; auto.
    inversion H; subst. apply D. reflexivity.
  - intro H. apply armed_set_other in H. destruct H as [H|[h H]]; auto. discriminate.
  - destruct (ig_done g); simpl; auto.
  - destruct (ig_pending g); simpl; auto. rewrite armed_map_hit. exact N.
  - exact N.
Qed.

Lemma never_touched_unless_armed : forall ops g c,
  ~ In c (armed_conns (ig_slots g)) -> ~ In (IArm c) ops -> ~ In c (touched_run g ops).
Proof.
  induction ops as [|o r IH]; intros g c N A; simpl; auto.
  intro H. apply in_app_or in H. destruct H as [H|H].
  - assert (D : o <> IArm c) by (intro X; apply A; left; exact X).
    destruct (ig_step g o) as [[g' rr] t] eqn:E. simpl in H.
    pose proof (touches_only_armed_lemma _ _ _ _ _ _ E H) as T.
    apply (not_armed_step g o c N D). unfold ig_next. rewrite E. exact T.
  - revert H. apply IH.
    + apply not_armed_step; auto. intro X. apply A. left. exact X.
    + intro X. apply A. right. exact X.
Qed.

(* once disarm has returned the group never touches that connection again (until somebody arms it again) *)
Lemma no_touch_after_disarm_lemma : forall g s c ops,
  ~ In c (armed_conns (set_slot (ig_slots g) s None)) -> ~ In (IArm c) ops ->
  ~ In c (touched_run (ig_next g (IDisarm s)) ops).
Proof. intros g s c ops N A. apply never_touched_unless_armed; auto. Qed.

(* ---------- slots ---------- *)
Lemma first_free_none : forall sl, first_free sl = None <-> forallb slot_taken sl = true.
Proof.
  induction sl as [|[[c h]|] r IH]; simpl.
  - split; auto.
  - destruct (first_free r); split; intro H; try discriminate.
    + apply IH in H. discriminate.
    + apply IH. reflexivity.
    + reflexivity.
  - split; discriminate.
Qed.

Lemma arm_refused_iff_full_lemma : forall g c,
  snd (fst (ig_step g (IArm c))) = None <-> forallb slot_taken (ig_slots g) = true.
Proof.
  intros g c. simpl. destruct (first_free (ig_slots g)) eqn:E; simpl.
  - split; [discriminate|]. intro H. apply first_free_none in H. rewrite H in E. discriminate.
  - split; auto. intros _. apply first_free_none. exact E.
Qed.

Lemma set_slot_length : forall sl i x, length (set_slot sl i x) = length sl.
Proof. induction sl as [|y r IH]; intros [|i] x; simpl; auto. Qed.
Lemma step_length : forall g o, length (ig_slots (ig_next g o)) = length (ig_slots g).
Proof.
  intros g o. unfold ig_next. destruct o; simpl.
  - destruct (first_free (ig_slots g)); simpl; auto using set_slot_length.
  - apply set_slot_length.
  - destruct (ig_done g); auto.
  - destruct (ig_pending g); simpl; auto. apply map_length.
  - reflexivity.
Qed.
Lemma run_length : forall ops g, length (ig_slots (ig_run g ops)) = length (ig_slots g).
Proof. induction ops as [|o r IH]; intros g; simpl; auto. rewrite IH. apply step_length. Qed.

Lemma filter_len_le : forall {A} (f : A -> bool) l, (length (filter f l) <= length l)%nat.
Proof. induction l as [|x r IH]; simpl; auto. destruct (f x); simpl; lia. Qed.
Lemma occupancy_bounded_lemma : forall ops, (occupancy (ig_run ig0 ops) <= N.to_nat interrupt_group_slots)%nat.
Proof.
  intros ops. unfold occupancy.
  eapply Nat.le_trans; [apply filter_len_le|].
  rewrite run_length. unfold ig0, ig_nslots. cbn [ig_slots]. rewrite repeat_length. apply Nat.le_refl.
Qed.

(* ---------- one exchange ---------- *)
Lemma xread_upper : forall stream b arr, (fst (xread stream b arr) <= b)%Z.
Proof.
  induction arr as [|[t d] r IH]; simpl; [lia|].
  destruct (Z.leb_spec b t); simpl; [lia|].
  destruct d; simpl; try lia. destruct stream; simpl; [lia|exact IH].
Qed.
Lemma xread_lower : forall stream b lo arr, (lo <= b)%Z -> Forall (fun a => (lo <= fst a)%Z) arr ->
  (lo <= fst (xread stream b arr))%Z.
Proof.
  induction arr as [|[t d] r IH]; intros Hb F; simpl; [lia|].
  inversion F; subst. simpl in *.
  destruct (Z.leb_spec b t); simpl; [lia|].
  destruct d; simpl; try lia. destruct stream; simpl; [lia|auto].
Qed.

Lemma exchange_bounded_lemma : forall x cancel,
  (fst (xrun x cancel) <= Z.max (xs_start x) (xbound x cancel))%Z /\
  (Forall (fun a => (xs_start x <= fst a)%Z) (xs_arr x) -> (xs_start x <= fst (xrun x cancel))%Z).
Proof.
  intros x cancel. unfold xrun. destruct (Z.leb_spec (xbound x cancel) (xs_start x)); simpl.
  - split; lia.
  - split.
    + pose proof (xread_upper (xs_stream x) (xbound x cancel) (xs_arr x)). lia.
    + intro F. apply xread_lower; auto. lia.
Qed.

(* a straggler returns at the cancellation at the latest; an exchange that starts after it returns at once *)
Lemma straggler_cancelled_lemma : forall x c,
  (fst (xrun x (Some c)) <= Z.max (xs_start x) c)%Z /\ (fst (xrun x (Some c)) <= Z.max (xs_start x) (xs_deadline x))%Z.
Proof.
  intros x c. destruct (exchange_bounded_lemma x (Some c)) as [H _]. unfold xbound in H. lia.
Qed.

Lemma xread_answer : forall stream b arr t, xread stream b arr = (t, XAnswer) ->
  exists pre post, arr = pre ++ (t, DGood) :: post /\ Forall (fun a => snd a = DWrongId) pre /\
    (stream = true -> pre = []) /\ (t < b)%Z.
Proof.
  induction arr as [|[t0 d] r IH]; intros t H; simpl in H; [inversion H|].
  destruct (Z.leb_spec b t0); [inversion H|].
  destruct d; try (inversion H; fail).
  - inversion H; subst. exists [], r. simpl. auto.
  - destruct stream; [inversion H|].
    destruct (IH _ H) as (pre & post & E & F & S & L). subst r.
    exists ((t0, DWrongId) :: pre), post. simpl. repeat split; auto. discriminate.
Qed.

Lemma only_matching_accepted_lemma : forall x cancel t, xrun x cancel = (t, XAnswer) ->
  exists pre post, xs_arr x = pre ++ (t, DGood) :: post /\ Forall (fun a => snd a = DWrongId) pre /\
    (xs_stream x = true -> pre = []) /\ (t < xbound x cancel)%Z.
Proof.
  intros x cancel t H. unfold xrun in H.
  destruct (Z.leb_spec (xbound x cancel) (xs_start x)); [inversion H|].
  apply xread_answer in H. exact H.
Qed.

(* strays: on UDP, datagrams with another ID never change what the exchange returns *)
Definition not_stray (a : Z * dgram) : bool := match snd a with DWrongId => false | _ => true end.
Fixpoint arr_sorted (lo : Z) (arr : list (Z * dgram)) : bool :=
  match arr with [] => true | (t, _) :: r => (lo <=? t)%Z && arr_sorted t r end.

Lemma xread_timeout_late : forall b lo arr, (b <= lo)%Z -> arr_sorted lo arr = true ->
  xread false b arr = (b, XTimeout).
Proof.
  intros b lo arr H S. destruct arr as [|[t d] r]; simpl; auto.
  simpl in S. apply andb_true_iff in S as [S1 _].
  destruct (Z.leb_spec b t); auto. lia.
Qed.
Lemma sorted_filter : forall arr lo, arr_sorted lo arr = true -> arr_sorted lo (filter not_stray arr) = true.
Proof.
  induction arr as [|[t d] r IH]; intros lo S; simpl; auto.
  simpl in S. apply andb_true_iff in S as [S1 S2].
  assert (W : forall lo', (lo' <= t)%Z -> arr_sorted lo' (filter not_stray r) = true).
  { intros lo' L. specialize (IH _ S2). clear - IH L.
    destruct (filter not_stray r) as [|[t1 d1] r1]; simpl in *; auto.
    apply andb_true_iff in IH as [A B]. rewrite B. rewrite andb_true_r. lia. }
  unfold not_stray at 1. simpl. destruct d; simpl; try (rewrite S1; simpl; apply IH; exact S2).
  apply W. lia.
Qed.
Lemma strays_ignored_read : forall b arr lo, arr_sorted lo arr = true ->
  xread false b (filter not_stray arr) = xread false b arr.
Proof.
  induction arr as [|[t d] r IH]; intros lo S; simpl; auto.
  simpl in S. apply andb_true_iff in S as [S1 S2].
  unfold not_stray at 1. simpl.
  destruct d; simpl; try (destruct (Z.leb_spec b t); auto; fail).
  destruct (Z.leb_spec b t).
  - apply (xread_timeout_late b t); auto. apply sorted_filter. exact S2.
  - apply (IH t). exact S2.
Qed.
Lemma strays_ignored_lemma : forall x cancel, xs_stream x = false -> arr_sorted (xs_start x) (xs_arr x) = true ->
  xrun (mk_xs (xs_start x) (xs_deadline x) false (filter not_stray (xs_arr x))) cancel = xrun x cancel.
Proof.
  intros x cancel St S. unfold xrun, xbound. simpl. rewrite St.
  destruct cancel as [c|]; simpl;
    match goal with |- (if ?c then _ else _) = _ => destruct c; auto end;
    eapply strays_ignored_read; eauto.
Qed.

(* the model's own exchanges meet the specification the driver's observations are judged by: for every
   upstream script (arrivals not before the start), every deadline and every cancellation instant *)
Lemma model_exchange_meets_spec_lemma : forall cancel x,
  Forall (fun a => (xs_start x <= fst a)%Z) (xs_arr x) ->
  xspec cancel x (xmodel_obs cancel x) = true.
Proof.
  intros cancel x F. unfold xmodel_obs. destruct (xrun x cancel) as [rt cl] eqn:E.
  destruct (exchange_bounded_lemma x cancel) as [U L]. specialize (L F). rewrite E in U, L. simpl in U, L.
  unfold xspec. cbn [xo_ret xo_class xo_hits xo_late].
  apply andb_true_iff. split; [apply andb_true_iff; split; [apply andb_true_iff; split; [apply andb_true_iff; split|]|]|].
  - lia.
  - lia.
  - destruct cl; cbn; auto.
    destruct (only_matching_accepted_lemma _ _ _ E) as (pre & post & A & _ & _ & _).
    rewrite A. rewrite existsb_app. cbn. rewrite Z.eqb_refl. cbn. apply orb_true_r.
  - reflexivity.
  - unfold xhits. destruct cancel as [c|]; auto.
    destruct (Z.leb_spec (xs_start x) c); destruct (Z.leb_spec c rt); destruct (Z.ltb_spec rt c); cbn; auto; lia.
Qed.

(* ---------- QuestionMatches (translated from internal/dnsclient/conn.go by srcgen) ---------- *)
(* "answers to the wrong question": a response is accepted for a request question only when it carries
   exactly one question, of the same type and class, whose name is the request's up to ASCII letter case
   and a final dot.  (ascii_strings translation: exact for names whose octets are all below 128, which is
   what the wire decoder's presentation strings are.) *)
Lemma question_match_sound_lemma : forall req resp, go_QuestionMatches req resp = true ->
  exists r, resp = [r] /\ T_Question_Qtype r = T_Question_Qtype req /\ T_Question_Qclass r = T_Question_Qclass req /\
    go_canonical_name_ascii (T_Question_Name r) = go_canonical_name_ascii (T_Question_Name req).
Proof.
  intros req resp H. unfold go_QuestionMatches in H.
  destruct resp as [|r [|r2 rest]].
  - cbn in H. discriminate.
  - exists r. cbn in H. apply andb_true_iff in H as [H Hn]. apply andb_true_iff in H as [Ht Hc].
    apply N.eqb_eq in Ht. apply N.eqb_eq in Hc. apply GoList.go_bytes_eqb_eq in Hn. auto.
  - exfalso. unfold GoList.go_len in H. cbn [length] in H.
    destruct (Z.eqb_spec (Z.of_nat (S (S (length rest)))) 1) as [E|E]; [lia|]. cbn in H. discriminate.
Qed.
Lemma question_match_complete_lemma : forall req r,
  T_Question_Qtype r = T_Question_Qtype req -> T_Question_Qclass r = T_Question_Qclass req ->
  go_canonical_name_ascii (T_Question_Name r) = go_canonical_name_ascii (T_Question_Name req) ->
  go_QuestionMatches req [r] = true.
Proof.
  intros req r Ht Hc Hn. unfold go_QuestionMatches. cbn. rewrite Ht, Hc, !N.eqb_refl. cbn.
  apply GoList.go_bytes_eqb_eq. exact Hn.
Qed.
