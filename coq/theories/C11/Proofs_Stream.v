(* C11 — proofs about the TCP stream path (Stream.v). *)
From Sdns Require Import Common.Base Gen.C11 C11.Stream.
Open Scope Z_scope.

(* the write waits are real waits (recomputed from the source constants) *)
Lemma w_write_pos : 0 < w_write. Proof. reflexivity. Qed.
Lemma w_idle_pos : 0 < w_idle. Proof. reflexivity. Qed.
Lemma w_first_pos : 0 < w_first. Proof. reflexivity. Qed.

Definition all_live (tr : list tev) : Prop := Forall (fun e => live_write e = true) tr.
Definition good (st : sst) : Prop := 0 <= s_now st /\ all_live (s_trace st).

Lemma good_emit st e : good st -> live_write e = true -> good (emit st e).
Proof. intros [H1 H2] He. split; cbn; [exact H1|constructor; assumption]. Qed.

Lemma arm_facts st :
  s_now (arm st) = s_now st /\ s_deadline (arm st) = s_deadline st /\ s_armed (arm st) = s_deadline st /\
  s_held (arm st) = s_held st /\ s_werr (arm st) = s_werr st /\ s_avail (arm st) = s_avail st /\ s_inq (arm st) = s_inq st.
Proof. unfold arm. destruct (s_armed st =? s_deadline st) eqn:E; cbn; repeat split; try reflexivity. lia. Qed.

Lemma arm_good st : good st -> good (arm st).
Proof.
  intros [H1 H2]. unfold arm. destruct (s_armed st =? s_deadline st); [split; assumption|].
  split; cbn; [exact H1|constructor; [reflexivity|exact H2]].
Qed.

(* a write issued while the armed bound is still ahead is live, and a successful one
   changes neither the clock nor the bounds *)
Lemma conn_write_good c st ids :
  good st -> s_now st < s_armed st ->
  good (fst (conn_write c st ids)) /\
  (snd (conn_write c st ids) = true ->
     s_now (fst (conn_write c st ids)) = s_now st /\ s_armed (fst (conn_write c st ids)) = s_armed st /\
     s_deadline (fst (conn_write c st ids)) = s_deadline st /\ s_held (fst (conn_write c st ids)) = s_held st).
Proof.
  intros G Hlt. destruct G as [G1 G2]. unfold conn_write, expired.
  assert (Ha : (s_armed st =? 0) = false) by lia.
  assert (Hb : (s_armed st <=? s_now st) = false) by lia.
  rewrite Ha, Hb. cbn [negb andb].
  destruct (stalled c (s_now st)).
  - cbn. split; [|discriminate]. split; cbn; [lia|]. constructor; [|exact G2].
    cbn. rewrite Ha. cbn. lia.
  - cbn. split; [|intros _; repeat split]. split; cbn; [exact G1|]. constructor; [|exact G2].
    cbn. rewrite Ha. cbn. lia.
Qed.

Lemma flush_good c st :
  good st -> s_now st < s_deadline st ->
  good (fst (flush c st)) /\
  (snd (flush c st) = false -> s_armed st = s_deadline st ->
     s_now (fst (flush c st)) = s_now st /\ s_armed (fst (flush c st)) = s_deadline st /\ s_werr (fst (flush c st)) = false).
Proof.
  intros G Hlt. unfold flush. destruct (s_werr st) eqn:Ew; [split; [exact G|discriminate]|].
  destruct (s_held st) as [|h hs] eqn:Eh; [split; [exact G|intros _ Ha; repeat split; assumption]|].
  pose proof (arm_facts st) as (A1 & A2 & A3 & _).
  pose proof (arm_good st G) as GA.
  assert (Hlt' : s_now (arm st) < s_armed (arm st)) by lia.
  pose proof (conn_write_good c (arm st) (h :: hs) GA Hlt') as [W1 W2].
  destruct (conn_write c (arm st) (h :: hs)) as [st2 ok] eqn:Ec. cbn [fst snd] in *.
  split.
  - destruct W1 as [W1a W1b]. split; cbn; assumption.
  - intros Hok _. destruct ok; [|discriminate]. destruct (W2 eq_refl) as (B1 & B2 & B3 & _).
    cbn. repeat split; lia.
Qed.

Lemma before_write_facts st :
  s_now (before_write st) = s_now st /\ s_deadline (before_write st) = s_now st + w_write /\
  s_armed (before_write st) = s_now st + w_write /\ s_held (before_write st) = s_held st /\ s_werr (before_write st) = s_werr st.
Proof.
  unfold before_write. pose proof (arm_facts (set_deadline st (s_now st + w_write))) as (A1 & A2 & A3 & A4 & A5 & _).
  cbn in *. repeat split; assumption.
Qed.

Lemma before_write_good st : good st -> good (before_write st).
Proof. intros G. unfold before_write. apply arm_good. exact G. Qed.

Lemma stage_good c st id big : good st -> good (stage c st id big).
Proof.
  intros G. unfold stage. destruct (s_werr st); [exact G|]. destruct big.
  - pose proof (before_write_facts st) as (B1 & B2 & B3 & _).
    pose proof w_write_pos.
    pose proof (flush_good c (before_write st) (before_write_good st G) ltac:(lia)) as [F1 F2].
    destruct (flush c (before_write st)) as [st2 err] eqn:Ef. cbn [fst snd] in *.
    destruct err; [exact F1|].
    destruct (F2 eq_refl ltac:(lia)) as (C1 & C2 & _).
    pose proof (conn_write_good c st2 [id] F1 ltac:(lia)) as [W1 _].
    destruct (conn_write c st2 [id]) as [st3 ok]. cbn [fst] in W1.
    destruct W1 as [W1a W1b]. split; cbn; assumption.
  - destruct G as [G1 G2]. split; cbn; assumption.
Qed.

Lemma arrived_head t q n r : arrived t q = (n, r) -> match r with x :: _ => t < ch_t x | [] => True end.
Proof.
  revert n r. induction q as [|x q IH]; intros n r H; cbn in H.
  - injection H as _ <-. exact I.
  - destruct (ch_t x <=? t) eqn:E.
    + destruct (arrived t q) as [n' r'] eqn:Ea. injection H as _ <-. eapply IH. reflexivity.
    + injection H as _ <-. lia.
Qed.

Lemma conn_read_good c st : good st -> good (fst (conn_read c st)).
Proof.
  intros G. pose proof G as [G1 G2]. unfold conn_read, expired.
  destruct (negb (s_armed st =? 0) && (s_armed st <=? s_now st)) eqn:Ex; [exact G|].
  destruct (arrived (s_now st) (s_inq st)) as [n q] eqn:Ea.
  pose proof (arrived_head _ _ _ _ Ea) as Hh.
  destruct (0 <? n); [split; cbn; assumption|].
  destruct ((0 <=? tc_eof c) && (tc_eof c <=? s_now st)) eqn:Ee; [exact G|].
  destruct q as [|x q'].
  - destruct ((0 <=? tc_eof c) && negb (negb (s_armed st =? 0) && (s_armed st <=? tc_eof c))) eqn:E1.
    + split; cbn; [lia|exact G2].
    + destruct (negb (s_armed st =? 0)) eqn:E2.
      * split; cbn; [lia|exact G2].
      * apply good_emit; [exact G|reflexivity].
  - destruct (negb (s_armed st =? 0) && (s_armed st <=? ch_t x) && negb ((0 <=? tc_eof c) && (tc_eof c <? s_armed st))) eqn:E1.
    + split; cbn; [lia|exact G2].
    + destruct ((0 <=? tc_eof c) && (tc_eof c <? ch_t x)) eqn:E2.
      * split; cbn; [lia|exact G2].
      * destruct (arrived (ch_t x) (x :: q')) as [n1 q1]. split; cbn; [lia|exact G2].
Qed.

Lemma read_until_good c fuel : forall st n, good st -> good (fst (read_until c fuel st n)).
Proof.
  induction fuel as [|f IH]; intros st n G; cbn.
  - destruct (n <=? s_avail st); [exact G|]. apply good_emit; [exact G|reflexivity].
  - destruct (n <=? s_avail st); [exact G|].
    pose proof (conn_read_good c st G) as R. destruct (conn_read c st) as [st1 ok]. cbn [fst] in R.
    destruct ok; [apply IH; exact R|exact R].
Qed.

Lemma before_read_good c st wait : good st -> 0 < wait -> good (fst (before_read c st wait)).
Proof.
  intros G Hw. unfold before_read. destruct (prefix_buffered st); [exact G|].
  pose proof (arm_facts (set_deadline st (s_now st + wait))) as (A1 & A2 & _). cbn in A1, A2.
  apply flush_good; [apply arm_good; destruct G; split; cbn; assumption|lia].
Qed.

Lemma set_now_good st t : good st -> s_now st <= t -> good (set_now st t).
Proof. intros [G1 G2] H. split; cbn; [lia|exact G2]. Qed.

Lemma serve_frame_good c qt rt st id f : good st -> good (serve_frame c qt rt st id f).
Proof.
  intros G. unfold serve_frame.
  assert (Hc : forall x, good x -> good (count_served x)) by (intros x [X1 X2]; split; cbn; assumption).
  apply Hc. destruct (tf_miss f); [|apply stage_good; exact G].
  pose proof (before_write_facts st) as (B1 & B2 & _). pose proof w_write_pos.
  pose proof (flush_good c (before_write st) (before_write_good st G) ltac:(lia)) as [F1 _].
  destruct (flush c (before_write st)) as [st1 e]. cbn [fst] in F1.
  apply stage_good. apply set_now_good; [exact F1|lia].
Qed.

Lemma finish_good c st : good st -> good (finish c st).
Proof.
  intros G. unfold finish. apply good_emit; [|reflexivity].
  destruct (s_held st); [exact G|].
  pose proof (before_write_facts st) as (B1 & B2 & _). pose proof w_write_pos.
  apply flush_good; [apply before_write_good; exact G|lia].
Qed.

Lemma set_avail_good st a q : good st -> good (set_avail st a q).
Proof. intros [G1 G2]. split; cbn; assumption. Qed.
Lemma set_deadline_good st d : good st -> good (set_deadline st d).
Proof. intros [G1 G2]. split; cbn; assumption. Qed.

Lemma serve_conn_good c qt fuel frames : forall id wait st,
  good st -> 0 < wait -> good (serve_conn c qt fuel frames id wait st).
Proof.
  induction frames as [|f rest IH]; intros id wait st G Hw; cbn [serve_conn].
  - pose proof (before_read_good c st wait G Hw) as B. destruct (before_read c st wait) as [st1 err]. cbn [fst] in B.
    destruct err; [apply finish_good; exact B|].
    pose proof (read_until_good c fuel st1 frame_prefix_len B) as R.
    destruct (read_until c fuel st1 frame_prefix_len) as [st2 ok]. cbn [fst] in R.
    destruct ok; cbn [negb]; apply finish_good; [apply good_emit; [exact R|reflexivity]|exact R].
  - pose proof (before_read_good c st wait G Hw) as B. destruct (before_read c st wait) as [st1 err]. cbn [fst] in B.
    destruct err; [apply finish_good; exact B|].
    pose proof (read_until_good c fuel st1 frame_prefix_len B) as R.
    destruct (read_until c fuel st1 frame_prefix_len) as [st2 ok]. cbn [fst] in R.
    destruct ok; cbn [negb]; [|apply finish_good; exact R].
    set (st3 := set_avail st2 _ _). set (st4 := set_deadline st3 _).
    assert (G4 : good st4) by (apply set_deadline_good, set_avail_good, R).
    set (st5 := if s_avail st4 <? tf_len f then arm st4 else st4).
    assert (G5 : good st5) by (unfold st5; destruct (s_avail st4 <? tf_len f); [apply arm_good|]; exact G4).
    pose proof (read_until_good c fuel st5 (tf_len f) G5) as R6.
    destruct (read_until c fuel st5 (tf_len f)) as [st6 ok2]. cbn [fst] in R6.
    destruct ok2; cbn [negb]; [|apply finish_good; exact R6].
    apply IH; [|exact w_idle_pos].
    apply serve_frame_good, set_avail_good, R6.
Qed.

(* every Write the connection goroutine issues - whatever the resolution times, the query
   timeout and the client's timing - is issued under an armed bound that lies strictly ahead
   of the issuing instant: no staged reply is lost because the resolution outlived a bound *)
Lemma writes_under_live_bound qt frames c : Forall (fun e => live_write e = true) (run_conn qt frames c).
Proof.
  unfold run_conn. apply Forall_rev.
  apply (serve_conn_good c qt _ frames 1%nat w_first (st0 c)); [|exact w_first_pos].
  split; cbn; [lia|constructor].
Qed.

(* ---- exactly one reply per served frame, for a client that keeps reading ---- *)
Definition wr (tr : list tev) : list nat := written_ids (rev tr).
Lemma wr_cons e tr : wr (e :: tr) = wr tr ++ match e with TWrite _ _ _ true ids => ids | _ => [] end.
Proof. unfold wr, written_ids. cbn [rev]. rewrite flat_map_app. cbn. rewrite app_nil_r. reflexivity. Qed.

Definition acct (st : sst) : list nat := wr (s_trace st) ++ s_held st.
(* nothing the client is owed changed *)
Definition same (st st' : sst) : Prop :=
  s_werr st' = s_werr st /\ wr (s_trace st') = wr (s_trace st) /\ s_held st' = s_held st /\ s_served st' = s_served st.
Lemma same_refl st : same st st. Proof. repeat split. Qed.
Lemma same_trans a b c : same a b -> same b c -> same a c.
Proof. intros (A1 & A2 & A3 & A4) (B1 & B2 & B3 & B4). repeat split; congruence. Qed.

Lemma arm_same st : same st (arm st).
Proof.
  unfold arm. destruct (s_armed st =? s_deadline st); [apply same_refl|].
  unfold same, emit; cbn [fst snd s_werr s_trace s_held s_served]; rewrite wr_cons, app_nil_r; repeat split.
Qed.
Lemma before_write_same st : same st (before_write st).
Proof. unfold before_write. eapply same_trans; [|apply arm_same]. repeat split. Qed.

Lemma conn_read_same c st : same st (fst (conn_read c st)).
Proof.
  unfold conn_read. destruct (expired st); [apply same_refl|].
  destruct (arrived (s_now st) (s_inq st)) as [n q].
  destruct (0 <? n); [repeat split|].
  destruct ((0 <=? tc_eof c) && (tc_eof c <=? s_now st)); [apply same_refl|].
  destruct q as [|x q'].
  - destruct ((0 <=? tc_eof c) && negb (negb (s_armed st =? 0) && (s_armed st <=? tc_eof c))); [repeat split|].
    destruct (negb (s_armed st =? 0)); [repeat split|].
    unfold same, emit; cbn [fst snd s_werr s_trace s_held s_served]; rewrite wr_cons, app_nil_r; repeat split.
  - destruct (negb (s_armed st =? 0) && (s_armed st <=? ch_t x) && negb ((0 <=? tc_eof c) && (tc_eof c <? s_armed st))); [repeat split|].
    destruct ((0 <=? tc_eof c) && (tc_eof c <? ch_t x)); [repeat split|].
    destruct (arrived (ch_t x) (x :: q')) as [n1 q1]. repeat split.
Qed.

Lemma read_until_same c fuel : forall st n, same st (fst (read_until c fuel st n)).
Proof.
  induction fuel as [|f IH]; intros st n; cbn.
  - destruct (n <=? s_avail st); [apply same_refl|]. unfold same, emit; cbn [fst snd s_werr s_trace s_held s_served]; rewrite wr_cons, app_nil_r; repeat split.
  - destruct (n <=? s_avail st); [apply same_refl|].
    pose proof (conn_read_same c st) as R. destruct (conn_read c st) as [st1 ok]. cbn [fst] in R.
    destruct ok; [eapply same_trans; [exact R|apply IH]|exact R].
Qed.

Lemma conn_write_nostall c st ids :
  tc_stall c < 0 -> 0 <= s_now st -> s_now st < s_armed st ->
  conn_write c st ids = (emit st (TWrite (s_now st) (s_now st) (s_armed st) true ids), true).
Proof.
  intros Hs H0 Hlt. unfold conn_write, expired, stalled.
  replace (s_armed st =? 0) with false by lia. replace (s_armed st <=? s_now st) with false by lia.
  replace (0 <=? tc_stall c) with false by lia. reflexivity.
Qed.

(* a flush for a reading client under a fresh bound: everything staged is written, once *)
Lemma flush_nostall c st :
  tc_stall c < 0 -> 0 <= s_now st -> s_now st < s_deadline st -> s_werr st = false ->
  snd (flush c st) = false /\ s_werr (fst (flush c st)) = false /\ s_held (fst (flush c st)) = [] /\
  wr (s_trace (fst (flush c st))) = wr (s_trace st) ++ s_held st /\ s_served (fst (flush c st)) = s_served st.
Proof.
  intros Hs H0 Hlt Hw. unfold flush. rewrite Hw.
  destruct (s_held st) as [|h hs] eqn:Eh; [cbn; rewrite app_nil_r; repeat split; assumption|].
  pose proof (arm_facts st) as (A1 & A2 & A3 & A4 & _). pose proof (arm_same st) as (S1 & S2 & S3 & S4).
  rewrite (conn_write_nostall c (arm st) (h :: hs) Hs ltac:(lia) ltac:(lia)).
  unfold emit, set_held. cbn [fst snd s_werr s_trace s_held s_served negb].
  rewrite wr_cons, S2. repeat split. exact S4.
Qed.

Lemma stage_nostall c st id big :
  tc_stall c < 0 -> 0 <= s_now st -> s_werr st = false ->
  s_werr (stage c st id big) = false /\ acct (stage c st id big) = acct st ++ [id] /\
  s_served (stage c st id big) = s_served st.
Proof.
  intros Hs H0 Hw. unfold stage. rewrite Hw. destruct big.
  - pose proof (before_write_facts st) as (B1 & B2 & B3 & B4 & B5). pose proof w_write_pos.
    pose proof (before_write_same st) as (S1 & S2 & S3 & S4).
    unfold flush. rewrite B5, Hw, B4. unfold acct.
    destruct (s_held st) as [|h hs] eqn:Eh.
    + rewrite (conn_write_nostall c (before_write st) [id] Hs ltac:(lia) ltac:(lia)).
      unfold emit, set_held. cbn [fst snd s_werr s_trace s_held s_served negb].
      rewrite wr_cons, S2, S3, !app_nil_r. repeat split. exact S4.
    + pose proof (arm_facts (before_write st)) as (A1 & A2 & A3 & A4 & A5 & _).
      pose proof (arm_same (before_write st)) as (R1 & R2 & R3 & R4).
      rewrite (conn_write_nostall c (arm (before_write st)) (h :: hs) Hs ltac:(lia) ltac:(lia)).
      unfold emit, set_held. cbn [fst snd s_werr s_trace s_held s_served negb].
      set (stw := mk_sst _ _ _ _ _ _ _ _ _).
      rewrite (conn_write_nostall c stw [id] Hs ltac:(unfold stw; cbn; lia) ltac:(unfold stw; cbn; lia)).
      unfold emit, stw. cbn [fst snd s_werr s_trace s_held s_served s_now s_armed negb].
      rewrite !wr_cons, R2, S2, app_nil_r. repeat split. congruence.
  - cbn. unfold acct. cbn. rewrite app_assoc. repeat split.
Qed.

Definition J (st : sst) : Prop := s_werr st = false /\ acct st = seq 1 (s_served st).

Lemma same_J st st' : same st st' -> J st -> J st'.
Proof. intros (A1 & A2 & A3 & A4) [J1 J2]. unfold J, acct in *. rewrite A1, A2, A3, A4. split; assumption. Qed.

Lemma serve_frame_J c qt rt st id f :
  tc_stall c < 0 -> good st -> J st -> id = S (s_served st) ->
  J (serve_frame c qt rt st id f) /\ s_served (serve_frame c qt rt st id f) = S (s_served st).
Proof.
  intros Hs G [J1 J2] Hid. destruct G as [G1 G2]. unfold serve_frame.
  assert (Hfin : forall x, s_werr x = false -> acct x = acct st ++ [id] -> s_served x = s_served st ->
                 J (count_served x) /\ s_served (count_served x) = S (s_served st)).
  { intros x X1 X2 X3. split; [|unfold count_served; cbn [s_served]; congruence].
    split; [exact X1|]. unfold count_served, acct in *. cbn [s_trace s_held s_served].
    rewrite X2, X3, J2, Hid. rewrite seq_S. reflexivity. }
  destruct (tf_miss f).
  - pose proof (before_write_facts st) as (B1 & B2 & B3 & B4 & B5). pose proof w_write_pos.
    pose proof (before_write_same st) as (S1 & S2 & S3 & S4).
    pose proof (flush_nostall c (before_write st) Hs ltac:(lia) ltac:(lia) ltac:(congruence)) as (F1 & F2 & F3 & F4 & F5).
    assert (Hnow : s_now (fst (flush c (before_write st))) = s_now st).
    { unfold flush. rewrite B5, J1, B4. destruct (s_held st) as [|h hs]; [exact B1|].
      pose proof (arm_facts (before_write st)) as (A1 & A2 & A3 & _).
      rewrite (conn_write_nostall c (arm (before_write st)) (h :: hs) Hs ltac:(lia) ltac:(lia)). cbn. lia. }
    destruct (flush c (before_write st)) as [st1 e]. cbn [fst snd] in *.
    set (st2 := set_now st1 _).
    assert (H2 : 0 <= s_now st2) by (unfold st2; cbn; lia).
    assert (W2 : s_werr st2 = false) by exact F2.
    destruct (stage_nostall c st2 id (tf_big f && (s_now st1 + tf_delay f <? rt + qt)) Hs H2 W2) as (T1 & T2 & T3).
    apply Hfin; [exact T1| |rewrite T3; unfold st2, set_now; cbn [s_served]; congruence].
    rewrite T2. unfold acct, st2, set_now. cbn [s_trace s_held]. rewrite F3, F4, S2, S3, app_nil_r. reflexivity.
  - destruct (stage_nostall c st id false Hs G1 J1) as (T1 & T2 & T3). apply Hfin; assumption.
Qed.

Lemma before_read_J c st wait :
  tc_stall c < 0 -> good st -> J st -> 0 < wait ->
  snd (before_read c st wait) = false /\ J (fst (before_read c st wait)).
Proof.
  intros Hs [G1 G2] [J1 J2] Hw. unfold before_read. destruct (prefix_buffered st); [split; [reflexivity|split; assumption]|].
  set (st1 := arm (set_deadline st (s_now st + wait))).
  pose proof (arm_facts (set_deadline st (s_now st + wait))) as (A1 & A2 & A3 & A4 & A5 & _). cbn in A1, A2, A3, A4, A5.
  pose proof (arm_same (set_deadline st (s_now st + wait))) as (S1 & S2 & S3 & S4). cbn in S1, S2, S3, S4.
  fold st1 in A1, A2, A3, A4, A5, S1, S2, S3, S4.
  destruct (flush_nostall c st1 Hs ltac:(lia) ltac:(lia) ltac:(congruence)) as (F1 & F2 & F3 & F4 & F5).
  split; [exact F1|]. split; [exact F2|]. unfold acct in *. rewrite F3, F4, F5, S2, S3, S4, app_nil_r. exact J2.
Qed.

Lemma finish_J c st :
  tc_stall c < 0 -> good st -> J st ->
  wr (s_trace (finish c st)) = seq 1 (s_served (finish c st)).
Proof.
  intros Hs [G1 G2] [J1 J2]. unfold finish, emit. cbn [s_trace s_served]. rewrite wr_cons, app_nil_r.
  unfold acct in J2.
  destruct (s_held st) as [|h hs] eqn:Eh.
  - rewrite app_nil_r in J2. exact J2.
  - pose proof (before_write_facts st) as (B1 & B2 & B3 & B4 & B5). pose proof w_write_pos.
    pose proof (before_write_same st) as (S1 & S2 & S3 & S4).
    destruct (flush_nostall c (before_write st) Hs ltac:(lia) ltac:(lia) ltac:(congruence)) as (F1 & F2 & F3 & F4 & F5).
    rewrite F4, F5, S2, S3, S4, Eh. exact J2.
Qed.

Lemma serve_conn_J c qt fuel frames : forall id wait st,
  tc_stall c < 0 -> good st -> J st -> id = S (s_served st) -> 0 < wait ->
  let fin := serve_conn c qt fuel frames id wait st in
  wr (s_trace fin) = seq 1 (s_served fin).
Proof.
  induction frames as [|f rest IH]; intros id wait st Hs G Jst Hid Hw; cbn [serve_conn].
  - pose proof (before_read_good c st wait G Hw) as B. destruct (before_read_J c st wait Hs G Jst Hw) as [E JB].
    destruct (before_read c st wait) as [st1 err]. cbn [fst snd] in *. subst err.
    pose proof (read_until_good c fuel st1 frame_prefix_len B) as R.
    pose proof (read_until_same c fuel st1 frame_prefix_len) as RS.
    destruct (read_until c fuel st1 frame_prefix_len) as [st2 ok]. cbn [fst] in *.
    pose proof (same_J _ _ RS JB) as J2.
    destruct ok; cbn [negb]; [|apply finish_J; assumption].
    apply finish_J; [exact Hs|apply good_emit; [exact R|reflexivity]|].
    eapply same_J; [|exact J2]. unfold same, emit; cbn [fst snd s_werr s_trace s_held s_served]; rewrite wr_cons, app_nil_r; repeat split.
  - pose proof (before_read_good c st wait G Hw) as B. destruct (before_read_J c st wait Hs G Jst Hw) as [E JB].
    pose proof (before_read_J c st wait Hs G Jst Hw) as [_ JB'].
    assert (Hsv : s_served (fst (before_read c st wait)) = s_served st).
    { unfold before_read. destruct (prefix_buffered st); [reflexivity|].
      pose proof (arm_facts (set_deadline st (s_now st + wait))) as (A1 & A2 & A3 & A4 & A5 & _). cbn in A1, A2, A5.
      pose proof (arm_same (set_deadline st (s_now st + wait))) as (S1 & S2 & S3 & S4). cbn in S4.
      destruct Jst as [J1 _]. destruct G as [G1 _].
      destruct (flush_nostall c (arm (set_deadline st (s_now st + wait))) Hs ltac:(lia) ltac:(lia) ltac:(cbn in S1; congruence)) as (_ & _ & _ & _ & F5).
      congruence. }
    destruct (before_read c st wait) as [st1 err]. cbn [fst snd] in *. subst err.
    pose proof (read_until_good c fuel st1 frame_prefix_len B) as R.
    pose proof (read_until_same c fuel st1 frame_prefix_len) as RS.
    destruct (read_until c fuel st1 frame_prefix_len) as [st2 ok]. cbn [fst] in *.
    pose proof (same_J _ _ RS JB) as J2.
    destruct ok; cbn [negb]; [|apply finish_J; assumption].
    set (st3 := set_avail st2 _ _). set (st4 := set_deadline st3 _).
    assert (G4 : good st4) by (apply set_deadline_good, set_avail_good, R).
    assert (S24 : same st2 st4) by (repeat split).
    set (st5 := if s_avail st4 <? tf_len f then arm st4 else st4).
    assert (G5 : good st5) by (unfold st5; destruct (s_avail st4 <? tf_len f); [apply arm_good|]; exact G4).
    assert (S45 : same st4 st5) by (unfold st5; destruct (s_avail st4 <? tf_len f); [apply arm_same|apply same_refl]).
    pose proof (read_until_good c fuel st5 (tf_len f) G5) as R6.
    pose proof (read_until_same c fuel st5 (tf_len f)) as RS6.
    destruct (read_until c fuel st5 (tf_len f)) as [st6 ok2]. cbn [fst] in *.
    assert (S26 : same st2 st6) by (eapply same_trans; [exact S24|eapply same_trans; [exact S45|exact RS6]]).
    pose proof (same_J _ _ S26 J2) as J6.
    destruct ok2; cbn [negb]; [|apply finish_J; assumption].
    set (st7 := set_avail st6 _ _).
    assert (G7 : good st7) by (apply set_avail_good, R6).
    assert (J7 : J st7) by (eapply same_J; [|exact J6]; repeat split).
    assert (Hsv7 : s_served st7 = s_served st).
    { destruct RS as (_ & _ & _ & X1). destruct S26 as (_ & _ & _ & X2). unfold st7. cbn. congruence. }
    assert (Hid7 : id = S (s_served st7)) by congruence.
    destruct (serve_frame_J c qt (s_now st3) st7 id f Hs G7 J7 Hid7) as [J8 Sv8].
    pose proof (serve_frame_good c qt (s_now st3) st7 id f G7) as G8.
    apply IH; [exact Hs|exact G8|exact J8|congruence|exact w_idle_pos].
Qed.

(* For a client that keeps reading (and whatever else it does: timing, half-sent frames,
   closing), whatever the resolution times: the replies written to the connection are exactly
   those of the frames whose handler ran, each once, in order - no reply is lost, duplicated
   or invented. *)
Lemma reading_client_exactly_once qt frames c :
  tc_stall c < 0 ->
  let fin := serve_conn c qt (S (length (tc_chunks c))) frames 1 w_first (st0 c) in
  written_ids (run_conn qt frames c) = seq 1 (s_served fin).
Proof.
  intros Hs. cbn zeta. unfold run_conn.
  apply (serve_conn_J c qt _ frames 1%nat w_first (st0 c) Hs); [split; cbn; [lia|constructor]| |reflexivity|exact w_first_pos].
  split; reflexivity.
Qed.

(* the hypotheses are satisfiable by the interesting case: a hit staged behind a miss that
   takes 4 s (twice tcpQueryWait / tcpWriteWait, inside the query timeout), then a follow-up *)
Example slow_miss_still_answered :
  let c := mk_tconn [mk_chunk 320 91; mk_chunk 9600 44] (-1) (-1) in
  let fr := [mk_tframe 42 false 0 false; mk_tframe 45 true 4001 false; mk_tframe 42 false 0 false] in
  written_ids (run_conn 5027 fr c) = [1; 2; 3]%nat /\
  forallb live_write (run_conn 5027 fr c) = true.
Proof. vm_compute. split; reflexivity. Qed.
