(* C11 — proofs about the TCP stream path (Stream.v). *)
From Sdns Require Import Common.Base Gen.C11 C11.Stream.
Open Scope Z_scope.

(* the write waits are real waits (recomputed from the source constants) *)
Lemma w_write_pos : 0 < w_write. Proof. reflexivity. Qed.
Lemma w_idle_pos : 0 < w_idle. Proof. reflexivity. Qed.
Lemma w_first_pos : 0 < w_first. Proof. reflexivity. Qed.

Definition all_live (tr : list tev) : Prop := Forall (fun e => live_write e = true) tr.
Definition good (st : sst) : Prop := 0 <= s_now st /\ all_live (s_trace st).

Lemma good_emit st e : good st -> live_write e = true -> good (emit st e).
Proof. intros [H1 H2] He. split; cbn; [exact H1|constructor; assumption]. Qed.

Lemma arm_facts st :
  s_now (arm st) = s_now st /\ s_deadline (arm st) = s_deadline st /\ s_armed (arm st) = s_deadline st /\
  s_held (arm st) = s_held st /\ s_werr (arm st) = s_werr st /\ s_avail (arm st) = s_avail st /\ s_inq (arm st) = s_inq st.
Proof. unfold arm. destruct (s_armed st =? s_deadline st) eqn:E; cbn; repeat split; try reflexivity. lia. Qed.

Lemma arm_good st : good st -> good (arm st).
Proof.
  intros [H1 H2]. unfold arm. destruct (s_armed st =? s_deadline st); [split; assumption|].
  split; cbn; [exact H1|constructor; [reflexivity|exact H2]].
Qed.

(* a write issued while the armed bound is still ahead is live, and a successful one
   changes neither the clock nor the bounds *)
Lemma conn_write_good c st ids :
  good st -> s_now st < s_armed st ->
  good (fst (conn_write c st ids)) /\
  (snd (conn_write c st ids) = true ->
     s_now (fst (conn_write c st ids)) = s_now st /\ s_armed (fst (conn_write c st ids)) = s_armed st /\
     s_deadline (fst (conn_write c st ids)) = s_deadline st /\ s_held (fst (conn_write c st ids)) = s_held st).
Proof.
  intros G Hlt. destruct G as [G1 G2]. unfold conn_write, expired.
  assert (Ha : (s_armed st =? 0) = false) by lia.
  assert (Hb : (s_armed st <=? s_now st) = false) by lia.
  rewrite Ha, Hb. cbn [negb andb].
  destruct (stalled c (s_now st)).
  - cbn. split; [|discriminate]. split; cbn; [lia|]. constructor; [|exact G2].
    cbn. rewrite Ha. cbn. lia.
  - cbn. split; [|intros _; repeat split]. split; cbn; [exact G1|]. constructor; [|exact G2].
    cbn. rewrite Ha. cbn. lia.
Qed.

Lemma flush_good c st :
  good st -> s_now st < s_deadline st ->
  good (fst (flush c st)) /\
  (snd (flush c st) = false -> s_armed st = s_deadline st ->
     s_now (fst (flush c st)) = s_now st /\ s_armed (fst (flush c st)) = s_deadline st /\ s_werr (fst (flush c st)) = false).
Proof.
  intros G Hlt. unfold flush. destruct (s_werr st) eqn:Ew; [split; [exact G|discriminate]|].
  destruct (s_held st) as [|h hs] eqn:Eh; [split; [exact G|intros _ Ha; repeat split; assumption]|].
  pose proof (arm_facts st) as (A1 & A2 & A3 & _).
  pose proof (arm_good st G) as GA.
  assert (Hlt' : s_now (arm st) < s_armed (arm st)) by lia.
  pose proof (conn_write_good c (arm st) (h :: hs) GA Hlt') as [W1 W2].
  destruct (conn_write c (arm st) (h :: hs)) as [st2 ok] eqn:Ec. cbn [fst snd] in *.
  split.
  - destruct W1 as [W1a W1b]. split; cbn; assumption.
  - intros Hok _. destruct ok; [|discriminate]. destruct (W2 eq_refl) as (B1 & B2 & B3 & _).
    cbn. repeat split; lia.
Qed.

Lemma before_write_facts st :
  s_now (before_write st) = s_now st /\ s_deadline (before_write st) = s_now st + w_write /\
  s_armed (before_write st) = s_now st + w_write /\ s_held (before_write st) = s_held st /\ s_werr (before_write st) = s_werr st.
Proof.
  unfold before_write. pose proof (arm_facts (set_deadline st (s_now st + w_write))) as (A1 & A2 & A3 & A4 & A5 & _).
  cbn in *. repeat split; assumption.
Qed.

Lemma before_write_good st : good st -> good (before_write st).
Proof. intros G. unfold before_write. apply arm_good. exact G. Qed.

Lemma stage_good c st id big : good st -> good (stage c st id big).
Proof.
  intros G. unfold stage. destruct (s_werr st); [exact G|]. destruct big.
  - pose proof (before_write_facts st) as (B1 & B2 & B3 & _).
    pose proof w_write_pos.
    pose proof (flush_good c (before_write st) (before_write_good st G) ltac:(lia)) as [F1 F2].
    destruct (flush c (before_write st)) as [st2 err] eqn:Ef. cbn [fst snd] in *.
    destruct err; [exact F1|].
    destruct (F2 eq_refl ltac:(lia)) as (C1 & C2 & _).
    pose proof (conn_write_good c st2 [id] F1 ltac:(lia)) as [W1 _].
    destruct (conn_write c st2 [id]) as [st3 ok]. cbn [fst] in W1.
    destruct W1 as [W1a W1b]. split; cbn; assumption.
  - destruct G as [G1 G2]. split; cbn; assumption.
Qed.

Lemma arrived_head t q n r : arrived t q = (n, r) -> match r with x :: _ => t < ch_t x | [] => True end.
Proof.
  revert n r. induction q as [|x q IH]; intros n r H; cbn in H.
  - injection H as _ <-. exact I.
  - destruct (ch_t x <=? t) eqn:E.
    + destruct (arrived t q) as [n' r'] eqn:Ea. injection H as _ <-. eapply IH. reflexivity.
    + injection H as _ <-. lia.
Qed.

Lemma conn_read_good c st : good st -> good (fst (conn_read c st)).
Proof.
  intros G. pose proof G as [G1 G2]. unfold conn_read, expired.
  destruct (negb (s_armed st =? 0) && (s_armed st <=? s_now st)) eqn:Ex; [exact G|].
  destruct (arrived (s_now st) (s_inq st)) as [n q] eqn:Ea.
  pose proof (arrived_head _ _ _ _ Ea) as Hh.
  destruct (0 <? n); [split; cbn; assumption|].
  destruct ((0 <=? tc_eof c) && (tc_eof c <=? s_now st)) eqn:Ee; [exact G|].
  destruct q as [|x q'].
  - destruct ((0 <=? tc_eof c) && negb (negb (s_armed st =? 0) && (s_armed st <=? tc_eof c))) eqn:E1.
    + split; cbn; [lia|exact G2].
    + destruct (negb (s_armed st =? 0)) eqn:E2.
      * split; cbn; [lia|exact G2].
      * apply good_emit; [exact G|reflexivity].
  - destruct (negb (s_armed st =? 0) && (s_armed st <=? ch_t x) && negb ((0 <=? tc_eof c) && (tc_eof c <? s_armed st))) eqn:E1.
    + split; cbn; [lia|exact G2].
    + destruct ((0 <=? tc_eof c) && (tc_eof c <? ch_t x)) eqn:E2.
      * split; cbn; [lia|exact G2].
      * destruct (arrived (ch_t x) (x :: q')) as [n1 q1]. split; cbn; [lia|exact G2].
Qed.

Lemma read_until_good c fuel : forall st n, good st -> good (fst (read_until c fuel st n)).
Proof.
  induction fuel as [|f IH]; intros st n G; cbn.
  - destruct (n <=? s_avail st); [exact G|]. apply good_emit; [exact G|reflexivity].
  - destruct (n <=? s_avail st); [exact G|].
    pose proof (conn_read_good c st G) as R. destruct (conn_read c st) as [st1 ok]. cbn [fst] in R.
    destruct ok; [apply IH; exact R|exact R].
Qed.

Lemma before_read_good c st wait : good st -> 0 < wait -> good (fst (before_read c st wait)).
Proof.
  intros G Hw. unfold before_read. destruct (prefix_buffered st); [exact G|].
  pose proof (arm_facts (set_deadline st (s_now st + wait))) as (A1 & A2 & _). cbn in A1, A2.
  apply flush_good; [apply arm_good; destruct G; split; cbn; assumption|lia].
Qed.

Lemma set_now_good st t : good st -> s_now st <= t -> good (set_now st t).
Proof. intros [G1 G2] H. split; cbn; [lia|exact G2]. Qed.

Lemma serve_frame_good c qt rt st id f : good st -> good (serve_frame c qt rt st id f).
Proof.
  intros G. unfold serve_frame. destruct (tf_miss f); [|apply stage_good; exact G].
  pose proof (before_write_facts st) as (B1 & B2 & _). pose proof w_write_pos.
  pose proof (flush_good c (before_write st) (before_write_good st G) ltac:(lia)) as [F1 _].
  destruct (flush c (before_write st)) as [st1 e]. cbn [fst] in F1.
  apply stage_good. apply set_now_good; [exact F1|lia].
Qed.

Lemma finish_good c st : good st -> good (finish c st).
Proof.
  intros G. unfold finish. apply good_emit; [|reflexivity].
  destruct (s_held st); [exact G|].
  pose proof (before_write_facts st) as (B1 & B2 & _). pose proof w_write_pos.
  apply flush_good; [apply before_write_good; exact G|lia].
Qed.

Lemma set_avail_good st a q : good st -> good (set_avail st a q).
Proof. intros [G1 G2]. split; cbn; assumption. Qed.
Lemma set_deadline_good st d : good st -> good (set_deadline st d).
Proof. intros [G1 G2]. split; cbn; assumption. Qed.

Lemma serve_conn_good c qt fuel frames : forall id wait st,
  good st -> 0 < wait -> good (serve_conn c qt fuel frames id wait st).
Proof.
  induction frames as [|f rest IH]; intros id wait st G Hw; cbn [serve_conn].
  - pose proof (before_read_good c st wait G Hw) as B. destruct (before_read c st wait) as [st1 err]. cbn [fst] in B.
    destruct err; [apply finish_good; exact B|].
    pose proof (read_until_good c fuel st1 frame_prefix_len B) as R.
    destruct (read_until c fuel st1 frame_prefix_len) as [st2 ok]. cbn [fst] in R.
    destruct ok; cbn [negb]; apply finish_good; [apply good_emit; [exact R|reflexivity]|exact R].
  - pose proof (before_read_good c st wait G Hw) as B. destruct (before_read c st wait) as [st1 err]. cbn [fst] in B.
    destruct err; [apply finish_good; exact B|].
    pose proof (read_until_good c fuel st1 frame_prefix_len B) as R.
    destruct (read_until c fuel st1 frame_prefix_len) as [st2 ok]. cbn [fst] in R.
    destruct ok; cbn [negb]; [|apply finish_good; exact R].
    set (st3 := set_avail st2 _ _). set (st4 := set_deadline st3 _).
    assert (G4 : good st4) by (apply set_deadline_good, set_avail_good, R).
    set (st5 := if s_avail st4 <? tf_len f then arm st4 else st4).
    assert (G5 : good st5) by (unfold st5; destruct (s_avail st4 <? tf_len f); [apply arm_good|]; exact G4).
    pose proof (read_until_good c fuel st5 (tf_len f) G5) as R6.
    destruct (read_until c fuel st5 (tf_len f)) as [st6 ok2]. cbn [fst] in R6.
    destruct ok2; cbn [negb]; [|apply finish_good; exact R6].
    apply IH; [|exact w_idle_pos].
    apply serve_frame_good, set_avail_good, R6.
Qed.

(* every Write the connection goroutine issues - whatever the resolution times, the query
   timeout and the client's timing - is issued under an armed bound that lies strictly ahead
   of the issuing instant: no staged reply is lost because the resolution outlived a bound *)
Lemma writes_under_live_bound qt frames c : Forall (fun e => live_write e = true) (run_conn qt frames c).
Proof.
  unfold run_conn. apply Forall_rev.
  apply (serve_conn_good c qt _ frames 1%nat w_first (st0 c)); [|exact w_first_pos].
  split; cbn; [lia|constructor].
Qed.
