(* C11 — the follower loop of Resolver.groupLookup (middleware/resolver/resolver.go) over
   SingleflightWrapper.TimedDoChanWithRole: one key, any number of callers.  Definitions only.

   One flight at a time per key.  The caller that starts it is its leader and runs the lookup
   under ITS OWN context; the others follow.  A leader whose own context ends (deadline or
   client cancellation) fails request-locally: it returns its own error, the flight is gone,
   and every follower is handed that error (shared, not leader).  A follower so woken looks at
   ITS OWN context: ended => its own error; alive => it re-enters the key (continue) and leads
   or follows the next flight - with no bound on how often.  A follower whose own context
   ends while it waits returns its own error at once.  When the authority answers, the flight
   completes and leader and followers all take the answer.

   Atomic steps: arrival, a context ending, the authority recovering, and the wake-up of ONE
   pending follower (so every order in which woken followers re-enter is a schedule). *)
From Sdns Require Export Common.Base.
Open Scope Z_scope.

Inductive grole := GIdle | GLead | GFollow | GPending (owner : nat) | GDone.
Inductive gout := GNone | GAnswer (t : Z) | GErr (owner : nat) (t : Z).
Record gcs := mk_gcs { g_role : grole; g_ended : bool; g_out : gout }.
Record gst := mk_gst { g_cs : list gcs; g_flight : bool; g_free : bool; g_now : Z }.

Inductive gev := GArrive (i : nat) | GEnd (i : nat) | GRecover | GWake (i : nat).

Fixpoint upd_at {A} (i : nat) (f : A -> A) (l : list A) : list A :=
  match l, i with
  | [], _ => []
  | x :: r, O => f x :: r
  | x :: r, S k => x :: upd_at k f r
  end.

Definition g0 (n : nat) : gst := mk_gst (repeat (mk_gcs GIdle false GNone) n) false false 0.
Definition role_of (s : gst) (i : nat) : grole :=
  match nth_error (g_cs s) i with Some c => g_role c | None => GDone end.
Definition ended_of (s : gst) (i : nat) : bool :=
  match nth_error (g_cs s) i with Some c => g_ended c | None => false end.
Definition out_of (s : gst) (i : nat) : gout :=
  match nth_error (g_cs s) i with Some c => g_out c | None => GNone end.

Definition set_role (r : grole) (c : gcs) : gcs := mk_gcs r (g_ended c) (g_out c).
Definition finish_with (o : gout) (c : gcs) : gcs := mk_gcs GDone (g_ended c) o.

(* the flight completes with the answer: leader and followers take it *)
Definition complete_ok (s : gst) : gst :=
  mk_gst (map (fun c => match g_role c with
                        | GLead | GFollow => finish_with (GAnswer (g_now s)) c
                        | _ => c end) (g_cs s))
         false (g_free s) (g_now s).

(* TimedDoChanWithRole: join the flight of the key or start it *)
Definition enter (s : gst) (i : nat) : gst :=
  if g_flight s then mk_gst (upd_at i (set_role GFollow) (g_cs s)) true (g_free s) (g_now s)
  else let s1 := mk_gst (upd_at i (set_role GLead) (g_cs s)) true (g_free s) (g_now s) in
       if g_free s1 then complete_ok s1 else s1.

Definition gstep (s : gst) (e : gev) : gst :=
  match e with
  | GArrive i => match role_of s i with GIdle => enter s i | _ => s end
  | GEnd i =>
      let own := fun c => finish_with (GErr i (g_now s)) (mk_gcs (g_role c) true (g_out c)) in
      match role_of s i with
      | GFollow => mk_gst (upd_at i own (g_cs s)) (g_flight s) (g_free s) (g_now s)
      | GLead =>
          (* its lookup returns its context's error: the flight fails request-locally and
             every follower is handed the leader's error *)
          mk_gst (map (fun c => match g_role c with GFollow => set_role (GPending i) c | _ => c end)
                      (upd_at i own (g_cs s)))
                 false (g_free s) (g_now s)
      | _ => mk_gst (upd_at i (fun c => mk_gcs (g_role c) true (g_out c)) (g_cs s)) (g_flight s) (g_free s) (g_now s)
      end
  | GRecover =>
      let s1 := mk_gst (g_cs s) (g_flight s) true (g_now s) in
      if g_flight s1 then complete_ok s1 else s1
  | GWake j =>
      match role_of s j with
      | GPending _ =>
          (* shared && !leader && request-local: EffectiveError(own ctx) decides *)
          if ended_of s j
          then mk_gst (upd_at j (finish_with (GErr j (g_now s))) (g_cs s)) (g_flight s) (g_free s) (g_now s)
          else enter s j
      | _ => s
      end
  end.

Definition grun (s : gst) (evs : list gev) : gst := fold_left gstep evs s.

(* ---- timed histories, as the driver records them ---- *)
Record gcaller := mk_gcaller { gc_arrive : Z; gc_end : Z; gc_kind : N }.
Record gobs := mk_gobs { go_ret : Z; go_class : N; go_ekind : N }.
Inductive gtev := GAt (t : Z) (e : gev).

Definition wake_all (s : gst) : gst := fold_left (fun s j => gstep s (GWake j)) (seq 0 (length (g_cs s))) s.
Definition gtstep (s : gst) (te : gtev) : gst :=
  let '(GAt t e) := te in
  wake_all (gstep (mk_gst (g_cs s) (g_flight s) (g_free s) t) e).
Definition kind_of (cs : list gcaller) (i : nat) : N :=
  match nth_error cs i with Some c => gc_kind c | None => 0%N end.
Definition expected (cs : list gcaller) (s : gst) (i : nat) : gobs :=
  match out_of s i with
  | GNone => mk_gobs 0 9 0
  | GAnswer t => mk_gobs t 0 0
  | GErr o t => mk_gobs t (if (o =? i)%nat then 1 else 2) (kind_of cs o)
  end.
Definition gobs_eqb (a b : gobs) : bool :=
  (go_ret a =? go_ret b) && (go_class a =? go_class b)%N && (go_ekind a =? go_ekind b)%N.
