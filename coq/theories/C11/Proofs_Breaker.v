(* C11 — proofs about Breaker.v (session 5). *)
From Sdns Require Import Common.Base Gen.C11 C11.Breaker.

Lemma bget_bset_same : forall m s r, bget (bset m s r) s = Some r.
Proof.
  induction m as [|[k r0] t IH]; intros s r; simpl.
  - rewrite Nat.eqb_refl. reflexivity.
  - destruct (Nat.eqb_spec k s); simpl.
    + subst. rewrite Nat.eqb_refl. reflexivity.
    + destruct (Nat.eqb_spec k s); [contradiction|]. apply IH.
Qed.
Lemma bget_bset_other : forall m s s' r, s <> s' -> bget (bset m s r) s' = bget m s'.
Proof.
  induction m as [|[k r0] t IH]; intros s s' r N; simpl.
  - destruct (Nat.eqb_spec s s'); [contradiction|reflexivity].
  - destruct (Nat.eqb_spec k s); simpl.
    + subst. destruct (Nat.eqb_spec s s'); [contradiction|reflexivity].
    + destruct (Nat.eqb_spec k s'); auto.
Qed.
(* a record is disabled only with a full streak on it *)
Definition binv (m : bmap) : Prop :=
  forall s r, bget m s = Some r -> br_disabled r = true -> (breaker_trip_count <= br_count r)%Z.

(* filtering keeps the FIRST binding of a key or drops it: what is found afterwards was a binding of
   the map; to keep the invariant simple the map is kept free of duplicate keys *)
Fixpoint bkeys (m : bmap) : list nat := match m with [] => [] | (k, _) :: t => k :: bkeys t end.
Lemma bkeys_bset : forall m s r k, In k (bkeys (bset m s r)) -> k = s \/ In k (bkeys m).
Proof.
  induction m as [|[k0 r0] t IH]; intros s r k H; simpl in *.
  - destruct H as [<-|[]]. auto.
  - destruct (Nat.eqb_spec k0 s); simpl in H.
    + destruct H as [<-|H]; auto.
    + destruct H as [<-|H]; auto. destruct (IH _ _ _ H); auto.
Qed.
Lemma nodup_bset : forall m s r, NoDup (bkeys m) -> NoDup (bkeys (bset m s r)).
Proof.
  induction m as [|[k0 r0] t IH]; intros s r H; simpl.
  - constructor; [intros []|constructor].
  - inversion H; subst. destruct (Nat.eqb_spec k0 s); simpl.
    + constructor; auto.
    + constructor; auto. intro X. apply bkeys_bset in X. destruct X as [->|X]; auto.
Qed.
Lemma bkeys_filter : forall f m k, In k (bkeys (filter f m)) -> In k (bkeys m).
Proof.
  induction m as [|[k0 r0] t IH]; intros k H; simpl in *; auto.
  destruct (f (k0, r0)); simpl in H; auto. destruct H; auto.
Qed.
Lemma nodup_filter : forall f m, NoDup (bkeys m) -> NoDup (bkeys (filter f m)).
Proof.
  induction m as [|[k0 r0] t IH]; intros H; simpl; auto.
  inversion H; subst. destruct (f (k0, r0)); simpl; auto.
  constructor; auto. intro X. apply bkeys_filter in X. auto.
Qed.
Lemma bget_in : forall m s r, bget m s = Some r -> In s (bkeys m).
Proof.
  induction m as [|[k r0] t IH]; intros s r H; simpl in *; [discriminate|].
  destruct (Nat.eqb_spec k s); auto. right. eapply IH; eauto.
Qed.
Lemma bget_filter_nodup : forall f m s r, NoDup (bkeys m) -> bget (filter f m) s = Some r -> bget m s = Some r.
Proof.
  induction m as [|[k r0] t IH]; intros s r N H; simpl in *; [discriminate|].
  inversion N; subst.
  destruct (f (k, r0)); simpl in H.
  - destruct (Nat.eqb_spec k s); auto.
  - destruct (Nat.eqb_spec k s).
    + subst. exfalso. apply H2. apply IH in H; auto. eapply bget_in; eauto.
    + auto.
Qed.

Definition bwf (m : bmap) : Prop := NoDup (bkeys m) /\ binv m.

Lemma bstep_wf : forall m now o, bwf m -> bwf (fst (fst (bstep m now o))).
Proof.
  intros m now o [ND INV]. destruct o as [s|s|s| |d]; simpl.
  - destruct (bget m s) as [r|] eqn:G; simpl; [|split; auto].
    destruct (br_disabled r) eqn:D; simpl; [|split; auto].
    destruct (open_ms <? now - br_last r * 1000)%Z; simpl; [|split; auto].
    split; [apply nodup_bset; auto|].
    intros s' r' G' D'. destruct (Nat.eq_dec s s') as [<-|N].
    + rewrite bget_bset_same in G'. inversion G'; subst. simpl in D'. discriminate.
    + rewrite bget_bset_other in G' by auto. eapply INV; eauto.
  - split; [apply nodup_bset; auto|].
    intros s' r' G' D'. destruct (Nat.eq_dec s s') as [<-|N].
    + rewrite bget_bset_same in G'. inversion G'; subst. simpl in *.
      apply orb_true_iff in D'. destruct D' as [D'|D']; [|lia].
      destruct (bget m s) as [r|] eqn:G; simpl in *; [|discriminate].
      pose proof (INV _ _ G D'). lia.
    + rewrite bget_bset_other in G' by auto. eapply INV; eauto.
  - destruct (bget m s) as [r|] eqn:G; simpl; [|split; auto].
    split; [apply nodup_bset; auto|].
    intros s' r' G' D'. destruct (Nat.eq_dec s s') as [<-|N].
    + rewrite bget_bset_same in G'. inversion G'; subst. simpl in D'. discriminate.
    + rewrite bget_bset_other in G' by auto. eapply INV; eauto.
  - split; [apply nodup_filter; auto|].
    intros s' r' G' D'. apply bget_filter_nodup in G'; auto. eapply INV; eauto.
  - split; auto.
Qed.

Lemma brun_wf : forall ops m now, bwf m -> bwf (fst (fst (brun m now ops))).
Proof.
  induction ops as [|o r IH]; intros m now W; simpl; auto.
  destruct (bstep m now o) as [[m1 n1] a] eqn:E.
  specialize (IH m1 n1). destruct (brun m1 n1 r) as [[m2 n2] l] eqn:E2. simpl in *.
  apply IH. pose proof (bstep_wf m now o W) as X. rewrite E in X. exact X.
Qed.

Lemma bwf_empty : bwf [].
Proof. split; [constructor|]. intros s r H. discriminate. Qed.

(* after ANY history: a server is refused only while a full streak of failures is on its record and
   the last of them is no older than the open interval - never longer *)
Lemma refused_only_tripped_and_recent_lemma : forall ops t0 s,
  let '(m, now, _) := brun [] t0 ops in
  snd (bstep m now (BCan s)) = false ->
  exists r, bget m s = Some r /\ br_disabled r = true /\ (breaker_trip_count <= br_count r)%Z /\
            (now - br_last r * 1000 <= open_ms)%Z.
Proof.
  intros ops t0 s. pose proof (brun_wf ops [] t0 bwf_empty) as W.
  destruct (brun [] t0 ops) as [[m now] l]. simpl in W. destruct W as [_ INV].
  simpl. destruct (bget m s) as [r|] eqn:G; simpl; [|discriminate].
  destruct (br_disabled r) eqn:D; simpl; [|discriminate].
  destruct (Z.ltb_spec open_ms (now - br_last r * 1000)); simpl; [discriminate|].
  intros _. exists r. repeat split; auto. eapply INV; eauto.
Qed.

(* it reopens by itself: once the last failure is older than the open interval canQuery says yes,
   whatever is on the record *)
Lemma breaker_reopens_lemma : forall m now s,
  (forall r, bget m s = Some r -> (open_ms < now - br_last r * 1000)%Z) ->
  snd (bstep m now (BCan s)) = true.
Proof.
  intros m now s H. simpl. destruct (bget m s) as [r|] eqn:G; simpl; auto.
  destruct (br_disabled r); simpl; auto.
  specialize (H r eq_refl). destruct (Z.ltb_spec open_ms (now - br_last r * 1000)); simpl; auto. lia.
Qed.

(* one answer from the server reopens it at once *)
Lemma success_reopens_lemma : forall m now now' s,
  snd (bstep (fst (fst (bstep m now (BSucc s)))) now' (BCan s)) = true.
Proof.
  intros m now now' s. simpl. destruct (bget m s) as [r|] eqn:G; simpl.
  - rewrite bget_bset_same. simpl. reflexivity.
  - rewrite G. reflexivity.
Qed.

(* what happens to one server's record never touches another's *)
Lemma other_servers_untouched_lemma : forall m now s s' o,
  s <> s' -> (o = BCan s \/ o = BFail s \/ o = BSucc s) ->
  bget (fst (fst (bstep m now o))) s' = bget m s'.
Proof.
  intros m now s s' o N [->|[->| ->]]; simpl.
  - destruct (bget m s) as [r|]; simpl; auto. destruct (br_disabled r); simpl; auto.
    destruct (open_ms <? now - br_last r * 1000)%Z; simpl; auto. apply bget_bset_other; auto.
  - apply bget_bset_other; auto.
  - destruct (bget m s) as [r|]; simpl; auto. apply bget_bset_other; auto.
Qed.
