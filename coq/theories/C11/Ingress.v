(* C11 — "admitted (well-formed ...)": the header gate at the UDP ingress (session 5).  Definitions only.

   server/udp_engine.go: udpEngine.serve and udpEngine.serveInline both start with
   wire.ParseHeader + acceptHeader; what they decide is the first half of the property's word
   "admitted".  ParseHeader, Header.QR / Opcode and acceptHeader are TRANSLATED from the source
   by srcgen (Gen/C11.v: go_ParseHeader, go_acceptHeader) and used here as they are; the four
   verdict constants and the two rcodes rejectInPlace stamps are read from the source.  By hand:
   the dispatch on the verdict and the twelve bytes of rejectInPlace.

   One datagram = its octets, whether the body behind an accepted header decodes (the wire
   parser and miekg's Unpack are outside the model: an environment flag, the generator's ground
   truth), the transport pass it arrived on (ring / inline: both start with the same gate), and
   whether it is a recursive query for a name the cache holds (then the one reply is the answer;
   otherwise the chain decides what the one reply says). *)
From Sdns Require Import Common.Base Common.GoList Gen.C11.

Inductive ingress :=
| GDrop                      (* shorter than a header: the client hangs, any reply could amplify *)
| GIgnore                    (* a response (QR set): never answered *)
| GReject (reply : list N)   (* one bare header: NOTIMP / FORMERR *)
| GChain.                    (* enters the middleware chain *)

(* udpJob.rejectInPlace: ID echoed, QR set, opcode and RD echoed, the rcode, sections zeroed *)
Definition reject_reply (raw : list N) (verdict : N) : list N :=
  let b2 := go_idx 0%N raw 2 in
  let opcode := N.land (N.shiftr b2 3) 15 in
  let rcode := if (verdict =? accept_not_implemented)%N then reject_rcode_notimp else reject_rcode_formerr in
  [go_idx 0%N raw 0; go_idx 0%N raw 1; N.lor (N.lor 128 (N.shiftl opcode 3)) (N.land b2 1); rcode;
   0; 0; 0; 0; 0; 0; 0; 0]%N.

Definition ingress_of (raw : list N) (decodable : bool) : ingress :=
  let '(h, ok) := go_ParseHeader raw in
  if negb ok then GDrop
  else let v := go_acceptHeader h in
       if (v =? accept_ok)%N then (if decodable then GChain else GReject (reject_reply raw accept_format_error))
       else if (v =? accept_ignore)%N then GIgnore
       else GReject (reject_reply raw v).

(* the header fields as the octets spell them *)
Definition be16_at (raw : list N) (i : Z) : N := (go_idx 0%N raw i * 256 + go_idx 0%N raw (i + 1))%N.
Definition well_formed_query (raw : list N) : bool :=
  (12 <=? go_len raw)%Z &&
  (go_idx 0%N raw 2 <? 128)%N &&                                         (* QR clear *)
  (let op := ((go_idx 0%N raw 2 / 8) mod 16)%N in (op =? 0)%N || (op =? 4)%N) &&   (* QUERY or NOTIFY *)
  (be16_at raw 4 =? 1)%N && (be16_at raw 6 <=? 1)%N && (be16_at raw 8 <=? 1)%N && (be16_at raw 10 <=? 2)%N.
Definition octets (raw : list N) : Prop := Forall (fun b => (b < 256)%N) raw.

(* ---- what the driver records per datagram, and the two judgements (used by Run.v) ---- *)
Record gdgram := mk_gd { gd_raw : list N; gd_decodable : bool; gd_inline : bool; gd_cached : bool }.
(* datagrams at the client socket carrying the ID; for the first: its octets when it is a bare
   header (12 octets), else only its rcode and length *)
Record nobs := mk_no { no_replies : N; no_bare : list N; no_rcode : N; no_len : Z }.

Definition ingress_check (d : gdgram) (o : nobs) : bool :=
  match ingress_of (gd_raw d) (gd_decodable d) with
  | GDrop | GIgnore => (no_replies o =? 0)%N
  | GReject r => (no_replies o =? 1)%N && go_list_eqb N.eqb (no_bare o) r
  | GChain => (no_replies o =? 1)%N && (if gd_cached d then (no_rcode o =? 0)%N && (12 <? no_len o)%Z else true)
  end.
(* specification, on the observation and the octets: never two replies; a response or a
   fragment of a header is never answered; a well-formed, decodable query gets exactly one reply
   (the answer when it asks recursively for a cached name); any other reply is no longer than what
   was received (no amplification) and echoes the ID *)
Definition ingress_spec (d : gdgram) (o : nobs) : bool :=
  (no_replies o <=? 1)%N &&
  (if (go_len (gd_raw d) <? 12)%Z || (128 <=? go_idx 0%N (gd_raw d) 2)%N then (no_replies o =? 0)%N else true) &&
  (if well_formed_query (gd_raw d) && gd_decodable d
   then (no_replies o =? 1)%N && (if gd_cached d then (no_rcode o =? 0)%N else true)
   else if (no_replies o =? 1)%N && negb (well_formed_query (gd_raw d) && gd_decodable d)
        then (no_len o <=? go_len (gd_raw d))%Z &&
             (go_idx 0%N (no_bare o) 0 =? go_idx 0%N (gd_raw d) 0)%N && (go_idx 0%N (no_bare o) 1 =? go_idx 0%N (gd_raw d) 1)%N
        else true).
