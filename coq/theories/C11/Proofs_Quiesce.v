(* C11 — the discrete-event world always settles: [quiesce]'s fuel suffices (a measure that
   every micro-step strictly decreases and that the fuel bounds), so after every event the
   world is quiescent; and the previous-generation index of a request never dangles (an
   invariant of the generation automaton inside the world).  With Proofs_Live this closes the
   two open pieces of the composed-world statement. *)
From Sdns Require Import Common.Base Gen.C11 C11.Model C11.Proofs_WG C11.Proofs_Req C11.Proofs_World C11.Proofs_Live.

(* ---------- 1. the measure ---------- *)
Definition qcost (q : preq) : nat := (rmeasure (q_st q) + (if q_called q then 0 else 1))%nat.
Definition wmeasure (w : world) : nat := list_sum (map qcost (reqs w)).

Lemma ls_cons a l : list_sum (a :: l) = (a + list_sum l)%nat.
Proof. reflexivity. Qed.

Lemma sum_upd (l : list preq) : forall i f q,
  nth_error l i = Some q ->
  (list_sum (map qcost (upd l i f)) + qcost q = list_sum (map qcost l) + qcost (f q))%nat.
Proof.
  induction l as [|x l IH]; intros [|i] f q H; cbn [map upd nth_error] in *; try discriminate; rewrite !ls_cons.
  - injection H as ->. lia.
  - specialize (IH i f q H). lia.
Qed.

Lemma after_step_reqs w before i s' :
  reqs (after_step w before i s') = upd (reqs w) i (fun q => set_st q s').
Proof.
  unfold after_step. destruct (r_pc s'); try reflexivity.
  destruct (lead_of before) as [[k g]|]; [|reflexivity]. rewrite world_wg_reqs. reflexivity.
Qed.

Lemma req_step_decreases w i w' : req_step w i = Some w' -> (wmeasure w' < wmeasure w)%nat.
Proof.
  intros E. unfold req_step in E.
  destruct (nth_error (reqs w) i) as [q|] eqn:Eq; [|discriminate].
  destruct (negb (q_arrived q)); [discriminate|].
  assert (K : forall w0 before inp, reqs w0 = reqs w -> accepts (q_st q) inp = true ->
              (wmeasure (after_step w0 before i (rstep (q_st q) inp)) < wmeasure w)%nat).
  { intros w0 before inp Hr Ha. unfold wmeasure. rewrite after_step_reqs, Hr.
    pose proof (sum_upd (reqs w) i (fun q0 => set_st q0 (rstep (q_st q) inp)) q Eq) as S.
    pose proof (accepted_step_decreases (q_st q) inp Ha) as D.
    unfold qcost in S at 2 4. cbn [set_st q_st q_called] in S. lia. }
  destruct (r_pc (q_st q)) eqn:Epc.
  - injection E as <-. apply K; [reflexivity|]. unfold accepts. rewrite Epc. reflexivity.
  - destruct (world_wg w (join_op l)) as [w1 r] eqn:Ew. destruct r as [g ld|n|]; try discriminate.
    injection E as <-. apply K; [|unfold accepts; rewrite Epc; reflexivity].
    pose proof (world_wg_reqs w (join_op l)) as R. rewrite Ew in R. exact R.
  - destruct (negb (gstatus_eqb (gstat (wwg w) g) GLive) || negb (cerr_eqb (q_ctx q) CNone)) eqn:G; [|discriminate].
    injection E as <-. apply K; [reflexivity|]. unfold accepts. rewrite Epc. exact G.
  - injection E as <-. apply K; [reflexivity|]. unfold accepts. rewrite Epc. reflexivity.
  - injection E as <-. apply K; [reflexivity|]. unfold accepts. rewrite Epc. reflexivity.
  - destruct (q_called q) eqn:Ec; cbn [negb] in E.
    + destruct (match q_hold q with HNone => true | HUntilRelease => q_released q
                | HUntilCtx => negb (cerr_eqb (q_ctx q) CNone) end); [|discriminate].
      injection E as <-. apply K; [apply fold_store_reqs|]. unfold accepts. rewrite Epc. reflexivity.
    + injection E as <-. unfold wmeasure. cbn [reqs].
      pose proof (sum_upd (reqs w) i set_called q Eq) as S.
      unfold qcost in S at 2 4. cbn [set_called q_st q_called] in S. rewrite Ec in S. lia.
  - discriminate.
Qed.

Lemma first_runnable_decreases w : forall n i w', first_runnable w i n = Some w' -> (wmeasure w' < wmeasure w)%nat.
Proof.
  induction n as [|n IH]; intros i w' H; cbn in H; [discriminate|].
  destruct (req_step w i) as [w1|] eqn:E; [injection H as <-; eapply req_step_decreases; exact E|eapply IH; exact H].
Qed.

Lemma quiesce_enough fuel : forall w, (wmeasure w <= fuel)%nat -> quiescent (quiesce fuel w).
Proof.
  induction fuel as [|f IH]; intros w H.
  - cbn. unfold quiescent. destruct (first_runnable w 0 (length (reqs w))) as [w'|] eqn:E; [|reflexivity].
    pose proof (first_runnable_decreases w _ _ _ E). lia.
  - cbn [quiesce]. destruct (first_runnable w 0 (length (reqs w))) as [w'|] eqn:E; [|exact E].
    apply IH. pose proof (first_runnable_decreases w _ _ _ E). lia.
Qed.

(* the fuel covers the measure: 3 * (regroup limit + 1) + 7 per request, at most 40 (the
   regroup limit is the source's maxFailureProbeRegroups) *)
Lemma cost_cap : (3 * S regroup_cap + 7 <= 40)%nat.
Proof. vm_compute. lia. Qed.

Lemma rmeasure_bound s : (rmeasure s <= 3 * S regroup_cap + 6)%nat.
Proof.
  unfold rmeasure. destruct (r_pc s); try lia;
  (assert (loop_rem l <= S regroup_cap)%nat by (unfold loop_rem; destruct (l_prev l); lia)); lia.
Qed.

Lemma wmeasure_bound w : (wmeasure w <= qfuel w)%nat.
Proof.
  unfold wmeasure, qfuel. pose proof cost_cap as C.
  assert (H : forall l : list preq, (list_sum (map qcost l) <= 40 * length l)%nat).
  { induction l as [|q l IH]; cbn [map length]; [cbn; lia|]. rewrite ls_cons.
    pose proof (rmeasure_bound (q_st q)). unfold qcost at 1. destruct (q_called q); lia. }
  specialize (H (reqs w)). lia.
Qed.

Lemma quiesce_reaches_quiescence_lemma w : quiescent (quiesce (qfuel w) w).
Proof. apply quiesce_enough, wmeasure_bound. Qed.

(* ---------- 2. quiescence depends on the wait group and the requests only ---------- *)
Definition can_step (g : wg) (q : preq) : bool :=
  if negb (q_arrived q) then false else
  match r_pc (q_st q) with
  | PStart | PRecheck _ _ | PPostLoop _ => true
  | PJoining l => match snd (wg_step g (join_op l)) with RGen _ _ => true | _ => false end
  | PWaiting l g' => negb (gstatus_eqb (gstat g g') GLive) || negb (cerr_eqb (q_ctx q) CNone)
  | PDown _ => if negb (q_called q) then true else
               match q_hold q with HNone => true | HUntilRelease => q_released q
               | HUntilCtx => negb (cerr_eqb (q_ctx q) CNone) end
  | PEnd _ => false
  end.

Lemma req_step_none_iff w i :
  req_step w i = None <->
  match nth_error (reqs w) i with None => True | Some q => can_step (wwg w) q = false end.
Proof.
  unfold req_step, can_step. destruct (nth_error (reqs w) i) as [q|]; [|tauto].
  destruct (negb (q_arrived q)); [tauto|].
  destruct (r_pc (q_st q)); try (split; [discriminate|discriminate]); try tauto.
  - unfold world_wg. destruct (wg_step (wwg w) (join_op l)) as [s' r]. cbn [snd].
    destruct r; split; try discriminate; reflexivity.
  - destruct (negb (gstatus_eqb (gstat (wwg w) g) GLive) || negb (cerr_eqb (q_ctx q) CNone)); split; try discriminate; reflexivity.
  - destruct (negb (q_called q)); [split; discriminate|].
    destruct (match q_hold q with HNone => true | HUntilRelease => q_released q
              | HUntilCtx => negb (cerr_eqb (q_ctx q) CNone) end); split; try discriminate; reflexivity.
Qed.

Lemma first_runnable_all_none w : forall n i,
  (forall j, (i <= j < i + n)%nat -> req_step w j = None) -> first_runnable w i n = None.
Proof.
  induction n as [|n IH]; intros i H; cbn; [reflexivity|].
  rewrite (H i) by lia. apply IH. intros j Hj. apply H. lia.
Qed.

Lemma quiescent_ext w w' : wwg w' = wwg w -> reqs w' = reqs w -> quiescent w -> quiescent w'.
Proof.
  intros Hg Hr Q. unfold quiescent in *. rewrite Hr. apply first_runnable_all_none. intros j Hj.
  apply req_step_none_iff. rewrite Hg, Hr. apply req_step_none_iff.
  apply (first_runnable_none w _ _ Q). exact Hj.
Qed.

Lemma advance_quiescent fuel : forall w t, quiescent w -> quiescent (advance fuel w t).
Proof.
  induction fuel as [|f IH]; intros w t Q; [exact Q|]. cbn [advance].
  destruct (next_timer w t) as [t1|].
  - apply IH. unfold fire_at. apply quiesce_reaches_quiescence_lemma.
  - eapply quiescent_ext; [| |exact Q]; reflexivity.
Qed.

Lemma wevent_step_quiescent w e : quiescent w -> quiescent (wevent_step w e).
Proof.
  intros Q. destruct e; unfold wevent_step; cbv zeta; try apply quiesce_reaches_quiescence_lemma.
  - apply advance_quiescent, Q.
  - eapply quiescent_ext; [| |exact Q]; reflexivity.
Qed.

Lemma world0_quiescent rs : Forall (fun q => q_arrived q = false) rs -> quiescent (world0 rs).
Proof.
  intros H. unfold quiescent. apply first_runnable_all_none. intros j _.
  apply req_step_none_iff. cbn [world0 reqs wwg]. destruct (nth_error rs j) as [q|] eqn:E; [|exact I].
  rewrite Forall_forall in H. unfold can_step. rewrite (H q (nth_error_In _ _ E)). reflexivity.
Qed.

Lemma world_always_quiescent rs evs :
  Forall (fun q => q_arrived q = false) rs -> quiescent (fold_left wevent_step evs (world0 rs)).
Proof.
  intros H. pose proof (world0_quiescent rs H) as Q. revert Q. generalize (world0 rs).
  induction evs as [|e evs IH]; intros w Q; cbn; [exact Q|]. apply IH, wevent_step_quiescent, Q.
Qed.

(* ---------- 3. generation indices never dangle ---------- *)
Definition wgwf (s : wg) : Prop :=
  (forall k g, lookup (groups s) k = Some g -> (g < length (gens s))%nat) /\
  (forall p gp n, nth_error (gens s) p = Some gp -> g_next gp = Some n -> (n < length (gens s))%nat).

Lemma wgwf_empty : wgwf wg_empty.
Proof. split; [intros k g H; discriminate|intros p gp n H; destruct p; discriminate]. Qed.

Lemma wgwf_create s k : wgwf s -> wgwf (fst (create s k)).
Proof.
  intros [H1 H2]. unfold create. cbn [fst]. split; cbn [groups gens]; rewrite app_length; cbn [length].
  - intros k' g Hl. rewrite lookup_setk in Hl. destruct (k =? k')%N; [injection Hl as <-; lia|].
    specialize (H1 _ _ Hl). lia.
  - intros p gp n Hn Hg. destruct (Nat.lt_ge_cases p (length (gens s))) as [Hp|Hp].
    + rewrite nth_error_app1 in Hn by exact Hp. specialize (H2 _ _ _ Hn Hg). lia.
    + rewrite nth_error_app2 in Hn by exact Hp. destruct (p - length (gens s))%nat as [|[|m]]; cbn in Hn; try discriminate.
      injection Hn as <-. discriminate.
Qed.

(* rewriting one generation: the successor it names stays valid *)
Lemma wgwf_upd s gr i f :
  wgwf s -> (forall k g, lookup gr k = Some g -> (g < length (gens s))%nat) ->
  (forall x n, g_next (f x) = Some n -> g_next x = Some n \/ (n < length (gens s))%nat) ->
  wgwf (mk_wg gr (upd (gens s) i f)).
Proof.
  intros [H1 H2] Hg Hf. split; cbn; rewrite upd_length; [exact Hg|].
  intros p gp n Hn Hx. rewrite nth_error_upd in Hn. destruct (p =? i)%nat.
  - destruct (nth_error (gens s) p) as [x|] eqn:E; cbn in Hn; [|discriminate]. injection Hn as <-.
    destruct (Hf x n Hx) as [K|K]; [eapply H2; eauto|exact K].
  - eapply H2; eauto.
Qed.

Lemma remove_valid (m : list (N * nat)) k n :
  (forall k' g, lookup m k' = Some g -> (g < n)%nat) -> forall k' g, lookup (remove m k) k' = Some g -> (g < n)%nat.
Proof. intros H k' g Hl. rewrite lookup_remove in Hl. destruct (k =? k')%N; [discriminate|eauto]. Qed.

Lemma wg_join_wf s k s' g ld :
  wgwf s -> wg_join s k = (s', RGen g ld) ->
  wgwf s' /\ (g < length (gens s'))%nat /\ (length (gens s) <= length (gens s'))%nat.
Proof.
  intros W E. unfold wg_join in E. destruct (lookup (groups s) k) as [c|] eqn:El.
  - injection E as <- <- _. destruct W as [H1 H2]. split; [split; assumption|]. split; [eapply H1; eauto|lia].
  - pose proof (wgwf_create s k W) as Wc. pose proof (create_len s k) as [L1 L2].
    destruct (create s k) as [sc n]. cbn [fst snd] in *. injection E as <- <- _. subst n.
    split; [exact Wc|]. split; lia.
Qed.

Lemma regroup_create_wf s k p :
  wgwf s -> wgwf (fst (regroup_create s k p)) /\
  exists n ld, snd (regroup_create s k p) = RGen n ld /\ (n < length (gens (fst (regroup_create s k p))))%nat /\
               (length (gens s) <= length (gens (fst (regroup_create s k p))))%nat.
Proof.
  intros W. unfold regroup_create.
  pose proof (wgwf_create s k W) as Wc. pose proof (create_len s k) as [L1 L2].
  destruct (create s k) as [sc n]. cbn [fst snd] in *. subst n.
  split.
  - apply wgwf_upd; [exact Wc|apply Wc|]. intros x m Hx. cbn in Hx. injection Hx as <-. right. lia.
  - exists (length (gens s)), true. cbn. rewrite upd_length. repeat split; lia.
Qed.

Lemma wg_regroup_wf s k p s' g ld :
  wgwf s -> (p < length (gens s))%nat -> wg_regroup s k (Some p) = (s', RGen g ld) ->
  wgwf s' /\ (g < length (gens s'))%nat /\ (length (gens s) <= length (gens s'))%nat.
Proof.
  intros W Hp E. pose proof W as [H1 H2]. unfold wg_regroup in E.
  destruct (nth_error (gens s) p) as [gp|] eqn:En; [|discriminate].
  assert (Hrc : forall r, regroup_create s k p = r -> r = (s', RGen g ld) ->
                wgwf s' /\ (g < length (gens s'))%nat /\ (length (gens s) <= length (gens s'))%nat).
  { intros r Hr Er. destruct (regroup_create_wf s k p W) as (Wr & n & l0 & E1 & E2 & E3).
    rewrite Hr, Er in *. cbn [fst snd] in *. injection E1 as <- _. split; [exact Wr|split; assumption]. }
  assert (Hsame : forall x b, (s, RGen x b) = (s', RGen g ld) -> (x < length (gens s))%nat ->
                  wgwf s' /\ (g < length (gens s'))%nat /\ (length (gens s) <= length (gens s'))%nat).
  { intros x b Ex Hx. injection Ex as <- <- _. split; [exact W|split; [exact Hx|lia]]. }
  destruct (g_status gp).
  - destruct (g_next gp) as [n|] eqn:Egn; [apply (Hsame _ _ E); eapply H2; eauto|].
    destruct (lookup (groups s) k) as [c|] eqn:El; [|eapply Hrc; eauto].
    destruct (c =? p)%nat; [eapply Hrc; eauto|].
    injection E as <- <- _. pose proof (H1 _ _ El) as Hc. cbn [gens]. rewrite upd_length.
    split; [|split; [exact Hc|lia]].
    apply wgwf_upd; [exact W|exact H1|]. intros x m Hx. cbn in Hx. injection Hx as <-. right. exact Hc.
  - destruct (g_next gp) as [n|] eqn:Egn; [apply (Hsame _ _ E); eapply H2; eauto|].
    destruct (lookup (groups s) k) as [c|] eqn:El; [|eapply Hrc; eauto].
    destruct (c =? p)%nat; [eapply Hrc; eauto|].
    injection E as <- <- _. pose proof (H1 _ _ El) as Hc. cbn [gens]. rewrite upd_length.
    split; [|split; [exact Hc|lia]].
    apply wgwf_upd; [exact W|exact H1|]. intros x m Hx. cbn in Hx. injection Hx as <-. right. exact Hc.
  - apply (Hsame _ _ E). exact Hp.
Qed.

Lemma wg_donegen_wf s k g : wgwf s -> wgwf (wg_donegen s k g) /\ length (gens (wg_donegen s k g)) = length (gens s).
Proof.
  intros W. pose proof W as [H1 H2]. unfold wg_donegen. destruct g as [i|]; [|split; [exact W|reflexivity]].
  destruct (nth_error (gens s) i) as [x|]; [|split; [exact W|reflexivity]].
  assert (Hd : forall d y n, g_next (add_dups d y) = Some n -> g_next y = Some n \/ (n < length (gens s))%nat) by (intros; left; assumption).
  assert (Hc : forall y n, g_next (cancel_gen y) = Some n -> g_next y = Some n \/ (n < length (gens s))%nat).
  { intros y n Hy. left. unfold cancel_gen in Hy. destruct (g_status y); exact Hy. }
  destruct (gen_done_threshold <? g_dups x)%N.
  - split; [apply wgwf_upd; [exact W|exact H1|apply Hd]|cbn; apply upd_length].
  - destruct (lookup (groups s) k) as [c|]; [destruct (c =? i)%nat|];
      (split; [apply wgwf_upd; [exact W| |exact Hc]|cbn; apply upd_length]); try exact H1.
    apply remove_valid. exact H1.
Qed.

(* what a request's program counter may point at *)
Definition prev_ok (n : nat) (l : loopst) : Prop := match l_prev l with Some p => (p < n)%nat | None => True end.
Definition idx_ok (n : nat) (pc : rpc) : Prop :=
  match pc with
  | PJoining l => prev_ok n l
  | PWaiting _ g | PRecheck _ g => (g < n)%nat
  | _ => True
  end.

Lemma idx_ok_mono n m pc : (n <= m)%nat -> idx_ok n pc -> idx_ok m pc.
Proof. intros L. destruct pc; cbn; try tauto; try lia. unfold prev_ok. destruct (l_prev l); [lia|tauto]. Qed.

Lemma finish_pc_end s : exists o, r_pc (finish s) = PEnd o.
Proof. unfold finish. cbn. eauto. Qed.

Lemma stop_cancelled_idx n s c lead : c <> CNone -> idx_ok n (r_pc (stop_cancelled s c lead)).
Proof. intros H. destruct c; [contradiction| |]; cbn; rewrite leader_done_pc; cbn; exact I. Qed.

Lemma loop_head_idx n s l : prev_ok n l -> idx_ok n (r_pc (loop_head s l)).
Proof.
  intros H. unfold loop_head. unfold prev_ok in H. destruct (l_prev l) as [p|] eqn:Ep.
  - destruct (l_probe l).
    + destruct (max_failure_probe_regroups <=? l_regroups l)%N; [cbn; exact I|].
      unfold add_act, set_pc. cbn [r_pc idx_ok]. unfold prev_ok. cbn [l_prev]. exact H.
    + unfold add_act, set_pc. cbn [r_pc idx_ok]. unfold prev_ok. rewrite Ep. exact H.
  - unfold add_act, set_pc. cbn [r_pc idx_ok]. unfold prev_ok. rewrite Ep. exact I.
Qed.

Lemma rstep_idx n s i :
  idx_ok n (r_pc s) -> match i with IJoin g _ => (g < n)%nat | _ => True end -> idx_ok n (r_pc (rstep s i)).
Proof.
  intros H Hi. unfold rstep. destruct (r_pc s) eqn:Epc; destruct i; try (rewrite Epc; exact H).
  - destruct pr; try (cbn; exact I). destruct internal; [cbn; exact I|].
    destruct retry; apply loop_head_idx; unfold prev_ok; cbn; exact I.
  - destruct leader; cbn; [exact I|exact Hi].
  - destruct c; [destruct gen_done; [cbn; exact H|rewrite Epc; exact H]| |]; apply stop_cancelled_idx; discriminate.
  - destruct pr; try (cbn; exact I). destruct (l_probe l && timed_out); [cbn; exact I|].
    destruct retry; [|cbn; exact I]. destruct timed_out; [cbn; exact I|].
    apply loop_head_idx. unfold prev_ok; cbn. exact H.
  - destruct c; [cbn; exact I| |]; apply stop_cancelled_idx; discriminate.
  - rewrite leader_done_pc. cbn. exact I.
Qed.

Definition winv (w : world) : Prop :=
  wgwf (wwg w) /\ Forall (fun q => idx_ok (length (gens (wwg w))) (r_pc (q_st q))) (reqs w).

Lemma world_wg_wwg w o : wwg (fst (world_wg w o)) = fst (wg_step (wwg w) o).
Proof. unfold world_wg. destruct (wg_step (wwg w) o). reflexivity. Qed.

Lemma store_attempt_wwg n c a w : wwg (store_attempt n c w a) = wwg w.
Proof.
  unfold store_attempt. destruct (d_code a =? 2)%N; [destruct (negb (d_local a) && cerr_eqb c CNone)|]; reflexivity.
Qed.
Lemma fold_store_wwg n c atts : forall w, wwg (fold_left (store_attempt n c) atts w) = wwg w.
Proof. induction atts as [|a atts IH]; intros w; cbn; auto. rewrite IH. apply store_attempt_wwg. Qed.

Definition pcs_ok (n : nat) (rs : list preq) : Prop := Forall (fun q => idx_ok n (r_pc (q_st q))) rs.
Lemma pcs_ok_mono n m rs : (n <= m)%nat -> pcs_ok n rs -> pcs_ok m rs.
Proof. intros L H. unfold pcs_ok in *. eapply Forall_impl; [|exact H]. intros q. apply idx_ok_mono, L. Qed.

Lemma after_step_winv w before i s' :
  winv w -> idx_ok (length (gens (wwg w))) (r_pc s') -> winv (after_step w before i s').
Proof.
  intros [W P] Hs. unfold after_step.
  set (w1 := set_req w i (fun q => set_st q s')).
  assert (G : winv w1).
  { split; [exact W|]. cbn. apply Forall_upd; [exact P|]. intros q _. exact Hs. }
  clearbody w1. destruct (r_pc s'); try exact G. destruct (lead_of before) as [[k g]|]; [|exact G].
  destruct G as [W1 P1]. destruct (wg_donegen_wf (wwg w1) k (Some g) W1) as [Wd L]. split.
  - rewrite world_wg_wwg. cbn [wg_step fst]. exact Wd.
  - rewrite world_wg_wwg, world_wg_reqs. cbn [wg_step fst]. rewrite L. exact P1.
Qed.

Lemma winv_same w w' : wwg w' = wwg w -> reqs w' = reqs w -> winv w -> winv w'.
Proof. intros Hg Hr [W P]. split; rewrite Hg; [exact W|rewrite Hr; exact P]. Qed.

Lemma req_step_winv w i w' : winv w -> req_step w i = Some w' -> winv w'.
Proof.
  intros Hw E. pose proof Hw as [W P]. unfold req_step in E.
  destruct (nth_error (reqs w) i) as [q|] eqn:Eq; [|discriminate].
  assert (Hq : idx_ok (length (gens (wwg w))) (r_pc (q_st q))).
  { unfold pcs_ok in P. rewrite Forall_forall in P. apply P. eapply nth_error_In; eauto. }
  destruct (negb (q_arrived q)); [discriminate|].
  assert (K : forall w0 before inp, winv w0 -> wwg w0 = wwg w ->
              match inp with IJoin _ _ => False | _ => True end ->
              winv (after_step w0 before i (rstep (q_st q) inp))).
  { intros w0 before inp H0 Hg Hi. apply after_step_winv; [exact H0|]. rewrite Hg.
    apply rstep_idx; [exact Hq|]. destruct inp; try exact I. contradiction. }
  destruct (r_pc (q_st q)) eqn:Epc.
  - injection E as <-. apply K; [exact Hw|reflexivity|exact I].
  - destruct (world_wg w (join_op l)) as [w1 r] eqn:Ew. destruct r as [g ld|n|]; try discriminate.
    injection E as <-.
    pose proof (world_wg_wwg w (join_op l)) as Hg. pose proof (world_wg_reqs w (join_op l)) as Hr.
    rewrite Ew in Hg, Hr. cbn [fst] in Hg, Hr.
    assert (Hs : snd (wg_step (wwg w) (join_op l)) = RGen g ld).
    { unfold world_wg in Ew. destruct (wg_step (wwg w) (join_op l)) as [s0 r0]. injection Ew as _ <-. reflexivity. }
    assert (J : wgwf (wwg w1) /\ (g < length (gens (wwg w1)))%nat /\ (length (gens (wwg w)) <= length (gens (wwg w1)))%nat).
    { rewrite Hg. destruct (wg_step (wwg w) (join_op l)) as [s0 r0] eqn:Es. cbn [fst snd] in *. subst r0.
      cbn [idx_ok] in Hq. unfold join_op, prev_ok in *.
      destruct (l_prev l) as [p|]; [destruct (l_probe l)|]; cbn [wg_step] in Es.
      - eapply wg_regroup_wf; eauto.
      - eapply wg_join_wf; eauto.
      - eapply wg_join_wf; eauto. }
    destruct J as (W1 & Hgl & Hlen).
    apply after_step_winv.
    + split; [exact W1|]. rewrite Hr. eapply pcs_ok_mono; [exact Hlen|exact P].
    + apply rstep_idx; [eapply idx_ok_mono; [exact Hlen|rewrite Epc; exact Hq]|exact Hgl].
  - destruct (negb (gstatus_eqb (gstat (wwg w) g) GLive) || negb (cerr_eqb (q_ctx q) CNone)); [|discriminate].
    injection E as <-. apply K; [exact Hw|reflexivity|exact I].
  - injection E as <-. apply K; [exact Hw|reflexivity|exact I].
  - injection E as <-. apply K; [exact Hw|reflexivity|exact I].
  - destruct (negb (q_called q)).
    + injection E as <-. split; [exact W|]. cbn [reqs wwg]. apply Forall_upd; [exact P|]. intros a Ha. exact Ha.
    + destruct (match q_hold q with HNone => true | HUntilRelease => q_released q
                | HUntilCtx => negb (cerr_eqb (q_ctx q) CNone) end); [|discriminate].
      injection E as <-. apply K; [|apply fold_store_wwg|exact I].
      eapply winv_same; [apply fold_store_wwg|apply fold_store_reqs|exact Hw].
  - discriminate.
Qed.

Lemma first_runnable_winv n : forall w i w', winv w -> first_runnable w i n = Some w' -> winv w'.
Proof.
  induction n as [|n IH]; intros w i w' H E; cbn in E; [discriminate|].
  destruct (req_step w i) as [w1|] eqn:E1; [injection E as <-; eapply req_step_winv; eauto|eapply IH; eauto].
Qed.
Lemma quiesce_winv fuel : forall w, winv w -> winv (quiesce fuel w).
Proof.
  induction fuel as [|f IH]; intros w H; [exact H|]. cbn [quiesce].
  destruct (first_runnable w 0 (length (reqs w))) as [w'|] eqn:E; [|exact H]. apply IH. eapply first_runnable_winv; eauto.
Qed.

Lemma expire_gens_len t : forall gs bs, length (expire_gens t gs bs) = length gs.
Proof. induction gs as [|g gs IH]; intros [|b bs]; cbn; auto. Qed.
Lemma expire_gen_next g : g_next (expire_gen g) = g_next g.
Proof. unfold expire_gen. destruct (g_status g); reflexivity. Qed.
Lemma expire_gens_nth t : forall gs bs p gp, nth_error (expire_gens t gs bs) p = Some gp ->
  exists g0, nth_error gs p = Some g0 /\ g_next gp = g_next g0.
Proof.
  induction gs as [|g gs IH]; intros [|b bs] [|p] gp H; cbn in H; try discriminate.
  - exists gp. split; [exact H|reflexivity].
  - exists gp. split; [exact H|reflexivity].
  - injection H as <-. exists g. split; [reflexivity|]. destruct (b + wait_bound_ms <=? t)%N; [apply expire_gen_next|reflexivity].
  - cbn. apply (IH bs p gp H).
Qed.

Lemma set_req_winv w i f : winv w -> (forall q, r_pc (q_st (f q)) = r_pc (q_st q)) -> winv (set_req w i f).
Proof. intros [W P] Hf. split; [exact W|]. cbn. apply Forall_upd; [exact P|]. intros q Hq. rewrite Hf. exact Hq. Qed.

Lemma fire_only_winv w t : winv w -> winv (fire_only w t).
Proof.
  intros [[H1 H2] P]. unfold fire_only. split; cbn [wwg reqs gens groups].
  - split; cbn [groups gens]; rewrite expire_gens_len; [exact H1|].
    intros p gp n Hn Hg. destruct (expire_gens_nth _ _ _ _ _ Hn) as (g0 & E0 & En). rewrite En in Hg. eapply H2; eauto.
  - rewrite expire_gens_len. unfold pcs_ok in *. rewrite Forall_forall in *. intros q Hin.
    apply in_map_iff in Hin as (q0 & <- & Hq0). destruct (q_arrived q0 && (q_deadline q0 <=? t)%N); cbn; apply P, Hq0.
Qed.

Lemma advance_winv fuel : forall w t, winv w -> winv (advance fuel w t).
Proof.
  induction fuel as [|f IH]; intros w t H; [exact H|]. cbn [advance].
  destruct (next_timer w t); [apply IH; unfold fire_at; apply quiesce_winv, fire_only_winv, H|].
  eapply winv_same; [| |exact H]; reflexivity.
Qed.

Lemma wevent_step_winv w e : winv w -> winv (wevent_step w e).
Proof.
  intros H. destruct e; unfold wevent_step; cbv zeta.
  - apply quiesce_winv, set_req_winv; [exact H|reflexivity].
  - apply quiesce_winv, set_req_winv; [exact H|reflexivity].
  - apply quiesce_winv, set_req_winv; [exact H|reflexivity].
  - apply advance_winv, H.
  - eapply winv_same; [| |exact H]; reflexivity.
Qed.

Lemma world0_winv rs : Forall fresh rs -> winv (world0 rs).
Proof.
  intros H. split; [apply wgwf_empty|]. cbn. rewrite Forall_forall in *. intros q Hq. rewrite (H q Hq). cbn. exact I.
Qed.

Lemma fold_winv evs : forall w, winv w -> winv (fold_left wevent_step evs w).
Proof. induction evs as [|e evs IH]; intros w H; cbn; [exact H|]. apply IH, wevent_step_winv, H. Qed.

(* the previous-generation index of a request is a generation *)
Lemma no_dangling w i q l k p :
  winv w -> nth_error (reqs w) i = Some q -> r_pc (q_st q) = PJoining l -> join_op l = ORegroup k (Some p) ->
  nth_error (gens (wwg w)) p <> None.
Proof.
  intros [_ P] Hn Hpc Hj. rewrite Forall_forall in P. specialize (P q (nth_error_In _ _ Hn)). rewrite Hpc in P.
  cbn in P. unfold prev_ok, join_op in *. destruct (l_prev l) as [p0|]; [|discriminate].
  destruct (l_probe l); [|discriminate]. injection Hj as _ <-. apply nth_error_Some. exact P.
Qed.

(* ---------- 4. the composed statement ---------- *)
(* every history of the model: the world is settled, and an arrived request that has not ended
   is either a follower (own context alive) of a LIVE generation or inside a downstream call
   that has not returned *)
Lemma world_settled rs evs :
  Forall fresh rs -> Forall (fun q => q_arrived q = false) rs ->
  let w := fold_left wevent_step evs (world0 rs) in
  quiescent w /\
  forall i q, nth_error (reqs w) i = Some q -> q_arrived q = true -> is_end (q_st q) = false ->
    (exists l g, r_pc (q_st q) = PWaiting l g /\ gstat (wwg w) g = GLive /\ q_ctx q = CNone) \/
    (exists lead, r_pc (q_st q) = PDown lead /\ q_called q = true /\
       ((q_hold q = HUntilRelease /\ q_released q = false) \/ (q_hold q = HUntilCtx /\ q_ctx q = CNone))).
Proof.
  intros Hf Hu. cbv zeta. set (w := fold_left wevent_step evs (world0 rs)).
  assert (Q : quiescent w) by (apply world_always_quiescent, Hu).
  assert (V : winv w) by (apply fold_winv, world0_winv, Hf).
  split; [exact Q|]. intros i q Hn Ha He.
  destruct (quiescent_only_blocked w i q Q Hn Ha He) as [l g E1 E2 E3|lead E1 E2 E3|l k p E1 E2 E3].
  - left. eauto.
  - right. eauto.
  - exfalso. exact (no_dangling w i q l k p V Hn E1 E2 E3).
Qed.

(* ... hence: a request whose own context has ended and whose downstream handler returns when
   its context ends (or was released) HAS ended - with exactly one reply or a recorded drop *)
Lemma ended_context_has_outcome rs evs :
  Forall fresh rs -> Forall (fun q => q_arrived q = false) rs ->
  let w := fold_left wevent_step evs (world0 rs) in
  forall i q, nth_error (reqs w) i = Some q -> q_arrived q = true -> q_ctx q <> CNone ->
    (q_hold q <> HUntilRelease \/ q_released q = true) ->
    exists o, r_pc (q_st q) = PEnd o /\
      match o with OReplied r => r_emits (q_st q) = [r] | _ => r_emits (q_st q) = [] end.
Proof.
  intros Hf Hu. cbv zeta. intros i q Hn Ha Hc Hh.
  destruct (world_settled rs evs Hf Hu) as [_ B]. cbv zeta in B.
  destruct (is_end (q_st q)) eqn:He.
  - pose proof (world_one_reply rs evs Hf) as O. rewrite Forall_forall in O.
    specialize (O q (nth_error_In _ _ Hn)). destruct O as [_ O].
    unfold is_end in He. destruct (r_pc (q_st q)) as [| | | | | |o] eqn:Epc; try discriminate.
    exists o. split; [reflexivity|]. destruct o; exact O.
  - exfalso. destruct (B i q Hn Ha He) as [(l & g & _ & _ & E)|(lead & _ & _ & [[E1 E2]|[_ E]])]; try contradiction.
    destruct Hh as [Hh|Hh]; [contradiction|congruence].
Qed.

Lemma no_dangling_reachable rs evs i q l k p :
  Forall fresh rs ->
  let w := fold_left wevent_step evs (world0 rs) in
  nth_error (reqs w) i = Some q -> r_pc (q_st q) = PJoining l -> join_op l = ORegroup k (Some p) ->
  nth_error (gens (wwg w)) p <> None.
Proof. intros Hf. cbv zeta. apply no_dangling. apply fold_winv, world0_winv, Hf. Qed.

(* the hypotheses are met by histories that matter: a leader whose downstream only returns when
   its context ends, a follower with a later deadline, a third client arriving after both
   deadlines - everybody has an outcome, one reply each *)
Example three_clients_all_end :
  let rs := [new_preq 0 false 2000 HUntilCtx [mk_att 2 true]; new_preq 0 false 2100 HNone [mk_att 0 false];
             new_preq 0 false 9000 HNone [mk_att 0 false]] in
  let w := fold_left wevent_step [EArrive 0; EAdvance 50; EArrive 1; EAdvance 3000; EArrive 2; EAdvance 4000]%N (world0 rs) in
  map (fun q => (is_end (q_st q), length (r_emits (q_st q)))) (reqs w) = [(true, 1); (true, 1); (true, 1)]%nat.
Proof. vm_compute. reflexivity. Qed.
