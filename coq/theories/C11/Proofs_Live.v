(* C11 — no wedge in the composed world (Model part 4): what can keep a request unfinished. *)
From Sdns Require Import Common.Base Gen.C11 C11.Model.

Definition quiescent (w : world) : Prop := first_runnable w 0 (length (reqs w)) = None.

Lemma first_runnable_none w : forall n i, first_runnable w i n = None ->
  forall j, (i <= j < i + n)%nat -> req_step w j = None.
Proof.
  induction n as [|n IH]; intros i H j Hj; [lia|].
  cbn in H. destruct (req_step w i) eqn:E; [discriminate|].
  destruct (Nat.eq_dec j i) as [->|Hne]; [exact E|].
  apply (IH (S i) H). lia.
Qed.

(* the only things that keep an arrived request from finishing once nobody can move *)
Inductive blocked (w : world) (q : preq) : Prop :=
| BlWaiting l g : r_pc (q_st q) = PWaiting l g -> gstat (wwg w) g = GLive -> q_ctx q = CNone -> blocked w q
| BlDownstream lead : r_pc (q_st q) = PDown lead -> q_called q = true ->
    (q_hold q = HUntilRelease /\ q_released q = false) \/ (q_hold q = HUntilCtx /\ q_ctx q = CNone) -> blocked w q
| BlDangling l k p : r_pc (q_st q) = PJoining l -> join_op l = ORegroup k (Some p) ->
    nth_error (gens (wwg w)) p = None -> blocked w q.

Lemma gstatus_eqb_true a b : gstatus_eqb a b = true -> a = b.
Proof. destruct a, b; cbn; congruence. Qed.
Lemma cerr_eqb_true a b : cerr_eqb a b = true -> a = b.
Proof. destruct a, b; cbn; congruence. Qed.

Lemma join_op_res s l :
  (exists g ld, snd (wg_step s (join_op l)) = RGen g ld) \/
  (exists k p, join_op l = ORegroup k (Some p) /\ nth_error (gens s) p = None).
Proof.
  assert (Hj : forall k, exists g ld, snd (wg_join s k) = RGen g ld).
  { intros k. unfold wg_join. destruct (lookup (groups s) k); [cbn; eauto|]. destruct (create s k). cbn. eauto. }
  unfold join_op. destruct (l_prev l) as [p|]; [destruct (l_probe l)|]; cbn [wg_step]; try (left; apply Hj).
  unfold wg_regroup. destruct (nth_error (gens s) p) as [gp|] eqn:En; [left|right; eauto].
  destruct (g_status gp); try (cbn; eauto; fail);
  (destruct (g_next gp); [cbn; eauto|]);
  (destruct (lookup (groups s) (l_key l)); [destruct (_ =? _)%nat|]);
  unfold regroup_create; try destruct (create s (l_key l)); cbn; eauto.
Qed.

Lemma stuck_request_is_blocked w i q :
  req_step w i = None -> nth_error (reqs w) i = Some q -> q_arrived q = true ->
  is_end (q_st q) = false -> blocked w q.
Proof.
  intros H Hq Ha He. unfold req_step in H. rewrite Hq, Ha in H. cbn [negb] in H. unfold is_end in He.
  destruct (r_pc (q_st q)) eqn:Epc; try discriminate.
  - (* PJoining *)
    destruct (world_wg w (join_op l)) as [w1 r] eqn:Ew.
    assert (Hr : snd (wg_step (wwg w) (join_op l)) = r).
    { unfold world_wg in Ew. destruct (wg_step (wwg w) (join_op l)) as [s' r']. injection Ew as _ Er. exact Er. }
    destruct (join_op_res (wwg w) l) as [(g & ld & E)|(k & p & E1 & E2)].
    + rewrite <- Hr in H. rewrite E in H. discriminate H.
    + eapply BlDangling; [exact Epc|exact E1|exact E2].
  - (* PWaiting *)
    destruct (negb (gstatus_eqb (gstat (wwg w) g) GLive) || negb (cerr_eqb (q_ctx q) CNone)) eqn:E; [discriminate|].
    apply orb_false_iff in E. destruct E as [E1 E2]. apply negb_false_iff in E1, E2.
    eapply BlWaiting; [exact Epc|apply gstatus_eqb_true; exact E1|apply cerr_eqb_true; exact E2].
  - (* PDown *)
    destruct (q_called q) eqn:Ec; cbn [negb] in H; [|discriminate].
    destruct (q_hold q) eqn:Eh; try discriminate.
    + destruct (q_released q) eqn:Er; [discriminate|]. eapply BlDownstream; [exact Epc|exact Ec|left; split; [exact Eh|exact Er]].
    + destruct (negb (cerr_eqb (q_ctx q) CNone)) eqn:Ex; [discriminate|]. apply negb_false_iff in Ex.
      eapply BlDownstream; [exact Epc|exact Ec|right; split; [exact Eh|apply cerr_eqb_true; exact Ex]].
Qed.

(* In a world where nobody can move, every arrived, unfinished request is blocked for one of
   three reasons only.  In particular a request whose own context has ended (deadline fired
   or client cancelled) is unfinished only as the caller of a downstream handler that ignores
   its context and has not been released - nobody stays parked behind a dead generation. *)
Lemma quiescent_only_blocked w i q :
  quiescent w -> nth_error (reqs w) i = Some q -> q_arrived q = true -> is_end (q_st q) = false -> blocked w q.
Proof.
  intros Hq Hn Ha He. apply (stuck_request_is_blocked w i q); try assumption.
  apply (first_runnable_none w (length (reqs w)) 0%nat Hq). split; [lia|].
  apply nth_error_Some. congruence.
Qed.

(* ... in particular: a request whose own context has ended (deadline fired, client gone) *)
Lemma ended_context_only_in_downstream w i q :
  quiescent w -> nth_error (reqs w) i = Some q -> q_arrived q = true -> is_end (q_st q) = false ->
  q_ctx q <> CNone ->
  (exists lead, r_pc (q_st q) = PDown lead /\ q_hold q = HUntilRelease /\ q_released q = false) \/
  (exists l k p, r_pc (q_st q) = PJoining l /\ join_op l = ORegroup k (Some p) /\ nth_error (gens (wwg w)) p = None).
Proof.
  intros Hq Hn Ha He Hc. destruct (quiescent_only_blocked w i q Hq Hn Ha He) as [l g E1 E2 E3|lead E1 E2 E3|l k p E1 E2 E3].
  - contradiction.
  - left. exists lead. destruct E3 as [[A B]|[A B]]; [repeat split; assumption|contradiction].
  - right. eauto 6.
Qed.
