(* C11 — the per-server circuit breaker of the resolver (session 5).  Definitions only.

   middleware/resolver/circuit_breaker.go, all of it except the ticker goroutine: canQuery,
   recordFailure, recordSuccess, cleanupOnce, as Resolver.queryServer calls them (canQuery before an
   attempt; recordFailure / recordSuccess after it, and NEITHER when the attempt ended because its own
   context ended).  One Go method = one atomic step (map access under cb.mu, the counters are atomics
   of one record; a schedule of method calls is what the model runs).  Virtual time in ms; the record
   keeps the last failure in whole seconds (time.Now().Unix()), as the code does.  The trip count, the
   open interval and the idle eviction age are read from the source by srcgen. *)
From Sdns Require Import Common.Base Gen.C11.

Record brec := mk_brec { br_count : Z; br_last : Z (* unix seconds *); br_disabled : bool }.
(* the map: server id -> record *)
Definition bmap := list (nat * brec).
Fixpoint bget (m : bmap) (s : nat) : option brec :=
  match m with [] => None | (k, r) :: t => if (k =? s)%nat then Some r else bget t s end.
Fixpoint bset (m : bmap) (s : nat) (r : brec) : bmap :=
  match m with
  | [] => [(s, r)]
  | (k, r0) :: t => if (k =? s)%nat then (k, r) :: t else (k, r0) :: bset t s r
  end.

Inductive bop := BCan (s : nat) | BFail (s : nat) | BSucc (s : nat) | BCleanup | BSleep (ms : Z).

Definition open_ms : Z := breaker_open_for / 1000000.
Definition unix_of (now : Z) : Z := now / 1000.

(* one step at instant [now] (ms): new map, new instant, what canQuery answered (true for the others) *)
Definition bstep (m : bmap) (now : Z) (o : bop) : bmap * Z * bool :=
  match o with
  | BCan s =>
      match bget m s with
      | None => (m, now, true)
      | Some r =>
          if br_disabled r
          then if (open_ms <? now - br_last r * 1000)%Z
               then (bset m s (mk_brec 0 (br_last r) false), now, true)
               else (m, now, false)
          else (m, now, true)
      end
  | BFail s =>
      let r := match bget m s with Some r => r | None => mk_brec 0 0 false end in
      let c := (br_count r + 1)%Z in
      (bset m s (mk_brec c (unix_of now) (br_disabled r || (breaker_trip_count <=? c)%Z)), now, true)
  | BSucc s =>
      match bget m s with
      | Some r => (bset m s (mk_brec 0 (br_last r) false), now, true)
      | None => (m, now, true)
      end
  | BCleanup =>
      (filter (fun kr => negb (breaker_idle_evict_s <? unix_of now - br_last (snd kr))%Z) m, now, true)
  | BSleep d => (m, (now + d)%Z, true)
  end.

Fixpoint brun (m : bmap) (now : Z) (ops : list bop) : bmap * Z * list bool :=
  match ops with
  | [] => (m, now, [])
  | o :: r => let '(m1, n1, a) := bstep m now o in
              let '(m2, n2, l) := brun m1 n1 r in (m2, n2, a :: l)
  end.

(* specification on the observations alone: a server is refused only after [breaker_trip_count]
   failures in a row (no success, no refusal-ending reset in between) and never later than the open
   interval after its last failure *)
Fixpoint breaker_spec (now : Z) (streak : list (nat * Z)) (lastf : list (nat * Z)) (ops : list bop) (obs : list bool) : bool :=
  let get := fun (l : list (nat * Z)) s => match find (fun p => (fst p =? s)%nat) l with Some p => Some (snd p) | None => None end in
  let put := fun (l : list (nat * Z)) s v => (s, v) :: filter (fun p => negb (fst p =? s)%nat) l in
  match ops, obs with
  | [], [] => true
  | o :: r, a :: br =>
      match o with
      | BCan s =>
          (if a then true
           else match get streak s, get lastf s with
                | Some k, Some t => (breaker_trip_count <=? k)%Z && (now - t * 1000 <=? open_ms)%Z
                | _, _ => false
                end) &&
          breaker_spec now streak lastf r br
      | BFail s => breaker_spec now (put streak s (match get streak s with Some k => k + 1 | None => 1 end)%Z)
                                (put lastf s (unix_of now)) r br
      | BSucc s => breaker_spec now (put streak s 0%Z) lastf r br
      | BCleanup => breaker_spec now streak lastf r br
      | BSleep d => breaker_spec (now + d)%Z streak lastf r br
      end
  | _, _ => false
  end.
