(* C11 — exactly one reply per admitted query: executable model.  Definitions only.

   Four parts, each written from the Go source line by line:

   1. [writer]   middleware/response_writer.go + wire_response.go: the base response writer
                 (Write / WriteMsg / WriteWire / CommitWire / BeginWire / Reset /
                 AllowDirectPack); "written" is [size <> sentinel]; the sentinel and the
                 marks the write paths store come from Gen/C11.v (read from the source).
   2. [wg]       internal/waitgroup/waitgroup.go: JoinGeneration / Regroup / DoneGeneration,
                 the legacy Add / Done / Get / Wait, and the environment step "the bounded
                 wait of generation g expires".  One atomic step per Go method (each runs
                 under wg.mu / previous.nextMu).
   3. [rstate]   the per-request automaton of Cache.ServeDNS's dedup loop
                 (middleware/cache/cache.go): leader path, follower path, deadline, cancel,
                 failure-probe regroup with its limit, then the downstream call whose
                 writes go through the writer of part 1.
   4. [world]    a discrete-event composition of 1-3 with a small store (positive entries,
                 RFC 9520 failure entries with their backoff) and a virtual clock, used to
                 predict what the pipeline driver observes.  Timers (request deadlines,
                 generation bounds) fire in time order.

   Modelled, not verified: goroutine scheduling (each Go method = one atomic step),
   context/timer machinery (a timer is an environment step), the cache store beyond the
   four lookups the loop makes. *)
From Sdns Require Import Common.Base Gen.C11.

(* ------------------------------------------------------------------ *)
(** * 1. The base response writer *)

Record writer := mk_writer { w_size : Z; w_direct : bool; w_internal : bool }.

(* Written(): w.size != -1 *)
Definition w_written (w : writer) : bool := negb (w_size w =? writer_unwritten_sentinel)%Z.
(* Reset(): size = -1, directPack = false; internal derived from the transport *)
Definition w_reset (internal : bool) : writer := mk_writer writer_reset_size false internal.

(* what reaches the transport *)
Inductive temit := TBytes (len : Z) | TMsg.
Inductive wret := ROk | RAlready | RErr.

Inductive wop :=
| WWrite (unpack_ok terr : bool) (len : Z)     (* Write(m): m unpacks or not; transport fails or not *)
| WWriteMsg (packable terr : bool) (len : Z)   (* WriteMsg(m): wire.TryPack handles m or not *)
| WWriteWire (terr : bool) (len : Z)           (* WriteWire / CommitWire *)
| WBeginWire                                   (* nil (RAlready) once written *)
| WAllowDirect
| WReset (internal : bool).

Definition tret (terr : bool) : wret := if terr then RErr else ROk.
Definition set_size (w : writer) (z : Z) : writer := mk_writer z (w_direct w) (w_internal w).

Definition wstep (w : writer) (o : wop) : writer * wret * list temit :=
  match o with
  | WWrite unpack_ok terr len =>
      if w_written w then (w, RAlready, [])
      else if negb unpack_ok then (w, RErr, [])
      else (set_size w len, tret terr, [TBytes len])
  | WWriteMsg packable terr len =>
      if w_written w then (w, RAlready, [])
      else if w_direct w && negb (w_internal w) && packable
           then (set_size w len, tret terr, [TBytes len])
           else (set_size w writer_msg_mark, tret terr, [TMsg])
  | WWriteWire terr len =>
      if w_written w then (w, RAlready, [])
      else (set_size w writer_wire_mark, tret terr, [TBytes len])
  | WBeginWire => (w, if w_written w then RAlready else ROk, [])
  | WAllowDirect => (mk_writer (w_size w) true (w_internal w), ROk, [])
  | WReset internal => (w_reset internal, ROk, [])
  end.

Fixpoint wrun (w : writer) (ops : list wop) : writer * list wret * list temit :=
  match ops with
  | [] => (w, [], [])
  | o :: r =>
      let '(w1, ret, em) := wstep w o in
      let '(w2, rets, ems) := wrun w1 r in
      (w2, ret :: rets, em ++ ems)
  end.

Definition is_reset (o : wop) : bool := match o with WReset _ => true | _ => false end.
Definition wop_len_ok (o : wop) : bool :=
  match o with
  | WWrite _ _ l | WWriteMsg _ _ l | WWriteWire _ l => (0 <=? l)%Z
  | _ => true
  end.
Definition is_write_op (o : wop) : bool :=
  match o with WWrite _ _ _ | WWriteMsg _ _ _ | WWriteWire _ _ | WBeginWire => true | _ => false end.

(* ------------------------------------------------------------------ *)
(** * 2. The wait group *)

Inductive gstatus := GLive | GCancelled | GExpired.
Definition gstatus_eqb (a b : gstatus) : bool :=
  match a, b with GLive, GLive | GCancelled, GCancelled | GExpired, GExpired => true | _, _ => false end.

Record gen := mk_gen { g_dups : N; g_status : gstatus; g_next : option nat }.
Record wg := mk_wg { groups : list (N * nat); gens : list gen }.
Definition wg_empty : wg := mk_wg [] [].

Fixpoint lookup (m : list (N * nat)) (k : N) : option nat :=
  match m with
  | [] => None
  | (k', v) :: r => if (k' =? k)%N then Some v else lookup r k
  end.
Fixpoint remove (m : list (N * nat)) (k : N) : list (N * nat) :=
  match m with
  | [] => []
  | (k', v) :: r => if (k' =? k)%N then remove r k else (k', v) :: remove r k
  end.
Definition setk (m : list (N * nat)) (k : N) (v : nat) : list (N * nat) := (k, v) :: remove m k.

Fixpoint upd {A} (l : list A) (i : nat) (f : A -> A) : list A :=
  match l, i with
  | [], _ => []
  | x :: r, O => f x :: r
  | x :: r, S j => x :: upd r j f
  end.

(* newGeneration: dups = 1, live, no successor *)
Definition new_gen : gen := mk_gen gen_initial_dups GLive None.
(* generation.cancel(): a context that already ended keeps its first cause *)
Definition cancel_gen (g : gen) : gen :=
  match g_status g with GLive => mk_gen (g_dups g) GCancelled (g_next g) | _ => g end.
Definition expire_gen (g : gen) : gen :=
  match g_status g with GLive => mk_gen (g_dups g) GExpired (g_next g) | _ => g end.
Definition set_next_gen (n : nat) (g : gen) : gen := mk_gen (g_dups g) (g_status g) (Some n).
Definition add_dups (d : N) (g : gen) : gen := mk_gen d (g_status g) (g_next g).

Definition gstat (s : wg) (g : nat) : gstatus :=
  match nth_error (gens s) g with Some x => g_status x | None => GCancelled end.

Definition create (s : wg) (k : N) : wg * nat :=
  let n := length (gens s) in (mk_wg (setk (groups s) k n) (gens s ++ [new_gen]), n).

Inductive wgop :=
| OJoin (k : N)                          (* JoinGeneration / Join *)
| ORegroup (k : N) (prev : option nat)
| ODoneGen (k : N) (g : option nat)
| OExpire (g : nat)                      (* environment: g's bounded wait elapses *)
| OAdd (k : N) | ODone (k : N) | OGet (k : N) | OWait (k : N).

Inductive wgres := RGen (g : nat) (leader : bool) | RNum (n : N) | RUnit.

Definition wg_join (s : wg) (k : N) : wg * wgres :=
  match lookup (groups s) k with
  | Some g => (s, RGen g false)
  | None => let '(s', n) := create s k in (s', RGen n true)
  end.

Definition regroup_create (s : wg) (k : N) (p : nat) : wg * wgres :=
  let '(s', n) := create s k in
  (mk_wg (groups s') (upd (gens s') p (set_next_gen n)), RGen n true).

Definition wg_regroup (s : wg) (k : N) (prev : option nat) : wg * wgres :=
  match prev with
  | None => wg_join s k
  | Some p =>
      match nth_error (gens s) p with
      | None => (s, RUnit)
      | Some gp =>
          match g_status gp with
          | GExpired => (s, RGen p false)        (* abandoned leader stays a tombstone *)
          | _ =>
              match g_next gp with
              | Some n => (s, RGen n false)
              | None =>
                  match lookup (groups s) k with
                  | Some c =>
                      if (c =? p)%nat then regroup_create s k p
                      else (mk_wg (groups s) (upd (gens s) p (set_next_gen c)), RGen c false)
                  | None => regroup_create s k p
                  end
              end
          end
      end
  end.

Definition wg_donegen (s : wg) (k : N) (g : option nat) : wg :=
  match g with
  | None => s
  | Some i =>
      match nth_error (gens s) i with
      | None => s
      | Some x =>
          if (gen_done_threshold <? g_dups x)%N
          then mk_wg (groups s) (upd (gens s) i (add_dups (g_dups x - 1)%N))
          else
            let gs := upd (gens s) i cancel_gen in
            match lookup (groups s) k with
            | Some c => if (c =? i)%nat then mk_wg (remove (groups s) k) gs else mk_wg (groups s) gs
            | None => mk_wg (groups s) gs
            end
      end
  end.

Definition wg_step (s : wg) (o : wgop) : wg * wgres :=
  match o with
  | OJoin k => wg_join s k
  | ORegroup k prev => wg_regroup s k prev
  | ODoneGen k g => (wg_donegen s k g, RUnit)
  | OExpire g => (mk_wg (groups s) (upd (gens s) g expire_gen), RUnit)
  | OAdd k =>
      match lookup (groups s) k with
      | Some g =>
          (mk_wg (groups s) (upd (gens s) g (fun x => add_dups (g_dups x + 1)%N x)), RUnit)
      | None => (fst (create s k), RUnit)
      end
  | ODone k =>
      match lookup (groups s) k with
      | Some g =>
          match nth_error (gens s) g with
          | Some x =>
              if (legacy_done_threshold <? g_dups x)%N
              then (mk_wg (groups s) (upd (gens s) g (add_dups (g_dups x - 1)%N)), RUnit)
              else (mk_wg (remove (groups s) k) (upd (gens s) g cancel_gen), RUnit)
          | None => (mk_wg (remove (groups s) k) (gens s), RUnit)
          end
      | None => (s, RUnit)
      end
  | OGet k =>
      match lookup (groups s) k with
      | Some g => (s, RNum (match nth_error (gens s) g with Some x => g_dups x | None => 0%N end))
      | None => (s, RNum 0%N)
      end
  | OWait k =>
      (* would Wait block?  1 = the key has a generation whose context is still live *)
      match lookup (groups s) k with
      | Some g => (s, RNum (if gstatus_eqb (gstat s g) GLive then 1%N else 0%N))
      | None => (s, RNum 0%N)
      end
  end.

Fixpoint wg_run (s : wg) (ops : list wgop) : wg * list wgres :=
  match ops with
  | [] => (s, [])
  | o :: r => let '(s1, x) := wg_step s o in let '(s2, xs) := wg_run s1 r in (s2, x :: xs)
  end.

(* ------------------------------------------------------------------ *)
(** * 3. The request automaton (Cache.ServeDNS dedup loop + downstream) *)

Inductive cerr := CNone | CDeadline | CCanceled.
Definition cerr_eqb (a b : cerr) : bool :=
  match a, b with CNone, CNone | CDeadline, CDeadline | CCanceled, CCanceled => true | _, _ => false end.

(* what the request may write to its client *)
Inductive reply :=
| RpCacheHit          (* handleCacheHit *)
| RpFailureHit        (* handleFailureHit: SERVFAIL, EDE 13 *)
| RpTimeout           (* stopCanceledRequest on DeadlineExceeded: SERVFAIL "Query timeout exceeded" *)
| RpLimit             (* writeFailureProbeLimit: SERVFAIL, request-local *)
| RpDown (code : N).  (* whatever the downstream handler wrote (its rcode) *)

Inductive outcome := OReplied (r : reply) | OCancelled | OSilent.

Inductive probe_res := PrHit | PrFailure | PrMiss.

(* one WriteMsg attempt by the downstream handler: rcode, marked request-local? *)
Record dattempt := mk_att { d_code : N; d_local : bool }.

(* shared-state operations the request issues *)
Inductive action :=
| AWg (o : wgop)
| AStoreAnswer | AStoreFailure.
Definition is_store (a : action) : bool := match a with AStoreAnswer | AStoreFailure => true | _ => false end.

Record loopst := mk_loop { l_prev : option nat; l_probe : bool; l_regroups : N; l_key : N }.

Inductive rpc :=
| PStart
| PJoining (l : loopst)
| PWaiting (l : loopst) (g : nat)
| PRecheck (l : loopst) (g : nat)
| PPostLoop (lead : option (N * nat))
| PDown (lead : option (N * nat))
| PEnd (o : outcome).

Record rstate := mk_rstate { r_pc : rpc; r_w : writer; r_emits : list reply; r_acts : list action }.

Inductive rinput :=
| IStart (pr : probe_res) (retry : option N) (internal : bool) (key : N)
| IJoin (g : nat) (leader : bool)
| IWake (gen_done : bool) (c : cerr)
| IRecheck (pr : probe_res) (timed_out : bool) (retry : option N)
| ICtx (c : cerr)
| IDown (c : cerr) (atts : list dattempt).

Definition rinit (internal : bool) : rstate := mk_rstate PStart (w_reset internal) [] [].

(* the wait-group call the loop head makes:
   previousGeneration != nil && failureProbe ? Regroup(key, prev) : JoinGeneration(key) *)
Definition join_op (l : loopst) : wgop :=
  match l_prev l with
  | Some p => if l_probe l then ORegroup (l_key l) (Some p) else OJoin (l_key l)
  | None => OJoin (l_key l)
  end.

(* ch.Writer.WriteMsg(resp) on the request's own writer: emits iff not yet written *)
Definition rwrite (s : rstate) (r : reply) : rstate :=
  let '(w', _, em) := wstep (r_w s) (WWriteMsg true false 0) in
  mk_rstate (r_pc s) w' (match em with [] => r_emits s | _ => r_emits s ++ [r] end) (r_acts s).

Definition set_pc (s : rstate) (p : rpc) : rstate := mk_rstate p (r_w s) (r_emits s) (r_acts s).
Definition add_act (s : rstate) (a : action) : rstate := mk_rstate (r_pc s) (r_w s) (r_emits s) (r_acts s ++ [a]).

(* terminal: what the client got *)
Definition finish (s : rstate) : rstate :=
  set_pc s (PEnd (match r_emits s with r :: _ => OReplied r | [] => OSilent end)).

(* the deferred DoneGeneration of a leader *)
Definition leader_done (s : rstate) (lead : option (N * nat)) : rstate :=
  match lead with Some (k, g) => add_act s (AWg (ODoneGen k (Some g))) | None => s end.

(* stopCanceledRequest *)
Definition stop_cancelled (s : rstate) (c : cerr) (lead : option (N * nat)) : rstate :=
  match c with
  | CDeadline => leader_done (finish (rwrite s RpTimeout)) lead
  | _ => leader_done (set_pc s (PEnd OCancelled)) lead
  end.

(* the head of the for-loop *)
Definition loop_head (s : rstate) (l : loopst) : rstate :=
  match l_prev l with
  | Some _ =>
      if l_probe l then
        if (max_failure_probe_regroups <=? l_regroups l)%N
        then finish (rwrite s RpLimit)
        else
          let l' := mk_loop (l_prev l) (l_probe l) (l_regroups l + 1)%N (l_key l) in
          add_act (set_pc s (PJoining l')) (AWg (join_op l'))
      else add_act (set_pc s (PJoining l)) (AWg (join_op l))
  | None => add_act (set_pc s (PJoining l)) (AWg (join_op l))
  end.

(* cache.ResponseWriter.WriteMsg, one downstream attempt: the store is updated BEFORE the
   wrapped writer is asked (cacheableResolutionFailure gates failures on a live context and
   on the request-local mark), then the base writer emits or refuses *)
Definition down_attempt (c : cerr) (s : rstate) (a : dattempt) : rstate :=
  let s1 :=
    if (d_code a =? 2)%N
    then (if negb (d_local a) && cerr_eqb c CNone then add_act s AStoreFailure else s)
    else add_act s AStoreAnswer in
  rwrite s1 (RpDown (d_code a)).

Definition rstep (s : rstate) (i : rinput) : rstate :=
  match r_pc s, i with
  | PStart, IStart pr retry internal key =>
      match pr with
      | PrHit => finish (rwrite s RpCacheHit)
      | PrFailure => finish (rwrite s RpFailureHit)
      | PrMiss =>
          if internal then set_pc s (PPostLoop None)
          else
            let l := match retry with
                     | Some rk => mk_loop None true 0 rk
                     | None => mk_loop None false 0 key
                     end in
            loop_head s l
      end
  | PJoining l, IJoin g leader =>
      if leader then set_pc s (PPostLoop (Some (l_key l, g))) else set_pc s (PWaiting l g)
  | PWaiting l g, IWake gen_done c =>
      match c with
      | CNone => if gen_done then set_pc s (PRecheck l g) else s
      | _ => stop_cancelled s c None
      end
  | PRecheck l g, IRecheck pr timed_out retry =>
      match pr with
      | PrHit => finish (rwrite s RpCacheHit)
      | PrFailure => finish (rwrite s RpFailureHit)
      | PrMiss =>
          if l_probe l && timed_out then finish (rwrite s RpLimit)
          else
            match retry with
            | None => set_pc s (PPostLoop None)
            | Some rk =>
                if timed_out then finish (rwrite s RpLimit)
                else loop_head s (mk_loop (Some g) true (l_regroups l) rk)
            end
      end
  | PPostLoop lead, ICtx c =>
      match c with
      | CNone => set_pc s (PDown lead)
      | _ => stop_cancelled s c lead
      end
  | PDown lead, IDown c atts =>
      leader_done (finish (fold_left (down_attempt c) atts s)) lead
  | _, _ => s
  end.

(* does the state accept this input (is it the answer the state is waiting for)? *)
Definition accepts (s : rstate) (i : rinput) : bool :=
  match r_pc s, i with
  | PStart, IStart _ _ _ _ => true
  | PJoining _, IJoin _ _ => true
  | PWaiting _ _, IWake gd c => gd || negb (cerr_eqb c CNone)
  | PRecheck _ _, IRecheck _ _ _ => true
  | PPostLoop _, ICtx _ => true
  | PDown _, IDown _ _ => true
  | _, _ => false
  end.

Definition rrun (s : rstate) (ins : list rinput) : rstate := fold_left rstep ins s.

Definition is_end (s : rstate) : bool := match r_pc s with PEnd _ => true | _ => false end.

(* ------------------------------------------------------------------ *)
(** * 4. The world: wait group + store + requests on a virtual clock (milliseconds) *)

Inductive hold := HNone | HUntilRelease | HUntilCtx.

Record fent := mk_fent { f_streak : N; f_retry : N }.

Record preq := mk_preq {
  q_name : N;              (* question id *)
  q_internal : bool;
  q_deadline : N;          (* absolute instant of the request deadline *)
  q_hold : hold;           (* what the scripted downstream waits for before writing *)
  q_atts : list dattempt;  (* what it then writes *)
  q_arrived : bool;
  q_ctx : cerr;
  q_released : bool;
  q_called : bool;
  q_st : rstate }.

Record world := mk_world {
  now : N;
  wwg : wg;
  born : list N;                 (* creation instant per generation *)
  st_pos : list N;               (* questions with a positive entry *)
  st_fq : list (N * fent);       (* exact RFC 9520 failure state per question *)
  st_fz : option fent;           (* failure state of the one zone all questions live under *)
  reqs : list preq;
  calls : N }.

Definition failure_initial_ms : N := Z.to_N (failure_initial_ttl / 1000000).
Definition failure_max_ms : N := Z.to_N (failure_max_ttl / 1000000).
Definition wait_bound_ms : N := Z.to_N (cache_wait_bound / 1000000).

(* FailureCache.backoff *)
Fixpoint backoff_loop (fuel : nat) (generation streak ttl : N) : N :=
  match fuel with
  | O => ttl
  | S f =>
      if (generation <? streak)%N && (ttl <? failure_max_ms)%N then
        if (failure_max_ms / 2 <? ttl)%N then failure_max_ms
        else backoff_loop f (generation + 1)%N streak (ttl * 2)%N
      else ttl
  end.
Definition backoff (streak : N) : N :=
  let ttl := backoff_loop 64 1 streak failure_initial_ms in
  if (failure_max_ms <? ttl)%N then failure_max_ms else ttl.

(* FailureCache.record *)
Definition record_fent (t : N) (cur : option fent) : fent :=
  match cur with
  | None => mk_fent 1 (t + failure_initial_ms)
  | Some e =>
      if (t <? f_retry e)%N then e
      else
        let st := if (failure_max_ms <=? t - f_retry e)%N then 1%N else (f_streak e + 1)%N in
        mk_fent st (t + backoff st)
  end.

Fixpoint fq_get (m : list (N * fent)) (n : N) : option fent :=
  match m with
  | [] => None
  | (k, e) :: r => if (k =? n)%N then Some e else fq_get r n
  end.
Fixpoint fq_del (m : list (N * fent)) (n : N) : list (N * fent) :=
  match m with
  | [] => []
  | (k, e) :: r => if (k =? n)%N then fq_del r n else (k, e) :: fq_del r n
  end.
Definition fq_set (m : list (N * fent)) (n : N) (e : fent) := (n, e) :: fq_del m n.

Definition memN (n : N) (l : list N) : bool := existsb (N.eqb n) l.

Definition fent_active (t : N) (e : option fent) : bool :=
  match e with Some x => (t <? f_retry x)%N | None => false end.
Definition fent_expired (t : N) (e : option fent) : bool :=
  match e with Some x => negb (t <? f_retry x)%N | None => false end.

(* checkCache, then LookupFailure (exact, then the zone) *)
Definition probe_store (w : world) (n : N) : probe_res :=
  if memN n (st_pos w) then PrHit
  else if fent_active (now w) (fq_get (st_fq w) n) || fent_active (now w) (st_fz w) then PrFailure
  else PrMiss.

Definition qkey (n : N) : N := n.
Definition exact_retry_key (n : N) : N := (2000 + n)%N.
Definition zone_retry_key : N := 3000%N.

(* FailureCache.RetryKey *)
Definition retry_key (w : world) (n : N) : option N :=
  if fent_active (now w) (fq_get (st_fq w) n) then None
  else if fent_active (now w) (st_fz w) then None
  else if fent_expired (now w) (st_fz w) then Some zone_retry_key
  else if fent_expired (now w) (fq_get (st_fq w) n) then Some (exact_retry_key n)
  else None.

Definition set_req (w : world) (i : nat) (f : preq -> preq) : world :=
  mk_world (now w) (wwg w) (born w) (st_pos w) (st_fq w) (st_fz w) (upd (reqs w) i f) (calls w).
Definition set_st (q : preq) (s : rstate) : preq :=
  mk_preq (q_name q) (q_internal q) (q_deadline q) (q_hold q) (q_atts q) (q_arrived q) (q_ctx q)
          (q_released q) (q_called q) s.
Definition set_ctx (c : cerr) (q : preq) : preq :=
  mk_preq (q_name q) (q_internal q) (q_deadline q) (q_hold q) (q_atts q) (q_arrived q)
          (match q_ctx q with CNone => c | x => x end) (q_released q) (q_called q) (q_st q).
Definition set_arrived (t : N) (q : preq) : preq :=
  mk_preq (q_name q) (q_internal q) (q_deadline q) (q_hold q) (q_atts q) true
          (match q_ctx q with CNone => if (q_deadline q <=? t)%N then CDeadline else CNone | x => x end)
          (q_released q) (q_called q) (q_st q).
Definition set_released (q : preq) : preq :=
  mk_preq (q_name q) (q_internal q) (q_deadline q) (q_hold q) (q_atts q) (q_arrived q) (q_ctx q)
          true (q_called q) (q_st q).
Definition set_called (q : preq) : preq :=
  mk_preq (q_name q) (q_internal q) (q_deadline q) (q_hold q) (q_atts q) (q_arrived q) (q_ctx q)
          (q_released q) true (q_st q).

(* apply one wait-group operation in the world, remembering when a generation was created *)
Definition world_wg (w : world) (o : wgop) : world * wgres :=
  let '(s', r) := wg_step (wwg w) o in
  let grown := (length (gens s') - length (gens (wwg w)))%nat in
  (mk_world (now w) s' (born w ++ repeat (now w) grown) (st_pos w) (st_fq w) (st_fz w) (reqs w) (calls w), r).

(* store effects of the downstream attempts (see down_attempt) *)
Definition store_attempt (n : N) (c : cerr) (w : world) (a : dattempt) : world :=
  if (d_code a =? 2)%N then
    if negb (d_local a) && cerr_eqb c CNone
    then mk_world (now w) (wwg w) (born w) (st_pos w)
                  (fq_set (st_fq w) n (record_fent (now w) (fq_get (st_fq w) n))) (st_fz w) (reqs w) (calls w)
    else w
  else
    (* a useful answer: stored; resetMatchingFailures deletes the exact and the zone history *)
    mk_world (now w) (wwg w) (born w) (if memN n (st_pos w) then st_pos w else n :: st_pos w)
             (fq_del (st_fq w) n) None (reqs w) (calls w).

Definition lead_of (p : rpc) : option (N * nat) :=
  match p with PPostLoop l | PDown l => l | _ => None end.

(* after a step: if a leader just ended, its deferred DoneGeneration runs *)
Definition after_step (w : world) (before : rpc) (i : nat) (s' : rstate) : world :=
  let w1 := set_req w i (fun q => set_st q s') in
  match r_pc s', lead_of before with
  | PEnd _, Some (k, g) => fst (world_wg w1 (ODoneGen k (Some g)))
  | _, _ => w1
  end.

(* one micro-step of request i, if it can move *)
Definition req_step (w : world) (i : nat) : option world :=
  match nth_error (reqs w) i with
  | None => None
  | Some q =>
      if negb (q_arrived q) then None else
      let s := q_st q in
      match r_pc s with
      | PStart =>
          let s' := rstep s (IStart (probe_store w (q_name q)) (retry_key w (q_name q)) (q_internal q) (qkey (q_name q))) in
          Some (after_step w PStart i s')
      | PJoining l =>
          let '(w1, r) := world_wg w (join_op l) in
          match r with
          | RGen g leader => Some (after_step w1 (r_pc s) i (rstep s (IJoin g leader)))
          | _ => None
          end
      | PWaiting l g =>
          let gd := negb (gstatus_eqb (gstat (wwg w) g) GLive) in
          if gd || negb (cerr_eqb (q_ctx q) CNone)
          then Some (after_step w (r_pc s) i (rstep s (IWake gd (q_ctx q))))
          else None
      | PRecheck l g =>
          Some (after_step w (r_pc s) i
                  (rstep s (IRecheck (probe_store w (q_name q))
                                     (gstatus_eqb (gstat (wwg w) g) GExpired)
                                     (retry_key w (q_name q)))))
      | PPostLoop lead => Some (after_step w (r_pc s) i (rstep s (ICtx (q_ctx q))))
      | PDown lead =>
          if negb (q_called q)
          then Some (mk_world (now w) (wwg w) (born w) (st_pos w) (st_fq w) (st_fz w)
                              (upd (reqs w) i set_called) (calls w + 1)%N)
          else
            let ready := match q_hold q with
                         | HNone => true
                         | HUntilRelease => q_released q
                         | HUntilCtx => negb (cerr_eqb (q_ctx q) CNone)
                         end in
            if ready then
              let w1 := fold_left (store_attempt (q_name q) (q_ctx q)) (q_atts q) w in
              Some (after_step w1 (r_pc s) i (rstep s (IDown (q_ctx q) (q_atts q))))
            else None
      | PEnd _ => None
      end
  end.

Fixpoint first_runnable (w : world) (i n : nat) : option world :=
  match n with
  | O => None
  | S m => match req_step w i with Some w' => Some w' | None => first_runnable w (S i) m end
  end.

Fixpoint quiesce (fuel : nat) (w : world) : world :=
  match fuel with
  | O => w
  | S f => match first_runnable w 0 (length (reqs w)) with Some w' => quiesce f w' | None => w end
  end.

Definition qfuel (w : world) : nat := (40 * S (length (reqs w)))%nat.

(* timers *)
Definition req_timer (q : preq) : option N :=
  if q_arrived q && cerr_eqb (q_ctx q) CNone && negb (is_end (q_st q)) then Some (q_deadline q) else None.
Fixpoint gen_timers (gs : list gen) (bs : list N) : list N :=
  match gs, bs with
  | g :: gr, b :: br => (if gstatus_eqb (g_status g) GLive then [(b + wait_bound_ms)%N] else []) ++ gen_timers gr br
  | _, _ => []
  end.
Definition all_timers (w : world) : list N :=
  gen_timers (gens (wwg w)) (born w) ++
  flat_map (fun q => match req_timer q with Some t => [t] | None => [] end) (reqs w).
Definition next_timer (w : world) (upto : N) : option N :=
  fold_left (fun acc t => if (now w <? t)%N && (t <=? upto)%N
                          then match acc with Some a => Some (N.min a t) | None => Some t end
                          else acc) (all_timers w) None.

Fixpoint expire_gens (t : N) (gs : list gen) (bs : list N) : list gen :=
  match gs, bs with
  | g :: gr, b :: br => (if (b + wait_bound_ms <=? t)%N then expire_gen g else g) :: expire_gens t gr br
  | gs', _ => gs'
  end.

(* fire everything due at instant t ... *)
Definition fire_only (w : world) (t : N) : world :=
  let wg' := mk_wg (groups (wwg w)) (expire_gens t (gens (wwg w)) (born w)) in
  let rs := map (fun q => if q_arrived q && (q_deadline q <=? t)%N then set_ctx CDeadline q else q) (reqs w) in
  mk_world t wg' (born w) (st_pos w) (st_fq w) (st_fz w) rs (calls w).
(* ... then let the requests run *)
Definition fire_at (w : world) (t : N) : world :=
  let w' := fire_only w t in quiesce (qfuel w') w'.

Fixpoint advance (fuel : nat) (w : world) (t : N) : world :=
  match fuel with
  | O => w
  | S f =>
      match next_timer w t with
      | Some t1 => advance f (fire_at w t1) t
      | None => mk_world t (wwg w) (born w) (st_pos w) (st_fq w) (st_fz w) (reqs w) (calls w)
      end
  end.

Inductive wevent :=
| EArrive (i : nat) | ECancel (i : nat) | ERelease (i : nat) | EAdvance (t : N)
| EZoneFail.           (* set-up: Store.RecordZoneFailure for the zone *)

Definition wevent_step (w : world) (e : wevent) : world :=
  match e with
  | EArrive i => let w' := set_req w i (set_arrived (now w)) in quiesce (qfuel w') w'
  | ECancel i => let w' := set_req w i (set_ctx CCanceled) in quiesce (qfuel w') w'
  | ERelease i => let w' := set_req w i set_released in quiesce (qfuel w') w'
  | EAdvance t => advance 64 w t
  | EZoneFail =>
      mk_world (now w) (wwg w) (born w) (st_pos w) (st_fq w) (Some (record_fent (now w) (st_fz w))) (reqs w) (calls w)
  end.

Definition new_preq (name : N) (internal : bool) (deadline : N) (h : hold) (atts : list dattempt) : preq :=
  mk_preq name internal deadline h atts false CNone false false (rinit internal).
Definition world0 (rs : list preq) : world := mk_world 0 wg_empty [] [] [] None rs 0.

(* what the driver observes per request: transport writes, reply class, reached downstream *)
Definition reply_class (r : reply) : N :=
  match r with
  | RpCacheHit => 1 | RpDown c => (if (c =? 2)%N then 2 else 1) | RpTimeout => 3 | RpLimit => 4 | RpFailureHit => 5
  end%N.
Definition observe (q : preq) : N * N * bool :=
  (N.of_nat (length (r_emits (q_st q))),
   match r_emits (q_st q) with r :: _ => reply_class r | [] => 0%N end,
   q_called q).


(* ------------------------------------------------------------------ *)
(** * 6. The UDP engine's dispatch in front of the world (server/udp_engine.go, strict.go)

   A datagram takes a slab against the admission cap (shed when the cap is reached), is
   handed to an idle pool worker, else parked in the bounded ready queue, else served on an
   overflow goroutine.  Whoever starts serving it first checks the budget anchored at the
   read time (ServeRaw / ServeRawInline / ServeRawReplay / serveMsgBy: expired => return,
   no reply).  A pool worker is busy until the request it serves ends - a follower waiting
   in the dedup loop keeps its worker.  Every terminal returns the slab. *)

Inductive place := PlNone | PlQueued | PlWorker | PlOverflow | PlOwn | PlGone.
Definition place_eqb (a b : place) : bool :=
  match a, b with
  | PlNone, PlNone | PlQueued, PlQueued | PlWorker, PlWorker | PlOverflow, PlOverflow
  | PlOwn, PlOwn | PlGone, PlGone => true
  | _, _ => false
  end.

Record engine := mk_engine {
  e_free : nat;            (* idle pool workers *)
  e_queue : list nat;      (* ready queue, FIFO *)
  e_qcap : nat;
  e_leased : nat;
  e_cap : nat;
  e_place : list place }.

(* how request i reached the server: 0 = ServeMsg on the caller's goroutine (DoH/DoQ-like),
   1 = datagram through the ring, 2 = datagram through the reader's inline pass first *)
Record sworld := mk_sworld { s_w : world; s_e : engine; s_path : list N }.

Definition set_place (e : engine) (i : nat) (p : place) : engine :=
  mk_engine (e_free e) (e_queue e) (e_qcap e) (e_leased e) (e_cap e) (upd (e_place e) i (fun _ => p)).
Definition place_of (e : engine) (i : nat) : place := nth i (e_place e) PlNone.
Definition path_of (s : sworld) (i : nat) : N := nth i (s_path s) 0%N.

Definition req_deadline (w : world) (i : nat) : N :=
  match nth_error (reqs w) i with Some q => q_deadline q | None => 0%N end.
Definition req_ended (w : world) (i : nat) : bool :=
  match nth_error (reqs w) i with Some q => is_end (q_st q) | None => true end.

(* the first statement of every serve entry: an exhausted budget is dropped in silence *)
Definition start_serving (s : sworld) (i : nat) (p : place) : sworld :=
  let w := s_w s in
  if (req_deadline w i <=? now w)%N
  then
    (* dropped: the slab goes back, a pool worker is free again *)
    let e := s_e s in
    let e1 := mk_engine (match p with PlWorker => S (e_free e) | _ => e_free e end) (e_queue e) (e_qcap e)
                        (match p with PlOwn => e_leased e | _ => pred (e_leased e) end) (e_cap e) (e_place e) in
    mk_sworld w (set_place e1 i PlGone) (s_path s)
  else mk_sworld (set_req w i (set_arrived (now w))) (set_place (s_e s) i p) (s_path s).

Definition dispatch (s : sworld) (i : nat) : sworld :=
  let e := s_e s in
  match e_free e with
  | S f => start_serving (mk_sworld (s_w s) (mk_engine f (e_queue e) (e_qcap e) (e_leased e) (e_cap e) (e_place e)) (s_path s)) i PlWorker
  | O =>
      if (length (e_queue e) <? e_qcap e)%nat
      then mk_sworld (s_w s) (set_place (mk_engine 0 (e_queue e ++ [i]) (e_qcap e) (e_leased e) (e_cap e) (e_place e)) i PlQueued) (s_path s)
      else start_serving s i PlOverflow
  end.

Definition s_arrive (s : sworld) (i : nat) : sworld :=
  let e := s_e s in
  if (path_of s i =? 0)%N then start_serving s i PlOwn
  else if (e_cap e <=? e_leased e)%nat then mk_sworld (s_w s) (set_place e i PlGone) (s_path s)   (* shed *)
  else
    let s1 := mk_sworld (s_w s) (mk_engine (e_free e) (e_queue e) (e_qcap e) (S (e_leased e)) (e_cap e) (e_place e)) (s_path s) in
    if (path_of s i =? 2)%N && (req_deadline (s_w s) i <=? now (s_w s))%N
    then (* the inline pass already finds the budget gone *)
      mk_sworld (s_w s) (set_place e i PlGone) (s_path s)
    else dispatch s1 i.

(* requests that ended give their worker / slab back; a freed worker takes the queue head *)
Fixpoint reap (idx : list nat) (s : sworld) : sworld :=
  match idx with
  | [] => s
  | i :: r =>
      let e := s_e s in
      let s' :=
        if req_ended (s_w s) i then
          match place_of e i with
          | PlWorker => mk_sworld (s_w s) (set_place (mk_engine (S (e_free e)) (e_queue e) (e_qcap e) (pred (e_leased e)) (e_cap e) (e_place e)) i PlGone) (s_path s)
          | PlOverflow => mk_sworld (s_w s) (set_place (mk_engine (e_free e) (e_queue e) (e_qcap e) (pred (e_leased e)) (e_cap e) (e_place e)) i PlGone) (s_path s)
          | PlOwn => mk_sworld (s_w s) (set_place e i PlGone) (s_path s)
          | _ => s
          end
        else s in
      reap r s'
  end.

Definition take_queued (s : sworld) : option sworld :=
  let e := s_e s in
  match e_free e, e_queue e with
  | S f, j :: rest =>
      Some (start_serving (mk_sworld (s_w s) (mk_engine f rest (e_qcap e) (e_leased e) (e_cap e) (e_place e)) (s_path s)) j PlWorker)
  | _, _ => None
  end.

Fixpoint s_settle (fuel : nat) (s : sworld) : sworld :=
  match fuel with
  | O => s
  | S f =>
      let w1 := quiesce (qfuel (s_w s)) (s_w s) in
      let s1 := reap (seq 0 (length (reqs w1))) (mk_sworld w1 (s_e s) (s_path s)) in
      match take_queued s1 with
      | Some s2 => s_settle f s2
      | None => s1
      end
  end.
Definition sfuel (s : sworld) : nat := (2 * S (length (reqs (s_w s))))%nat.

Fixpoint s_advance (fuel : nat) (s : sworld) (t : N) : sworld :=
  match fuel with
  | O => s
  | S f =>
      match next_timer (s_w s) t with
      | Some t1 =>
          let s1 := mk_sworld (fire_only (s_w s) t1) (s_e s) (s_path s) in
          s_advance f (s_settle (sfuel s1) s1) t
      | None =>
          let w := s_w s in
          mk_sworld (mk_world t (wwg w) (born w) (st_pos w) (st_fq w) (st_fz w) (reqs w) (calls w)) (s_e s) (s_path s)
      end
  end.

Definition sevent_step (s : sworld) (e : wevent) : sworld :=
  match e with
  | EArrive i => let s1 := s_arrive s i in s_settle (sfuel s1) s1
  | ECancel i => let s1 := mk_sworld (set_req (s_w s) i (set_ctx CCanceled)) (s_e s) (s_path s) in s_settle (sfuel s1) s1
  | ERelease i => let s1 := mk_sworld (set_req (s_w s) i set_released) (s_e s) (s_path s) in s_settle (sfuel s1) s1
  | EAdvance t => s_advance 64 s t
  | EZoneFail => s
  end.

Definition sworld0 (rs : list preq) (paths : list N) (workers qcap cap : nat) : sworld :=
  mk_sworld (world0 rs) (mk_engine workers [] qcap 0 cap (repeat PlNone (length rs))) paths.

(* ------------------------------------------------------------------ *)
(** * 5. LazyDeadline (internal/contextutil/lazy_deadline.go) and EffectiveError

   The request context: the deadline is visible at once, the timer and the parent
   registration exist only after the first Done() (or the first Err() that finds the context
   ended).  [lz_term] is the terminal cause once pinned; [lz_mat] says the standard-library
   deadline context exists (from then on the runtime pins the cause the moment it happens);
   before that the cause is decided when somebody looks, parent cancellation first. *)
Record lz := mk_lz { lz_term : option cerr; lz_mat : bool; lz_parent : bool; lz_now : Z; lz_deadline : Z }.
Inductive lzop := LErr | LDone | LCancel | LParentCancel | LSleep (d : Z) | LEffective.

Definition lz_cause (l : lz) : cerr :=
  if lz_parent l then CCanceled else if (lz_now l <? lz_deadline l)%Z then CNone else CDeadline.
Definition lz_pin (l : lz) : lz :=
  mk_lz (match lz_cause l with CNone => None | c => Some c end) true (lz_parent l) (lz_now l) (lz_deadline l).
(* materialize(): nothing to do once a local terminal state was recorded *)
Definition lz_materialize (l : lz) : lz :=
  if lz_mat l then l else match lz_term l with Some _ => l | None => lz_pin l end.
Definition cerr_code (c : cerr) : N := match c with CNone => 0 | CDeadline => 1 | CCanceled => 2 end%N.
Definition term_code (l : lz) : cerr := match lz_term l with Some c => c | None => CNone end.

Definition lz_err (l : lz) : lz * cerr :=
  if lz_mat l then (l, term_code l)
  else match lz_term l with
       | Some c => (l, c)
       | None => match lz_cause l with
                 | CNone => (l, CNone)
                 | _ => let l' := lz_pin l in (l', term_code l')
                 end
       end.

Definition lz_step (l : lz) (o : lzop) : lz * N :=
  match o with
  | LErr => let '(l', c) := lz_err l in (l', cerr_code c)
  | LDone => let l' := lz_materialize l in (l', match lz_term l' with Some _ => 1 | None => 0 end%N)
  | LCancel =>
      if lz_mat l then (mk_lz (match lz_term l with None => Some CCanceled | t => t end) true (lz_parent l) (lz_now l) (lz_deadline l), 0%N)
      else match lz_term l with
           | Some _ => (l, 0%N)
           | None =>
               if lz_parent l then (lz_pin l, 0%N)
               else (mk_lz (Some (if (lz_now l <? lz_deadline l)%Z then CCanceled else CDeadline)) false false (lz_now l) (lz_deadline l), 0%N)
           end
  | LParentCancel =>
      (mk_lz (if lz_mat l then match lz_term l with None => Some CCanceled | t => t end else lz_term l)
             (lz_mat l) true (lz_now l) (lz_deadline l), 0%N)
  | LSleep d =>
      let n := (lz_now l + d)%Z in
      (mk_lz (if lz_mat l then match lz_term l with
                               | None => if (n <? lz_deadline l)%Z then None else Some CDeadline
                               | t => t end
              else lz_term l)
             (lz_mat l) (lz_parent l) n (lz_deadline l), 0%N)
  | LEffective =>
      let '(l', c) := lz_err l in
      (l', cerr_code (match c with
                      | CNone => if (lz_now l' <? lz_deadline l')%Z then CNone else CDeadline
                      | x => x end))
  end.

Fixpoint lz_run (l : lz) (ops : list lzop) : lz * list N :=
  match ops with
  | [] => (l, [])
  | o :: r => let '(l1, x) := lz_step l o in let '(l2, xs) := lz_run l1 r in (l2, x :: xs)
  end.
Definition lz_init (deadline : Z) : lz := mk_lz None false false 0 deadline.
