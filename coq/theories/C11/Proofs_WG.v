(* C11 — proofs about the wait group (Model part 2): every schedule of the modelled atomic
   steps (each Go method runs under wg.mu / previous.nextMu, so one method = one step). *)
From Sdns Require Import Common.Base Gen.C11 C11.Model.

(* ---------- lists ---------- *)
Lemma upd_length {A} (l : list A) i f : length (upd l i f) = length l.
Proof. revert i; induction l as [|x l IH]; intros [|i]; cbn; auto. Qed.

Lemma nth_error_upd {A} (l : list A) i f j :
  nth_error (upd l i f) j = if (j =? i)%nat then option_map f (nth_error l j) else nth_error l j.
Proof.
  revert i j; induction l as [|x l IH]; intros [|i] [|j]; cbn; auto;
    try (destruct (j =? i)%nat; reflexivity); try apply IH.
Qed.

Lemma lookup_remove m k k' :
  lookup (remove m k) k' = if (k =? k')%N then None else lookup m k'.
Proof.
  induction m as [|[a v] m IH]; cbn.
  - now destruct (k =? k')%N.
  - destruct (a =? k)%N eqn:E1.
    + apply N.eqb_eq in E1; subst a. rewrite IH. destruct (k =? k')%N eqn:E2; auto.
    + cbn. destruct (a =? k')%N eqn:E2.
      * apply N.eqb_eq in E2; subst a. rewrite N.eqb_sym in E1. now rewrite E1.
      * exact IH.
Qed.

Lemma lookup_setk m k v k' :
  lookup (setk m k v) k' = if (k =? k')%N then Some v else lookup m k'.
Proof.
  unfold setk; cbn. destruct (k =? k')%N eqn:E; auto. rewrite lookup_remove. now rewrite E.
Qed.

(* ---------- generations only move forward ---------- *)
Definition gen_le (a b : gen) : Prop :=
  (g_status a <> GLive -> g_status b = g_status a) /\
  (forall n, g_next a = Some n -> g_next b = Some n).
Definition wg_le (s t : wg) : Prop :=
  (length (gens s) <= length (gens t))%nat /\
  forall j a, nth_error (gens s) j = Some a -> exists b, nth_error (gens t) j = Some b /\ gen_le a b.

Lemma gen_le_refl a : gen_le a a.
Proof. split; auto. Qed.
Lemma gen_le_trans a b c : gen_le a b -> gen_le b c -> gen_le a c.
Proof.
  intros [H1 H2] [H3 H4]. split.
  - intros Hn. rewrite <- (H1 Hn). apply H3. now rewrite (H1 Hn).
  - intros n Hn. apply H4, H2, Hn.
Qed.
Lemma wg_le_refl s : wg_le s s.
Proof. split; [lia|]. intros j a H. exists a. split; [exact H|apply gen_le_refl]. Qed.
Lemma wg_le_trans s t u : wg_le s t -> wg_le t u -> wg_le s u.
Proof.
  intros [L1 H1] [L2 H2]. split; [lia|]. intros j a Ha.
  destruct (H1 j a Ha) as (b & Hb & Hab). destruct (H2 j b Hb) as (c & Hc & Hbc).
  exists c. split; [exact Hc|]. eapply gen_le_trans; eauto.
Qed.

Lemma gen_le_cancel a : gen_le a (cancel_gen a).
Proof. unfold cancel_gen. destruct (g_status a) eqn:E; split; cbn; auto; try congruence. Qed.
Lemma gen_le_expire a : gen_le a (expire_gen a).
Proof. unfold expire_gen. destruct (g_status a) eqn:E; split; cbn; auto; try congruence. Qed.
Lemma gen_le_dups a d : gen_le a (add_dups d a).
Proof. split; cbn; auto. Qed.
Lemma gen_le_next a n : g_next a = None -> gen_le a (set_next_gen n a).
Proof. intros H. split; cbn; auto. intros m Hm. congruence. Qed.

Lemma upd_le (l : list gen) i f :
  (forall a, nth_error l i = Some a -> gen_le a (f a)) ->
  forall j a, nth_error l j = Some a -> exists b, nth_error (upd l i f) j = Some b /\ gen_le a b.
Proof.
  intros Hf j a Ha. rewrite nth_error_upd. destruct (Nat.eqb_spec j i).
  - subst. rewrite Ha. cbn. eexists; split; [reflexivity|]. now apply Hf.
  - exists a. split; [exact Ha|apply gen_le_refl].
Qed.

Lemma wg_le_upd s i f gr :
  (forall a, nth_error (gens s) i = Some a -> gen_le a (f a)) ->
  wg_le s (mk_wg gr (upd (gens s) i f)).
Proof.
  intros Hf. split; cbn; [rewrite upd_length; lia|]. now apply upd_le.
Qed.

Lemma wg_le_create s k : wg_le s (fst (create s k)).
Proof.
  unfold create; cbn. split; cbn; [rewrite app_length; cbn; lia|].
  intros j a Ha. exists a. split; [|apply gen_le_refl].
  rewrite nth_error_app1; auto. apply nth_error_Some. congruence.
Qed.

Lemma create_len s k : length (gens (fst (create s k))) = S (length (gens s)) /\ snd (create s k) = length (gens s).
Proof. unfold create; cbn. rewrite app_length; cbn. split; lia. Qed.

Lemma regroup_create_le s k p gp :
  nth_error (gens s) p = Some gp -> g_next gp = None -> wg_le s (fst (regroup_create s k p)).
Proof.
  intros Hp Hn. unfold regroup_create.
  destruct (create s k) as [s' n] eqn:E. cbn.
  pose proof (wg_le_create s k) as Hc. rewrite E in Hc. cbn in Hc.
  eapply wg_le_trans; [exact Hc|].
  apply wg_le_upd. intros a Ha. apply gen_le_next.
  unfold create in E. inversion E; subst. cbn in Ha.
  rewrite nth_error_app1 in Ha by (apply nth_error_Some; congruence).
  congruence.
Qed.

Lemma wg_join_le s k : wg_le s (fst (wg_join s k)).
Proof.
  unfold wg_join. destruct (lookup (groups s) k); [apply wg_le_refl|].
  pose proof (wg_le_create s k) as H. destruct (create s k) as [s' n]. cbn in *. exact H.
Qed.

Lemma wg_regroup_le s k prev : wg_le s (fst (wg_regroup s k prev)).
Proof.
  unfold wg_regroup. destruct prev as [p|]; [|apply wg_join_le].
  destruct (nth_error (gens s) p) as [gp|] eqn:Ep; [|apply wg_le_refl].
  assert (K : g_next gp = None ->
    wg_le s (fst (match lookup (groups s) k with
                  | Some c => if (c =? p)%nat then regroup_create s k p
                              else (mk_wg (groups s) (upd (gens s) p (set_next_gen c)), RGen c false)
                  | None => regroup_create s k p
                  end))).
  { intros En. destruct (lookup (groups s) k) as [c|].
    - destruct (c =? p)%nat; [eapply regroup_create_le; eauto|].
      cbn. apply wg_le_upd. intros a Ha. apply gen_le_next. congruence.
    - eapply regroup_create_le; eauto. }
  destruct (g_status gp); try apply wg_le_refl;
    (destruct (g_next gp) eqn:En; [apply wg_le_refl|apply K; reflexivity]).
Qed.

Lemma wg_donegen_le s k g : wg_le s (wg_donegen s k g).
Proof.
  unfold wg_donegen. destruct g as [i|]; [|apply wg_le_refl].
  destruct (nth_error (gens s) i) as [x|] eqn:Ei; [|apply wg_le_refl].
  destruct (gen_done_threshold <? g_dups x)%N.
  - apply wg_le_upd. intros; apply gen_le_dups.
  - destruct (lookup (groups s) k) as [c|]; [destruct (c =? i)%nat|];
      apply wg_le_upd; intros; apply gen_le_cancel.
Qed.

Lemma wg_step_le s o : wg_le s (fst (wg_step s o)).
Proof.
  destruct o; unfold wg_step.
  - apply wg_join_le.
  - apply wg_regroup_le.
  - apply wg_donegen_le.
  - apply wg_le_upd. intros; apply gen_le_expire.
  - destruct (lookup (groups s) k) as [g|]; cbn [fst].
    + apply wg_le_upd. intros; apply gen_le_dups.
    + apply wg_le_create.
  - destruct (lookup (groups s) k) as [g|]; [|apply wg_le_refl].
    destruct (nth_error (gens s) g) as [x|] eqn:Eg.
    + destruct (legacy_done_threshold <? g_dups x)%N; cbn [fst]; apply wg_le_upd; intros;
        [apply gen_le_dups|apply gen_le_cancel].
    + cbn [fst]. split; cbn; [lia|]. intros j a Ha. exists a; split; auto using gen_le_refl.
  - destruct (lookup (groups s) k); apply wg_le_refl.
  - destruct (lookup (groups s) k); apply wg_le_refl.
Qed.

Lemma wg_run_le ops : forall s, wg_le s (fst (wg_run s ops)).
Proof.
  induction ops as [|o ops IH]; intros s; cbn; [apply wg_le_refl|].
  pose proof (wg_step_le s o) as H1. destruct (wg_step s o) as [s1 x]. cbn in H1.
  specialize (IH s1). destruct (wg_run s1 ops) as [s2 xs]. cbn in *.
  eapply wg_le_trans; eauto.
Qed.

Lemma gstat_le s t g : wg_le s t -> (g < length (gens s))%nat -> gstat s g <> GLive -> gstat t g = gstat s g.
Proof.
  intros [_ H] Hg Hs. unfold gstat in *.
  destruct (nth_error (gens s) g) as [a|] eqn:Ea.
  - destruct (H g a Ea) as (b & Hb & [Hst _]). rewrite Hb. now apply Hst.
  - apply nth_error_None in Ea. lia.
Qed.

(* ---------- one leader per generation ---------- *)
Definition leaders (rs : list wgres) : list nat :=
  flat_map (fun r => match r with RGen g true => [g] | _ => [] end) rs.

Lemma step_leader s o s1 g :
  wg_step s o = (s1, RGen g true) -> g = length (gens s) /\ length (gens s1) = S (length (gens s)).
Proof.
  destruct o; cbn; intros H.
  - unfold wg_join in H. destruct (lookup (groups s) k); [inversion H|].
    pose proof (create_len s k) as [L1 L2]. destruct (create s k) as [s' n]. cbn in *. inversion H; subst. auto.
  - unfold wg_regroup in H. destruct prev as [p|].
    + destruct (nth_error (gens s) p) as [gp|]; [|inversion H].
      assert (RC : regroup_create s k p = (s1, RGen g true) ->
                   g = length (gens s) /\ length (gens s1) = S (length (gens s))).
      { unfold regroup_create. pose proof (create_len s k) as [L1 L2].
        destruct (create s k) as [s' n]. cbn in *. intros E; inversion E; subst. cbn.
        rewrite upd_length. auto. }
      destruct (g_status gp); try (inversion H; fail);
        (destruct (g_next gp); [inversion H|]);
        (destruct (lookup (groups s) k) as [c|]; [destruct (c =? p)%nat; [auto|inversion H]|auto]).
    + unfold wg_join in H. destruct (lookup (groups s) k); [inversion H|].
      pose proof (create_len s k) as [L1 L2]. destruct (create s k) as [s' n]. cbn in *. inversion H; subst. auto.
  - inversion H.
  - inversion H.
  - destruct (lookup (groups s) k); inversion H.
  - destruct (lookup (groups s) k) as [g0|]; [|inversion H].
    destruct (nth_error (gens s) g0) as [x|]; [destruct (legacy_done_threshold <? g_dups x)%N|]; inversion H.
  - destruct (lookup (groups s) k); inversion H.
  - destruct (lookup (groups s) k); inversion H.
Qed.

Lemma one_leader_lemma ops : forall s,
  let r := wg_run s ops in
  NoDup (leaders (snd r)) /\
  forall g, In g (leaders (snd r)) -> (length (gens s) <= g < length (gens (fst r)))%nat.
Proof.
  induction ops as [|o ops IH]; intros s; cbn.
  - split; [constructor|]. intros g [].
  - destruct (wg_step s o) as [s1 x] eqn:E.
    specialize (IH s1). cbn in IH.
    pose proof (wg_step_le s o) as [Hlen _]. rewrite E in Hlen. cbn in Hlen.
    destruct (wg_run s1 ops) as [s2 xs] eqn:E2. cbn in *.
    destruct IH as [Hnd Hrange].
    destruct x as [g l|n|]; cbn; try (split; [exact Hnd|]; intros g' Hg'; specialize (Hrange g' Hg'); lia).
    destruct l; cbn; try (split; [exact Hnd|]; intros g' Hg'; specialize (Hrange g' Hg'); lia).
    destruct (step_leader s o s1 g E) as [Hg Hl]. split.
    + constructor; [|exact Hnd]. intros Hin. specialize (Hrange g Hin). lia.
    + intros g' [<-|Hg'].
      * pose proof (wg_run_le ops s1) as [Hl2 _]. rewrite E2 in Hl2. cbn in Hl2. lia.
      * specialize (Hrange g' Hg'). lia.
Qed.

(* ---------- followers are released ---------- *)
Lemma released_by_done s k g x :
  nth_error (gens s) g = Some x -> (g_dups x <= gen_done_threshold)%N ->
  gstat (wg_donegen s k (Some g)) g <> GLive.
Proof.
  intros Hg Hd. unfold wg_donegen. rewrite Hg.
  destruct (N.ltb_spec gen_done_threshold (g_dups x)); [lia|].
  assert (forall gr, gstat (mk_wg gr (upd (gens s) g cancel_gen)) g <> GLive) as K.
  { intros gr. unfold gstat; cbn. rewrite nth_error_upd, Nat.eqb_refl, Hg. cbn.
    unfold cancel_gen. destruct (g_status x) eqn:E; cbn; congruence. }
  destruct (lookup (groups s) k) as [c|]; [destruct (c =? g)%nat|]; apply K.
Qed.

Lemma released_by_timeout s g :
  (g < length (gens s))%nat -> gstat (fst (wg_step s (OExpire g))) g <> GLive.
Proof.
  intros Hg. cbn. unfold gstat; cbn. rewrite nth_error_upd, Nat.eqb_refl.
  destruct (nth_error (gens s) g) as [x|] eqn:E.
  - cbn. unfold expire_gen. destruct (g_status x) eqn:Es; cbn; congruence.
  - apply nth_error_None in E. lia.
Qed.

Lemma released_forever ops s g :
  (g < length (gens s))%nat -> gstat s g <> GLive -> gstat (fst (wg_run s ops)) g = gstat s g.
Proof. intros. apply gstat_le; auto. apply wg_run_le. Qed.

(* generation API only (no legacy Add): every generation keeps its initial count, so the
   leader's single DoneGeneration is the one that cancels *)
Definition gen_api (o : wgop) : bool := match o with OAdd _ => false | _ => true end.
Definition dups_initial (s : wg) : Prop := Forall (fun x => g_dups x = gen_initial_dups) (gens s).

Lemma gen_threshold_covers_initial : (gen_initial_dups <= gen_done_threshold)%N /\ (gen_initial_dups <= legacy_done_threshold)%N.
Proof. split; discriminate. Qed.

Lemma Forall_upd {A} (P : A -> Prop) l i f :
  Forall P l -> (forall a, P a -> P (f a)) -> Forall P (upd l i f).
Proof.
  intros H Hf. revert i. induction H; intros [|i]; cbn; constructor; auto.
Qed.

Lemma dups_create s k : dups_initial s -> dups_initial (fst (create s k)).
Proof. intros H. unfold dups_initial, create in *; cbn. apply Forall_app; split; auto. Qed.
Lemma dups_join s k : dups_initial s -> dups_initial (fst (wg_join s k)).
Proof.
  intros H. unfold wg_join. destruct (lookup (groups s) k); [exact H|].
  pose proof (dups_create s k H) as C. destruct (create s k) as [s' n]. cbn in *. exact C.
Qed.
Lemma dups_regroup_create s k p : dups_initial s -> dups_initial (fst (regroup_create s k p)).
Proof.
  intros H. unfold regroup_create. pose proof (dups_create s k H) as C.
  destruct (create s k) as [s' n]. cbn in *. unfold dups_initial in *. cbn. apply Forall_upd; auto.
Qed.
Lemma dups_regroup s k prev : dups_initial s -> dups_initial (fst (wg_regroup s k prev)).
Proof.
  intros H. unfold wg_regroup. destruct prev as [p|]; [|now apply dups_join].
  destruct (nth_error (gens s) p) as [gp|]; [|exact H].
  assert (K : dups_initial (fst (match lookup (groups s) k with
                  | Some c => if (c =? p)%nat then regroup_create s k p
                              else (mk_wg (groups s) (upd (gens s) p (set_next_gen c)), RGen c false)
                  | None => regroup_create s k p
                  end))).
  { destruct (lookup (groups s) k) as [c|]; [destruct (c =? p)%nat|]; try now apply dups_regroup_create.
    cbn. unfold dups_initial in *. cbn. apply Forall_upd; auto. }
  destruct (g_status gp); try exact H; (destruct (g_next gp); [exact H|exact K]).
Qed.

Lemma dups_initial_step s o : gen_api o = true -> dups_initial s -> dups_initial (fst (wg_step s o)).
Proof.
  intros Ho H.
  destruct gen_threshold_covers_initial as [T1 T2].
  destruct o; try discriminate; unfold wg_step.
  - now apply dups_join.
  - now apply dups_regroup.
  - cbn [fst]. unfold wg_donegen. destruct g as [i|]; auto.
    destruct (nth_error (gens s) i) as [x|] eqn:Ei; auto.
    assert (Hx : g_dups x = gen_initial_dups).
    { unfold dups_initial in H. rewrite Forall_forall in H. apply H. eapply nth_error_In; eauto. }
    destruct (N.ltb_spec gen_done_threshold (g_dups x)); [lia|].
    assert (K : forall gr, dups_initial (mk_wg gr (upd (gens s) i cancel_gen))).
    { intros gr. unfold dups_initial in *. cbn. apply Forall_upd; auto.
      intros a Ha; unfold cancel_gen; destruct (g_status a); auto. }
    destruct (lookup (groups s) k) as [c|]; [destruct (c =? i)%nat|]; apply K.
  - cbn [fst]. unfold dups_initial in *. cbn. apply Forall_upd; auto.
    intros a Ha; unfold expire_gen; destruct (g_status a); auto.
  - destruct (lookup (groups s) k) as [g|]; [|exact H].
    destruct (nth_error (gens s) g) as [x|] eqn:Eg.
    + assert (Hx : g_dups x = gen_initial_dups).
      { unfold dups_initial in H. rewrite Forall_forall in H. apply H. eapply nth_error_In; eauto. }
      destruct (N.ltb_spec legacy_done_threshold (g_dups x)); [lia|]. cbn [fst].
      unfold dups_initial in *. cbn. apply Forall_upd; auto.
      intros a Ha; unfold cancel_gen; destruct (g_status a); auto.
    + exact H.
  - destruct (lookup (groups s) k); exact H.
  - destruct (lookup (groups s) k); exact H.
Qed.

Lemma dups_initial_run ops : forall s,
  forallb gen_api ops = true -> dups_initial s -> dups_initial (fst (wg_run s ops)).
Proof.
  induction ops as [|o ops IH]; intros s Ha H; cbn in *; auto.
  apply andb_prop in Ha as [Ho Ha].
  pose proof (dups_initial_step s o Ho H) as H1.
  destruct (wg_step s o) as [s1 x]. cbn in *.
  specialize (IH s1 Ha H1). destruct (wg_run s1 ops). exact IH.
Qed.

Lemma wg_run_app ops1 ops2 s :
  fst (wg_run s (ops1 ++ ops2)) = fst (wg_run (fst (wg_run s ops1)) ops2).
Proof.
  revert s; induction ops1 as [|o ops1 IH]; intros s; cbn; auto.
  destruct (wg_step s o) as [s1 x]. specialize (IH s1).
  destruct (wg_run s1 (ops1 ++ ops2)); destruct (wg_run s1 ops1). cbn in *. exact IH.
Qed.

Lemma wg_run_cons_fst s o ops : fst (wg_run s (o :: ops)) = fst (wg_run (fst (wg_step s o)) ops).
Proof. cbn. destruct (wg_step s o) as [s1 x]. cbn. destruct (wg_run s1 ops). reflexivity. Qed.

Lemma followers_released_lemma ops1 k g ops2 :
  forallb gen_api ops1 = true ->
  let s1 := fst (wg_run wg_empty ops1) in
  (g < length (gens s1))%nat ->
  gstat (fst (wg_run wg_empty (ops1 ++ ODoneGen k (Some g) :: ops2))) g <> GLive.
Proof.
  intros Ha s1 Hg.
  rewrite wg_run_app. fold s1. rewrite wg_run_cons_fst. cbn [wg_step fst].
  assert (D : dups_initial s1) by (apply dups_initial_run; [exact Ha|constructor]).
  destruct (nth_error (gens s1) g) as [x|] eqn:Ex; [|apply nth_error_None in Ex; lia].
  assert (Hx : g_dups x = gen_initial_dups).
  { unfold dups_initial in D. rewrite Forall_forall in D. apply D. eapply nth_error_In; eauto. }
  destruct gen_threshold_covers_initial as [T1 _].
  pose proof (released_by_done s1 k g x Ex ltac:(lia)) as R.
  pose proof (wg_donegen_le s1 k (Some g)) as [LL _].
  set (s2 := wg_donegen s1 k (Some g)) in *.
  assert (L : (g < length (gens s2))%nat) by lia.
  pose proof (released_forever ops2 s2 g L R) as F.
  rewrite F. exact R.
Qed.

Lemma timeout_released_lemma ops1 g ops2 :
  let s1 := fst (wg_run wg_empty ops1) in
  (g < length (gens s1))%nat ->
  gstat (fst (wg_run wg_empty (ops1 ++ OExpire g :: ops2))) g <> GLive.
Proof.
  intros s1 Hg. rewrite wg_run_app. fold s1. rewrite wg_run_cons_fst. cbn [wg_step fst].
  pose proof (released_by_timeout s1 g Hg) as R. cbn [wg_step fst] in R.
  set (s2 := mk_wg (groups s1) (upd (gens s1) g expire_gen)) in *.
  assert (L : (g < length (gens s2))%nat) by (subst s2; cbn; rewrite upd_length; exact Hg).
  pose proof (released_forever ops2 s2 g L R) as F.
  rewrite F. exact R.
Qed.

(* ---------- regroup converges ---------- *)
(* after a Regroup on an ended [p]: either p is an expired tombstone (and is returned itself)
   or p's successor link is set to what was returned *)
Lemma regroup_sets_next s k p :
  (p < length (gens s))%nat -> gstat s p <> GLive ->
  exists n l, wg_step s (ORegroup k (Some p)) = (fst (wg_step s (ORegroup k (Some p))), RGen n l) /\
    ((gstat s p = GExpired /\ n = p /\ l = false) \/
     (gstat s p = GCancelled /\
      exists gp', nth_error (gens (fst (wg_step s (ORegroup k (Some p))))) p = Some gp' /\ g_next gp' = Some n)).
Proof.
  intros Hp Hs. cbn. unfold wg_regroup, gstat in *.
  destruct (nth_error (gens s) p) as [gp|] eqn:Ep; [|apply nth_error_None in Ep; lia].
  assert (RC : forall n0 l0, regroup_create s k p = (fst (regroup_create s k p), RGen n0 l0) ->
               exists gp', nth_error (gens (fst (regroup_create s k p))) p = Some gp' /\ g_next gp' = Some n0).
  { intros n0 l0. unfold regroup_create. destruct (create s k) as [s' n'] eqn:Ec. cbn.
    intros E. inversion E; subst. rewrite nth_error_upd, Nat.eqb_refl.
    unfold create in Ec. inversion Ec; subst. cbn.
    rewrite nth_error_app1 by lia. rewrite Ep. cbn. eexists; split; [reflexivity|reflexivity]. }
  destruct (g_status gp) eqn:Es; [congruence| |].
  - (* cancelled *)
    destruct (g_next gp) as [n|] eqn:En.
    + exists n, false. split; [reflexivity|]. right. split; [reflexivity|]. cbn. exists gp. auto.
    + assert (RC' : exists n l, regroup_create s k p = (fst (regroup_create s k p), RGen n l) /\
                    exists gp', nth_error (gens (fst (regroup_create s k p))) p = Some gp' /\ g_next gp' = Some n).
      { unfold regroup_create in *. destruct (create s k) as [s' n'] eqn:Ec. cbn in *.
        exists n', true. split; [reflexivity|]. apply (RC n' true). reflexivity. }
      destruct (lookup (groups s) k) as [c|].
      * destruct (c =? p)%nat.
        -- destruct RC' as (n & l & E1 & E2). exists n, l. split; [exact E1|]. right. split; auto.
        -- exists c, false. split; [reflexivity|]. right. split; [reflexivity|]. cbn.
           rewrite nth_error_upd, Nat.eqb_refl, Ep. cbn. eexists; split; reflexivity.
      * destruct RC' as (n & l & E1 & E2). exists n, l. split; [exact E1|]. right. split; auto.
  - exists p, false. split; [reflexivity|]. left. auto.
Qed.

(* a later Regroup on the same ended generation, after ANY operations, returns the same
   generation, as a follower *)
Lemma regroup_converges_lemma s k1 k2 p ops :
  (p < length (gens s))%nat -> gstat s p <> GLive ->
  exists n l1,
    snd (wg_step s (ORegroup k1 (Some p))) = RGen n l1 /\
    snd (wg_step (fst (wg_run (fst (wg_step s (ORegroup k1 (Some p)))) ops)) (ORegroup k2 (Some p))) = RGen n false.
Proof.
  intros Hp Hs.
  destruct (regroup_sets_next s k1 p Hp Hs) as (n & l & E & Hcase).
  set (s1 := fst (wg_step s (ORegroup k1 (Some p)))) in *.
  exists n, l. split; [rewrite E; reflexivity|].
  pose proof (wg_step_le s (ORegroup k1 (Some p))) as Le1. fold s1 in Le1.
  pose proof (wg_run_le ops s1) as Le2.
  set (s2 := fst (wg_run s1 ops)) in *.
  assert (Le : wg_le s s2) by (eapply wg_le_trans; eauto).
  assert (Hp1 : (p < length (gens s1))%nat) by (destruct Le1; lia).
  pose proof (gstat_le s s2 p Le Hp Hs) as Hst2.
  cbn. unfold wg_regroup.
  destruct Hcase as [(He & -> & ->)|(Hc & gp' & Hgp' & Hn)].
  - unfold gstat in Hst2, He. rewrite He in Hst2.
    destruct (nth_error (gens s2) p) as [g2|] eqn:E2.
    + rewrite Hst2. reflexivity.
    + apply nth_error_None in E2. destruct Le. lia.
  - destruct Le2 as [_ H2]. destruct (H2 p gp' Hgp') as (g2 & Hg2 & [_ Hnext]).
    rewrite Hg2. unfold gstat in Hst2, Hc. rewrite Hg2, Hc in Hst2. rewrite Hst2.
    rewrite (Hnext n Hn). reflexivity.
Qed.

(* ---------- an old leader's Done never unregisters a newer generation ---------- *)
Lemma old_done_keeps_newer_lemma s k g k' g' :
  lookup (groups s) k' = Some g' -> g' <> g ->
  lookup (groups (wg_donegen s k (Some g))) k' = Some g'.
Proof.
  intros Hl Hne. unfold wg_donegen.
  destruct (nth_error (gens s) g) as [x|]; [|exact Hl].
  destruct (gen_done_threshold <? g_dups x)%N; [exact Hl|].
  destruct (lookup (groups s) k) as [c|] eqn:Ec; [|exact Hl].
  destruct (Nat.eqb_spec c g); [|exact Hl]. subst c. cbn.
  rewrite lookup_remove. destruct (N.eqb_spec k k'); [|exact Hl].
  subst k'. congruence.
Qed.

(* and it does unregister itself when it is still the current one *)
Lemma done_unregisters_self s k g x :
  nth_error (gens s) g = Some x -> (g_dups x <= gen_done_threshold)%N ->
  lookup (groups s) k = Some g -> lookup (groups (wg_donegen s k (Some g))) k = None.
Proof.
  intros Hg Hd Hl. unfold wg_donegen. rewrite Hg.
  destruct (N.ltb_spec gen_done_threshold (g_dups x)); [lia|].
  rewrite Hl, Nat.eqb_refl. cbn. rewrite lookup_remove, N.eqb_refl. reflexivity.
Qed.

(* example: a leader, three followers, the leader's Done, the followers regroup under another
   key; a late follower arrives after the new leader already finished *)
Example regroup_example :
  snd (wg_run wg_empty
        [OJoin 5; OJoin 5; OJoin 5; ODoneGen 5 (Some 0%nat);
         ORegroup 9 (Some 0%nat); ORegroup 9 (Some 0%nat); ODoneGen 9 (Some 1%nat); ORegroup 9 (Some 0%nat)])
  = [RGen 0 true; RGen 0 false; RGen 0 false; RUnit; RGen 1 true; RGen 1 false; RUnit; RGen 1 false].
Proof. reflexivity. Qed.
