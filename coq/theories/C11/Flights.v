(* C11 — capacity slots of Resolver.groupLookup over several keys (middleware/resolver/
   resolver.go: the leader closure's resolutionSlots / zoneInflight acquisition and deferred
   release around Resolver.lookup, over SingleflightWrapper.TimedDoChanWithRole).
   Definitions only.  Extends Regroup.v's single key to several keys that share the global
   in-flight pool ([cap] slots) and one zone quota ([zcap]).

   A caller that starts a flight takes a global slot, then a zone slot, non-blocking: a full
   pool sheds it at once (errResolutionCapacity), a full zone quota sheds it at once
   (errZoneCapacity) AND hands the global slot back; the refusal goes to that caller only (the
   flight is over before anybody can join it).  Both slots are held exactly while the flight
   runs and are handed back when the leader's lookup returns: its own context ended, or the
   authority answered. *)
From Sdns Require Export Common.Base C11.Regroup.
Open Scope Z_scope.

Inductive fout := FNone | FAnswer (t : Z) | FErr (owner : nat) (t : Z) | FCap (owner : nat) (zone : bool) (t : Z).
Record fcs := mk_fcs { f_key : nat; f_role : grole; f_ended : bool; f_out : fout }.
Record fst_ := mk_fst {
  f_cs : list fcs;
  f_flights : list bool;   (* per key: a flight is running *)
  f_used : nat;            (* global in-flight slots taken *)
  f_zused : nat;           (* zone quota taken *)
  f_cap : nat; f_zcap : nat;
  f_free : bool;           (* the authority answers *)
  f_now : Z }.

Definition f0 (keys : list nat) (nkeys cap zcap : nat) : fst_ :=
  mk_fst (map (fun k => mk_fcs k GIdle false FNone) keys) (repeat false nkeys) 0 0 cap zcap false 0.

Definition fkey_of (s : fst_) (i : nat) : nat := match nth_error (f_cs s) i with Some c => f_key c | None => 0%nat end.
Definition frole_of (s : fst_) (i : nat) : grole := match nth_error (f_cs s) i with Some c => f_role c | None => GDone end.
Definition fended_of (s : fst_) (i : nat) : bool := match nth_error (f_cs s) i with Some c => f_ended c | None => false end.
Definition fout_of (s : fst_) (i : nat) : fout := match nth_error (f_cs s) i with Some c => f_out c | None => FNone end.
Definition flight_on (s : fst_) (k : nat) : bool := nth k (f_flights s) false.

Definition fset_role (r : grole) (c : fcs) : fcs := mk_fcs (f_key c) r (f_ended c) (f_out c).
Definition ffinish (o : fout) (c : fcs) : fcs := mk_fcs (f_key c) GDone (f_ended c) o.
Definition set_flight (fl : list bool) (k : nat) (b : bool) : list bool := upd_at k (fun _ => b) fl.

(* the flight of key k completes with the answer; both slots come back *)
Definition fcomplete (s : fst_) (k : nat) : fst_ :=
  mk_fst (map (fun c => if (f_key c =? k)%nat then
                          match f_role c with GLead | GFollow => ffinish (FAnswer (f_now s)) c | _ => c end
                        else c) (f_cs s))
         (set_flight (f_flights s) k false) (pred (f_used s)) (pred (f_zused s))
         (f_cap s) (f_zcap s) (f_free s) (f_now s).

Definition with_cs (s : fst_) (cs : list fcs) : fst_ :=
  mk_fst cs (f_flights s) (f_used s) (f_zused s) (f_cap s) (f_zcap s) (f_free s) (f_now s).

Definition fenter (s : fst_) (i : nat) : fst_ :=
  let k := fkey_of s i in
  if flight_on s k then with_cs s (upd_at i (fset_role GFollow) (f_cs s))
  else if (f_cap s <=? f_used s)%nat
  then with_cs s (upd_at i (ffinish (FCap i false (f_now s))) (f_cs s))
  else if (f_zcap s <=? f_zused s)%nat
  then with_cs s (upd_at i (ffinish (FCap i true (f_now s))) (f_cs s))      (* the global slot is handed back *)
  else
    let s1 := mk_fst (upd_at i (fset_role GLead) (f_cs s)) (set_flight (f_flights s) k true)
                     (S (f_used s)) (S (f_zused s)) (f_cap s) (f_zcap s) (f_free s) (f_now s) in
    if f_free s1 then fcomplete s1 k else s1.

Fixpoint complete_all (ks : list nat) (s : fst_) : fst_ :=
  match ks with [] => s | k :: r => complete_all r (if flight_on s k then fcomplete s k else s) end.

Definition fstep (s : fst_) (e : gev) : fst_ :=
  match e with
  | GArrive i => match frole_of s i with GIdle => fenter s i | _ => s end
  | GEnd i =>
      let own := fun c => ffinish (FErr i (f_now s)) (mk_fcs (f_key c) (f_role c) true (f_out c)) in
      let k := fkey_of s i in
      match frole_of s i with
      | GFollow => with_cs s (upd_at i own (f_cs s))
      | GLead =>
          mk_fst (map (fun c => if (f_key c =? k)%nat then
                                  match f_role c with GFollow => fset_role (GPending i) c | _ => c end
                                else c) (upd_at i own (f_cs s)))
                 (set_flight (f_flights s) k false) (pred (f_used s)) (pred (f_zused s))
                 (f_cap s) (f_zcap s) (f_free s) (f_now s)
      | _ => with_cs s (upd_at i (fun c => mk_fcs (f_key c) (f_role c) true (f_out c)) (f_cs s))
      end
  | GRecover =>
      let s1 := mk_fst (f_cs s) (f_flights s) (f_used s) (f_zused s) (f_cap s) (f_zcap s) true (f_now s) in
      complete_all (seq 0 (length (f_flights s1))) s1
  | GWake j =>
      match frole_of s j with
      | GPending _ =>
          if fended_of s j
          then with_cs s (upd_at j (ffinish (FErr j (f_now s))) (f_cs s))
          else fenter s j
      | _ => s
      end
  end.

Definition frun (s : fst_) (evs : list gev) : fst_ := fold_left fstep evs s.

(* ---- timed histories ---- *)
Definition fwake_all (s : fst_) : fst_ := fold_left (fun s j => fstep s (GWake j)) (seq 0 (length (f_cs s))) s.
Definition set_fnow (s : fst_) (t : Z) : fst_ :=
  mk_fst (f_cs s) (f_flights s) (f_used s) (f_zused s) (f_cap s) (f_zcap s) (f_free s) t.
Definition ftstep (s : fst_) (te : gtev) : fst_ := let '(GAt t e) := te in fwake_all (fstep (set_fnow s t) e).
(* the slot counts after every event, as the driver samples them *)
Fixpoint fseries (s : fst_) (evs : list gtev) : list (nat * nat) :=
  match evs with [] => [] | te :: r => let s1 := ftstep s te in (f_used s1, f_zused s1) :: fseries s1 r end.
Definition ffinal (s : fst_) (evs : list gtev) : fst_ := fold_left ftstep evs s.

Definition fexpected (cs : list gcaller) (s : fst_) (i : nat) : gobs :=
  match fout_of s i with
  | FNone => mk_gobs 0 9 0
  | FAnswer t => mk_gobs t 0 0
  | FErr o t => mk_gobs t (if (o =? i)%nat then 1 else 2) (kind_of cs o)
  | FCap o z t => mk_gobs t (if (o =? i)%nat then (if z then 5 else 4) else 2) 0
  end.
