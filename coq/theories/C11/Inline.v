(* C11 — the cache-hit serve of one wire-born UDP query across the transport's passes
   (server/udp_engine.go serveInline / serve, server/strict.go ServeRaw / ServeRawInline /
   ServeRawReplay, middleware/cache/cache.go Cache.ServeDNS head, serveWire, serveHitFromWire,
   chargeEntryLimiter, handleCacheHit; middleware/edns/wire.go WireReady; the entry's size
   gate CacheEntry.wireChainMismatch).  Definitions only.

   "Staged reply is terminal over handoff; replay skips entry effects": a query is served by
     - ONE full pass on a pool worker (ring path: ServeRaw), or
     - an INLINE pass on the socket reader (ServeRawInline: the chain runs with the inline-only
       mark, the cache may answer from its wire ladder only and otherwise hands off,
       unwritten) followed, after a handoff, by a REPLAY pass on a worker (ServeRawReplay:
       the ladder is skipped, the Msg body runs).
   The per-entry rate limiter (config ratelimit; golang.org/x/time/rate, limit = burst = the
   configured rate, one shared limiter per cache key) is an entry effect: a question costs ONE
   token however many passes and entry points it went through.  Inside one pass the [spent]
   memo carries the permit from the ladder to the Msg body; across the inline/replay boundary
   nothing can, which is why every deterministic decline of the ladder (here: the client's
   size ceiling) must come BEFORE the charge.  What may still decline after the charge are
   commit-time backstops (a lease the writer refuses, a body that fails to build, a transport
   fallback): the environment flag [backstop]. *)
From Sdns Require Export Common.Base Gen.C11.
Open Scope Z_scope.

(* ---- the token bucket (golang.org/x/time/rate with limit = r per window, burst = r);
        instants in ms, tokens in 1/[u] of a token where [u] = the window in ms, so that one
        ms refills r units and one token is u units ---- *)
Record bucket := mk_bucket { bk_tok : Z; bk_last : Z }.
Definition bk_full (r u : Z) : bucket := mk_bucket (r * u) 0.
(* rate.Limiter.advance: tokens at [now], capped at the burst; a clock that went back adds nothing *)
Definition bk_level (r u : Z) (b : bucket) (now : Z) : Z :=
  Z.min (r * u) (bk_tok b + Z.max 0 (now - bk_last b) * r).
(* rate.Limiter.Allow: on success one token is taken and the state moves to [now]; a refusal
   changes nothing *)
Definition bk_allow (r u : Z) (b : bucket) (now : Z) : bool * bucket :=
  let t := bk_level r u b now in
  if u <=? t then (true, mk_bucket (t - u) now) else (false, b).
(* the cache's per-entry limiter: rate.Every(time.Second / ratelimit); the ratelimit
   middleware's per-client limiter: rate.Every(time.Minute / clientratelimit) *)
Definition entry_unit : Z := entry_rate_window / 1000000.
Definition client_unit : Z := client_rate_window / 1000000.

(* ---- a query that hits a flat, wire-eligible entry ---- *)
Record iquery := mk_iq {
  iq_at : Z;          (* arrival, ms *)
  iq_name : nat;      (* which cached name (= which limiter) *)
  iq_client : nat;    (* 0: a loopback client (the ratelimit middleware lets it pass); k+1: remote client k *)
  iq_inline : bool;   (* inline pass on the reader first (else ring: one full pass) *)
  iq_edns : bool;     (* the query carries an OPT *)
  iq_adv : Z;         (* advertised UDP size *)
  iq_cookie : bool;   (* the OPT carries a client cookie *)
  iq_body : Z }.      (* length of the stored body the entry serves this client *)

(* edns.serveWire: the client's ceiling *)
Definition client_ceiling (q : iquery) : Z :=
  if iq_edns q then Z.min (Z.max (iq_adv q) edns_min_size) edns_default_size else edns_min_size.
(* edns.ResponseWriter.wireOPTLen: what the chain appends below the cache *)
Definition opt_reserve (q : iquery) : Z :=
  if iq_edns q
  then opt_fixed_len + (if iq_cookie q then opt_option_hdr_len + server_cookie_len else 0)
  else 0.
(* CacheEntry.wireChainMismatch (size rung; the entries here carry no EDE and no DNSSEC) *)
Definition fits (q : iquery) : bool := iq_body q + opt_reserve q <=? client_ceiling q.

Inductive pres :=
| PServed (tc : bool)   (* one reply left; truncated iff it came from the Msg path over the ceiling *)
| PDropped              (* the limiter refused: cancelled, unwritten *)
| PHandoff.             (* inline pass declined, unwritten: the transport replays *)
Inductive pkind := KFull | KInline | KReplay.
Inductive lres := LDecline (spent : bool) | LServed | LRefused.

(* serveHitFromWire: the deterministic declines, THEN the charge, then the commit *)
Definition ladder (r : Z) (backstop : bool) (q : iquery) (b : bucket) (now : Z) : lres * bucket :=
  if negb (fits q) then (LDecline false, b)
  else let '(ok, b') := bk_allow r entry_unit b now in
       if negb ok then (LRefused, b')
       else if backstop then (LDecline true, b') else (LServed, b').

(* handleCacheHit: the limiter unless this pass already paid, then bytes (fits) or the
   message path, which truncates over the ceiling *)
Definition msg_body (r : Z) (q : iquery) (b : bucket) (now : Z) (spent : bool) : pres * bucket :=
  let '(ok, b') := if spent then (true, b) else bk_allow r entry_unit b now in
  if negb ok then (PDropped, b') else (PServed (negb (fits q)), b').

(* Cache.ServeDNS for a hit, per pass kind *)
Definition run_pass (r : Z) (backstop : bool) (k : pkind) (q : iquery) (b : bucket) (now : Z) : pres * bucket :=
  match k with
  | KReplay => msg_body r q b now false      (* ch.Replay(): the ladder is skipped, spent = nil *)
  | _ =>
      match ladder r backstop q b now with
      | (LServed, b') => (PServed false, b')
      | (LRefused, b') => (PDropped, b')
      | (LDecline spent, b') =>
          match k with
          | KInline => (PHandoff, b')         (* ch.InlineOnly(): MarkHandoff, return *)
          | _ => msg_body r q b' now spent
          end
      end
  end.

(* ratelimit.RateLimit.ServeDNS in front of the cache (cookie-less queries): the replay pass
   passes through - the inline pass consumed the token; a loopback client and a zero rate
   pass; otherwise the client's limiter decides, and a refusal cancels without a reply *)
Definition client_limited (cr : Z) (q : iquery) : bool := negb (cr =? 0) && negb (iq_client q =? 0)%nat.
Definition client_gate (cr : Z) (k : pkind) (q : iquery) (cb : bucket) (now : Z) : bool * bucket :=
  match k with
  | KReplay => (true, cb)
  | _ => if client_limited cr q then bk_allow cr client_unit cb now else (true, cb)
  end.

(* one pass of the chain: the client limiter, then the cache *)
Definition chain_pass (cr r : Z) (backstop : bool) (k : pkind) (q : iquery) (cb b : bucket) (now : Z)
  : pres * bucket * bucket :=
  let '(ok, cb') := client_gate cr k q cb now in
  if negb ok then (PDropped, cb', b)
  else let '(res, b') := run_pass r backstop k q b now in (res, cb', b').

(* the transport: ring = one full pass; inline = inline pass, a handoff is replayed (the
   worker is free: same instant) *)
Definition serve_query (cr r : Z) (backstop : bool) (q : iquery) (cb b : bucket) : pres * bool * bucket * bucket :=
  let now := iq_at q in
  if iq_inline q then
    match chain_pass cr r backstop KInline q cb b now with
    | (PHandoff, cb', b') => let '(res, cb'', b'') := chain_pass cr r false KReplay q cb' b' now in (res, true, cb'', b'')
    | (res, cb', b') => (res, false, cb', b')
    end
  else let '(res, cb', b') := chain_pass cr r backstop KFull q cb b now in (res, false, cb', b').

Definition replies_of (p : pres) : Z := match p with PServed _ => 1 | _ => 0 end.
Definition tc_of (p : pres) : bool := match p with PServed tc => tc | _ => false end.

(* ---- histories over several cached names and several clients ---- *)
Record iobs := mk_io { io_replies : Z; io_tc : bool; io_handoff : bool; io_before : Z; io_after : Z;
                       io_limited : bool; io_cbefore : Z; io_cafter : Z }.

Fixpoint set_bucket (i : nat) (b : bucket) (l : list bucket) : list bucket :=
  match l, i with
  | [], _ => []
  | _ :: t, O => b :: t
  | x :: t, S k => x :: set_bucket k b t
  end.

Definition iobs_of (cr r : Z) (backstop : bool) (q : iquery) (cb b : bucket) : iobs * bucket * bucket :=
  let '(res, ho, cb', b') := serve_query cr r backstop q cb b in
  let lim := client_limited cr q in
  (mk_io (replies_of res) (tc_of res) ho (bk_level r entry_unit b (iq_at q)) (bk_level r entry_unit b' (iq_at q))
         lim (if lim then bk_level cr client_unit cb (iq_at q) else 0) (if lim then bk_level cr client_unit cb' (iq_at q) else 0),
   cb', b').

Fixpoint run_inline (cr r : Z) (cbs bs : list bucket) (qs : list iquery) : list iobs :=
  match qs with
  | [] => []
  | q :: rest =>
      let b := nth (iq_name q) bs (bk_full r entry_unit) in
      let cb := nth (pred (iq_client q)) cbs (bk_full cr client_unit) in
      let '(o, cb', b') := iobs_of cr r false q cb b in
      o :: run_inline cr r (if client_limited cr q then set_bucket (pred (iq_client q)) cb' cbs else cbs)
                           (set_bucket (iq_name q) b' bs) rest
  end.

(* what the property says about one observation, judged without the model: never two replies;
   a query the rate policy admits (a token in its client's bucket if the client is limited,
   and then a token in the entry's bucket) gets exactly one reply; a refused one none; one
   question costs each limiter it reaches exactly one token, a refusal nothing *)
Definition iobs_spec (o : iobs) : bool :=
  let cadm := negb (io_limited o) || (client_unit <=? io_cbefore o) in
  (io_replies o <=? 1) && (0 <=? io_replies o) &&
  Bool.eqb (cadm && (entry_unit <=? io_before o)) (io_replies o =? 1) &&
  (io_after o =? io_before o - (if cadm && (entry_unit <=? io_before o) then entry_unit else 0)) &&
  (io_cafter o =? io_cbefore o - (if io_limited o && cadm then client_unit else 0)).
