(* C11 — shutdown of the UDP listener (server/listener_udp.go Shutdown + udpEngine.stopAndDrain)
   on top of the server-level world (Model part 6).  Definitions only.

   Shutdown at instant st: admission stops (the readers leave on the expired read deadline: a
   datagram arriving later is never read); the ready queue is closed, which lets the pool
   workers finish what is queued; the drain waits for workers and overflow goroutines, at most
   [drain] ms; then the sockets are closed, drained or not.  A job still running (or still
   queued) at st + drain is NOT cut off: it runs to its end under its own bounds and gives its
   slab back, but its reply is written to a closed socket and is lost - the one recorded cause
   (errDrainTimeout in drainErr).  Requests entering through Server.ServeMsg (path 0) do not
   use the listener and are not affected. *)
From Sdns Require Export Common.Base Gen.C11 C11.Model.

Inductive devent :=
| DArrive (i : nat) | DCancel (i : nat) | DRelease (i : nat) | DAdvance (t : N)
| DShutdown (drain : N).

Record dworld := mk_dworld {
  d_s : sworld;
  d_stop : option N;      (* instant admission stopped *)
  d_drain : N;
  d_closed : bool;        (* the sockets are closed *)
  d_err : bool;           (* the drain ran into its deadline *)
  d_lost : list nat       (* ring jobs unfinished when the sockets closed: their replies are lost *)
}.

Definition dworld0 (s : sworld) : dworld := mk_dworld s None 0 false false [].

Definition ring_busy (e : engine) (i : nat) : bool :=
  match place_of e i with PlQueued | PlWorker | PlOverflow => true | _ => false end.
Definition ring_left (s : sworld) : list nat :=
  filter (ring_busy (s_e s)) (seq 0 (length (reqs (s_w s)))).

Definition with_s (d : dworld) (s : sworld) : dworld :=
  mk_dworld s (d_stop d) (d_drain d) (d_closed d) (d_err d) (d_lost d).

(* the clock moves to t; if the drain deadline lies on the way the sockets close there *)
Definition d_advance (d : dworld) (t : N) : dworld :=
  match d_stop d with
  | Some st =>
      let c := (st + d_drain d)%N in
      if negb (d_closed d) && (c <=? t)%N then
        let s1 := s_advance 64 (d_s d) c in
        let left := ring_left s1 in
        let s2 := s_advance 64 s1 t in
        mk_dworld s2 (d_stop d) (d_drain d) true (match left with [] => false | _ => true end) left
      else with_s d (s_advance 64 (d_s d) t)
  | None => with_s d (s_advance 64 (d_s d) t)
  end.

Definition dstep (d : dworld) (e : devent) : dworld :=
  match e with
  | DArrive i =>
      match d_stop d with
      | Some _ => if (path_of (d_s d) i =? 0)%N then with_s d (sevent_step (d_s d) (EArrive i)) else d
      | None => with_s d (sevent_step (d_s d) (EArrive i))
      end
  | DCancel i => with_s d (sevent_step (d_s d) (ECancel i))
  | DRelease i => with_s d (sevent_step (d_s d) (ERelease i))
  | DAdvance t => d_advance d t
  | DShutdown drain =>
      match d_stop d with
      | Some _ => d       (* sync.Once *)
      | None => mk_dworld (d_s d) (Some (now (s_w (d_s d)))) drain false false []
      end
  end.

Definition drun (d : dworld) (evs : list devent) : dworld := fold_left dstep evs d.

(* what the client sees of request i: a lost reply is no reply *)
Definition dobserve (d : dworld) (i : nat) (q : preq) : N * N * bool :=
  let '(w, c, called) := observe q in
  if existsb (Nat.eqb i) (d_lost d) then (0%N, 0%N, called) else (w, c, called).
