(* C11 — "lookup fan-out bounded by deadline; stragglers cancelled" (session 5).
   Definitions only.

   internal/dnsclient/interrupt_group.go (all of it), conn.go (Conn.Exchange / ExchangeInterruptible /
   ExchangeContext) and cancel.go (the per-connection registration the fallback uses), as Resolver.lookup
   and Resolver.exchange use them: one InterruptGroup per lookup, registered on the lookup's cancellable
   context; every upstream exchange arms its connection in a slot of the group for the time of its
   synchronous write + read; when the lookup's context ends (a winner was picked, the request's deadline
   passed, the client left) ONE callback sets "deadline = now" on every armed connection, so every
   straggler's blocked Read returns at that instant; an exchange that arms after the fire is interrupted
   on the spot; with all slots taken an exchange falls back to a registration of its own.

   Part 1: the group as a concurrent object.  One Go method = one atomic step (each runs under g.mu);
   the context's cancellation and the callback goroutine it starts are two steps (ICancel, IFire), because
   context.AfterFunc runs the callback in a goroutine of its own: arm / disarm / Close can fall between.
   A slot holds the connection and the ghost flag "a SetDeadline(now) reached it since it was armed". *)
From Sdns Require Import Common.Base Gen.C11.

Record igroup := mk_ig {
  ig_fired : bool;      (* g.fired *)
  ig_stopped : bool;    (* Close ran: the AfterFunc registration is detached *)
  ig_done : bool;       (* the context is cancelled *)
  ig_pending : bool;    (* the callback goroutine was started and has not taken g.mu yet *)
  ig_slots : list (option (nat * bool)) }.

Definition ig_nslots : nat := N.to_nat interrupt_group_slots.
Definition ig0 : igroup := mk_ig false false false false (repeat None ig_nslots).

Inductive igop := IArm (c : nat) | IDisarm (slot : nat) | ICancel | IFire | IClose.

(* the scan of arm: the first free slot *)
Fixpoint first_free (sl : list (option (nat * bool))) : option nat :=
  match sl with
  | [] => None
  | None :: _ => Some 0%nat
  | Some _ :: r => match first_free r with Some i => Some (S i) | None => None end
  end.
Fixpoint set_slot (sl : list (option (nat * bool))) (i : nat) (x : option (nat * bool)) :=
  match sl, i with
  | [], _ => []
  | _ :: r, O => x :: r
  | y :: r, S j => y :: set_slot r j x
  end.
Definition hit_slot (s : option (nat * bool)) : option (nat * bool) :=
  match s with Some (c, _) => Some (c, true) | None => None end.
Fixpoint armed_conns (sl : list (option (nat * bool))) : list nat :=
  match sl with [] => [] | Some (c, _) :: r => c :: armed_conns r | None :: r => armed_conns r end.

(* one step: new state, the slot arm reports (None = every slot taken: the caller falls back to its own
   registration), the connections that got SetDeadline(now) in this step *)
Definition ig_step (g : igroup) (o : igop) : igroup * option nat * list nat :=
  match o with
  | IArm c =>
      match first_free (ig_slots g) with
      | Some i => (mk_ig (ig_fired g) (ig_stopped g) (ig_done g) (ig_pending g)
                         (set_slot (ig_slots g) i (Some (c, ig_fired g))),
                   Some i, if ig_fired g then [c] else [])
      | None => (g, None, [])
      end
  | IDisarm i => (mk_ig (ig_fired g) (ig_stopped g) (ig_done g) (ig_pending g) (set_slot (ig_slots g) i None), None, [])
  | ICancel =>
      if ig_done g then (g, None, [])
      else (mk_ig (ig_fired g) (ig_stopped g) true (negb (ig_stopped g)) (ig_slots g), None, [])
  | IFire =>
      if ig_pending g
      then (mk_ig true (ig_stopped g) (ig_done g) false (map hit_slot (ig_slots g)), None, armed_conns (ig_slots g))
      else (g, None, [])
  | IClose => (mk_ig (ig_fired g) true (ig_done g) (ig_pending g) (ig_slots g), None, [])
  end.
Definition ig_next (g : igroup) (o : igop) : igroup := fst (fst (ig_step g o)).
Definition ig_run (g : igroup) (ops : list igop) : igroup := fold_left ig_next ops g.

Definition slot_hit (s : option (nat * bool)) : bool := match s with Some (_, h) => h | None => true end.
Definition slot_taken (s : option (nat * bool)) : bool := match s with Some _ => true | None => false end.
Definition occupancy (g : igroup) : nat := length (filter slot_taken (ig_slots g)).

(* Part 2: one exchange on one connection, virtual time (ms).  What the upstream sends back, in arrival
   order: the matching response, a datagram with another ID (a stray / late / spoofed one), the right ID
   with another question, bytes that do not unpack, fewer bytes than a header. *)
Inductive dgram := DGood | DWrongId | DWrongQ | DGarbage | DShort.
Record xscript := mk_xs {
  xs_start : Z;              (* the instant ExchangeInterruptible is called *)
  xs_deadline : Z;           (* the network deadline Resolver.exchange put on the connection *)
  xs_stream : bool;          (* TCP: not a net.PacketConn *)
  xs_arr : list (Z * dgram) }.
(* result classes: 0 the answer, 1 a timeout error (write or read), 2 ErrQuestion, 3 unpack error,
   4 short read, 5 dns.ErrId *)
Inductive xres := XAnswer | XTimeout | XQuestion | XUnpack | XShort | XId.

(* Conn.Exchange's read side under the bound b the connection carries: UDP skips other IDs and keeps
   reading "until the matching response or the read deadline"; a stream reads one message *)
Fixpoint xread (stream : bool) (b : Z) (arr : list (Z * dgram)) : Z * xres :=
  match arr with
  | [] => (b, XTimeout)
  | (t, d) :: r =>
      if (b <=? t)%Z then (b, XTimeout)
      else match d with
           | DGood => (t, XAnswer)
           | DWrongQ => (t, XQuestion)
           | DGarbage => (t, XUnpack)
           | DShort => (t, XShort)
           | DWrongId => if stream then (t, XId) else xread stream b r
           end
  end.
(* the bound: the network deadline, replaced by "now" when the cancellation domain ends (at the arm when
   it had ended before) *)
Definition xbound (x : xscript) (cancel : option Z) : Z :=
  match cancel with
  | Some c => Z.min (xs_deadline x) (Z.max c (xs_start x))
  | None => xs_deadline x
  end.
Definition xrun (x : xscript) (cancel : option Z) : Z * xres :=
  let b := xbound x cancel in
  if (b <=? xs_start x)%Z then (xs_start x, XTimeout) else xread (xs_stream x) b (xs_arr x).
(* SetDeadline(now) calls that reach the connection from the cancellation domain: one when the exchange
   was in progress at the cancellation or started after it, none when it had returned before *)
Definition xhits (cancel : option Z) (ret : Z) : nat :=
  match cancel with Some c => if (c <=? ret)%Z then 1%nat else 0%nat | None => 0%nat end.

(* Part 3: a lookup's fan-out on one group: exchanges by index, the instant the lookup's context is
   cancelled (then Close, as the defers of Resolver.lookup order them), a list of sample instants.
   At an instant: first the cancellation (cancel, callback, Close), then in index order the exchanges that
   start (arm) and those that return (disarm).  Per exchange: the slot it holds. *)
Record fan := mk_fan { fn_g : igroup; fn_slot : list (option nat); fn_had : list bool; fn_log : list nat }.

Definition fan_apply (f : fan) (o : igop) : fan * option nat :=
  let '(g, r, t) := ig_step (fn_g f) o in (mk_fan g (fn_slot f) (fn_had f) (fn_log f ++ t), r).
Fixpoint set_nth {A} (l : list A) (i : nat) (x : A) : list A :=
  match l, i with [], _ => [] | _ :: r, O => x :: r | y :: r, S j => y :: set_nth r j x end.

Definition fan_exchange (T : Z) (f : fan) (ix : nat * (Z * Z)) : fan :=
  let '(i, (st, rt)) := ix in
  let f1 := if (st =? T)%Z
            then let '(f', r) := fan_apply f (IArm i) in
                 mk_fan (fn_g f') (set_nth (fn_slot f') i r)
                        (set_nth (fn_had f') i (match r with Some _ => true | None => false end)) (fn_log f')
            else f in
  if (rt =? T)%Z
  then match nth i (fn_slot f1) None with
       | Some s => let '(f', _) := fan_apply f1 (IDisarm s) in
                   mk_fan (fn_g f') (set_nth (fn_slot f') i None) (fn_had f') (fn_log f')
       | None => f1
       end
  else f1.
Definition fan_instant (cancel : option Z) (xs : list (nat * (Z * Z))) (f : fan) (T : Z) : fan :=
  let f1 := match cancel with
            | Some c => if (c =? T)%Z
                        then fst (fan_apply (fst (fan_apply (fst (fan_apply f ICancel)) IFire)) IClose)
                        else f
            | None => f
            end in
  fold_left (fan_exchange T) xs f1.
Fixpoint fan_series (cancel : option Z) (xs : list (nat * (Z * Z))) (f : fan) (Ts : list Z) : list nat * fan :=
  match Ts with
  | [] => ([], f)
  | T :: r => let f1 := fan_instant cancel xs f T in
              let '(s, f2) := fan_series cancel xs f1 r in (occupancy (fn_g f1) :: s, f2)
  end.
Fixpoint indexed {A} (i : nat) (l : list A) : list (nat * A) :=
  match l with [] => [] | x :: r => (i, x) :: indexed (S i) r end.
Definition fan0 (n : nat) : fan := mk_fan ig0 (repeat None n) (repeat false n) [].

(* ---- what the driver records, and the two judgements (used by Run.v) ---- *)
(* per exchange: the instant ExchangeInterruptible returned, the class of its result, how many
   SetDeadline(now) calls reached its connection, how many of them after it had returned *)
Record xobs := mk_xobs { xo_ret : Z; xo_class : N; xo_hits : nat; xo_late : nat }.
Definition arr (t : Z) (d : dgram) : Z * dgram := (t, d).
Definition xres_code (r : xres) : N :=
  match r with XAnswer => 0 | XTimeout => 1 | XQuestion => 2 | XUnpack => 3 | XShort => 4 | XId => 5 end%N.
Fixpoint count_nat (x : nat) (l : list nat) : nat :=
  match l with [] => O | y :: r => (if (x =? y)%nat then 1 else 0) + count_nat x r end%nat.
Fixpoint nat_list_eqb (a b : list nat) : bool :=
  match a, b with [], [] => true | x :: r, y :: s => (x =? y)%nat && nat_list_eqb r s | _, _ => false end.

(* correspondence: every exchange returned when, how and interrupted as often as the model says; the
   slots held after every sample instant are the group automaton's; a slot holder's interruptions are
   the ones the group automaton logged for it *)
Definition fan_check (cancel : option Z) (xs : list xscript) (Ts : list Z) (obs : list xobs) (series : list nat) : bool :=
  let ix := indexed 0 (map (fun x => (xs_start x, fst (xrun x cancel))) xs) in
  let '(ser, f) := fan_series cancel ix (fan0 (length xs)) Ts in
  nat_list_eqb ser series && (length obs =? length xs)%nat &&
  forallb (fun p => let '(i, (x, o)) := p in
             let '(rt, cl) := xrun x cancel in
             (xo_ret o =? rt)%Z && (xo_class o =? xres_code cl)%N && (xo_hits o =? xhits cancel rt)%nat &&
             (xo_late o =? 0)%nat &&
             (count_nat i (fn_log f) =? (if nth i (fn_had f) false then xo_hits o else 0))%nat)
          (indexed 0 (combine xs obs)).

(* specification, on the observations and the scripts alone: an exchange returns no later than its
   network deadline and no later than the cancellation of its lookup (at once when it starts after it);
   an answer is accepted only at an instant the matching response arrived; an exchange in flight at the
   cancellation is interrupted exactly once, one that returned before it never; no connection is
   touched after its exchange returned; the group never holds more connections than it has slots *)
Definition is_good (d : dgram) : bool := match d with DGood => true | _ => false end.
Definition xspec (cancel : option Z) (x : xscript) (o : xobs) : bool :=
  (xs_start x <=? xo_ret o)%Z && (xo_ret o <=? Z.max (xs_start x) (xbound x cancel))%Z &&
  (if (xo_class o =? 0)%N
   then existsb (fun a => (fst a =? xo_ret o)%Z && is_good (snd a)) (xs_arr x) else true) &&
  (xo_late o =? 0)%nat &&
  match cancel with
  | Some c => if (xs_start x <=? c)%Z && (c <=? xo_ret o)%Z then (xo_hits o =? 1)%nat
              else if (xo_ret o <? c)%Z then (xo_hits o =? 0)%nat else (xo_hits o <=? 1)%nat
  | None => (xo_hits o =? 0)%nat
  end.
Definition fan_spec (cancel : option Z) (xs : list xscript) (obs : list xobs) (series : list nat) : bool :=
  forallb (fun n => (n <=? N.to_nat interrupt_group_slots)%nat) series && (length obs =? length xs)%nat &&
  forallb (fun p => xspec cancel (fst p) (snd p)) (combine xs obs).
(* what the model itself says an exchange shows *)
Definition xmodel_obs (cancel : option Z) (x : xscript) : xobs :=
  let '(rt, cl) := xrun x cancel in mk_xobs rt (xres_code cl) (xhits cancel rt) 0.
