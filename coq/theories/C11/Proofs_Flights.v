(* C11 — proofs about the capacity slots of groupLookup over several keys (Flights.v). *)
From Sdns Require Import Common.Base C11.Regroup C11.Proofs_Regroup C11.Flights.
Open Scope Z_scope.

(* ---------- 1. the pools are never overdrawn ---------- *)
Definition within (s : fst_) : Prop := (f_used s <= f_cap s)%nat /\ (f_zused s <= f_zcap s)%nat.

Lemma fcomplete_within s k : within s -> within (fcomplete s k).
Proof. intros [A B]. split; cbn; lia. Qed.

Lemma fenter_within s i : within s -> within (fenter s i).
Proof.
  intros [A B]. unfold fenter. destruct (flight_on s (fkey_of s i)); [split; assumption|].
  destruct (f_cap s <=? f_used s)%nat eqn:E1; [split; assumption|].
  destruct (f_zcap s <=? f_zused s)%nat eqn:E2; [split; assumption|].
  apply Nat.leb_gt in E1, E2. cbn [f_free].
  destruct (f_free s); [apply fcomplete_within|]; split; cbn; lia.
Qed.

Lemma complete_all_within ks : forall s, within s -> within (complete_all ks s).
Proof.
  induction ks as [|k ks IH]; intros s W; cbn; [exact W|]. apply IH.
  destruct (flight_on s k); [apply fcomplete_within|]; exact W.
Qed.

Lemma fstep_within s e : within s -> within (fstep s e).
Proof.
  intros W. destruct e as [i|i| |j]; cbn [fstep].
  - destruct (frole_of s i); try exact W. apply fenter_within, W.
  - destruct W as [A B]. destruct (frole_of s i); split; cbn; lia.
  - apply complete_all_within. exact W.
  - destruct (frole_of s j); try exact W. destruct (fended_of s j); [exact W|apply fenter_within, W].
Qed.

Lemma frun_within evs : forall s, within s -> within (frun s evs).
Proof. induction evs as [|e evs IH]; intros s W; cbn; [exact W|]. apply IH, fstep_within, W. Qed.

Lemma fenter_caps s i : f_cap (fenter s i) = f_cap s /\ f_zcap (fenter s i) = f_zcap s.
Proof.
  unfold fenter. destruct (flight_on s (fkey_of s i)); [split; reflexivity|]. destruct (f_cap s <=? f_used s)%nat; [split; reflexivity|].
  destruct (f_zcap s <=? f_zused s)%nat; [split; reflexivity|]. cbn [f_free]. destruct (f_free s); split; reflexivity.
Qed.
Lemma complete_all_caps ks : forall s, f_cap (complete_all ks s) = f_cap s /\ f_zcap (complete_all ks s) = f_zcap s.
Proof.
  induction ks as [|k ks IH]; intros s; cbn; [split; reflexivity|].
  destruct (IH (if flight_on s k then fcomplete s k else s)) as [A B]. rewrite A, B. destruct (flight_on s k); split; reflexivity.
Qed.
Lemma fstep_caps s e : f_cap (fstep s e) = f_cap s /\ f_zcap (fstep s e) = f_zcap s.
Proof.
  destruct e as [i|i| |j]; cbn [fstep].
  - destruct (frole_of s i); try (split; reflexivity). apply fenter_caps.
  - destruct (frole_of s i); split; reflexivity.
  - match goal with |- context [complete_all ?ks ?x] => destruct (complete_all_caps ks x) as [A B] end. rewrite A, B. split; reflexivity.
  - destruct (frole_of s j); try (split; reflexivity). destruct (fended_of s j); [split; reflexivity|apply fenter_caps].
Qed.
Lemma frun_caps evs : forall s, f_cap (frun s evs) = f_cap s /\ f_zcap (frun s evs) = f_zcap s.
Proof.
  induction evs as [|e evs IH]; intros s; [split; reflexivity|].
  change (frun s (e :: evs)) with (frun (fstep s e) evs). destruct (IH (fstep s e)) as [A B]. destruct (fstep_caps s e) as [C D].
  split; congruence.
Qed.

Lemma never_overdrawn keys nkeys cap zcap evs :
  let s := frun (f0 keys nkeys cap zcap) evs in (f_used s <= cap)%nat /\ (f_zused s <= zcap)%nat.
Proof.
  cbv zeta. assert (W : within (frun (f0 keys nkeys cap zcap) evs)) by (apply frun_within; split; cbn; lia).
  destruct (frun_caps evs (f0 keys nkeys cap zcap)) as [A B]. destruct W as [W1 W2]. rewrite A in W1. rewrite B in W2. exact (conj W1 W2).
Qed.

(* ---------- 2. a refusal, like a context error, is the caller's own ---------- *)
Definition fown (i : nat) (c : fcs) : Prop :=
  (forall o t, f_out c = FErr o t -> o = i /\ f_ended c = true) /\ (forall o z t, f_out c = FCap o z t -> o = i).
Definition finv (s : fst_) : Prop := forall i c, nth_error (f_cs s) i = Some c -> fown i c.

Lemma finv_upd s i f cs' :
  finv s -> cs' = upd_at i f (f_cs s) -> (forall c, fown i c -> fown i (f c)) ->
  forall fl u z cp zc fr nw, finv (mk_fst cs' fl u z cp zc fr nw).
Proof.
  intros H -> Hf fl u z cp zc fr nw j c Hc. cbn in Hc. rewrite nth_error_upd_at in Hc.
  destruct (j =? i)%nat eqn:E.
  - apply Nat.eqb_eq in E. subst j. destruct (nth_error (f_cs s) i) eqn:En; cbn in Hc; [|discriminate].
    injection Hc as <-. apply Hf, (H i f0 En).
  - apply (H j c Hc).
Qed.

Lemma finv_map s g :
  finv s -> (forall i c, fown i c -> fown i (g c)) ->
  forall fl u z cp zc fr nw, finv (mk_fst (map g (f_cs s)) fl u z cp zc fr nw).
Proof.
  intros H Hg fl u z cp zc fr nw j c Hc. cbn in Hc. rewrite nth_error_map in Hc.
  destruct (nth_error (f_cs s) j) eqn:En; cbn in Hc; [|discriminate]. injection Hc as <-. apply Hg, (H j f En).
Qed.

Lemma fown_role i r c : fown i c -> fown i (fset_role r c).
Proof. intros H. exact H. Qed.
Lemma fown_answer i t c : fown i (ffinish (FAnswer t) c).
Proof. split; intros; discriminate. Qed.
Lemma fown_cap i z t c : fown i (ffinish (FCap i z t) c).
Proof. split; [intros; discriminate|]. intros o z0 t0 H. cbn in H. injection H as <- _ _. reflexivity. Qed.

Lemma fcomplete_finv s k : finv s -> finv (fcomplete s k).
Proof.
  intros H. unfold fcomplete. apply finv_map; [exact H|]. intros i c Hc.
  destruct (f_key c =? k)%nat; [|exact Hc]. destruct (f_role c); try exact Hc; apply fown_answer.
Qed.

Lemma fenter_finv s i : finv s -> finv (fenter s i).
Proof.
  intros H. unfold fenter, with_cs.
  destruct (flight_on s (fkey_of s i)); [eapply finv_upd; [exact H|reflexivity|intros c; apply fown_role]|].
  destruct (f_cap s <=? f_used s)%nat; [eapply finv_upd; [exact H|reflexivity|intros c _; apply fown_cap]|].
  destruct (f_zcap s <=? f_zused s)%nat; [eapply finv_upd; [exact H|reflexivity|intros c _; apply fown_cap]|].
  cbn [f_free]. destruct (f_free s).
  - apply fcomplete_finv. eapply finv_upd; [exact H|reflexivity|intros c; apply fown_role].
  - eapply finv_upd; [exact H|reflexivity|intros c; apply fown_role].
Qed.

Lemma complete_all_finv ks : forall s, finv s -> finv (complete_all ks s).
Proof.
  induction ks as [|k ks IH]; intros s H; cbn; [exact H|]. apply IH. destruct (flight_on s k); [apply fcomplete_finv|]; exact H.
Qed.

Lemma fstep_finv s e : finv s -> finv (fstep s e).
Proof.
  intros H. destruct e as [i|i| |j]; cbn [fstep].
  - destruct (frole_of s i); try exact H. apply fenter_finv, H.
  - assert (Hown : forall c, fown i c -> fown i (ffinish (FErr i (f_now s)) (mk_fcs (f_key c) (f_role c) true (f_out c)))).
    { intros c _. split; [|intros; discriminate]. intros o t Ho. cbn in Ho. injection Ho as <- _. split; reflexivity. }
    assert (Hend : forall c, fown i c -> fown i (mk_fcs (f_key c) (f_role c) true (f_out c))).
    { intros c [A B]. split; [|exact B]. intros o t Ho. cbn in *. destruct (A o t Ho). split; [assumption|reflexivity]. }
    unfold with_cs. destruct (frole_of s i).
    + eapply finv_upd; [exact H|reflexivity|exact Hend].
    + set (s1 := mk_fst (upd_at i (fun c => ffinish (FErr i (f_now s)) (mk_fcs (f_key c) (f_role c) true (f_out c))) (f_cs s))
                        (f_flights s) (f_used s) (f_zused s) (f_cap s) (f_zcap s) (f_free s) (f_now s)).
      assert (H1 : finv s1) by (eapply finv_upd; [exact H|reflexivity|exact Hown]).
      apply (finv_map s1); [exact H1|]. intros k c Hc. destruct (f_key c =? fkey_of s i)%nat; [|exact Hc].
      destruct (f_role c); exact Hc.
    + eapply finv_upd; [exact H|reflexivity|exact Hown].
    + eapply finv_upd; [exact H|reflexivity|exact Hend].
    + eapply finv_upd; [exact H|reflexivity|exact Hend].
  - apply complete_all_finv. intros i c Hc. apply (H i c Hc).
  - destruct (frole_of s j) eqn:Er; try exact H.
    destruct (fended_of s j) eqn:Ee; [|apply fenter_finv, H].
    unfold with_cs. intros k c Hc. cbn in Hc. rewrite nth_error_upd_at in Hc.
    destruct (k =? j)%nat eqn:E.
    + apply Nat.eqb_eq in E. subst k. unfold fended_of in Ee.
      destruct (nth_error (f_cs s) j) eqn:En; cbn in Hc; [|discriminate]. injection Hc as <-.
      split; [|intros; discriminate]. intros o t Ho. cbn in Ho. injection Ho as <- _. split; [reflexivity|exact Ee].
    + apply (H k c Hc).
Qed.

Lemma frun_finv evs : forall s, finv s -> finv (frun s evs).
Proof. induction evs as [|e evs IH]; intros s H; cbn; [exact H|]. apply IH, fstep_finv, H. Qed.

Lemma f0_finv keys nkeys cap zcap : finv (f0 keys nkeys cap zcap).
Proof.
  intros i c Hc. cbn in Hc. rewrite nth_error_map in Hc. destruct (nth_error keys i); cbn in Hc; [|discriminate].
  injection Hc as <-. split; intros; discriminate.
Qed.

(* expiry, cancellation and capacity refusal reach the caller they belong to, nobody else *)
Lemma failures_are_own keys nkeys cap zcap evs i :
  let s := frun (f0 keys nkeys cap zcap) evs in
  (forall o t, fout_of s i = FErr o t -> o = i) /\ (forall o z t, fout_of s i = FCap o z t -> o = i).
Proof.
  cbv zeta. pose proof (frun_finv evs _ (f0_finv keys nkeys cap zcap)) as H.
  unfold fout_of. destruct (nth_error (f_cs (frun (f0 keys nkeys cap zcap) evs)) i) as [c|] eqn:En; [|split; intros; discriminate].
  destruct (H i c En) as [A B]. split; [intros o t Ho; apply (A o t Ho)|exact B].
Qed.

(* ---------- 3. slots held = flights running: nothing leaks ---------- *)
Definition b2n (b : bool) : nat := if b then 1%nat else 0%nat.
Definition isl (k : nat) (c : fcs) : bool := match f_role c with GLead => (f_key c =? k)%nat | _ => false end.
Definition nlead (k : nat) (cs : list fcs) : nat := list_sum (map (fun c => b2n (isl k c)) cs).
Definition ntrue (l : list bool) : nat := list_sum (map b2n l).
Definition keys_ok (n : nat) (cs : list fcs) : Prop := Forall (fun c => (f_key c < n)%nat) cs.

Definition linv (s : fst_) : Prop :=
  f_used s = ntrue (f_flights s) /\ f_zused s = ntrue (f_flights s) /\
  keys_ok (length (f_flights s)) (f_cs s) /\
  (forall k, nlead k (f_cs s) = b2n (flight_on s k)).

Lemma lsum_cons a l : list_sum (a :: l) = (a + list_sum l)%nat. Proof. reflexivity. Qed.

Lemma nlead_upd k f : forall cs i c, nth_error cs i = Some c ->
  (nlead k (upd_at i f cs) + b2n (isl k c) = nlead k cs + b2n (isl k (f c)))%nat.
Proof.
  unfold nlead. induction cs as [|x cs IH]; intros [|i] c H; cbn [nth_error upd_at map] in *; try discriminate; rewrite !lsum_cons.
  - injection H as ->. lia.
  - specialize (IH i c H). lia.
Qed.

Lemma nlead_upd_none k f : forall cs i, nth_error cs i = None -> nlead k (upd_at i f cs) = nlead k cs.
Proof.
  unfold nlead. induction cs as [|x cs IH]; intros [|i] H; cbn [nth_error upd_at map] in *; try discriminate; try reflexivity.
  rewrite !lsum_cons. rewrite (IH i H). reflexivity.
Qed.

Lemma nlead_map_same k (g : fcs -> fcs) (cs : list fcs) : (forall c, isl k (g c) = isl k c) -> nlead k (map g cs) = nlead k cs.
Proof. intros H. unfold nlead. rewrite map_map. f_equal. apply map_ext. intros c. rewrite H. reflexivity. Qed.

Lemma nlead_map_zero k (g : fcs -> fcs) (cs : list fcs) : (forall c, isl k (g c) = false) -> nlead k (map g cs) = 0%nat.
Proof.
  intros H. unfold nlead. rewrite map_map. induction cs as [|c cs IH]; cbn [map]; [reflexivity|]. rewrite lsum_cons, IH, H. reflexivity.
Qed.

Lemma keys_ok_upd n cs i f : keys_ok n cs -> (forall c, f_key (f c) = f_key c) -> keys_ok n (upd_at i f cs).
Proof.
  intros H Hf. unfold keys_ok in *. revert i. induction H as [|x l Hx Hl IH]; intros i.
  - destruct i; constructor.
  - destruct i as [|i]; cbn [upd_at]; constructor; auto. rewrite Hf. exact Hx.
Qed.
Lemma keys_ok_map n cs g : keys_ok n cs -> (forall c, f_key (g c) = f_key c) -> keys_ok n (map g cs).
Proof. intros H Hg. induction H; cbn; constructor; auto. rewrite Hg. assumption. Qed.

Lemma set_flight_len l k b : length (set_flight l k b) = length l.
Proof. unfold set_flight. revert k. induction l as [|x l IH]; intros [|k]; cbn; auto. Qed.

Lemma set_flight_nth l b : forall k k', (k < length l)%nat ->
  nth k' (set_flight l k b) false = if (k' =? k)%nat then b else nth k' l false.
Proof.
  unfold set_flight. induction l as [|x l IH]; intros k k' H; cbn in H; [lia|].
  destruct k, k'; cbn; try reflexivity. apply IH. lia.
Qed.

Lemma ntrue_set l b : forall k, (k < length l)%nat ->
  (ntrue (set_flight l k b) + b2n (nth k l false) = ntrue l + b2n b)%nat.
Proof.
  unfold ntrue, set_flight. induction l as [|x l IH]; intros k H; cbn in H; [lia|].
  destruct k; cbn [upd_at map nth]; rewrite !lsum_cons; [lia|]. specialize (IH k ltac:(lia)). lia.
Qed.

Lemma key_in_range s i c : linv s -> nth_error (f_cs s) i = Some c -> (f_key c < length (f_flights s))%nat.
Proof. intros (_ & _ & K & _) H. unfold keys_ok in K. rewrite Forall_forall in K. apply K. eapply nth_error_In; eauto. Qed.

(* the flight of k completes: its slot pair comes back *)
Lemma fcomplete_linv s k : linv s -> flight_on s k = true -> (k < length (f_flights s))%nat -> linv (fcomplete s k).
Proof.
  intros (U & Z & K & L) Hon Hk. unfold fcomplete, linv. cbn [f_used f_zused f_flights f_cs].
  pose proof (ntrue_set (f_flights s) false k Hk) as T. unfold flight_on in Hon. rewrite Hon in T. cbn [b2n] in T.
  split; [lia|]. split; [lia|]. split.
  - rewrite set_flight_len. apply keys_ok_map; [exact K|]. intros c. destruct (f_key c =? k)%nat; [destruct (f_role c)|]; reflexivity.
  - intros k'. unfold flight_on. cbn [f_flights]. rewrite set_flight_nth by exact Hk.
    destruct (k' =? k)%nat eqn:E.
    + apply Nat.eqb_eq in E. subst k'. apply nlead_map_zero. intros c. unfold isl.
      destruct (f_key c =? k)%nat eqn:Ek.
      * destruct (f_role c) eqn:Er; cbn [ffinish f_role f_key]; rewrite ?Er; reflexivity.
      * destruct (f_role c); try reflexivity. exact Ek.
    + pose proof (L k') as Lk. unfold flight_on in Lk. rewrite <- Lk. apply nlead_map_same. intros c. unfold isl.
      destruct (f_key c =? k)%nat eqn:Ek; [|reflexivity]. apply Nat.eqb_eq in Ek.
      destruct (f_role c) eqn:Er; cbn [ffinish f_role f_key]; rewrite ?Er; try reflexivity.
      rewrite Ek, Nat.eqb_sym, E. reflexivity.
Qed.

(* an update of one caller that neither was nor becomes a leader changes no count *)
Lemma quiet_upd_linv s i f :
  linv s -> frole_of s i <> GLead -> (forall c, f_key (f c) = f_key c) -> (forall c, f_role (f c) <> GLead) ->
  linv (with_cs s (upd_at i f (f_cs s))).
Proof.
  intros (U & Z & K & L) Hr Hk Hf. unfold with_cs, linv. cbn [f_used f_zused f_flights f_cs].
  split; [exact U|]. split; [exact Z|]. split; [apply keys_ok_upd; assumption|].
  intros k. unfold flight_on. cbn [f_flights]. fold (flight_on s k). rewrite <- (L k).
  destruct (nth_error (f_cs s) i) as [c|] eqn:En; [|apply nlead_upd_none, En].
  pose proof (nlead_upd k f (f_cs s) i c En) as N.
  assert (A : isl k c = false) by (unfold isl; unfold frole_of in Hr; rewrite En in Hr; destruct (f_role c); try reflexivity; contradiction).
  assert (B : isl k (f c) = false) by (unfold isl; specialize (Hf c); destruct (f_role (f c)); try reflexivity; contradiction).
  rewrite A, B in N. cbn in N. lia.
Qed.

Lemma fenter_linv s i : linv s -> (frole_of s i = GIdle \/ exists o, frole_of s i = GPending o) -> linv (fenter s i).
Proof.
  intros H Hr. assert (Hnl : frole_of s i <> GLead) by (destruct Hr as [E|[o E]]; rewrite E; discriminate).
  assert (Hc : exists c, nth_error (f_cs s) i = Some c).
  { unfold frole_of in Hr. destruct (nth_error (f_cs s) i) as [c|]; [eauto|]. destruct Hr as [E|[o E]]; discriminate. }
  destruct Hc as [c En]. pose proof (key_in_range s i c H En) as Hk.
  assert (Ek : fkey_of s i = f_key c) by (unfold fkey_of; rewrite En; reflexivity).
  unfold fenter. rewrite Ek.
  destruct (flight_on s (f_key c)) eqn:Eon.
  { apply quiet_upd_linv; try assumption; [reflexivity|intros; discriminate]. }
  destruct (f_cap s <=? f_used s)%nat.
  { apply quiet_upd_linv; try assumption; [reflexivity|intros; discriminate]. }
  destruct (f_zcap s <=? f_zused s)%nat.
  { apply quiet_upd_linv; try assumption; [reflexivity|intros; discriminate]. }
  (* it leads: one flight more, one slot pair more *)
  set (s1 := mk_fst (upd_at i (fset_role GLead) (f_cs s)) (set_flight (f_flights s) (f_key c) true)
                    (S (f_used s)) (S (f_zused s)) (f_cap s) (f_zcap s) (f_free s) (f_now s)).
  assert (L1 : linv s1).
  { destruct H as (U & Z & K & L). unfold linv, s1. cbn [f_used f_zused f_flights f_cs].
    pose proof (ntrue_set (f_flights s) true (f_key c) Hk) as T. unfold flight_on in Eon. rewrite Eon in T. cbn [b2n] in T.
    split; [lia|]. split; [lia|]. split; [rewrite set_flight_len; apply keys_ok_upd; [exact K|reflexivity]|].
    intros k. unfold flight_on. cbn [f_flights]. rewrite set_flight_nth by exact Hk.
    pose proof (nlead_upd k (fset_role GLead) (f_cs s) i c En) as N.
    assert (A : isl k c = false) by (unfold isl; unfold frole_of in Hnl; rewrite En in Hnl; destruct (f_role c); try reflexivity; contradiction).
    rewrite A in N. cbn [b2n] in N. unfold isl in N. cbn [fset_role f_role f_key] in N.
    specialize (L k). unfold flight_on in L. rewrite Nat.eqb_sym.
    destruct (f_key c =? k)%nat eqn:E; cbn [b2n] in *.
    - apply Nat.eqb_eq in E. subst k. rewrite Eon in L. cbn in L. lia.
    - lia. }
  cbn [f_free]. destruct (f_free s); [|exact L1].
  apply fcomplete_linv; [exact L1| |unfold s1; cbn [f_flights]; rewrite set_flight_len; exact Hk].
  unfold flight_on, s1. cbn [f_flights]. rewrite set_flight_nth by exact Hk. rewrite Nat.eqb_refl. reflexivity.
Qed.

Lemma complete_all_linv ks : forall s, linv s -> linv (complete_all ks s).
Proof.
  induction ks as [|k ks IH]; intros s H; cbn; [exact H|]. apply IH.
  destruct (flight_on s k) eqn:E; [|exact H]. apply fcomplete_linv; [exact H|exact E|].
  unfold flight_on in E. destruct (Nat.lt_ge_cases k (length (f_flights s))) as [Hl|Hl]; [exact Hl|].
  rewrite nth_overflow in E by exact Hl. discriminate.
Qed.

(* an update that keeps key and role changes no count *)
Lemma keep_upd_linv s i f :
  linv s -> (forall c, f_key (f c) = f_key c) -> (forall c, f_role (f c) = f_role c) ->
  linv (with_cs s (upd_at i f (f_cs s))).
Proof.
  intros (U & Z & K & L) Hk Hf. unfold with_cs, linv. cbn [f_used f_zused f_flights f_cs].
  split; [exact U|]. split; [exact Z|]. split; [apply keys_ok_upd; assumption|].
  intros k. unfold flight_on. cbn [f_flights]. fold (flight_on s k). rewrite <- (L k).
  destruct (nth_error (f_cs s) i) as [c|] eqn:En; [|apply nlead_upd_none, En].
  pose proof (nlead_upd k f (f_cs s) i c En) as N.
  assert (A : isl k (f c) = isl k c) by (unfold isl; rewrite Hf, Hk; reflexivity).
  rewrite A in N. lia.
Qed.

Lemma nlead_pos k cs i c : nth_error cs i = Some c -> isl k c = true -> (1 <= nlead k cs)%nat.
Proof.
  unfold nlead. revert i. induction cs as [|x cs IH]; intros [|i] H Hc; cbn [nth_error map] in *; try discriminate; rewrite lsum_cons.
  - injection H as ->. rewrite Hc. cbn. lia.
  - specialize (IH i H Hc). lia.
Qed.

(* the leader's own context ends: its flight is over, its slot pair comes back *)
Lemma leader_end_linv s i :
  linv s -> frole_of s i = GLead ->
  linv (mk_fst (map (fun c => if (f_key c =? fkey_of s i)%nat then
                                 match f_role c with GFollow => fset_role (GPending i) c | _ => c end
                               else c)
                    (upd_at i (fun c => ffinish (FErr i (f_now s)) (mk_fcs (f_key c) (f_role c) true (f_out c))) (f_cs s)))
              (set_flight (f_flights s) (fkey_of s i) false) (pred (f_used s)) (pred (f_zused s))
              (f_cap s) (f_zcap s) (f_free s) (f_now s)).
Proof.
  intros H Hr. pose proof H as (U & Z & K & L).
  assert (Hc : exists c, nth_error (f_cs s) i = Some c /\ f_role c = GLead).
  { unfold frole_of in Hr. destruct (nth_error (f_cs s) i) as [c|]; [eauto|discriminate]. }
  destruct Hc as (c & En & Ec). pose proof (key_in_range s i c H En) as Hk.
  assert (Ek : fkey_of s i = f_key c) by (unfold fkey_of; rewrite En; reflexivity). rewrite Ek.
  assert (Il : isl (f_key c) c = true) by (unfold isl; rewrite Ec; apply Nat.eqb_refl).
  assert (Hon : flight_on s (f_key c) = true).
  { pose proof (nlead_pos _ _ _ _ En Il) as P. rewrite (L (f_key c)) in P. destruct (flight_on s (f_key c)); [reflexivity|cbn in P; lia]. }
  unfold linv. cbn [f_used f_zused f_flights f_cs].
  pose proof (ntrue_set (f_flights s) false (f_key c) Hk) as T. unfold flight_on in Hon. rewrite Hon in T. cbn [b2n] in T.
  split; [lia|]. split; [lia|]. split.
  - rewrite set_flight_len. apply keys_ok_map; [apply keys_ok_upd; [exact K|reflexivity]|].
    intros x. destruct (f_key x =? f_key c)%nat; [destruct (f_role x)|]; reflexivity.
  - intros k. unfold flight_on. cbn [f_flights]. rewrite set_flight_nth by exact Hk.
    rewrite nlead_map_same.
    2:{ intros x. unfold isl. destruct (f_key x =? f_key c)%nat; [|reflexivity].
        destruct (f_role x) eqn:Er; cbn [fset_role f_role f_key]; rewrite ?Er; reflexivity. }
    pose proof (nlead_upd k (fun c0 => ffinish (FErr i (f_now s)) (mk_fcs (f_key c0) (f_role c0) true (f_out c0))) (f_cs s) i c En) as N.
    assert (B : isl k (ffinish (FErr i (f_now s)) (mk_fcs (f_key c) (f_role c) true (f_out c))) = false) by reflexivity.
    cbv beta in N. rewrite B in N. cbn [b2n] in N. specialize (L k). unfold flight_on in L.
    destruct (k =? f_key c)%nat eqn:E.
    + apply Nat.eqb_eq in E. subst k. rewrite Il in N. rewrite Hon in L. cbn [b2n] in *. lia.
    + assert (A : isl k c = false) by (unfold isl; rewrite Ec; rewrite Nat.eqb_sym; exact E). rewrite A in N. cbn [b2n] in N. lia.
Qed.

Lemma fstep_linv s e : linv s -> linv (fstep s e).
Proof.
  intros H. destruct e as [i|i| |j]; cbn [fstep].
  - destruct (frole_of s i) eqn:Er; try exact H. apply fenter_linv; [exact H|left; exact Er].
  - destruct (frole_of s i) eqn:Er.
    + apply keep_upd_linv; [exact H|reflexivity|reflexivity].
    + apply leader_end_linv; assumption.
    + apply quiet_upd_linv; [exact H|rewrite Er; discriminate|reflexivity|intros; discriminate].
    + apply keep_upd_linv; [exact H|reflexivity|reflexivity].
    + apply keep_upd_linv; [exact H|reflexivity|reflexivity].
  - apply complete_all_linv. exact H.
  - destruct (frole_of s j) eqn:Er; try exact H.
    destruct (fended_of s j); [|apply fenter_linv; [exact H|right; eauto]].
    apply quiet_upd_linv; [exact H|rewrite Er; discriminate|reflexivity|intros; discriminate].
Qed.

Lemma frun_linv evs : forall s, linv s -> linv (frun s evs).
Proof. induction evs as [|e evs IH]; intros s H; cbn; [exact H|]. apply IH, fstep_linv, H. Qed.

Lemma f0_linv keys nkeys cap zcap : Forall (fun k => (k < nkeys)%nat) keys -> linv (f0 keys nkeys cap zcap).
Proof.
  intros Hk. unfold linv, f0. cbn [f_used f_zused f_flights f_cs].
  assert (T : forall n, ntrue (repeat false n) = 0%nat) by (induction n; cbn; auto).
  split; [rewrite T; reflexivity|]. split; [rewrite T; reflexivity|]. split.
  - unfold keys_ok. rewrite repeat_length. rewrite Forall_forall in *. intros c Hc. apply in_map_iff in Hc as (k & <- & Hin). cbn. apply Hk, Hin.
  - intros k. unfold flight_on. cbn [f_flights].
    assert (R : nth k (repeat false nkeys) false = false) by (clear; revert k; induction nkeys; intros [|k]; cbn; auto).
    rewrite R. cbn [b2n]. unfold nlead. rewrite map_map. clear. induction keys as [|a keys IH]; cbn [map]; [reflexivity|].
    rewrite lsum_cons, IH. reflexivity.
Qed.

(* slots held = flights running, in every history; so when no flight runs nothing is held *)
Lemma slots_are_flights keys nkeys cap zcap evs :
  Forall (fun k => (k < nkeys)%nat) keys ->
  let s := frun (f0 keys nkeys cap zcap) evs in
  f_used s = ntrue (f_flights s) /\ f_zused s = ntrue (f_flights s).
Proof. intros Hk. cbv zeta. destruct (frun_linv evs _ (f0_linv keys nkeys cap zcap Hk)) as (U & Z & _). split; assumption. Qed.

Lemma ntrue_zero l : (forall k, nth k l false = false) -> ntrue l = 0%nat.
Proof.
  induction l as [|x l IH]; intros H; [reflexivity|]. unfold ntrue in *. cbn [map]. rewrite lsum_cons.
  pose proof (H 0%nat) as H0. cbn in H0. subst x. cbn. apply IH. intros k. apply (H (S k)).
Qed.

Lemma no_slot_leak keys nkeys cap zcap evs :
  Forall (fun k => (k < nkeys)%nat) keys ->
  let s := frun (f0 keys nkeys cap zcap) evs in
  (forall k, flight_on s k = false) -> f_used s = 0%nat /\ f_zused s = 0%nat.
Proof.
  intros Hk. cbv zeta. intros Hn. destruct (slots_are_flights keys nkeys cap zcap evs Hk) as [U Z]. cbv zeta in U, Z.
  rewrite U, Z. rewrite ntrue_zero by exact Hn. split; reflexivity.
Qed.

(* a history the driver produced: three keys over two global slots and a zone quota of two; two
   callers are shed at the pool the instant they try, everybody else ends with its own error;
   the pools are full while two flights run and empty at the end *)
Example two_slots_three_keys :
  let s := ffinal (f0 [2; 1; 2; 0; 2; 0; 0; 1]%nat 3 2 2)
    [GAt 560 (GArrive 4); GAt 622 (GArrive 6); GAt 708 (GArrive 2); GAt 1078 (GArrive 0); GAt 1436 (GArrive 1);
     GAt 1486 (GArrive 7); GAt 2069 (GArrive 3); GAt 2819 (GArrive 5); GAt 3700 (GEnd 2); GAt 5821 (GEnd 7);
     GAt 5924 (GEnd 4); GAt 6177 (GEnd 3); GAt 6246 (GEnd 5); GAt 6341 (GEnd 0); GAt 6379 (GEnd 6); GAt 7280 (GEnd 1)]%nat in
  (map (fout_of s) [1; 7]%nat, f_used s, f_zused s) = ([FCap 1 false 1436; FCap 7 false 1486], 0%nat, 0%nat).
Proof. vm_compute. reflexivity. Qed.
