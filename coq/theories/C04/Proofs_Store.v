(* C04 — proofs, part 2: the pointer-CAS store.  A refresh that completes
   after newer state was stored for its key never overwrites it, for every
   interleaving of client-path operations. *)
From Sdns Require Import Common.Base Gen.C04 C04.Model.
Open Scope N_scope.

Lemma im_get_set_same m k v : im_get (im_set m k v) k = Some v.
Proof. unfold im_set. cbn. rewrite N.eqb_refl. reflexivity. Qed.

Lemma im_get_remove_same m k : im_get (im_remove m k) k = None.
Proof.
  unfold im_remove. induction m as [|[k' v'] m IH]; cbn; [reflexivity|].
  destruct (N.eqb_spec k' k); cbn; [exact IH|].
  destruct (N.eqb_spec k' k); [contradiction|exact IH].
Qed.

Lemma im_get_remove_other m k k' : k' <> k -> im_get (im_remove m k) k' = im_get m k'.
Proof.
  intros Hne. unfold im_remove. induction m as [|[k0 v0] m IH]; cbn; [reflexivity|].
  destruct (N.eqb_spec k0 k); cbn.
  - subst k0. destruct (N.eqb_spec k k'); [congruence|exact IH].
  - destruct (N.eqb_spec k0 k'); [reflexivity|exact IH].
Qed.

Lemma im_get_set_other m k v k' : k' <> k -> im_get (im_set m k v) k' = im_get m k'.
Proof.
  intros Hne. unfold im_set. cbn. destruct (N.eqb_spec k k'); [congruence|].
  apply im_get_remove_other. exact Hne.
Qed.

Local Arguments im_set : simpl never.
Local Arguments im_remove : simpl never.

(* every stored id was allocated before: below the counter *)
Definition ids_below (s : sstate) : Prop := forall k v, im_get (ss_map s) k = Some v -> v < ss_next s.

Lemma sstep_next_mono s o : ss_next s <= ss_next (fst (sstep s o)).
Proof.
  destruct o as [k|k|k old]; cbn; try lia.
  destruct (im_get (ss_map s) k) as [cur|]; [destruct (cur =? old)|]; cbn; lia.
Qed.

Lemma sstep_ids_below s o : ids_below s -> ids_below (fst (sstep s o)).
Proof.
  intros H. destruct o as [k|k|k old]; cbn.
  - intros k' v. cbn. destruct (N.eq_dec k' k) as [->|Hne].
    + rewrite im_get_set_same. intros [= <-]. lia.
    + rewrite im_get_set_other by exact Hne. intros Hg. apply H in Hg. lia.
  - intros k' v. cbn. destruct (N.eq_dec k' k) as [->|Hne].
    + rewrite im_get_remove_same. discriminate.
    + rewrite im_get_remove_other by exact Hne. apply H.
  - destruct (im_get (ss_map s) k) as [cur|] eqn:E; [destruct (cur =? old)|]; cbn.
    + intros k' v. cbn. destruct (N.eq_dec k' k) as [->|Hne].
      * rewrite im_get_set_same. intros [= <-]. lia.
      * rewrite im_get_set_other by exact Hne. intros Hg. apply H in Hg. lia.
    + intros k' v Hg. cbn in *. apply H in Hg. lia.
    + intros k' v Hg. cbn in *. apply H in Hg. lia.
Qed.

Lemma srun_ids_below ops s : ids_below s -> ids_below (srun s ops).
Proof.
  revert s. induction ops as [|o ops IH]; intros s H; cbn; [exact H|].
  apply IH. apply sstep_ids_below. exact H.
Qed.
Lemma srun_next_mono ops s : ss_next s <= ss_next (srun s ops).
Proof.
  revert s. induction ops as [|o ops IH]; intros s; cbn; [lia|].
  specialize (IH (fst (sstep s o))). pose proof (sstep_next_mono s o). unfold srun in *. lia.
Qed.

(* "the entry the refresh claimed is no longer what the key holds":
   superseded, and it can never come back because every later id is fresh *)
Definition superseded (k e0 : N) (s : sstate) : Prop :=
  e0 < ss_next s /\ im_get (ss_map s) k <> Some e0.

Lemma superseded_step k e0 s o : ids_below s -> superseded k e0 s -> superseded k e0 (fst (sstep s o)).
Proof.
  intros Hb [Hlt Hne]. split; [pose proof (sstep_next_mono s o); lia|].
  destruct o as [k'|k'|k' old]; cbn.
  - destruct (N.eq_dec k k') as [<-|Hk].
    + rewrite im_get_set_same. intros [= E]. lia.
    + rewrite im_get_set_other by exact Hk. exact Hne.
  - destruct (N.eq_dec k k') as [<-|Hk].
    + rewrite im_get_remove_same. discriminate.
    + rewrite im_get_remove_other by exact Hk. exact Hne.
  - destruct (im_get (ss_map s) k') as [cur|] eqn:E; [destruct (cur =? old)|]; cbn; try exact Hne.
    destruct (N.eq_dec k k') as [<-|Hk].
    + rewrite im_get_set_same. intros [= E2]. lia.
    + rewrite im_get_set_other by exact Hk. exact Hne.
Qed.

Lemma superseded_run k e0 ops s : ids_below s -> superseded k e0 s -> superseded k e0 (srun s ops).
Proof.
  revert s. induction ops as [|o ops IH]; intros s Hb Hs; cbn; [exact Hs|].
  apply IH; [apply sstep_ids_below; exact Hb | apply superseded_step; assumption].
Qed.

(* a client-path write (or a removal) for the key supersedes whatever was claimed *)
Lemma set_supersedes k e0 s : e0 < ss_next s -> superseded k e0 (fst (sstep s (SSet k))).
Proof. intros H. split; cbn; [lia|]. rewrite im_get_set_same. intros [= E]. lia. Qed.
Lemma remove_supersedes k e0 s : e0 < ss_next s -> superseded k e0 (fst (sstep s (SRemove k))).
Proof. intros H. split; cbn; [lia|]. rewrite im_get_remove_same. discriminate. Qed.

Lemma cas_fails_when_superseded k e0 s :
  superseded k e0 s -> snd (sstep s (SCas k e0)) = false /\ ss_map (fst (sstep s (SCas k e0))) = ss_map s.
Proof.
  intros [_ Hne]. cbn. destruct (im_get (ss_map s) k) as [cur|] eqn:E.
  - destruct (N.eqb_spec cur e0); [subst; congruence|]. cbn. split; reflexivity.
  - cbn. split; reflexivity.
Qed.

(* The late-write theorem.  [s]: any reachable store in which the refresh
   claimed the entry [e0] stored under [k].  [before]: anything the client path
   does; [w]: a write or removal for [k]; [after]: anything else, including
   other refreshes.  The completion of the stale claim fails and changes
   nothing. *)
Lemma late_prefetch_never_overwrites_l s k e0 before w after :
  ids_below s -> im_get (ss_map s) k = Some e0 ->
  (w = SSet k \/ w = SRemove k) ->
  let s' := srun s (before ++ [w] ++ after) in
  snd (sstep s' (SCas k e0)) = false
  /\ ss_map (fst (sstep s' (SCas k e0))) = ss_map s'
  /\ im_get (ss_map s') k <> Some e0.
Proof.
  intros Hb Hclaim Hw s'.
  assert (Hlt : e0 < ss_next s) by (apply Hb in Hclaim; exact Hclaim).
  assert (Hsup : superseded k e0 s').
  { subst s'. unfold srun. rewrite fold_left_app. cbn [app fold_left].
    fold (srun s before). set (s1 := srun s before).
    assert (Hb1 : ids_below s1) by (apply srun_ids_below; exact Hb).
    assert (Hlt1 : e0 < ss_next s1) by (pose proof (srun_next_mono before s); subst s1; lia).
    change (superseded k e0 (srun (fst (sstep s1 w)) after)).
    apply superseded_run; [apply sstep_ids_below; exact Hb1|].
    destruct Hw as [->| ->]; [apply set_supersedes | apply remove_supersedes]; exact Hlt1. }
  pose proof (cas_fails_when_superseded k e0 s' Hsup) as [H1 H2].
  repeat split; try assumption. exact (proj2 Hsup).
Qed.

(* and the guard is not vacuous: while nothing touched the key the refresh goes through *)
Definition touches (k : N) (o : sop) : bool :=
  match o with SSet k' | SRemove k' | SCas k' _ => (k' =? k) end.

Lemma untouched_keeps k e0 ops s :
  forallb (fun o => negb (touches k o)) ops = true ->
  im_get (ss_map s) k = Some e0 -> im_get (ss_map (srun s ops)) k = Some e0.
Proof.
  revert s. induction ops as [|o ops IH]; intros s Hf Hg; cbn; [exact Hg|].
  cbn in Hf. apply andb_prop in Hf. destruct Hf as [Ho Hf]. apply IH; [exact Hf|].
  destruct o as [k'|k'|k' old]; cbn in Ho |- *; apply negb_true_iff in Ho; apply N.eqb_neq in Ho.
  - rewrite im_get_set_other by congruence. exact Hg.
  - rewrite im_get_remove_other by congruence. exact Hg.
  - destruct (im_get (ss_map s) k') as [cur|]; [destruct (cur =? old)|]; cbn; try exact Hg.
    rewrite im_get_set_other by congruence. exact Hg.
Qed.

Lemma timely_prefetch_replaces s k e0 ops :
  im_get (ss_map s) k = Some e0 ->
  forallb (fun o => negb (touches k o)) ops = true ->
  let s' := srun s ops in
  snd (sstep s' (SCas k e0)) = true /\ im_get (ss_map (fst (sstep s' (SCas k e0)))) k = Some (ss_next s').
Proof.
  intros Hg Hf s'. pose proof (untouched_keeps k e0 ops s Hf Hg) as H. fold s' in H.
  cbn. rewrite H, N.eqb_refl. cbn. split; [reflexivity|apply im_get_set_same].
Qed.

(* the store of entries (Model.st_cas) agrees with the id automaton *)
Lemma st_cas_pointer s k old e :
  snd (st_cas s k old e) = true <-> exists cur, st_get s k = Some cur /\ e_id cur = old.
Proof.
  unfold st_cas. destruct (st_get s k) as [cur|].
  - destruct (N.eqb_spec (e_id cur) old); cbn; split; intros H; try discriminate; try reflexivity.
    + exists cur. split; [reflexivity|assumption].
    + destruct H as [c [[= <-] Hc]]. contradiction.
  - cbn. split; [discriminate|]. intros [c [Hc _]]. discriminate.
Qed.
Lemma st_cas_fail_keeps s k old e : snd (st_cas s k old e) = false -> fst (st_cas s k old e) = s.
Proof.
  unfold st_cas. destruct (st_get s k) as [cur|]; [|reflexivity].
  destruct (e_id cur =? old); cbn; [discriminate|reflexivity].
Qed.
