(* C04 — proofs, part 5: DNS64 composition above the cache
   (middleware/dns64 responseWriter.synthesise as repaired by af44539).
   A synthesised AAAA is composed from the AAAA answer, the alias pieces of the
   A chase and the address answer.  Every one of them folds a deadline into the
   request tree (a cache hit its end of life, a fresh answer its delegation
   lease); the synthesised TTL is the RFC 6147 5.1.7 value capped by what is
   left until the earliest of them. *)
From Sdns Require Import Common.Base Gen.C04 C04.Model C04.Run C04.Proofs.
Open Scope Z_scope.

(* tie: the cap divides by what the source divides by, one second *)
Lemma gen_dns64_cap_unit : dns64_cap_unit = second.
Proof. reflexivity. Qed.

Lemma dns64_cap_le b now ttl : dns64_cap b now ttl <= ttl.
Proof.
  unfold dns64_cap. rewrite gen_dns64_cap_unit. destruct b as [c|]; [|lia].
  cbv zeta. destruct (Z.ltb_spec ((if c - now <? 0 then 0 else c - now) / second) ttl); lia.
Qed.

Lemma dns64_cap_nonneg b now ttl : 0 <= ttl -> 0 <= dns64_cap b now ttl.
Proof.
  intros Ht. unfold dns64_cap. rewrite gen_dns64_cap_unit. destruct b as [c|]; [|lia]. cbv zeta.
  pose proof second_pos as Hs.
  assert (Hl : 0 <= (if c - now <? 0 then 0 else c - now)) by (destruct (Z.ltb_spec (c - now) 0); lia).
  pose proof (Z.div_pos _ second Hl Hs) as Hd.
  destruct (Z.ltb_spec ((if c - now <? 0 then 0 else c - now) / second) ttl); lia.
Qed.

(* the capped TTL, in nanoseconds, is inside what is left until the bound *)
Lemma dns64_cap_within c now ttl : dns64_cap (Some c) now ttl * second <= Z.max 0 (c - now).
Proof.
  unfold dns64_cap. rewrite gen_dns64_cap_unit. cbv zeta. pose proof second_pos as Hs.
  set (left := if c - now <? 0 then 0 else c - now).
  assert (Hl : left = Z.max 0 (c - now)) by (subst left; destruct (Z.ltb_spec (c - now) 0); lia).
  assert (H0 : 0 <= left) by lia.
  assert (Hd : left / second * second <= left).
  { pose proof (Z.mul_div_le left second Hs). lia. }
  destruct (Z.ltb_spec (left / second) ttl) as [Hlt|Hge].
  - lia.
  - assert (ttl * second <= left / second * second) by (apply Z.mul_le_mono_nonneg_r; lia). lia.
Qed.

Lemma dns64_bound_le m ps p d :
  In p ps -> piece_fold p = Some d -> ole (dns64_bound m ps) d.
Proof.
  intros Hin Hf. unfold dns64_bound.
  change (fold_left bound (map piece_fold ps) m) with (fold_bounds m (map piece_fold ps)).
  apply fold_bounds_le. rewrite <- Hf. apply in_map. exact Hin.
Qed.

Lemma dns64_bound_none ps :
  (forall p, In p ps -> piece_fold p = None) -> dns64_bound None ps = None.
Proof.
  unfold dns64_bound. induction ps as [|p ps IH]; intros H; [reflexivity|].
  cbn. rewrite (H p (or_introl eq_refl)). cbn. apply IH. intros q Hq. apply H. right. exact Hq.
Qed.

(* every consulted piece bounds the synthesised records *)
Lemma dns64_inherits_min_l neg addrs consulted now p d :
  In p consulted -> piece_fold p = Some d ->
  dns64_ttl neg addrs consulted now * second <= Z.max 0 (d - now).
Proof.
  intros Hin Hf. unfold dns64_ttl.
  pose proof (dns64_bound_le None consulted p d Hin Hf) as Ho.
  destruct (dns64_bound None consulted) as [c|] eqn:E; cbn in Ho; [|tauto].
  pose proof (dns64_cap_within c now (dns64_rfc_ttl neg addrs now)). lia.
Qed.

(* in the statement's terms: a cached piece that is still alive has at least
   the synthesised TTL left; a piece already over leaves TTL <= 0 *)
Lemma dns64_within_cached_piece neg addrs consulted now e :
  In (PHit e) consulted ->
  dns64_ttl neg addrs consulted now * second <= Z.max 0 (remaining e now)
  /\ (now < entry_end e -> dns64_ttl neg addrs consulted now * second <= entry_end e - now).
Proof.
  intros Hin.
  pose proof (dns64_inherits_min_l neg addrs consulted now (PHit e) (bound_entry e) Hin eq_refl) as H.
  rewrite bound_entry_eq in H. rewrite remaining_eq. split; [exact H|]. intros Hl. lia.
Qed.

(* a fresh answer learned through a delegation lease bounds them as well *)
Lemma dns64_within_lease neg addrs consulted now t l :
  In (PFresh t (Some l)) consulted ->
  dns64_ttl neg addrs consulted now * second <= Z.max 0 (l - now).
Proof. intros Hin. exact (dns64_inherits_min_l neg addrs consulted now _ l Hin eq_refl). Qed.

(* the RFC 6147 5.1.7 part: never above an address record or the negative TTL *)
Lemma dns64_rfc_fold_le now addrs init :
  fold_left (fun cur p => let t := piece_ttl p now in if t <? cur then t else cur) addrs init <= init
  /\ forall p, In p addrs ->
       fold_left (fun cur p => let t := piece_ttl p now in if t <? cur then t else cur) addrs init <= piece_ttl p now.
Proof.
  revert init. induction addrs as [|a addrs IH]; intros init; cbn.
  - split; [lia|tauto].
  - cbv zeta.
    set (x := if piece_ttl a now <? init then piece_ttl a now else init).
    assert (Hx : x <= init /\ x <= piece_ttl a now)
      by (subst x; destruct (Z.ltb_spec (piece_ttl a now) init); lia).
    destruct (IH x) as [H1 H2]. cbv zeta in H1, H2.
    split; [lia|].
    intros p [<-|Hp]; [lia|apply H2, Hp].
Qed.

Lemma dns64_le_rfc neg addrs consulted now :
  dns64_ttl neg addrs consulted now <= dns64_rfc_ttl neg addrs now
  /\ dns64_rfc_ttl neg addrs now <= dns64_neg neg now
  /\ (forall p, In p addrs -> dns64_rfc_ttl neg addrs now <= piece_ttl p now).
Proof.
  split; [apply dns64_cap_le|]. unfold dns64_rfc_ttl. apply dns64_rfc_fold_le.
Qed.

Lemma dns64_rfc_fold_nonneg now addrs init :
  0 <= init -> (forall p, In p addrs -> 0 <= piece_ttl p now) ->
  0 <= fold_left (fun cur p => let t := piece_ttl p now in if t <? cur then t else cur) addrs init.
Proof.
  revert init. induction addrs as [|a addrs IH]; intros init Hi Hp; cbn; [exact Hi|].
  apply IH.
  - pose proof (Hp a (or_introl eq_refl)). cbv zeta. destruct (Z.ltb_spec (piece_ttl a now) init); lia.
  - intros p H. apply Hp. right. exact H.
Qed.

Lemma dns64_nonneg neg addrs consulted now :
  0 <= dns64_neg neg now -> (forall p, In p addrs -> 0 <= piece_ttl p now) ->
  0 <= dns64_ttl neg addrs consulted now.
Proof.
  intros Hn Hp. unfold dns64_ttl. apply dns64_cap_nonneg. unfold dns64_rfc_ttl.
  apply dns64_rfc_fold_nonneg; assumption.
Qed.

(* no bound, no change: with nothing cached and no lease reported the TTL is RFC 6147's *)
Lemma dns64_unbounded neg addrs consulted now :
  (forall p, In p consulted -> piece_fold p = None) ->
  dns64_ttl neg addrs consulted now = dns64_rfc_ttl neg addrs now.
Proof. intros H. unfold dns64_ttl. rewrite (dns64_bound_none consulted H). reflexivity. Qed.

Lemma dns64_inherits_min_all neg addrs consulted now :
  (forall p d, In p consulted -> piece_fold p = Some d ->
     dns64_ttl neg addrs consulted now * second <= Z.max 0 (d - now))
  /\ (forall e, In (PHit e) consulted ->
        dns64_ttl neg addrs consulted now * second <= Z.max 0 (remaining e now)
        /\ (now < entry_end e -> dns64_ttl neg addrs consulted now * second <= entry_end e - now))
  /\ dns64_ttl neg addrs consulted now <= dns64_rfc_ttl neg addrs now
  /\ dns64_rfc_ttl neg addrs now <= dns64_neg neg now
  /\ (forall p, In p addrs -> dns64_rfc_ttl neg addrs now <= piece_ttl p now)
  /\ (0 <= dns64_neg neg now -> (forall p, In p addrs -> 0 <= piece_ttl p now) ->
        0 <= dns64_ttl neg addrs consulted now)
  /\ ((forall p, In p consulted -> piece_fold p = None) ->
        dns64_ttl neg addrs consulted now = dns64_rfc_ttl neg addrs now).
Proof.
  split; [intros p d; apply dns64_inherits_min_l|].
  split; [intros e; apply dns64_within_cached_piece|].
  destruct (dns64_le_rfc neg addrs consulted now) as (H1 & H2 & H3).
  repeat split; try assumption.
  - apply dns64_nonneg.
  - apply dns64_unbounded.
Qed.

(* The cap is necessary: the RFC 6147 value alone (the code before af44539)
   outlives a cached AAAA NODATA that carries no SOA (held for the 5 s floor).
   Entry admitted at 0 for 5 s, read at 2 s, address record fresh with 3600 s:
   600 s are handed out with 3 s left; the repaired TTL is 3. *)
Definition bare_nodata : entry := mk_entry 1 0 (5 * second) None false.
Lemma dns64_rfc_alone_outlives_piece :
  let now := 2 * second in
  let addrs := [PFresh 3600 None] in
  let consulted := PHit bare_nodata :: addrs in
  now < entry_end bare_nodata
  /\ dns64_rfc_ttl None addrs now * second > remaining bare_nodata now
  /\ dns64_ttl None addrs consulted now = 3.
Proof. vm_compute. repeat split; reflexivity. Qed.

(* ------------------------------------------------------------------ *)
(** * The denial rung inside a request tree *)

(* A denial synthesised from the RFC 8198 index or a subtree cut is served
   strictly before its deadline with a TTL inside what is left; the request tree
   is bound by that deadline from then on (whatever else is folded), so every
   entry admitted with the tree's bound as its lease -- the alias that adopted
   the denial, and anything re-cached from that -- ends with the denial. *)
Lemma denial_rung_inherits_l m d lease now t :
  cut_serve d now = Some t ->
  now < d /\ 0 <= t /\ t * second <= d - now
  /\ ole (denial_rung_bound m d lease) d
  /\ mle (denial_rung_bound m d lease) m
  /\ (forall e, e_cut e = denial_rung_bound m d lease -> entry_end e <= d).
Proof.
  intros H. destruct (cut_serve_spec d now t H) as (H1 & H2 & H3).
  assert (Ho : ole (denial_rung_bound m d lease) d).
  { unfold denial_rung_bound. apply ole_bound_l. apply ole_bound_r. cbn. lia. }
  repeat split; try assumption.
  - unfold denial_rung_bound. eapply mle_trans; [apply mle_bound|apply mle_bound].
  - intros e He. unfold entry_end. rewrite He.
    destruct (denial_rung_bound m d lease) as [v|]; cbn in Ho; [lia|tauto].
Qed.

(* ------------------------------------------------------------------ *)
(** * A cut re-recorded from the denial the rung synthesised (session 5) *)

(* Cache.WriteMsg hands the request's bound to RecordNXDomainCut as the lease when an adopted
   denial carries the validated-proof marks of the cut it was synthesised from.  The rung folded
   that cut's deadline [d] into the tree first (denial_rung_bound), so whatever the records of the
   synthesised message say and whenever the clock is read, the re-recorded cut ends with the
   older one -- and, without a floor, inside every term it was recorded with. *)
Lemma cut_rerecorded_inherits_l mx st sm proof m d lease now wall ex :
  cut_record mx st sm proof (denial_rung_bound m d lease) now wall = Some ex ->
  ex <= d /\ now < ex
  /\ (forall c, denial_rung_bound m d lease = Some c -> ex <= c)
  /\ ex - now <= mx /\ ex - now <= st * second /\ ex - now <= sm * second
  /\ (forall r c, In r proof -> In c (prr_cands wall r) -> ex - now <= c).
Proof.
  intros H. destruct (cut_record_no_floor _ _ _ _ _ _ _ _ H) as (H1 & H2 & H3 & H4 & H5 & H6).
  assert (Ho : ole (denial_rung_bound m d lease) d).
  { unfold denial_rung_bound. apply ole_bound_l. apply ole_bound_r. cbn. lia. }
  repeat split; try assumption.
  destruct (denial_rung_bound m d lease) as [c|] eqn:E; cbn in Ho; [|tauto].
  specialize (H6 c eq_refl). lia.
Qed.

(* the recorded expiry is monotone in the lease: a lease between the bound the whole tree was
   left with and the older cut's deadline gives an expiry between the two extremes (what
   check_case CCutRerec tests, the lease of a sub-request not being observable) *)
Lemma lower_mono a b t : a <= b -> lower a t <= lower b t.
Proof. intros H. unfold lower. destruct (Z.ltb_spec a t), (Z.ltb_spec b t); lia. Qed.
Lemma cut_record_lease_mono mx st sm proof c1 c2 now wall e1 :
  c1 <= c2 ->
  cut_record mx st sm proof (Some c1) now wall = Some e1 ->
  exists e2, cut_record mx st sm proof (Some c2) now wall = Some e2 /\ e1 <= e2.
Proof.
  unfold cut_record. intros Hc.
  set (t1 := bound_min (flat_map (prr_cands wall) proof) (bound_min [st * second; sm * second] mx)).
  cbn [bound_min fold_left]. intros H.
  pose proof (lower_mono (c1 - now) (c2 - now) t1 ltac:(lia)) as Hm.
  destruct (Z.leb_spec (lower (c1 - now) t1) 0); [discriminate|]. inversion H; subst e1.
  destruct (Z.leb_spec (lower (c2 - now) t1) 0); [lia|].
  eexists. split; [reflexivity|lia].
Qed.
Lemma cut_rerecord_sandwich mx st sm proof b c d now wall ex :
  b <= c -> c <= d ->
  cut_record mx st sm proof (Some c) now wall = Some ex ->
  (exists hi, cut_record mx st sm proof (Some d) now wall = Some hi /\ ex <= hi)
  /\ (forall lo, cut_record mx st sm proof (Some b) now wall = Some lo -> lo <= ex).
Proof.
  intros Hb Hd H. split.
  - exact (cut_record_lease_mono _ _ _ _ _ _ _ _ _ Hd H).
  - intros lo Hlo. destruct (cut_record_lease_mono _ _ _ _ _ _ _ _ _ Hb Hlo) as (e & He & Hle).
    rewrite H in He. inversion He; subst. exact Hle.
Qed.

(* non-vacuity: a cut with 7.4 s left answers at 2 s with TTL 5 (SOA and NSEC re-stamped to 5,
   RRSIG original TTL 3600 and an expiration far away); re-recorded 40 us later under the tree's
   bound (the cut's deadline 7.4 s; an alias lease of 60 s does not matter): without the lease the
   new cut would end at 2.00004 + 5 = 7.00004 s -- inside; when the shown TTL is not the
   shortest term (deadline 7.00001 s, shown 5) the lease is what keeps it inside: 7.00001 s *)
Example cut_rerecorded_example :
  let now := 2 * second in
  let now' := now + 40000 in
  cut_serve (7400 * 1000000) now = Some 5
  /\ cut_record (3 * 3600 * second) 5 3600 [PSoa 5 3600; PPlain 5; PSig 5 3600 (1000 * second)]
        (denial_rung_bound None (7400 * 1000000) (Some (60 * second))) now' now' = Some (7 * second + 40000)
  /\ cut_serve (7 * second + 10000) now = Some 5
  /\ cut_record (3 * 3600 * second) 5 3600 [PSoa 5 3600; PPlain 5]
        (denial_rung_bound None (7 * second + 10000) None) now' now' = Some (7 * second + 10000)
  /\ cut_record (3 * 3600 * second) 5 3600 [PSoa 5 3600; PPlain 5] None now' now' = Some (7 * second + 40000).
Proof. vm_compute. repeat split; reflexivity. Qed.

(* ------------------------------------------------------------------ *)
(** * The replies dns64 relays: A-basis (RFC 6147 5.1.6) and PTR (5.3.1) *)

(* Every relayed record keeps the TTL the answer it was copied from showed: for
   a cached answer that is the whole seconds left of ITS entry (so it is served
   inside that entry's lifetime and never rounded up), for a fresh answer the
   upstream TTL: no TTL is invented.  The only TTL dns64 writes itself is the
   PTR translation's CNAME (the constant ptrSynthTTL = 600 s, derived from
   configuration, not from a piece).  Every consulted answer -- the gating AAAA
   answer included -- bounds the request tree, so whatever is admitted under
   the tree's bound ends with each of them. *)
Lemma dns64_relayed_inherits_l recs consulted now :
  (forall i p, nth_error recs i = Some p ->
     exists x, nth_error (dns64_relay_ttls recs now) i = Some x
       /\ match p with
          | PHit e => now < entry_end e ->
                      0 <= x /\ x * second <= entry_end e - now /\ entry_end e - now < (x + 1) * second
          | PFresh t _ => x = t
          end)
  /\ length (dns64_relay_ttls recs now) = length recs
  /\ dns64_ptr_reply recs now = 600 :: dns64_relay_ttls recs now
  /\ (forall p d, In p consulted -> piece_fold p = Some d -> ole (dns64_bound None consulted) d)
  /\ (forall e, In (PHit e) consulted -> ole (dns64_bound None consulted) (entry_end e))
  /\ (forall a p d, e_cut a = dns64_bound None consulted -> In p consulted -> piece_fold p = Some d ->
        entry_end a <= d).
Proof.
  repeat split.
  - intros i p Hp. unfold dns64_relay_ttls. rewrite nth_error_map, Hp. cbn.
    eexists. split; [reflexivity|]. destruct p as [t l|e]; cbn; [reflexivity|].
    intros Hl. assert (Hs : serve e now = Some (shown_ttl e now)).
    { unfold serve. rewrite remaining_eq. destruct (Z.leb_spec (entry_end e - now) 0); [lia|reflexivity]. }
    pose proof (shown_ttl_le_remaining_l e now _ Hs) as H. rewrite remaining_eq in H. lia.
  - apply map_length.
  - intros p d Hin Hf. exact (dns64_bound_le None consulted p d Hin Hf).
  - intros e Hin. rewrite <- bound_entry_eq. exact (dns64_bound_le None consulted (PHit e) _ Hin eq_refl).
  - intros a p d Ha Hin Hf. pose proof (dns64_bound_le None consulted p d Hin Hf) as Ho.
    unfold entry_end. rewrite Ha. destruct (dns64_bound None consulted) as [v|]; cbn in Ho; [lia|tauto].
Qed.

(* ties: capRelayedTTLs divides by what the source divides by, one second; its statements read
   as modelled (bound = ResponseMetaFrom(w.ctx).CutUntil(), clamp of a bound already over,
   "Ttl > secs => secs"); buildAResponseAsBasis calls it on the three relayed sections *)
Lemma gen_dns64_relay_cap_unit : dns64_relay_cap_unit = second.
Proof. reflexivity. Qed.
Lemma gen_dns64_relay_cap_guards :
  dns64_relay_cap_guards =
    [ [99;117;116;32;58;61;32;109;105;100;100;108;101;119;97;114;101;46;82;101;115;112;111;110;115;101;77;101;116;97;70;114;111;109;40;119;46;99;116;120;41;46;67;117;116;85;110;116;105;108;40;41]%N;   (* "cut := middleware.ResponseMetaFrom(w.ctx).CutUntil()" *)
      [105;102;32;108;101;102;116;32;60;32;48;32;123]%N;                                   (* "if left < 0 {" *)
      [105;102;32;117;105;110;116;54;52;40;114;114;46;72;101;97;100;101;114;40;41;46;84;116;108;41;32;62;32;115;101;99;115;32;123]%N;   (* "if uint64(rr.Header().Ttl) > secs {" *)
      [99;46;72;101;97;100;101;114;40;41;46;84;116;108;32;61;32;117;105;110;116;51;50;40;115;101;99;115;41]%N ]   (* "c.Header().Ttl = uint32(secs)" *)
  /\ dns64_basis_cap_call =
    [ [119;46;99;97;112;82;101;108;97;121;101;100;84;84;76;115;40;111;117;116;46;65;110;115;119;101;114;44;32;111;117;116;46;78;115;44;32;111;117;116;46;69;120;116;114;97;41]%N ].   (* "w.capRelayedTTLs(out.Answer, out.Ns, out.Extra)" *)
Proof. split; reflexivity. Qed.

(* the relay cap is the cap of synthesise (both divide by one second) *)
Lemma dns64_relay_cap_eq b now ttl : dns64_relay_cap b now ttl = dns64_cap b now ttl.
Proof. unfold dns64_relay_cap, dns64_cap. rewrite gen_dns64_relay_cap_unit, gen_dns64_cap_unit. reflexivity. Qed.

(* The A-basis reply (buildAResponseAsBasis since 1a0e74f) is composed from the AAAA answer that
   gated it and the answers of the A chase.  Every relayed TTL is inside what is left of EVERY
   consulted answer, the gate included (cached: its end; fresh: its lease), never above the TTL
   the answer it was copied from showed -- hence, for a cached one, inside that answer's lifetime
   too --, not negative, and unchanged when nothing consulted reports a deadline. *)
Lemma dns64_basis_inherits_min_l recs consulted now :
  length (dns64_basis_reply recs consulted now) = length recs
  /\ (forall i q, nth_error recs i = Some q ->
        exists x, nth_error (dns64_basis_reply recs consulted now) i = Some x
          /\ (forall p d, In p consulted -> piece_fold p = Some d -> x * second <= Z.max 0 (d - now))
          /\ (forall e, In (PHit e) consulted -> now < entry_end e -> x * second <= entry_end e - now)
          /\ x <= piece_ttl q now
          /\ (0 <= piece_ttl q now -> 0 <= x)
          /\ match q with
             | PHit e => now < entry_end e -> x * second <= entry_end e - now
             | PFresh t _ => x <= t
             end
          /\ (dns64_bound None consulted = None -> x = piece_ttl q now)).
Proof.
  split; [apply map_length|].
  intros i q Hq. unfold dns64_basis_reply. rewrite nth_error_map, Hq. cbn.
  eexists. split; [reflexivity|]. rewrite dns64_relay_cap_eq.
  assert (H1 : forall p d, In p consulted -> piece_fold p = Some d ->
               dns64_cap (dns64_bound None consulted) now (piece_ttl q now) * second <= Z.max 0 (d - now)).
  { intros p d Hin Hf. pose proof (dns64_bound_le None consulted p d Hin Hf) as Ho.
    destruct (dns64_bound None consulted) as [c|] eqn:E; cbn in Ho; [|tauto].
    pose proof (dns64_cap_within c now (piece_ttl q now)). lia. }
  pose proof (dns64_cap_le (dns64_bound None consulted) now (piece_ttl q now)) as Hle.
  split; [exact H1|]. split.
  { intros e Hin Hl. pose proof (H1 (PHit e) (bound_entry e) Hin eq_refl) as H.
    rewrite bound_entry_eq in H. lia. }
  split; [exact Hle|]. split; [apply dns64_cap_nonneg|]. split.
  - destruct q as [t l|e]; cbn [piece_ttl] in *; [exact Hle|].
    intros Hl. assert (Hs : serve e now = Some (shown_ttl e now)).
    { unfold serve. rewrite remaining_eq. destruct (Z.leb_spec (entry_end e - now) 0); [lia|reflexivity]. }
    pose proof (shown_ttl_le_remaining_l e now _ Hs) as H. rewrite remaining_eq in H.
    pose proof second_pos as Hp.
    pose proof (Z.mul_le_mono_nonneg_r _ _ second (Z.lt_le_incl _ _ Hp) Hle) as Hm. lia.
  - intros ->. reflexivity.
Qed.

(* What the cap prevents (the former finding dns64-abasis-gate, the code before 1a0e74f):
   AAAA NODATA admitted at 0 for 5 s, the A NODATA (SOA 3600 s) admitted at 2 s; asked at 4 s:
   uncapped, the reply relays the SOA with TTL 3598 while the gate has 1 s left.  The tree's
   bound (5 s) does carry the gate's end; the repaired reply says 1. *)
Definition basis_gate : entry := mk_entry 1 0 (5 * second) None false.
Definition basis_a : entry := mk_entry 2 (2 * second) (3600 * second) None false.
Example dns64_basis_uncapped_outlives_gate :
  let now := 4 * second in
  now < entry_end basis_gate /\ now < entry_end basis_a
  /\ dns64_basis_reply_uncapped [PHit basis_a] now = [3598]
  /\ 3598 * second > remaining basis_gate now
  /\ dns64_bound None [PHit basis_gate; PHit basis_a] = Some (entry_end basis_gate)
  /\ dns64_basis_reply [PHit basis_a] [PHit basis_gate; PHit basis_a] now = [1].
Proof. vm_compute. repeat split; reflexivity. Qed.

(* non-vacuity: a fresh A answer under a lease, a cached alias piece, a gate with 1 s left and
   a bound that is already over *)
Example dns64_basis_example :
  dns64_basis_reply [PHit basis_a; PFresh 30 (Some (9 * second))]
                    [PHit basis_gate; PHit basis_a; PFresh 30 (Some (9 * second))] (3 * second) = [2; 2]
  /\ dns64_basis_reply [PHit basis_a; PFresh 30 (Some (9 * second))]
                       [PFresh 0 None; PHit basis_a; PFresh 30 (Some (9 * second))] (3 * second) = [6; 6]
  /\ dns64_basis_reply [PHit basis_a; PFresh 30 None] [PFresh 0 None; PHit basis_a; PFresh 30 None] (3 * second) = [3599; 30]
  /\ dns64_basis_reply [PFresh 30 (Some (2 * second))] [PFresh 0 None; PFresh 30 (Some (2 * second))] (3 * second) = [0].
Proof. vm_compute. repeat split; reflexivity. Qed.

Example dns64_relayed_example :
  dns64_ptr_reply [PHit basis_a; PFresh 30 (Some (9 * second))] (4 * second) = [600; 3598; 30]
  /\ dns64_bound None [PHit basis_a; PFresh 30 (Some (9 * second))] = Some (9 * second).
Proof. vm_compute. split; reflexivity. Qed.
