(* C04 — proofs, part 5: DNS64 composition above the cache
   (middleware/dns64 responseWriter.synthesise as repaired by af44539).
   A synthesised AAAA is composed from the AAAA answer, the alias pieces of the
   A chase and the address answer.  Every one of them folds a deadline into the
   request tree (a cache hit its end of life, a fresh answer its delegation
   lease); the synthesised TTL is the RFC 6147 5.1.7 value capped by what is
   left until the earliest of them. *)
From Sdns Require Import Common.Base Gen.C04 C04.Model C04.Run C04.Proofs.
Open Scope Z_scope.

(* tie: the cap divides by what the source divides by, one second *)
Lemma gen_dns64_cap_unit : dns64_cap_unit = second.
Proof. reflexivity. Qed.

Lemma dns64_cap_le b now ttl : dns64_cap b now ttl <= ttl.
Proof.
  unfold dns64_cap. rewrite gen_dns64_cap_unit. destruct b as [c|]; [|lia].
  cbv zeta. destruct (Z.ltb_spec ((if c - now <? 0 then 0 else c - now) / second) ttl); lia.
Qed.

Lemma dns64_cap_nonneg b now ttl : 0 <= ttl -> 0 <= dns64_cap b now ttl.
Proof.
  intros Ht. unfold dns64_cap. rewrite gen_dns64_cap_unit. destruct b as [c|]; [|lia]. cbv zeta.
  pose proof second_pos as Hs.
  assert (Hl : 0 <= (if c - now <? 0 then 0 else c - now)) by (destruct (Z.ltb_spec (c - now) 0); lia).
  pose proof (Z.div_pos _ second Hl Hs) as Hd.
  destruct (Z.ltb_spec ((if c - now <? 0 then 0 else c - now) / second) ttl); lia.
Qed.

(* the capped TTL, in nanoseconds, is inside what is left until the bound *)
Lemma dns64_cap_within c now ttl : dns64_cap (Some c) now ttl * second <= Z.max 0 (c - now).
Proof.
  unfold dns64_cap. rewrite gen_dns64_cap_unit. cbv zeta. pose proof second_pos as Hs.
  set (left := if c - now <? 0 then 0 else c - now).
  assert (Hl : left = Z.max 0 (c - now)) by (subst left; destruct (Z.ltb_spec (c - now) 0); lia).
  assert (H0 : 0 <= left) by lia.
  assert (Hd : left / second * second <= left).
  { pose proof (Z.mul_div_le left second Hs). lia. }
  destruct (Z.ltb_spec (left / second) ttl) as [Hlt|Hge].
  - lia.
  - assert (ttl * second <= left / second * second) by (apply Z.mul_le_mono_nonneg_r; lia). lia.
Qed.

Lemma dns64_bound_le m ps p d :
  In p ps -> piece_fold p = Some d -> ole (dns64_bound m ps) d.
Proof.
  intros Hin Hf. unfold dns64_bound.
  change (fold_left bound (map piece_fold ps) m) with (fold_bounds m (map piece_fold ps)).
  apply fold_bounds_le. rewrite <- Hf. apply in_map. exact Hin.
Qed.

Lemma dns64_bound_none ps :
  (forall p, In p ps -> piece_fold p = None) -> dns64_bound None ps = None.
Proof.
  unfold dns64_bound. induction ps as [|p ps IH]; intros H; [reflexivity|].
  cbn. rewrite (H p (or_introl eq_refl)). cbn. apply IH. intros q Hq. apply H. right. exact Hq.
Qed.

(* every consulted piece bounds the synthesised records *)
Lemma dns64_inherits_min_l neg addrs consulted now p d :
  In p consulted -> piece_fold p = Some d ->
  dns64_ttl neg addrs consulted now * second <= Z.max 0 (d - now).
Proof.
  intros Hin Hf. unfold dns64_ttl.
  pose proof (dns64_bound_le None consulted p d Hin Hf) as Ho.
  destruct (dns64_bound None consulted) as [c|] eqn:E; cbn in Ho; [|tauto].
  pose proof (dns64_cap_within c now (dns64_rfc_ttl neg addrs now)). lia.
Qed.

(* in the statement's terms: a cached piece that is still alive has at least
   the synthesised TTL left; a piece already over leaves TTL <= 0 *)
Lemma dns64_within_cached_piece neg addrs consulted now e :
  In (PHit e) consulted ->
  dns64_ttl neg addrs consulted now * second <= Z.max 0 (remaining e now)
  /\ (now < entry_end e -> dns64_ttl neg addrs consulted now * second <= entry_end e - now).
Proof.
  intros Hin.
  pose proof (dns64_inherits_min_l neg addrs consulted now (PHit e) (bound_entry e) Hin eq_refl) as H.
  rewrite bound_entry_eq in H. rewrite remaining_eq. split; [exact H|]. intros Hl. lia.
Qed.

(* a fresh answer learned through a delegation lease bounds them as well *)
Lemma dns64_within_lease neg addrs consulted now t l :
  In (PFresh t (Some l)) consulted ->
  dns64_ttl neg addrs consulted now * second <= Z.max 0 (l - now).
Proof. intros Hin. exact (dns64_inherits_min_l neg addrs consulted now _ l Hin eq_refl). Qed.

(* the RFC 6147 5.1.7 part: never above an address record or the negative TTL *)
Lemma dns64_rfc_fold_le now addrs init :
  fold_left (fun cur p => let t := piece_ttl p now in if t <? cur then t else cur) addrs init <= init
  /\ forall p, In p addrs ->
       fold_left (fun cur p => let t := piece_ttl p now in if t <? cur then t else cur) addrs init <= piece_ttl p now.
Proof.
  revert init. induction addrs as [|a addrs IH]; intros init; cbn.
  - split; [lia|tauto].
  - cbv zeta.
    set (x := if piece_ttl a now <? init then piece_ttl a now else init).
    assert (Hx : x <= init /\ x <= piece_ttl a now)
      by (subst x; destruct (Z.ltb_spec (piece_ttl a now) init); lia).
    destruct (IH x) as [H1 H2]. cbv zeta in H1, H2.
    split; [lia|].
    intros p [<-|Hp]; [lia|apply H2, Hp].
Qed.

Lemma dns64_le_rfc neg addrs consulted now :
  dns64_ttl neg addrs consulted now <= dns64_rfc_ttl neg addrs now
  /\ dns64_rfc_ttl neg addrs now <= dns64_neg neg now
  /\ (forall p, In p addrs -> dns64_rfc_ttl neg addrs now <= piece_ttl p now).
Proof.
  split; [apply dns64_cap_le|]. unfold dns64_rfc_ttl. apply dns64_rfc_fold_le.
Qed.

Lemma dns64_rfc_fold_nonneg now addrs init :
  0 <= init -> (forall p, In p addrs -> 0 <= piece_ttl p now) ->
  0 <= fold_left (fun cur p => let t := piece_ttl p now in if t <? cur then t else cur) addrs init.
Proof.
  revert init. induction addrs as [|a addrs IH]; intros init Hi Hp; cbn; [exact Hi|].
  apply IH.
  - pose proof (Hp a (or_introl eq_refl)). cbv zeta. destruct (Z.ltb_spec (piece_ttl a now) init); lia.
  - intros p H. apply Hp. right. exact H.
Qed.

Lemma dns64_nonneg neg addrs consulted now :
  0 <= dns64_neg neg now -> (forall p, In p addrs -> 0 <= piece_ttl p now) ->
  0 <= dns64_ttl neg addrs consulted now.
Proof.
  intros Hn Hp. unfold dns64_ttl. apply dns64_cap_nonneg. unfold dns64_rfc_ttl.
  apply dns64_rfc_fold_nonneg; assumption.
Qed.

(* no bound, no change: with nothing cached and no lease reported the TTL is RFC 6147's *)
Lemma dns64_unbounded neg addrs consulted now :
  (forall p, In p consulted -> piece_fold p = None) ->
  dns64_ttl neg addrs consulted now = dns64_rfc_ttl neg addrs now.
Proof. intros H. unfold dns64_ttl. rewrite (dns64_bound_none consulted H). reflexivity. Qed.

Lemma dns64_inherits_min_all neg addrs consulted now :
  (forall p d, In p consulted -> piece_fold p = Some d ->
     dns64_ttl neg addrs consulted now * second <= Z.max 0 (d - now))
  /\ (forall e, In (PHit e) consulted ->
        dns64_ttl neg addrs consulted now * second <= Z.max 0 (remaining e now)
        /\ (now < entry_end e -> dns64_ttl neg addrs consulted now * second <= entry_end e - now))
  /\ dns64_ttl neg addrs consulted now <= dns64_rfc_ttl neg addrs now
  /\ dns64_rfc_ttl neg addrs now <= dns64_neg neg now
  /\ (forall p, In p addrs -> dns64_rfc_ttl neg addrs now <= piece_ttl p now)
  /\ (0 <= dns64_neg neg now -> (forall p, In p addrs -> 0 <= piece_ttl p now) ->
        0 <= dns64_ttl neg addrs consulted now)
  /\ ((forall p, In p consulted -> piece_fold p = None) ->
        dns64_ttl neg addrs consulted now = dns64_rfc_ttl neg addrs now).
Proof.
  split; [intros p d; apply dns64_inherits_min_l|].
  split; [intros e; apply dns64_within_cached_piece|].
  destruct (dns64_le_rfc neg addrs consulted now) as (H1 & H2 & H3).
  repeat split; try assumption.
  - apply dns64_nonneg.
  - apply dns64_unbounded.
Qed.

(* The cap is necessary: the RFC 6147 value alone (the code before af44539)
   outlives a cached AAAA NODATA that carries no SOA (held for the 5 s floor).
   Entry admitted at 0 for 5 s, read at 2 s, address record fresh with 3600 s:
   600 s are handed out with 3 s left; the repaired TTL is 3. *)
Definition bare_nodata : entry := mk_entry 1 0 (5 * second) None false.
Lemma dns64_rfc_alone_outlives_piece :
  let now := 2 * second in
  let addrs := [PFresh 3600 None] in
  let consulted := PHit bare_nodata :: addrs in
  now < entry_end bare_nodata
  /\ dns64_rfc_ttl None addrs now * second > remaining bare_nodata now
  /\ dns64_ttl None addrs consulted now = 3.
Proof. vm_compute. repeat split; reflexivity. Qed.

(* ------------------------------------------------------------------ *)
(** * The denial rung inside a request tree *)

(* A denial synthesised from the RFC 8198 index or a subtree cut is served
   strictly before its deadline with a TTL inside what is left; the request tree
   is bound by that deadline from then on (whatever else is folded), so every
   entry admitted with the tree's bound as its lease -- the alias that adopted
   the denial, and anything re-cached from that -- ends with the denial. *)
Lemma denial_rung_inherits_l m d lease now t :
  cut_serve d now = Some t ->
  now < d /\ 0 <= t /\ t * second <= d - now
  /\ ole (denial_rung_bound m d lease) d
  /\ mle (denial_rung_bound m d lease) m
  /\ (forall e, e_cut e = denial_rung_bound m d lease -> entry_end e <= d).
Proof.
  intros H. destruct (cut_serve_spec d now t H) as (H1 & H2 & H3).
  assert (Ho : ole (denial_rung_bound m d lease) d).
  { unfold denial_rung_bound. apply ole_bound_l. apply ole_bound_r. cbn. lia. }
  repeat split; try assumption.
  - unfold denial_rung_bound. eapply mle_trans; [apply mle_bound|apply mle_bound].
  - intros e He. unfold entry_end. rewrite He.
    destruct (denial_rung_bound m d lease) as [v|]; cbn in Ho; [lia|tauto].
Qed.

(* ------------------------------------------------------------------ *)
(** * The replies dns64 relays: A-basis (RFC 6147 5.1.6) and PTR (5.3.1) *)

(* Every relayed record keeps the TTL the answer it was copied from showed: for
   a cached answer that is the whole seconds left of ITS entry (so it is served
   inside that entry's lifetime and never rounded up), for a fresh answer the
   upstream TTL: no TTL is invented.  The only TTL dns64 writes itself is the
   PTR translation's CNAME (the constant ptrSynthTTL = 600 s, derived from
   configuration, not from a piece).  Every consulted answer -- the gating AAAA
   answer included -- bounds the request tree, so whatever is admitted under
   the tree's bound ends with each of them. *)
Lemma dns64_relayed_inherits_l recs consulted now :
  (forall i p, nth_error recs i = Some p ->
     exists x, nth_error (dns64_relay_ttls recs now) i = Some x
       /\ match p with
          | PHit e => now < entry_end e ->
                      0 <= x /\ x * second <= entry_end e - now /\ entry_end e - now < (x + 1) * second
          | PFresh t _ => x = t
          end)
  /\ length (dns64_relay_ttls recs now) = length recs
  /\ dns64_basis_reply recs now = dns64_relay_ttls recs now
  /\ dns64_ptr_reply recs now = 600 :: dns64_relay_ttls recs now
  /\ (forall p d, In p consulted -> piece_fold p = Some d -> ole (dns64_bound None consulted) d)
  /\ (forall e, In (PHit e) consulted -> ole (dns64_bound None consulted) (entry_end e))
  /\ (forall a p d, e_cut a = dns64_bound None consulted -> In p consulted -> piece_fold p = Some d ->
        entry_end a <= d).
Proof.
  repeat split.
  - intros i p Hp. unfold dns64_relay_ttls. rewrite nth_error_map, Hp. cbn.
    eexists. split; [reflexivity|]. destruct p as [t l|e]; cbn; [reflexivity|].
    intros Hl. assert (Hs : serve e now = Some (shown_ttl e now)).
    { unfold serve. rewrite remaining_eq. destruct (Z.leb_spec (entry_end e - now) 0); [lia|reflexivity]. }
    pose proof (shown_ttl_le_remaining_l e now _ Hs) as H. rewrite remaining_eq in H. lia.
  - apply map_length.
  - intros p d Hin Hf. exact (dns64_bound_le None consulted p d Hin Hf).
  - intros e Hin. rewrite <- bound_entry_eq. exact (dns64_bound_le None consulted (PHit e) _ Hin eq_refl).
  - intros a p d Ha Hin Hf. pose proof (dns64_bound_le None consulted p d Hin Hf) as Ho.
    unfold entry_end. rewrite Ha. destruct (dns64_bound None consulted) as [v|]; cbn in Ho; [lia|tauto].
Qed.

(* Computed witness (finding dns64-abasis-gate): the A-basis reply is NOT inside
   the lifetime of the cached AAAA answer that gated it.  AAAA NODATA admitted
   at 0 for 5 s, the A NODATA (SOA 3600 s) admitted at 2 s; asked at 4 s: the
   reply relays the SOA with TTL 3598 while the gate has 1 s left.  The tree's
   bound (5 s) does carry the gate's end, the records relayed do not. *)
Definition basis_gate : entry := mk_entry 1 0 (5 * second) None false.
Definition basis_a : entry := mk_entry 2 (2 * second) (3600 * second) None false.
Lemma dns64_basis_outlives_gate :
  let now := 4 * second in
  now < entry_end basis_gate /\ now < entry_end basis_a
  /\ dns64_basis_reply [PHit basis_a] now = [3598]
  /\ 3598 * second > remaining basis_gate now
  /\ dns64_bound None [PHit basis_gate; PHit basis_a] = Some (entry_end basis_gate).
Proof. vm_compute. repeat split; reflexivity. Qed.

(* the repaired A-basis reply (props/C04/fix2.patch): every relayed TTL is inside what is
   left of EVERY consulted answer, the gate included, never above the TTL it replaces, and
   unchanged when nothing reports a deadline *)
Lemma dns64_basis_capped_inherits recs consulted now :
  forall x, In x (dns64_basis_reply_capped recs consulted now) ->
    (forall p d, In p consulted -> piece_fold p = Some d -> x * second <= Z.max 0 (d - now))
    /\ (forall e, In (PHit e) consulted -> now < entry_end e -> x * second <= entry_end e - now)
    /\ (exists p, In p recs /\ x <= piece_ttl p now
                 /\ (dns64_bound None consulted = None -> x = piece_ttl p now)).
Proof.
  intros x Hx. unfold dns64_basis_reply_capped in Hx. apply in_map_iff in Hx.
  destruct Hx as (q & <- & Hq).
  assert (H1 : forall p d, In p consulted -> piece_fold p = Some d ->
               dns64_cap (dns64_bound None consulted) now (piece_ttl q now) * second <= Z.max 0 (d - now)).
  { intros p d Hin Hf. pose proof (dns64_bound_le None consulted p d Hin Hf) as Ho.
    destruct (dns64_bound None consulted) as [c|] eqn:E; cbn in Ho; [|tauto].
    pose proof (dns64_cap_within c now (piece_ttl q now)). lia. }
  split; [exact H1|]. split.
  - intros e Hin Hl. pose proof (H1 (PHit e) (bound_entry e) Hin eq_refl) as H.
    rewrite bound_entry_eq in H. lia.
  - exists q. split; [exact Hq|]. split; [apply dns64_cap_le|].
    intros ->. reflexivity.
Qed.

Example dns64_basis_capped_example :
  dns64_basis_reply_capped [PHit basis_a] [PHit basis_gate; PHit basis_a] (4 * second) = [1].
Proof. vm_compute. reflexivity. Qed.

Example dns64_relayed_example :
  dns64_ptr_reply [PHit basis_a; PFresh 30 (Some (9 * second))] (4 * second) = [600; 3598; 30]
  /\ dns64_bound None [PHit basis_a; PFresh 30 (Some (9 * second))] = Some (9 * second).
Proof. vm_compute. split; reflexivity. Qed.
