(* C04 — the hypotheses of the property theorems are satisfiable by
   non-trivial states (computed examples). *)
From Sdns Require Import Common.Base Gen.C04 C04.Model C04.Proofs C04.Proofs_Store C04.Proofs_Tree.
Open Scope Z_scope.

(* a world: n1 is an alias of n2 (lease ends at 100 s); n2 has an address with
   TTL 300 s learned through a delegation whose lease ends at 50 s *)
Definition ex_scripts : scripts :=
  [ (1%N, mk_script (mk_msg 1 0 [mk_mrr 1 600 (TCname 2)] []) (sz (100 * second)));
    (2%N, mk_script (mk_msg 2 0 [mk_mrr 2 300 TAddr] []) (sz (50 * second))) ].

(* history: n2 is resolved at t = 1 s; n1 is resolved at t = 10 s and its chase
   finds n2 in the cache; n1 is asked again at t = 20 s and at t = 49.5 s (hits
   with a chase), and at t = 50 s (n2's lease is over) *)
Definition ex_history : list hop :=
  [ HQuery ex_scripts (1 * second) [1 * second + 5] 2;
    HQuery ex_scripts (10 * second) [10 * second + 7] 1;
    HQuery ex_scripts (20 * second) [] 1;
    HQuery ex_scripts (49 * second + 500000000) [] 1;
    HQuery ex_scripts (50 * second) [50 * second + 1; 50 * second + 2] 1 ].

(* the alias entry (id 2) was composed from its own lease (100 s) and the
   cached piece n2, whose end is its lease (50 s): it inherits 50 s *)
Example ex_lineage :
  map (fun x => (fst (fst x), e_id (snd (fst x)), e_cut (snd (fst x)), snd x)) (w_adm (hrun world0 ex_history))
  = [ (2%N, 1%N, Some 50000000000, [50000000000]);
      (1%N, 2%N, Some 50000000000, [100000000000; 50000000000; 50000000000]);
      (* at t = 50 s both are resolved again: fresh leases *)
      (2%N, 3%N, Some 50000000000, [50000000000]);
      (1%N, 4%N, Some 50000000000, [100000000000; 50000000000]) ].
Proof. vm_compute. reflexivity. Qed.

(* the hits: (entry id, TTL shown, clock) *)
Example ex_hits :
  map (fun x => (e_id (fst (fst x)), snd (fst x), snd x)) (w_hits (hrun world0 ex_history))
  = [ (1%N, 40, 10000000000);               (* n2 consumed by the chase of n1 *)
      (2%N, 30, 20000000000); (1%N, 30, 20000000000);
      (2%N, 0, 49500000000);  (1%N, 0, 49500000000) ].
Proof. vm_compute. reflexivity. Qed.

(* floor + lease: a 1 s record is admitted with the 5 s floor, the lease (2 s) still wins at read time *)
Example ex_floor_lease :
  let ttl := admit_ttl RSuccess [mk_rr 0 1 KPlain] 0 false 0 in
  ttl = 5 * second /\ entry_end (mk_entry 1 0 ttl (sz (2 * second)) false) = 2 * second
  /\ serve (mk_entry 1 0 ttl (sz (2 * second)) false) (2 * second) = None
  /\ serve (mk_entry 1 0 ttl (sz (2 * second)) false) (1 * second) = Some 1.
Proof. vm_compute. repeat split; reflexivity. Qed.

(* RRSIG remaining below the record TTL; ECS cap below both *)
Example ex_admit :
  admit_ttl RSuccess [mk_rr 0 300 KPlain; mk_rr 0 300 (KSig 1060)] (1000 * second) false 0 = 60 * second
  /\ admit_ttl RSuccess [mk_rr 0 300 KPlain; mk_rr 0 300 (KSig 1060)] (1000 * second) true (30 * second) = 30 * second
  /\ admit_ttl RNXDomain [mk_rr 1 3600 (KSoa 45)] 0 false 0 = 45 * second.
Proof. vm_compute. repeat split; reflexivity. Qed.

(* the store automaton: entry 1 claimed, a client write lands, the refresh is refused *)
Example ex_late_write :
  let s := srun (mk_sstate 1 []) [SSet 7%N] in
  im_get (ss_map s) 7%N = Some 1%N
  /\ snd (sstep (srun s [SSet 9%N; SSet 7%N; SCas 9%N 2%N]) (SCas 7%N 1%N)) = false
  /\ snd (sstep (srun s [SSet 9%N; SCas 9%N 2%N]) (SCas 7%N 1%N)) = true.
Proof. vm_compute. repeat split; reflexivity. Qed.

(* a cut: SOA minimum 3 s, RRSIG expiring in 2.5 s, lease 10 s -> 2.5 s, no floor *)
Example ex_cut :
  cut_record (600 * second) 300 3 [PSoa 300 3; PSig 300 300 1003] (sz (10 * second)) 0 (1000 * second + 500000000)
  = Some 2500000000.
Proof. vm_compute. reflexivity. Qed.
