(* C04 — Nothing is served past its lifetime; composed answers inherit the
   shortest part.  Property theorems over the model (Model.v), each proved in
   Proofs*.v; non-trivial instances are in Proofs_Examples.v. *)
From Sdns Require Import Common.Base Gen.C04 C04.Model C04.Run C04.Proofs C04.Proofs_Store C04.Proofs_Tree C04.Proofs_Index C04.Proofs_Dns64 C04.Proofs_Calc.
Open Scope Z_scope.

(* In every history of client queries (hits on any route, alias chases through
   entries of differing ages, misses with admission, synthesised denials),
   direct admissions, prefetch completions, purges and recorded cuts, with any
   clock readings: every answer served out of the cache was served strictly
   before min(stored + ttl, lease) of an entry that was admitted, and the TTL
   shown did not exceed the time remaining. *)
Theorem no_service_past_end :
  forall ops e t n,
    In (e, t, n) (w_hits (hrun world0 ops)) ->
    In e (ledger (hrun world0 ops))
    /\ n < entry_end e
    /\ entry_end e = match e_cut e with Some c => Z.min (e_stored e + e_ttl e) c | None => e_stored e + e_ttl e end
    /\ 0 <= t /\ t * second <= entry_end e - n.
Proof. exact no_service_past_end_l. Qed.

(* the same for subtree cuts and synthesised denial proofs *)
Theorem cut_no_service_past_end :
  forall ex now t, cut_serve ex now = Some t -> now < ex /\ 0 <= t /\ t * second <= ex - now.
Proof. exact cut_serve_spec. Qed.
Theorem proof_no_service_past_end :
  forall soa pieces now t ex,
    proof_serve soa pieces now = Some (t, ex) ->
    ex <= soa /\ (forall p, In p pieces -> ex <= p) /\ now < ex /\ 0 <= t /\ t * second <= ex - now.
Proof. exact proof_serve_spec. Qed.

(* ... and across any history of admissions into one zone's proof index and
   lookups: a synthesised denial is inside the lifetime of every piece it is
   built from, and each piece ends with the admission it arrived in (that
   proof's SOA terms and SOA signature, the set's own terms, that proof's lease,
   the 3 h cap) — whatever later admissions replaced in the zone *)
Theorem proof_index_no_service_past_admission :
  forall mx ops now needed t ex,
    snd (pi_lookup (pi_run mx ops) now needed) = Some (t, ex) ->
    now < ex /\ 0 <= t /\ t * second <= ex - now
    /\ forall o, In o needed ->
         exists p, In p (pi_pieces (pi_run mx ops)) /\ pp_owner p = o
           /\ ex <= pp_expires p
           /\ pp_now p < pp_expires p
           /\ pp_expires p - pp_now p <= max_denial_proof_ttl
           /\ (forall r c, In r (pp_common p ++ pp_set p) -> In c (prr_cands (pp_now p) r) -> pp_expires p - pp_now p <= c)
           /\ (forall c, pp_cut p = Some c -> pp_expires p <= c).
Proof. exact proof_index_no_service_past_admission_l. Qed.

(* the TTL shown is the floor, in seconds, of the time remaining *)
Theorem shown_ttl_le_remaining :
  forall e now t, serve e now = Some t ->
    0 <= t /\ t * second <= remaining e now /\ remaining e now < (t + 1) * second /\ 0 < remaining e now.
Proof. exact shown_ttl_le_remaining_l. Qed.

(* with a monotone clock the TTL never grows between hits on one stored entry,
   for one entry ... *)
Theorem shown_ttl_antitone :
  forall e n1 n2 t1 t2, n1 <= n2 -> serve e n1 = Some t1 -> serve e n2 = Some t2 -> t2 <= t1.
Proof. exact shown_ttl_antitone_l. Qed.
(* ... and across whole histories, where "the same stored entry" is pointer identity *)
Theorem history_ttl_antitone :
  forall ops e1 t1 n1 e2 t2 n2,
    In (e1, t1, n1) (w_hits (hrun world0 ops)) -> In (e2, t2, n2) (w_hits (hrun world0 ops)) ->
    e_id e1 = e_id e2 -> n1 <= n2 -> e1 = e2 /\ t2 <= t1.
Proof. exact history_ttl_antitone_l. Qed.

(* Every entry ever admitted — also one composed from entries that were
   themselves composed, and whatever floor its own TTL received — ends no later
   than every cached piece, synthesised denial and delegation lease in its
   lineage; the same holds for everything currently stored. *)
Theorem composed_inherits_min :
  forall ops,
    (forall q e lin, In (q, e, lin) (w_adm (hrun world0 ops)) -> Forall (fun x => entry_end e <= x) lin)
    /\ (forall q ce, cs_get (w_store (hrun world0 ops)) q = Some ce ->
          Forall (fun x => entry_end (c_entry ce) <= x) (c_lin ce)).
Proof. exact composed_inherits_min_l. Qed.

(* one request tree on its own: any invariant-respecting store, any scripts,
   clock, nesting: the bound it leaves is below everything it consumed *)
Theorem tree_inherits_min :
  forall sc now fuel w meta depth q,
    W w ->
    let '(w', meta', _, lin) := serve_dns sc now fuel w meta depth q in
    W w' /\ Forall (ole meta') lin /\ (forall x, ole meta x -> ole meta' x).
Proof. exact tree_inherits_min_l. Qed.

(* the request-tree bound is the minimum of the non-zero deadlines folded in,
   in any order *)
Theorem request_bound_is_min :
  forall m l1 l2,
    fold_bounds m (l1 ++ l2) = fold_bounds m (l2 ++ l1)
    /\ fold_bounds m l1 = omin m (fold_right omin None l1)
    /\ (forall x, In (Some x) l1 -> ole (fold_bounds m l1) x).
Proof. exact request_bound_is_min_l. Qed.

(* A refresh that completes after newer state was stored (or the key was
   removed) never overwrites it: for every interleaving of client-path
   operations before and after that write. *)
Theorem late_prefetch_never_overwrites :
  forall s k e0 before w after,
    ids_below s -> im_get (ss_map s) k = Some e0 ->
    (w = SSet k \/ w = SRemove k) ->
    let s' := srun s (before ++ [w] ++ after) in
    snd (sstep s' (SCas k e0)) = false
    /\ ss_map (fst (sstep s' (SCas k e0))) = ss_map s'
    /\ im_get (ss_map s') k <> Some e0.
Proof. exact late_prefetch_never_overwrites_l. Qed.

(* admission TTL: floor and ceiling, ECS cap, every term *)
Theorem admit_ttl_bounds :
  forall cls rrs now scoped ecs,
    min_cache_ttl <= replace_ttl cls rrs now <= max_cache_ttl
    /\ admit_ttl cls rrs now scoped ecs <= replace_ttl cls rrs now
    /\ (scoped = true -> 0 < ecs -> admit_ttl cls rrs now scoped ecs <= ecs)
    /\ (scoped = false \/ ecs <= 0 -> admit_ttl cls rrs now scoped ecs = replace_ttl cls rrs now)
    /\ 0 < admit_ttl cls rrs now scoped ecs
    /\ (forall r x, ttl_class cls = true -> In r rrs -> In x (rr_terms (neg_class cls) now r) ->
          admit_ttl cls rrs now scoped ecs <= Z.max min_cache_ttl x).
Proof. exact admit_ttl_bounds_l. Qed.

(* The admission-TTL model IS the source (session 5): dnsutil.CalculateCacheTTL with hasRecords,
   getTTL, getRRSIGTTL and its three section loops, translated from the Go AST by srcgen
   (Gen/C04.v: dns.RR as a sum type, the time.Now() reading as a parameter), equals the
   hand-written calc_cache_ttl on the view rrs_of_msg of the message -- for EVERY message
   (records of any dynamic type in any section), every ResponseType and every clock reading.
   Hence admit_ttl_bounds above speaks about the translated code: store admission
   (TTLManager.Calculate, also translated, then the ECS cap) of the code's own value is
   admit_ttl, and every term the statement names bounds it except through the 5 s floor. *)
Theorem calculate_cache_ttl_is_source :
  forall now msg cls,
    go_CalculateCacheTTL now msg (code_of_cls cls) = calc_cache_ttl cls (rrs_of_msg msg) now
    /\ (forall scoped ecs,
          cap_ttl scoped ecs (go_TTLManager_Calculate ttl_manager (go_CalculateCacheTTL now msg (code_of_cls cls)))
          = admit_ttl cls (rrs_of_msg msg) now scoped ecs)
    /\ min_cache_ttl <= go_CalculateCacheTTL now msg (code_of_cls cls) <= max_cache_ttl
    /\ (forall r x, ttl_class cls = true -> In r (rrs_of_msg msg) -> In x (rr_terms (neg_class cls) now r) ->
          go_CalculateCacheTTL now msg (code_of_cls cls) <= Z.max min_cache_ttl x).
Proof. exact calculate_cache_ttl_is_source_l. Qed.

(* cuts and proofs: the plain minimum of every term and the lease, no floor *)
Theorem cut_no_floor :
  forall mx st sm proof cut now wall ex,
    cut_record mx st sm proof cut now wall = Some ex ->
    now < ex
    /\ ex - now <= mx /\ ex - now <= st * second /\ ex - now <= sm * second
    /\ (forall r c, In r proof -> In c (prr_cands wall r) -> ex - now <= c)
    /\ (forall c, cut = Some c -> ex <= c).
Proof. exact cut_record_no_floor. Qed.
Theorem proof_no_floor :
  forall mx cut recs now wall ex,
    proof_expiry mx cut recs now wall = Some ex ->
    now < ex
    /\ ex - now <= max_denial_proof_ttl
    /\ (0 < mx -> ex - now <= mx)
    /\ (forall r c, In r recs -> In c (prr_cands wall r) -> ex - now <= c)
    /\ (forall c, cut = Some c -> ex <= c).
Proof. exact proof_expiry_no_floor. Qed.

(* The proof-expiry model IS the source (wave 9): cache.denialProofExpiry, translated from the Go
   AST (its local closure `bound` inlined, dns.RR as a sum type), equals proof_expiry on the view
   prr_of_irr of the record list, for every clock reading, ceiling, lease (the zero time.Time =
   none) and every record list without a nil interface value (with one the code records nothing:
   gen_denialProofExpiry_nil); hence proof_no_floor speaks about the translated code. *)
Theorem denial_proof_expiry_is_source :
  forall now mx cut records,
    existsb is_nil_rr records = false ->
    go_denialProofExpiry now mx cut records
    = match proof_expiry mx (oz_go cut) (map prr_of_irr records) now now with
      | Some e => (e, true)
      | None => (0, false)
      end
    /\ (forall ex, go_denialProofExpiry now mx cut records = (ex, true) ->
          now < ex /\ ex - now <= max_denial_proof_ttl /\ (0 < mx -> ex - now <= mx)
          /\ (cut <> 0 -> ex <= cut)
          /\ (forall x c, In x records -> In c (prr_cands now (prr_of_irr x)) -> ex - now <= c)).
Proof. exact denial_proof_expiry_is_source_l. Qed.

(* DNS64 above the cache (middleware/dns64 synthesise, as repaired by af44539):
   a synthesised AAAA is composed from the AAAA answer, the alias pieces of the
   A chase and the address answer, each a cache hit or fresh from downstream.
   For every clock reading and every such composition: the synthesised TTL is
   inside what is left of EVERY consulted piece's deadline (a cached piece's
   remaining lifetime, a fresh piece's delegation lease) -- also of a cached
   NODATA that carries no record at all --, never above the RFC 6147 5.1.7
   value (negative TTL or 600 s, every address record), not negative, and
   unchanged when nothing consulted reports a deadline. *)
Theorem dns64_composed_inherits_min :
  forall neg addrs consulted now,
    (forall p d, In p consulted -> piece_fold p = Some d ->
       dns64_ttl neg addrs consulted now * second <= Z.max 0 (d - now))
    /\ (forall e, In (PHit e) consulted ->
          dns64_ttl neg addrs consulted now * second <= Z.max 0 (remaining e now)
          /\ (now < entry_end e -> dns64_ttl neg addrs consulted now * second <= entry_end e - now))
    /\ dns64_ttl neg addrs consulted now <= dns64_rfc_ttl neg addrs now
    /\ dns64_rfc_ttl neg addrs now <= dns64_neg neg now
    /\ (forall p, In p addrs -> dns64_rfc_ttl neg addrs now <= piece_ttl p now)
    /\ (0 <= dns64_neg neg now -> (forall p, In p addrs -> 0 <= piece_ttl p now) ->
          0 <= dns64_ttl neg addrs consulted now)
    /\ ((forall p, In p consulted -> piece_fold p = None) ->
          dns64_ttl neg addrs consulted now = dns64_rfc_ttl neg addrs now).
Proof. exact dns64_inherits_min_all. Qed.
(* the cap is necessary: the RFC 6147 value alone (the code before af44539)
   outlives a cached SOA-less NODATA held for the 5 s floor (600 s handed out
   with 3 s left); the repaired TTL is 3 *)
Theorem dns64_rfc_ttl_alone_refuted :
  let now := 2 * second in
  let addrs := [PFresh 3600 None] in
  let consulted := PHit bare_nodata :: addrs in
  now < entry_end bare_nodata
  /\ dns64_rfc_ttl None addrs now * second > remaining bare_nodata now
  /\ dns64_ttl None addrs consulted now = 3.
Proof. exact dns64_rfc_alone_outlives_piece. Qed.

(* The replies dns64 RELAYS (session 4; buildAResponseAsBasis of RFC 6147 5.1.6 and
   handlePTR of 5.3.1): every relayed record carries the TTL the answer it was copied
   from showed -- inside that cached answer's lifetime, never rounded up; a fresh one
   unchanged -- the only TTL dns64 writes itself is the PTR translation's CNAME (600 s,
   from configuration); every consulted answer, the gating AAAA answer included, bounds
   the request tree, hence everything admitted under the tree's bound. *)
Theorem dns64_relayed_inherits :
  forall recs consulted now,
    (forall i p, nth_error recs i = Some p ->
       exists x, nth_error (dns64_relay_ttls recs now) i = Some x
         /\ match p with
            | PHit e => now < entry_end e ->
                        0 <= x /\ x * second <= entry_end e - now /\ entry_end e - now < (x + 1) * second
            | PFresh t _ => x = t
            end)
    /\ length (dns64_relay_ttls recs now) = length recs
    /\ dns64_ptr_reply recs now = 600 :: dns64_relay_ttls recs now
    /\ (forall p d, In p consulted -> piece_fold p = Some d -> ole (dns64_bound None consulted) d)
    /\ (forall e, In (PHit e) consulted -> ole (dns64_bound None consulted) (entry_end e))
    /\ (forall a p d, e_cut a = dns64_bound None consulted -> In p consulted -> piece_fold p = Some d ->
          entry_end a <= d).
Proof. exact dns64_relayed_inherits_l. Qed.

(* The A-basis reply (buildAResponseAsBasis as repaired by 1a0e74f; the former finding
   dns64-abasis-gate): composed from the AAAA answer that gated it and the answers of the A
   chase, for every clock reading every relayed TTL is inside what is left of EVERY consulted
   answer's deadline -- the gate included; cached: its end, fresh: its lease --, not above
   the TTL shown by the answer it was copied from (cached: inside that entry's lifetime),
   not negative, and unchanged when no consulted answer reports a deadline.  What the cap
   prevents: Example dns64_basis_uncapped_outlives_gate (Proofs_Dns64.v), replayed on the Go
   code by corpus/C04/dns64relay.jsonl (scenarios abasis-gate-…) as strict regression cases. *)
Theorem dns64_basis_inherits_min :
  forall recs consulted now,
    length (dns64_basis_reply recs consulted now) = length recs
    /\ (forall i q, nth_error recs i = Some q ->
          exists x, nth_error (dns64_basis_reply recs consulted now) i = Some x
            /\ (forall p d, In p consulted -> piece_fold p = Some d -> x * second <= Z.max 0 (d - now))
            /\ (forall e, In (PHit e) consulted -> now < entry_end e -> x * second <= entry_end e - now)
            /\ x <= piece_ttl q now
            /\ (0 <= piece_ttl q now -> 0 <= x)
            /\ match q with
               | PHit e => now < entry_end e -> x * second <= entry_end e - now
               | PFresh t _ => x <= t
               end
            /\ (dns64_bound None consulted = None -> x = piece_ttl q now)).
Proof. exact dns64_basis_inherits_min_l. Qed.

(* The denial rung inside a request tree (RFC 8198 proof index / subtree cut,
   Cache.lookupDenialProof / lookupNXDomainCut + boundRequestTo): a synthesised
   denial is served strictly inside its lifetime, the tree stays bound by its
   deadline whatever else is folded before or after, and every entry admitted
   under the tree's bound (the alias that adopted the denial, anything re-cached
   from that) ends with the denial. *)
Theorem denial_rung_inherits :
  forall m d lease now t,
    cut_serve d now = Some t ->
    now < d /\ 0 <= t /\ t * second <= d - now
    /\ ole (denial_rung_bound m d lease) d
    /\ mle (denial_rung_bound m d lease) m
    /\ (forall e, e_cut e = denial_rung_bound m d lease -> entry_end e <= d).
Proof. exact denial_rung_inherits_l. Qed.

(* A subtree cut RE-recorded during a request tree from the denial the rung synthesised out of
   an older cut (Cache.WriteMsg -> Store.RecordNXDomainCut with the request's bound as the lease,
   session 5): for every older deadline d, everything folded into the tree before (m) and after
   (lease), every content of the synthesised records and every clock reading, the new cut ends
   no later than d and than the tree's bound, is recorded only with time left, and -- no floor --
   lies inside every term of the records it was recorded with; the expiry is monotone in the
   lease, so a lease anywhere between the bound the whole tree is left with (b) and d gives an
   expiry between the two extremes (what check_case CCutRerec tests). *)
Theorem cut_rerecorded_inherits :
  forall mx st sm proof m d lease now wall ex,
    cut_record mx st sm proof (denial_rung_bound m d lease) now wall = Some ex ->
    ex <= d /\ now < ex
    /\ (forall c, denial_rung_bound m d lease = Some c -> ex <= c)
    /\ ex - now <= mx /\ ex - now <= st * second /\ ex - now <= sm * second
    /\ (forall r c, In r proof -> In c (prr_cands wall r) -> ex - now <= c).
Proof. exact cut_rerecorded_inherits_l. Qed.
Theorem cut_rerecord_between :
  forall mx st sm proof b c d now wall ex,
    b <= c -> c <= d ->
    cut_record mx st sm proof (Some c) now wall = Some ex ->
    (exists hi, cut_record mx st sm proof (Some d) now wall = Some hi /\ ex <= hi)
    /\ (forall lo, cut_record mx st sm proof (Some b) now wall = Some lo -> lo <= ex).
Proof. exact cut_rerecord_sandwich. Qed.

Print Assumptions no_service_past_end.
Print Assumptions cut_no_service_past_end.
Print Assumptions proof_no_service_past_end.
Print Assumptions proof_index_no_service_past_admission.
Print Assumptions shown_ttl_le_remaining.
Print Assumptions shown_ttl_antitone.
Print Assumptions history_ttl_antitone.
Print Assumptions composed_inherits_min.
Print Assumptions tree_inherits_min.
Print Assumptions request_bound_is_min.
Print Assumptions late_prefetch_never_overwrites.
Print Assumptions admit_ttl_bounds.
Print Assumptions cut_no_floor.
Print Assumptions proof_no_floor.
Print Assumptions dns64_composed_inherits_min.
Print Assumptions dns64_rfc_ttl_alone_refuted.
Print Assumptions denial_rung_inherits.
Print Assumptions dns64_relayed_inherits.
Print Assumptions dns64_basis_inherits_min.
Print Assumptions cut_rerecorded_inherits.
Print Assumptions cut_rerecord_between.
Print Assumptions calculate_cache_ttl_is_source.
Print Assumptions denial_proof_expiry_is_source.
