(* C04 — lifetimes: executable model of the answer cache's admission TTL,
   read-time expiry, request-tree bound, subtree cuts / denial proofs and the
   pointer-CAS store.  Definitions only; proofs are in Proofs*.v.

   Written line by line from
     internal/dnsutil/cache_ttl.go   CalculateCacheTTL, getRRSIGTTL, hasRecords
     middleware/cache/store.go       setFromResponseWithKey, ReplaceIfCurrent
     middleware/cache/types.go       CacheEntry.remaining / ToMsg, TTLManager
     middleware/cache/cache.go       boundRequestToEntryLifetime, handleCacheHit,
                                     additionalAnswer, ResponseWriter.WriteMsg
     middleware/chain.go             ResponseMeta.BoundCutFor / ForkCut / Cut
     middleware/cache/nxdomain_cut.go     record / lookup / response
     middleware/cache/denial_proof_cache.go  denialProofExpiry / denialProofResponse
     internal/cache/cache.go         CompareAndSwap
   Constants and TTLManager.Calculate come from Gen/C04.v (regenerated from the
   Go source on every run).

   Time: instants and durations are Z nanoseconds.  An optional instant
   (Go: time.Time with IsZero() meaning "unbounded") is [option Z]. *)
From Sdns Require Import Common.Base Gen.C04.
Open Scope Z_scope.

Definition second : Z := 1000000000.
Definition sz (z : Z) : option Z := Some z.

(* ------------------------------------------------------------------ *)
(** * 1. Admission TTL (dnsutil.CalculateCacheTTL)                      *)

Inductive rclass :=
| RSuccess | RReferral | RNXDomain | RNoRecords | RServFail
| RExpiredSig | RNotCacheable | ROther.

(* what CalculateCacheTTL looks at in one record *)
Inductive rkind := KPlain | KSoa (minttl : Z) | KSig (expiration : Z) | KOpt.
(* section: 0 answer, 1 authority, 2 additional; ttl in seconds (uint32) *)
Record rr := mk_rr { rr_sec : N; rr_ttl : Z; rr_kind : rkind }.

Definition get_ttl (r : rr) : Z := rr_ttl r * second.

(* getRRSIGTTL(sig, now): now = wall clock, ns since the Unix epoch *)
Definition sig_ttl (ttl_s expiration now : Z) : Z :=
  let record_ttl := ttl_s * second in
  let until := expiration * second - now in
  if until <=? 0 then min_cache_ttl
  else if until <? record_ttl then until else record_ttl.

(* `if ttl < minTTL { minTTL = ttl }` *)
Definition lower (cand cur : Z) : Z := if cand <? cur then cand else cur.

Definition is_opt_extra (r : rr) : bool :=
  match rr_kind r with KOpt => (rr_sec r =? 2)%N | _ => false end.

(* one loop iteration of the three section loops *)
Definition ttl_step (neg : bool) (now : Z) (cur : Z) (r : rr) : Z :=
  if is_opt_extra r then cur else
  let cur1 := lower (get_ttl r) cur in
  match rr_kind r with
  | KSoa m => if neg && (rr_sec r =? 1)%N then lower (m * second) cur1 else cur1
  | KSig e => lower (sig_ttl (rr_ttl r) e now) cur1
  | _ => cur1
  end.

Definition has_records (rrs : list rr) : bool :=
  existsb (fun r => negb (is_opt_extra r)) rrs.

Definition clamp_cache (t : Z) : Z :=
  if t <? min_cache_ttl then min_cache_ttl
  else if max_cache_ttl <? t then max_cache_ttl else t.

Definition calc_cache_ttl (cls : rclass) (rrs : list rr) (now : Z) : Z :=
  match cls with
  | RServFail => servfail_ttl
  | RSuccess | RNXDomain | RNoRecords =>
      let neg := match cls with RSuccess => false | _ => true end in
      if negb (has_records rrs) then min_cache_ttl
      else clamp_cache (fold_left (ttl_step neg now) rrs max_cache_ttl)
  | _ => min_cache_ttl
  end.

(* dnsutil.ClassifyResponse over the features it reads.  rcode: 0 NOERROR,
   2 SERVFAIL, 3 NXDOMAIN; meta = AXFR/IXFR/UPDATE/NOTIFY shapes *)
Definition sig_expired (now_unix : Z) (r : rr) : bool :=
  match rr_kind r with KSig e => e <? now_unix | _ => false end.
Definition classify (rcode : N) (meta : bool) (n_answer : N) (deleg has_soa should_cache : bool)
           (rrs : list rr) (now_unix : Z) : rclass :=
  if (rcode =? 2)%N then RServFail
  else if meta then ROther
  else if (rcode =? 0)%N then
         if (0 <? n_answer)%N then
           (if existsb (sig_expired now_unix) rrs then RExpiredSig else RSuccess)
         else if deleg then RReferral
         else if has_soa then RNoRecords
         else if negb should_cache then RNotCacheable
         else RSuccess
  else if (rcode =? 3)%N then RNXDomain
  else RServFail.

(* ------------------------------------------------------------------ *)
(** * 2. Store admission (Store.setFromResponseWithKey / ReplaceIfCurrent) *)

Definition admitted_class (c : rclass) : bool :=
  match c with RSuccess | RReferral | RNXDomain | RNoRecords => true | _ => false end.

(* Cache.New: NewPositiveCache(size, minTTL, maxTTL) with
   minTTL = dnsutil.MinCacheTTL, maxTTL = dnsutil.MaxCacheTTL (cache.go consts,
   tied by cache_min_ttl_ref / cache_max_ttl_ref) *)
Definition ttl_manager : T_TTLManager := mk_T_TTLManager min_cache_ttl max_cache_ttl.

(* capTTL closure: ECS cap for scoped entries, 0 = no cap *)
Definition cap_ttl (scoped : bool) (ecs_max ttl : Z) : Z :=
  if scoped && (0 <? ecs_max) && (ecs_max <? ttl) then ecs_max else ttl.

Definition admit_ttl (cls : rclass) (rrs : list rr) (now : Z) (scoped : bool) (ecs_max : Z) : Z :=
  cap_ttl scoped ecs_max (go_TTLManager_Calculate ttl_manager (calc_cache_ttl cls rrs now)).

(* ReplaceIfCurrent: same calculus, no ECS cap *)
Definition replace_ttl (cls : rclass) (rrs : list rr) (now : Z) : Z :=
  go_TTLManager_Calculate ttl_manager (calc_cache_ttl cls rrs now).

(* ------------------------------------------------------------------ *)
(** * 3. Entries: read-time expiry and the request-tree bound           *)

Record entry := mk_entry {
  e_id : N;             (* pointer identity *)
  e_stored : Z;         (* admission instant *)
  e_ttl : Z;            (* effective ttl *)
  e_cut : option Z;     (* cutUntil; None = zero time = unbounded *)
  e_scoped : bool
}.

(* CacheEntry.remaining *)
Definition remaining (e : entry) (now : Z) : Z :=
  let rem := e_ttl e - (now - e_stored e) in
  match e_cut e with
  | Some c => let cr := c - now in if cr <? rem then cr else rem
  | None => rem
  end.

(* uint32(remaining.Seconds()) for a positive remaining below 2^32 s *)
Definition shown_ttl (e : entry) (now : Z) : Z := remaining e now / second.

(* ToMsg / serveWireInto / serveWireIntoRequest / collectWireChase: nil (miss)
   when remaining <= 0, otherwise every record carries shown_ttl *)
Definition serve (e : entry) (now : Z) : option Z :=
  if remaining e now <=? 0 then None else Some (shown_ttl e now).

(* the instant the entry's lifetime ends *)
Definition entry_end (e : entry) : Z :=
  match e_cut e with
  | Some c => Z.min (e_stored e + e_ttl e) c
  | None => e_stored e + e_ttl e
  end.

(* ResponseMeta.BoundCutFor: keep the earliest non-zero deadline *)
Definition bound (m : option Z) (d : option Z) : option Z :=
  match d with
  | None => m
  | Some x => match m with
              | None => Some x
              | Some y => if x <? y then Some x else m
              end
  end.

(* boundRequestToEntryLifetime: what a hit folds into the request tree *)
Definition bound_entry (e : entry) : Z :=
  let hard := e_stored e + e_ttl e in
  match e_cut e with
  | Some c => if negb (hard <? c) then c else hard
  | None => hard
  end.

(* ShouldPrefetch(threshold) over TTL() and origTTL = uint32(ttl.Seconds()) *)
Definition ttl_secs (e : entry) (now : Z) : Z :=
  let r := remaining e now in if r <=? 0 then 0 else r / second.

(* ------------------------------------------------------------------ *)
(** * 4. Subtree cuts and denial proofs: plain minimum, no floor        *)

Inductive prr :=
| PPlain (ttl : Z)
| PSoa (ttl minttl : Z)
| PSig (ttl origttl expiration : Z).

Definition prr_cands (now : Z) (r : prr) : list Z :=
  match r with
  | PPlain t => [t * second]
  | PSoa t m => [t * second; m * second]
  | PSig t o e => [t * second; o * second; e * second - now]
  end.

(* the `bound` closure applied to a list of candidates *)
Definition bound_min (cands : list Z) (ttl : Z) : Z := fold_left (fun cur c => lower c cur) cands ttl.

(* nxDomainCutCache.record: returns the expiry instant, None = refused.
   [now] is the single time.Now() reading; RRSIG expirations are wall-clock
   seconds, so [wall] is the same reading as ns since the epoch. *)
Definition cut_record (max_ttl soa_ttl soa_min : Z) (proof : list prr) (cut : option Z) (now wall : Z) : option Z :=
  let t0 := bound_min [soa_ttl * second; soa_min * second] max_ttl in
  let t1 := bound_min (flat_map (prr_cands wall) proof) t0 in
  let t2 := match cut with Some c => bound_min [c - now] t1 | None => t1 end in
  if t2 <=? 0 then None else Some (now + t2).

(* denialProofExpiry *)
Definition proof_expiry (max_ttl : Z) (cut : option Z) (records : list prr) (now wall : Z) : option Z :=
  let m := if (max_ttl <=? 0) || (max_denial_proof_ttl <? max_ttl) then max_denial_proof_ttl else max_ttl in
  let t1 := match cut with Some c => bound_min [c - now] m | None => m end in
  let t2 := bound_min (flat_map (prr_cands wall) records) t1 in
  if t2 <=? 0 then None else Some (now + t2).

(* nxDomainCutEntry.response / serveWireInto: miss when expired, else ttl *)
Definition cut_serve (expires now : Z) : option Z :=
  let rem := expires - now in
  if rem <=? 0 then None else Some (rem / second).
(* nxDomainCutCache.lookup keeps an entry only while now.Before(expires) *)
Definition cut_live (expires now : Z) : bool := now <? expires.

(* denialProofResponse: all pieces must be live; expiry = earliest *)
Definition proof_serve (soa_expires : Z) (pieces : list Z) (now : Z) : option (Z * Z) :=
  if negb (now <? soa_expires) then None
  else if negb (forallb (fun x => now <? x) pieces) then None
  else
    let expires := fold_left (fun cur x => if x <? cur then x else cur) pieces soa_expires in
    let rem := expires - now in
    if rem <=? 0 then None else Some (rem / second, expires).

(* The RFC 8198 proof index of one signer zone across several admissions
   (denialProofCache.extract / recordWithKind / lookupWithMeta).  Every proof
   RRset entry is admitted with the expiry of ITS OWN records folded with the
   SOA and SOA-RRSIG of the proof it arrived in and that proof's lease; a later
   admission replaces the SOA entry and the sets it carries, nothing else.
   [pp_*] after the expiry are ghost fields: what the piece was admitted with. *)
Record pset := mk_pset { ps_owner : N; ps_records : list prr }.
Record ppiece := mk_ppiece { pp_owner : N; pp_expires : Z;
                             pp_now : Z; pp_cut : option Z; pp_common : list prr; pp_set : list prr }.
Record pindex := mk_pindex { pi_soa : option Z; pi_pieces : list ppiece }.

Fixpoint admit_sets (max_ttl : Z) (cut : option Z) (common : list prr) (now : Z) (sets : list pset) : option (list ppiece) :=
  match sets with
  | [] => Some []
  | s :: r =>
      match proof_expiry max_ttl cut (common ++ ps_records s) now now, admit_sets max_ttl cut common now r with
      | Some ex, Some l => Some (mk_ppiece (ps_owner s) ex now cut common (ps_records s) :: l)
      | _, _ => None
      end
  end.

Definition pi_replace (old new : list ppiece) : list ppiece :=
  new ++ filter (fun p => negb (existsb (fun q => (pp_owner q =? pp_owner p)%N) new)) old.

(* recordWithKind: the whole bundle or nothing *)
Definition pi_admit (max_ttl : Z) (st : pindex) (now : Z) (cut : option Z) (common : list prr) (sets : list pset) : pindex * bool :=
  match proof_expiry max_ttl cut common now now, admit_sets max_ttl cut common now sets with
  | Some soa, Some l => (mk_pindex (Some soa) (pi_replace (pi_pieces st) l), true)
  | _, _ => (st, false)
  end.

Definition pi_find (l : list ppiece) (o : N) : option ppiece := find (fun p => (pp_owner p =? o)%N) l.

(* lookupWithMeta for a name whose denial needs the RRsets owned by [needed]:
   a zone without a live SOA is retired, expired sets are pruned, the answer
   needs every piece live *)
Definition pi_lookup (st : pindex) (now : Z) (needed : list N) : pindex * option (Z * Z) :=
  match pi_soa st with
  | None => (mk_pindex None [], None)
  | Some soa =>
      if negb (now <? soa) then (mk_pindex None [], None)
      else
        let live := filter (fun p => now <? pp_expires p) (pi_pieces st) in
        let st' := mk_pindex (Some soa) live in
        if forallb (fun o => match pi_find live o with Some _ => true | None => false end) needed
        then (st', proof_serve soa (flat_map (fun o => match pi_find live o with Some p => [pp_expires p] | None => [] end) needed) now)
        else (st', None)
  end.

(* the denial rung inside a request tree (lookupNXDomainCut / lookupDenialProof
   + boundRequestTo): it answers like a cut ([cut_serve d now]) and folds its
   deadline [d] into the request tree before anything is assembled from it; an
   alias answer fetched in the same tree folds its lease as well *)
Definition denial_rung_bound (m : option Z) (d : Z) (lease : option Z) : option Z :=
  bound (bound m (Some d)) lease.

(* DNS64 (middleware/dns64 responseWriter.synthesise) composing from what the
   cache below it served: the AAAA NODATA answer and the A answer of the
   sub-query.  A piece is either fresh from downstream (its upstream TTLs) or a
   cache hit (every record at shown_ttl).  TTLs are seconds. *)
Inductive piece := PFresh (ttl : Z) (lease : option Z) | PHit (e : entry).
Definition piece_ttl (p : piece) (now : Z) : Z :=
  match p with PFresh t _ => t | PHit e => shown_ttl e now end.
(* negativeAAAATTL: min(SOA TTL as served, SOA MINIMUM field), or no SOA *)
Definition dns64_neg (neg : option (piece * Z)) (now : Z) : Z :=
  match neg with
  | Some (p, minimum) => let t := piece_ttl p now in if minimum <? t then minimum else t
  | None => dns64_no_soa_ceiling
  end.
(* RFC 6147 5.1.7: min over the negative TTL and every A record *)
Definition dns64_rfc_ttl (neg : option (piece * Z)) (addrs : list piece) (now : Z) : Z :=
  fold_left (fun cur p => let t := piece_ttl p now in if t <? cur then t else cur) addrs (dns64_neg neg now).
(* what a consulted piece folds into the request tree's ResponseMeta: a cache
   hit its end of life (boundRequestToEntryLifetime), a fresh downstream answer
   the delegation lease it was learned through (None = none reported) *)
Definition piece_fold (p : piece) : option Z :=
  match p with PFresh _ l => l | PHit e => Some (bound_entry e) end.
Definition dns64_bound (m : option Z) (ps : list piece) : option Z :=
  fold_left bound (map piece_fold ps) m.
(* synthesise: `if cut := ResponseMetaFrom(w.ctx).CutUntil(); !cut.IsZero()` —
   left = max(0, cut - now); secs = left / 1 s; ttl = min(ttl, secs) *)
Definition dns64_cap (b : option Z) (now ttl : Z) : Z :=
  match b with
  | None => ttl
  | Some c => let left := if c - now <? 0 then 0 else c - now in
              let secs := left / dns64_cap_unit in   (* the divisor as written in the source (srcgen) *)
              if secs <? ttl then secs else ttl
  end.
(* the synthesised TTL: the RFC value capped by the bound every consulted piece
   (AAAA answer, alias pieces of the A chase, address answer) folded *)
Definition dns64_ttl (neg : option (piece * Z)) (addrs : list piece) (consulted : list piece) (now : Z) : Z :=
  dns64_cap (dns64_bound None consulted) now (dns64_rfc_ttl neg addrs now).

(* The replies dns64 RELAYS instead of synthesising (session 4).
   buildAResponseAsBasis (RFC 6147 5.1.6: the A sub-answer has no address, so its
   alias chain, authority and additional sections become the reply to the AAAA
   question) and handlePTR (5.3.1: a CNAME derived from configuration with the
   constant ptrSynthTTL, then the PTR records of the in-addr.arpa sub-answer)
   copy the RR values of the sub-answer: every relayed record starts from the TTL
   the answer it sits in showed (a cache hit: shown_ttl of that entry; fresh: the
   upstream TTL).  [recs] lists, per relayed record in reply order, the piece it
   was copied from.  The AAAA answer that gated an A-basis reply contributes no
   record; like every consulted piece it folds into the request tree's bound. *)
Definition dns64_relay_ttls (recs : list piece) (now : Z) : list Z :=
  map (fun p => piece_ttl p now) recs.
Definition dns64_ptr_reply (recs : list piece) (now : Z) : list Z :=
  dns64_ptr_synth_ttl :: dns64_relay_ttls recs now.
(* the A-basis reply before 1a0e74f (finding dns64-abasis-gate): the relayed TTLs as they are.
   Kept as the reason for the cap (Example dns64_basis_uncapped_outlives_gate). *)
Definition dns64_basis_reply_uncapped (recs : list piece) (now : Z) : list Z := dns64_relay_ttls recs now.
(* capRelayedTTLs (1a0e74f): `cut := ResponseMetaFrom(w.ctx).CutUntil(); if cut.IsZero() return;
   left = max(0, time.Until(cut)); secs = left / 1 s; every non-OPT record of the three sections
   with Ttl > secs gets secs` -- the cap of synthesise with the divisor as written in
   capRelayedTTLs (srcgen dns64_relay_cap_unit) *)
Definition dns64_relay_cap (b : option Z) (now ttl : Z) : Z :=
  match b with
  | None => ttl
  | Some c => let left := if c - now <? 0 then 0 else c - now in
              let secs := left / dns64_relay_cap_unit in
              if secs <? ttl then secs else ttl
  end.
(* the A-basis reply (buildAResponseAsBasis since 1a0e74f): every relayed TTL capped by the
   request tree's bound, which every consulted answer -- the gate included -- folded *)
Definition dns64_basis_reply (recs consulted : list piece) (now : Z) : list Z :=
  map (fun p => dns64_relay_cap (dns64_bound None consulted) now (piece_ttl p now)) recs.

(* ------------------------------------------------------------------ *)
(** * 5. The store: set / remove / pointer-CAS                          *)

Definition store := list (N * entry).

Fixpoint st_get (s : store) (k : N) : option entry :=
  match s with
  | [] => None
  | (k', e) :: r => if (k' =? k)%N then Some e else st_get r k
  end.
Definition st_remove (s : store) (k : N) : store := filter (fun p => negb (fst p =? k)%N) s.
Definition st_set (s : store) (k : N) (e : entry) : store := (k, e) :: st_remove s k.

(* internal/cache.Cache.CompareAndSwap: pointer identity = id equality *)
Definition st_cas (s : store) (k : N) (old_id : N) (e : entry) : store * bool :=
  match st_get s k with
  | Some cur => if (e_id cur =? old_id)%N then (st_set s k e, true) else (s, false)
  | None => (s, false)
  end.

(* PositiveCache.Get: an expired entry is removed (CompareAndDelete) and missed *)
Definition st_lookup (s : store) (k : N) (now : Z) : option entry * store :=
  match st_get s k with
  | Some e => if remaining e now <=? 0 then (None, st_remove s k) else (Some e, s)
  | None => (None, s)
  end.

(* Operations of the store automaton used for the late-write theorem.
   Entry ids are allocated from a counter: a fresh pointer per admission. *)
Inductive sop :=
| SSet (k : N)                 (* client-path SetFromResponse*: fresh entry *)
| SRemove (k : N)              (* purge / expiry delete / eviction *)
| SCas (k : N) (old_id : N).   (* ReplaceIfCurrent with a fresh entry *)

Record sstate := mk_sstate { ss_next : N; ss_map : list (N * N) (* key -> entry id *) }.

Fixpoint im_get (m : list (N * N)) (k : N) : option N :=
  match m with
  | [] => None
  | (k', v) :: r => if (k' =? k)%N then Some v else im_get r k
  end.
Definition im_remove (m : list (N * N)) (k : N) := filter (fun p => negb (fst p =? k)%N) m.
Definition im_set (m : list (N * N)) (k v : N) := (k, v) :: im_remove m k.

(* one step; the bool is the CAS verdict (true for other ops) *)
Definition sstep (s : sstate) (o : sop) : sstate * bool :=
  match o with
  | SSet k => (mk_sstate (ss_next s + 1) (im_set (ss_map s) k (ss_next s)), true)
  | SRemove k => (mk_sstate (ss_next s) (im_remove (ss_map s) k), true)
  | SCas k old =>
      match im_get (ss_map s) k with
      | Some cur => if (cur =? old)%N
                    then (mk_sstate (ss_next s + 1) (im_set (ss_map s) k (ss_next s)), true)
                    else (mk_sstate (ss_next s + 1) (ss_map s), false)
      | None => (mk_sstate (ss_next s + 1) (ss_map s), false)
      end
  end.
Definition srun (s : sstate) (ops : list sop) : sstate := fold_left (fun st o => fst (sstep st o)) ops s.

(* ------------------------------------------------------------------ *)
(** * 6. Request trees: alias chase with lineage folding                *)

(* a message as the chase sees it; names are small numbers, qtype is A *)
Inductive rtype := TAddr | TCname (target : N) | TSoa (minttl : Z) | TOther (tag : N).
Record mrr := mk_mrr { m_owner : N; m_ttl : Z; m_type : rtype }.
Record msg := mk_msg { g_q : N; g_rcode : N; g_an : list mrr; g_ns : list mrr }.

Definition rtype_eqb (a b : rtype) : bool :=
  match a, b with
  | TAddr, TAddr => true
  | TCname x, TCname y => (x =? y)%N
  | TSoa x, TSoa y => x =? y
  | TOther x, TOther y => (x =? y)%N
  | _, _ => false
  end.
(* dns.IsDuplicate ignores the TTL *)
Definition mrr_dup (a b : mrr) : bool := (m_owner a =? m_owner b)%N && rtype_eqb (m_type a) (m_type b).

Definition is_addr (r : mrr) : bool := match m_type r with TAddr => true | _ => false end.
Definition is_cname (r : mrr) : bool := match m_type r with TCname _ => true | _ => false end.

(* filterCacheableAnswer: keep answer records owned by the question *)
Definition filter_answer (m : msg) : msg :=
  mk_msg (g_q m) (g_rcode m) (filter (fun r => (m_owner r =? g_q m)%N) (g_an m)) (g_ns m).

(* the records CalculateCacheTTL sees for a (filtered) message *)
Definition mrr_to_rr (sec : N) (r : mrr) : rr :=
  mk_rr sec (m_ttl r) (match m_type r with TSoa m => KSoa m | _ => KPlain end).
Definition msg_rrs (m : msg) : list rr := map (mrr_to_rr 0) (g_an m) ++ map (mrr_to_rr 1) (g_ns m).

(* classification of the scripted shapes (no referrals, no signatures):
   ClassifyResponse on rcode / answer / SOA *)
Definition msg_class (m : msg) : rclass :=
  classify (g_rcode m) false (N.of_nat (length (g_an m))) false
           (existsb (fun r => match m_type r with TSoa _ => true | _ => false end) (g_ns m))
           true [] 0.

Definition set_ttls (t : Z) (l : list mrr) : list mrr := map (fun r => mk_mrr (m_owner r) t (m_type r)) l.

(* Names in the tree model are numbers standing for ASCII-case-FOLDED names (the
   driver numbers a name by its lower-case form), so [=?] on names is
   strings.EqualFold.  That is what the code compares with since a4faf69 in both
   self-alias tests of additionalAnswer (`strings.EqualFold(cr.Target, q.Name)`
   in the first scan, `strings.EqualFold(target, q.Name)` in the loop): an alias
   onto the question in another spelling is the same loop.  The list of visited
   targets is compared as exact strings by the code (slices.Contains); the
   driver spells every name one way as a target, so the two readings agree. *)
(* first scan of additionalAnswer: Some None = answer already complete,
   Some (Some t) = chase t, None = alias loops back to the question (folded compare) *)
Fixpoint scan_answers (q : N) (l : list mrr) (acc : option N) : option (option N) :=
  match l with
  | [] => Some acc
  | r :: rest =>
      match m_type r with
      | TAddr => Some None
      | TCname t => if (t =? q)%N then None else scan_answers q rest (Some t)
      | _ => scan_answers q rest acc
      end
  end.

(* searchAdditionalAnswer *)
Definition last_cname (l : list mrr) : option N :=
  fold_left (fun acc r => match m_type r with TCname t => Some t | _ => acc end) l None.
Definition merge_ns (ns extra : list mrr) : list mrr :=
  fold_left (fun acc r => if existsb (mrr_dup r) acc then acc else acc ++ [r]) extra ns.

(* dnsutil.SetRcode(msg, SERVFAIL): a fresh reply without records *)
Definition servfail_of (m : msg) : msg := mk_msg (g_q m) 2 [] [].

(* a cached entry together with the message it retains *)
(* [c_lin] is ghost state: the ends of every piece and lease in the entry's
   transitive lineage (erased for execution; Run.v fills it with []) *)
Record centry := mk_centry { c_entry : entry; c_msg : msg; c_lin : list Z }.
Definition cstore := list (N * centry).          (* keyed by name *)
Fixpoint cs_get (s : cstore) (k : N) : option centry :=
  match s with
  | [] => None
  | (k', e) :: r => if (k' =? k)%N then Some e else cs_get r k
  end.
Definition cs_set (s : cstore) (k : N) (e : centry) : cstore :=
  (k, e) :: filter (fun p => negb (fst p =? k)%N) s.
Definition cs_remove (s : cstore) (k : N) : cstore := filter (fun p => negb (fst p =? k)%N) s.

(* the scripted downstream: per name, the response and the lease it reports *)
Record script := mk_script { sc_msg : msg; sc_cut : option Z }.
Definition scripts := list (N * script).
Fixpoint sc_get (s : scripts) (k : N) : option script :=
  match s with
  | [] => None
  | (k', e) :: r => if (k' =? k)%N then Some e else sc_get r k
  end.

(* a subtree cut (RFC 8020) covering a name: expiry and the proof it serves *)
Record ccut := mk_ccut { k_expires : Z; k_ns : list mrr }.
Definition cuts := list (N * ccut).
Fixpoint ct_get (s : cuts) (k : N) : option ccut :=
  match s with
  | [] => None
  | (k', e) :: r => if (k' =? k)%N then Some e else ct_get r k
  end.

(* world threaded through one request tree.  [w_wit]: clock readings taken by
   NewCacheEntryWithKey for the entries admitted in this tree, in order
   (environment input); [w_adm]: what was admitted, with the lineage it was
   composed from (output + ghost); [w_hits]: every piece served out of the
   cache with the TTL shown (ghost log). *)
Record world := mk_world {
  w_store : cstore;
  w_cuts : cuts;
  w_next : N;
  w_wit : list Z;
  w_adm : list (N * entry * list Z);
  w_hits : list (entry * Z * Z)      (* entry, TTL shown, clock reading *)
}.

Definition empty_msg (q : N) : msg := mk_msg q 2 [] [].

(* the three ways a request tree changes the world *)
Definition w_drop (w : world) (q : N) : world :=
  mk_world (cs_remove (w_store w) q) (w_cuts w) (w_next w) (w_wit w) (w_adm w) (w_hits w).
Definition w_log (w : world) (e : entry) (t now : Z) : world :=
  mk_world (w_store w) (w_cuts w) (w_next w) (w_wit w) (w_adm w) (w_hits w ++ [(e, t, now)]).
Definition w_admit (w : world) (q : N) (stored ttl : Z) (cut : option Z) (m : msg) (lin : list Z) (wit' : list Z) : world :=
  let e := mk_entry (w_next w) stored ttl cut false in
  mk_world (cs_set (w_store w) q (mk_centry e m lin)) (w_cuts w) (w_next w + 1) wit'
           (w_adm w ++ [(q, e, lin)]) (w_hits w).

(* result of serving a (sub-)query: world, request meta after, reply, and the
   ghost lineage folded into that meta by this (sub-)tree *)
Definition tres : Type := world * option Z * msg * list Z.
(* a sub-query server: fresh forked meta, given chase depth and name *)
Definition sub_t : Type := world -> Z -> N -> tres.

Section Tree.
  Variable sc : scripts.
  Variable now : Z.         (* every clock reading inside the tree (see Run.v) *)

  (* additionalAnswer's loop: [m] outer message, [target] next name,
     [targets] visited, [cd] remaining cnameDepth, [lin] lineage so far *)
  Fixpoint chase (rec : sub_t) (n : nat) (w : world) (meta : option Z) (m : msg) (lin : list Z)
           (depth : Z) (target : N) (targets : list N) (cd : Z) {struct n} : tres :=
    match n with
    | O => (w, meta, m, lin)
    | S n' =>
      if existsb (N.eqb target) targets then (w, meta, servfail_of m, lin)
      else
        (* internalExchange: sub-query under a forked meta *)
        let '(w1, child, resp, clin) := rec w (depth + 1) target in
        let used := negb (match g_an resp, g_ns resp with [], [] => true | _, _ => false end) in
        let m1 := if used then mk_msg (g_q m) (g_rcode m) (g_an m ++ g_an resp) (merge_ns (g_ns m) (g_ns resp)) else m in
        (* lineage.inherit() *)
        let meta1 := if used then bound meta child else meta in
        let lin1 := if used then lin ++ clin else lin in
        if (g_rcode resp =? 3)%N then
          (w1, bound meta1 child, mk_msg (g_q m1) 3 (g_an m1) (g_ns m1), lin ++ clin)
        else
          let target' := if used then last_cname (g_an resp) else Some target in
          let child_flag := used && existsb is_cname (g_an resp) in
          match target' with
          | Some t' =>
              if (t' =? g_q m)%N (* strings.EqualFold(target, q.Name) *) then (w1, meta1, servfail_of m1, lin1)
              else if child_flag && (0 <? cd - 1) && negb (existsb is_addr (g_an resp))
                   then chase rec n' w1 meta1 m1 lin1 depth t' (targets ++ [target]) (cd - 1)
                   else (w1, meta1, m1, lin1)
          | None => (w1, meta1, m1, lin1)     (* target = "": never equals the question *)
          end
    end.

  (* additionalAnswer *)
  Definition additional (rec : sub_t) (w : world) (meta : option Z) (m : msg) (lin : list Z) (depth : Z) : tres :=
    if (g_rcode m =? 3)%N then (w, meta, m, lin)
    else match scan_answers (g_q m) (g_an m) None with
         | None => (w, meta, servfail_of m, lin)
         | Some None => (w, meta, m, lin)
         | Some (Some t) => chase rec 11%nat w meta m lin depth t [] 10
         end.

  (* cache miss: downstream handler, then ResponseWriter.WriteMsg *)
  Definition miss_path (rec : sub_t) (w : world) (meta : option Z) (depth : Z) (q : N) : tres :=
    match sc_get sc q with
    | None => (w, meta, empty_msg q, [])
    | Some s =>
        (* the downstream folds its lease into the request meta, then writes *)
        let meta0 := bound meta (sc_cut s) in
        let lin0 := match sc_cut s with Some c => [c] | None => [] end in
        let res := sc_msg s in
        if (g_rcode res =? 2)%N then (w, meta0, res, lin0)
        else
          let '(w1, meta1, res1, lin1) :=
            if depth <? max_cname_chase_depth then additional rec w meta0 res lin0 depth else (w, meta0, res, lin0) in
          if (g_rcode res1 =? 2)%N then (w1, meta1, res1, lin1)
          else
            let filtered := filter_answer res1 in
            let cls := msg_class res1 in
            if admitted_class cls then
              match w_wit w1 with
              | stored :: wit' =>
                  let ttl := admit_ttl cls (msg_rrs filtered) 0 false 0 in
                  (w_admit w1 q stored ttl meta1 filtered lin1 wit', meta1, res1, lin1)
              | [] => (w1, meta1, res1, lin1)
              end
            else (w1, meta1, res1, lin1)
    end.

  (* subtree cut rung (lookupNXDomainCut / handleNXDomainCutHit), then the miss path *)
  Definition cut_or_miss (rec : sub_t) (w : world) (meta : option Z) (depth : Z) (q : N) : tres :=
    match ct_get (w_cuts w) q with
    | Some c =>
        if cut_live (k_expires c) now then
          match cut_serve (k_expires c) now with
          | Some t => (w, bound meta (Some (k_expires c)), mk_msg q 3 [] (set_ttls t (k_ns c)), [k_expires c])
          | None => miss_path rec w meta depth q
          end
        else miss_path rec w meta depth q
    | None => miss_path rec w meta depth q
    end.

  (* Cache.ServeDNS for [q] at chase depth [depth] with request meta [meta] *)
  Definition serve_body (rec : sub_t) (w : world) (meta : option Z) (depth : Z) (q : N) : tres :=
    match cs_get (w_store w) q with
    | Some ce =>
        if remaining (c_entry ce) now <=? 0
        then (* expired: PositiveCache.Get deletes it; continue as a miss *)
          cut_or_miss rec (w_drop w q) meta depth q
        else
          (* handleCacheHit: ToMsg, bind, chase *)
          let e := c_entry ce in
          let t := shown_ttl e now in
          let m := mk_msg q (g_rcode (c_msg ce)) (set_ttls t (g_an (c_msg ce))) (set_ttls t (g_ns (c_msg ce))) in
          let meta1 := bound meta (Some (bound_entry e)) in
          let lin1 := bound_entry e :: c_lin ce in
          let w1 := w_log w e t now in
          if depth <? max_cname_chase_depth then additional rec w1 meta1 m lin1 depth else (w1, meta1, m, lin1)
    | None => cut_or_miss rec w meta depth q
    end.

  (* [fuel] bounds the nesting of sub-queries *)
  Fixpoint serve_dns (fuel : nat) (w : world) (meta : option Z) (depth : Z) (q : N) : tres :=
    match fuel with
    | O => (w, meta, empty_msg q, [])
    | S fuel' => serve_body (fun w d t => serve_dns fuel' w None d t) w meta depth q
    end.
End Tree.
