(* C04 — correspondence: case type and the two checkers evaluated with
   vm_compute on what the Go drivers observed.

   check_case: the model explains what the implementation did.  The code reads
   the clock itself (time.Now()), so a driver can only bracket a reading:
   every clock value an operation used lies in [t0, t1] (virtual, monotonic
   ns) and [w0, w1] (wall ns since the epoch).  A check therefore asks whether
   SOME reading inside the bracket makes the model produce the observed
   value; all the functions involved are monotone in the reading, so that is
   decided by evaluating the model at the two ends (hit_consistent_sound in
   Proofs.v).

   spec_case: what the implementation did satisfies the property's statement,
   judged by an oracle written independently of the model's code structure
   (the earliest permissible expiry from the admission inputs). *)
From Sdns Require Export Common.Base Gen.C04 C04.Model.
Open Scope Z_scope.

(* an observed stored entry *)
Inductive oent := NoEnt | Ent (stored ttl : Z) (cut : option Z) (scoped : bool).
Definition oent_entry (o : oent) : option entry :=
  match o with NoEnt => None | Ent s t c sc => Some (mk_entry 0 s t c sc) end.

(* one observed hit attempt: route, clock bracket, shown TTL (-1 = miss) *)
Record hit := mk_hit { h_route : N; h_t0 : Z; h_t1 : Z; h_ttl : Z }.

Record pre := mk_pre { p_name : N; p_ent : oent; p_msg : msg }.
Record nscript := mk_nscript { ns_name : N; ns_msg : msg; ns_cut : option Z }.
Record nadm := mk_nadm { na_name : N; na_ent : oent }.
(* a live subtree cut covering a world name: expiry and the authority records it serves *)
Record ncut := mk_ncut { nc_name : N; nc_expires : Z; nc_ns : list mrr }.

(* store automaton operations as driven on the real store *)
Inductive cop :=
| XSet (k : N) (id_after : N)             (* SetFromResponse*: id now at k (0 = none) *)
| XRemove (k : N) (id_after : N)
| XCas (k : N) (old : N) (servfail : bool) (ok : bool) (id_after : N).  (* servfail: the refresh was a SERVFAIL, which never displaces a positive entry *)

(* steps of a history on one zone's RFC 8198 proof index (injected clock) *)
Inductive pstep :=
| PAdm (now : Z) (cut : option Z) (common : list prr) (sets : list pset) (ok : bool)
| PLook (now : Z) (needed : list N) (ttl : Z) (exp : option Z).

Inductive case :=
(* dnsutil.getRRSIGTTL(sig, now), exact *)
| CSigTTL (ttl exp now obs : Z)
(* dnsutil.CalculateCacheTTL(msg, class) with the wall clock in [w0, w1] *)
| CCalc (cls : rclass) (rrs : list rr) (w0 w1 obs : Z)
(* dnsutil.ClassifyResponse(msg, now) *)
| CClassify (rcode : N) (meta : bool) (nans : N) (deleg soa sc : bool) (rrs : list rr) (now_unix : Z) (obs : rclass)
(* admission through a store entry point.  how: 0 SetFromResponseWithKey,
   1 SetFromResponseScoped, 2 client path (ServeDNS miss -> WriteMsg),
   3 Cache.Set, 4 ReplaceIfCurrent *)
| CAdmit (how : N) (cls : rclass) (rrs : list rr) (scoped : bool) (ecs_max : Z) (cut : option Z)
         (w0 w1 t0 t1 : Z) (obs : oent)
(* CacheEntry.remaining(now), exact *)
| CRemain (stored ttl : Z) (cut : option Z) (now obs : Z)
(* boundRequestToEntryLifetime into a fresh meta, then Cut() *)
| CBound (stored ttl : Z) (cut : option Z) (obs : option Z)
(* BoundCutFor sequences with a forked child: parent-pre, child, inherit?, parent-post *)
| CFold (ppre child : list (option Z)) (inherit : bool) (ppost : list (option Z)) (obs_parent obs_child : option Z)
(* one key: admission, then hits on every route across a stepped clock *)
| CHist (how : N) (cls : rclass) (rrs : list rr) (scoped : bool) (ecs_max : Z) (cut : option Z)
        (w0 w1 t0 t1 : Z) (obs : oent) (hits : list hit) (bound_obs : list (option Z))
(* nxDomainCutCache.record: reading = entry.stored (now, wall); refused: bracket *)
| CCutRec (max_ttl soa_ttl soa_min : Z) (proof : list prr) (cut : option Z)
          (now wall t1 w1 : Z) (obs : option Z)
(* a cut served through the pipeline: expires, bracket, shown ttl (-1 miss), meta after *)
| CCutServe (route : N) (expires t0 t1 ttl : Z) (bound_obs : option Z)
(* a cut RE-recorded by the client path during one request tree from the denial the rung
   synthesised out of the older cut for the same name (session 5): the older cut's expiry, start of
   the query, the new entry's record inputs read back from it (as CCutRec: SOA ttl / minimum, the
   stored proof records, its single clock reading [now]/[wall]), the request bound after the
   query, the new expiry.  The lease the code passed is the bound of the (sub-)request that wrote
   the adopted denial: [top] = the top-level request itself wrote it last (its own answer was
   admitted in this query and is the adopted NXDOMAIN): the lease is the observed bound, exactly;
   otherwise a sub-request's, between the final bound of the whole tree and the older cut's expiry. *)
| CCutRerec (top : bool) (max_ttl old_exp t0 soa_ttl soa_min : Z) (proof : list prr) (bound_obs : option Z)
            (now wall new_exp : Z)
(* denialProofExpiry(now, maxTTL, cutUntil, records), exact *)
| CProofExp (max_ttl : Z) (cut : option Z) (records : list prr) (now : Z) (obs : option Z)
(* denial proof cache with injected clock: SOA expiry, piece expiries, now; shown ttl / expiry *)
| CProofServe (soa_exp : Z) (pieces : list Z) (now ttl : Z) (exp_obs : option Z)
(* several admissions into one zone's proof index across clock steps, and lookups *)
| CProofHist (max_ttl : Z) (steps : list pstep)
(* DNS64 above the cache: AAAA NODATA piece (with SOA MINIMUM) or none, the A
   pieces (one per address record), the alias pieces the A chase went through,
   bracket, the request tree's bound afterwards where the route lets the driver
   read it, TTLs of the synthesised AAAAs, TTLs of the alias records in the reply *)
| CDns64 (has_soa : bool) (neg : piece) (minimum : Z) (addrs via : list piece) (t0 t1 : Z)
         (bobs : option (option Z)) (obs : list Z) (cobs : list Z)
(* the denial rung (RFC 8198 proof index, or the subtree cut recorded from it)
   through the whole pipeline: deadline [d] of what the rung holds, deadline
   [dspec] of the denial the served answer was composed from (= d unless the
   answer is a hit on an alias entry re-cached from an earlier denial), lease
   of the alias answer when it was fetched in this query, the alias entry when
   the answer is a hit on it, bracket, TTLs that came out of the cache, request
   bound afterwards (where readable), (stored, ttl, cut) of entries admitted *)
| CProofTree (d dspec : Z) (lease : option Z) (ahit : option entry) (t0 t1 : Z) (ttls : list Z)
             (bobs : option (option Z)) (adm : list (Z * Z * option Z))
(* a reply dns64 relays (session 4): mode 0 = A-basis reply (RFC 6147 5.1.6, as repaired by 1a0e74f:
   relayed TTLs capped by the request tree's bound), 2 = PTR translation
   (5.3.1; the first TTL observed is the synthesised CNAME's), 1 = the twin of an A-basis case that
   judges one clause alone: the reply against the lifetime of the cached AAAA answer that gated it
   (the former finding dns64-abasis-gate; a strict regression case since 1a0e74f).
   [recs]: per relayed record the piece it was copied from; [consulted]: every answer the request
   tree consulted (the gate first); bracket; request bound afterwards (where readable); TTLs observed *)
| CDns64Relay (mode : N) (gate : option piece) (recs consulted : list piece) (t0 t1 : Z)
              (bobs : option (option Z)) (obs : list Z)
(* ReplaceIfCurrent racing SetFromResponse*/Purge on one store, any order *)
| CCas (ops : list cop)
(* prefetch through the real queue: claimed entry, refresh inputs, what the
   client path stored meanwhile, outcome *)
| CPrefetch (claimed_id : N) (current_id : N) (cls : rclass) (rrs : list rr) (cut : option Z)
            (w0 w1 t0 t1 : Z) (replaced : bool) (after_id : N) (after : oent)
(* one request tree (alias chase) over a store snapshot and scripted downstream *)
(* route 4: wire-born request that was materialised (its request meta is detached, not observable) *)
| CTree (route : N) (pres : list pre) (pcuts : list ncut) (sc : list nscript) (q : N) (t0 t1 : Z) (wit : list Z)
        (reply : msg) (meta_obs : option Z) (adm : list nadm) (missed : list N).

(* ------------------------------------------------------------------ *)
(* helpers *)

Fixpoint list_z_eqb (a b : list Z) : bool :=
  match a, b with
  | [], [] => true
  | x :: a', y :: b' => (x =? y) && list_z_eqb a' b'
  | _, _ => false
  end.
Definition oz_eqb (a b : option Z) : bool :=
  match a, b with
  | None, None => true
  | Some x, Some y => x =? y
  | _, _ => false
  end.
Definition within (lo x hi : Z) : bool := (lo <=? x) && (x <=? hi).

Definition rclass_eqb (a b : rclass) : bool :=
  match a, b with
  | RSuccess, RSuccess | RReferral, RReferral | RNXDomain, RNXDomain
  | RNoRecords, RNoRecords | RServFail, RServFail | RExpiredSig, RExpiredSig
  | RNotCacheable, RNotCacheable | ROther, ROther => true
  | _, _ => false
  end.

(* a clock reading in [t0,t1] explains the observed hit outcome *)
Definition hit_consistent (e : entry) (t0 t1 ttl : Z) : bool :=
  if ttl <? 0 then remaining e t1 <=? 0
  else (0 <? remaining e t0) && (ttl <=? shown_ttl e t0) && (Z.max 0 (shown_ttl e t1) <=? ttl).

(* the model's admission TTL for an entry point *)
Definition model_ttl (how : N) (cls : rclass) (rrs : list rr) (scoped : bool) (ecs_max wall : Z) : Z :=
  if (how =? 4)%N then replace_ttl cls rrs wall
  else if (how =? 3)%N then admit_ttl cls rrs wall false 0
  else admit_ttl cls rrs wall scoped ecs_max.

(* admission explained: class admitted <-> entry present; ttl within the wall
   bracket (the RRSIG term shrinks as the wall clock grows); stored within the
   virtual bracket; cut and scope as given *)
Definition admit_consistent (how : N) (cls : rclass) (rrs : list rr) (scoped : bool) (ecs_max : Z)
           (cut : option Z) (w0 w1 t0 t1 : Z) (obs : oent) : bool :=
  match obs with
  | NoEnt => negb (admitted_class cls)
  | Ent stored ttl c sc =>
      admitted_class cls
      && within (model_ttl how cls rrs scoped ecs_max w1) ttl (model_ttl how cls rrs scoped ecs_max w0)
      && within t0 stored t1 && oz_eqb c cut && Bool.eqb sc scoped
  end.

Definition fold_bounds (m : option Z) (l : list (option Z)) : option Z := fold_left bound l m.

(* ---------------- specification oracle (independent) ---------------- *)

(* the statement's own constants (not the code's): floor 5 s, ceiling 24 h,
   proofs capped at 3 h *)
Definition spec_floor : Z := 5 * second.
Definition spec_ceiling : Z := 86400 * second.
Definition spec_proof_cap : Z := 10800 * second.

(* the smallest of the lifetime terms the statement lists, in ns, for the
   most generous clock reading [wall] of the bracket *)
Definition spec_terms (cls : rclass) (rrs : list rr) (wall : Z) : list Z :=
  flat_map (fun r =>
    match rr_kind r with
    | KOpt => if (rr_sec r =? 2)%N then [] else [rr_ttl r * second]
    | KPlain => [rr_ttl r * second]
    | KSoa m => match cls with
                | RNXDomain | RNoRecords => if (rr_sec r =? 1)%N then [rr_ttl r * second; m * second] else [rr_ttl r * second]
                | _ => [rr_ttl r * second]
                end
    | KSig e => [rr_ttl r * second; Z.max spec_floor (e * second - wall)]
    end) rrs.
Definition list_min (l : list Z) (d : Z) : Z := fold_right Z.min d l.
(* "floored at 5 s, capped at 24 h", then the ECS cap *)
Definition spec_ttl (cls : rclass) (rrs : list rr) (scoped : bool) (ecs_max wall : Z) : Z :=
  let base := match cls with
              | RSuccess | RNXDomain | RNoRecords =>
                  Z.min spec_ceiling (Z.max spec_floor (list_min (spec_terms cls rrs wall) spec_ceiling))
              | _ => spec_floor
              end in
  if scoped && (0 <? ecs_max) then Z.min base ecs_max else base.
(* the lease overrides the floor *)
Definition spec_end (stored ttl : Z) (cut : option Z) : Z :=
  match cut with Some c => Z.min (stored + ttl) c | None => stored + ttl end.

(* a served hit is inside the lifetime and its TTL does not exceed what is left *)
Definition spec_hit (e_end : Z) (h : hit) : bool :=
  if h_ttl h <? 0 then true
  else (h_t0 h <? e_end) && (h_ttl h * second <=? e_end - h_t0 h).
(* never grows between hits (hits are in clock order) *)
Fixpoint spec_antitone (last : option Z) (l : list hit) : bool :=
  match l with
  | [] => true
  | h :: r =>
      if h_ttl h <? 0 then spec_antitone last r
      else match last with
           | Some x => (h_ttl h <=? x) && spec_antitone (Some (h_ttl h)) r
           | None => spec_antitone (Some (h_ttl h)) r
           end
  end.

(* plain minimum of a proof's terms, no floor *)
Definition spec_plain (cands : list Z) (cap : Z) : Z := list_min cands cap.

(* ---------------- request trees ---------------- *)

Definition mrr_eqb (a b : mrr) : bool :=
  (m_owner a =? m_owner b)%N && (m_ttl a =? m_ttl b) && rtype_eqb (m_type a) (m_type b).
Fixpoint list_eqb {A} (f : A -> A -> bool) (a b : list A) : bool :=
  match a, b with
  | [], [] => true
  | x :: xs, y :: ys => f x y && list_eqb f xs ys
  | _, _ => false
  end.
Definition msg_eqb (a b : msg) : bool :=
  (g_q a =? g_q b)%N && (g_rcode a =? g_rcode b)%N && list_eqb mrr_eqb (g_an a) (g_an b) && list_eqb mrr_eqb (g_ns a) (g_ns b).

Definition pres_store (l : list pre) : cstore * N :=
  fold_left (fun acc p =>
               match p_ent p with
               | NoEnt => acc
               | Ent s t c scp => (cs_set (fst acc) (p_name p) (mk_centry (mk_entry (snd acc) s t c scp) (p_msg p) []), (snd acc + 1)%N)
               end) l ([], 1%N).
Definition scripts_of (l : list nscript) : scripts := map (fun s => (ns_name s, mk_script (ns_msg s) (ns_cut s))) l.

Definition oent_eqb (a : oent) (e : entry) : bool :=
  match a with
  | NoEnt => false
  | Ent s t c sc => (s =? e_stored e) && (t =? e_ttl e) && oz_eqb c (e_cut e) && Bool.eqb sc (e_scoped e)
  end.
Definition adm_eqb (a : nadm) (b : N * entry * list Z) : bool := (na_name a =? fst (fst b))%N && oent_eqb (na_ent a) (snd (fst b)).
Fixpoint adm_list_eqb (a : list nadm) (b : list (N * entry * list Z)) : bool :=
  match a, b with
  | [], [] => true
  | x :: xs, y :: ys => adm_eqb x y && adm_list_eqb xs ys
  | _, _ => false
  end.

Fixpoint all_within (t0 t1 : Z) (l : list Z) : bool :=
  match l with [] => true | x :: r => within t0 x t1 && all_within t0 t1 r end.

(* follow CNAME targets through the reply from [n] *)
Fixpoint reach (fuel : nat) (an : list mrr) (n : N) : list N :=
  match fuel with
  | O => [n]
  | S f => n :: flat_map (fun r => match m_type r with
                                   | TCname t => if (m_owner r =? n)%N then reach f an t else []
                                   | _ => [] end) an
  end.
Definition pre_end (p : pre) : option Z :=
  match p_ent p with NoEnt => None | Ent s t c _ => Some (spec_end s t c) end.
Definition find_pre (l : list pre) (n : N) : option pre := find (fun p => (p_name p =? n)%N) l.
Definition mem_n (n : N) (l : list N) : bool := existsb (N.eqb n) l.
Definition owners (m : msg) : list N := map m_owner (g_an m) ++ map m_owner (g_ns m).

(* which subtree cut, if any, the chase from [n] ended at: follow the aliases
   in the reply through names resolved downstream or served from live
   non-terminal entries; a name with no entry and a cut is answered by the cut *)
Fixpoint cut_consulted (fuel : nat) (pres : list pre) (pcuts : list ncut) (missed : list N) (an : list mrr) (n : N) : option ncut :=
  match fuel with
  | O => None
  | S f =>
      let next := match find (fun r => (m_owner r =? n)%N && is_cname r) an with
                  | Some r => match m_type r with TCname t => cut_consulted f pres pcuts missed an t | _ => None end
                  | None => None
                  end in
      if mem_n n missed then next
      else match find_pre pres n with
           | Some p => if (g_rcode (p_msg p) =? 3)%N then None else next
           | None => find (fun c => (nc_name c =? n)%N) pcuts
           end
  end.

(* the names the chase from [n] actually consulted: follow the aliases in the
   reply, but not past a name answered by a live cached NXDOMAIN (terminal) *)
Fixpoint reach_consulted (fuel : nat) (pres : list pre) (missed : list N) (t0 : Z) (an : list mrr) (n : N) : list N :=
  match fuel with
  | O => [n]
  | S f =>
      let terminal := negb (mem_n n missed)
                      && match find_pre pres n with
                         | Some p => (g_rcode (p_msg p) =? 3)%N && match pre_end p with Some pe => t0 <? pe | None => false end
                         | None => false
                         end in
      n :: (if terminal then []
            else flat_map (fun r => match m_type r with
                                    | TCname t => if (m_owner r =? n)%N then reach_consulted f pres missed t0 an t else []
                                    | _ => [] end) an)
  end.

(* owners whose records a downstream response supplied in this tree *)
Definition fresh_owners (sc : list nscript) (missed : list N) : list N :=
  flat_map (fun n => match find (fun x => (ns_name x =? n)%N) sc with
                     | Some x => owners (ns_msg x)
                     | None => []
                     end) missed.

Definition tree_spec (route : N) (pres : list pre) (pcuts : list ncut) (sc : list nscript) (t0 : Z) (reply : msg) (mo : option Z) (adm : list nadm) (missed : list N) : bool :=
  let fresh := fresh_owners sc missed in
  (* every record that came out of the cache is inside its piece's lifetime *)
  forallb (fun r =>
             if mem_n (m_owner r) fresh then true
             else match find_pre pres (m_owner r) with
                  | Some p => match pre_end p with
                              | Some e => (t0 <? e) && (m_ttl r * second <=? e - t0)
                              | None => true
                              end
                  | None => true
                  end) (g_an reply)
  (* the request-tree bound left behind is no later than the end of any cached
     piece whose records are in the reply (when that bound is observable) *)
  && ((route =? 4)%N ||
      forallb (fun r =>
                 if mem_n (m_owner r) fresh then true
                 else match find_pre pres (m_owner r) with
                      | Some p => match pre_end p, mo with
                                  | Some e, Some b => b <=? e
                                  | Some e, None => false
                                  | None, _ => true
                                  end
                      | None => true
                      end) (g_an reply))
  (* a denial synthesised from a subtree cut is inside the cut's lifetime.  An authority record
     of the reply is the cut's when the cut holds that record (owner and data, as the code's
     duplicate test reads them); the same record may ALSO sit in the authority section of a live
     cached answer whose records are in the reply (an alias entry that adopted an earlier denial
     of the zone: the merge keeps the first copy, at that entry's TTL) or of an answer fetched in
     this tree: it then has to be inside one of its possible sources (session 5; before, every
     record owned by a name the cut has records for was taken to be the cut's) *)
  && match cut_consulted 12 pres pcuts missed (g_an reply) (g_q reply) with
     | Some c =>
         if (g_rcode reply =? 3)%N then
           forallb (fun r =>
             if existsb (mrr_dup r) (nc_ns c)
             then ((t0 <? nc_expires c) && (m_ttl r * second <=? nc_expires c - t0))
                  || existsb (fun p => match pre_end p with
                                       | Some pe => negb (mem_n (p_name p) missed)
                                                    && mem_n (p_name p) (map m_owner (g_an reply))
                                                    && existsb (mrr_dup r) (g_ns (p_msg p))
                                                    && (t0 <? pe) && (m_ttl r * second <=? pe - t0)
                                       | None => false
                                       end) pres
                  || existsb (fun n => match find (fun x => (ns_name x =? n)%N) sc with
                                       | Some x => existsb (fun y => mrr_dup r y && (m_ttl r <=? m_ttl y)) (g_ns (ns_msg x))
                                       | None => false
                                       end) missed
             else true) (g_ns reply)
         else true
     | None => true
     end
  (* every entry admitted from the tree ends no later than each cached piece
     and each lease it was learned through *)
  && forallb (fun a =>
       match na_ent a with
       | NoEnt => true
       | Ent s t c _ =>
           let e_end := spec_end s t c in
           forallb (fun n =>
                      if mem_n n missed then
                        (* a downstream answer binds the entry to its lease when it
                           contributed: the entry's own answer, records in the reply,
                           or a terminal negative answer (a failed sub-query that
                           contributed nothing does not) *)
                        match find (fun x => (ns_name x =? n)%N) sc with
                        | Some x =>
                            let contributed := (n =? na_name a)%N || mem_n n (owners reply)
                                               || (match g_an (ns_msg x), g_ns (ns_msg x) with [], _ :: _ => true | _, _ => false end)
                                               (* a bare NXDOMAIN adopted as the outer rcode *)
                                               || ((g_rcode (ns_msg x) =? 3)%N && (g_rcode reply =? 3)%N) in
                            if contributed then match ns_cut x with Some lease => e_end <=? lease | None => true end
                            else true
                        | None => true
                        end
                      else if mem_n n fresh then true
                      else match find_pre pres n with
                           | Some p =>
                               (* a live cached piece contributed when its records are in the
                                  reply, or when it is the denial the outer NXDOMAIN was adopted from
                                  (which may carry no record at all) *)
                               let live := match pre_end p with Some pe => t0 <? pe | None => false end in
                               let contributed := mem_n n (owners reply)
                                                  || ((g_rcode (p_msg p) =? 3)%N && (g_rcode reply =? 3)%N) in
                               if live && contributed
                               then match pre_end p with Some pe => e_end <=? pe | None => true end
                               else true
                           | None => true
                           end)
                   (reach_consulted 12 pres missed t0 (g_an reply) (na_name a))
           (* ... and no later than the subtree cut whose synthesised denial it adopted *)
           && match cut_consulted 12 pres pcuts missed (g_an reply) (na_name a) with
              | Some c => if (g_rcode reply =? 3)%N then e_end <=? nc_expires c else true
              | None => true
              end
       end) adm.

(* ---------------- store automaton on observed ids ---------------- *)

(* replay the observed ids: the CAS verdict and the id left at the key must be
   what pointer identity dictates.  [m]: key -> id currently stored. *)
Fixpoint cas_replay (m : list (N * N)) (fresh : N) (ops : list cop) : bool :=
  match ops with
  | [] => true
  | XSet k id :: r =>
      (* a set always installs an entry nobody has seen before *)
      (fresh <=? id)%N && cas_replay (im_set m k id) (id + 1)%N r
  | XRemove k id :: r => (id =? 0)%N && cas_replay (im_remove m k) fresh r
  | XCas k old sf ok id :: r =>
      let cur := match im_get m k with Some c => c | None => 0%N end in
      let expect_ok := (negb (cur =? 0)%N) && (cur =? old)%N && negb sf in
      Bool.eqb ok expect_ok
      && (if expect_ok then (fresh <=? id)%N && cas_replay (im_set m k id) (id + 1)%N r
          else (id =? cur)%N && cas_replay m fresh r)
  end.
(* the statement directly: a CAS whose expected entry was superseded by a
   later write for the key fails and leaves the newer entry *)
Fixpoint cas_spec (latest : list (N * N)) (ops : list cop) : bool :=
  match ops with
  | [] => true
  | XSet k id :: r => cas_spec (im_set latest k id) r
  | XRemove k id :: r => cas_spec (im_remove latest k) r
  | XCas k old sf ok id :: r =>
      match im_get latest k with
      | Some cur => if (cur =? old)%N then (if ok then cas_spec (im_set latest k id) r else (id =? cur)%N && cas_spec latest r)
                    else negb ok && (id =? cur)%N && cas_spec latest r
      | None => negb ok && (id =? 0)%N && cas_spec latest r
      end
  end.

(* ---------------- proof index histories ---------------- *)

Fixpoint phist_check (mx : Z) (st : pindex) (l : list pstep) : bool :=
  match l with
  | [] => true
  | PAdm now cut common sets ok :: r =>
      let '(st', ok') := pi_admit mx st now cut common sets in
      Bool.eqb ok ok' && phist_check mx st' r
  | PLook now needed ttl eo :: r =>
      let '(st', res) := pi_lookup st now needed in
      (match res with
       | Some (t, e) => (t =? ttl) && oz_eqb eo (Some e)
       | None => (ttl <? 0) && oz_eqb eo None
       end) && phist_check mx st' r
  end.

(* the statement, per admission: the end of what a piece was admitted with is
   the plain minimum of the SOA terms, the SOA signature, the set's own terms,
   the lease and the 3 h cap, counted from the admission *)
Definition adm_end (mx now : Z) (cut : option Z) (common set : list prr) : Z :=
  let cap := if (0 <? mx) && (mx <? spec_proof_cap) then mx else spec_proof_cap in
  now + spec_plain (flat_map (prr_cands now) (common ++ set) ++ match cut with Some c => [c - now] | None => [] end) cap.

(* latest accepted admission (scanning the history so far, newest first) that carried owner [o] *)
Fixpoint latest_end (mx : Z) (past : list pstep) (o : N) : option Z :=
  match past with
  | [] => None
  | PAdm now cut common sets true :: r =>
      match find (fun s => (ps_owner s =? o)%N) sets with
      | Some s => Some (adm_end mx now cut common (ps_records s))
      | None => latest_end mx r o
      end
  | _ :: r => latest_end mx r o
  end.
Fixpoint latest_soa_end (mx : Z) (past : list pstep) : option Z :=
  match past with
  | [] => None
  | PAdm now cut common _ true :: r => Some (adm_end mx now cut common [])
  | _ :: r => latest_soa_end mx r
  end.

Fixpoint phist_spec (mx : Z) (past : list pstep) (l : list pstep) : bool :=
  match l with
  | [] => true
  | (PLook now needed ttl eo as st) :: r =>
      (if ttl <? 0 then true
       else
         let ok_end (e : option Z) := match e with Some x => (now <? x) && (ttl * second <=? x - now) | None => false end in
         ok_end (latest_soa_end mx past) && forallb (fun o => ok_end (latest_end mx past o)) needed
         && match eo with
            | Some x => forallb (fun o => match latest_end mx past o with Some y => x <=? y | None => false end) needed
                        (* ... and no later than the end of the SOA piece the answer carries *)
                        && match latest_soa_end mx past with Some y => x <=? y | None => false end
            | None => false
            end)
      && phist_spec mx (st :: past) r
  | st :: r => phist_spec mx (st :: past) r
  end.

(* ------------------------------------------------------------------ *)

Definition check_case (c : case) : bool :=
  match c with
  | CSigTTL ttl e now obs => sig_ttl ttl e now =? obs
  | CCalc cls rrs w0 w1 obs => within (calc_cache_ttl cls rrs w1) obs (calc_cache_ttl cls rrs w0)
  | CClassify rcode meta nans deleg soa sc rrs nu obs => rclass_eqb (classify rcode meta nans deleg soa sc rrs nu) obs
  | CAdmit how cls rrs scoped ecs cut w0 w1 t0 t1 obs =>
      admit_consistent how cls rrs scoped ecs cut w0 w1 t0 t1 obs
  | CRemain s t c now obs => remaining (mk_entry 0 s t c false) now =? obs
  | CBound s t c obs => oz_eqb (bound None (Some (bound_entry (mk_entry 0 s t c false)))) obs
  | CFold ppre child inh ppost op oc =>
      let c := fold_bounds None child in
      let p1 := fold_bounds None ppre in
      let p2 := if inh then bound p1 c else p1 in
      oz_eqb (fold_bounds p2 ppost) op && oz_eqb c oc
  | CHist how cls rrs scoped ecs cut w0 w1 t0 t1 obs hits bobs =>
      admit_consistent how cls rrs scoped ecs cut w0 w1 t0 t1 obs
      && match oent_entry obs with
         | None => forallb (fun h => h_ttl h <? 0) hits
         | Some e => forallb (fun h => hit_consistent e (h_t0 h) (h_t1 h) (h_ttl h)) hits
                     && forallb (fun b => oz_eqb b (Some (bound_entry e))) bobs
         end
  | CCutRec mx st sm proof cut now wall t1 w1 obs =>
      match obs with
      | Some ex => oz_eqb (cut_record mx st sm proof cut now wall) (Some ex)
      | None => oz_eqb (cut_record mx st sm proof cut t1 w1) None
      end
  | CCutRerec top mx old t0 st sm proof bobs now wall ex =>
      (* exact when the top-level request recorded it (lease = the bound observed); otherwise a
         sandwich: record with the lease at its latest (the older cut's expiry, which the rung
         folded) and at its earliest (the bound the whole tree was left with) *)
      match bobs with
      | None => false   (* the rung folds the older cut's expiry: the tree cannot be unbounded *)
      | Some b =>
          (b <=? old)
          && match (if top then cut_record mx st sm proof (Some b) now wall else None) with
             | Some e => ex =? e
             | None =>
                 (* a sub-request recorded it -- or the top-level record was refused (its lease was
                    already over) and the sub-request's cut stayed *)
                 match cut_record mx st sm proof (Some old) now wall with
                 | None => false
                 | Some hi => (ex <=? hi)
                              && match cut_record mx st sm proof (Some b) now wall with
                                 | Some lo => lo <=? ex
                                 | None => true
                                 end
                 end
             end
      end
  | CCutServe _ ex t0 t1 ttl bobs =>
      (if ttl <? 0 then negb (cut_live ex t1) || oz_eqb (cut_serve ex t1) None
       else cut_live ex t0
            && match cut_serve ex t0, cut_serve ex t1 with
               | Some hi, Some lo => within lo ttl hi
               | Some hi, None => within 0 ttl hi
               | None, _ => false
               end
            && oz_eqb bobs (Some ex))
  | CProofExp mx cut recs now obs => oz_eqb (proof_expiry mx cut recs now now) obs
  | CProofServe se pcs now ttl eo =>
      match proof_serve se pcs now with
      | Some (t, e) => (t =? ttl) && oz_eqb eo (Some e)
      | None => (ttl <? 0) && oz_eqb eo None
      end
  | CProofHist mx steps => phist_check mx (mk_pindex None []) steps
  | CDns64 hs neg mn addrs via t0 t1 bobs obs cobs =>
      let n := if hs then Some (neg, mn) else None in
      let consulted := neg :: via ++ addrs in
      let ttl := dns64_ttl n addrs consulted t1 in
      negb (match obs with [] => true | _ => false end)
      && forallb (fun x => x =? ttl) obs
      (* the alias chain is copied with its own TTLs lowered to the synthesised one *)
      && list_z_eqb cobs (map (fun v => let t := piece_ttl v t1 in if ttl <? t then ttl else t) via)
      && match bobs with Some b => oz_eqb b (dns64_bound None consulted) | None => true end
  | CDns64Relay mode gate recs consulted t0 t1 bobs obs =>
      if (mode =? 1)%N then true
      else list_z_eqb obs (if (mode =? 2)%N then dns64_ptr_reply recs t1 else dns64_basis_reply recs consulted t1)
           && match bobs with Some b => oz_eqb b (dns64_bound None consulted) | None => true end
  | CProofTree d dspec lease ahit t0 t1 ttls bobs adm =>
      match ahit with
      | Some e =>
          (* a hit on the cached alias entry: every record at its shown TTL, the tree bound to its end *)
          forallb (fun x => x =? shown_ttl e t1) ttls
          && match bobs with Some b => oz_eqb b (Some (bound_entry e)) | None => true end
          && match adm with [] => true | _ => false end
      | None =>
          (* the rung answers like a cut: (d - now)/1 s on every record, folds d; an alias
             fetched in the same tree folds its lease; what is admitted carries the fold *)
          let b := denial_rung_bound None d lease in
          match cut_serve d t1 with
          | Some t => forallb (fun x => x =? t) ttls
          | None => false
          end
          && match bobs with Some o => oz_eqb o b | None => true end
          && forallb (fun a => oz_eqb (snd a) b) adm
      end
  | CCas ops => cas_replay [] 1%N ops
  | CPrefetch claimed current cls rrs cut w0 w1 t0 t1 replaced after_id after =>
      let ok := (negb (current =? 0)%N) && (current =? claimed)%N && admitted_class cls in
      Bool.eqb replaced ok
      && (if ok then
            negb (after_id =? claimed)%N
            && admit_consistent 4 cls rrs false 0 cut w0 w1 t0 t1 after
          else (after_id =? current)%N)
  | CTree route pres pcuts sc q t0 t1 wit reply mo adm missed =>
      let '(st, next) := pres_store pres in
      let w := mk_world st (map (fun c => (nc_name c, mk_ccut (nc_expires c) (nc_ns c))) pcuts) next wit [] [] in
      let '(w', m', r', _) := serve_dns (scripts_of sc) t1 14%nat w None 0 q in
      all_within t0 t1 wit
      && msg_eqb r' reply && ((route =? 4)%N || oz_eqb m' mo) && adm_list_eqb adm (w_adm w')
  end.

Definition spec_case (c : case) : bool :=
  match c with
  | CSigTTL ttl e now obs =>
      (* never above the record TTL; never above the time to expiry unless that is below the floor *)
      (obs <=? Z.max spec_floor (ttl * second))
      && (obs <=? Z.max spec_floor (e * second - now))
  | CCalc cls rrs w0 w1 obs =>
      (match cls with
       | RSuccess | RNXDomain | RNoRecords =>
           (spec_floor <=? obs) && (obs <=? spec_ceiling)
           && (obs <=? Z.max spec_floor (list_min (spec_terms cls rrs w0) spec_ceiling))
       | RServFail => true
       | _ => obs =? spec_floor
       end)
  | CClassify _ _ _ _ _ _ _ _ _ => true
  | CAdmit how cls rrs scoped ecs cut w0 w1 t0 t1 obs =>
      match obs with
      | NoEnt => true
      | Ent s t c sc =>
          (* nothing outside the four cacheable classes is admitted; the ttl
             obeys floor, ceiling, every term and the ECS cap; the lease is kept *)
          admitted_class cls
          && (t <=? spec_ttl cls rrs sc ecs w0)
          && oz_eqb c cut
      end
  | CRemain s t c now obs => obs =? spec_end s t c - now
  | CBound s t c obs => oz_eqb obs (Some (spec_end s t c))
  | CFold ppre child inh ppost op oc =>
      (* the parent ends up with the minimum of everything folded into it *)
      let all := ppre ++ (if inh then child else []) ++ ppost in
      let vals := flat_map (fun o => match o with Some x => [x] | None => [] end) all in
      match vals with
      | [] => oz_eqb op None
      | x :: r => oz_eqb op (Some (list_min r x))
      end
  | CHist how cls rrs scoped ecs cut w0 w1 t0 t1 obs hits bobs =>
      match obs with
      | NoEnt => forallb (fun h => h_ttl h <? 0) hits
      | Ent s t c sc =>
          let e_end := spec_end t1 (spec_ttl cls rrs sc ecs w0) cut in
          forallb (spec_hit e_end) hits && spec_antitone None hits
          && forallb (fun b => match b with Some x => x <=? e_end | None => false end) bobs
      end
  | CCutRec mx st sm proof cut now wall t1 w1 obs =>
      match obs with
      | None => true
      | Some ex =>
          let cands := [st * second; sm * second] ++ flat_map (prr_cands wall) proof
                       ++ match cut with Some c => [c - now] | None => [] end in
          (now <? ex) && (ex - now <=? spec_plain cands mx)
      end
  | CCutRerec top mx old t0 st sm proof bobs now wall ex =>
      (* what is re-cached from a synthesised denial ends with the cut it was synthesised from;
         no floor: inside every term of the records it was re-recorded with *)
      (t0 <? old) && (ex <=? old) && (now <? ex)
      && (ex - now <=? spec_plain ([st * second; sm * second] ++ flat_map (prr_cands wall) proof) mx)
  | CCutServe _ ex t0 t1 ttl bobs =>
      if ttl <? 0 then true else (t0 <? ex) && (ttl * second <=? ex - t0)
  | CProofExp mx cut recs now obs =>
      match obs with
      | None => true
      | Some ex =>
          let cands := flat_map (prr_cands now) recs ++ match cut with Some c => [c - now] | None => [] end in
          (now <? ex) && (ex - now <=? spec_plain cands spec_proof_cap)
          && ((mx <=? 0) || (ex - now <=? mx))
      end
  | CProofServe se pcs now ttl eo =>
      if ttl <? 0 then true
      else forallb (fun x => (now <? x) && (ttl * second <=? x - now)) (se :: pcs)
           && match eo with Some e => forallb (fun x => e <=? x) (se :: pcs) | None => false end
  | CProofHist mx steps => phist_spec mx [] steps
  | CDns64 hs neg mn addrs via t0 t1 bobs obs cobs =>
      (* the synthesised records are inside the lifetime of EVERY piece the reply was composed
         from: the AAAA answer, the address answer and every alias piece the A chase went
         through (a cached piece: its end; a fresh one: the lease it was learned under);
         and never above the RFC 6147 terms (negative TTL, every A record) *)
      forallb (fun x =>
                 forallb (fun p => match p with
                                   | PHit e => (t0 <? entry_end e) && (x * second <=? entry_end e - t0)
                                   | PFresh t _ => x <=? t
                                   end) (neg :: addrs)
                 && forallb (fun p => match p with
                                      | PHit e => (t0 <? entry_end e) && (x * second <=? entry_end e - t0)
                                      | PFresh _ (Some l) => x * second <=? Z.max 0 (l - t0)
                                      | PFresh _ None => true
                                      end) (neg :: via ++ addrs)
                 && (0 <=? x)
                 && (if hs then x <=? mn else x <=? 600)) obs
      (* an alias record never outlives the alias piece it was copied from *)
      && forallb (fun x => forallb (fun p => match p with
                                             | PHit e => (t0 <? entry_end e) && (x * second <=? entry_end e - t0)
                                             | PFresh t None => x <=? t
                                             | PFresh t (Some l) => (x <=? t) && (x * second <=? Z.max 0 (l - t0))
                                             end) via) cobs
      (* the request tree is left bound by every piece (where the route lets the driver read it) *)
      && match bobs with
         | Some b =>
             forallb (fun p => match p with
                               | PHit e => match b with Some b' => b' <=? entry_end e | None => false end
                               | PFresh _ (Some l) => match b with Some b' => b' <=? l | None => false end
                               | PFresh _ None => true
                               end) (neg :: via ++ addrs)
         | None => true
         end
  | CDns64Relay mode gate recs consulted t0 t1 bobs obs =>
      if (mode =? 1)%N then
        (* the reply is inside the lifetime of the cached AAAA answer that gated it *)
        match gate with
        | Some (PHit e) => forallb (fun x => (t0 <? entry_end e) && (x * second <=? entry_end e - t0)) obs
        | _ => true
        end
      else
        (* every relayed record is inside the lifetime of the cached answer it was copied from and
           no TTL is invented for it; the request tree is left bound by every consulted answer *)
        let relayed := if (mode =? 2)%N then tl obs else obs in
        (length relayed =? length recs)%nat
        && forallb (fun xp => let '(x, p) := xp in
                      (0 <=? x)
                      && match p with
                         | PHit e => (t0 <? entry_end e) && (x * second <=? entry_end e - t0)
                         | PFresh t _ => x <=? t
                         end) (combine relayed recs)
        (* an A-basis reply is composed from the AAAA answer that gated it and the answers of the
           A chase: no relayed record outlives ANY of them (cached: its end; fresh: the lease it
           was learned under) -- since 1a0e74f; the PTR translation relays one answer only *)
        && ((mode =? 2)%N
            || forallb (fun x => forallb (fun p => match p with
                                                   | PHit e => (t0 <? entry_end e) && (x * second <=? entry_end e - t0)
                                                   | PFresh _ (Some l) => x * second <=? Z.max 0 (l - t0)
                                                   | PFresh _ None => true
                                                   end) consulted) obs)
        && match bobs with
           | Some b =>
               forallb (fun p => match p with
                                 | PHit e => match b with Some b' => b' <=? entry_end e | None => false end
                                 | PFresh _ (Some l) => match b with Some b' => b' <=? l | None => false end
                                 | PFresh _ None => true
                                 end) consulted
           | None => true
           end
  | CProofTree d dspec lease ahit t0 t1 ttls bobs adm =>
      (* nothing that came out of the cache outlives the denial it was composed from;
         the tree is bound by it; what is re-cached ends with it *)
      forallb (fun x => (0 <=? x) && (t0 <? dspec) && (x * second <=? dspec - t0)) ttls
      && match bobs with
         | Some (Some b) => b <=? dspec
         | Some None => match ttls with [] => true | _ => false end
         | None => true
         end
      && forallb (fun a => let '(s, t, c) := a in spec_end s t c <=? d) adm
  | CCas ops => cas_spec [] ops
  | CPrefetch claimed current cls rrs cut w0 w1 t0 t1 replaced after_id after =>
      (* a refresh that lost the race leaves the newer entry in place; one that
         won stores an entry bounded by the refresh's own terms and lease *)
      if (current =? claimed)%N && negb (current =? 0)%N then
        (if replaced then
           match after with
           | NoEnt => false
           | Ent s t c _ =>
               (t <=? spec_ttl cls rrs false 0 w0)
               && match cut with Some lease => match c with Some c' => c' <=? lease | None => false end | None => true end
           end
         else true)
      else negb replaced && (after_id =? current)%N
  | CTree route pres pcuts sc q t0 t1 wit reply mo adm missed => tree_spec route pres pcuts sc t0 reply mo adm missed
  end.
