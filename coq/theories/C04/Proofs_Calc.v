(* C04 — proofs, part 7 (session 5): the admission-TTL model IS dnsutil.CalculateCacheTTL.
   The function, its callees hasRecords / getTTL / getRRSIGTTL and the three section loops
   are translated from the Go AST by srcgen (dns.RR as the sum type I_RR with the asserted
   types SOA and RRSIG, every other dynamic type as [I_RR_other] with its header; the
   single time.Now() reading as the parameter [now]; `join_nested_ifs`).  A Go message is
   read into the model's flat record list by [rrs_of_msg]; on that view the hand-written
   [calc_cache_ttl] of Model.v and the translated function agree for EVERY message,
   response type and clock reading. *)
From Sdns Require Import Common.Base Common.GoList Gen.C04 C04.Model C04.Run C04.Proofs.
Open Scope Z_scope.

(* ---------------- the view of a Go message ---------------- *)

Definition kind_of_irr (x : I_RR) : rkind :=
  match x with
  | I_RR_of_SOA v => KSoa (Z.of_N (T_SOA_Minttl v))
  | I_RR_of_RRSIG v => KSig (Z.of_N (T_RRSIG_Expiration v))
  | _ => KPlain
  end.
(* the additional-section loop skips by the HEADER's type (`rr.Header().Rrtype == dns.TypeOPT`),
   whatever the dynamic type is *)
Definition rr_of_irr (sec : N) (x : I_RR) : rr :=
  let h := I_RR_Header x in
  mk_rr sec (Z.of_N (T_RR_Header_Ttl h))
        (if (sec =? 2)%N && (T_RR_Header_Rrtype h =? 41)%N then KOpt else kind_of_irr x).
Definition rrs_of_msg (m : T_Msg) : list rr :=
  map (rr_of_irr 0) (T_Msg_Answer m) ++ map (rr_of_irr 1) (T_Msg_Ns m) ++ map (rr_of_irr 2) (T_Msg_Extra m).

(* ResponseType as the translated function reads it, and the model's classes as the Go constants *)
Definition cls_of_code (c : Z) : rclass :=
  if c =? resp_type_success then RSuccess
  else if c =? resp_type_nxdomain then RNXDomain
  else if c =? resp_type_norecords then RNoRecords
  else if c =? resp_type_servfail then RServFail
  else ROther.
Definition code_of_cls (c : rclass) : Z :=
  match c with
  | RSuccess => resp_type_success
  | RReferral => resp_type_referral
  | RNXDomain => resp_type_nxdomain
  | RNoRecords => resp_type_norecords
  | RServFail => resp_type_servfail
  | RExpiredSig => resp_type_expiredsig
  | RNotCacheable => resp_type_notcacheable
  | ROther => resp_type_metaquery
  end.

(* ---------------- list plumbing ---------------- *)

Lemma idx_mid {A} (d : A) p x s : go_idx d (p ++ x :: s) (go_len p) = x.
Proof.
  unfold go_idx, go_len. destruct (Z.ltb_spec (Z.of_nat (length p)) 0); [lia|].
  rewrite Nat2Z.id. rewrite app_nth2 by lia. rewrite Nat.sub_diag. reflexivity.
Qed.
Lemma len_snoc {A} (p : list A) x : go_len (p ++ [x]) = go_len p + 1.
Proof. unfold go_len. rewrite app_length. cbn. lia. Qed.
Lemma ltb_len_mid {A} (p : list A) x s : (go_len p <? go_len (p ++ x :: s)) = true.
Proof. apply Z.ltb_lt. unfold go_len. rewrite app_length. cbn. lia. Qed.
Lemma ltb_len_end {A} (p : list A) : (go_len p <? go_len (p ++ [])) = false.
Proof. rewrite app_nil_r. apply Z.ltb_irrefl. Qed.

(* ---------------- one iteration of each section loop ---------------- *)

Lemma gen_getRRSIGTTL v now :
  go_getRRSIGTTL v now = sig_ttl (Z.of_N (T_RR_Header_Ttl (T_RRSIG_Hdr v))) (Z.of_N (T_RRSIG_Expiration v)) now.
Proof.
  unfold go_getRRSIGTTL, go_RRSIG_Header, sig_ttl, second, min_cache_ttl. cbv zeta.
  rewrite Z.add_0_r. reflexivity.
Qed.

Lemma lower_if c cur : (if c <? cur then c else cur) = lower c cur.
Proof. reflexivity. Qed.

(* answer section: the record's TTL, then the signature's remaining validity *)
Definition step_answer (vnow cur : Z) (x : I_RR) : Z :=
  let cur1 := lower (go_getTTL x) cur in
  match x with
  | I_RR_of_RRSIG v => lower (go_getRRSIGTTL v vnow) cur1
  | _ => cur1
  end.
Definition step_ns (neg : bool) (vnow cur : Z) (x : I_RR) : Z :=
  let cur1 := lower (go_getTTL x) cur in
  let cur2 := if neg then match x with
                          | I_RR_of_SOA v => lower (Z.of_N (T_SOA_Minttl v) * 1000000000) cur1
                          | _ => cur1
                          end else cur1 in
  match x with
  | I_RR_of_RRSIG v => lower (go_getRRSIGTTL v vnow) cur2
  | _ => cur2
  end.
Definition step_extra (vnow cur : Z) (x : I_RR) : Z :=
  if (T_RR_Header_Rrtype (I_RR_Header x) =? 41)%N then cur else step_answer vnow cur x.

Lemma step_answer_model neg vnow cur x : step_answer vnow cur x = ttl_step neg vnow cur (rr_of_irr 0 x).
Proof.
  unfold step_answer, ttl_step, rr_of_irr, is_opt_extra, get_ttl, go_getTTL, second.
  destruct x; cbn; try reflexivity.
  - rewrite andb_false_r. reflexivity.
  - rewrite gen_getRRSIGTTL. reflexivity.
Qed.
Lemma step_ns_model neg vnow cur x : step_ns neg vnow cur x = ttl_step neg vnow cur (rr_of_irr 1 x).
Proof.
  unfold step_ns, ttl_step, rr_of_irr, is_opt_extra, get_ttl, go_getTTL, second.
  destruct x, neg; cbn; try reflexivity; rewrite gen_getRRSIGTTL; reflexivity.
Qed.
Lemma step_extra_model neg vnow cur x : step_extra vnow cur x = ttl_step neg vnow cur (rr_of_irr 2 x).
Proof.
  unfold step_extra, ttl_step, rr_of_irr, is_opt_extra. cbn [rr_kind rr_sec rr_ttl andb N.eqb].
  destruct (T_RR_Header_Rrtype (I_RR_Header x) =? 41)%N eqn:E; cbn.
  - reflexivity.
  - unfold step_answer, get_ttl, go_getTTL, second. destruct x; cbn; try reflexivity.
    + rewrite andb_false_r. reflexivity.
    + rewrite gen_getRRSIGTTL. reflexivity.
Qed.

(* ---------------- the section loops ---------------- *)

(* each generated loop, started at index |pre| of pre ++ suf with a budget above |suf|,
   runs to the end (no return, no budget exhaustion) and leaves the fold of its step *)
Ltac loop_tac IH x :=
  intros pre lf cur Hlf; destruct lf as [|lf]; [cbn in Hlf; lia|].

Lemma loop1_run now msg rt b vnow : forall suf pre lf cur,
  (length suf < lf)%nat ->
  go_CalculateCacheTTL_loop1 now (pre ++ suf) lf (go_len pre) msg rt b cur vnow
  = (GoNext, (msg, rt, b, fold_left (step_answer vnow) suf cur, vnow)).
Proof.
  induction suf as [|x suf IH]; intros pre lf cur Hlf; (destruct lf as [|lf]; [cbn in Hlf; lia|]).
  - cbn [go_CalculateCacheTTL_loop1]. rewrite ltb_len_end. reflexivity.
  - cbn [go_CalculateCacheTTL_loop1]. rewrite ltb_len_mid, idx_mid.
    replace (pre ++ x :: suf) with ((pre ++ [x]) ++ suf) by (rewrite <- app_assoc; reflexivity).
    rewrite <- (len_snoc pre x). cbn [fold_left].
    assert (Hl : (length suf < lf)%nat) by (cbn in Hlf; lia).
    destruct x; cbn [step_answer]; rewrite ?lower_if; apply IH; exact Hl.
Qed.
Lemma loop4_run now msg rt b vnow : forall suf pre lf cur,
  (length suf < lf)%nat ->
  go_CalculateCacheTTL_loop4 now (pre ++ suf) lf (go_len pre) msg rt b cur vnow
  = (GoNext, (msg, rt, b, fold_left (step_answer vnow) suf cur, vnow)).
Proof.
  induction suf as [|x suf IH]; intros pre lf cur Hlf; (destruct lf as [|lf]; [cbn in Hlf; lia|]).
  - cbn [go_CalculateCacheTTL_loop4]. rewrite ltb_len_end. reflexivity.
  - cbn [go_CalculateCacheTTL_loop4]. rewrite ltb_len_mid, idx_mid.
    replace (pre ++ x :: suf) with ((pre ++ [x]) ++ suf) by (rewrite <- app_assoc; reflexivity).
    rewrite <- (len_snoc pre x). cbn [fold_left].
    assert (Hl : (length suf < lf)%nat) by (cbn in Hlf; lia).
    destruct x; cbn [step_answer]; rewrite ?lower_if; apply IH; exact Hl.
Qed.
Lemma loop2_run now msg rt b vnow : forall suf pre lf cur,
  (length suf < lf)%nat ->
  go_CalculateCacheTTL_loop2 now (pre ++ suf) lf (go_len pre) msg rt b cur vnow
  = (GoNext, (msg, rt, b, fold_left (step_ns b vnow) suf cur, vnow)).
Proof.
  induction suf as [|x suf IH]; intros pre lf cur Hlf; (destruct lf as [|lf]; [cbn in Hlf; lia|]).
  - cbn [go_CalculateCacheTTL_loop2]. rewrite ltb_len_end. reflexivity.
  - cbn [go_CalculateCacheTTL_loop2]. rewrite ltb_len_mid, idx_mid.
    replace (pre ++ x :: suf) with ((pre ++ [x]) ++ suf) by (rewrite <- app_assoc; reflexivity).
    rewrite <- (len_snoc pre x). cbn [fold_left].
    assert (Hl : (length suf < lf)%nat) by (cbn in Hlf; lia).
    destruct x, b; cbn [step_ns]; rewrite ?lower_if; apply IH; exact Hl.
Qed.
Lemma loop5_run now msg rt b vnow : forall suf pre lf cur,
  (length suf < lf)%nat ->
  go_CalculateCacheTTL_loop5 now (pre ++ suf) lf (go_len pre) msg rt b cur vnow
  = (GoNext, (msg, rt, b, fold_left (step_ns b vnow) suf cur, vnow)).
Proof.
  induction suf as [|x suf IH]; intros pre lf cur Hlf; (destruct lf as [|lf]; [cbn in Hlf; lia|]).
  - cbn [go_CalculateCacheTTL_loop5]. rewrite ltb_len_end. reflexivity.
  - cbn [go_CalculateCacheTTL_loop5]. rewrite ltb_len_mid, idx_mid.
    replace (pre ++ x :: suf) with ((pre ++ [x]) ++ suf) by (rewrite <- app_assoc; reflexivity).
    rewrite <- (len_snoc pre x). cbn [fold_left].
    assert (Hl : (length suf < lf)%nat) by (cbn in Hlf; lia).
    destruct x, b; cbn [step_ns]; rewrite ?lower_if; apply IH; exact Hl.
Qed.
Lemma loop3_run now msg rt b vnow : forall suf pre lf cur,
  (length suf < lf)%nat ->
  go_CalculateCacheTTL_loop3 now (pre ++ suf) lf (go_len pre) msg rt b cur vnow
  = (GoNext, (msg, rt, b, fold_left (step_extra vnow) suf cur, vnow)).
Proof.
  induction suf as [|x suf IH]; intros pre lf cur Hlf; (destruct lf as [|lf]; [cbn in Hlf; lia|]).
  - cbn [go_CalculateCacheTTL_loop3]. rewrite ltb_len_end. reflexivity.
  - cbn [go_CalculateCacheTTL_loop3]. rewrite ltb_len_mid, idx_mid.
    replace (pre ++ x :: suf) with ((pre ++ [x]) ++ suf) by (rewrite <- app_assoc; reflexivity).
    rewrite <- (len_snoc pre x). cbn [fold_left].
    assert (Hl : (length suf < lf)%nat) by (cbn in Hlf; lia).
    unfold step_extra at 2.
    destruct (T_RR_Header_Rrtype (I_RR_Header x) =? 41)%N; [apply IH; exact Hl|].
    destruct x; cbn [step_answer]; rewrite ?lower_if; apply IH; exact Hl.
Qed.
Lemma loop6_run now msg rt b vnow : forall suf pre lf cur,
  (length suf < lf)%nat ->
  go_CalculateCacheTTL_loop6 now (pre ++ suf) lf (go_len pre) msg rt b cur vnow
  = (GoNext, (msg, rt, b, fold_left (step_extra vnow) suf cur, vnow)).
Proof.
  induction suf as [|x suf IH]; intros pre lf cur Hlf; (destruct lf as [|lf]; [cbn in Hlf; lia|]).
  - cbn [go_CalculateCacheTTL_loop6]. rewrite ltb_len_end. reflexivity.
  - cbn [go_CalculateCacheTTL_loop6]. rewrite ltb_len_mid, idx_mid.
    replace (pre ++ x :: suf) with ((pre ++ [x]) ++ suf) by (rewrite <- app_assoc; reflexivity).
    rewrite <- (len_snoc pre x). cbn [fold_left].
    assert (Hl : (length suf < lf)%nat) by (cbn in Hlf; lia).
    unfold step_extra at 2.
    destruct (T_RR_Header_Rrtype (I_RR_Header x) =? 41)%N; [apply IH; exact Hl|].
    destruct x; cbn [step_answer]; rewrite ?lower_if; apply IH; exact Hl.
Qed.

(* ---------------- hasRecords ---------------- *)

Definition count_non_opt (l : list I_RR) : Z :=
  fold_left (fun c x => if negb (T_RR_Header_Rrtype (I_RR_Header x) =? 41)%N then c + 1 else c) l 0.
Lemma has_loop_run msg tot : forall suf pre lf c,
  (length suf < lf)%nat ->
  go_hasRecords_loop1 (pre ++ suf) lf (go_len pre) msg tot c
  = (GoNext, (msg, tot,
       fold_left (fun c x => if negb (T_RR_Header_Rrtype (I_RR_Header x) =? 41)%N then c + 1 else c) suf c)).
Proof.
  induction suf as [|x suf IH]; intros pre lf c Hlf; (destruct lf as [|lf]; [cbn in Hlf; lia|]).
  - cbn [go_hasRecords_loop1]. rewrite ltb_len_end. reflexivity.
  - cbn [go_hasRecords_loop1]. rewrite ltb_len_mid, idx_mid.
    replace (pre ++ x :: suf) with ((pre ++ [x]) ++ suf) by (rewrite <- app_assoc; reflexivity).
    rewrite <- (len_snoc pre x). cbn [fold_left].
    apply IH. cbn in Hlf. lia.
Qed.
Lemma count_fold_ge l : forall c, c <= fold_left (fun c x => if negb (T_RR_Header_Rrtype (I_RR_Header x) =? 41)%N then c + 1 else c) l c.
Proof.
  induction l as [|x l IH]; intros c; cbn [fold_left]; [lia|].
  destruct (negb _); [specialize (IH (c + 1)); lia|apply IH].
Qed.
Lemma is_opt_extra_2 x : is_opt_extra (rr_of_irr 2 x) = (T_RR_Header_Rrtype (I_RR_Header x) =? 41)%N.
Proof.
  unfold is_opt_extra, rr_of_irr. cbn [rr_kind rr_sec]. change (2 =? 2)%N with true. cbn [andb].
  destruct (T_RR_Header_Rrtype (I_RR_Header x) =? 41)%N; [reflexivity|destruct x; reflexivity].
Qed.
Lemma count_fold_pos l : forall c,
  (c <? fold_left (fun c x => if negb (T_RR_Header_Rrtype (I_RR_Header x) =? 41)%N then c + 1 else c) l c)
  = existsb (fun r => negb (is_opt_extra r)) (map (rr_of_irr 2) l).
Proof.
  induction l as [|x l IH]; intros c; cbn [fold_left map existsb]; [apply Z.ltb_irrefl|].
  rewrite is_opt_extra_2.
  destruct (T_RR_Header_Rrtype (I_RR_Header x) =? 41)%N eqn:E; cbn [negb orb].
  - apply IH.
  - apply Z.ltb_lt. pose proof (count_fold_ge l (c + 1)). lia.
Qed.
Lemma is_opt_extra_01 sec x : (sec =? 2)%N = false -> is_opt_extra (rr_of_irr sec x) = false.
Proof.
  intros Hs. unfold is_opt_extra, rr_of_irr. cbn [rr_kind rr_sec]. rewrite Hs. cbn [andb].
  destruct (kind_of_irr x); reflexivity.
Qed.
Lemma existsb_sec01 sec l : (sec =? 2)%N = false ->
  existsb (fun r => negb (is_opt_extra r)) (map (rr_of_irr sec) l) = negb (match l with [] => true | _ => false end).
Proof.
  intros Hs. destruct l as [|x l]; [reflexivity|]. cbn [map existsb].
  rewrite (is_opt_extra_01 sec x Hs). reflexivity.
Qed.
Lemma gen_hasRecords msg : go_hasRecords msg = has_records (rrs_of_msg msg).
Proof.
  unfold go_hasRecords. cbv zeta.
  pose proof (has_loop_run msg (go_len (T_Msg_Answer msg) + go_len (T_Msg_Ns msg)) (T_Msg_Extra msg) [] (S (length (T_Msg_Extra msg))) 0 ltac:(lia)) as H.
  cbn [app] in H. change (go_len (@nil I_RR)) with 0 in H. rewrite H.
  unfold has_records, rrs_of_msg. rewrite !existsb_app.
  rewrite (existsb_sec01 0) by reflexivity. rewrite (existsb_sec01 1) by reflexivity.
  rewrite <- (count_fold_pos (T_Msg_Extra msg) 0).
  set (k := fold_left _ (T_Msg_Extra msg) 0).
  pose proof (count_fold_ge (T_Msg_Extra msg) 0) as Hk. fold k in Hk.
  unfold go_len.
  destruct (T_Msg_Answer msg) as [|a la], (T_Msg_Ns msg) as [|n ln]; cbn [length negb orb];
    try (apply Z.ltb_lt; lia).
  destruct (Z.ltb_spec 0 k); [apply Z.ltb_lt; lia|apply Z.ltb_ge; lia].
Qed.

(* ---------------- the function ---------------- *)

Lemma fold_step_answer neg vnow l cur :
  fold_left (step_answer vnow) l cur = fold_left (ttl_step neg vnow) (map (rr_of_irr 0) l) cur.
Proof. revert cur. induction l as [|x l IH]; intros cur; [reflexivity|]. cbn [map fold_left]. rewrite <- step_answer_model. apply IH. Qed.
Lemma fold_step_ns neg vnow l cur :
  fold_left (step_ns neg vnow) l cur = fold_left (ttl_step neg vnow) (map (rr_of_irr 1) l) cur.
Proof. revert cur. induction l as [|x l IH]; intros cur; [reflexivity|]. cbn [map fold_left]. rewrite <- step_ns_model. apply IH. Qed.
Lemma fold_step_extra neg vnow l cur :
  fold_left (step_extra vnow) l cur = fold_left (ttl_step neg vnow) (map (rr_of_irr 2) l) cur.
Proof. revert cur. induction l as [|x l IH]; intros cur; [reflexivity|]. cbn [map fold_left]. rewrite <- step_extra_model. apply IH. Qed.

Lemma clamp_if t :
  (if t <? 5000000000 then 5000000000 else if 86400000000000 <? t then 86400000000000 else t) = clamp_cache t.
Proof. unfold clamp_cache, min_cache_ttl, max_cache_ttl. reflexivity. Qed.

(* dnsutil.CalculateCacheTTL as translated from the source = the model's calc_cache_ttl on the
   view of the message: for every message (any records of any dynamic type in any section),
   every ResponseType value and every clock reading *)
Lemma gen_CalculateCacheTTL_code : forall now msg code,
  go_CalculateCacheTTL now msg code = calc_cache_ttl (cls_of_code code) (rrs_of_msg msg) now.
Proof.
  intros now msg code. unfold go_CalculateCacheTTL, cls_of_code, resp_type_success, resp_type_nxdomain,
    resp_type_norecords, resp_type_servfail. cbv zeta.
  destruct (Z.eqb_spec code 0) as [E0|E0].
  - (* TypeSuccess *)
    unfold calc_cache_ttl. rewrite gen_hasRecords.
    destruct (has_records (rrs_of_msg msg)); cbn [negb]; [|reflexivity].
    pose proof (loop1_run now msg code false now (T_Msg_Answer msg) [] (S (length (T_Msg_Answer msg))) 86400000000000 ltac:(lia)) as H1.
    cbn [app] in H1. change (go_len (@nil I_RR)) with 0 in H1. rewrite H1.
    pose proof (loop2_run now msg code false now (T_Msg_Ns msg) [] (S (length (T_Msg_Ns msg)))
                  (fold_left (step_answer now) (T_Msg_Answer msg) 86400000000000) ltac:(lia)) as H2.
    cbn [app] in H2. change (go_len (@nil I_RR)) with 0 in H2. rewrite H2.
    pose proof (loop3_run now msg code false now (T_Msg_Extra msg) [] (S (length (T_Msg_Extra msg)))
                  (fold_left (step_ns false now) (T_Msg_Ns msg) (fold_left (step_answer now) (T_Msg_Answer msg) 86400000000000)) ltac:(lia)) as H3.
    cbn [app] in H3. change (go_len (@nil I_RR)) with 0 in H3. rewrite H3.
    rewrite clamp_if. unfold rrs_of_msg. rewrite !fold_left_app.
    rewrite (fold_step_extra false now (T_Msg_Extra msg)), (fold_step_ns false now (T_Msg_Ns msg)), (fold_step_answer false now (T_Msg_Answer msg)). reflexivity.
  - destruct (Z.eqb_spec code 1) as [E1|E1]; [|destruct (Z.eqb_spec code 2) as [E2|E2]]; cbn [orb].
    1,2: unfold calc_cache_ttl; rewrite gen_hasRecords;
      (destruct (has_records (rrs_of_msg msg)); cbn [negb]; [|reflexivity]);
      pose proof (loop4_run now msg code true now (T_Msg_Answer msg) [] (S (length (T_Msg_Answer msg))) 86400000000000 ltac:(lia)) as H1;
      cbn [app] in H1; change (go_len (@nil I_RR)) with 0 in H1; rewrite H1;
      pose proof (loop5_run now msg code true now (T_Msg_Ns msg) [] (S (length (T_Msg_Ns msg)))
                    (fold_left (step_answer now) (T_Msg_Answer msg) 86400000000000) ltac:(lia)) as H2;
      cbn [app] in H2; change (go_len (@nil I_RR)) with 0 in H2; rewrite H2;
      pose proof (loop6_run now msg code true now (T_Msg_Extra msg) [] (S (length (T_Msg_Extra msg)))
                    (fold_left (step_ns true now) (T_Msg_Ns msg) (fold_left (step_answer now) (T_Msg_Answer msg) 86400000000000)) ltac:(lia)) as H3;
      cbn [app] in H3; change (go_len (@nil I_RR)) with 0 in H3; rewrite H3;
      rewrite clamp_if; unfold rrs_of_msg; rewrite !fold_left_app;
      rewrite (fold_step_extra true now (T_Msg_Extra msg)), (fold_step_ns true now (T_Msg_Ns msg)), (fold_step_answer true now (T_Msg_Answer msg)); reflexivity.
    destruct (Z.eqb_spec code 6); reflexivity.
Qed.

(* ... and read from the model's side: every class of the model is a ResponseType constant *)
Lemma gen_CalculateCacheTTL : forall now msg cls,
  go_CalculateCacheTTL now msg (code_of_cls cls) = calc_cache_ttl cls (rrs_of_msg msg) now.
Proof.
  intros now msg cls. rewrite gen_CalculateCacheTTL_code.
  destruct cls; reflexivity.
Qed.

(* non-vacuity: NODATA with an SOA (TTL 3600, MINIMUM 300) and its RRSIG (TTL 3600, expiring
   120 s after [now]) in the authority section, an A record and an OPT in the additional
   section: 120 s as a negative answer; as a positive one the SOA's MINIMUM is not read but the
   signature still is; with the signature already expired the 5 s floor *)
Example calculate_cache_ttl_example :
  let hdr t ty := mk_T_RR_Header [] ty 1%N t 0%N in
  let soa := I_RR_of_SOA (mk_T_SOA (hdr 3600 6)%N [] [] 1 7200 900 86400 300)%N in
  let sig e := I_RR_of_RRSIG (mk_T_RRSIG (hdr 3600 46)%N 6 13 2 3600 e 0 1 [] [])%N in
  let a := I_RR_other 1%N (hdr 30 1)%N in
  let opt := I_RR_other 41%N (hdr 0 41)%N in
  let hd := T_Msg_MsgHdr in
  forall h : T_MsgHdr,
  let msg e := mk_T_Msg h false [] [] [soa; sig e] [a; opt] in
  let now := 1000 * second in
  go_CalculateCacheTTL now (msg 1120%N) resp_type_norecords = 30 * second
  /\ go_CalculateCacheTTL now (mk_T_Msg h false [] [] [soa; sig 1120%N] [opt]) resp_type_norecords = 120 * second
  /\ go_CalculateCacheTTL now (mk_T_Msg h false [] [] [soa; sig 5000%N] [opt]) resp_type_norecords = 300 * second
  /\ go_CalculateCacheTTL now (mk_T_Msg h false [] [] [soa; sig 5000%N] [opt]) resp_type_success = 3600 * second
  /\ go_CalculateCacheTTL now (mk_T_Msg h false [] [] [soa; sig 999%N] [opt]) resp_type_success = 5 * second
  /\ go_CalculateCacheTTL now (mk_T_Msg h false [] [] [] [opt]) resp_type_success = 5 * second
  /\ go_CalculateCacheTTL now (msg 1120%N) resp_type_servfail = 30 * second.
Proof. intros. vm_compute. repeat split; reflexivity. Qed.

(* what the model's theorems say, said of the translated source: for every message, class and
   clock reading the admission TTL computed by the code lies inside [5 s, 24 h], and every
   term the statement names (record TTL, RRSIG remaining validity, SOA MINIMUM of a negative
   answer's authority section) bounds it except through the 5 s floor *)
Lemma gen_CalculateCacheTTL_bounds : forall now msg cls,
  let t := go_CalculateCacheTTL now msg (code_of_cls cls) in
  min_cache_ttl <= t <= max_cache_ttl.
Proof.
  intros now msg cls t. subst t. rewrite gen_CalculateCacheTTL.
  unfold calc_cache_ttl, clamp_cache, min_cache_ttl, max_cache_ttl, servfail_ttl.
  destruct cls; try lia;
    (destruct (negb (has_records (rrs_of_msg msg))); [lia|]);
    match goal with |- context [fold_left ?f ?l ?c] => set (v := fold_left f l c) end;
    destruct (Z.ltb_spec v 5000000000); try lia; destruct (Z.ltb_spec 86400000000000 v); lia.
Qed.

Lemma calculate_cache_ttl_is_source_l :
  forall now msg cls,
    go_CalculateCacheTTL now msg (code_of_cls cls) = calc_cache_ttl cls (rrs_of_msg msg) now
    /\ (forall scoped ecs,
          cap_ttl scoped ecs (go_TTLManager_Calculate ttl_manager (go_CalculateCacheTTL now msg (code_of_cls cls)))
          = admit_ttl cls (rrs_of_msg msg) now scoped ecs)
    /\ min_cache_ttl <= go_CalculateCacheTTL now msg (code_of_cls cls) <= max_cache_ttl
    /\ (forall r x, ttl_class cls = true -> In r (rrs_of_msg msg) -> In x (rr_terms (neg_class cls) now r) ->
          go_CalculateCacheTTL now msg (code_of_cls cls) <= Z.max min_cache_ttl x).
Proof.
  intros now msg cls. rewrite gen_CalculateCacheTTL.
  split; [reflexivity|]. split; [reflexivity|]. split; [apply calc_cache_ttl_bounds|].
  intros r x. apply calc_cache_ttl_terms.
Qed.

(* ------------------------------------------------------------------ *)
(** * dns64.negativeAAAATTL (middleware/dns64/dns64.go), translated: the negative TTL the
      synthesis starts from is the model's [dns64_neg] *)

Fixpoint first_soa (l : list I_RR) : option T_SOA :=
  match l with
  | [] => None
  | I_RR_of_SOA v :: _ => Some v
  | _ :: r => first_soa r
  end.
Definition soa_neg_ttl (v : T_SOA) : N :=
  if (T_SOA_Minttl v <? T_RR_Header_Ttl (T_SOA_Hdr v))%N then T_SOA_Minttl v else T_RR_Header_Ttl (T_SOA_Hdr v).

Lemma neg_loop_run m : forall suf pre lf,
  (length suf < lf)%nat ->
  go_negativeAAAATTL_loop1 (pre ++ suf) lf (go_len pre) m
  = match first_soa suf with
    | Some v => (GoRet (soa_neg_ttl v, true), m)
    | None => (GoNext, m)
    end.
Proof.
  induction suf as [|x suf IH]; intros pre lf Hlf; (destruct lf as [|lf]; [cbn in Hlf; lia|]).
  - cbn [go_negativeAAAATTL_loop1 first_soa]. rewrite ltb_len_end. reflexivity.
  - cbn [go_negativeAAAATTL_loop1]. rewrite ltb_len_mid, idx_mid.
    assert (Hl : (length suf < lf)%nat) by (cbn in Hlf; lia).
    replace (pre ++ x :: suf) with ((pre ++ [x]) ++ suf) by (rewrite <- app_assoc; reflexivity).
    rewrite <- (len_snoc pre x).
    destruct x; cbn [first_soa]; try (apply IH; exact Hl).
    unfold soa_neg_ttl. destruct (T_SOA_Minttl v <? T_RR_Header_Ttl (T_SOA_Hdr v))%N; reflexivity.
Qed.

(* the first SOA of the authority section decides: min(its TTL as served, its MINIMUM field),
   a zero being a real value; without an SOA the caller keeps noSOATTLCeiling.  Read into the
   model: whatever piece [p] the AAAA answer is (a cache hit shows the SOA with the entry's
   shown TTL, a fresh answer with the upstream TTL), the value is [dns64_neg] of it *)
Lemma gen_negativeAAAATTL : forall m now,
  match first_soa (T_Msg_Ns m) with
  | Some v =>
      go_negativeAAAATTL m = (soa_neg_ttl v, true)
      /\ forall p, piece_ttl p now = Z.of_N (T_RR_Header_Ttl (T_SOA_Hdr v)) ->
           Z.of_N (soa_neg_ttl v) = dns64_neg (Some (p, Z.of_N (T_SOA_Minttl v))) now
  | None => go_negativeAAAATTL m = (0%N, false) /\ dns64_neg None now = dns64_no_soa_ceiling
  end.
Proof.
  intros m now. unfold go_negativeAAAATTL. cbv zeta.
  pose proof (neg_loop_run m (T_Msg_Ns m) [] (S (length (T_Msg_Ns m))) ltac:(lia)) as H.
  cbn [app] in H. change (go_len (@nil I_RR)) with 0 in H. rewrite H.
  destruct (first_soa (T_Msg_Ns m)) as [v|]; [|split; reflexivity].
  split; [reflexivity|]. intros p Hp. unfold dns64_neg, soa_neg_ttl. rewrite Hp.
  destruct (N.ltb_spec (T_SOA_Minttl v) (T_RR_Header_Ttl (T_SOA_Hdr v)));
    destruct (Z.ltb_spec (Z.of_N (T_SOA_Minttl v)) (Z.of_N (T_RR_Header_Ttl (T_SOA_Hdr v)))); try reflexivity; lia.
Qed.

Example negative_aaaa_ttl_example :
  forall h : T_MsgHdr,
  let hdr t ty := mk_T_RR_Header [] ty 1%N t 0%N in
  let soa t mn := I_RR_of_SOA (mk_T_SOA (hdr t 6%N) [] [] 1 7200 900 86400 mn)%N in
  go_negativeAAAATTL (mk_T_Msg h false [] [] [I_RR_other 2%N (hdr 9 2)%N; soa 30 300; soa 1 1]%N []) = (30%N, true)
  /\ go_negativeAAAATTL (mk_T_Msg h false [] [] [soa 3600 0]%N []) = (0%N, true)
  /\ go_negativeAAAATTL (mk_T_Msg h false [] [soa 5 5]%N [I_RR_other 2%N (hdr 9 2)%N] []) = (0%N, false).
Proof. intros. vm_compute. repeat split; reflexivity. Qed.

(* ------------------------------------------------------------------ *)
(** * cache.denialProofExpiry (middleware/cache/denial_proof_cache.go), translated (wave 9:
      the result-less local closure `bound` is inlined): the model's [proof_expiry] IS the
      code.  [now] is a parameter of the Go function; the RRSIG expirations are compared with
      the same instant (the model's [wall] = [now]). *)

Definition prr_of_irr (x : I_RR) : prr :=
  let t := Z.of_N (T_RR_Header_Ttl (I_RR_Header x)) in
  match x with
  | I_RR_of_SOA v => PSoa t (Z.of_N (T_SOA_Minttl v))
  | I_RR_of_RRSIG v => PSig t (Z.of_N (T_RRSIG_OrigTtl v)) (Z.of_N (T_RRSIG_Expiration v))
  | _ => PPlain t
  end.
Definition oz_go (z : Z) : option Z := if z =? 0 then None else Some z.   (* the zero time.Time: no lease *)
Definition is_nil_rr (x : I_RR) : bool := match x with I_RR_nil => true | _ => false end.

Definition step_proof (now cur : Z) (x : I_RR) : Z := bound_min (prr_cands now (prr_of_irr x)) cur.

Lemma bound_min_flat_map {A} (f : A -> list Z) l : forall t,
  bound_min (flat_map f l) t = fold_left (fun cur x => bound_min (f x) cur) l t.
Proof.
  induction l as [|x l IH]; intros t; [reflexivity|].
  cbn [flat_map fold_left]. unfold bound_min at 1. rewrite fold_left_app. fold (bound_min (f x) t).
  fold (bound_min (flat_map f l) (bound_min (f x) t)). apply IH.
Qed.

Lemma proof_loop2_run now mx cut recs : forall suf pre lf cur,
  (length suf < lf)%nat ->
  existsb is_nil_rr suf = false ->
  go_denialProofExpiry_loop2 (pre ++ suf) lf (go_len pre) now mx cut recs cur
  = (GoNext, (now, mx, cut, recs, fold_left (step_proof now) suf cur)).
Proof.
  induction suf as [|x suf IH]; intros pre lf cur Hlf Hn; (destruct lf as [|lf]; [cbn in Hlf; lia|]).
  - cbn [go_denialProofExpiry_loop2]. rewrite ltb_len_end. reflexivity.
  - cbn [go_denialProofExpiry_loop2]. rewrite ltb_len_mid, idx_mid.
    cbn [existsb] in Hn. apply orb_false_elim in Hn. destruct Hn as [Hx Hs].
    replace (pre ++ x :: suf) with ((pre ++ [x]) ++ suf) by (rewrite <- app_assoc; reflexivity).
    rewrite <- (len_snoc pre x). cbn [fold_left].
    assert (Hl : (length suf < lf)%nat) by (cbn in Hlf; lia).
    destruct x; try discriminate Hx; cbn [orb]; unfold step_proof, prr_of_irr, prr_cands, bound_min, second;
      cbn [fold_left I_RR_Header]; rewrite ?lower_if, ?Z.add_0_r; apply IH; auto.
Qed.
Lemma proof_loop1_run now mx cut recs : forall suf pre lf cur cand,
  (length suf < lf)%nat ->
  existsb is_nil_rr suf = false ->
  exists cand', go_denialProofExpiry_loop1 (pre ++ suf) lf (go_len pre) now mx cut recs cur cand
  = (GoNext, (now, mx, cut, recs, fold_left (step_proof now) suf cur, cand')).
Proof.
  induction suf as [|x suf IH]; intros pre lf cur cand Hlf Hn; (destruct lf as [|lf]; [cbn in Hlf; lia|]).
  - cbn [go_denialProofExpiry_loop1]. rewrite ltb_len_end. eexists. reflexivity.
  - cbn [go_denialProofExpiry_loop1]. rewrite ltb_len_mid, idx_mid.
    cbn [existsb] in Hn. apply orb_false_elim in Hn. destruct Hn as [Hx Hs].
    replace (pre ++ x :: suf) with ((pre ++ [x]) ++ suf) by (rewrite <- app_assoc; reflexivity).
    rewrite <- (len_snoc pre x). cbn [fold_left].
    assert (Hl : (length suf < lf)%nat) by (cbn in Hlf; lia).
    destruct x; try discriminate Hx; cbn [orb]; unfold step_proof, prr_of_irr, prr_cands, bound_min, second;
      cbn [fold_left I_RR_Header]; rewrite ?lower_if, ?Z.add_0_r; apply IH; auto.
Qed.

(* for every clock reading, ceiling, lease and record list without a nil interface value (the
   code refuses such a list outright: second lemma): the translated function is the model *)
Lemma gen_denialProofExpiry : forall now mx cut records,
  existsb is_nil_rr records = false ->
  go_denialProofExpiry now mx cut records
  = match proof_expiry mx (oz_go cut) (map prr_of_irr records) now now with
    | Some e => (e, true)
    | None => (0, false)
    end.
Proof.
  intros now mx cut records Hn. unfold go_denialProofExpiry, proof_expiry, oz_go, max_denial_proof_ttl. cbv zeta.
  set (m := if (mx <=? 0) || (10800000000000 <? mx) then 10800000000000 else mx).
  rewrite bound_min_flat_map.
  assert (Hf : forall t, fold_left (fun cur x => bound_min (prr_cands now x) cur) (map prr_of_irr records) t
                        = fold_left (step_proof now) records t).
  { clear. induction records as [|x l IH]; intros t; [reflexivity|]. cbn [map fold_left]. apply IH. }
  rewrite Hf.
  destruct (Z.eqb_spec cut 0) as [Ec|Ec]; cbn [negb].
  - pose proof (proof_loop2_run now m cut records records [] (S (length records)) m ltac:(lia) Hn) as H.
    cbn [app] in H. change (go_len (@nil I_RR)) with 0 in H. rewrite H.
    destruct (fold_left (step_proof now) records m <=? 0); reflexivity.
  - rewrite lower_if.
    destruct (proof_loop1_run now m cut records records [] (S (length records)) (lower (cut - now) m) (cut - now) ltac:(lia) Hn) as (c' & H).
    cbn [app] in H. change (go_len (@nil I_RR)) with 0 in H. rewrite H.
    change (bound_min [cut - now] m) with (lower (cut - now) m).
    destruct (fold_left (step_proof now) records (lower (cut - now) m) <=? 0); reflexivity.
Qed.

(* `rr == nil` anywhere in the list: nothing is recorded *)
Lemma gen_denialProofExpiry_nil : forall now mx cut pre post,
  existsb is_nil_rr pre = false ->
  go_denialProofExpiry now mx cut (pre ++ I_RR_nil :: post) = (0, false).
Proof.
  intros now mx cut pre post Hn. unfold go_denialProofExpiry. cbv zeta.
  set (m := if (mx <=? 0) || (10800000000000 <? mx) then 10800000000000 else mx).
  assert (L2 : forall suf p lf cur, (length suf < lf)%nat -> existsb is_nil_rr suf = false ->
     go_denialProofExpiry_loop2 (p ++ suf ++ I_RR_nil :: post) lf (go_len p) now m cut (pre ++ I_RR_nil :: post) cur
     = (GoRet (0, false), (now, m, cut, pre ++ I_RR_nil :: post, fold_left (step_proof now) suf cur))).
  { induction suf as [|x suf IH]; intros p lf cur Hlf Hs; (destruct lf as [|lf]; [cbn in Hlf; lia|]).
    - cbn [app go_denialProofExpiry_loop2]. rewrite ltb_len_mid, idx_mid. reflexivity.
    - cbn [go_denialProofExpiry_loop2]. rewrite <- app_comm_cons. rewrite ltb_len_mid, idx_mid.
      cbn [existsb] in Hs. apply orb_false_elim in Hs. destruct Hs as [Hx Hs].
      replace (p ++ x :: suf ++ I_RR_nil :: post) with ((p ++ [x]) ++ suf ++ I_RR_nil :: post) by (rewrite <- app_assoc; reflexivity).
      rewrite <- (len_snoc p x). cbn [fold_left].
      assert (Hl : (length suf < lf)%nat) by (cbn in Hlf; lia).
      destruct x; try discriminate Hx; cbn [orb]; unfold step_proof, prr_of_irr, prr_cands, bound_min, second;
        cbn [fold_left I_RR_Header]; rewrite ?lower_if, ?Z.add_0_r; apply IH; auto. }
  assert (L1 : forall suf p lf cur cand, (length suf < lf)%nat -> existsb is_nil_rr suf = false ->
     exists st, go_denialProofExpiry_loop1 (p ++ suf ++ I_RR_nil :: post) lf (go_len p) now m cut (pre ++ I_RR_nil :: post) cur cand
     = (GoRet (0, false), st)).
  { induction suf as [|x suf IH]; intros p lf cur cand Hlf Hs; (destruct lf as [|lf]; [cbn in Hlf; lia|]).
    - cbn [app go_denialProofExpiry_loop1]. rewrite ltb_len_mid, idx_mid. eexists. reflexivity.
    - cbn [go_denialProofExpiry_loop1]. rewrite <- app_comm_cons. rewrite ltb_len_mid, idx_mid.
      cbn [existsb] in Hs. apply orb_false_elim in Hs. destruct Hs as [Hx Hs].
      replace (p ++ x :: suf ++ I_RR_nil :: post) with ((p ++ [x]) ++ suf ++ I_RR_nil :: post) by (rewrite <- app_assoc; reflexivity).
      rewrite <- (len_snoc p x).
      assert (Hl : (length suf < lf)%nat) by (cbn in Hlf; lia).
      destruct x; try discriminate Hx; cbn [orb]; apply IH; auto. }
  assert (Hlen : (length pre < S (length (pre ++ I_RR_nil :: post)))%nat) by (rewrite app_length; cbn; lia).
  destruct (Z.eqb_spec cut 0); cbn [negb].
  - pose proof (L2 pre [] _ m Hlen Hn) as H. cbn [app] in H. change (go_len (@nil I_RR)) with 0 in H. rewrite H. reflexivity.
  - destruct (L1 pre [] _ (if cut - now <? m then cut - now else m) (cut - now) Hlen Hn) as (st & H).
    cbn [app] in H. change (go_len (@nil I_RR)) with 0 in H. rewrite H. reflexivity.
Qed.

(* what the model's theorem says, said of the translated source: an expiry the code hands out
   lies strictly after the reading, within 3 h and the configured ceiling, before the lease, and
   -- no floor -- inside every TTL, SOA MINIMUM, RRSIG original TTL and RRSIG validity *)
Lemma denial_proof_expiry_is_source_l : forall now mx cut records,
  existsb is_nil_rr records = false ->
  go_denialProofExpiry now mx cut records
  = match proof_expiry mx (oz_go cut) (map prr_of_irr records) now now with
    | Some e => (e, true)
    | None => (0, false)
    end
  /\ (forall ex, go_denialProofExpiry now mx cut records = (ex, true) ->
        now < ex /\ ex - now <= max_denial_proof_ttl /\ (0 < mx -> ex - now <= mx)
        /\ (cut <> 0 -> ex <= cut)
        /\ (forall x c, In x records -> In c (prr_cands now (prr_of_irr x)) -> ex - now <= c)).
Proof.
  intros now mx cut records Hn. pose proof (gen_denialProofExpiry now mx cut records Hn) as G.
  split; [exact G|]. intros ex He. rewrite G in He.
  destruct (proof_expiry mx (oz_go cut) (map prr_of_irr records) now now) as [e|] eqn:E; [|discriminate].
  inversion He; subst e. destruct (proof_expiry_no_floor _ _ _ _ _ _ E) as (H1 & H2 & H3 & H4 & H5).
  repeat split; try assumption.
  - intros Hc. apply H5. unfold oz_go. destruct (Z.eqb_spec cut 0); [contradiction|reflexivity].
  - intros x c Hx Hcands. apply (H4 (prr_of_irr x) c); [apply in_map; exact Hx|exact Hcands].
Qed.

(* non-vacuity, computed on the translated function: SOA (TTL 3600, MINIMUM 300), its RRSIG
   (original TTL 3600, valid for another 120 s), an NSEC (TTL 7200): the signature ends first;
   a lease of 40 s ends earlier still; a lease already over refuses; a nil record refuses *)
Example denial_proof_expiry_example :
  let hdr t ty := mk_T_RR_Header [] ty 1%N t 0%N in
  let soa := I_RR_of_SOA (mk_T_SOA (hdr 3600 6)%N [] [] 1 7200 900 86400 300)%N in
  let sig e := I_RR_of_RRSIG (mk_T_RRSIG (hdr 3600 46)%N 6 13 2 3600 e 0 1 [] [])%N in
  let nsec := I_RR_other 47%N (hdr 7200 47)%N in
  let now := 1000 * second in
  go_denialProofExpiry now 0 0 [soa; sig 1120%N; nsec] = (1120 * second, true)
  /\ go_denialProofExpiry now 0 0 [soa; sig 5000%N; nsec] = (1300 * second, true)
  /\ go_denialProofExpiry now (60 * second) 0 [soa; sig 5000%N; nsec] = (1060 * second, true)
  /\ go_denialProofExpiry now 0 (1040 * second) [soa; sig 1120%N; nsec] = (1040 * second, true)
  /\ go_denialProofExpiry now 0 (999 * second) [soa; sig 1120%N; nsec] = (0, false)
  /\ go_denialProofExpiry now 0 0 [soa; sig 1000%N; nsec] = (0, false)
  /\ go_denialProofExpiry now 0 0 [soa; I_RR_nil; nsec] = (0, false).
Proof. vm_compute. repeat split; reflexivity. Qed.
