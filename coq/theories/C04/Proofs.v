(* C04 — proofs, part 1: read-time expiry, admission TTL, the request-tree
   lattice, cuts and proofs, the bracket check of Run.v. *)
From Sdns Require Import Common.Base Gen.C04 C04.Model C04.Run.
Open Scope Z_scope.

(* ------------------------------------------------------------------ *)
(** * Translator ties *)

(* TTLManager.Calculate as translated from the Go source is a clamp *)
Lemma gen_TTLManager_Calculate : forall mn mx t, mn <= mx ->
  go_TTLManager_Calculate (mk_T_TTLManager mn mx) t = Z.max mn (Z.min mx t).
Proof. intros mn mx t H. unfold go_TTLManager_Calculate. cbn. destruct (Z.ltb_spec t mn), (Z.ltb_spec mx t); lia. Qed.

(* the cache's TTL manager is built from dnsutil's constants (cache.go) *)
Lemma gen_cache_ttl_refs :
  cache_min_ttl_ref = [[77;105;110;67;97;99;104;101;84;84;76]%N] /\   (* "MinCacheTTL" *)
  cache_max_ttl_ref = [[77;97;120;67;97;99;104;101;84;84;76]%N].      (* "MaxCacheTTL" *)
Proof. split; reflexivity. Qed.

Lemma consts_ordered : 0 < min_cache_ttl /\ min_cache_ttl <= servfail_ttl /\ servfail_ttl <= max_cache_ttl
                       /\ 0 < max_denial_proof_ttl.
Proof. unfold min_cache_ttl, servfail_ttl, max_cache_ttl, max_denial_proof_ttl. lia. Qed.

(* the statement's numbers are the code's numbers *)
Lemma gen_statement_constants :
  min_cache_ttl = spec_floor /\ max_cache_ttl = spec_ceiling /\ max_denial_proof_ttl = spec_proof_cap
  /\ servfail_ttl = 30 * second /\ max_cname_chase_depth = 10 /\ max_wire_chase_hops = 10.
Proof. repeat split; reflexivity. Qed.


(* structural ties: the guards and wiring that no clock-driven test can reach
   exactly (an expiry guard is "<= 0", refusal is "<= 0", the ECS cap guard, the
   TTL manager's arguments) are re-read from the source on every run; the initial value and
   the clamp tests of CalculateCacheTTL's minimum were pins here until the function itself was
   translated (Proofs_Calc.v gen_CalculateCacheTTL) *)
Lemma gen_guards :
  positive_cache_bounds = [[109;105;110;84;84;76;44;32;109;97;120;84;84;76]%N]              (* "minTTL, maxTTL" *)
  /\ ecs_cap_guard = [[115;99;111;112;101;100;32;38;38;32;115;46;99;102;103;46;69;67;83;77;97;120;84;84;76;32;62;32;48;32;38;38;32;116;116;108;32;62;32;115;46;99;102;103;46;69;67;83;77;97;120;84;84;76]%N]
  /\ tomsg_expiry_guard = [[114;101;109;97;105;110;105;110;103;84;84;76;32;60;61;32;48]%N]             (* "remainingTTL <= 0" *)
  /\ wire_expiry_guards = [[114;101;109;97;105;110;105;110;103;32;60;61;32;48]%N; [114;101;109;97;105;110;105;110;103;32;60;61;32;48]%N]         (* "remaining <= 0", both wire builders *)
  /\ cut_refusal_guard = [[116;116;108;32;60;61;32;48]%N].             (* "ttl <= 0" *)
Proof. repeat split; reflexivity. Qed.

Lemma second_pos : 0 < second. Proof. unfold second. lia. Qed.

(* ------------------------------------------------------------------ *)
(** * Read-time expiry *)

Lemma remaining_eq e now : remaining e now = entry_end e - now.
Proof.
  unfold remaining, entry_end. destruct (e_cut e) as [c|]; [|lia].
  destruct (Z.ltb_spec (c - now) (e_ttl e - (now - e_stored e))); lia.
Qed.

Lemma bound_entry_eq e : bound_entry e = entry_end e.
Proof.
  unfold bound_entry, entry_end. destruct (e_cut e) as [c|]; [|reflexivity].
  destruct (Z.ltb_spec (e_stored e + e_ttl e) c); cbn; lia.
Qed.

Lemma serve_some e now t :
  serve e now = Some t <-> now < entry_end e /\ t = (entry_end e - now) / second.
Proof.
  unfold serve, shown_ttl. rewrite remaining_eq.
  destruct (Z.leb_spec (entry_end e - now) 0); split; intros H0.
  - discriminate.
  - lia.
  - inversion H0. split; [lia|reflexivity].
  - destruct H0 as [_ ->]. reflexivity.
Qed.

Lemma serve_none e now : serve e now = None <-> entry_end e <= now.
Proof.
  unfold serve. rewrite remaining_eq.
  destruct (Z.leb_spec (entry_end e - now) 0); split; intros; try discriminate; try reflexivity; lia.
Qed.

(* the TTL shown never exceeds the time remaining (and is its floor in seconds) *)
Lemma shown_ttl_le_remaining_l e now t :
  serve e now = Some t ->
  0 <= t /\ t * second <= remaining e now /\ remaining e now < (t + 1) * second /\ 0 < remaining e now.
Proof.
  intros H. apply serve_some in H. destruct H as [Hlt ->]. rewrite remaining_eq.
  pose proof second_pos. unfold second in *.
  pose proof (Z.div_mod (entry_end e - now) 1000000000 ltac:(lia)).
  pose proof (Z.mod_pos_bound (entry_end e - now) 1000000000 ltac:(lia)).
  assert (0 <= (entry_end e - now) / 1000000000) by (apply Z.div_pos; lia).
  lia.
Qed.

(* monotone clock => the TTL never grows between hits on one entry, and an
   expired entry stays expired *)
Lemma shown_ttl_antitone_l e n1 n2 t1 t2 :
  n1 <= n2 -> serve e n1 = Some t1 -> serve e n2 = Some t2 -> t2 <= t1.
Proof.
  intros Hn H1 H2. apply serve_some in H1. apply serve_some in H2.
  destruct H1 as [_ ->], H2 as [_ ->]. apply Z.div_le_mono; [pose proof second_pos; lia | lia].
Qed.
Lemma expired_stays_expired e n1 n2 : n1 <= n2 -> serve e n1 = None -> serve e n2 = None.
Proof. intros Hn H. apply serve_none. apply serve_none in H. lia. Qed.

(* The bracket check of Run.v is sound: when it accepts, some clock reading
   inside the bracket makes the model produce exactly the observed outcome. *)
Lemma hit_consistent_sound e t0 t1 ttl :
  t0 <= t1 -> hit_consistent e t0 t1 ttl = true ->
  exists t, t0 <= t <= t1 /\ serve e t = (if ttl <? 0 then None else Some ttl).
Proof.
  intros Hle H. unfold hit_consistent in H. destruct (Z.ltb_spec ttl 0) as [Hn|Hn].
  - exists t1. split; [lia|]. apply serve_none. rewrite remaining_eq in H. lia.
  - apply andb_prop in H. destruct H as [H H3]. apply andb_prop in H. destruct H as [H1 H2].
    unfold shown_ttl in *. rewrite !remaining_eq in *.
    pose proof second_pos as Hs. unfold second in *.
    set (r0 := entry_end e - t0) in *. set (r1 := entry_end e - t1) in *.
    assert (Hr0 : 0 < r0) by lia.
    assert (Hu : ttl <= r0 / 1000000000) by lia.
    assert (Hl : Z.max 0 (r1 / 1000000000) <= ttl) by lia.
    (* reading at which exactly (ttl+1) s - 1 ns remain, clipped to the bracket *)
    pose proof (Z.div_mod r0 1000000000 ltac:(lia)) as D0.
    pose proof (Z.mod_pos_bound r0 1000000000 ltac:(lia)) as M0.
    pose proof (Z.div_mod r1 1000000000 ltac:(lia)) as D1.
    pose proof (Z.mod_pos_bound r1 1000000000 ltac:(lia)) as M1.
    destruct (Z_lt_le_dec (r0 / 1000000000) (ttl + 1)) as [Heq|Hgt].
    + (* already shown at t0 *)
      exists t0. split; [lia|]. apply serve_some. split; [subst r0; lia|].
      unfold second. fold r0. lia.
    + (* need to wait until the remaining time drops below (ttl+1) s *)
      set (t := t0 + (r0 - ((ttl + 1) * 1000000000 - 1))).
      assert (Hrt : entry_end e - t = (ttl + 1) * 1000000000 - 1) by (subst t r0; lia).
      assert (Ht1 : t <= t1).
      { (* r1 < (ttl+1) s since r1/1e9 <= ttl *)
        assert (r1 / 1000000000 <= ttl) by lia.
        assert (r1 < (ttl + 1) * 1000000000) by lia.
        subst t r0 r1. lia. }
      exists t. split; [subst t; lia|]. apply serve_some. split; [lia|].
      unfold second. rewrite Hrt. apply Z.div_unique with (r := 999999999); lia.
Qed.

(* ------------------------------------------------------------------ *)
(** * Admission TTL *)

Lemma lower_le_l c cur : lower c cur <= cur.
Proof. unfold lower. destruct (Z.ltb_spec c cur); lia. Qed.
Lemma lower_le_r c cur : lower c cur <= c.
Proof. unfold lower. destruct (Z.ltb_spec c cur); lia. Qed.

Lemma ttl_step_le neg now cur r : ttl_step neg now cur r <= cur.
Proof.
  unfold ttl_step. destruct (is_opt_extra r); [lia|].
  pose proof (lower_le_l (get_ttl r) cur).
  destruct (rr_kind r); try lia.
  - destruct (neg && (rr_sec r =? 1)%N); [pose proof (lower_le_l (minttl * second) (lower (get_ttl r) cur))|]; lia.
  - pose proof (lower_le_l (sig_ttl (rr_ttl r) expiration now) (lower (get_ttl r) cur)). lia.
Qed.

Lemma fold_ttl_step_le neg now rrs cur : fold_left (ttl_step neg now) rrs cur <= cur.
Proof.
  revert cur. induction rrs as [|r rrs IH]; intros cur; cbn; [lia|].
  specialize (IH (ttl_step neg now cur r)). pose proof (ttl_step_le neg now cur r). lia.
Qed.

(* the terms one record contributes to the minimum *)
Definition rr_terms (neg : bool) (now : Z) (r : rr) : list Z :=
  if is_opt_extra r then [] else
  get_ttl r ::
  match rr_kind r with
  | KSoa m => if neg && (rr_sec r =? 1)%N then [m * second] else []
  | KSig e => [sig_ttl (rr_ttl r) e now]
  | _ => []
  end.

Lemma ttl_step_terms neg now cur r x : In x (rr_terms neg now r) -> ttl_step neg now cur r <= x.
Proof.
  unfold rr_terms, ttl_step. destruct (is_opt_extra r); [intros []|].
  intros [<-|Hin].
  - pose proof (lower_le_r (get_ttl r) cur).
    destruct (rr_kind r); try lia.
    + destruct (neg && (rr_sec r =? 1)%N); [pose proof (lower_le_l (minttl * second) (lower (get_ttl r) cur))|]; lia.
    + pose proof (lower_le_l (sig_ttl (rr_ttl r) expiration now) (lower (get_ttl r) cur)). lia.
  - destruct (rr_kind r); try destruct Hin.
    + destruct (neg && (rr_sec r =? 1)%N); [|destruct Hin]. destruct Hin as [<-|[]]. apply lower_le_r.
    + subst x. apply lower_le_r.
    + destruct H.
Qed.

Lemma fold_ttl_step_terms neg now rrs cur r x :
  In r rrs -> In x (rr_terms neg now r) -> fold_left (ttl_step neg now) rrs cur <= x.
Proof.
  revert cur. induction rrs as [|r0 rrs IH]; intros cur Hr Hx; [destruct Hr|].
  cbn. destruct Hr as [->|Hr].
  - pose proof (fold_ttl_step_le neg now rrs (ttl_step neg now cur r)).
    pose proof (ttl_step_terms neg now cur r x Hx). lia.
  - apply IH; assumption.
Qed.

Lemma clamp_cache_bounds t : min_cache_ttl <= clamp_cache t <= max_cache_ttl.
Proof.
  unfold clamp_cache. pose proof consts_ordered.
  destruct (Z.ltb_spec t min_cache_ttl); [lia|]. destruct (Z.ltb_spec max_cache_ttl t); lia.
Qed.
Lemma clamp_cache_le t : clamp_cache t <= Z.max min_cache_ttl t.
Proof.
  unfold clamp_cache. destruct (Z.ltb_spec t min_cache_ttl); [lia|]. destruct (Z.ltb_spec max_cache_ttl t); lia.
Qed.

Lemma calc_cache_ttl_bounds cls rrs now : min_cache_ttl <= calc_cache_ttl cls rrs now <= max_cache_ttl.
Proof.
  pose proof consts_ordered. unfold calc_cache_ttl.
  destruct cls; try lia;
    (destruct (negb (has_records rrs)); [lia | apply clamp_cache_bounds]).
Qed.

Definition neg_class (c : rclass) : bool := match c with RNXDomain | RNoRecords => true | _ => false end.
Definition ttl_class (c : rclass) : bool := match c with RSuccess | RNXDomain | RNoRecords => true | _ => false end.

(* every term bounds the result, except through the 5 s floor *)
Lemma calc_cache_ttl_terms cls rrs now r x :
  ttl_class cls = true -> In r rrs -> In x (rr_terms (neg_class cls) now r) ->
  calc_cache_ttl cls rrs now <= Z.max min_cache_ttl x.
Proof.
  intros Hc Hr Hx.
  assert (Hrec : has_records rrs = true).
  { unfold has_records. apply existsb_exists. exists r. split; [assumption|].
    unfold rr_terms in Hx. destruct (is_opt_extra r); [destruct Hx|reflexivity]. }
  unfold calc_cache_ttl.
  destruct cls; try discriminate; rewrite Hrec; cbn [negb];
    (eapply Z.le_trans; [apply clamp_cache_le|]);
    pose proof (fold_ttl_step_terms _ now rrs max_cache_ttl r x Hr Hx); cbn [neg_class] in *; lia.
Qed.

Lemma ttl_manager_clamp t : go_TTLManager_Calculate ttl_manager t = Z.max min_cache_ttl (Z.min max_cache_ttl t).
Proof. apply gen_TTLManager_Calculate. pose proof consts_ordered. lia. Qed.

Lemma replace_ttl_eq cls rrs now : replace_ttl cls rrs now = calc_cache_ttl cls rrs now.
Proof. unfold replace_ttl. rewrite ttl_manager_clamp. pose proof (calc_cache_ttl_bounds cls rrs now). lia. Qed.

Lemma cap_ttl_le scoped ecs t : cap_ttl scoped ecs t <= t.
Proof. unfold cap_ttl. destruct (scoped && (0 <? ecs) && (ecs <? t)) eqn:E; [|lia]. lia. Qed.

Lemma admit_ttl_bounds_l cls rrs now scoped ecs :
  (* floor and ceiling before the ECS cap *)
  min_cache_ttl <= replace_ttl cls rrs now <= max_cache_ttl
  (* the cap only lowers, and applies to scoped entries *)
  /\ admit_ttl cls rrs now scoped ecs <= replace_ttl cls rrs now
  /\ (scoped = true -> 0 < ecs -> admit_ttl cls rrs now scoped ecs <= ecs)
  /\ (scoped = false \/ ecs <= 0 -> admit_ttl cls rrs now scoped ecs = replace_ttl cls rrs now)
  /\ 0 < admit_ttl cls rrs now scoped ecs
  (* every record TTL / RRSIG remaining / SOA minimum bounds it, except through the floor *)
  /\ (forall r x, ttl_class cls = true -> In r rrs -> In x (rr_terms (neg_class cls) now r) ->
        admit_ttl cls rrs now scoped ecs <= Z.max min_cache_ttl x).
Proof.
  pose proof consts_ordered as HC.
  assert (Hadm : admit_ttl cls rrs now scoped ecs = cap_ttl scoped ecs (replace_ttl cls rrs now)) by reflexivity.
  pose proof (calc_cache_ttl_bounds cls rrs now) as Hb. rewrite <- replace_ttl_eq in Hb.
  repeat split; try lia.
  - rewrite Hadm. apply cap_ttl_le.
  - intros -> Hpos. rewrite Hadm. unfold cap_ttl. cbn [andb].
    destruct (Z.ltb_spec 0 ecs); [|lia]. cbn [andb]. destruct (Z.ltb_spec ecs (replace_ttl cls rrs now)); lia.
  - intros [->|Hle]; rewrite Hadm; unfold cap_ttl; [reflexivity|].
    destruct (Z.ltb_spec 0 ecs); [lia|]. rewrite andb_false_r. reflexivity.
  - rewrite Hadm. unfold cap_ttl. destruct (scoped && (0 <? ecs) && (ecs <? replace_ttl cls rrs now)) eqn:E; [|lia].
    apply andb_prop in E. destruct E as [E _]. apply andb_prop in E. destruct E as [_ E]. lia.
  - intros r x Hc Hr Hx. eapply Z.le_trans; [rewrite Hadm; apply cap_ttl_le|].
    rewrite replace_ttl_eq. eapply calc_cache_ttl_terms; eassumption.
Qed.

(* getRRSIGTTL: never above the record TTL nor the time to expiry, except through the floor *)
Lemma sig_ttl_bounds ttl e now :
  sig_ttl ttl e now <= Z.max min_cache_ttl (ttl * second) /\
  sig_ttl ttl e now <= Z.max min_cache_ttl (e * second - now).
Proof.
  unfold sig_ttl. destruct (Z.leb_spec (e * second - now) 0); [lia|].
  destruct (Z.ltb_spec (e * second - now) (ttl * second)); lia.
Qed.

(* ------------------------------------------------------------------ *)
(** * The request-tree bound: (Z u {inf}, min) *)

Definition ole (m : option Z) (x : Z) : Prop := match m with Some v => v <= x | None => False end.
Definition mle (m' m : option Z) : Prop := forall x, ole m x -> ole m' x.

Lemma ole_trans m a x : ole m a -> a <= x -> ole m x.
Proof. destruct m; cbn; [lia|tauto]. Qed.
Lemma ole_bound_l m d x : ole m x -> ole (bound m d) x.
Proof.
  destruct m as [y|]; cbn; [|tauto]. intros H. destruct d as [z|]; cbn; [|exact H].
  destruct (Z.ltb_spec z y); cbn; lia.
Qed.
Lemma ole_bound_r m d x : ole d x -> ole (bound m d) x.
Proof.
  destruct d as [z|]; cbn; [|tauto]. intros H. destruct m as [y|]; cbn; [|exact H].
  destruct (Z.ltb_spec z y); cbn; lia.
Qed.
Lemma mle_refl m : mle m m. Proof. intros x H; exact H. Qed.
Lemma mle_trans a b c : mle a b -> mle b c -> mle a c.
Proof. intros H1 H2 x H. apply H1, H2, H. Qed.
Lemma mle_bound m d : mle (bound m d) m.
Proof. intros x H. apply ole_bound_l, H. Qed.

Lemma bound_idem m d : bound (bound m d) d = bound m d.
Proof.
  destruct d as [z|]; [|reflexivity]. destruct m as [y|]; cbn.
  - destruct (Z.ltb_spec z y); cbn; [rewrite Z.ltb_irrefl; reflexivity|].
    destruct (Z.ltb_spec z y); [lia|reflexivity].
  - rewrite Z.ltb_irrefl. reflexivity.
Qed.

(* what a sequence of folds leaves: the minimum of the non-zero deadlines *)
Definition omin (a b : option Z) : option Z :=
  match a, b with
  | None, x | x, None => x
  | Some x, Some y => Some (Z.min x y)
  end.
Lemma bound_omin m d : bound m d = omin m d.
Proof.
  destruct m as [y|], d as [z|]; cbn; try reflexivity.
  destruct (Z.ltb_spec z y); f_equal; lia.
Qed.
Lemma omin_assoc a b c : omin a (omin b c) = omin (omin a b) c.
Proof. destruct a, b, c; cbn; try reflexivity. f_equal. lia. Qed.
Lemma omin_comm a b : omin a b = omin b a.
Proof. destruct a, b; cbn; try reflexivity. f_equal. lia. Qed.

Lemma fold_bounds_omin m l : fold_bounds m l = omin m (fold_right omin None l).
Proof.
  unfold fold_bounds. revert m. induction l as [|d l IH]; intros m; cbn.
  - destruct m; reflexivity.
  - rewrite IH, bound_omin, omin_assoc. reflexivity.
Qed.

(* order independence of the fold *)
Lemma fold_bounds_app m l1 l2 : fold_bounds m (l1 ++ l2) = fold_bounds (fold_bounds m l1) l2.
Proof. unfold fold_bounds. apply fold_left_app. Qed.
Lemma fold_bounds_swap m l1 l2 : fold_bounds m (l1 ++ l2) = fold_bounds m (l2 ++ l1).
Proof.
  rewrite !fold_bounds_omin. f_equal.
  induction l1 as [|a l1 IH]; cbn.
  - rewrite app_nil_r. reflexivity.
  - rewrite IH. clear IH. induction l2 as [|b l2 IH2]; cbn.
    + reflexivity.
    + rewrite <- IH2. rewrite !omin_assoc. f_equal. apply omin_comm.
Qed.
Lemma fold_bounds_le m l x : In (Some x) l -> ole (fold_bounds m l) x.
Proof.
  unfold fold_bounds. revert m. induction l as [|d l IH]; intros m Hin; [destruct Hin|].
  cbn. destruct Hin as [->|Hin].
  - assert (H : ole (bound m (Some x)) x) by (apply ole_bound_r; cbn; lia).
    revert H. generalize (bound m (Some x)). clear. induction l as [|d l IH]; intros m H; cbn; [exact H|].
    apply IH. apply ole_bound_l. exact H.
  - apply IH. exact Hin.
Qed.

Lemma request_bound_is_min_l m l1 l2 :
  fold_bounds m (l1 ++ l2) = fold_bounds m (l2 ++ l1)
  /\ fold_bounds m l1 = omin m (fold_right omin None l1)
  /\ (forall x, In (Some x) l1 -> ole (fold_bounds m l1) x).
Proof.
  split; [apply fold_bounds_swap|]. split; [apply fold_bounds_omin|]. intros x. apply fold_bounds_le.
Qed.

(* ------------------------------------------------------------------ *)
(** * Cuts and proofs: plain minimum, no floor *)

Lemma bound_min_le cands t : bound_min cands t <= t.
Proof.
  unfold bound_min. revert t. induction cands as [|c l IH]; intros t; cbn; [lia|].
  specialize (IH (lower c t)). pose proof (lower_le_l c t). lia.
Qed.
Lemma bound_min_in cands t c : In c cands -> bound_min cands t <= c.
Proof.
  unfold bound_min. revert t. induction cands as [|c0 l IH]; intros t Hin; [destruct Hin|].
  cbn. destruct Hin as [->|Hin].
  - pose proof (bound_min_le l (lower c t)). unfold bound_min in H. pose proof (lower_le_r c t). lia.
  - apply IH. exact Hin.
Qed.

Lemma cut_record_no_floor mx st sm proof cut now wall ex :
  cut_record mx st sm proof cut now wall = Some ex ->
  now < ex
  /\ ex - now <= mx /\ ex - now <= st * second /\ ex - now <= sm * second
  /\ (forall r c, In r proof -> In c (prr_cands wall r) -> ex - now <= c)
  /\ (forall c, cut = Some c -> ex <= c).
Proof.
  unfold cut_record. intros H.
  set (t0 := bound_min [st * second; sm * second] mx) in *.
  set (t1 := bound_min (flat_map (prr_cands wall) proof) t0) in *.
  set (t2 := match cut with Some c => bound_min [c - now] t1 | None => t1 end) in *.
  destruct (Z.leb_spec t2 0); [discriminate|]. inversion H; subst ex. clear H.
  assert (H10 : t1 <= t0) by apply bound_min_le.
  assert (H21 : t2 <= t1) by (subst t2; destruct cut; [apply bound_min_le|lia]).
  assert (H0m : t0 <= mx) by apply bound_min_le.
  assert (H0a : t0 <= st * second) by (apply bound_min_in; left; reflexivity).
  assert (H0b : t0 <= sm * second) by (apply bound_min_in; right; left; reflexivity).
  repeat split; try lia.
  - intros r c Hr Hc. assert (t1 <= c).
    { apply bound_min_in. apply in_flat_map. exists r. split; assumption. }
    lia.
  - intros c ->. subst t2. assert (bound_min [c - now] t1 <= c - now) by (apply bound_min_in; left; reflexivity). lia.
Qed.

Lemma proof_expiry_no_floor mx cut recs now wall ex :
  proof_expiry mx cut recs now wall = Some ex ->
  now < ex
  /\ ex - now <= max_denial_proof_ttl
  /\ (0 < mx -> ex - now <= mx)
  /\ (forall r c, In r recs -> In c (prr_cands wall r) -> ex - now <= c)
  /\ (forall c, cut = Some c -> ex <= c).
Proof.
  unfold proof_expiry. intros H.
  set (m := if (mx <=? 0) || (max_denial_proof_ttl <? mx) then max_denial_proof_ttl else mx) in *.
  set (t1 := match cut with Some c => bound_min [c - now] m | None => m end) in *.
  set (t2 := bound_min (flat_map (prr_cands wall) recs) t1) in *.
  destruct (Z.leb_spec t2 0); [discriminate|]. inversion H; subst ex. clear H.
  assert (H21 : t2 <= t1) by apply bound_min_le.
  assert (H1m : t1 <= m) by (subst t1; destruct cut; [apply bound_min_le|lia]).
  assert (Hm : m <= max_denial_proof_ttl /\ (0 < mx -> m <= mx)).
  { subst m. destruct (Z.leb_spec mx 0); cbn; [lia|]. destruct (Z.ltb_spec max_denial_proof_ttl mx); lia. }
  repeat split; try lia.
  - intros r c Hr Hc. assert (t2 <= c).
    { apply bound_min_in. apply in_flat_map. exists r. split; assumption. }
    lia.
  - intros c ->. subst t1. assert (bound_min [c - now] m <= c - now) by (apply bound_min_in; left; reflexivity). lia.
Qed.

Lemma cut_serve_spec ex now t :
  cut_serve ex now = Some t -> now < ex /\ 0 <= t /\ t * second <= ex - now.
Proof.
  unfold cut_serve. destruct (Z.leb_spec (ex - now) 0); [discriminate|]. intros H0. inversion H0; subst t.
  pose proof second_pos. unfold second in *.
  pose proof (Z.div_mod (ex - now) 1000000000 ltac:(lia)).
  pose proof (Z.mod_pos_bound (ex - now) 1000000000 ltac:(lia)).
  assert (0 <= (ex - now) / 1000000000) by (apply Z.div_pos; lia). lia.
Qed.

Lemma fold_min_le pieces init :
  let ex := fold_left (fun cur x => if x <? cur then x else cur) pieces init in
  ex <= init /\ forall p, In p pieces -> ex <= p.
Proof.
  revert init. induction pieces as [|p l IH]; intros init; cbn; [split; [lia|intros ? []]|].
  specialize (IH (if p <? init then p else init)). cbn in IH. destruct IH as [I1 I2].
  destruct (Z.ltb_spec p init); split; try lia; intros q [<-|Hq]; try lia; apply I2; assumption.
Qed.

Lemma proof_serve_spec soa pieces now t ex :
  proof_serve soa pieces now = Some (t, ex) ->
  ex <= soa /\ (forall p, In p pieces -> ex <= p) /\ now < ex /\ 0 <= t /\ t * second <= ex - now.
Proof.
  unfold proof_serve. destruct (now <? soa); cbn [negb]; [|discriminate].
  destruct (forallb (fun x => now <? x) pieces); cbn [negb]; [|discriminate].
  pose proof (fold_min_le pieces soa) as [F1 F2]. cbn in F1, F2.
  set (e := fold_left (fun cur x => if x <? cur then x else cur) pieces soa) in *.
  destruct (Z.leb_spec (e - now) 0); [discriminate|]. intros H0. inversion H0; subst t ex. clear H0.
  pose proof second_pos. unfold second in *.
  pose proof (Z.div_mod (e - now) 1000000000 ltac:(lia)).
  pose proof (Z.mod_pos_bound (e - now) 1000000000 ltac:(lia)).
  assert (0 <= (e - now) / 1000000000) by (apply Z.div_pos; lia).
  repeat split; try lia; exact F2.
Qed.
