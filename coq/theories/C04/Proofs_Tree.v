(* C04 — proofs, part 3: request trees and histories.

   Invariant [W] of a world: every stored entry ends no later than every piece
   and lease in its (transitive) lineage; every hit logged was inside the
   entry's lifetime with a TTL not above the time remaining; entry ids are
   fresh.  [W] is preserved by every request tree (any scripts, any clock
   reading, any nesting), hence by every history. *)
From Sdns Require Import Common.Base Gen.C04 C04.Model C04.Proofs.
Open Scope Z_scope.

Definition ends_le (e : entry) (lin : list Z) : Prop := Forall (fun x => entry_end e <= x) lin.
Definition lin_ok (meta : option Z) (lin : list Z) : Prop := Forall (ole meta) lin.

Definition ledger (w : world) : list entry := map (fun x => snd (fst x)) (w_adm w).

Record W (w : world) : Prop := mk_W {
  W_store : forall q ce, cs_get (w_store w) q = Some ce -> ends_le (c_entry ce) (c_lin ce);
  W_adm : forall q e lin, In (q, e, lin) (w_adm w) -> ends_le e lin;
  W_hits : forall e t n, In (e, t, n) (w_hits w) ->
             n < entry_end e /\ 0 <= t /\ t * second <= entry_end e - n /\ serve e n = Some t;
  W_store_led : forall q ce, cs_get (w_store w) q = Some ce -> In (c_entry ce) (ledger w);
  W_hits_led : forall e t n, In (e, t, n) (w_hits w) -> In e (ledger w);
  W_fresh : forall e, In e (ledger w) -> (e_id e < w_next w)%N;
  W_nodup : NoDup (map e_id (ledger w))
}.

(* ---------------- cstore lemmas ---------------- *)

Lemma cs_get_filter_other s k q :
  q <> k -> cs_get (filter (fun p => negb (fst p =? k)%N) s) q = cs_get s q.
Proof.
  intros Hne. induction s as [|[k0 e0] s IH]; cbn; [reflexivity|].
  destruct (N.eqb_spec k0 k); cbn.
  - subst k0. destruct (N.eqb_spec k q); [congruence|exact IH].
  - destruct (N.eqb_spec k0 q); [reflexivity|exact IH].
Qed.
Lemma cs_get_filter_same s k : cs_get (filter (fun p => negb (fst p =? k)%N) s) k = None.
Proof.
  induction s as [|[k0 e0] s IH]; cbn; [reflexivity|].
  destruct (N.eqb_spec k0 k); cbn; [exact IH|]. destruct (N.eqb_spec k0 k); [contradiction|exact IH].
Qed.
Lemma cs_get_set s k e q :
  cs_get (cs_set s k e) q = if (k =? q)%N then Some e else cs_get s q.
Proof.
  unfold cs_set. cbn. destruct (N.eqb_spec k q); [reflexivity|]. apply cs_get_filter_other. congruence.
Qed.
Lemma cs_get_remove s k q ce : cs_get (cs_remove s k) q = Some ce -> cs_get s q = Some ce.
Proof.
  unfold cs_remove. destruct (N.eq_dec q k) as [->|Hne].
  - rewrite cs_get_filter_same. discriminate.
  - rewrite cs_get_filter_other by exact Hne. tauto.
Qed.

Local Arguments cs_set : simpl never.
Local Arguments cs_remove : simpl never.

(* ---------------- the three world updates preserve W ---------------- *)

Lemma W_drop w q : W w -> W (w_drop w q).
Proof.
  intros [H1 H2 H3 H4 H5 H6 H7]. constructor; cbn; try assumption.
  - intros q' ce Hg. apply cs_get_remove in Hg. eapply H1; eassumption.
  - intros q' ce Hg. apply cs_get_remove in Hg. eapply H4; eassumption.
Qed.

Lemma W_log w q ce now :
  W w -> cs_get (w_store w) q = Some ce -> 0 < remaining (c_entry ce) now ->
  W (w_log w (c_entry ce) (shown_ttl (c_entry ce) now) now).
Proof.
  intros [H1 H2 H3 H4 H5 H6 H7] Hg Hrem. constructor; cbn; try assumption.
  - intros e t n Hin. apply in_app_or in Hin. destruct Hin as [Hin|[Heq|[]]]; [apply H3; exact Hin|].
    inversion Heq; subst e t n. clear Heq.
    assert (Hs : serve (c_entry ce) now = Some (shown_ttl (c_entry ce) now)).
    { unfold serve. destruct (Z.leb_spec (remaining (c_entry ce) now) 0); [lia|reflexivity]. }
    pose proof (shown_ttl_le_remaining_l _ _ _ Hs) as [A [B [C D]]]. rewrite remaining_eq in *.
    repeat split; try lia. exact Hs.
  - intros e t n Hin. apply in_app_or in Hin. destruct Hin as [Hin|[Heq|[]]]; [eapply H5; exact Hin|].
    inversion Heq; subst. eapply H4; exact Hg.
Qed.

Lemma ends_le_of_lin_ok stored ttl cut lin id scoped :
  lin_ok cut lin -> ends_le (mk_entry id stored ttl cut scoped) lin.
Proof.
  unfold lin_ok, ends_le. intros H. eapply Forall_impl; [|exact H]. intros x Hx.
  unfold entry_end. cbn. destruct cut as [c|]; cbn in Hx; [lia|contradiction].
Qed.

Lemma NoDup_app_one {A} (l : list A) (a : A) : NoDup l -> ~ In a l -> NoDup (l ++ [a]).
Proof.
  induction l as [|x l IH]; intros Hnd Hnin; cbn; [constructor; [tauto|constructor]|].
  inversion Hnd; subst. constructor.
  - intros Hin. apply in_app_or in Hin. destruct Hin as [Hin|[->|[]]]; [contradiction|]. apply Hnin. left. reflexivity.
  - apply IH; [assumption|]. intros Hin. apply Hnin. right. exact Hin.
Qed.

Lemma W_admit w q stored ttl cut m lin wit' :
  W w -> lin_ok cut lin -> W (w_admit w q stored ttl cut m lin wit').
Proof.
  intros [H1 H2 H3 H4 H5 H6 H7] Hlin.
  set (e := mk_entry (w_next w) stored ttl cut false).
  assert (Hled : ledger (w_admit w q stored ttl cut m lin wit') = ledger w ++ [e]).
  { unfold ledger, w_admit. cbn. rewrite map_app. reflexivity. }
  constructor; try rewrite Hled; cbn.
  - intros q' ce. rewrite cs_get_set. destruct (N.eqb_spec q q').
    + intros [= <-]. cbn. apply ends_le_of_lin_ok. exact Hlin.
    + apply H1.
  - intros q' e' lin' Hin. apply in_app_or in Hin. destruct Hin as [Hin|[Heq|[]]]; [eapply H2; exact Hin|].
    inversion Heq; subst. apply ends_le_of_lin_ok. exact Hlin.
  - exact H3.
  - intros q' ce. rewrite cs_get_set. destruct (N.eqb_spec q q').
    + intros [= <-]. cbn. apply in_or_app. right. left. reflexivity.
    + intros Hg. apply in_or_app. left. eapply H4; exact Hg.
  - intros e' t n Hin. apply in_or_app. left. eapply H5; exact Hin.
  - intros e' Hin. apply in_app_or in Hin. destruct Hin as [Hin|[<-|[]]].
    + apply H6 in Hin. lia.
    + cbn. lia.
  - rewrite map_app. cbn. apply NoDup_app_one; [exact H7|].
    intros Hin. apply in_map_iff in Hin. destruct Hin as [e' [Hid Hin]]. apply H6 in Hin. lia.
Qed.

(* ---------------- lineage bookkeeping ---------------- *)

Lemma lin_ok_app m l1 l2 : lin_ok m l1 -> lin_ok m l2 -> lin_ok m (l1 ++ l2).
Proof. unfold lin_ok. intros. apply Forall_app. split; assumption. Qed.
Lemma lin_ok_mle m' m l : mle m' m -> lin_ok m l -> lin_ok m' l.
Proof. unfold lin_ok. intros Hm H. eapply Forall_impl; [|exact H]. exact Hm. Qed.
Lemma lin_ok_bound_r m d l : lin_ok d l -> lin_ok (bound m d) l.
Proof. unfold lin_ok. intros H. eapply Forall_impl; [|exact H]. intros x. apply ole_bound_r. Qed.
Lemma lin_ok_nil m : lin_ok m []. Proof. constructor. Qed.

(* what a (sub-)tree must deliver *)
Definition res_ok (meta : option Z) (r : tres) : Prop :=
  let '(w', meta', _, lin') := r in W w' /\ lin_ok meta' lin' /\ mle meta' meta.
Definition rec_ok (rec : sub_t) : Prop :=
  forall w d t, W w -> let '(w', child, _, clin) := rec w d t in W w' /\ lin_ok child clin.

Section TreeProofs.
  Variable sc : scripts.
  Variable now : Z.

  Ltac leaf := unfold res_ok; refine (conj _ (conj _ _));
    first [eassumption | apply mle_refl | apply lin_ok_nil | apply mle_bound | idtac].

  Lemma chase_ok rec : rec_ok rec ->
    forall n w meta m lin depth target targets cd,
      W w -> lin_ok meta lin -> res_ok meta (chase rec n w meta m lin depth target targets cd).
  Proof.
    intros Hrec. induction n as [|n IH]; intros w meta m lin depth target targets cd HW Hlin; cbn.
    - leaf.
    - destruct (existsb (N.eqb target) targets).
      { leaf. }
      specialize (Hrec w (depth + 1) target HW).
      destruct (rec w (depth + 1) target) as [[[w1 child] resp] clin].
      destruct Hrec as [HW1 Hclin].
      set (used := negb match g_an resp, g_ns resp with [], [] => true | _, _ => false end).
      assert (Hb : lin_ok (bound meta child) (lin ++ clin)).
      { apply lin_ok_app; [eapply lin_ok_mle; [apply mle_bound|exact Hlin] | apply lin_ok_bound_r; exact Hclin]. }
      assert (Hb2 : lin_ok (bound (bound meta child) child) (lin ++ clin)).
      { eapply lin_ok_mle; [apply mle_bound|exact Hb]. }
      assert (Hm1 : mle (bound meta child) meta) by apply mle_bound.
      assert (Hm2 : mle (bound (bound meta child) child) meta).
      { eapply mle_trans; [apply mle_bound|exact Hm1]. }
      destruct (g_rcode resp =? 3)%N.
      { destruct used; leaf. }
      destruct used; cbn [andb].
      + destruct (last_cname (g_an resp)) as [t'|].
        * destruct (t' =? g_q m)%N; [leaf|].
          destruct (existsb is_cname (g_an resp) && (0 <? cd - 1) && negb (existsb is_addr (g_an resp))).
          -- specialize (IH w1 (bound meta child)
                           (mk_msg (g_q m) (g_rcode m) (g_an m ++ g_an resp) (merge_ns (g_ns m) (g_ns resp)))
                           (lin ++ clin) depth t' (targets ++ [target]) (cd - 1) HW1 Hb).
             unfold res_ok in *.
             destruct (chase rec n w1 (bound meta child) _ (lin ++ clin) depth t' (targets ++ [target]) (cd - 1))
               as [[[w2 meta2] m2] lin2].
             destruct IH as [A [B C]]. leaf. eapply mle_trans; eassumption.
          -- leaf.
        * leaf.
      + destruct (target =? g_q m)%N; leaf.
  Qed.

  Lemma additional_ok rec : rec_ok rec ->
    forall w meta m lin depth, W w -> lin_ok meta lin -> res_ok meta (additional rec w meta m lin depth).
  Proof.
    intros Hrec w meta m lin depth HW Hlin. unfold additional.
    destruct (g_rcode m =? 3)%N; [leaf|].
    destruct (scan_answers (g_q m) (g_an m) None) as [[t|]|];
      try leaf.
    apply chase_ok; assumption.
  Qed.

  Lemma miss_path_ok rec : rec_ok rec ->
    forall w meta depth q, W w -> res_ok meta (miss_path sc rec w meta depth q).
  Proof.
    intros Hrec w meta depth q HW. unfold miss_path.
    destruct (sc_get sc q) as [s|]; [|leaf].
    set (meta0 := bound meta (sc_cut s)).
    set (lin0 := match sc_cut s with Some c => [c] | None => [] end).
    assert (Hl0 : lin_ok meta0 lin0).
    { subst meta0 lin0. destruct (sc_cut s) as [c|]; [|apply lin_ok_nil].
      constructor; [apply ole_bound_r; cbn; lia|constructor]. }
    assert (Hm0 : mle meta0 meta) by apply mle_bound.
    destruct (g_rcode (sc_msg s) =? 2)%N; [leaf|].
    assert (Hadd : res_ok meta0 (if depth <? max_cname_chase_depth
                                 then additional rec w meta0 (sc_msg s) lin0 depth
                                 else (w, meta0, sc_msg s, lin0))).
    { destruct (depth <? max_cname_chase_depth); [apply additional_ok; assumption|].
      leaf. }
    destruct (if depth <? max_cname_chase_depth then additional rec w meta0 (sc_msg s) lin0 depth
              else (w, meta0, sc_msg s, lin0)) as [[[w1 meta1] res1] lin1].
    destruct Hadd as [HW1 [Hl1 Hm1]].
    assert (Hm : mle meta1 meta) by (eapply mle_trans; eassumption).
    destruct (g_rcode res1 =? 2)%N; [leaf|].
    destruct (admitted_class (msg_class res1)); [|leaf].
    destruct (w_wit w1) as [|stored wit']; [leaf|].
    leaf. apply W_admit; assumption.
  Qed.

  Lemma cut_or_miss_ok rec : rec_ok rec ->
    forall w meta depth q, W w -> res_ok meta (cut_or_miss sc now rec w meta depth q).
  Proof.
    intros Hrec w meta depth q HW. unfold cut_or_miss.
    destruct (ct_get (w_cuts w) q) as [c|]; [|apply miss_path_ok; assumption].
    destruct (cut_live (k_expires c) now); [|apply miss_path_ok; assumption].
    destruct (cut_serve (k_expires c) now); [|apply miss_path_ok; assumption].
    leaf.
    constructor; [apply ole_bound_r; cbn; lia|constructor].
  Qed.

  Lemma serve_body_ok rec : rec_ok rec ->
    forall w meta depth q, W w -> res_ok meta (serve_body sc now rec w meta depth q).
  Proof.
    intros Hrec w meta depth q HW. unfold serve_body.
    destruct (cs_get (w_store w) q) as [ce|] eqn:Hg; [|apply cut_or_miss_ok; assumption].
    destruct (Z.leb_spec (remaining (c_entry ce) now) 0) as [Hexp|Hlive].
    - apply cut_or_miss_ok; [assumption|apply W_drop; assumption].
    - set (e := c_entry ce).
      set (meta1 := bound meta (Some (bound_entry e))).
      set (lin1 := bound_entry e :: c_lin ce).
      assert (HW1 : W (w_log w e (shown_ttl e now) now)) by (eapply W_log; eassumption).
      assert (Hl1 : lin_ok meta1 lin1).
      { subst meta1 lin1. assert (Ho : ole (bound meta (Some (bound_entry e))) (bound_entry e))
          by (apply ole_bound_r; cbn; lia).
        constructor; [exact Ho|].
        pose proof (W_store w HW q ce Hg) as Hce. unfold ends_le in Hce. fold e in Hce.
        eapply Forall_impl; [|exact Hce]. intros x Hx. cbn beta in Hx.
        eapply ole_trans; [exact Ho|]. rewrite bound_entry_eq. exact Hx. }
      assert (Hm1 : mle meta1 meta) by apply mle_bound.
      destruct (depth <? max_cname_chase_depth).
      + pose proof (additional_ok rec Hrec _ meta1 (mk_msg q (g_rcode (c_msg ce))
                       (set_ttls (shown_ttl e now) (g_an (c_msg ce)))
                       (set_ttls (shown_ttl e now) (g_ns (c_msg ce)))) lin1 depth HW1 Hl1) as Ha.
        unfold res_ok in *.
        destruct (additional rec _ meta1 _ lin1 depth) as [[[w2 meta2] m2] lin2].
        destruct Ha as [A [B C]]. leaf. eapply mle_trans; eassumption.
      + leaf.
  Qed.

  Lemma serve_dns_ok fuel : forall w meta depth q, W w -> res_ok meta (serve_dns sc now fuel w meta depth q).
  Proof.
    induction fuel as [|fuel IH]; intros w meta depth q HW; cbn.
    - leaf.
    - apply serve_body_ok; [|assumption].
      intros w0 d t HW0. specialize (IH w0 None d t HW0). unfold res_ok in IH.
      destruct (serve_dns sc now fuel w0 None d t) as [[[w' child] r] clin].
      destruct IH as [A [B _]]. split; assumption.
  Qed.
End TreeProofs.

(* ---------------- histories ---------------- *)

(* one step of a resolver's life.  Every operation carries the clock readings
   it used; [HQuery] is any client query (hit, chase, miss + admission,
   synthesised denial) under any scripted downstream; [HSet] a direct store
   admission with arbitrary inputs; [HRefresh] the completion of a prefetch
   that claimed entry id [claimed]; [HPurge], [HCut] (a subtree cut recorded
   with any expiry), [HExpire] (cleanup / eviction). *)
Inductive hop :=
| HQuery (sc : scripts) (now : Z) (wit : list Z) (q : N)
| HSet (q : N) (cls : rclass) (rrs : list rr) (wall : Z) (scoped : bool) (ecs : Z) (cut : option Z) (m : msg) (stored : Z)
| HRefresh (q : N) (claimed : N) (cls : rclass) (rrs : list rr) (wall : Z) (cut : option Z) (m : msg) (stored : Z)
| HPurge (q : N)
| HCut (q : N) (c : ccut).

Definition with_wit (w : world) (wit : list Z) : world :=
  mk_world (w_store w) (w_cuts w) (w_next w) wit (w_adm w) (w_hits w).
Definition with_cuts (w : world) (c : cuts) : world :=
  mk_world (w_store w) c (w_next w) (w_wit w) (w_adm w) (w_hits w).

Definition hstep (w : world) (o : hop) : world :=
  match o with
  | HQuery sc now wit q =>
      let '(w', _, _, _) := serve_dns sc now 14%nat (with_wit w wit) None 0 q in w'
  | HSet q cls rrs wall scoped ecs cut m stored =>
      if admitted_class cls
      then w_admit w q stored (admit_ttl cls rrs wall scoped ecs) cut m [] (w_wit w)
      else w
  | HRefresh q claimed cls rrs wall cut m stored =>
      match cs_get (w_store w) q with
      | Some ce => if (e_id (c_entry ce) =? claimed)%N && admitted_class cls
                   then w_admit w q stored (replace_ttl cls rrs wall) cut m [] (w_wit w)
                   else w
      | None => w
      end
  | HPurge q => with_cuts (w_drop w q) (filter (fun p => negb (fst p =? q)%N) (w_cuts w))
  | HCut q c => with_cuts w ((q, c) :: w_cuts w)
  end.
Definition hrun (w : world) (ops : list hop) : world := fold_left hstep ops w.

Definition world0 : world := mk_world [] [] 1 [] [] [].

Lemma W_world0 : W world0.
Proof. constructor; cbn; try (intros; contradiction); try discriminate. constructor. Qed.

Lemma W_with_wit w wit : W w -> W (with_wit w wit).
Proof. intros [H1 H2 H3 H4 H5 H6 H7]. constructor; assumption. Qed.
Lemma W_with_cuts w c : W w -> W (with_cuts w c).
Proof. intros [H1 H2 H3 H4 H5 H6 H7]. constructor; assumption. Qed.

Lemma hstep_W w o : W w -> W (hstep w o).
Proof.
  intros HW. destruct o; cbn -[serve_dns].
  - pose proof (serve_dns_ok sc now 14 (with_wit w wit) None 0 q (W_with_wit w wit HW)) as H.
    unfold res_ok in H. destruct (serve_dns sc now 14 (with_wit w wit) None 0 q) as [[[w' ?] ?] ?]. exact (proj1 H).
  - destruct (admitted_class cls); [|exact HW]. apply W_admit; [exact HW|apply lin_ok_nil].
  - destruct (cs_get (w_store w) q) as [ce|]; [|exact HW].
    destruct ((e_id (c_entry ce) =? claimed)%N && admitted_class cls); [|exact HW].
    apply W_admit; [exact HW|apply lin_ok_nil].
  - apply W_with_cuts, W_drop, HW.
  - apply W_with_cuts, HW.
Qed.

Lemma hrun_W ops w : W w -> W (hrun w ops).
Proof.
  revert w. induction ops as [|o ops IH]; intros w HW; cbn; [exact HW|]. apply IH, hstep_W, HW.
Qed.

(* same id => same stored entry (pointer identity is id equality) *)
Lemma ledger_id_inj w e1 e2 : W w -> In e1 (ledger w) -> In e2 (ledger w) -> e_id e1 = e_id e2 -> e1 = e2.
Proof.
  intros HW. pose proof (W_nodup w HW) as Hnd. revert Hnd. generalize (ledger w). clear.
  induction l as [|a l IH]; intros Hnd H1 H2 Hid; [destruct H1|].
  cbn in Hnd. inversion Hnd as [|? ? Hnotin Hnd']; subst.
  destruct H1 as [->|H1], H2 as [->|H2]; try reflexivity.
  - exfalso. apply Hnotin. rewrite Hid. apply in_map. exact H2.
  - exfalso. apply Hnotin. rewrite <- Hid. apply in_map. exact H1.
  - apply IH; assumption.
Qed.

(* ---------------- the history theorems ---------------- *)

(* every hit in every history is inside the lifetime of the entry it served,
   and that entry is one that was admitted *)
Lemma no_service_past_end_l ops e t n :
  In (e, t, n) (w_hits (hrun world0 ops)) ->
  In e (ledger (hrun world0 ops))
  /\ n < entry_end e
  /\ entry_end e = match e_cut e with Some c => Z.min (e_stored e + e_ttl e) c | None => e_stored e + e_ttl e end
  /\ 0 <= t /\ t * second <= entry_end e - n.
Proof.
  intros Hin. pose proof (hrun_W ops world0 W_world0) as HW.
  pose proof (W_hits _ HW e t n Hin) as [A [B [C _]]].
  pose proof (W_hits_led _ HW e t n Hin) as D.
  repeat split; try assumption.
Qed.

(* the TTL shown never grows between hits on the same stored entry *)
Lemma history_ttl_antitone_l ops e1 t1 n1 e2 t2 n2 :
  In (e1, t1, n1) (w_hits (hrun world0 ops)) -> In (e2, t2, n2) (w_hits (hrun world0 ops)) ->
  e_id e1 = e_id e2 -> n1 <= n2 -> e1 = e2 /\ t2 <= t1.
Proof.
  intros H1 H2 Hid Hn. pose proof (hrun_W ops world0 W_world0) as HW.
  assert (e1 = e2).
  { eapply ledger_id_inj; [exact HW| | |exact Hid]; eapply W_hits_led; eassumption. }
  subst e2. split; [reflexivity|].
  pose proof (W_hits _ HW _ _ _ H1) as [_ [_ [_ S1]]].
  pose proof (W_hits _ HW _ _ _ H2) as [_ [_ [_ S2]]].
  eapply shown_ttl_antitone_l; eassumption.
Qed.

(* every entry ever admitted ends no later than every piece and lease of its
   lineage — including entries composed from entries that were themselves
   composed (the lineage of a piece is part of the lineage of what consumes it) *)
Lemma composed_inherits_min_l ops :
  (forall q e lin, In (q, e, lin) (w_adm (hrun world0 ops)) -> Forall (fun x => entry_end e <= x) lin)
  /\ (forall q ce, cs_get (w_store (hrun world0 ops)) q = Some ce ->
        Forall (fun x => entry_end (c_entry ce) <= x) (c_lin ce)).
Proof.
  pose proof (hrun_W ops world0 W_world0) as HW. split.
  - intros q e lin Hin. exact (W_adm _ HW q e lin Hin).
  - intros q ce Hg. exact (W_store _ HW q ce Hg).
Qed.

(* one tree, stated on its own: whatever the starting world satisfying the
   invariant, scripts, clock reading, nesting depth and name, the entries
   admitted by the tree and the bound it leaves respect every piece consumed *)
Lemma tree_inherits_min_l sc now fuel w meta depth q :
  W w ->
  let '(w', meta', _, lin) := serve_dns sc now fuel w meta depth q in
  W w' /\ Forall (ole meta') lin /\ (forall x, ole meta x -> ole meta' x).
Proof. intros HW. exact (serve_dns_ok sc now fuel w meta depth q HW). Qed.
