(* C04 — proofs, part 4: the RFC 8198 proof index across several admissions.
   A synthesised denial is inside the lifetime of every piece it is built
   from, where a piece's lifetime is that of the admission it arrived in:
   the SOA and SOA signature of THAT proof, the set's own records and
   signatures, and that proof's lease. *)
From Sdns Require Import Common.Base Gen.C04 C04.Model C04.Proofs.
Open Scope Z_scope.

Inductive piop :=
| PIAdmit (now : Z) (cut : option Z) (common : list prr) (sets : list pset)
| PILookup (now : Z) (needed : list N).

Definition pi_step (mx : Z) (st : pindex) (o : piop) : pindex :=
  match o with
  | PIAdmit now cut common sets => fst (pi_admit mx st now cut common sets)
  | PILookup now needed => fst (pi_lookup st now needed)
  end.
Definition pi_run (mx : Z) (ops : list piop) : pindex := fold_left (pi_step mx) ops (mk_pindex None []).

Definition piece_ok (mx : Z) (p : ppiece) : Prop :=
  proof_expiry mx (pp_cut p) (pp_common p ++ pp_set p) (pp_now p) (pp_now p) = Some (pp_expires p).
Definition pinv (mx : Z) (st : pindex) : Prop := forall p, In p (pi_pieces st) -> piece_ok mx p.

Lemma admit_sets_ok mx cut common now sets l :
  admit_sets mx cut common now sets = Some l -> forall p, In p l -> piece_ok mx p.
Proof.
  revert l. induction sets as [|s r IH]; intros l H p Hin; cbn in H.
  - inversion H; subst. destruct Hin.
  - destruct (proof_expiry mx cut (common ++ ps_records s) now now) as [ex|] eqn:E; [|discriminate].
    destruct (admit_sets mx cut common now r) as [l'|]; [|discriminate]. inversion H; subst. clear H.
    destruct Hin as [<-|Hin]; [exact E|]. eapply IH; [reflexivity|exact Hin].
Qed.

Lemma pi_admit_inv mx st now cut common sets : pinv mx st -> pinv mx (fst (pi_admit mx st now cut common sets)).
Proof.
  intros H. unfold pi_admit.
  destruct (proof_expiry mx cut common now now); [|exact H].
  destruct (admit_sets mx cut common now sets) as [l|] eqn:E; [|exact H].
  cbn. intros p Hin. cbn in Hin. unfold pi_replace in Hin. apply in_app_or in Hin. destruct Hin as [Hin|Hin].
  - eapply admit_sets_ok; eassumption.
  - apply filter_In in Hin. apply H. exact (proj1 Hin).
Qed.

Lemma pi_lookup_inv mx st now needed : pinv mx st -> pinv mx (fst (pi_lookup st now needed)).
Proof.
  intros H. unfold pi_lookup. destruct (pi_soa st) as [soa|]; [|intros p []].
  destruct (negb (now <? soa)); [intros p []|].
  assert (Hl : pinv mx (mk_pindex (Some soa) (filter (fun p => now <? pp_expires p) (pi_pieces st)))).
  { intros p Hin. cbn in Hin. apply filter_In in Hin. apply H. exact (proj1 Hin). }
  destruct (forallb _ needed); exact Hl.
Qed.

Lemma pi_run_inv mx ops : pinv mx (pi_run mx ops).
Proof.
  unfold pi_run. assert (H0 : pinv mx (mk_pindex None [])) by (intros p []).
  revert H0. generalize (mk_pindex None []). induction ops as [|o ops IH]; intros st H; cbn; [exact H|].
  apply IH. destruct o; cbn; [apply pi_admit_inv|apply pi_lookup_inv]; exact H.
Qed.

Lemma pi_find_in l o p : pi_find l o = Some p -> In p l /\ pp_owner p = o.
Proof.
  unfold pi_find. intros H. apply find_some in H. destruct H as [H1 H2]. split; [exact H1|]. apply N.eqb_eq. exact H2.
Qed.

(* the theorem, at the level of individual admissions *)
Lemma proof_index_no_service_past_admission_l mx ops now needed t ex :
  snd (pi_lookup (pi_run mx ops) now needed) = Some (t, ex) ->
  now < ex /\ 0 <= t /\ t * second <= ex - now
  /\ forall o, In o needed ->
       exists p, In p (pi_pieces (pi_run mx ops)) /\ pp_owner p = o
         /\ ex <= pp_expires p
         (* ... and that piece ends with the admission it arrived in *)
         /\ pp_now p < pp_expires p
         /\ pp_expires p - pp_now p <= max_denial_proof_ttl
         /\ (forall r c, In r (pp_common p ++ pp_set p) -> In c (prr_cands (pp_now p) r) -> pp_expires p - pp_now p <= c)
         /\ (forall c, pp_cut p = Some c -> pp_expires p <= c).
Proof.
  pose proof (pi_run_inv mx ops) as Hinv. set (st := pi_run mx ops) in *.
  unfold pi_lookup. destruct (pi_soa st) as [soa|]; [|discriminate].
  destruct (negb (now <? soa)); [discriminate|].
  set (live := filter (fun p => now <? pp_expires p) (pi_pieces st)).
  destruct (forallb (fun o => match pi_find live o with Some _ => true | None => false end) needed) eqn:Hall; [|discriminate].
  cbn [snd]. intros Hs. apply proof_serve_spec in Hs. destruct Hs as [_ [Hp [Hlt [Ht0 Ht]]]].
  repeat split; try assumption.
  intros o Ho. rewrite forallb_forall in Hall. specialize (Hall o Ho).
  destruct (pi_find live o) as [p|] eqn:Hf; [|discriminate].
  apply pi_find_in in Hf as Hf'. destruct Hf' as [Hin Hown].
  subst live. apply filter_In in Hin. destruct Hin as [Hin _].
  pose proof (Hinv p Hin) as Hok. unfold piece_ok in Hok.
  apply proof_expiry_no_floor in Hok. destruct Hok as [A [B [_ [D E]]]].
  exists p. split; [exact Hin|]. split; [exact Hown|]. split.
  - apply Hp. apply in_flat_map. exists o. split; [exact Ho|]. rewrite Hf. left. reflexivity.
  - repeat split; assumption.
Qed.
